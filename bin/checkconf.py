"""Per-property configuration of bin/check: Lean modules holding the property theorems (and the ties they
rest on), and the correspondence / search streams. Kept as data so that MANIFEST, DESIGN and the checks agree."""

TRUSTED_BASE = [
    "Lean 4.33 kernel (thorough tier re-checks the .olean files with leanchecker)",
    "axioms allowed in property theorems: propext, Quot.sound, Classical.choice (audited with collectAxioms on every theorem of the property's modules); no sorry/admit/native_decide/bv_decide/user axioms",
    "tools/gen (Go->Lean translator, re-run on /repo's working tree on every check; it refuses what it does not model - DESIGN section 12 'soundness envelope', tools/gen/selftest) and its validation by the correspondence run",
    "tools/okgen (source-to-source generator of the no-panic twins Gen/K*.lean): trusted to guard every panic source it claims to (panic statements, index expressions, calls of functions that can panic; slice expressions, type assertions, non-constant integer division are refused); its output is ordinary Go translated by tools/gen",
    "Base/F64.lean soft-float (F64.intRemZero = gc/amd64's int(f)%c==0 incl. the out-of-range result -2^63: trusted, validated on boundary cases): proved IEEE-754 round-to-nearest-even / exact for all finite operands against the decoding Spec.F64Val.ofBits (Props/IEEE.lean); trusted: that decoding (15 lines), Base/FB.lean on Inf operands and on NaN operands other than the cases proved in Props/IEEE (v4.0 Score does compute with NaN: `math.NaN()` for a missing next-lower MacroVector, `abs(NaN - x)`, `math.IsNaN` - exactly the facts `sub_nan_correct`, `abs_correct`, `isNaN_correct`; no other package produces NaN or Inf), NaN payloads unmodelled; also validated against the hardware by the float stream",
    "Base/Go.lean: Go semantics of the translated subset (uint8 wrap-around, switch, range loops, errors)",
    "parsers: regenerated from the source (Gen/P*.lean) and proved equal to the readable models Model/Parse.lean (Props/ParseTie.lean); trusted: the translator's Go semantics for strings, slices, loops and sync.Pool.Get (any buffer of the length splitPool.New makes: regenerated fact pool_new, pinned to 14 slots by StateTie.pool20)",
    "Spec/*.lean: our transcription of the FIRST v2.0/v3.0/v3.1/v4.0 documents; v4 lookup table from an independent transcription (spec-data/)",
    "Go 1.23 gc compiler on amd64 without FMA contraction; this machine's FPU (correspondence runs)",
]

# modules whose theorems are the obligations of the property (audited); `ties` are built too (a failure = tie broken)
PROPS = {
    "C01": dict(modules=["Cvss.Props.C01", "Cvss.Props.C01b", "Cvss.Props.ParseTieTransfer", "Cvss.Props.ParseTie", "Cvss.Props.C01v2", "Cvss.Props.C01v3", "Cvss.Props.C01v4"], ties=["Cvss.Props.ParseTie"], streams=["parse"]),
    "C02": dict(modules=["Cvss.Props.C02", "Cvss.Props.GenParsers", "Cvss.Props.ParseTie", "Cvss.Props.C02v2", "Cvss.Props.C02v3", "Cvss.Props.C02v4"], ties=["Cvss.Props.ParseTie"], streams=["parse", "obj"]),
    "C03": dict(modules=["Cvss.Props.NoPanic30", "Cvss.Props.NoPanic31", "Cvss.Props.C03", "Cvss.Props.IEEE", "Cvss.Props.F64Facts", "Cvss.Proofs.Score3Base30", "Cvss.Proofs.Score3Base31", "Cvss.Proofs.Score3Close30", "Cvss.Proofs.Score3Close31", "Cvss.Proofs.Score3CloseDef", "Cvss.Proofs.Score3Codes30", "Cvss.Proofs.Score3Codes31", "Cvss.Proofs.Score3Env30_0", "Cvss.Proofs.Score3Env30_1", "Cvss.Proofs.Score3Env30_2", "Cvss.Proofs.Score3Env30_3", "Cvss.Proofs.Score3Env31_0", "Cvss.Proofs.Score3Env31_1", "Cvss.Proofs.Score3Env31_2", "Cvss.Proofs.Score3Env31_3", "Cvss.Proofs.Score3M30", "Cvss.Proofs.Score3M31", "Cvss.Proofs.Score3Main30", "Cvss.Proofs.Score3Main31", "Cvss.Proofs.Score3Roundup", "Cvss.Proofs.Score3Spec", "Cvss.Proofs.Score3T30", "Cvss.Proofs.Score3T31", "Cvss.Proofs.Score3Util"], ties=[], streams=["score:F:30,31"]),
    "C04": dict(modules=["Cvss.Props.NoPanic40", "Cvss.Props.C04", "Cvss.Props.IEEE", "Cvss.Props.F64Facts", "Cvss.Proofs.Score4Main", "Cvss.Proofs.Score4TailAll", "Cvss.Proofs.Score4Groups", "Cvss.Proofs.Score4Loops", "Cvss.Proofs.Score4MV", "Cvss.Proofs.Score4Shape", "Cvss.Spec.V4Lemmas", "Cvss.Proofs.Score4Tail00", "Cvss.Proofs.Score4Tail01", "Cvss.Proofs.Score4Tail02", "Cvss.Proofs.Score4Tail03", "Cvss.Proofs.Score4Tail04", "Cvss.Proofs.Score4Tail05", "Cvss.Proofs.Score4Tail06", "Cvss.Proofs.Score4Tail07", "Cvss.Proofs.Score4Tail08", "Cvss.Proofs.Score4Tail09", "Cvss.Proofs.Score4Tail10", "Cvss.Proofs.Score4Tail11", "Cvss.Proofs.Score4Tail12", "Cvss.Proofs.Score4Tail13", "Cvss.Proofs.Score4Tail14", "Cvss.Proofs.Score4Tail15", "Cvss.Proofs.Score4Tail16", "Cvss.Proofs.Score4Tail17"], ties=[], streams=["score:F:40"]),
    "C05": dict(modules=["Cvss.Props.NoPanic20", "Cvss.Props.C05", "Cvss.Props.IEEE", "Cvss.Props.F64Facts", "Cvss.Proofs.Score2Base", "Cvss.Proofs.Score2Defs", "Cvss.Proofs.Score2F", "Cvss.Proofs.Score2Main", "Cvss.Proofs.Score2Mono", "Cvss.Proofs.Score2Near", "Cvss.Proofs.Score2Ok", "Cvss.Proofs.Score2RB00", "Cvss.Proofs.Score2RB01", "Cvss.Proofs.Score2RB02", "Cvss.Proofs.Score2RB10", "Cvss.Proofs.Score2RB11", "Cvss.Proofs.Score2RB12", "Cvss.Proofs.Score2RB20", "Cvss.Proofs.Score2RB21", "Cvss.Proofs.Score2RB22", "Cvss.Proofs.Score2T20", "Cvss.Proofs.Score2T21", "Cvss.Proofs.Score2T22", "Cvss.Proofs.Score2T23", "Cvss.Proofs.Score2T2Mono", "Cvss.Proofs.Score2Tables", "Cvss.Proofs.Score2Wf"], ties=[], streams=["score:F:20"]),
    "C06": dict(modules=["Cvss.Props.C06", "Cvss.Props.GenParsers", "Cvss.Props.ParseTie", "Cvss.Props.C06v2", "Cvss.Props.C06v3", "Cvss.Props.C06v4"], ties=["Cvss.Props.ParseTie"], streams=["parse"]),
    "C07": dict(modules=["Cvss.Props.C07", "Cvss.Props.C07v4"], ties=[], streams=["obj"]),
    "C08": dict(modules=["Cvss.Props.C08", "Cvss.Props.GenParsers", "Cvss.Props.ParseTie", "Cvss.Props.C08v2", "Cvss.Props.C08v3", "Cvss.Props.C08v4"], ties=["Cvss.Props.ParseTie"], streams=["parse", "obj"]),
    "C09": dict(modules=["Cvss.Props.C09", "Cvss.Props.C09v4", "Cvss.Props.C09b", "Cvss.Props.NoPanic20", "Cvss.Props.NoPanic30", "Cvss.Props.NoPanic31", "Cvss.Props.NoPanic40"], ties=[], streams=["obj", "parse", "score:F"]),
    "C10": dict(modules=["Cvss.Props.C10"], ties=[], streams=["score:K"]),
    "C11": dict(modules=["Cvss.Props.IEEE", "Cvss.Props.F64Facts", "Cvss.Props.C11v2", "Cvss.Props.C11v3", "Cvss.Props.C11v4", "Cvss.Props.NoPanic20", "Cvss.Props.NoPanic30", "Cvss.Props.NoPanic31", "Cvss.Props.NoPanic40"], ties=[], streams=["score:F"]),
    "C12": dict(modules=["Cvss.Props.C12v2", "Cvss.Props.C12v3", "Cvss.Props.C12v4", "Cvss.Proofs.Score3MonoA_0", "Cvss.Proofs.Score3MonoA_1", "Cvss.Proofs.Score3MonoA_2", "Cvss.Proofs.Score3MonoA_3", "Cvss.Proofs.Score3MonoBT", "Cvss.Proofs.Score3MonoB_0", "Cvss.Proofs.Score3MonoB_1", "Cvss.Proofs.Score3MonoB_2", "Cvss.Proofs.Score3MonoDefs", "Cvss.Proofs.Score3MonoObj", "Cvss.Proofs.Score3MonoSpec", "Cvss.Proofs.Score3MonoStr", "Cvss.Proofs.Mono4All", "Cvss.Proofs.Mono4Bound", "Cvss.Proofs.Mono4Bridge0", "Cvss.Proofs.Mono4Bridge1", "Cvss.Proofs.Mono4Bridge2", "Cvss.Proofs.Mono4Bridge3", "Cvss.Proofs.Mono4Bridge4", "Cvss.Proofs.Mono4Bridge5", "Cvss.Proofs.Mono4BridgeDef", "Cvss.Proofs.Mono4Cover", "Cvss.Proofs.Mono4Cover36", "Cvss.Proofs.Mono4Cover36H", "Cvss.Proofs.Mono4Cover36L", "Cvss.Proofs.Mono4Cover36N", "Cvss.Proofs.Mono4Eff", "Cvss.Proofs.Mono4Lists", "Cvss.Proofs.Mono4P", "Cvss.Proofs.Mono4Pack", "Cvss.Proofs.Mono4Raw", "Cvss.Proofs.Mono4Tab1", "Cvss.Proofs.Mono4Tab2", "Cvss.Proofs.Mono4Tab36", "Cvss.Proofs.Mono4Tab4", "Cvss.Proofs.Mono4Tab5"], ties=[], streams=["score:M"]),
    "C13": dict(modules=["Cvss.Props.C13", "Cvss.Props.GenParsers", "Cvss.Props.ParseTie", "Cvss.Props.C13b", "Cvss.Props.C13v2", "Cvss.Props.C13v3", "Cvss.Props.C13v4"], ties=["Cvss.Props.ParseTie"], streams=["parse"]),
    "C14": dict(modules=["Cvss.Props.C14", "Cvss.Props.C14b"], ties=["Cvss.Props.ParseTie"], streams=["race", "hist", "obj"]),
    "C15": dict(modules=["Cvss.Props.C15", "Cvss.Props.IEEE"], ties=[], streams=["rating"]),
    "C16": dict(modules=["Cvss.Props.C16"], ties=[], streams=["obj"]),
    "C17": dict(modules=["Cvss.Props.C17", "Cvss.Props.C17b"], ties=[], streams=["obj", "alloc"]),
    "C18": dict(modules=["Cvss.Props.C18", "Cvss.Props.GenParsers", "Cvss.Props.ParseTie", "Cvss.Props.ParseTieTransfer", "Cvss.Props.C18v2", "Cvss.Props.C18v3", "Cvss.Props.C18v4", "Cvss.Findings.C18v2"], ties=["Cvss.Props.ParseTie"], streams=["defect", "obj", "parse"]),
}

# the packages a property speaks about: a translator refusal, a model difference or a Spec violation in another package is
# not this property's business (it is reported by the properties of that package)
VERSIONS = {"C03": ["30", "31"], "C04": ["40"], "C05": ["20"], "C15": ["30", "31", "40"], "C16": ["40"]}
ALL_VERSIONS = ["20", "30", "31", "40"]

# every stream also validates the model (DIFF lines); the float stream validates Base/F64 for the score properties
# thorough tier only: exhaustive walks of the real code (v2.0: all 139,968,000 objects against the factored composition of the
# code's own representatives; deviating objects are judged against the Spec)
THOROUGH_STREAMS = {"C05": ["sweep20"], "C11": ["sweep20"]}
# properties whose theorems use the regenerated no-panic twins lean/Cvss/Gen/K*.lean
K_PROPS = ["C09", "C11"]
EXTRA_STREAMS = {"C03": ["float"], "C04": ["float"], "C05": ["float"], "C11": ["float"], "C15": ["float"]}

NOT_CLAIMED = {}

def _lt(category, text, note, technique):
    return dict(category=category, text=text, note=note, technique=technique)

_PENDING = "Lean theorems for this property are being merged; until its Props modules are registered the check decides it by the Spec-oracle differential only"
_NOTE = ("testing level: reach bounded by the generators (edit neighbourhoods of valid skeletons, seeded mutational and random streams); "
         "oracle = executable Lean Spec (lean/Cvss/Spec), model validated against the code on every run")
_TECH = "Lean 4 proof about a model regenerated from the Go source, tied by translation + differential correspondence; Spec-oracle search for the failing input"
_PARSER_NOTE = ("trusted: Lean kernel; the translator (tools/gen) which REGENERATES ParseVector, split, splitCouple and kvm.Set of all four packages into lean/Cvss/Gen/P*.lean on every run - "
                "Props/ParseTie.lean proves, for every byte string (and every stale pool buffer for v2), that the regenerated parser equals the readable model Model/Parse.lean the theorems are "
                "stated on, incl. that no index/slice/loop-fuel panic is reachable; its Go semantics for strings/slices/loops (Base/Go.lean, strings.Cut/HasPrefix models); validated by the "
                "parse/defect streams (~1.3e5 strings per quick run: edit neighbourhoods of valid skeletons + mutational + random bytes, 0 differences); the Spec transcription "
                "(Spec/Metrics, Spec/Grammar, Spec/Errors)")
LEVEL_TEXT = {
    pid: _lt("exploration", _PENDING, _NOTE, "differential testing of the implementation against an executable Lean Spec and model (proofs pending)")
    for pid in []
}
LEVEL_TEXT["C02"] = _lt("proof",
    "Theorems C02.v20…v40 / reachable20…40: for EVERY object reachable through the API (Reachable <-> wf, C09) the regenerated Vector() is accepted by the version's parser "
    "model and the parsed object IS the original (value equality = ==, hence equal on every Get). Structural: Vector shape theorem (Proofs/Vec*.lean, from the generated "
    "append chain), parser completeness on the canonical spelling, get/set laws, extensionality. All 1.4e8 / 5.7e11 / 2.7e17 objects at once.",
    _PARSER_NOTE + "; translator for Vector/lenVec (obj stream compares Vector(), lenVec, round trip on every object incl. raw bytes)", _TECH)
LEVEL_TEXT["C08"] = _lt("proof",
    "Theorems C08.v20…v40: for every accepted string and its grammar witness w, Vector() of the parsed object = Spec canonical w (spec order, X removed; v2 groups dropped iff all ND); "
    "fixed*: a canonical string comes back unchanged; twice*: the re-parse returns the same object, so parse-serialise is idempotent.",
    _PARSER_NOTE + "; Spec canonical form (Spec/Grammar.lean)", _TECH)
LEVEL_TEXT["C17"] = _lt("proof",
    "PARTIAL. Proved: (Props/C17.lean) for every well-formed object of every version len(Vector()) = lenVec() - exact length formula for ALL byte states; per optional metric the "
    "mask test <-> value != X and the increment = len(prefix)+len(value), incl. U:Clear/Green/Amber/Red; (Props/C17b.lean) in the buffer cost model of Model/Alloc.lean (make = 1 "
    "allocation, an append beyond the capacity = 1 more) the capacity the code passes to make (regenerated as Vector_cap, proved = lenVec(): cap_eq_lenVecNN, vector_fitsNN) costs exactly ONE allocation for any decomposition of the text into appends, and any "
    "under-count regrows. NOT provable in a model (measured instead): escape analysis, the unsafe string conversion, sync.Pool steady state, that ParseVector/Get/Set/scores/Rating/"
    "Nomenclature allocate 0-1: the alloc stream counts real mallocs (runtime.MemStats deltas) for Vector, ParseVector after valid and after rejected inputs, Get, Set (legal and illegal), "
    "scores, Rating, Nomenclature on every optional metric alone, every value, all together and random objects.",
    "trusted: Go allocator/escape analysis behaviour (measured, not modelled); translator for Vector/lenVec; the cost model's reading of append", _TECH + "; runtime part: allocation measurements")
LEVEL_TEXT["C01"] = _lt("proof",
    "Theorems C01.v20/v30/v31/v40: for EVERY byte string (induction, no length bound) the parser model accepts iff the string is in the generative grammar of "
    "Spec/Grammar.lean (right header, only the version's abbreviations, each at most once, order rule, all mandatory metrics, legal values, nothing else), and "
    "C01.no_panic. Instantiated with the Get/Set contract proved from the regenerated bit-field code (Proofs/Bits*.lean), so a changed value list, header constant or "
    "order table breaks a named lemma. The Go-level result shape (nil/non-nil) and absence of panics of the real code are asserted by the harness on every call.",
    _PARSER_NOTE, _TECH)
LEVEL_TEXT["C06"] = _lt("proof",
    "Theorems C06.v20…v40: for every accepted string, every grammar witness of it and every metric, the regenerated Get on the parsed object returns the value "
    "written in the string, or ND/X for an omitted optional metric (valueOf of the Spec witness, not of the parser); proved via get-after-set laws on value STRINGS "
    "against the Spec tables, so a consistent encoder/decoder permutation is excluded.", _PARSER_NOTE, _TECH)
LEVEL_TEXT["C07"] = _lt("proof",
    "Theorems C07.V20/V30/V31/V40: for ALL byte states and all strings: successful Set(m,v) makes Get(m)=v and leaves every other metric's Get unchanged (all ordered pairs); "
    "a failed Set returns the object unchanged; well-formedness is preserved; Reachable c <-> wf c; two well-formed objects with equal Gets are equal (==). "
    "Proved on the regenerated Get/Set by per-arm specialisation and one-byte kernel enumerations (decide), so any mask/shift/value-list typo breaks a lemma.",
    "trusted: Lean kernel; the translator for Get/Set/validate (validated by the obj stream: Set/Get/observers from zero, random histories, random and patterned raw bytes); Base/Go.lean semantics of uint8 ops", _TECH)
LEVEL_TEXT["C09"] = _lt("proof",
    "Theorems C09.V20…V40: Get/Set recognise exactly the Spec abbreviations (any other byte string, incl. case variants, gives *ErrInvalidMetric and no change); Set accepts "
    "exactly the Spec value list of the metric; every reachable object is wf and every Get on it is a legal non-empty value. The consequence 'Vector() is grammatical' "
    "is a theorem of C02. 'Every scoring function (and Vector, lenVec, get) returns without panicking' is proved on the regenerated no-panic twins (tools/okgen -> Gen/K*.lean: for every "
    "function that can panic - a panic statement, an index expression, a callee that can - a twin that follows the same path and reports whether it returns normally): "
    "Props/NoPanic20/30/31/40: X_ok = true for EVERY well-formed object and every API method that has a twin (v4.0 Score_ok incl. every lookupMV of a next-lower MacroVector, every "
    "table index and severityDistance inside the loop nest), and the pinned list okPanicFree of functions with no panic source at all (Get, Set, Rating, Nomenclature, ...). "
    "The obj/parse/score streams additionally run the real code on every generated object.",
    "trusted: as C07; Spec/Metrics.lean tables", _TECH)
LEVEL_TEXT["C13"] = _lt("proof",
    "Theorem C13.exclusive: for every byte string at most one of the four parser models accepts (accepted => own prefix; the regenerated header constants are pairwise "
    "prefix-incompatible, by decide). 'Vector() of one version is rejected by the others' follows with C02 and is also judged on every X operation of the parse stream.",
    _PARSER_NOTE, _TECH)
LEVEL_TEXT["C14"] = _lt("proof",
    "PARTIAL. Proved (Props/C14.lean): the regenerated shared-state facts (no package-level writes in any package; the only shared mutable object is v2's splitPool with "
    "exactly Get/Put in ParseVector; exactly one unsafe conversion per Vector); ParseVector run with ANY stale 14-slot pool buffer equals the pool-free model "
    "(parse20With_indep); for EVERY schedule of the ownership state machine (threads x pool, steps get/tick/put/gc) every result equals the sequential parse "
    "(schedule_independent), with an aliasing counter-model showing the theorem is not vacuous. NOT provable in any model here: the Go memory model, sync.Pool's "
    "implementation, unsafe aliasing, the race detector's verdict - covered by testing only (race stream under the Go race detector: cold-start concurrency, 16 goroutines, poisoned pool, "
    "string stability, copies; hist stream: two processes executing the same calls in opposite orders). The determinism statements of Props/C14 section 4 are true by construction of the "
    "translation (marked as such); the pool state machine's steps are PROVED to be the regenerated loop bodies (Props/C14b.lean: a split-phase tick = one application of GenP20.split_for1, a loop-phase tick = "
    "one application of GenP20.ParseVector_range1; stuttering simulation; schedule_independent_gen: every finished call's result = the regenerated ParseVector on any 14-slot buffer, in "
    "particular on the buffer the thread actually held).",
    "trusted: sync.Pool contract (an object obtained by Get is not handed out again before Put) as the model's step rule; translator's state-fact extractor is syntactic "
    "(no alias/data-flow analysis); Go runtime for everything concurrent", _TECH + "; runtime part: stress testing under the race detector")
LEVEL_TEXT["C15"] = _lt(
    "proof",
    "Lean 4 theorems rating30/31/40_spec: for EVERY non-NaN float64 bit pattern the regenerated Rating of each package returns exactly what the "
    "qualitative scale (Spec/Rating.lean, exact values num/2^1075, no floats) prescribes for the real number denoted, incl. -0, subnormals, +-Inf; "
    "rating_same: the three packages' functions are equal; rating*_nan: what happens on NaN. No enumeration: order lemmas F64.lt/le = order of exact values, "
    "and the number-theoretic lemma that no double lies in [1/10, fl(0.1)). Proofs unfold the regenerated definitions, so a changed threshold/operator/string breaks them.",
    "trusted: Lean kernel; translator for Rating (validated by the rating stream: 7k/600k bit patterns incl. every threshold and its float neighbours, compared "
    "with the real functions); F64.lt/F64.le formalisation (proved equal to the exact order, so only the IEEE decoding in Spec/Rating.lean is trusted)",
    "Lean 4 proof over all float64 (structural, omega) on the regenerated model + differential validation of the translation")
LEVEL_TEXT["C16"] = _lt("proof",
    "Theorem C16.nomenclature: for EVERY byte state the regenerated Nomenclature equals CVSS-B ++ (T iff Get(E) != X) ++ (E iff some environmental metric of the Spec "
    "table reads != X); base and supplemental metrics provably irrelevant. One-byte kernel enumerations against the bit layout proved in C07.",
    "trusted: Lean kernel; translator for Nomenclature/Get (validated by the obj stream); Spec group tables", _TECH)
LEVEL_TEXT["C18"] = _lt("proof",
    "Theorems C18.v30/v31/v40: for every grammatical vector, every defect of Spec/Errors.lean (bad/missing header, illegal value, removed mandatory metric, repeated, unknown, "
    "swapped, moved to any other position, truncated) at every position, the parser model returns exactly the documented error value incl. the Abv payload; header30/31/40(_iff, _spec): for EVERY byte string the error is ErrInvalidCVSSHeader iff the part before the first '/' is not the version's header (v3: iff the string does not begin with CVSS:3.x/; v4.0: iff it is neither the bare CVSS:4.0 nor begins with CVSS:4.0/ - header followed by junk is a header error, holds only with the fix: commit of finding F4); getset_errors*: unknown abbreviation / "
    "illegal value for Get/Set. v2.0: the full statement is FALSE on the unchanged code (known finding F3, negation proved in Findings/C18v2.lean and reproduced on the real "
    "code); v20_partial proves every case except an insertion after a complete environmental group, and v2_errors_afterEnv characterises the finding exactly.",
    _PARSER_NOTE, _TECH)
_SCORE_NOTE = ("trusted: Lean kernel (decide +kernel over complete finite tables, no native_decide); the IEEE-754 decoding Spec.F64Val.ofBits - the soft-float Base/F64.lean itself is PROVED "
               "(Props/IEEE.lean) to be round-to-nearest-even for mul/div/add/sub/ofNat, exact for neg/abs/round/roundToEven/floor/ceil/trunc/min/max/eq/lt/le on all finite operands, and "
               "F64.tenth k is PROVED the unique double nearest k/10 (Props/F64Facts.lean); additionally validated on >1.5e6 hardware operations by the float stream; translator for the scoring functions (score stream: bit-exact comparison of every score on all base classes and sampled full objects); "
               "the Spec transcription of the equations/tables (Spec/V2, V3, V4; v4 lookup table from an independent transcription); no FMA contraction on this target")
LEVEL_TEXT["C04"] = _lt("proof",
    "Theorem Props.C04: for EVERY well-formed v4.0 object (2.67e17) the regenerated Score is IEEE-equal to the double nearest Spec.V4.scoreK/10, where scoreK is the exact-rational "
    "section 8.2 algorithm rounded half-up (0 when the six effective impacts are N). Proof: Score_core = named pieces of the generated text (rfl); macroVector_core = Spec EQ1-EQ6 by "
    "enumeration of raw code tuples; the generated loop nest selects a dominating highest-severity vector (generic forRange lemmas); float tail checked by the kernel on all 270 "
    "MacroVectors x all 52,650 reachable distance tuples; Spec self-consistency (maxes = Pareto maxima, depths = max distance, equal distance sums) in Spec/V4Lemmas. "
    "Holds only with the two fix: commits (8fa0a17, a3d41a1); it fails again if either defect returns.", _SCORE_NOTE, _TECH)
LEVEL_TEXT["C05"] = _lt("proof",
    "Theorems C05.base/temporal/environmental_conforms: for EVERY well-formed v2.0 object (139,968,000) each score is IEEE-equal to the double nearest k/10 for a tenth k that is a "
    "conforming rounding of the guide 3.2 equations over exact rationals (relation Near: either neighbour at an exact half-way tie; chained roundings as relations TemporalOK/EnvOK), "
    "*_unique: THE rounded value when no tie occurs; impact/exploitability within 1e-12 of the exact value; O1_*: exactly when -0.0 is returned. Kernel enumeration of the factored "
    "domains (729 base, 12,100 temporal steps, 46,656 recomputed bases, 3,630 final steps) + shape lemmas by unfolding the generated bodies.", _SCORE_NOTE, _TECH)
LEVEL_TEXT["C10"] = _lt("proof",
    "Theorems C10.v30/v31_env/base/temporal and C10.v40_score: for every pair of well-formed objects with equal effective key (Spec/Effective.lean: Modified if defined else base; "
    "X = documented default; no supplemental metric) the regenerated scores are EQUAL terms; corollaries: filling an X with a copy of the base value, changing an overridden base metric, "
    "replacing X by its default, any supplemental Set (v4), any environmental Set (v3 Base/Temporal) leave the score unchanged. Structural: the generated cores use each pair only "
    "through mod_ and X only through the default's weight (small decide tables on the generated weight functions); no float evaluation.",
    "trusted: Lean kernel; translator for the scoring functions and Get/Set (score stream K operations compare scores of 1.5e3/6e4 equal-key pairs per version)", _TECH)
LEVEL_TEXT["C11"] = _lt("proof",
    "Theorems C11v2/C11v3/Props.C11v4: for every well-formed object of every version each scoring method returns a finite double that is bit-equal to F64.tenth k (the double "
    "nearest k/10; v2 Base/Temporal may return -0.0 for k = 0, characterised exactly in C05.O1_*) with 0 <= k <= 100 (v2 Environmental: -2 <= k <= 100, the documented exception, "
    "attained), never the panic/poison value, and the package's regenerated Rating accepts it (101-case kernel tables on the generated Rating). Corollaries of C03/C04/C05 plus "
    "Spec-level bounds (scoreK <= 100 proved structurally for v4).", _SCORE_NOTE, _TECH)
LEVEL_TEXT["C12"] = _lt("proof",
    "Theorems C12v2.base/temporal_monotone, Props.C12v3.base/temporal/environmental_v31 + base/temporal_v30, Props.C12v4.C12v4: for every well-formed object, every metric and every pair "
    "of legal values v1, v2 with v2 at least as severe as v1 in the Spec order (Spec/Effective.lean, Spec/OrderV2.lean; a Modified X ranks as the base value), the score with v1 is <= the score "
    "with v2 (F64.le on the regenerated scores after Set). Proved on the exact Specs by kernel enumeration of (single-step transition) x (context) - v4: 852k comparisons over group summaries, "
    "v3.1: 16+9 chunks over the environmental-inner classes incl. Scope and the scope-dependent PR weight - and transferred with C03/C04 (score = tenth K) and C10. Also proved: the v3.0 "
    "EnvironmentalScore is NOT monotone (already on the FIRST v3.0 equations; the property does not claim it).", _SCORE_NOTE, _TECH)
LEVEL_TEXT["C03"] = _lt("proof",
    "Theorems Props.C03.base/temporal/environmental_v31/_v30 (+ impact/exploitability): for EVERY well-formed v3.0/v3.1 object (573,308,928,000 per version) each regenerated score is "
    "bit-equal to the double nearest K/10 where K is the exact-decimal evaluation of the FIRST equations (Spec/V3.lean: weights, scope-dependent PR, 0.915 cap, the version's own "
    "ModifiedImpact, 10 cap, zero when (Modified)Impact <= 0, Roundup = least tenth >= x), finite, K <= 100; Impact/Exploitability within 1e-12 of the exact values. Kernel enumeration: "
    "2,592 base classes, 10,100 temporal steps, 69,984 environmental-inner classes per version (16 chunks; X reduced to M by lemma), shape lemmas by unfolding the generated bodies; "
    "also proved: real-number Roundup = Appendix-A integer Roundup on every value the equations produce.", _SCORE_NOTE, _TECH)
for pid in []:
    LEVEL_TEXT[pid] = _lt("exploration", _PENDING, _NOTE, "differential testing of the implementation against an executable Lean Spec and model (proofs pending)")
for pid in []:
    NOT_CLAIMED[pid] = "check under construction (Spec and theorems for this property are not merged yet); see DESIGN.md section 7"
