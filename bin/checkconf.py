"""Per-property configuration of bin/check: Lean modules holding the property theorems (and the ties they
rest on), and the correspondence / search streams. Kept as data so that MANIFEST, DESIGN and the checks agree."""

TRUSTED_BASE = [
    "Lean 4.33 kernel (thorough tier re-checks the .olean files with leanchecker)",
    "axioms allowed in property theorems: propext, Quot.sound, Classical.choice (audited with collectAxioms on every theorem of the property's modules); no sorry/admit/native_decide/bv_decide/user axioms",
    "tools/gen (Go->Lean translator, re-run on /repo's working tree on every check) and its validation by the correspondence run",
    "Base/F64.lean + Base/FB.lean: our formalisation of IEEE-754 binary64 (+ - * / compare min round floor), validated against the hardware by the float stream",
    "Base/Go.lean: Go semantics of the translated subset (uint8 wrap-around, switch, range loops, errors)",
    "hand-written models Model/Parse.lean (ParseVector, split, splitCouple, kvm.Set): tied by source hashes (Model/SrcTie.lean) and by the correspondence differential only",
    "Spec/*.lean: our transcription of the FIRST v2.0/v3.0/v3.1/v4.0 documents; v4 lookup table from an independent transcription (spec-data/)",
    "Go 1.23 gc compiler on amd64 without FMA contraction; this machine's FPU (correspondence runs)",
]

# modules whose theorems are the obligations of the property (audited); `ties` are built too (a failure = tie broken)
PROPS = {
    "C01": dict(modules=["Cvss.Props.C01v2", "Cvss.Props.C01v3", "Cvss.Props.C01v4"], ties=["Cvss.Model.SrcTie"], streams=["parse"]),
    "C02": dict(modules=["Cvss.Props.C02v2", "Cvss.Props.C02v3", "Cvss.Props.C02v4"], ties=["Cvss.Model.SrcTie"], streams=["parse", "obj"]),
    "C03": dict(modules=[], ties=[], streams=["score"]),
    "C04": dict(modules=[], ties=[], streams=["score"]),
    "C05": dict(modules=[], ties=[], streams=["score"]),
    "C06": dict(modules=["Cvss.Props.C06v2", "Cvss.Props.C06v3", "Cvss.Props.C06v4"], ties=["Cvss.Model.SrcTie"], streams=["parse"]),
    "C07": dict(modules=["Cvss.Props.C07v4"], ties=[], streams=["obj"]),
    "C08": dict(modules=["Cvss.Props.C08v2", "Cvss.Props.C08v3", "Cvss.Props.C08v4"], ties=["Cvss.Model.SrcTie"], streams=["parse", "obj"]),
    "C09": dict(modules=["Cvss.Props.C09v4"], ties=[], streams=["obj", "parse"]),
    "C10": dict(modules=[], ties=[], streams=["score"]),
    "C11": dict(modules=[], ties=[], streams=["score"]),
    "C12": dict(modules=[], ties=[], streams=["score"]),
    "C13": dict(modules=["Cvss.Props.C13v2", "Cvss.Props.C13v3", "Cvss.Props.C13v4"], ties=["Cvss.Model.SrcTie"], streams=["parse"]),
    "C14": dict(modules=["Cvss.Props.C14"], ties=["Cvss.Model.SrcTie"], streams=["race", "obj"]),
    "C15": dict(modules=["Cvss.Props.C15"], ties=[], streams=["rating"]),
    "C16": dict(modules=["Cvss.Props.C16"], ties=[], streams=["obj"]),
    "C17": dict(modules=[], ties=[], streams=["obj", "alloc"]),
    "C18": dict(modules=["Cvss.Props.C18v2", "Cvss.Props.C18v3", "Cvss.Props.C18v4", "Cvss.Findings.C18v2"], ties=["Cvss.Model.SrcTie"], streams=["defect", "obj", "parse"]),
}

# every stream also validates the model (DIFF lines); the float stream validates Base/F64 for the score properties
EXTRA_STREAMS = {"C03": ["float"], "C04": ["float"], "C05": ["float"], "C11": ["float"], "C15": ["float"]}

NOT_CLAIMED = {}

def _lt(category, text, note, technique):
    return dict(category=category, text=text, note=note, technique=technique)

_PENDING = "Lean theorems for this property are being merged; until its Props modules are registered the check decides it by the Spec-oracle differential only"
_NOTE = ("testing level: reach bounded by the generators (edit neighbourhoods of valid skeletons, seeded mutational and random streams); "
         "oracle = executable Lean Spec (lean/Cvss/Spec), model validated against the code on every run")
LEVEL_TEXT = {
    pid: _lt("exploration", _PENDING, _NOTE, "differential testing of the implementation against an executable Lean Spec and model (proofs pending)")
    for pid in ["C01", "C02", "C06", "C07", "C08", "C09", "C13", "C14", "C16", "C17", "C18"]
}
LEVEL_TEXT["C15"] = _lt(
    "proof",
    "Lean 4 theorems rating30/31/40_spec: for EVERY non-NaN float64 bit pattern the regenerated Rating of each package returns exactly what the "
    "qualitative scale (Spec/Rating.lean, exact values num/2^1075, no floats) prescribes for the real number denoted, incl. -0, subnormals, +-Inf; "
    "rating_same: the three packages' functions are equal; rating*_nan: what happens on NaN. No enumeration: order lemmas F64.lt/le = order of exact values, "
    "and the number-theoretic lemma that no double lies in [1/10, fl(0.1)). Proofs unfold the regenerated definitions, so a changed threshold/operator/string breaks them.",
    "trusted: Lean kernel; translator for Rating (validated by the rating stream: 7k/600k bit patterns incl. every threshold and its float neighbours, compared "
    "with the real functions); F64.lt/F64.le formalisation (proved equal to the exact order, so only the IEEE decoding in Spec/Rating.lean is trusted)",
    "Lean 4 proof over all float64 (structural, omega) on the regenerated model + differential validation of the translation")
for pid in ["C03", "C04", "C05", "C10", "C11", "C12"]:
    NOT_CLAIMED[pid] = "check under construction (Spec and theorems for this property are not merged yet); see DESIGN.md section 7"
