import Cvss.Spec.Metrics
/-!
# Driver: the Spec's score oracle, per version

`tenths ver val` = for each main score of the version (v2/v3: base, temporal, environmental; v4: score) the list of
admissible values in tenths according to the Spec (`Spec/V2.lean`: one or two values at an exact half-way tie;
`Spec/V3.lean`, `Spec/V4.lean`: exactly one). Empty list = Spec for that version not available.
-/
namespace SpecScores
def tenths (ver : String) (val : List Nat → List Nat) : List (List Int) := []
end SpecScores
