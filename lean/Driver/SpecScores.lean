import Cvss.Spec.V2
import Cvss.Spec.V3
import Cvss.Spec.V4
/-!
# Driver: the Spec's score oracle, per version

`tenths ver val` = for each main score of the version (v2/v3: base, temporal, environmental; v4: score) the list of
admissible values in tenths according to the Spec (`Spec/V2.lean`: one or two values at an exact half-way tie of the
guide's round_to_1_decimal; `Spec/V3.lean`, `Spec/V4.lean`: exactly one).
-/
namespace SpecScores
def tenths (ver : String) (val : List Nat → List Nat) : List (List Int) :=
  match ver with
  | "20" => [Spec.V2.baseKs val, Spec.V2.temporalKs val, Spec.V2.envKs val]
  | "30" => [[(Spec.V3.baseK false val : Nat)], [(Spec.V3.temporalK false val : Nat)], [(Spec.V3.environmentalK false val : Nat)]]
  | "31" => [[(Spec.V3.baseK true val : Nat)], [(Spec.V3.temporalK true val : Nat)], [(Spec.V3.environmentalK true val : Nat)]]
  | "40" => [[(Spec.V4.scoreK val : Nat)]]
  | _ => []
/-- exact unrounded sub-scores (Impact, Exploitability) of v2/v3 as `(numerator, denominator)` pairs -/
def subScores (ver : String) (val : List Nat → List Nat) : List (Int × Nat) :=
  match ver with
  | "20" => let i := Spec.V2.impact val; let e := Spec.V2.exploitability val; [(i.num, i.den), (e.num, e.den)]
  | "30" | "31" =>
    let i := Spec.V3.impact val; let e := Spec.V3.exploitability val
    [(i.1, 10 ^ i.2), (e.1, 10 ^ e.2)]
  | _ => []
end SpecScores
