import Driver.SearchLib
import Cvss.Proofs.Score3M31
import Cvss.Proofs.Score3M30
import Cvss.Proofs.Score3Codes31
import Cvss.Proofs.Score3Codes30
import Cvss.Proofs.Score2Ok
import Cvss.Proofs.Score4Groups
import Cvss.Proofs.Score4TailDef
/-!
# `search`: the proofs' own predicates, evaluated natively over the proofs' own domains (+ the object level)

`search <C03|C04|C05|C11> [version] [--all] [--max N]`

Predicate level: exactly the Boolean predicates the `decide +kernel` chunk theorems evaluate
(`Proofs.Score3.V31.okBase/okT/okInner` and the v3.0 twins, `Proofs.Score2.okBase/okRB/okT2/okF/…`,
`Proofs.Score4.chk1/chk2/chk36/chk4/chk5/stOk/chkN/chkNS/tailOk`), over the same ranges, compiled. A failing code tuple is
mapped to value strings through the generated `Get` (`valOf`, `sAV …`, `nmAV …`: the strings `Get` prints for a code) and
to objects through the model's `Set` (`Driver/SearchLib.lean`).
Object level: see `Driver/SearchLib.lean`.

This file imports proof modules (all core-only); when one of them no longer compiles after regeneration the
executable cannot be built and `searchobj` (object level only) is used instead.
-/
set_option compiler.extract_closed false
namespace Search
open Driver

def failP (ver what tuple : String) (objs : List Obj) : Report :=
  { searched := 1, unreal := if objs.isEmpty then 1 else 0,
    fails := #[{ level := "pred", ver, what, tuple, detail := "predicate evaluates to false", objs }] }

def one (ok : Bool) (ver what : String) (tuple : Unit → String) (objs : Unit → List Obj) : Report :=
  if ok then { searched := 1 } else failP ver what (tuple ()) (objs ())

def sum (rs : List Report) : Report := rs.foldl Report.merge {}

def R (n : Nat) : List Nat := List.range n

/-! ## v3.1 -/
namespace P31
open Proofs.Score3.V31
def ver : String := "31"
def strs (V : List Nat → List Nat) (names : List String) : List Val := names.map fun a => V (b a)

def jobs (byK : Array (Option Obj)) : List Job :=
  let jBase : Job := fun _ => sum ((prod [R 2, R 3, R 3, R 3, R 4, R 2, R 3, R 2]).map fun l =>
    match l with
    | [s, c, i, a, av, ac, pr, ui] =>
      let V := valOf av ac pr ui s c i a 0 0 0 0 0 0 0 0 0 0 0 0 0 0
      one (okBase av ac pr ui s c i a) ver "Proofs.Score3.V31.okBase (theorem base_all)"
        (fun _ => s!"codes av={av} ac={ac} pr={pr} ui={ui} s={s} c={c} i={i} a={a} = " ++ showAsg (V3.baseN.zip (strs V V3.baseN)))
        (fun _ => (V3.baseObj ver (strs V V3.baseN)).toList)
    | _ => {})
  let jT : List Job := (R 4).map fun rc => fun _ => sum ((prod [R 101, R 5, R 5]).map fun l =>
    match l with
    | [k, e, rl] =>
      let V := valOf 0 0 0 0 0 0 0 0 e rl rc 0 0 0 0 0 0 0 0 0 0 0
      one (okT k e rl rc) ver s!"Proofs.Score3.V31.okT (theorem t_{rc})"
        (fun _ => s!"tenth k={k} codes e={e} rl={rl} rc={rc} = " ++ showAsg (V3.tempN.zip (strs V V3.tempN)))
        (fun _ => V3.temporalObjs ver byK k (strs V V3.tempN))
    | _ => {})
  let jEnv : List Job := (prod [R 2, R 4, R 2]).map fun h => fun _ =>
    match h with
    | [ms, mav, mac] => sum ((prod [R 3, R 3, R 3, R 4, R 4, R 4, R 3, R 2]).map fun l =>
      match l with
      | [mc, mi, ma, cr, ir, ar, mpr, mui] =>
        let V := valOf mav mac mpr mui ms mc mi ma 0 0 0 cr ir ar 0 0 0 0 0 0 0 0
        one (okInner mav mac mpr mui ms mc mi ma cr ir ar) ver s!"Proofs.Score3.V31.okInner (theorem env_{ms}_{mav}_{mac}; requirement code 0 = X via Inner_nR)"
          (fun _ => s!"effective codes mav={mav} mac={mac} mpr={mpr} mui={mui} ms={ms} mc={mc} mi={mi} ma={ma} cr={cr} ir={ir} ar={ar} = " ++
            showAsg (V3.modN.zip (strs V V3.baseN) ++ V3.reqN.zip (strs V V3.reqN)))
          (fun _ => V3.envObjs ver (strs V V3.baseN) (strs V V3.reqN))
      | _ => {})
    | _ => {}
  jBase :: jT ++ jEnv
end P31

/-! ## v3.0 -/
namespace P30
open Proofs.Score3.V30
def ver : String := "30"
def strs (V : List Nat → List Nat) (names : List String) : List Val := names.map fun a => V (b a)

def jobs (byK : Array (Option Obj)) : List Job :=
  let jBase : Job := fun _ => sum ((prod [R 2, R 3, R 3, R 3, R 4, R 2, R 3, R 2]).map fun l =>
    match l with
    | [s, c, i, a, av, ac, pr, ui] =>
      let V := valOf av ac pr ui s c i a 0 0 0 0 0 0 0 0 0 0 0 0 0 0
      one (okBase av ac pr ui s c i a) ver "Proofs.Score3.V30.okBase (theorem base_all)"
        (fun _ => s!"codes av={av} ac={ac} pr={pr} ui={ui} s={s} c={c} i={i} a={a} = " ++ showAsg (V3.baseN.zip (strs V V3.baseN)))
        (fun _ => (V3.baseObj ver (strs V V3.baseN)).toList)
    | _ => {})
  let jT : List Job := (R 4).map fun rc => fun _ => sum ((prod [R 101, R 5, R 5]).map fun l =>
    match l with
    | [k, e, rl] =>
      let V := valOf 0 0 0 0 0 0 0 0 e rl rc 0 0 0 0 0 0 0 0 0 0 0
      one (okT k e rl rc) ver s!"Proofs.Score3.V30.okT (theorem t_{rc})"
        (fun _ => s!"tenth k={k} codes e={e} rl={rl} rc={rc} = " ++ showAsg (V3.tempN.zip (strs V V3.tempN)))
        (fun _ => V3.temporalObjs ver byK k (strs V V3.tempN))
    | _ => {})
  let jEnv : List Job := (prod [R 2, R 4, R 2]).map fun h => fun _ =>
    match h with
    | [ms, mav, mac] => sum ((prod [R 3, R 3, R 3, R 4, R 4, R 4, R 3, R 2]).map fun l =>
      match l with
      | [mc, mi, ma, cr, ir, ar, mpr, mui] =>
        let V := valOf mav mac mpr mui ms mc mi ma 0 0 0 cr ir ar 0 0 0 0 0 0 0 0
        one (okInner mav mac mpr mui ms mc mi ma cr ir ar) ver s!"Proofs.Score3.V30.okInner (theorem env_{ms}_{mav}_{mac}; requirement code 0 = X via Inner_nR)"
          (fun _ => s!"effective codes mav={mav} mac={mac} mpr={mpr} mui={mui} ms={ms} mc={mc} mi={mi} ma={ma} cr={cr} ir={ir} ar={ar} = " ++
            showAsg (V3.modN.zip (strs V V3.baseN) ++ V3.reqN.zip (strs V V3.reqN)))
          (fun _ => V3.envObjs ver (strs V V3.baseN) (strs V V3.reqN))
      | _ => {})
    | _ => {}
  jBase :: jT ++ jEnv
end P30

/-! ## v2.0 -/
namespace P20
open Proofs.Score2
def ver : String := "20"

def jobs (ctx : V2.Ctx) : List Job :=
  let jBase : Job := fun _ => sum ((prod [R 3, R 3, R 3, R 3, R 3, R 3]).map fun l =>
    match l with
    | [c, i, a, av, ac, au] =>
      let vals := [sAV av, sAC ac, sAu au, sC c, sI i, sA a]
      one (okBase c i a av ac au) ver "Proofs.Score2.okBase (theorem base_chunk)"
        (fun _ => s!"codes c={c} i={i} a={a} av={av} ac={ac} au={au} = " ++ showAsg (V2.baseN.zip vals))
        (fun _ => (V2.baseObj vals).toList)
    | _ => {})
  let jRB : List Job := (prod [R 3, R 3]).map fun h => fun _ =>
    match h with
    | [c, i] => sum ((prod [R 3, R 4, R 4, R 4, R 3, R 3, R 3]).map fun l =>
      match l with
      | [a, cr, ir, ar, av, ac, au] =>
        let asg := V2.baseN.zip [sAV av, sAC ac, sAu au, sC c, sI i, sA a] ++ V2.reqN.zip [sCR cr, sIR ir, sAR ar]
        one (okRB c i a cr ir ar av ac au) ver s!"Proofs.Score2.okRB (theorem rb_chunk_{c}_{i}_{a})"
          (fun _ => s!"codes c={c} i={i} a={a} cr={cr} ir={ir} ar={ar} av={av} ac={ac} au={au} = " ++ showAsg asg)
          (fun _ => (setAll ver (zero ver) asg).toList)
      | _ => {})
    | _ => {}
  -- inputs of the two later phases: -2 … 100 tenths, and -0.0
  let inputs : List (Nat × Int × String) :=
    ((R 103).map fun j => (tenthI (inK j), inK j, s!"{inK j}/10")) ++ [(NEG0, 0, "-0.0")]
  let jT : Job := fun _ => sum (inputs.flatMap fun inp => (prod [R 5, R 5, R 4]).map fun l =>
    match l with
    | [e, rl, rc] =>
      let t := [sE e, sRL rl, sRC rc]
      one (okT2 inp.1 inp.2.1 e rl rc) ver "Proofs.Score2.okT2 (theorems t2_chunk_*, t2_neg0)"
        (fun _ => s!"input={inp.2.2} codes e={e} rl={rl} rc={rc} = " ++ showAsg (V2.tempN.zip t))
        (fun _ => V2.t2Objs ctx.rb inp.1 t)
    | _ => {})
  let jF : Job := fun _ => sum (inputs.flatMap fun inp => (prod [R 6, R 5]).map fun l =>
    match l with
    | [cdp, td] =>
      let f := [sCDP cdp, sTD td]
      one (okF inp.1 inp.2.1 cdp td) ver "Proofs.Score2.okF (theorems f_chunk_*, f_neg0)"
        (fun _ => s!"input={inp.2.2} codes cdp={cdp} td={td} = " ++ showAsg (V2.finN.zip f))
        (fun _ => V2.fObjs ctx.at_ inp.1 f)
    | _ => {})
  let jMisc : Job := fun _ =>
    sum [one subChunk ver "Proofs.Score2.subChunk (Impact/Exploitability within 1e-12 of the exact equations)" (fun _ => "27 code triples") (fun _ => []),
         one weightsChunk ver "Proofs.Score2.weightsChunk (every float weight is the double nearest the Spec weight)" (fun _ => "all codes") (fun _ => [])]
  jBase :: jT :: jF :: jMisc :: jRB
end P20

/-! ## v4.0 -/
namespace P40
open Proofs.Score4
def ver : String := "40"

def ctxObjs (part : List (String × Val)) : List Obj :=
  [V4.ctxHigh, V4.ctxMid].flatMap fun ctx => V4.effObjs (V4.override ctx part)
/-- raw pairs (base metric and its Modified metric both given) on the two contexts -/
def rawObjs (part : List (String × Val)) : List Obj :=
  [V4.ctxHigh, V4.ctxMid].filterMap fun ctx =>
    setAll ver (zero ver) ((ctx.filter fun p => (part.lookup p.1).isNone) ++ part)

def stJob : Job := fun _ =>
  let tab : List (String × (Nat → List Nat) × (Nat → List Nat) × Nat × Nat) :=
    [("AV", nmAV, nmMAV, 4, 5), ("AC", nmAC, nmMAC, 2, 3), ("AT", nmAT, nmMAT, 2, 3), ("PR", nmPR, nmMPR, 3, 4),
     ("UI", nmUI, nmMUI, 3, 4), ("VC", nmVC, nmMVC, 3, 4), ("VI", nmVI, nmMVI, 3, 4), ("VA", nmVA, nmMVA, 3, 4),
     ("SC", nmSC, nmMSC, 3, 4)]
  sum (tab.flatMap fun t => (prod [R t.2.2.2.1, R t.2.2.2.2]).map fun l =>
    match l with
    | [x, m] =>
      let part := [(t.1, t.2.1 x), ("M" ++ t.1, t.2.2.1 m)]
      one (stOk t.2.1 t.2.2.1 t.2.2.2.1 x m) ver s!"Proofs.Score4.stOk (theorem st_{t.1}_all)"
        (fun _ => s!"codes base={x} modified={m} = " ++ showAsg part) (fun _ => rawObjs part)
    | _ => {})

def groupJob : Job := fun _ =>
  let g1 := (prod [R 4, R 3, R 3]).map fun l =>
    match l with
    | [av, pr, ui] =>
      let part := [("AV", nmAV av), ("PR", nmPR pr), ("UI", nmUI ui)]
      one (chk1 av pr ui) ver "Proofs.Score4.chk1 (theorem chk1_all)" (fun _ => s!"codes av={av} pr={pr} ui={ui} = " ++ showAsg part) (fun _ => ctxObjs part)
    | _ => {}
  let g2 := (prod [R 2, R 2]).map fun l =>
    match l with
    | [ac, at_] =>
      let part := [("AC", nmAC ac), ("AT", nmAT at_)]
      one (chk2 ac at_) ver "Proofs.Score4.chk2 (theorem chk2_all)" (fun _ => s!"codes ac={ac} at={at_} = " ++ showAsg part) (fun _ => ctxObjs part)
    | _ => {}
  let g36 := (prod [R 3, R 3, R 3, R 4, R 4, R 4]).map fun l =>
    match l with
    | [vc, vi, va, cr, ir, ar] =>
      let part := [("VC", nmVC vc), ("VI", nmVI vi), ("VA", nmVA va), ("CR", nmCR cr), ("IR", nmIR ir), ("AR", nmAR ar)]
      one (chk36 vc vi va cr ir ar) ver "Proofs.Score4.chk36 (theorem chk36_all)"
        (fun _ => s!"codes vc={vc} vi={vi} va={va} cr={cr} ir={ir} ar={ar} = " ++ showAsg part) (fun _ => ctxObjs part)
    | _ => {}
  let g4 := (prod [R 3, R 3, R 5, R 3, R 5]).map fun l =>
    match l with
    | [sc, si, msi, sa, msa] =>
      let part := [("SC", nmSC sc), ("SI", nmSI si), ("MSI", nmMSI msi), ("SA", nmSA sa), ("MSA", nmMSA msa)]
      one (chk4 sc si msi sa msa) ver "Proofs.Score4.chk4 (theorem chk4_all)"
        (fun _ => s!"codes sc={sc} si={si} msi={msi} sa={sa} msa={msa} = " ++ showAsg part) (fun _ => rawObjs part)
    | _ => {}
  let g5 := (R 4).map fun e =>
    one (chk5 e) ver "Proofs.Score4.chk5 (theorem chk5_all)" (fun _ => s!"code e={e} = E:{str (nmE e)}") (fun _ => ctxObjs [("E", nmE e)])
  let gN := (R 3).map fun e =>
    one (chkN nmVC e && chkN nmVI e && chkN nmVA e && chkN nmSC e) ver "Proofs.Score4.chkN (theorem chkN_all)"
      (fun _ => s!"code {e} = {str (nmVC e)}")
      (fun _ => ctxObjs [("VC", nmVC e), ("VI", nmVI e), ("VA", nmVA e), ("SC", nmSC e), ("SI", nmSI e), ("SA", nmSA e)])
  let gNS := (prod [R 3, R 5]).map fun l =>
    match l with
    | [x, m] =>
      let part := [("SI", nmSI x), ("MSI", nmMSI m), ("SA", nmSA x), ("MSA", nmMSA m)]
      one (chkNS nmSI nmMSI x m && chkNS nmSA nmMSA x m) ver "Proofs.Score4.chkNS (theorem chkNS_all)"
        (fun _ => s!"codes base={x} modified={m} = " ++ showAsg part) (fun _ => rawObjs part)
    | _ => {}
  sum (g1 ++ g2 ++ g36 ++ g4 ++ g5 ++ gN ++ gNS)

def jobs (tb : V4.Tabs) : List Job :=
  let jTail : List Job := V4.macroVectors.map fun mv => fun _ =>
    match mv with
    | (q1, q2, q3, q4, q5, q6) => sum ((V4.dists q1 q2 q3 q4 q6).map fun d =>
      let d1 := d.getD 0 0; let d2 := d.getD 1 0; let d36 := d.getD 2 0; let d4 := d.getD 3 0
      one (tailOk q1 q2 q3 q4 q5 q6 d1 d2 d36 d4) ver s!"Proofs.Score4.tailOk (theorem tail_{q1}{q2}{q3}{q4}{q5}{q6})"
        (fun _ => s!"MacroVector={q1}{q2}{q3}{q4}{q5}{q6} distances(EQ1,EQ2,EQ3/6,EQ4)={d}")
        (fun _ => V4.realise tb q1 q2 q3 q4 q5 q6 d1 d2 d36 d4))
  stJob :: groupJob :: jTail
end P40

def predJobs (_cfg : Cfg) (ver : String) (pre : Pre) : List Job :=
  match ver with
  | "20" => P20.jobs pre.v2.get
  | "30" => P30.jobs pre.byK.get
  | "31" => P31.jobs pre.byK.get
  | "40" => P40.jobs pre.v4.get
  | _ => []
end Search

def main (args : List String) : IO UInt32 := Search.mainWith args Search.predJobs
