import Cvss.Model.Obj
import Cvss.Model.WF
import Cvss.Gen.K20
import Cvss.Gen.K30
import Cvss.Gen.K31
import Cvss.Gen.K40
import Cvss.Spec.Rating
import Cvss.Spec.Effective
import Cvss.Spec.Errors
import Driver.SpecScores
/-!
# Driver: score, rating and float operations
(`F` scores, `R` rating, `U` raw float primitive). Returns `(diff?, violated ids, detail, tag)`.
-/
namespace Driver
open Model

def hexN (n : Nat) : String := String.ofList (Nat.toDigits 16 n)
def hv (c : Char) : Nat := if c.isDigit then c.toNat - 48 else c.toNat - 87
def parseHexN (s : String) : Nat := s.foldl (fun acc c => acc * 16 + hv c) 0
def hexDigit (n : Nat) : Char := if n < 10 then Char.ofNat (48 + n) else Char.ofNat (87 + n)
def hexByte (b : Nat) : String := String.ofList [hexDigit (b / 16 % 16), hexDigit (b % 16)]
def hexB (bs : List Nat) : String := if bs.isEmpty then "-" else String.join (bs.map hexByte)

def floatOp (op : String) (x y : Nat) : Option Nat :=
  match op with
  | "add" => some (F64.add x y) | "sub" => some (F64.sub x y) | "mul" => some (F64.mul x y) | "div" => some (F64.div x y)
  | "min" => some (F64.min x y) | "round" => some (F64.round x) | "rte" => some (F64.roundToEven x)
  | "floor" => some (F64.floor x) | "lt" => some (if F64.lt x y then 1 else 0) | "le" => some (if F64.le x y then 1 else 0)
  | "eq" => some (if F64.eq x y then 1 else 0) | "ofnat" => some (F64.ofNat x) | "isnan" => some (if F64.isNaN x then 1 else 0)
  | "trunc" => some (F64.truncAbs x)
  | "ceil" => some (F64.ceil x) | "tr" => some (F64.trunc x) | "abs" => some (F64.abs x) | "max" => some (F64.max x y)
  | _ => none

def rating (ver : String) (x : Nat) : Option (List Nat × Go.Err) :=
  match ver with
  | "30" => some (GenV30.Rating x) | "31" => some (GenV31.Rating x) | "40" => some (GenV40.Rating x) | _ => none

def unhexL : List Char → List Nat
  | a :: b :: r => (hv a * 16 + hv b) :: unhexL r
  | _ => []
def unhex (s : String) : List Nat := if s == "-" then [] else unhexL s.toList

def o20 (l : List Nat) : O20 := ⟨l.getD 0 0, l.getD 1 0, l.getD 2 0, l.getD 3 0⟩
def o30 (l : List Nat) : O30 := ⟨l.getD 0 0, l.getD 1 0, l.getD 2 0, l.getD 3 0, l.getD 4 0, l.getD 5 0⟩
def o31 (l : List Nat) : O31 := ⟨l.getD 0 0, l.getD 1 0, l.getD 2 0, l.getD 3 0, l.getD 4 0, l.getD 5 0⟩
def o40 (l : List Nat) : O40 := ⟨l.getD 0 0, l.getD 1 0, l.getD 2 0, l.getD 3 0, l.getD 4 0, l.getD 5 0, l.getD 6 0, l.getD 7 0, l.getD 8 0⟩

/-- model scores of an object (bit patterns): v2/v3 `[base, temporal, environmental, impact, exploitability]`, v4 `[score]` -/
def modelScores (ver : String) (l : List Nat) : List Nat :=
  match ver with
  | "20" => let c := o20 l; [c.baseScore, c.temporalScore, c.environmentalScore, c.impact, c.exploitability]
  | "30" => let c := o30 l; [c.baseScore, c.temporalScore, c.environmentalScore, c.impact, c.exploitability]
  | "31" => let c := o31 l; [c.baseScore, c.temporalScore, c.environmentalScore, c.impact, c.exploitability]
  | _ => [(o40 l).score]

/-- the regenerated no-panic twins (`Gen/K*.lean`): do ALL the score functions the harness calls for an `F`/`H` operation return
    normally on this byte state? The twins follow Go's own evaluation order, so this is comparable on every byte state, well
    formed or not. -/
def modelScoresOk (ver : String) (l : List Nat) : Bool :=
  match ver with
  | "20" => let c := o20 l
    GenK20.BaseScore_ok c.u0 c.u1 c.u2 c.u3 && GenK20.TemporalScore_ok c.u0 c.u1 c.u2 c.u3 &&
    GenK20.EnvironmentalScore_ok c.u0 c.u1 c.u2 c.u3 && GenK20.Impact_ok c.u0 c.u1 c.u2 c.u3 && GenK20.Exploitability_ok c.u0 c.u1 c.u2 c.u3
  | "30" => let c := o30 l
    GenK30.BaseScore_ok c.u0 c.u1 c.u2 c.u3 c.u4 c.u5 && GenK30.TemporalScore_ok c.u0 c.u1 c.u2 c.u3 c.u4 c.u5 &&
    GenK30.EnvironmentalScore_ok c.u0 c.u1 c.u2 c.u3 c.u4 c.u5 && GenK30.Impact_ok c.u0 c.u1 c.u2 c.u3 c.u4 c.u5 &&
    GenK30.Exploitability_ok c.u0 c.u1 c.u2 c.u3 c.u4 c.u5
  | "31" => let c := o31 l
    GenK31.BaseScore_ok c.u0 c.u1 c.u2 c.u3 c.u4 c.u5 && GenK31.TemporalScore_ok c.u0 c.u1 c.u2 c.u3 c.u4 c.u5 &&
    GenK31.EnvironmentalScore_ok c.u0 c.u1 c.u2 c.u3 c.u4 c.u5 && GenK31.Impact_ok c.u0 c.u1 c.u2 c.u3 c.u4 c.u5 &&
    GenK31.Exploitability_ok c.u0 c.u1 c.u2 c.u3 c.u4 c.u5
  | _ => let c := o40 l
    GenK40.Score_ok c.u0 c.u1 c.u2 c.u3 c.u4 c.u5 c.u6 c.u7 c.u8

def modelGet (ver : String) (l : List Nat) (a : List Nat) : List Nat :=
  match ver with
  | "20" => ((o20 l).get a).1 | "30" => ((o30 l).get a).1 | "31" => ((o31 l).get a).1 | _ => ((o40 l).get a).1

def modelSet (ver : String) (l : List Nat) (a v : List Nat) : List Nat × Go.Err :=
  match ver with
  | "20" => let r := (o20 l).set a v; (r.1.bytes, r.2) | "30" => let r := (o30 l).set a v; (r.1.bytes, r.2)
  | "31" => let r := (o31 l).set a v; (r.1.bytes, r.2) | _ => let r := (o40 l).set a v; (r.1.bytes, r.2)

def modelWf (ver : String) (l : List Nat) : Bool :=
  match ver with
  | "20" => (o20 l).wf | "30" => (o30 l).wf | "31" => (o31 l).wf | _ => (o40 l).wf

def poison : Nat := 0x7FF8DEAD00000000
/-- a panic in the Go code is the poison NaN in the generated model; it propagates through float operations as a NaN
    (no score of a well-formed object is a NaN), so any NaN among the model's results means "panics" -/
def scoresS (xs : List Nat) : String := if xs.any (fun x => x == poison || F64.isNaN x) then "panic" else " ".intercalate (xs.map hexN)

def verOf (ver : String) : Spec.Version :=
  match ver with | "20" => .v20 | "30" => .v30 | "31" => .v31 | _ => .v40

def rankOf (ver : String) : List Nat → List Nat → Option Nat :=
  match ver with | "20" => Spec.V2.rank | "40" => Spec.V4.rank | _ => Spec.V3.rank

/-- which score indices property C12 speaks about, per version -/
def monoIdx (ver : String) : List Nat :=
  match ver with | "20" => [0, 1] | "30" => [0, 1] | "31" => [0, 1, 2] | _ => [0]

/-- `M ver obj abv v1 v2 | scores(abv:=v1) / scores(abv:=v2)`: C12 — if `v2` is at least as severe as `v1`
    (Spec order, in the context of `obj`) no score may decrease -/
def judgeMono (ver : String) (c a v1 v2 : List Nat) (impl : String) : Option String × List String × String :=
  let r1 := modelSet ver c a v1
  let r2 := modelSet ver c a v2
  if r1.2 ≠ Go.errNil ∨ r2.2 ≠ Go.errNil then ((if impl = "seterr" then none else some "seterr"), [], "") else
  let m := scoresS (modelScores ver r1.1) ++ " / " ++ scoresS (modelScores ver r2.1)
  let diff := if m = impl then none else some m
  let val := fun x => modelGet ver c x
  let ms := (verOf ver).metrics
  if !(modelWf ver c) || !(Spec.atLeastAsSevere ms (rankOf ver) val a v1 v2) then (diff, [], "") else
  match impl.splitOn " / " with
  | [s1, s2] =>
    let x1 := (s1.splitOn " ").map parseHexN
    let x2 := (s2.splitOn " ").map parseHexN
    let bad := (monoIdx ver).filter fun i => !(F64.le (x1.getD i 0) (x2.getD i 0))
    (diff, (if bad.isEmpty then [] else ["C12"]), (if bad.isEmpty then "" else s!"score index {bad} decreases"))
  | _ => (diff, [], "")

/-- `K ver obj1 obj2 | scores1 / scores2 gets1 gets2`: C10 — equal effective keys ⇒ equal scores -/
def judgeEff (ver : String) (c1 c2 : List Nat) (impl : String) : Option String × List String × String :=
  let v1 := fun x => modelGet ver c1 x
  let v2 := fun x => modelGet ver c2 x
  match impl.splitOn " / " with
  | [s1, rest] =>
    let x1 := (s1.splitOn " ").map parseHexN
    let f2 := rest.splitOn " "
    let x2 := (f2.take x1.length).map parseHexN
    let m := scoresS (modelScores ver c1) ++ " / " ++ scoresS (modelScores ver c2)
    let implScores := s1 ++ " / " ++ " ".intercalate (f2.take x1.length)
    let diff := if m = implScores then none else some m
    if !(modelWf ver c1) || !(modelWf ver c2) then (diff, [], "") else
    let eqAt (i : Nat) := x1.getD i 0 == x2.getD i 0
    let bad : List String :=
      match ver with
      | "40" => if Spec.V4.scoreKey v1 == Spec.V4.scoreKey v2 && !eqAt 0 then ["score"] else []
      | "20" => []
      | _ =>
        (if Spec.V3.baseKey v1 == Spec.V3.baseKey v2 && !eqAt 0 then ["base"] else []) ++
        (if Spec.V3.temporalKey v1 == Spec.V3.temporalKey v2 && !eqAt 1 then ["temporal"] else []) ++
        (if Spec.V3.envKey v1 == Spec.V3.envKey v2 && !eqAt 2 then ["environmental"] else [])
    (diff, (if bad.isEmpty then [] else ["C10"]), (if bad.isEmpty then "" else s!"same effective values, different {bad}"))
  | _ => (some "BAD-IMPL-LINE", [], "")

/-- is `x` (IEEE-equal to) the double nearest `k/10` for some `lo ≤ k ≤ 100` (`lo = -2` allowed for the v2
    environmental score)? returns that `k` shifted by 2 -/
def tenthOf (x : Nat) (allowNeg : Bool) : Option Int :=
  match (List.range 101).find? (fun k => F64.eq x (F64.tenth k)) with
  | some k => some k
  | none =>
    if allowNeg then
      match [1, 2].find? (fun k => F64.eq x (F64.negTenth k)) with
      | some k => some (-(k : Int))
      | none => none
    else none

/-- hook filled by `Driver/SpecScores.lean`: expected tenths per score index (a list of admissible values), if the
    Spec for that version is available -/
def specTenths (ver : String) (val : List Nat → List Nat) : List (List Int) :=
  SpecScores.tenths ver val

/-- `F ver obj | bits… [rating-rejects] gets`: correspondence (bit-exact), C11 (finite one-decimal value in range,
    Rating accepts), C03/C04/C05 (the Spec's value) -/
def judgeScore (ver : String) (c : List Nat) (impl : String) : Option String × List String × String :=
  let ms := modelScores ver c
  let f := impl.splitOn " "
  let n := ms.length
  let implScores := " ".intercalate (f.take (if impl.startsWith "panic" then 1 else n))
  let m := scoresS ms
  -- on byte states no API call can produce, Go evaluates every weight lookup eagerly and panics even when the result does
  -- not depend on it; the generated model is lazy there. Only non-panicking results are compared on such states.
  -- The panic behaviour itself IS compared on every state, through the no-panic twins.
  let okM := modelScoresOk ver c
  let diff := if okM == impl.startsWith "panic" then some (if okM then "twins: returns normally" else "twins: panics")
    else if m = implScores || (!(modelWf ver c) && impl.startsWith "panic") then none else some m
  if !(modelWf ver c) then (diff, [], "") else
  if impl.startsWith "panic" then (diff, ["C09", "C11", (if ver == "20" then "C05" else if ver == "40" then "C04" else "C03")], "score panics on a well-formed object") else
  let xs := (f.take n).map parseHexN
  let main := if ver == "40" then 1 else 3
  -- C11: the double nearest k/10; bit-exact for v3/v4 (the theorems say so: no -0.0 there), up to the sign of zero for v2 (O1)
  let bad11 := (List.range main).filter fun i =>
    match tenthOf (xs.getD i 0) (ver == "20" && i == 2) with
    | none => true
    | some k => ver != "20" && xs.getD i 0 != (if k < 0 then F64.negTenth k.natAbs else F64.tenth k.natAbs)
  let rej := f.contains "rating-rejects"
  let v11 : List String := if bad11.isEmpty && !rej then [] else ["C11"]
  let val := fun a => modelGet ver c a
  let want := specTenths ver val
  let propOf := if ver == "20" then "C05" else if ver == "40" then "C04" else "C03"
  let badSpec := (List.range (min main want.length)).filter fun i =>
    match tenthOf (xs.getD i 0) (ver == "20" && i == 2) with
    | some k => !((want.getD i []).contains k)
    | none => true
  let vSpec : List String := if want.isEmpty || badSpec.isEmpty then [] else [propOf]
  -- Impact()/Exploitability(): within 1e-9 of the exact value of the same equations (driver-side check in hardware floats)
  let subs := SpecScores.subScores ver val
  let badSub := (List.range subs.length).filter fun i =>
    let x := Float.ofBits (UInt64.ofNat (xs.getD (3 + i) 0))
    let q := subs.getD i (0, 1)
    let exact := Float.ofInt q.1 / Float.ofNat q.2
    !((x - exact).abs <= 1e-9)
  let vSpec := if badSub.isEmpty then vSpec else (if vSpec.contains propOf then vSpec else vSpec ++ [propOf])
  let detail := if !badSub.isEmpty && bad11.isEmpty && !rej && badSpec.isEmpty then s!"sub-score index {badSub} (0 = Impact, 1 = Exploitability) differs from the exact equation value" else
    if !bad11.isEmpty then s!"score index {bad11} is not the double nearest k/10 in range"
    else if rej then "Rating rejects the score"
    else if !vSpec.isEmpty then s!"score index {badSpec}: Spec wants tenths {want}" else ""
  (diff, v11 ++ vSpec, detail)

def judgeScoreOp (op : List String) (impl : String) : Option (Option String × List String × String × String) :=
  match op with
  | ["F", ver, c] =>
    if !["20", "30", "31", "40"].contains ver then some (some "BAD-OP", [], "", "?") else
    let r := judgeScore ver (unhex c) impl
    some (r.1, r.2.1, r.2.2, "F" ++ ver)
  | ["H", ver, _, c] =>
    if !["20", "30", "31", "40"].contains ver then some (some "BAD-OP", [], "", "?") else
    -- the scores of `c` reached through a history on one object: judged exactly like a fresh `F`
    let r := judgeScore ver (unhex c) impl
    some (r.1, r.2.1, r.2.2, "H" ++ ver)
  | ["M", ver, c, a, v1, v2] =>
    let r := judgeMono ver (unhex c) (unhex a) (unhex v1) (unhex v2) impl
    some (r.1, r.2.1, r.2.2, "M" ++ ver)
  | ["K", ver, c1, c2] =>
    let r := judgeEff ver (unhex c1) (unhex c2) impl
    some (r.1, r.2.1, r.2.2, "K" ++ ver)
  | ["U", name, x, y] =>
    match floatOp name (parseHexN x) (parseHexN y) with
    | some r =>
      -- NaN payloads are not modelled: arithmetic results that are NaN are compared as "nan"
      let arith := ["add", "sub", "mul", "div", "min", "max", "round", "rte", "floor", "ceil", "tr", "abs"].contains name
      let m := if arith && F64.isNaN r then "nan" else hexN r
      some ((if m = impl then none else some m), [], "", "U" ++ name)
    | none => none
  | ["R", ver, x] =>
    match rating ver (parseHexN x) with
    | some (s, e) =>
      let m := s!"{hexB s} {e.code}"
      -- Spec: the qualitative scale applied to the exact value of the bit pattern (nothing prescribed for NaN)
      let sp := Spec.ratingOfBits (parseHexN x)
      let want := if sp.2 == Spec.ratingOk then some s!"{hexB sp.1} 0" else if sp.2 == Spec.ratingOutOfBounds then some "- 5" else none
      let viol := match want with | some w => if w = impl then [] else ["C15"] | none => []
      some ((if m = impl then none else some m), viol, (match want with | some w => s!"want {w}" | none => ""), "R" ++ ver)
    | none => none
  | _ => none
end Driver
