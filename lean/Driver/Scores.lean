import Cvss.Model.Obj
import Cvss.Spec.Rating
/-!
# Driver: score, rating and float operations
(`F` scores, `R` rating, `U` raw float primitive). Returns `(diff?, violated ids, detail, tag)`.
-/
namespace Driver
open Model

def hexN (n : Nat) : String := String.ofList (Nat.toDigits 16 n)
def hv (c : Char) : Nat := if c.isDigit then c.toNat - 48 else c.toNat - 87
def parseHexN (s : String) : Nat := s.foldl (fun acc c => acc * 16 + hv c) 0
def hexDigit (n : Nat) : Char := if n < 10 then Char.ofNat (48 + n) else Char.ofNat (87 + n)
def hexByte (b : Nat) : String := String.ofList [hexDigit (b / 16 % 16), hexDigit (b % 16)]
def hexB (bs : List Nat) : String := if bs.isEmpty then "-" else String.join (bs.map hexByte)

def floatOp (op : String) (x y : Nat) : Option Nat :=
  match op with
  | "add" => some (F64.add x y) | "sub" => some (F64.sub x y) | "mul" => some (F64.mul x y) | "div" => some (F64.div x y)
  | "min" => some (F64.min x y) | "round" => some (F64.round x) | "rte" => some (F64.roundToEven x)
  | "floor" => some (F64.floor x) | "lt" => some (if F64.lt x y then 1 else 0) | "le" => some (if F64.le x y then 1 else 0)
  | "eq" => some (if F64.eq x y then 1 else 0) | "ofnat" => some (F64.ofNat x) | "isnan" => some (if F64.isNaN x then 1 else 0)
  | "trunc" => some (F64.truncAbs x)
  | _ => none

def rating (ver : String) (x : Nat) : Option (List Nat × Go.Err) :=
  match ver with
  | "30" => some (GenV30.Rating x) | "31" => some (GenV31.Rating x) | "40" => some (GenV40.Rating x) | _ => none

def judgeScoreOp (op : List String) (impl : String) : Option (Option String × List String × String × String) :=
  match op with
  | ["U", name, x, y] =>
    match floatOp name (parseHexN x) (parseHexN y) with
    | some r =>
      -- NaN payloads are not modelled: arithmetic results that are NaN are compared as "nan"
      let arith := ["add", "sub", "mul", "div", "min"].contains name
      let m := if arith && F64.isNaN r then "nan" else hexN r
      some ((if m = impl then none else some m), [], "", "U" ++ name)
    | none => none
  | ["R", ver, x] =>
    match rating ver (parseHexN x) with
    | some (s, e) =>
      let m := s!"{hexB s} {e.code}"
      -- Spec: the qualitative scale applied to the exact value of the bit pattern (nothing prescribed for NaN)
      let sp := Spec.ratingOfBits (parseHexN x)
      let want := if sp.2 == Spec.ratingOk then some s!"{hexB sp.1} 0" else if sp.2 == Spec.ratingOutOfBounds then some "- 5" else none
      let viol := match want with | some w => if w = impl then [] else ["C15"] | none => []
      some ((if m = impl then none else some m), viol, (match want with | some w => s!"want {w}" | none => ""), "R" ++ ver)
    | none => none
  | _ => none
end Driver
