import Cvss.Model.Parse
import Cvss.Model.WF
import Cvss.Spec.Errors
import Driver.Scores
import Std.Data.HashMap
/-!
# Driver: one-line-in / one-line-out evaluator of Model and Spec (core-only, compiled as `lean_exe`)

Input lines: `OP args… | impl-output` (written by the Go harness, which called the real code).
For each line the driver
  * evaluates the same operation on the **model** and compares with the implementation's output
    (correspondence; a difference prints `DIFF`),
  * evaluates the **Spec** judgement(s) for the operation and prints `VIOL <property ids>` when the
    implementation's output contradicts the specification.
Output: one line per input line: `ok`, or `DIFF model=<…>` and/or `VIOL <ids> <detail>`; a final `STATS` line.
Byte strings are hex; `-` is the empty string.
-/
open Model


def hexDigit (n : Nat) : Char := if n < 10 then Char.ofNat (48 + n) else Char.ofNat (87 + n)
def hexByte (b : Nat) : String := String.ofList [hexDigit (b / 16 % 16), hexDigit (b % 16)]
def hexB (bs : Bytes) : String := if bs.isEmpty then "-" else String.join (bs.map hexByte)
def hexN (n : Nat) : String := String.ofList (Nat.toDigits 16 n)
def hv (c : Char) : Nat := if c.isDigit then c.toNat - 48 else c.toNat - 87
def unhexL : List Char → Bytes
  | a :: b :: r => (hv a * 16 + hv b) :: unhexL r
  | _ => []
def unhex (s : String) : Bytes := if s == "-" then [] else unhexL s.toList
def parseHexN (s : String) : Nat := s.foldl (fun acc c => acc * 16 + hv c) 0
def errS (e : Go.Err) : String := s!"{e.code}:{hexB e.abv}"
def errValS (e : Spec.ErrVal) : String := s!"{e.1}:{hexB e.2}"

/-- per-version operations on the raw byte list of an object -/
structure VerOps where
  ver : Spec.Version
  n : Nat
  parse : Bytes → Res (List Nat)
  get : List Nat → Bytes → Bytes × Go.Err
  set : List Nat → Bytes → Bytes → List Nat × Go.Err
  vector : List Nat → Bytes
  lenVec : List Nat → Nat
  vectorCap : List Nat → Nat
  wf : List Nat → Bool
  nomen : List Nat → Bytes
  scores : List Nat → List Nat

def mapRes {α β} (f : α → β) : Res α → Res β
  | .ok c => .ok (f c) | .err e => .err e | .panic => .panic

def o20 (l : List Nat) : O20 := ⟨l.getD 0 0, l.getD 1 0, l.getD 2 0, l.getD 3 0⟩
def o30 (l : List Nat) : O30 := ⟨l.getD 0 0, l.getD 1 0, l.getD 2 0, l.getD 3 0, l.getD 4 0, l.getD 5 0⟩
def o31 (l : List Nat) : O31 := ⟨l.getD 0 0, l.getD 1 0, l.getD 2 0, l.getD 3 0, l.getD 4 0, l.getD 5 0⟩
def o40 (l : List Nat) : O40 := ⟨l.getD 0 0, l.getD 1 0, l.getD 2 0, l.getD 3 0, l.getD 4 0, l.getD 5 0, l.getD 6 0, l.getD 7 0, l.getD 8 0⟩

def ops20 : VerOps :=
  { ver := .v20, n := 4, parse := fun s => mapRes O20.bytes (parse20 s),
    get := fun l => (o20 l).get, set := fun l a v => let r := (o20 l).set a v; (r.1.bytes, r.2),
    vector := fun l => (o20 l).vector, lenVec := fun l => (o20 l).lenVec, vectorCap := fun l => (o20 l).vectorCap, wf := fun l => (o20 l).wf,
    nomen := fun _ => [],
    scores := fun l => let c := o20 l; [c.baseScore, c.temporalScore, c.environmentalScore, c.impact, c.exploitability] }
def ops30 : VerOps :=
  { ver := .v30, n := 6, parse := fun s => mapRes O30.bytes (parse30 s),
    get := fun l => (o30 l).get, set := fun l a v => let r := (o30 l).set a v; (r.1.bytes, r.2),
    vector := fun l => (o30 l).vector, lenVec := fun l => (o30 l).lenVec, vectorCap := fun l => (o30 l).vectorCap, wf := fun l => (o30 l).wf,
    nomen := fun _ => [],
    scores := fun l => let c := o30 l; [c.baseScore, c.temporalScore, c.environmentalScore, c.impact, c.exploitability] }
def ops31 : VerOps :=
  { ver := .v31, n := 6, parse := fun s => mapRes O31.bytes (parse31 s),
    get := fun l => (o31 l).get, set := fun l a v => let r := (o31 l).set a v; (r.1.bytes, r.2),
    vector := fun l => (o31 l).vector, lenVec := fun l => (o31 l).lenVec, vectorCap := fun l => (o31 l).vectorCap, wf := fun l => (o31 l).wf,
    nomen := fun _ => [],
    scores := fun l => let c := o31 l; [c.baseScore, c.temporalScore, c.environmentalScore, c.impact, c.exploitability] }
def ops40 : VerOps :=
  { ver := .v40, n := 9, parse := fun s => mapRes O40.bytes (parse40 s),
    get := fun l => (o40 l).get, set := fun l a v => let r := (o40 l).set a v; (r.1.bytes, r.2),
    vector := fun l => (o40 l).vector, lenVec := fun l => (o40 l).lenVec, vectorCap := fun l => (o40 l).vectorCap, wf := fun l => (o40 l).wf,
    nomen := fun l => (o40 l).nomenclature,
    scores := fun l => [(o40 l).score] }

def opsOf (v : String) : Option VerOps :=
  match v with
  | "20" => some ops20 | "30" => some ops30 | "31" => some ops31 | "40" => some ops40 | _ => none

def allOps : List VerOps := [ops20, ops30, ops31, ops40]

/-- values of all metrics in Spec order: hex, `-` for empty, `!` when Get reports an error -/
def getsL (o : VerOps) (c : List Nat) : List String :=
  o.ver.metrics.map fun m => let r := o.get c m.abv; if r.2 = Go.errNil then hexB r.1 else "!"
def getsS (o : VerOps) (c : List Nat) : String := ",".intercalate (getsL o c)

def rtS (o : VerOps) (c : List Nat) : String :=
  match o.parse (o.vector c) with
  | .ok c' => if c' = c then "same" else "diff"
  | _ => "diff"

def parseOutS (o : VerOps) (r : Res (List Nat)) : String :=
  match r with
  | .ok c => s!"ok {hexB c} {hexB (o.vector c)} {getsS o c} {rtS o c}"
  | .err e => s!"err {errS e}"
  | .panic => "panic"

/-- the witness's view of all metrics, in the `gets` format -/
def specGets (o : VerOps) (w : List Spec.Pair) : String :=
  ",".intercalate (o.ver.metrics.map fun m => hexB (Spec.valueOf o.ver.metrics w m.abv))

def canonical (ver : Spec.Version) (w : List Spec.Pair) : Bytes :=
  match ver with
  | .v20 => Spec.V2.canonical w
  | .v30 => Spec.V3.canonical Spec.V3.header30 w
  | .v31 => Spec.V3.canonical Spec.V3.header31 w
  | .v40 => Spec.V4.canonical w

structure Verdict where
  diff : Option String := none
  viol : List String := []
  detail : String := ""

def Verdict.add (v : Verdict) (p : String) (d : String) : Verdict :=
  { v with viol := if v.viol.contains p then v.viol else v.viol ++ [p], detail := if v.detail.isEmpty then d else v.detail }

def corr (model impl : String) : Verdict := if model = impl then {} else { diff := some model }

/-- `P ver s | outcome` -/
def judgeParse (o : VerOps) (s : Bytes) (impl : String) : Verdict := Id.run do
  let mut v := corr (parseOutS o (o.parse s)) impl
  let w? := o.ver.read? s
  let f := impl.splitOn " "
  let kind := f.headD ""
  if kind == "panic" then v := v.add "C01" "panic"
  if (kind == "ok") != w?.isSome then
    v := v.add "C01" s!"spec-accepts={w?.isSome}"
  -- header rule of C18 (Spec/Errors.lean): the part of the string before its first `/` is not the version's header
  if o.ver != .v20 && Spec.headOf s != o.ver.header && impl != "err 1:-" then
    v := v.add "C18" "want 1:- (header)"
  -- C18, v3: only base metrics missing (everything written is legal, nothing repeated or unknown) ⇒ *ErrMissing naming the
  -- first missing one in specification order
  if o.ver == .v30 || o.ver == .v31 then
    match Spec.stripPrefix (o.ver.header ++ [Spec.SLASH]) s with
    | some rest =>
      match Spec.readPairs (Spec.splitSlash rest) with
      | some w =>
        let names := w.map (·.1)
        if Spec.allLegalB Spec.V3.metrics w && Spec.nodupB names then
          match (Spec.abvs Spec.V3.base).find? (fun a => !names.contains a) with
          | some a => if impl != s!"err 103:{hexB a}" then v := v.add "C18" s!"want err 103:{hexB a} (first missing base metric)"
          | none => pure ()
      | none => pure ()
    | none => pure ()
  match w?, f with
  | some w, ["ok", _obj, vec, gets, rt] =>
    if gets != specGets o w then v := v.add "C06" s!"want gets={specGets o w}"
    if vec != hexB (canonical o.ver w) then v := v.add "C08" s!"want vec={hexB (canonical o.ver w)}"
    if rt != "same" then v := v.add "C02" "round trip differs"
    if (o.ver.read? (unhex vec)).isNone then v := v.add "C09" "Vector() not grammatical"
  | _, _ => pure ()
  return v

/-- `X s | abcd` acceptance flags of the four parsers -/
def judgeCross (s : Bytes) (impl : String) : Verdict := Id.run do
  let model := String.join (allOps.map fun o => if (o.parse s).isOk then "1" else "0")
  let mut v := corr model impl
  if (impl.toList.filter (· == '1')).length > 1 then v := v.add "C13" "accepted by more than one version"
  return v

def defectOf (kind : String) (i j : Nat) (a v : Bytes) : Option Spec.Defect :=
  match kind with
  | "header" => some (.header v)
  | "illegal" => some (.illegalValue i v)
  | "remove" => some (.removeMandatory i)
  | "repeated" => some (.repeated i j v)
  | "unknown" => some (.unknown j a v)
  | "swap" => some (.swap i)
  | "truncate" => some (.truncate i)
  | "move" => some (.move i j)
  | _ => none

/-- `E ver kind i j a v valid defective | outcome` -/
def judgeDefect (o : VerOps) (kind : String) (i j : Nat) (a val valid defective : Bytes) (impl : String) : Verdict := Id.run do
  let mut v := corr (match o.parse defective with | .ok _ => "ok" | .err e => s!"err {errS e}" | .panic => "panic") impl
  match o.ver.read? valid, defectOf kind i j a val with
  | some w, some d =>
    match d.apply o.ver w with
    | some (s, e) =>
      if s != defective then v := { v with diff := some s!"GEN-MISMATCH {hexB s}" }
      else if impl != s!"err {errValS e}" then v := v.add "C18" s!"want err {errValS e}"
    | none => v := { v with diff := some "GEN-NOT-APPLICABLE" }
  | _, _ => v := { v with diff := some "GEN-BAD" }
  return v

/-- `S ver obj abv val | err obj' getsBefore getsAfter` -/
def judgeSet (o : VerOps) (c : List Nat) (a val : Bytes) (impl : String) : Verdict := Id.run do
  let r := o.set c a val
  let mut v := corr s!"{errS r.2} {hexB r.1} {getsS o c} {getsS o r.1}" impl
  let ms := o.ver.metrics
  match impl.splitOn " " with
  | [e, c', gb, ga] =>
    let want := Spec.setErr ms a val
    if e != errValS want then
      v := v.add (if want.1 == 0 || e == "0:-" then "C09" else "C18") s!"want err {errValS want}"
    if e != "0:-" then
      if c' != hexB c then v := v.add "C07" "failed Set changed the object"
    else if want.1 == 0 then
      -- successful Set of a legal value: that metric reads back `val`, all others unchanged
      let gbl := gb.splitOn ","
      let gal := ga.splitOn ","
      let names := ms.map (·.abv)
      for (n, (x, y)) in names.zip (gbl.zip gal) do
        if n == a then
          if y != hexB val then v := v.add "C07" s!"Get after Set gives {y}"
        else if x != y then v := v.add "C07" s!"metric {hexB n} changed {x}->{y}"
      if o.wf c && !(o.wf (unhex c')) then v := v.add "C09" "Set left a malformed object"
  | _ =>
    -- Get and Set contain no panic source (Props/NoPanicNN `panic_free`): a panic is a violation on any byte state
    if impl == "panic" then v := (v.add "C09" "Set panics").add "C07" "Set panics"
    else v := { v with diff := some "BAD-IMPL-LINE" }
  return v

/-- `G ver obj abv | val err` -/
def judgeGet (o : VerOps) (c : List Nat) (a : Bytes) (impl : String) : Verdict := Id.run do
  let r := o.get c a
  let mut v := corr s!"{hexB r.1} {errS r.2}" impl
  let ms := o.ver.metrics
  match impl.splitOn " " with
  | [val, e] =>
    let want := Spec.getErr ms a
    if e != errValS want then v := v.add (if want.1 == 0 then "C09" else "C18") s!"want err {errValS want}"
    if want.1 != 0 && val != "-" then v := v.add "C09" "value returned for unknown metric"
    if want.1 == 0 && o.wf c && !(Spec.legal ms a (unhex val)) then v := v.add "C09" "illegal value from Get"
  | _ =>
    if impl == "panic" then v := v.add "C09" "Get panics"
    else v := { v with diff := some "BAD-IMPL-LINE" }
  return v

/-- `O ver obj | vec lenVec gets rt nom` -/
def judgeObj (o : VerOps) (c : List Nat) (reached : Bool) (impl : String) : Verdict := Id.run do
  let nom := if o.ver == .v40 then hexB (o.nomen c) else "-"
  let mut v := corr s!"{hexB (o.vector c)} {o.lenVec c} {getsS o c} {rtS o c} {nom}" impl
  if reached && !(o.wf c) then v := v.add "C09" "object reached through the API is not well formed"
  if o.wf c || reached then
    match impl.splitOn " " with
    | [vec, lv, gets, rt, nm] =>
      let vb := unhex vec
      if toString vb.length != lv then v := v.add "C17" s!"len(Vector())={vb.length} lenVec={lv}"
      if rt != "same" then v := v.add "C02" "round trip differs"
      let ms := o.ver.metrics
      let gl := gets.splitOn ","
      let w : List Spec.Pair := (ms.zip gl).map fun (m, g) => (m.abv, unhex g)
      if !(ms.zip gl).all (fun (m, g) => g != "!" && Spec.legal ms m.abv (unhex g)) then v := v.add "C09" "illegal Get on reachable object"
      match o.ver.read? vb with
      | none => v := v.add "C09" "Vector() not grammatical"
      | some w' => if specGets o w' != gets then v := v.add "C02" "Vector() does not spell the object's values"
      if vec != hexB (canonical o.ver w) then v := v.add "C08" "Vector() is not canonical"
      if o.ver == .v40 then
        let want := Spec.V4.nomenclature (fun a => Spec.valueOf ms w a)
        if nm != hexB want then v := v.add "C16" s!"want {hexB want}"
    | _ =>
      -- Vector / lenVec / Get / Nomenclature / the round trip panicked on a well-formed or API-reached object
      if impl == "panic" then v := ((v.add "C09" "Vector/Get/Nomenclature panics on a reachable object").add "C02" "Vector panics").add "C17" "Vector panics"
      else v := { v with diff := some "BAD-IMPL-LINE" }
  return v

/-- `A ver kind a1 a2 a3 | allocs` — the documented allocation budget (README: 0 to 1 allocs/op):
    a successful ParseVector ≤ 1, Vector() = 1, Get/Set on a known metric, scores, Rating, Nomenclature = 0.
    Cost model for Vector(): one `make` with the code's own capacity (`Vector_cap`, regenerated); the appends regrow iff the text is longer. -/
def judgeAlloc (o : VerOps) (kind a1 a2 a3 : String) (impl : String) : Verdict := Id.run do
  if impl.toNat?.isNone then
    return (({} : Verdict).add "C17" s!"the measured operation did not complete: {impl}")
  if !["vector", "parse", "get", "set", "score", "nomen", "rating"].contains kind then
    return { diff := some "BAD-OP" }
  let n := impl.toNat!
  let mut v : Verdict := {}
  match kind with
  | "vector" =>
    let c := unhex a1
    let fits := (o.vector c).length ≤ o.vectorCap c
    if fits != (n == 1) && !(n ≥ 2 && !fits) then v := { v with diff := some (if fits then "1" else ">=2") }
    if o.wf c && n != 1 then v := v.add "C17" s!"Vector() allocates {n}"
  | "parse" =>
    if (o.ver.read? (unhex a2)).isSome && n > 1 then v := v.add "C17" s!"successful ParseVector allocates {n}"
  | "get" =>
    if Spec.isMetric o.ver.metrics (unhex a2) && n != 0 then v := v.add "C17" s!"Get allocates {n}"
  | "set" =>
    if Spec.isMetric o.ver.metrics (unhex a2) && n != 0 then v := v.add "C17" s!"Set allocates {n}"
  | _ => if n != 0 then v := v.add "C17" s!"{kind} allocates {n}"
  return v

def judge (line : String) : Verdict × String :=
  match line.splitOn " | " with
  | [op, impl] =>
    match op.splitOn " " with
    | ["P", ver, s] => match opsOf ver with
      | some o => (judgeParse o (unhex s) impl, "P" ++ ver)
      | none => ({ diff := some "BAD-OP" }, "?")
    | ["X", s] => (judgeCross (unhex s) impl, "X")
    | ["E", ver, kind, i, j, a, v, valid, defective] => match opsOf ver with
      | some o => (judgeDefect o kind i.toNat! j.toNat! (unhex a) (unhex v) (unhex valid) (unhex defective) impl, "E" ++ ver ++ kind)
      | none => ({ diff := some "BAD-OP" }, "?")
    | ["S", ver, c, a, v] => match opsOf ver with
      | some o => (judgeSet o (unhex c) (unhex a) (unhex v) impl, "S" ++ ver)
      | none => ({ diff := some "BAD-OP" }, "?")
    | ["G", ver, c, a] => match opsOf ver with
      | some o => (judgeGet o (unhex c) (unhex a) impl, "G" ++ ver)
      | none => ({ diff := some "BAD-OP" }, "?")
    | ["O", ver, c, r] => match opsOf ver with
      | some o => (judgeObj o (unhex c) (r == "1") impl, "O" ++ ver)
      | none => ({ diff := some "BAD-OP" }, "?")
    | ["Q", ver, _, _] =>
      -- Go-level `==` of two objects with the same bytes, one of them after a history of non-mutating calls
      ((if impl == "eq" then ({} : Verdict) else ({} : Verdict).add "C07" impl), "Q" ++ ver)
    | ["A", ver, kind, a1, a2, a3] => match opsOf ver with
      | some o => (judgeAlloc o kind a1 a2 a3 impl, "A" ++ ver ++ kind)
      | none => ({ diff := some "BAD-OP" }, "?")
    | ["C", ver, scenario, _] =>
      ((if impl == "same" then ({} : Verdict) else ({} : Verdict).add "C14" impl), "C" ++ ver ++ scenario)
    | _ => match Driver.judgeScoreOp (op.splitOn " ") impl with
      | some (d, viol, detail, tag) => ({ diff := d, viol := viol, detail := detail }, tag)
      | none => ({ diff := some "BAD-OP" }, "?")
  | _ => ({ diff := some "BAD-LINE" }, "?")

partial def loop (h out : IO.FS.Stream) (stats : Std.HashMap String Nat) : IO (Std.HashMap String Nat) := do
  let line ← h.getLine
  if line.isEmpty then return stats
  let line := line.trimAsciiEnd.toString
  if line.isEmpty then return (← loop h out stats)
  let (v, tag) := judge line
  let mut s := ""
  if let some m := v.diff then s := s ++ s!"DIFF model={m}"
  if !v.viol.isEmpty then s := s ++ (if s.isEmpty then "" else " ") ++ s!"VIOL {",".intercalate v.viol} {v.detail}"
  out.putStrLn (if s.isEmpty then "ok" else s)
  let bump (m : Std.HashMap String Nat) (k : String) := m.insert k (m.getD k 0 + 1)
  let mut st := bump stats ("op:" ++ tag)
  if v.diff.isSome then st := bump st "diff"
  for p in v.viol do st := bump st ("viol:" ++ p)
  loop h out st

def main : IO Unit := do
  let out ← IO.getStdout
  let stats ← loop (← IO.getStdin) out {}
  let items := stats.toList.toArray.qsort (fun a b => a.1 < b.1)
  out.putStrLn ("STATS " ++ " ".intercalate (items.toList.map fun (k, n) => s!"{k}={n}"))
