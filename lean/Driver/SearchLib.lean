import Driver.Scores
import Std.Data.HashMap
/-!
# Model-based search for a failing score input (core-only; shared by the executables `search` and `searchobj`)

When a score theorem (C03 v3.0/v3.1, C04 v4.0, C05 v2.0) no longer checks after regeneration, this library
enumerates natively (compiled Lean, not the kernel) every finite domain the proofs enumerate, *as concrete objects*:
every tuple of a domain is turned into one or two objects through the model's own `Set` with the Spec's value
strings, the regenerated object-level score functions (`GenVxx.BaseScore u0 …`, stable signatures) are evaluated on
them and judged by the driver's own `F` judge (`Driver.judgeScore`: Spec value, one-decimal, no panic).
This level ("model") survives any change of the generated text that still compiles at the object level; the
predicate level (the proofs' own `okBase`, `okInner`, `tailOk` …) is added by `Driver/Search.lean`, which imports
proof modules and therefore may fail to build when one of those modules breaks (then `searchobj` is the fallback).

Output: per failing tuple one `FAIL …` line followed by `F <ver> <object bytes hex>` operation lines (harness/driver
format); last line `searched N tuples, K failing`.
-/
set_option compiler.extract_closed false
namespace Search
open Driver

abbrev Obj := List Nat
abbrev Val := List Nat

def b (s : String) : Val := s.toList.map Char.toNat
def str (x : Val) : String := String.ofList (x.map Char.ofNat)

structure Fail where
  level : String          -- "model" (object level) or "pred" (a predicate of the proofs)
  ver : String
  what : String           -- domain, or predicate + chunk
  tuple : String
  detail : String
  objs : List Obj

structure Report where
  searched : Nat := 0
  unreal : Nat := 0       -- tuples for which no object could be constructed (unattained score value / distance)
  fails : Array Fail := #[]
  objs : Array (String × Obj) := #[]     -- with `--all`: every object constructed

def Report.merge (a c : Report) : Report :=
  { searched := a.searched + c.searched, unreal := a.unreal + c.unreal, fails := a.fails ++ c.fails, objs := a.objs ++ c.objs }

abbrev Job := Unit → Report

/-! ## objects from value strings -/

def nBytes (ver : String) : Nat := match ver with | "20" => 4 | "40" => 9 | _ => 6
def zero (ver : String) : Obj := List.replicate (nBytes ver) 0

def metricsOf (ver : String) : List Spec.Metric := (verOf ver).metrics
def valuesOf (ver : String) (a : String) : List Val :=
  match Spec.findMetric (metricsOf ver) (b a) with | some m => m.values | none => []

/-- apply the model's `Set` for every pair; `none` if one of them is refused -/
def setAll (ver : String) (c : Obj) (asg : List (String × Val)) : Option Obj :=
  asg.foldl (fun acc p => acc.bind fun c => let r := modelSet ver c (b p.1) p.2; if r.2 = Go.errNil then some r.1 else none) (some c)

def prod {α} : List (List α) → List (List α)
  | [] => [[]]
  | xs :: rest => let r := prod rest; xs.flatMap fun x => r.map (x :: ·)

def showAsg (asg : List (String × Val)) : String := "/".intercalate (asg.map fun p => p.1 ++ ":" ++ str p.2)

/-- the next value in the metric's own list (a different value of the same metric) -/
def rot (ver : String) (a : String) (v : Val) : Val :=
  let vs := (valuesOf ver a).filter fun x => x != b "X" && x != b "ND"
  let i := vs.idxOf v
  vs.getD ((i + 1) % vs.length) v

/-- bit pattern ↦ number of tenths, for every value `Driver.tenthOf` recognises (`F64.tenth 0..100`, `F64.negTenth 1, 2`,
    and `-0.0`, which is IEEE-equal to `F64.tenth 0`); computed once -/
def tenthTab : Std.HashMap Nat Int :=
  let m : Std.HashMap Nat Int := (List.range 101).foldl (fun m k => m.insert (F64.tenth k) (k : Int)) {}
  ((m.insert (F64.negTenth 1) (-1)).insert (F64.negTenth 2) (-2)).insert 0x8000000000000000 0

/-- same verdict as `Driver.tenthOf` on every non-NaN bit pattern, by table lookup -/
def tenthFast (x : Nat) (allowNeg : Bool) : Option Int :=
  match tenthTab.get? x with
  | some k => if k < 0 && !allowNeg then none else some k
  | none => none

/-- the driver's `F` judge applied to the model's own result (slow path: used for the verdict text) -/
def checkSlow (ver : String) (c : Obj) : Option String :=
  if !(modelWf ver c) then some "object built by Set is not well formed" else
  let r := judgeScore ver c (scoresS (modelScores ver c))
  if r.2.1.isEmpty then none else some s!"{",".intercalate r.2.1} {r.2.2}"

/-- the conditions under which `Driver.judgeScore` reports nothing, evaluated with the tenth table -/
def passFast (ver : String) (c : Obj) : Bool :=
  modelWf ver c &&
  (let xs := modelScores ver c
   !(xs.any fun x => x == poison || F64.isNaN x) &&
   (let val := fun a => modelGet ver c a
    let want := specTenths ver val
    let main := if ver == "40" then 1 else 3
    ((List.range main).all fun i =>
      match tenthFast (xs.getD i 0) (ver == "20" && i == 2) with
      | some k => (want.getD i []).contains k
      | none => false) &&
    (let subs := SpecScores.subScores ver val
     (List.range subs.length).all fun i =>
      let x := Float.ofBits (UInt64.ofNat (xs.getD (3 + i) 0))
      let q := subs.getD i (0, 1)
      (x - Float.ofInt q.1 / Float.ofNat q.2).abs <= 1e-9)))

/-- `some detail` when the object fails the driver's `F` judge on the model's own scores -/
def check (ver : String) (c : Obj) : Option String :=
  if passFast ver c then none else checkSlow ver c

/-- bit pattern → number of tenths + 2 (so that the v2 values -0.2, -0.1 fit); `-0.0` is 1000 -/
def tenthIdx (x : Nat) : Option Nat :=
  if x == 0x8000000000000000 then some 1000 else
  match tenthFast x true with
  | some k => some (k + 2).toNat
  | none => none

structure Cfg where
  all : Bool := false

/-- one tuple of a domain, realised by `objs` -/
def tupleReport (cfg : Cfg) (ver what : String) (tuple : String) (objs : List Obj) : Report :=
  if objs.isEmpty then { searched := 1, unreal := 1 } else
  let bad := objs.filterMap fun c => (check ver c).map fun d => (c, d)
  { searched := 1,
    fails := if bad.isEmpty then #[] else #[{ level := "model", ver, what, tuple, detail := (bad.headD ([], "")).2, objs := bad.map (·.1) }],
    objs := if cfg.all then (objs.map fun c => (ver, c)).toArray else #[] }

def runTuples (cfg : Cfg) (ver what : String) (ts : List (String × List Obj)) : Report :=
  ts.foldl (fun r t => r.merge (tupleReport cfg ver what t.1 t.2)) {}

/-! ## v3.0 / v3.1 -/
namespace V3
def baseN : List String := ["AV", "AC", "PR", "UI", "S", "C", "I", "A"]
def modN : List String := ["MAV", "MAC", "MPR", "MUI", "MS", "MC", "MI", "MA"]
def tempN : List String := ["E", "RL", "RC"]
def reqN : List String := ["CR", "IR", "AR"]

def baseObj (ver : String) (vals : List Val) : Option Obj := setAll ver (zero ver) (baseN.zip vals)

/-- domain (a): the 2,592 base classes -/
def baseTuples (ver : String) : List (List Val) := prod (baseN.map (valuesOf ver))

/-- for every tenth `k` (0..100): a base object whose model BaseScore is `k/10`, if there is one -/
def baseByK (ver : String) : Array (Option Obj) := Id.run do
  let mut m : Array (Option Obj) := Array.replicate 101 none
  for vals in baseTuples ver do
    if let some c := baseObj ver vals then
      if let some k := tenthFast ((modelScores ver c).headD 0) false then
        let k := k.toNat
        if k < 101 && (m.getD k none).isNone then m := m.set! k (some c)
  return m

def temporalObjs (ver : String) (byK : Array (Option Obj)) (k : Nat) (t : List Val) : List Obj :=
  match byK.getD k none with
  | some c => (setAll ver c (tempN.zip t)).toList
  | none => []

/-- an effective tuple `[mav, mac, mpr, mui, ms, mc, mi, ma]` + `[cr, ir, ar]` realised (1) by base metrics with the
    Modified metrics `X`, (2) by Modified metrics on a different base -/
def envObjs (ver : String) (eff req : List Val) : List Obj :=
  let o1 := setAll ver (zero ver) (baseN.zip eff ++ reqN.zip req)
  let other := (baseN.zip eff).map fun p => (p.1, rot ver p.1 p.2)
  let o2 := setAll ver (zero ver) (other ++ modN.zip eff ++ reqN.zip req)
  o1.toList ++ o2.toList

def jobs (cfg : Cfg) (ver : String) (byK : Array (Option Obj)) : List Job :=
  let jBase : Job := fun _ =>
    runTuples cfg ver "base" ((baseTuples ver).map fun vals => (showAsg (baseN.zip vals), (baseObj ver vals).toList))
  let tvals := prod (tempN.map (valuesOf ver))
  let jT : List Job := (List.range 4).map fun q => fun _ =>
    runTuples cfg ver "temporal-step" (((List.range 101).filter (· % 4 == q)).flatMap fun k =>
      tvals.map fun t => (s!"base={k}/10 " ++ showAsg (tempN.zip t), temporalObjs ver byK k t))
  let reqs := prod (reqN.map (valuesOf ver))
  let rest := prod (["PR", "UI", "C", "I", "A"].map (valuesOf ver))
  let jEnv : List Job := (prod (["S", "AV", "AC"].map (valuesOf ver))).map fun h => fun _ =>
    match h with
    | [ms, mav, mac] =>
      runTuples cfg ver s!"environmental-inner MS:{str ms}/MAV:{str mav}/MAC:{str mac}" (rest.flatMap fun r =>
        match r with
        | [mpr, mui, mc, mi, ma] =>
          let eff := [mav, mac, mpr, mui, ms, mc, mi, ma]
          reqs.map fun q => (showAsg (modN.zip eff ++ reqN.zip q) ++ " (effective values)", envObjs ver eff q)
        | _ => [])
    | _ => {}
  jBase :: jT ++ jEnv
end V3

/-! ## v2.0 -/
namespace V2
def baseN : List String := ["AV", "AC", "Au", "C", "I", "A"]
def tempN : List String := ["E", "RL", "RC"]
def reqN : List String := ["CR", "IR", "AR"]
def finN : List String := ["CDP", "TD"]
def ver : String := "20"

def baseTuples : List (List Val) := prod (baseN.map (valuesOf ver))
def baseObj (vals : List Val) : Option Obj := setAll ver (zero ver) (baseN.zip vals)

def envOf (c : Obj) : Nat := (modelScores ver c).getD 2 0

/-- representatives: for every value the environmental score takes on the given objects, the first object -/
def reps (cs : List Obj) : Std.HashMap Nat Obj :=
  cs.foldl (fun m c => let x := envOf c; if m.contains x then m else m.insert x c) {}

/-- all 46,656 objects base × requirements (temporal and CDP/TD not defined): their environmental score is the
    recomputed base -/
def rbObjs (_ : Unit) : List (String × Obj) :=
  let reqs := prod (reqN.map (valuesOf ver))
  baseTuples.flatMap fun vals => reqs.filterMap fun q =>
    (setAll ver (zero ver) (baseN.zip vals ++ reqN.zip q)).map fun c => (showAsg (baseN.zip vals ++ reqN.zip q), c)

def showBits (x : Nat) : String :=
  match tenthIdx x with
  | some 1000 => "-0.0"
  | some j => s!"{(j : Int) - 2}/10"
  | none => "0x" ++ hexN x

/-- objects whose recomputed base is the bit pattern `fl` (× the temporal values `t`) -/
def t2Objs (rb : Std.HashMap Nat Obj) (fl : Nat) (t : List Val) : List Obj :=
  match rb.get? fl with
  | some c => (setAll ver c (tempN.zip t)).toList
  | none => []
def fObjs (at_ : Std.HashMap Nat Obj) (fl : Nat) (f : List Val) : List Obj :=
  match at_.get? fl with
  | some c => (setAll ver c (finN.zip f)).toList
  | none => []

structure Ctx where
  rb : Std.HashMap Nat Obj        -- recomputed-base value ↦ object (base + requirements)
  at_ : Std.HashMap Nat Obj       -- adjusted-temporal value ↦ object (base + requirements + temporal)

def tvals : List (List Val) := prod (tempN.map (valuesOf ver))
def fvals : List (List Val) := prod (finN.map (valuesOf ver))

def slices {α} (n : Nat) (l : List α) : List (List α) :=
  (List.range n).map fun q => (l.zipIdx.filter fun p => p.2 % n == q).map (·.1)

def mergeReps (ms : List (Std.HashMap Nat Obj)) : Std.HashMap Nat Obj :=
  ms.foldl (fun acc m => m.fold (fun a k v => if a.contains k then a else a.insert k v) acc) {}

/-- the representatives, computed by 8 parallel tasks per phase -/
def mkCtx (_ : Unit) : Ctx :=
  let ts := (slices 8 ((rbObjs ()).map (·.2))).map fun sl => Task.spawn fun _ => reps sl
  let rb := mergeReps (ts.map Task.get)
  let ts2 := (slices 8 rb.toList).map fun sl => Task.spawn fun _ =>
    reps (sl.flatMap fun p => tvals.filterMap fun t => setAll ver p.2 (tempN.zip t))
  { rb, at_ := mergeReps (ts2.map Task.get) }

def jobs (cfg : Cfg) (ctx : Ctx) : List Job :=
  let jBase : Job := fun _ =>
    runTuples cfg ver "base" (baseTuples.map fun vals => (showAsg (baseN.zip vals), (baseObj vals).toList))
  let all := rbObjs ()
  let jRB : List Job := (List.range 8).map fun q => fun _ =>
    runTuples cfg ver "recomputed-base" (((all.zipIdx).filter fun p => p.2 % 8 == q).map fun p => (p.1.1, [p.1.2]))
  let jT : Job := fun _ =>
    runTuples cfg ver "temporal-step" (ctx.rb.toList.flatMap fun p =>
      tvals.map fun t => (s!"input={showBits p.1} " ++ showAsg (tempN.zip t), t2Objs ctx.rb p.1 t))
  let jF : Job := fun _ =>
    runTuples cfg ver "final-step" (ctx.at_.toList.flatMap fun p =>
      fvals.map fun f => (s!"input={showBits p.1} " ++ showAsg (finN.zip f), fObjs ctx.at_ p.1 f))
  jBase :: jT :: jF :: jRB
end V2

/-! ## v4.0 -/
namespace V4
def ver : String := "40"
def baseN : List String := ["AV", "AC", "AT", "PR", "UI", "VC", "VI", "VA", "SC", "SI", "SA"]
def H : Val := b "H"
def X : Val := b "X"

/-- an effective assignment (base abbreviations + E, CR, IR, AR; SI/SA may be `S`) as two objects:
    (1) base metrics carry the values (`S` through MSI/MSA), (2) Modified metrics on a different base, with
    `H` requirements and `E:A` left not defined -/
def effObjs (eff : List (String × Val)) : List Obj :=
  let isB (a : String) := baseN.contains a
  let safety (p : String × Val) := p.2 == b "S"
  let a1 := eff.flatMap fun p =>
    if isB p.1 then (if safety p then [(p.1, H), ("M" ++ p.1, p.2)] else [p]) else [p]
  let a2 := eff.flatMap fun p =>
    if isB p.1 then [(p.1, if safety p then b "L" else rot ver p.1 p.2), ("M" ++ p.1, p.2)]
    else if (p.1 == "E" && p.2 == b "A") || (p.1 != "E" && p.2 == H) then [(p.1, X)] else [p]
  (setAll ver (zero ver) a1).toList ++ (setAll ver (zero ver) a2).toList

/-- contexts for the per-EQ group domains: the remaining metrics at their highest, and at middle values -/
def ctxHigh : List (String × Val) :=
  [("AV", b "N"), ("AC", b "L"), ("AT", b "N"), ("PR", b "N"), ("UI", b "N"), ("VC", H), ("VI", H), ("VA", H),
   ("SC", H), ("SI", H), ("SA", H), ("E", b "A"), ("CR", H), ("IR", H), ("AR", H)]
def ctxMid : List (String × Val) :=
  [("AV", b "A"), ("AC", b "H"), ("AT", b "P"), ("PR", b "L"), ("UI", b "P"), ("VC", b "L"), ("VI", b "L"), ("VA", H),
   ("SC", b "L"), ("SI", b "L"), ("SA", b "L"), ("E", b "P"), ("CR", b "M"), ("IR", b "M"), ("AR", b "M")]
def override (ctx part : List (String × Val)) : List (String × Val) :=
  ctx.map fun p => match part.lookup p.1 with | some v => (p.1, v) | none => p

def effVals (a : String) : List Val :=
  if a == "SI" || a == "SA" then [b "S", H, b "L", b "N"]
  else if a == "E" then [b "A", b "P", b "U"]
  else if a == "CR" || a == "IR" || a == "AR" then [H, b "M", b "L"]
  else valuesOf ver a

def g1N : List String := ["AV", "PR", "UI"]
def g2N : List String := ["AC", "AT"]
def g36N : List String := ["VC", "VI", "VA", "CR", "IR", "AR"]
def g4N : List String := ["SC", "SI", "SA"]
def g5N : List String := ["E"]

def space (names : List String) : List (List (String × Val)) := (prod (names.map effVals)).map names.zip

/-- (level[s], distance) of a value tuple of each group, through the Spec's own tables -/
def key1 (p : List (String × Val)) : Nat × Nat :=
  let g := fun a => (p.lookup a).getD []
  (Spec.V4.eq1 (g "AV") (g "PR") (g "UI"), Spec.V4.dist1 (g "AV") (g "PR") (g "UI"))
def key2 (p : List (String × Val)) : Nat × Nat :=
  let g := fun a => (p.lookup a).getD []
  (Spec.V4.eq2 (g "AC") (g "AT"), Spec.V4.dist2 (g "AC") (g "AT"))
def key36 (p : List (String × Val)) : Nat × Nat × Nat :=
  let g := fun a => (p.lookup a).getD []
  (Spec.V4.eq3 (g "VC") (g "VI") (g "VA"), Spec.V4.eq6 (g "VC") (g "VI") (g "VA") (g "CR") (g "IR") (g "AR"),
   Spec.V4.dist36 (g "VC") (g "VI") (g "VA") (g "CR") (g "IR") (g "AR"))
def key4 (p : List (String × Val)) : Nat × Nat :=
  let g := fun a => (p.lookup a).getD []
  (Spec.V4.eq4 (g "SC") (g "SI") (g "SA"), Spec.V4.dist4 (g "SC") (g "SI") (g "SA"))
def key5 (p : List (String × Val)) : Nat := Spec.V4.eq5 ((p.lookup "E").getD [])

/-- first and last element (different realisations of the same class) -/
def ends {α} (l : List α) : List α :=
  match l with
  | [] => []
  | [x] => [x]
  | x :: r => [x, r.getLast?.getD x]

/-- the value tuples of every group with their (level, distance) keys, computed once -/
structure Tabs where
  t1 : List ((Nat × Nat) × List (String × Val))
  t2 : List ((Nat × Nat) × List (String × Val))
  t36 : List ((Nat × Nat × Nat) × List (String × Val))
  t4 : List ((Nat × Nat) × List (String × Val))
  t5 : List (Nat × List (String × Val))

def mkTabs (_ : Unit) : Tabs :=
  { t1 := (space g1N).map fun p => (key1 p, p), t2 := (space g2N).map fun p => (key2 p, p),
    t36 := (space g36N).map fun p => (key36 p, p), t4 := (space g4N).map fun p => (key4 p, p),
    t5 := (space g5N).map fun p => (key5 p, p) }

def sel {κ} [BEq κ] (t : List (κ × List (String × Val))) (k : κ) : List (List (String × Val)) :=
  ends ((t.filter fun p => p.1 == k).map (·.2))

/-- objects realising MacroVector `(q1 … q6)` with severity distances `d1 d2 d36 d4`: from two choices of
    per-group value tuples (first and last of each class), base-carried and Modified-carried -/
def realise (tb : Tabs) (q1 q2 q3 q4 q5 q6 d1 d2 d36 d4 : Nat) : List Obj :=
  let c1 := sel tb.t1 (q1, d1)
  let c2 := sel tb.t2 (q2, d2)
  let c36 := sel tb.t36 (q3, q6, d36)
  let c4 := sel tb.t4 (q4, d4)
  let c5 := sel tb.t5 q5
  if c1.isEmpty || c2.isEmpty || c36.isEmpty || c4.isEmpty || c5.isEmpty then [] else
  let pick (i : Nat) (l : List (List (String × Val))) := l.getD (if i == 0 then 0 else l.length - 1) []
  let e0 := pick 0 c1 ++ pick 0 c2 ++ pick 0 c36 ++ pick 0 c4 ++ pick 0 c5
  let e1 := pick 1 c1 ++ pick 1 c2 ++ pick 1 c36 ++ pick 1 c4 ++ pick 1 c5
  (effObjs e0).take 1 ++ (effObjs e1).drop 1 ++ (if e0 == e1 then [] else (effObjs e1).take 1)

/-- every MacroVector the Spec's table knows -/
def macroVectors : List (Nat × Nat × Nat × Nat × Nat × Nat) :=
  (prod [List.range 3, List.range 2, List.range 3, List.range 3, List.range 3, List.range 2]).filterMap fun l =>
    match l with
    | [q1, q2, q3, q4, q5, q6] => if (Spec.V4.lookup (q1, q2, q3, q4, q5, q6)).isSome then some (q1, q2, q3, q4, q5, q6) else none
    | _ => none

def dists (q1 q2 q3 q4 q6 : Nat) : List (List Nat) :=
  prod [List.range (Spec.V4.depth1P1 q1), List.range (Spec.V4.depth2P1 q2), List.range (Spec.V4.depth36P1 q3 q6),
        List.range (Spec.V4.depth4P1 q4)]

/-- the per-EQ group domains (value strings incl. `X` requirements and raw SI/MSI, SA/MSA pairs) in two contexts -/
def groupTuples : List (String × List (List (String × Val))) :=
  let rawReq := fun a => if a == "CR" || a == "IR" || a == "AR" then valuesOf ver a else effVals a
  let g36 := (prod (g36N.map rawReq)).map g36N.zip
  [("EQ1", space g1N), ("EQ2", space g2N), ("EQ3/EQ6", g36), ("EQ4", space g4N),
   ("EQ5", (valuesOf ver "E").map fun v => [("E", v)])]

/-- base value × Modified value of one metric (the effective-value tables `st_*`, and SI/MSI, SA/MSA) -/
def modPairs : List (String × List Obj) :=
  baseN.flatMap fun a =>
    (valuesOf ver a).flatMap fun v => (valuesOf ver ("M" ++ a)).map fun m =>
      let asg := [(a, v), ("M" ++ a, m)]
      (showAsg asg, [ctxHigh, ctxMid].filterMap fun ctx => setAll ver (zero ver) ((ctx.filter fun p => p.1 != a) ++ asg))

def jobs (cfg : Cfg) (tb : Tabs) : List Job :=
  let jG : Job := fun _ =>
    (groupTuples.map fun g => runTuples cfg ver ("group " ++ g.1) (g.2.map fun part =>
      (showAsg part, [ctxHigh, ctxMid].flatMap fun ctx => effObjs (override ctx part)))).foldl Report.merge {}
  let jM : Job := fun _ => runTuples cfg ver "effective-value" modPairs
  let jTail : List Job := macroVectors.map fun mv => fun _ =>
    match mv with
    | (q1, q2, q3, q4, q5, q6) =>
      runTuples cfg ver s!"tail MacroVector {q1}{q2}{q3}{q4}{q5}{q6}" ((dists q1 q2 q3 q4 q6).map fun d =>
        (s!"MacroVector={q1}{q2}{q3}{q4}{q5}{q6} distances(EQ1,EQ2,EQ3/6,EQ4)={d}",
         realise tb q1 q2 q3 q4 q5 q6 (d.getD 0 0) (d.getD 1 0) (d.getD 2 0) (d.getD 3 0)))
  jG :: jM :: jTail
end V4

/-! ## running -/

def runJobs (js : List Job) : Report :=
  let ts := js.map fun j => Task.spawn j
  ts.foldl (fun r t => r.merge t.get) {}

def versionsOf (prop : String) (v? : Option String) : List String :=
  let vs := match prop with
    | "C03" => ["30", "31"] | "C04" => ["40"] | "C05" => ["20"] | _ => ["20", "30", "31", "40"]
  match v? with
  | some v => vs.filter (· == v)
  | none => vs

/-- data shared by the object-level and the predicate-level jobs of one version (each forced at most once) -/
structure Pre where
  v2 : Thunk V2.Ctx
  v4 : Thunk V4.Tabs
  byK : Thunk (Array (Option Obj))

def mkPre (ver : String) : Pre :=
  { v2 := Thunk.mk V2.mkCtx, v4 := Thunk.mk V4.mkTabs, byK := Thunk.mk fun _ => V3.baseByK ver }

def modelJobs (cfg : Cfg) (ver : String) (pre : Pre) : List Job :=
  match ver with
  | "20" => V2.jobs cfg pre.v2.get
  | "40" => V4.jobs cfg pre.v4.get
  | _ => V3.jobs cfg ver pre.byK.get

def printReport (r : Report) (cap : Nat) (all : Bool) : IO Unit := do
  let out ← IO.getStdout
  let mut seen : Std.HashMap String Nat := {}
  for f in r.fails do
    let k := f.level ++ f.ver ++ f.what
    let n := seen.getD k 0
    seen := seen.insert k (n + 1)
    if n < cap then
      out.putStrLn s!"FAIL level={f.level} ver={f.ver} failed={f.what} tuple={f.tuple} :: {f.detail}"
      for c in f.objs do out.putStrLn s!"F {f.ver} {hexB c}"
  for (k, n) in seen.toList do
    if n > cap then out.putStrLn s!"NOTE {k}: {n} failing tuples, the first {cap} printed"
  if all then
    for (v, c) in r.objs do out.putStrLn s!"F {v} {hexB c}"
  out.putStrLn s!"searched {r.searched} tuples, {r.fails.size} failing ({r.unreal} tuples of the proofs' domains are realised by no object)"

/-- `search <C03|C04|C05|C11> [version] [--all] [--max N]`; `extra ver` = additional (predicate-level) jobs -/
def mainWith (args : List String) (extra : Cfg → String → Pre → List Job) : IO UInt32 := do
  let all := args.contains "--all"
  let cap := match args.dropWhile (· != "--max") with | _ :: n :: _ => n.toNat! | _ => 25
  let rec strip : List String → List String
    | "--max" :: _ :: r => strip r
    | a :: r => if a.startsWith "--" then strip r else a :: strip r
    | [] => []
  let pos := strip args
  match pos with
  | prop :: rest =>
    let cfg : Cfg := { all }
    let vs := versionsOf prop rest.head?
    let r := runJobs (vs.flatMap fun v => let pre := mkPre v; modelJobs cfg v pre ++ extra cfg v pre)
    printReport r cap all
    return 0
  | [] =>
    IO.eprintln "usage: search <C03|C04|C05|C11> [20|30|31|40] [--all] [--max N]"
    return 2
end Search
