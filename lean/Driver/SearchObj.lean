import Driver.SearchLib
/-!
# `searchobj`: the object-level search only (fallback of `search`; imports no proof module, so it still builds when a
proof module no longer compiles after regeneration). Same command line and output as `search`.
-/
def main (args : List String) : IO UInt32 := Search.mainWith args fun _ _ _ => []
