import Cvss.Gen.P20
import Cvss.Gen.P30
import Cvss.Gen.P31
import Cvss.Gen.P40
import Cvss.Model.Parse
/-!
# Validation driver for the regenerated parsers (`Cvss/Gen/P*.lean`)

Reads harness lines (`tools/harness`: streams `parse` and `defect`)

    P <ver> <hex string> | <implementation outcome>
    E <ver> <kind> <i> <j> <a> <v> <valid hex> <defective hex> | <implementation outcome>
    X <hex string> | <four accept bits 20,30,31,40>

and, for each, evaluates the **generated** parser `GenPxx.ParseVector`, the **hand-written** model
`Model.parseXX` and compares both with the implementation outcome (`ok <object bytes>` / `err <code>:<abv>` /
`panic`). The v2.0 generated parser is run on a pool buffer of 14 stale strings (`staleBuf`) and, again, on
`staleBuf2`. Prints every disagreement and a summary; exit code 1 if there is any.

Run: `lake exe parsecheck FILE…`  (or `lake env lean --run Driver/ParseCheck.lean FILE…`).
-/
open Model

namespace ParseCheck

def hexDigit (n : Nat) : Char := if n < 10 then Char.ofNat (48 + n) else Char.ofNat (87 + n)
def hexByte (b : Nat) : String := String.ofList [hexDigit (b / 16 % 16), hexDigit (b % 16)]
def hexB (bs : Bytes) : String := if bs.isEmpty then "-" else String.join (bs.map hexByte)
def hv (c : Char) : Nat :=
  let n := c.toNat
  if 48 ≤ n ∧ n ≤ 57 then n - 48 else if 97 ≤ n ∧ n ≤ 102 then n - 87 else if 65 ≤ n ∧ n ≤ 70 then n - 55 else 0
def unhexL : List Char → Bytes
  | a :: b :: r => (hv a * 16 + hv b) :: unhexL r
  | _ => []
def unhex (s : String) : Bytes := if s == "-" then [] else unhexL s.toList

def errS (e : Go.Err) : String := s!"err {e.code}:{hexB e.abv}"

def showGen (r : Go.Res (List Nat)) : String :=
  match r with
  | .ok c => s!"ok {hexB c}"
  | .err e => errS e
  | .panic => "panic"
def showModel (r : Res (List Nat)) : String :=
  match r with
  | .ok c => s!"ok {hexB c}"
  | .err e => errS e
  | .panic => "panic"

def g4 : Go.Res (Nat × Nat × Nat × Nat) → Go.Res (List Nat)
  | .ok (a, b, c, d) => .ok [a, b, c, d] | .err e => .err e | .panic => .panic
def g6 : Go.Res (Nat × Nat × Nat × Nat × Nat × Nat) → Go.Res (List Nat)
  | .ok (a, b, c, d, e, f) => .ok [a, b, c, d, e, f] | .err e => .err e | .panic => .panic
def g9 : Go.Res (Nat × Nat × Nat × Nat × Nat × Nat × Nat × Nat × Nat) → Go.Res (List Nat)
  | .ok (a, b, c, d, e, f, g, h, i) => .ok [a, b, c, d, e, f, g, h, i] | .err e => .err e | .panic => .panic
def mres {α} (f : α → List Nat) : Res α → Res (List Nat)
  | .ok c => .ok (f c) | .err e => .err e | .panic => .panic

def b (s : String) : Bytes := s.toUTF8.toList.map (·.toNat)

/-- 14 stale strings: what earlier calls may have left in the pooled buffer -/
def staleBuf : List Bytes :=
  [b "AV:N", b "AC:L", b "Au:N", b "C:C", b "I:C", b "A:C", b "E:H", b "RL:U", b "RC:C", b "CDP:H", b "TD:H",
   b "CR:H", b "IR:H", b "AR:H"]
def staleBuf2 : List Bytes := List.replicate 14 (b "/x:/:")

/-- outcomes `(generated, generated on the second buffer (v2 only), hand model)` -/
def run (ver : String) (s : Bytes) : Option (String × String × String) :=
  match ver with
  | "20" => some (showGen (g4 (GenP20.ParseVector staleBuf s)), showGen (g4 (GenP20.ParseVector staleBuf2 s)),
                  showModel (mres O20.bytes (parse20 s)))
  | "30" => let g := showGen (g6 (GenP30.ParseVector s)); some (g, g, showModel (mres O30.bytes (parse30 s)))
  | "31" => let g := showGen (g6 (GenP31.ParseVector s)); some (g, g, showModel (mres O31.bytes (parse31 s)))
  | "40" => let g := showGen (g9 (GenP40.ParseVector s)); some (g, g, showModel (mres O40.bytes (parse40 s)))
  | _ => none

/-- the first two blank-separated tokens of the implementation outcome (`ok <bytes>` / `err <c>:<abv>`), or `panic` -/
def implHead (impl : String) : String :=
  match (impl.trimAscii.toString.splitOn " ") with
  | "ok" :: x :: _ => s!"ok {x}"
  | "err" :: x :: _ => s!"err {x}"
  | x :: _ => x
  | [] => ""

structure Stats where
  lines : Nat := 0
  checked : Nat := 0
  bad : Nat := 0
  ok : Nat := 0
  err : Nat := 0
  panics : Nat := 0
  skipped : Nat := 0

def accBit (o : String) : String := if o.startsWith "ok" then "1" else "0"

def judge (line : String) (st : Stats) : IO Stats := do
  let st := { st with lines := st.lines + 1 }
  match line.splitOn " | " with
  | [op, impl] =>
    let one (ver : String) (s : Bytes) : IO Stats := do
      match run ver s with
      | none => pure { st with skipped := st.skipped + 1 }
      | some (g, g2, m) =>
        let i := implHead impl
        let st := { st with checked := st.checked + 1,
                            ok := st.ok + (if g.startsWith "ok" then 1 else 0),
                            err := st.err + (if g.startsWith "err" then 1 else 0),
                            panics := st.panics + (if g == "panic" then 1 else 0) }
        if g == m && g == i && g2 == g then pure st
        else
          IO.println s!"MISMATCH {op}: generated={g} generated(buf2)={g2} model={m} implementation={i}"
          pure { st with bad := st.bad + 1 }
    match op.splitOn " " with
    | ["P", ver, s] => one ver (unhex s)
    | ["E", ver, _, _, _, _, _, _, defective] => one ver (unhex defective)
    | ["X", s] =>
      let s := unhex s
      let rs := ["20", "30", "31", "40"].filterMap fun v => run v s
      let g := String.join (rs.map fun r => accBit r.1)
      let g2 := String.join (rs.map fun r => accBit r.2.1)
      let m := String.join (rs.map fun r => accBit r.2.2)
      let i := impl.trimAscii.toString
      let st := { st with checked := st.checked + 1 }
      if g == m && g == i && g2 == g then pure st
      else
        IO.println s!"MISMATCH {op}: generated={g} generated(buf2)={g2} model={m} implementation={i}"
        pure { st with bad := st.bad + 1 }
    | _ => pure { st with skipped := st.skipped + 1 }
  | _ => pure { st with skipped := st.skipped + 1 }

partial def loop (h : IO.FS.Stream) (st : Stats) : IO Stats := do
  let line ← h.getLine
  if line.isEmpty then return st
  let st ← judge (line.dropEndWhile (· == '\n')).toString st
  loop h st

def main (args : List String) : IO UInt32 := do
  let mut st : Stats := {}
  if args.isEmpty then
    st ← loop (← IO.getStdin) st
  else
    for f in args do
      let h ← IO.FS.Handle.mk f .read
      st ← loop (IO.FS.Stream.ofHandle h) st
  IO.println s!"parsecheck: lines={st.lines} checked={st.checked} mismatches={st.bad} skipped={st.skipped} (P/E outcomes: ok={st.ok} err={st.err} panic={st.panics})"
  return (if st.bad == 0 then 0 else 1)

end ParseCheck

def main (args : List String) : IO UInt32 := ParseCheck.main args
