import Lean
/-!
Axiom audit: for every theorem declared in the given modules print its name and the axioms it depends on.
Used by `bin/check`: anything outside `propext`, `Quot.sound`, `Classical.choice` fails the check.
-/
open Lean Elab Command

def auditModules (mods : List Name) : CommandElabM Unit := do
  let env ← getEnv
  for m in mods do
    match env.header.moduleNames.idxOf? m with
    | none => logInfo m!"AUDIT-MISSING-MODULE {m}"
    | some idx =>
      let data := env.header.moduleData[idx]!
      for n in data.constNames do
        if n.isInternal then continue
        match env.find? n with
        | some (.thmInfo _) =>
          let ax ← liftCoreM (collectAxioms n)
          logInfo m!"AUDIT {m} {n} : {ax.toList}"
        | _ => pure ()

syntax (name := auditCmd) "#audit " ident* : command
@[command_elab auditCmd] def elabAudit : CommandElab := fun stx => do
  let ids := stx[1].getArgs.toList.map (·.getId)
  auditModules ids
