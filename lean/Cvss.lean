-- Root of the `Cvss` library: model, spec and property theorems for pandatix/go-cvss.
import Cvss.Base.Go
import Cvss.Gen.V20
import Cvss.Gen.V30
import Cvss.Gen.V31
import Cvss.Gen.V40
import Cvss.Gen.K20
import Cvss.Gen.K30
import Cvss.Gen.K31
import Cvss.Gen.K40
import Cvss.Model.Obj
import Cvss.Model.Parse
import Cvss.Model.WF
import Cvss.Spec.Metrics
import Cvss.Spec.Grammar
import Cvss.Proofs.Contract
