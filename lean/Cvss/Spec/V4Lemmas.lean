import Cvss.Spec.V4
/-!
# Self-consistency of the v4.0 scoring specification (independent of the code)

For each EQ group (EQ1, EQ2, EQ3+EQ6 jointly, EQ4, EQ5), over **all** vectors of legal effective values:

* `dominated`   — every vector is dominated by at least one highest severity vector of its level;
* `sameSum`     — all highest severity vectors of the level that dominate a vector are at the same severity
                  distance from it (so "the first valid one" of the specification and "the last valid one" of
                  an implementation that keeps iterating give the same distance);
* `maxesInLevel`— the highest severity vectors belong to the level they are listed for;
* `depthOk`     — the depth (+1) table is the maximal severity distance in the level (+1);
* `pareto`      — the listed highest severity vectors are exactly the Pareto maxima of the level (vectors of
                  the level that no other vector of the level dominates).

Also: the lookup table has 270 distinct keys, is monotone (a next-lower MacroVector never scores higher),
the next-lower MacroVectors exist exactly as the level ranges say, and the mean never exceeds the value.
All by kernel evaluation.
-/
namespace Spec.V4

/-- description of one EQ group for the checks -/
structure Group where
  /-- all vectors of the group (all combinations of legal effective values) -/
  all : List Vec
  /-- level of a vector (EQ3/EQ6 jointly: `2·EQ3 + EQ6`) -/
  lvl : Vec → Nat
  levels : List Nat
  maxes : Nat → List Vec
  depthP1 : Nat → Nat

def valuesOf (a : String) : List Bytes := orderOf (b a)

def group1 : Group where
  all := (valuesOf "AV").flatMap fun av => (valuesOf "PR").flatMap fun pr => (valuesOf "UI").map fun ui => vec1 av pr ui
  lvl v := eq1 (v.get (b "AV")) (v.get (b "PR")) (v.get (b "UI"))
  levels := [0, 1, 2]
  maxes := maxes1
  depthP1 := depth1P1

def group2 : Group where
  all := (valuesOf "AC").flatMap fun ac => (valuesOf "AT").map fun at_ => vec2 ac at_
  lvl v := eq2 (v.get (b "AC")) (v.get (b "AT"))
  levels := [0, 1]
  maxes := maxes2
  depthP1 := depth2P1

def group36 : Group where
  all := (valuesOf "VC").flatMap fun vc => (valuesOf "VI").flatMap fun vi => (valuesOf "VA").flatMap fun va =>
         (valuesOf "CR").flatMap fun cr => (valuesOf "IR").flatMap fun ir => (valuesOf "AR").map fun ar =>
           vec36 vc vi va cr ir ar
  lvl v := 2 * eq3 (v.get (b "VC")) (v.get (b "VI")) (v.get (b "VA")) +
           eq6 (v.get (b "VC")) (v.get (b "VI")) (v.get (b "VA")) (v.get (b "CR")) (v.get (b "IR")) (v.get (b "AR"))
  levels := [0, 1, 2, 3, 5]
  maxes l := maxes36 (l / 2) (l % 2)
  depthP1 l := depth36P1 (l / 2) (l % 2)

def group4 : Group where
  all := (valuesOf "SC").flatMap fun sc => (valuesOf "SI").flatMap fun si => (valuesOf "SA").map fun sa => vec4 sc si sa
  lvl v := eq4 (v.get (b "SC")) (v.get (b "SI")) (v.get (b "SA"))
  levels := [0, 1, 2]
  maxes := maxes4
  depthP1 := depth4P1

def group5 : Group where
  all := (valuesOf "E").map fun e => vec5 e
  lvl v := eq5 (v.get (b "E"))
  levels := [0, 1, 2]
  maxes := maxes5
  depthP1 := depth5P1

namespace Group

def dominated (g : Group) : Bool := g.all.all fun v => (g.maxes (g.lvl v)).any (dominates · v)

def sameSum (g : Group) : Bool :=
  g.all.all fun v => ((g.maxes (g.lvl v)).filter (dominates · v)).all fun m =>
    distance m v == distTo (g.maxes (g.lvl v)) v

def maxesInLevel (g : Group) : Bool :=
  g.levels.all fun l => (g.maxes l).all fun m => g.all.contains m && g.lvl m == l

def levelsCover (g : Group) : Bool := g.all.all fun v => g.levels.contains (g.lvl v)

def depthOk (g : Group) : Bool :=
  g.levels.all fun l =>
    (((g.all.filter (g.lvl · == l)).map (distTo (g.maxes l))).foldl max 0) + 1 == g.depthP1 l

/-- `w` strictly dominates `v`: at least as severe everywhere and different -/
def strictlyAbove (w v : Vec) : Bool := w != v && dominates w v

def pareto (g : Group) : Bool :=
  g.levels.all fun l =>
    let vs := g.all.filter (g.lvl · == l)
    vs.all fun v => (!(vs.any (strictlyAbove · v))) == (g.maxes l).contains v

def ok (g : Group) : Bool :=
  g.dominated && g.sameSum && g.maxesInLevel && g.levelsCover && g.depthOk && g.pareto

end Group

theorem group1_ok : group1.ok = true := by decide +kernel
theorem group2_ok : group2.ok = true := by decide +kernel
theorem group4_ok : group4.ok = true := by decide +kernel
theorem group5_ok : group5.ok = true := by decide +kernel
set_option maxHeartbeats 4000000 in
theorem group36_ok : group36.ok = true := by decide +kernel

/-- every vector of every group has the sizes the text says: 36, 4, 729, 48, 3 -/
theorem group_sizes : group1.all.length = 36 ∧ group2.all.length = 4 ∧ group36.all.length = 729 ∧
    group4.all.length = 48 ∧ group5.all.length = 3 := by decide +kernel

/-- EQ5: the severity distance is always 0 -/
theorem dist5_zero : (valuesOf "E").all (fun e => dist5 e == 0) = true := by decide +kernel

/-! ## The lookup table -/

/-- the MacroVectors the level ranges allow: EQ3 = 2 with EQ6 = 0 is impossible -/
def allMV : List MV :=
  (List.range 3).flatMap fun q1 => (List.range 2).flatMap fun q2 => (List.range 3).flatMap fun q3 =>
  (List.range 3).flatMap fun q4 => (List.range 3).flatMap fun q5 => (List.range 2).filterMap fun q6 =>
    if q3 == 2 && q6 == 0 then none else some (q1, q2, q3, q4, q5, q6)

/-- the table has exactly the 270 possible MacroVectors, each once -/
theorem table_keys : table.length = 270 ∧ allMV.length = 270 ∧
    (allMV.all fun mv => (table.filter (·.1 == key mv)).length == 1) = true := by decide +kernel

/-- a next-lower MacroVector exists exactly when the level is not the last one of its EQ, and never scores higher -/
def lowerOk (mv : MV) : Bool :=
  match mv with
  | (q1, q2, q3, q4, q5, _) =>
    let v := (lookup mv).getD 0
    let chk (o : Option Nat) (ex : Bool) : Bool := o.isSome == ex && (o.getD 0) ≤ v
    chk (lower1 mv) (q1 < 2) && chk (lower2 mv) (q2 < 1) && chk (lower4 mv) (q4 < 2) && chk (lower5 mv) (q5 < 2) &&
    chk (lower36 mv) (!(q3 == 2))

theorem lower_ok : allMV.all lowerOk = true := by decide +kernel

/-- within the depths of a MacroVector the mean never exceeds the MacroVector's value (and its denominator is
    positive), so `exactOf`'s natural-number subtraction is exact -/
def meanOk (mv : MV) : Bool :=
  match mv with
  | (q1, q2, q3, q4, _, q6) =>
    (List.range (depth1P1 q1)).all fun d1 => (List.range (depth2P1 q2)).all fun d2 =>
    (List.range (depth36P1 q3 q6)).all fun d36 => (List.range (depth4P1 q4)).all fun d4 =>
      let m := meanOf mv d1 d2 d36 d4 0
      0 < m.den && m.num ≤ (lookup mv).getD 0 * m.den

set_option maxHeartbeats 4000000 in
theorem mean_le_value : allMV.all meanOk = true := by decide +kernel

end Spec.V4
