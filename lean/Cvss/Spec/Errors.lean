import Cvss.Spec.Grammar
/-!
# Spec: the documented error values (property C18)

A *defect* is applied to the witness list `w` of a grammatical vector; `apply` renders the defective
string and says which error value the documentation promises for it. `none` means the defect is not
applicable to this vector (its side conditions fail), so nothing is promised.

Error values are `(code, abv)`: 1 ErrInvalidCVSSHeader, 2 ErrTooShortVector, 3 ErrInvalidMetricOrder,
4 ErrInvalidMetricValue, 101 *ErrInvalidMetric{Abv}, 102 *ErrDefinedN{Abv}, 103 *ErrMissing{Abv}.

## What is promised and what is not: every case in which `Defect.apply ver w d = none`

`apply` itself does not look at whether `w` is the witness list of a grammatical vector; the theorems of
`Props/C18*.lean` add that hypothesis (`∃ s0, Witness s0 w`). Positions are 0-based indices into `w`.
A side condition exists for one of three reasons: (R1) the result would not be defective at all, (R2) the
result would not be a *single* defect of the named kind (it would read as a different list of elements, or
carry two defects), (R3) the documentation promises nothing for that version.

* `header p` (the header replaced by the bytes `p`; the rest of the string, from the first `/` on, is kept).
  The same rule for v3.0, v3.1 and v4.0: **the header of a vector string is the part before its first `/`**
  (`headOf`; the whole string if it has no `/`), and the header is wrong or missing iff that part is not exactly
  the version's header `CVSS:3.0` / `CVSS:3.1` / `CVSS:4.0`.
  - `ver = v2.0`: v2.0 vectors have no header (R3).
  - `headOf (p ++ rest) = ver.header`: the string still carries the right header, so it is either the original
    (R1) or a vector whose defect is not "a wrong or missing header" (R2; e.g. `p = CVSS:3.1/XX:Y` is an inserted
    unknown element).
  - `p` is otherwise arbitrary: empty = header missing, another version's header, a different case, the right
    header *followed by junk* (`CVSS:4.0X`, `CVSS:4.01`, `CVSS:3.1X`: the part before the first `/` is then longer
    than the header), the right header preceded by junk, bytes containing `/`.
  The unconditional statements, for every byte string and not only for generated ones, are `C18.header30`,
  `C18.header31`, `C18.header40` (and `…_iff`, `…_spec`) in `Props/C18.lean`: ErrInvalidCVSSHeader is returned
  exactly for the strings whose `headOf` is not the version's header — with one addition for v3: the bare
  `CVSS:3.x` without any `/` (right header, no metrics at all; not generated here since `rest` of a grammatical
  vector begins with `/`) is also reported as a header error by the v3 parsers, while the bare `CVSS:4.0` is
  ErrTooShortVector (`truncate 0`).
  (History: until finding F4 was repaired, the v4.0 parser tested the prefix `CVSS:4.0` only and reported
  `CVSS:4.0X/…` as ErrInvalidMetricValue; an earlier version of this Spec had absorbed that into a narrower side
  condition "the bare header is not a prefix of the result". That was a deviation of the code, not a property of
  the documentation.)
* `illegalValue i v` (the value of element `i` replaced by `v`):
  - `i ≥ w.length`: no such element.
  - `v` is a legal value of the metric of element `i`: not a defect (R1).
  - `v` contains `/`: the string would split into different elements (R2). `v` may be empty and may
    contain `:`.
* `removeMandatory i` (element `i` deleted):
  - `ver` is v2.0 or v4.0: the typed `*ErrMissing` exists in v3 only (R3); there a shortened vector is
    covered by `truncate`, and a base metric missing in the middle is not promised anything by this Spec.
  - `i ≥ w.length`: no such element.
  - element `i` is not one of the eight base metrics: an optional metric may be absent (R1).
* `repeated i j v` (an element `a:v` inserted at position `j`, `a` the abbreviation of element `i`; the
  new element is `result[j]`, `j = w.length` appends):
  - `i ≥ w.length`: no such element.
  - `v` is not a legal value of `a`: that would be two defects, a repeat and an illegal value (R2).
  - `j > w.length`: no such position. Every `0 ≤ j ≤ w.length` is covered, including directly before or
    after the original.
  - promised: v3 `*ErrDefinedN{a}`; v2.0/v4.0 ErrInvalidMetricOrder. (v2.0: the code deviates from this
    promise when the insertion lands after a complete environmental group, finding F3 — that is a fact
    about the code, `C18.V2.v2_errors_afterEnv`, not a side condition of this Spec.)
* `unknown j a v` (an element `a:v` inserted at position `j`):
  - `a` is an abbreviation of the version's metric table: that is `repeated` (R2).
  - `a` contains `/` or `:`: the string would not read as an element with abbreviation `a` (R2). `a` may be
    empty.
  - `v` contains `/`: as for `illegalValue` (R2). `v` may be empty or contain `:`.
  - `j > w.length`: no such position.
  - promised: v3 `*ErrInvalidMetric{a}`; v2.0/v4.0 ErrInvalidMetricOrder (v2.0: same remark about F3).
* `swap i` (elements `i` and `i+1` exchanged):
  - `ver` is v3.0/v3.1: the order of metrics is free in v3, the result is a valid vector (R1).
  - `i + 1 ≥ w.length`: no such pair.
* `move i j` (element `i` taken out and put back so that it is `result[j]`:
  `result = insertAt (w.eraseIdx i) j w[i]`; `move i (i+1)` and `move (i+1) i` are both `swap i`):
  - `ver` is v3.0/v3.1: as for `swap` (R1).
  - `i ≥ w.length`: no such element.
  - `j = i`: nothing moves, the result is `w` (R1). For every other `j` the result differs from `w`,
    because the abbreviations of a grammatical vector are pairwise distinct.
  - `j ≥ w.length`: no such position (the result has the length of `w`, its positions are `0 … w.length-1`).
* `truncate n` (only the first `n` elements kept):
  - `ver` is v3.0/v3.1: ErrTooShortVector is promised for v2.0 and v4.0 only; in v3 a lost base metric is
    `removeMandatory`, a lost optional metric is no defect (R3).
  - v2.0, `n = 0`: the empty string, no group has been started (R3).
  - v2.0, `n ≥ w.length`: nothing is cut (R1).
  - v2.0, `n ∈ {6, 9, 11, 14}` (`V2.completeLengths`): the lengths at which *some* v2.0 vector is complete.
    This is **coarser than necessary**: `n = 9` in a base+environmental vector and `n = 11` in a
    base+temporal+environmental vector cut inside the environmental group, and the text promises
    ErrTooShortVector there too. The exact statement (every cut `1 ≤ n < w.length` whose kept part is not
    itself a complete vector) is proved separately: `C18.V2.truncated_inside_group`.
  - v4.0, `n ≥ 11`: the base group is complete; what remains is a valid vector (R1). `n = 0` (the bare
    header) is covered.
-/
namespace Spec

abbrev ErrVal := Nat × Bytes

inductive Version | v20 | v30 | v31 | v40
deriving DecidableEq, Repr

def Version.metrics : Version → List Metric
  | .v20 => V2.metrics | .v30 => V3.metrics | .v31 => V3.metrics | .v40 => V4.metrics

def Version.header : Version → Bytes
  | .v20 => [] | .v30 => V3.header30 | .v31 => V3.header31 | .v40 => V4.header

/-- render a pair list the way the version writes vectors (no validity implied) -/
def Version.render (ver : Version) (w : List Pair) : Bytes :=
  match ver with
  | .v20 => joinSlash (w.map Spec.render)
  | .v30 | .v31 => ver.header ++ SLASH :: joinSlash (w.map Spec.render)
  | .v40 => ver.header ++ (w.map (fun p => SLASH :: Spec.render p)).flatten

def Version.read? (ver : Version) (s : Bytes) : Option (List Pair) :=
  match ver with
  | .v20 => V2.read? s
  | .v30 => V3.read? V3.header30 s
  | .v31 => V3.read? V3.header31 s
  | .v40 => V4.read? s

inductive Defect where
  /-- replace the header by `p` (possibly empty = header missing); the part of `p ++ body` before its first `/`
      must not be the version's header -/
  | header (p : Bytes)
  /-- element `i` gets the value `v`, which is not a legal value of its metric -/
  | illegalValue (i : Nat) (v : Bytes)
  /-- v3: remove element `i`, which is a base metric -/
  | removeMandatory (i : Nat)
  /-- insert, at position `j`, a second element for the metric of element `i`, with a legal value `v` -/
  | repeated (i j : Nat) (v : Bytes)
  /-- insert, at position `j`, an element `a:v` whose abbreviation `a` is not a metric of the version
      (and contains neither `/` nor `:`) -/
  | unknown (j : Nat) (a v : Bytes)
  /-- v2/v4: swap elements `i` and `i+1` -/
  | swap (i : Nat)
  /-- v2/v4: keep only the first `n` elements, ending inside a group that must be complete -/
  | truncate (n : Nat)
  /-- v2/v4: take element `i` out and put it back at position `j ≠ i` of the result ("misplaced") -/
  | move (i j : Nat)
deriving Repr

def insertAt {α} (xs : List α) (j : Nat) (x : α) : List α := xs.take j ++ x :: xs.drop j

def clean (a : Bytes) : Bool := !a.contains SLASH && !a.contains COLON

/-- the header of a vector string: the part before its first `/` (the whole string if there is none) -/
def headOf (s : Bytes) : Bytes := s.takeWhile (fun c => c != SLASH)

theorem headOf_self : ∀ (l : Bytes), SLASH ∉ l → headOf l = l
  | [], _ => rfl
  | c :: l, h => by
    have hc : (c != SLASH) = true := by simp only [bne_iff_ne, ne_eq]; intro e; exact h (by simp [e])
    have := headOf_self l (fun hm => h (List.mem_cons_of_mem _ hm))
    unfold headOf at this ⊢
    rw [List.takeWhile_cons, hc]; simp [this]

theorem headOf_append_slash : ∀ (l r : Bytes), SLASH ∉ l → headOf (l ++ SLASH :: r) = l
  | [], r, _ => by simp [headOf]
  | c :: l, r, h => by
    have hc : (c != SLASH) = true := by simp only [bne_iff_ne, ne_eq]; intro e; exact h (by simp [e])
    have := headOf_append_slash l r (fun hm => h (List.mem_cons_of_mem _ hm))
    unfold headOf at this ⊢
    rw [List.cons_append, List.takeWhile_cons, hc]; simp [this]

/-- a string is its header, or its header followed by `/` and the rest -/
theorem headOf_split : ∀ (s : Bytes), s = headOf s ∨ ∃ r, s = headOf s ++ SLASH :: r
  | [] => Or.inl rfl
  | c :: s => by
    by_cases hc : c = SLASH
    · subst hc; right; exact ⟨s, by simp [headOf]⟩
    · have hb : (c != SLASH) = true := by simpa using hc
      have e : headOf (c :: s) = c :: headOf s := by unfold headOf; rw [List.takeWhile_cons, hb]; rfl
      rw [e]
      rcases headOf_split s with h | ⟨r, h⟩
      · left; rw [← h]
      · right; exact ⟨r, by rw [List.cons_append, ← h]⟩

/-- `headOf s = h` (for a slash-free `h`) says: `s` is `h` itself or begins with `h/` -/
theorem headOf_eq_iff (s h : Bytes) (hh : SLASH ∉ h) : headOf s = h ↔ s = h ∨ (h ++ [SLASH]) <+: s := by
  constructor
  · intro e
    rcases headOf_split s with hs | ⟨r, hs⟩
    · left; rw [← e]; exact hs
    · right; rw [← e]; exact ⟨r, by rw [List.append_assoc]; exact hs.symm⟩
  · rintro (rfl | ⟨r, rfl⟩)
    · exact headOf_self _ hh
    · rw [List.append_assoc]; exact headOf_append_slash _ _ hh

/-- v2.0: element counts at which a vector may end -/
def V2.completeLengths : List Nat := [6, 9, 11, 14]

/-- the defective string and the promised error -/
def Defect.apply (ver : Version) (w : List Pair) : Defect → Option (Bytes × ErrVal)
  | .header p =>
    if ver = .v20 then none else
    let body := (ver.render w).drop ver.header.length
    let s := p ++ body
    if headOf s = ver.header then none else some (s, (1, []))
  | .illegalValue i v =>
    match w[i]? with
    | none => none
    | some (a, _) =>
      if legal ver.metrics a v || v.contains SLASH then none
      else some (ver.render (w.set i (a, v)), (4, []))
  | .removeMandatory i =>
    match ver, w[i]? with
    | .v30, some (a, _) | .v31, some (a, _) =>
      if (abvs V3.base).contains a then some (ver.render (w.eraseIdx i), (103, a)) else none
    | _, _ => none
  | .repeated i j v =>
    match w[i]? with
    | none => none
    | some (a, _) =>
      if !legal ver.metrics a v || j > w.length then none else
      let s := ver.render (insertAt w j (a, v))
      match ver with
      | .v30 | .v31 => some (s, (102, a))
      | _ => some (s, (3, []))
  | .unknown j a v =>
    if isMetric ver.metrics a || !clean a || v.contains SLASH || j > w.length then none else
    let s := ver.render (insertAt w j (a, v))
    match ver with
    | .v30 | .v31 => some (s, (101, a))
    | _ => some (s, (3, []))
  | .swap i =>
    match ver, w[i]?, w[i+1]? with
    | .v30, _, _ | .v31, _, _ => none
    | _, some p, some q => some (ver.render ((w.set i q).set (i+1) p), (3, []))
    | _, _, _ => none
  | .truncate n =>
    match ver with
    | .v20 => if n ≥ 1 ∧ n < w.length ∧ !V2.completeLengths.contains n then some (ver.render (w.take n), (2, [])) else none
    | .v40 => if n < 11 then some (ver.render (w.take n), (2, [])) else none
    | _ => none
  | .move i j =>
    match ver with
    | .v30 | .v31 => none
    | _ =>
      match w[i]? with
      | none => none
      | some p =>
        if j = i ∨ w.length ≤ j then none
        else some (ver.render (insertAt (w.eraseIdx i) j p), (3, []))

/-- Get/Set on an unknown abbreviation: `*ErrInvalidMetric{abv}`; Set with an illegal value of a known
    metric: `ErrInvalidMetricValue`; otherwise no error. -/
def setErr (ms : List Metric) (a v : Bytes) : ErrVal :=
  if !isMetric ms a then (101, a) else if !legal ms a v then (4, []) else (0, [])

def getErr (ms : List Metric) (a : Bytes) : ErrVal := if !isMetric ms a then (101, a) else (0, [])

/-! ## v4.0 nomenclature (specification §1.3): `CVSS-B`, `+T` iff the threat metric is defined, `+E` iff an
environmental metric is defined. -/
def V4.nomenclature (val : Bytes → Bytes) : Bytes :=
  b "CVSS-B" ++ (if V4.threat.any (fun m => val m.abv ≠ b "X") then b "T" else []) ++
    (if V4.environmental.any (fun m => val m.abv ≠ b "X") then b "E" else [])

end Spec
