import Cvss.Spec.Grammar
/-!
# Spec: the documented error values (property C18)

A *defect* is applied to the witness list `w` of a grammatical vector; `apply` renders the defective
string and says which error value the documentation promises for it. `none` means the defect is not
applicable to this vector (its side conditions fail), so nothing is promised.

Error values are `(code, abv)`: 1 ErrInvalidCVSSHeader, 2 ErrTooShortVector, 3 ErrInvalidMetricOrder,
4 ErrInvalidMetricValue, 101 *ErrInvalidMetric{Abv}, 102 *ErrDefinedN{Abv}, 103 *ErrMissing{Abv}.
-/
namespace Spec

abbrev ErrVal := Nat × Bytes

inductive Version | v20 | v30 | v31 | v40
deriving DecidableEq, Repr

def Version.metrics : Version → List Metric
  | .v20 => V2.metrics | .v30 => V3.metrics | .v31 => V3.metrics | .v40 => V4.metrics

def Version.header : Version → Bytes
  | .v20 => [] | .v30 => V3.header30 | .v31 => V3.header31 | .v40 => V4.header

/-- render a pair list the way the version writes vectors (no validity implied) -/
def Version.render (ver : Version) (w : List Pair) : Bytes :=
  match ver with
  | .v20 => joinSlash (w.map Spec.render)
  | .v30 | .v31 => ver.header ++ SLASH :: joinSlash (w.map Spec.render)
  | .v40 => ver.header ++ (w.map (fun p => SLASH :: Spec.render p)).flatten

def Version.read? (ver : Version) (s : Bytes) : Option (List Pair) :=
  match ver with
  | .v20 => V2.read? s
  | .v30 => V3.read? V3.header30 s
  | .v31 => V3.read? V3.header31 s
  | .v40 => V4.read? s

inductive Defect where
  /-- replace the header by `p` (possibly empty = header missing); `p ++ body` must not start with the header -/
  | header (p : Bytes)
  /-- element `i` gets the value `v`, which is not a legal value of its metric -/
  | illegalValue (i : Nat) (v : Bytes)
  /-- v3: remove element `i`, which is a base metric -/
  | removeMandatory (i : Nat)
  /-- insert, at position `j`, a second element for the metric of element `i`, with a legal value `v` -/
  | repeated (i j : Nat) (v : Bytes)
  /-- insert, at position `j`, an element `a:v` whose abbreviation `a` is not a metric of the version
      (and contains neither `/` nor `:`) -/
  | unknown (j : Nat) (a v : Bytes)
  /-- v2/v4: swap elements `i` and `i+1` -/
  | swap (i : Nat)
  /-- v2/v4: keep only the first `n` elements, ending inside a group that must be complete -/
  | truncate (n : Nat)
deriving Repr

def insertAt {α} (xs : List α) (j : Nat) (x : α) : List α := xs.take j ++ x :: xs.drop j

def clean (a : Bytes) : Bool := !a.contains SLASH && !a.contains COLON

/-- v2.0: element counts at which a vector may end -/
def V2.completeLengths : List Nat := [6, 9, 11, 14]

/-- the defective string and the promised error -/
def Defect.apply (ver : Version) (w : List Pair) : Defect → Option (Bytes × ErrVal)
  | .header p =>
    if ver = .v20 then none else
    let body := (ver.render w).drop ver.header.length
    let s := p ++ body
    if ver.header.isPrefixOf s then none else some (s, (1, []))
  | .illegalValue i v =>
    match w[i]? with
    | none => none
    | some (a, _) =>
      if legal ver.metrics a v || v.contains SLASH then none
      else some (ver.render (w.set i (a, v)), (4, []))
  | .removeMandatory i =>
    match ver, w[i]? with
    | .v30, some (a, _) | .v31, some (a, _) =>
      if (abvs V3.base).contains a then some (ver.render (w.eraseIdx i), (103, a)) else none
    | _, _ => none
  | .repeated i j v =>
    match w[i]? with
    | none => none
    | some (a, _) =>
      if !legal ver.metrics a v || j > w.length then none else
      let s := ver.render (insertAt w j (a, v))
      match ver with
      | .v30 | .v31 => some (s, (102, a))
      | _ => some (s, (3, []))
  | .unknown j a v =>
    if isMetric ver.metrics a || !clean a || v.contains SLASH || j > w.length then none else
    let s := ver.render (insertAt w j (a, v))
    match ver with
    | .v30 | .v31 => some (s, (101, a))
    | _ => some (s, (3, []))
  | .swap i =>
    match ver, w[i]?, w[i+1]? with
    | .v30, _, _ | .v31, _, _ => none
    | _, some p, some q => some (ver.render ((w.set i q).set (i+1) p), (3, []))
    | _, _, _ => none
  | .truncate n =>
    match ver with
    | .v20 => if n ≥ 1 ∧ n < w.length ∧ !V2.completeLengths.contains n then some (ver.render (w.take n), (2, [])) else none
    | .v40 => if n < 11 then some (ver.render (w.take n), (2, [])) else none
    | _ => none

/-- Get/Set on an unknown abbreviation: `*ErrInvalidMetric{abv}`; Set with an illegal value of a known
    metric: `ErrInvalidMetricValue`; otherwise no error. -/
def setErr (ms : List Metric) (a v : Bytes) : ErrVal :=
  if !isMetric ms a then (101, a) else if !legal ms a v then (4, []) else (0, [])

def getErr (ms : List Metric) (a : Bytes) : ErrVal := if !isMetric ms a then (101, a) else (0, [])

/-! ## v4.0 nomenclature (specification §1.3): `CVSS-B`, `+T` iff the threat metric is defined, `+E` iff an
environmental metric is defined. -/
def V4.nomenclature (val : Bytes → Bytes) : Bytes :=
  b "CVSS-B" ++ (if V4.threat.any (fun m => val m.abv ≠ b "X") then b "T" else []) ++
    (if V4.environmental.any (fun m => val m.abv ≠ b "X") then b "E" else [])

end Spec
