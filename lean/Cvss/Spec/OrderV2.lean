import Cvss.Spec.Metrics
/-!
# Spec: severity order of the CVSS v2.0 Base and Temporal metric values

For each metric the values are listed from least to most severe (guide §2.1, §2.2: the value that raises the
score most is the most severe); values in the same group rank equal — "Not Defined" ranks as the value it is
scored as (`E:ND` as `E:H`, `RL:ND` as `RL:U`, `RC:ND` as `RC:C`). Keyed by value strings; never looks at the code.
-/
namespace Spec.V2

def severity : List (Bytes × List (List Bytes)) :=
  [ (b "AV", [[b "L"], [b "A"], [b "N"]]),
    (b "AC", [[b "H"], [b "M"], [b "L"]]),
    (b "Au", [[b "M"], [b "S"], [b "N"]]),
    (b "C",  [[b "N"], [b "P"], [b "C"]]),
    (b "I",  [[b "N"], [b "P"], [b "C"]]),
    (b "A",  [[b "N"], [b "P"], [b "C"]]),
    (b "E",  [[b "U"], [b "POC"], [b "F"], [b "H", b "ND"]]),
    (b "RL", [[b "OF"], [b "TF"], [b "W"], [b "U", b "ND"]]),
    (b "RC", [[b "UC"], [b "UR"], [b "C", b "ND"]]) ]

/-- position of value `v` in the severity order of metric `m` -/
def rank (m v : Bytes) : Option Nat := (severity.lookup m).bind fun groups => groups.findIdx? (·.contains v)

/-- `v'` is at least as severe as `v` (both values of metric `m`) -/
def sevLE (m v v' : Bytes) : Bool :=
  match rank m v, rank m v' with
  | some r, some r' => decide (r ≤ r')
  | _, _ => false

/-- every Base and Temporal metric value of `Spec.V2.metrics` is ranked, and nothing else -/
example : (base ++ temporal).all (fun m => m.values.all fun v => (rank m.abv v).isSome) = true := by decide
example : severity.all (fun p => p.2.all fun g => g.all fun v => legal metrics p.1 v) = true := by decide

end Spec.V2
