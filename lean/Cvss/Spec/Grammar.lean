import Cvss.Spec.Metrics
/-!
# Spec: vector-string grammars, their meaning, and the canonical spelling

Generative definitions (a string is a vector iff it is the rendering of a *witness list* of
`abv:value` pairs satisfying the version's rule), an executable recogniser `read?` per version that
returns the witness, the meaning of a vector (`valueOf` on the witness) and its canonical spelling.
Nothing here looks at the Go code.
-/
namespace Spec

def abvs (ms : List Metric) : List Bytes := ms.map (·.abv)

/-- every written pair uses a legal value of a metric of the version -/
def allLegal (ms : List Metric) (w : List Pair) : Prop := ∀ p ∈ w, legal ms p.1 p.2 = true

/-! ## v2.0: `AV:./AC:./Au:./C:./I:./A:.` then optionally `/E:./RL:./RC:.` then optionally
`/CDP:./TD:./CR:./IR:./AR:.`; no header; explicit `ND` is a legal value. -/
namespace V2
def shapes : List (List Bytes) :=
  [ abvs base, abvs base ++ abvs temporal, abvs base ++ abvs environmental,
    abvs base ++ abvs temporal ++ abvs environmental ]
def Witness (s : Bytes) (w : List Pair) : Prop :=
  s = joinSlash (w.map render) ∧ w.map (·.1) ∈ shapes ∧ allLegal metrics w
def G (s : Bytes) : Prop := ∃ w, Witness s w
end V2

/-! ## v3.x: header `CVSS:3.x`, then `/`-separated pairs in any order, each metric at most once,
all eight base metrics present; explicit `X` is a legal value. -/
namespace V3
def Witness (hdr : Bytes) (s : Bytes) (w : List Pair) : Prop :=
  s = hdr ++ SLASH :: joinSlash (w.map render) ∧ allLegal metrics w ∧ (w.map (·.1)).Nodup ∧
  ∀ m ∈ base, m.abv ∈ w.map (·.1)
def G (hdr : Bytes) (s : Bytes) : Prop := ∃ w, Witness hdr s w
end V3

/-! ## v4.0: header `CVSS:4.0`, the eleven base metrics in order, then any sub-sequence of the
optional metrics in the fixed order of Table 23; every element is preceded by `/`. -/
namespace V4
def optional : List Metric := threat ++ environmental ++ supplemental
def Witness (s : Bytes) (w : List Pair) : Prop :=
  s = header ++ (w.map (fun p => SLASH :: render p)).flatten ∧ allLegal metrics w ∧
  ∃ opt, opt.Sublist (abvs optional) ∧ w.map (·.1) = abvs base ++ opt
def G (s : Bytes) : Prop := ∃ w, Witness s w
end V4

/-! ## Executable recognisers (what the driver runs as oracle; proved equivalent to the grammars in
`Proofs/`) -/

/-- split at every `/`; always at least one part -/
def splitSlash : Bytes → List Bytes
  | [] => [[]]
  | c :: cs =>
    if c = SLASH then [] :: splitSlash cs
    else match splitSlash cs with
      | h :: t => (c :: h) :: t
      | [] => [[c]]

/-- split an element at its first `:`; `none` when it has no colon -/
def splitColon : Bytes → Option Pair
  | [] => none
  | c :: cs =>
    if c = COLON then some ([], cs)
    else match splitColon cs with
      | some (a, v) => some (c :: a, v)
      | none => none

def readPairs (parts : List Bytes) : Option (List Pair) := parts.mapM splitColon

def allLegalB (ms : List Metric) (w : List Pair) : Bool := w.all fun p => legal ms p.1 p.2

def nodupB : List Bytes → Bool
  | [] => true
  | x :: xs => !xs.contains x && nodupB xs

def stripPrefix (p s : Bytes) : Option Bytes :=
  if p.isPrefixOf s then some (s.drop p.length) else none

def V2.read? (s : Bytes) : Option (List Pair) :=
  match readPairs (splitSlash s) with
  | some w => if V2.shapes.contains (w.map (·.1)) && allLegalB V2.metrics w then some w else none
  | none => none

def V3.read? (hdr : Bytes) (s : Bytes) : Option (List Pair) :=
  match stripPrefix (hdr ++ [SLASH]) s with
  | none => none
  | some rest =>
    match readPairs (splitSlash rest) with
    | some w =>
      if allLegalB V3.metrics w && nodupB (w.map (·.1)) && (abvs V3.base).all (fun a => (w.map (·.1)).contains a)
      then some w else none
    | none => none

/-- is `xs` a sub-sequence of `ys` -/
def isSubseq : List Bytes → List Bytes → Bool
  | [], _ => true
  | _ :: _, [] => false
  | x :: xs, y :: ys => if x = y then isSubseq xs ys else isSubseq (x :: xs) ys

def V4.read? (s : Bytes) : Option (List Pair) :=
  match stripPrefix V4.header s with
  | none => none
  | some rest =>
    match rest with
    | [] => none
    | c :: rest' =>
      if c ≠ SLASH then none else
      match readPairs (splitSlash rest') with
      | some w =>
        let names := w.map (·.1)
        if allLegalB V4.metrics w && names.take 11 == abvs V4.base && isSubseq (names.drop 11) (abvs V4.optional)
        then some w else none
      | none => none

/-! ## Canonical spelling -/

/-- the pairs a canonical v3/v4 vector writes: every mandatory metric, and every optional metric whose
    value is defined, in specification order -/
def canonPairs (ms : List Metric) (w : List Pair) : List Pair :=
  ms.filterMap fun m =>
    let v := valueOf ms w m.abv
    if m.mandatory || some v ≠ m.undef then some (m.abv, v) else none

def V3.canonical (hdr : Bytes) (w : List Pair) : Bytes :=
  hdr ++ SLASH :: joinSlash ((canonPairs V3.metrics w).map render)

def V4.canonical (w : List Pair) : Bytes :=
  V4.header ++ ((canonPairs V4.metrics w).map (fun p => SLASH :: render p)).flatten

/-- v2.0 writes an optional group in full iff at least one of its metrics is defined -/
def V2.groupPairs (g : List Metric) (w : List Pair) : List Pair :=
  let ps := g.map fun m => (m.abv, valueOf V2.metrics w m.abv)
  if g.all (fun m => m.mandatory) || ps.any (fun p => p.2 ≠ b "ND") then ps else []

def V2.canonical (w : List Pair) : Bytes :=
  joinSlash ((V2.groupPairs V2.base w ++ V2.groupPairs V2.temporal w ++ V2.groupPairs V2.environmental w).map render)

end Spec
