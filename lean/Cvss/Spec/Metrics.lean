/-!
# Spec: metric and value tables of CVSS v2.0, v3.0/v3.1 and v4.0

Transcribed from the FIRST documents (v2.0 guide §2 and §2.4 "Base, Temporal, Environmental vectors";
v3.0/v3.1 specification §2–§6 and Table 15; v4.0 specification §2–§7 and Table 23). This file never
looks at the Go code. Strings are byte lists (`List Nat`); `b "AV"` is the ASCII bytes of the literal.

Every version is described by a list of `Metric`s **in specification (canonical) order**; each
metric has its abbreviation, its legal values, whether it is mandatory in a vector, and its
"not defined" value (`ND` in v2.0, `X` in v3/v4) when it has one. The first value listed is what an
omitted optional metric means.
-/
namespace Spec

abbrev Bytes := List Nat

/-- ASCII bytes of a string literal -/
def b (x : String) : Bytes := x.toList.map Char.toNat

structure Metric where
  abv       : Bytes
  values    : List Bytes
  mandatory : Bool
  /-- the value meaning "not defined" (only optional metrics have one) -/
  undef     : Option Bytes := none
deriving Repr, DecidableEq

def mand (a : String) (vs : List String) : Metric := ⟨b a, vs.map b, true, none⟩
def optX (a : String) (vs : List String) : Metric := ⟨b a, (b "X") :: vs.map b, false, some (b "X")⟩
def optND (a : String) (vs : List String) : Metric := ⟨b a, (b "ND") :: vs.map b, false, some (b "ND")⟩

/-- slash `/` and colon `:` -/
def SLASH : Nat := 47
def COLON : Nat := 58

/-! ## v2.0 (guide §2.1–2.3; vector syntax §2.4: base, then optionally the complete temporal
group, then optionally the complete environmental group, each in the order below). -/
namespace V2
def base : List Metric :=
  [ mand "AV" ["L", "A", "N"], mand "AC" ["H", "M", "L"], mand "Au" ["M", "S", "N"],
    mand "C" ["N", "P", "C"], mand "I" ["N", "P", "C"], mand "A" ["N", "P", "C"] ]
def temporal : List Metric :=
  [ optND "E" ["U", "POC", "F", "H"], optND "RL" ["OF", "TF", "W", "U"], optND "RC" ["UC", "UR", "C"] ]
def environmental : List Metric :=
  [ optND "CDP" ["N", "L", "LM", "MH", "H"], optND "TD" ["N", "L", "M", "H"],
    optND "CR" ["L", "M", "H"], optND "IR" ["L", "M", "H"], optND "AR" ["L", "M", "H"] ]
def metrics : List Metric := base ++ temporal ++ environmental
end V2

/-! ## v3.0 and v3.1 (identical metric tables; specification Table 15) -/
namespace V3
def base : List Metric :=
  [ mand "AV" ["N", "A", "L", "P"], mand "AC" ["L", "H"], mand "PR" ["N", "L", "H"], mand "UI" ["N", "R"],
    mand "S" ["U", "C"], mand "C" ["H", "L", "N"], mand "I" ["H", "L", "N"], mand "A" ["H", "L", "N"] ]
def temporal : List Metric :=
  [ optX "E" ["H", "F", "P", "U"], optX "RL" ["U", "W", "T", "O"], optX "RC" ["C", "R", "U"] ]
def environmental : List Metric :=
  [ optX "CR" ["H", "M", "L"], optX "IR" ["H", "M", "L"], optX "AR" ["H", "M", "L"],
    optX "MAV" ["N", "A", "L", "P"], optX "MAC" ["L", "H"], optX "MPR" ["N", "L", "H"], optX "MUI" ["N", "R"],
    optX "MS" ["U", "C"], optX "MC" ["H", "L", "N"], optX "MI" ["H", "L", "N"], optX "MA" ["H", "L", "N"] ]
def metrics : List Metric := base ++ temporal ++ environmental
def header30 : Bytes := b "CVSS:3.0"
def header31 : Bytes := b "CVSS:3.1"
end V3

/-! ## v4.0 (specification Table 23; fixed order, §7) -/
namespace V4
def base : List Metric :=
  [ mand "AV" ["N", "A", "L", "P"], mand "AC" ["L", "H"], mand "AT" ["N", "P"], mand "PR" ["N", "L", "H"],
    mand "UI" ["N", "P", "A"], mand "VC" ["H", "L", "N"], mand "VI" ["H", "L", "N"], mand "VA" ["H", "L", "N"],
    mand "SC" ["H", "L", "N"], mand "SI" ["H", "L", "N"], mand "SA" ["H", "L", "N"] ]
def threat : List Metric := [ optX "E" ["A", "P", "U"] ]
def environmental : List Metric :=
  [ optX "CR" ["H", "M", "L"], optX "IR" ["H", "M", "L"], optX "AR" ["H", "M", "L"],
    optX "MAV" ["N", "A", "L", "P"], optX "MAC" ["L", "H"], optX "MAT" ["N", "P"], optX "MPR" ["N", "L", "H"],
    optX "MUI" ["N", "P", "A"], optX "MVC" ["H", "L", "N"], optX "MVI" ["H", "L", "N"], optX "MVA" ["H", "L", "N"],
    optX "MSC" ["H", "L", "N"], optX "MSI" ["S", "H", "L", "N"], optX "MSA" ["S", "H", "L", "N"] ]
def supplemental : List Metric :=
  [ optX "S" ["N", "P"], optX "AU" ["N", "Y"], optX "R" ["A", "U", "I"], optX "V" ["D", "C"],
    optX "RE" ["L", "M", "H"], optX "U" ["Clear", "Green", "Amber", "Red"] ]
def metrics : List Metric := base ++ threat ++ environmental ++ supplemental
def header : Bytes := b "CVSS:4.0"
end V4

/-! ## Generic notions over a metric table -/

def findMetric (ms : List Metric) (a : Bytes) : Option Metric := ms.find? (fun m => m.abv == a)

def isMetric (ms : List Metric) (a : Bytes) : Bool := (findMetric ms a).isSome

/-- `v` is a legal value of metric `a` -/
def legal (ms : List Metric) (a v : Bytes) : Bool :=
  match findMetric ms a with
  | some m => m.values.contains v
  | none => false

/-- A written vector element `abv:value` -/
abbrev Pair := Bytes × Bytes

def render (p : Pair) : Bytes := p.1 ++ COLON :: p.2

/-- `a/b/c` -/
def joinSlash : List Bytes → Bytes
  | [] => []
  | [x] => x
  | x :: xs => x ++ SLASH :: joinSlash xs

/-- What a witness list says about metric `m`: the written value, else the metric's not-defined value
    (mandatory metrics are always written in a grammatical vector). -/
def valueOf (ms : List Metric) (w : List Pair) (a : Bytes) : Bytes :=
  match w.find? (fun p => p.1 == a) with
  | some p => p.2
  | none => match findMetric ms a with
            | some m => m.undef.getD []
            | none => []

end Spec
