/-!
# Spec: the qualitative severity rating scale, on exact values of binary64 bit patterns

Transcribed from the FIRST specification documents (CVSS v3.0 §5 "Qualitative Severity Rating Scale",
Table 14; v3.1 §5, Table 14; v4.0 §6, Table 22 — the three tables are the same):

    None      0.0
    Low       0.1 – 3.9
    Medium    4.0 – 6.9
    High      7.0 – 8.9
    Critical  9.0 – 10.0

Scores are defined with one decimal, so the table leaves no gap on the scores it talks about.  A
library function takes an arbitrary `float64`; the reading used here is the one stated in the property
(C15): half-open intervals of *real numbers* `[0,1/10) [1/10,4) [4,7) [7,9) [9,10]`, anything below 0
or above 10 (including −∞ and +∞) is out of bounds, and nothing is prescribed for NaN.

This file never looks at the Go code and is core-only (a compiled driver imports it).  It uses no
real or rational number type: the value of a finite binary64 is the exact fraction
`num / 2^1075` with `num : Int` (every finite double is an integer multiple of `2^-1074`; one more
factor 2 keeps the formula uniform), and all comparisons with the thresholds are integer comparisons
obtained by cross-multiplication (`v < 1/10` is `10 * num < den`).
-/
namespace Spec

/-! ## The exact value denoted by a 64-bit pattern (IEEE-754 binary64, §3.4 of the standard) -/

/-- sign bit (bit 63) -/
def signBit (x : Nat) : Nat := (x / 2^63) % 2
/-- biased exponent field (bits 62..52) -/
def expField (x : Nat) : Nat := (x / 2^52) % 2048
/-- trailing significand field (bits 51..0) -/
def fracField (x : Nat) : Nat := x % 2^52

/-- `|value| · 2^1075` of a finite pattern: subnormal/zero `f · 2^-1074`, normal `(2^52 + f) · 2^(e-1075)` -/
def magnitude (x : Nat) : Nat :=
  if expField x = 0 then fracField x * 2 else (2^52 + fracField x) * 2^(expField x)

/-- what a bit pattern denotes: NaN, −∞, +∞ or the real number `num / F64Val.den` -/
inductive F64Val where
  | nan
  | negInf
  | posInf
  | fin (num : Int)
deriving DecidableEq, Repr

/-- common denominator of all finite binary64 values -/
def F64Val.den : Nat := 2^1075

/-- numerator (over `F64Val.den`) of the finite values; 0 for the others -/
def F64Val.num : F64Val → Int
  | .fin n => n
  | _ => 0

def F64Val.isNaN : F64Val → Bool
  | .nan => true
  | _ => false

/-- decoding of a bit pattern (`−0.0` denotes the real number 0, like `+0.0`) -/
def F64Val.ofBits (x : Nat) : F64Val :=
  if expField x = 2047 then
    (if fracField x = 0 then (if signBit x = 0 then .posInf else .negInf) else .nan)
  else .fin (if signBit x = 0 then (magnitude x : Int) else - (magnitude x : Int))

/-- strict order of the extended reals denoted; NaN is unordered -/
def F64Val.lt : F64Val → F64Val → Prop
  | .nan, _ => False
  | _, .nan => False
  | .negInf, .negInf => False
  | .negInf, _ => True
  | _, .negInf => False
  | .posInf, _ => False
  | .fin _, .posInf => True
  | .fin a, .fin b => a < b          -- a/den < b/den, same positive denominator

/-- non-strict order of the extended reals denoted; NaN is unordered -/
def F64Val.le : F64Val → F64Val → Prop
  | .nan, _ => False
  | _, .nan => False
  | .negInf, _ => True
  | _, .negInf => False
  | _, .posInf => True
  | .posInf, .fin _ => False
  | .fin a, .fin b => a ≤ b

instance (a b : F64Val) : Decidable (F64Val.lt a b) := by
  cases a <;> cases b <;> simp only [F64Val.lt] <;> infer_instance
instance (a b : F64Val) : Decidable (F64Val.le a b) := by
  cases a <;> cases b <;> simp only [F64Val.le] <;> infer_instance

/-! ## The scale -/

inductive Severity where
  | none | low | medium | high | critical
deriving DecidableEq, Repr

/-- the rating's name, upper case ASCII -/
def Severity.name : Severity → List Nat
  | .none     => [78, 79, 78, 69]                       -- "NONE"
  | .low      => [76, 79, 87]                           -- "LOW"
  | .medium   => [77, 69, 68, 73, 85, 77]               -- "MEDIUM"
  | .high     => [72, 73, 71, 72]                       -- "HIGH"
  | .critical => [67, 82, 73, 84, 73, 67, 65, 76]       -- "CRITICAL"

def Severity.nameStr : Severity → String
  | .none => "NONE" | .low => "LOW" | .medium => "MEDIUM" | .high => "HIGH" | .critical => "CRITICAL"

/-- what the scale says about a score -/
inductive Outcome where
  /-- the score is in `[0,10]` and has this rating -/
  | ok (s : Severity)
  /-- the score is below 0 or above 10 -/
  | outOfBounds
  /-- not a number: the specification says nothing -/
  | unspecified
deriving DecidableEq, Repr

/-- **The scale as a relation** on the real number `num/den` (`den > 0`), by exact integer comparisons:
    `v < 1/10` is `10·num < den`, `v < 4` is `num < 4·den`, and so on. -/
def Scale (num : Int) (den : Nat) : Outcome → Prop
  | .ok .none     => 0 ≤ num ∧ 10 * num < den                    -- 0   ≤ v < 1/10
  | .ok .low      => (den : Int) ≤ 10 * num ∧ num < 4 * den      -- 1/10 ≤ v < 4
  | .ok .medium   => 4 * (den : Int) ≤ num ∧ num < 7 * den       -- 4   ≤ v < 7
  | .ok .high     => 7 * (den : Int) ≤ num ∧ num < 9 * den       -- 7   ≤ v < 9
  | .ok .critical => 9 * (den : Int) ≤ num ∧ num ≤ 10 * den      -- 9   ≤ v ≤ 10
  | .outOfBounds  => num < 0 ∨ 10 * (den : Int) < num            -- v < 0 or v > 10
  | .unspecified  => False

/-- the scale as a function on the fraction `num/den` (`den > 0`) -/
def ratingQ (num : Int) (den : Nat) : Outcome :=
  if num < 0 then .outOfBounds
  else if 10 * (den : Int) < num then .outOfBounds
  else if 10 * num < den then .ok .none
  else if num < 4 * den then .ok .low
  else if num < 7 * den then .ok .medium
  else if num < 9 * den then .ok .high
  else .ok .critical

/-- the function computes the relation … -/
theorem ratingQ_scale (num : Int) (den : Nat) (_hden : 0 < den) : Scale num den (ratingQ num den) := by
  unfold ratingQ
  repeat' split
  all_goals simp only [Scale]
  all_goals omega

/-- … and the relation determines the outcome: the intervals are disjoint -/
theorem scale_unique (num : Int) (den : Nat) (hden : 0 < den) (o : Outcome) (h : Scale num den o) :
    o = ratingQ num den := by
  have h' := ratingQ_scale num den hden
  generalize ratingQ num den = o' at h'
  cases o with
  | ok s => cases s <;> (cases o' with
      | ok s' => cases s' <;> simp only [Scale] at h h' <;> first | rfl | omega
      | outOfBounds => simp only [Scale] at h h'; omega
      | unspecified => simp only [Scale] at h')
  | outOfBounds => cases o' with
      | ok s' => cases s' <;> simp only [Scale] at h h' <;> omega
      | outOfBounds => rfl
      | unspecified => simp only [Scale] at h'
  | unspecified => simp only [Scale] at h

/-- the scale on what a `float64` denotes: ±∞ are out of bounds, NaN is left unspecified -/
def rating : F64Val → Outcome
  | .nan => .unspecified
  | .negInf => .outOfBounds
  | .posInf => .outOfBounds
  | .fin n => ratingQ n F64Val.den

/-! ## Driver-facing, executable form -/

/-- error codes of `ratingOfBits` -/
def ratingOk : Nat := 0
def ratingOutOfBounds : Nat := 1
def ratingUnspecified : Nat := 2

/-- rendering of an outcome as (name bytes, code): the name is empty unless the code is `ratingOk` -/
def Outcome.render : Outcome → List Nat × Nat
  | .ok s => (s.name, ratingOk)
  | .outOfBounds => ([], ratingOutOfBounds)
  | .unspecified => ([], ratingUnspecified)

/-- **the scale applied to the exact value of a binary64 bit pattern** -/
def ratingOfBits (x : Nat) : List Nat × Nat := (rating (F64Val.ofBits x)).render

/-! ## Sanity checks of the transcription (evaluated by the kernel) -/

example : Severity.name .none = "NONE".toList.map Char.toNat := by decide
example : Severity.name .low = "LOW".toList.map Char.toNat := by decide
example : Severity.name .medium = "MEDIUM".toList.map Char.toNat := by decide
example : Severity.name .high = "HIGH".toList.map Char.toNat := by decide
example : Severity.name .critical = "CRITICAL".toList.map Char.toNat := by decide
example : ∀ s, Severity.name s = (Severity.nameStr s).toList.map Char.toNat := by
  intro s; cases s <;> decide

-- 1.0 = 0x3FF0000000000000 is den/den, 10.0 is 10·den/den, 0.5 is den/2, −2.0 is −2·den/den
example : F64Val.ofBits 0x3FF0000000000000 = .fin F64Val.den := by decide +kernel
example : F64Val.ofBits 0x4024000000000000 = .fin (10 * F64Val.den) := by decide +kernel
example : F64Val.ofBits 0x3FE0000000000000 = .fin (F64Val.den / 2) := by decide +kernel
example : F64Val.ofBits 0xC000000000000000 = .fin (-(2 * F64Val.den)) := by decide +kernel
-- ±0, smallest subnormal 2^-1074 = 2/den, largest finite (2^53 − 1)·2^971, infinities, a NaN
example : F64Val.ofBits 0 = .fin 0 := by decide +kernel
example : F64Val.ofBits 0x8000000000000000 = .fin 0 := by decide +kernel
example : F64Val.ofBits 1 = .fin 2 := by decide +kernel
example : F64Val.ofBits 0x7FEFFFFFFFFFFFFF = .fin ((2^53 - 1) * 2^971 * F64Val.den) := by decide +kernel
example : F64Val.ofBits 0x7FF0000000000000 = .posInf := by decide +kernel
example : F64Val.ofBits 0xFFF0000000000000 = .negInf := by decide +kernel
example : F64Val.ofBits 0x7FF8000000000001 = .nan := by decide +kernel
-- the scale at rational points: 0, 1/10, 39/10, 4, 69/10, 7, 89/10, 9, 10, 101/10, −1/10
example : ratingQ 0 1 = .ok .none := by decide
example : ratingQ 1 10 = .ok .low := by decide
example : ratingQ 99 1000 = .ok .none := by decide
example : ratingQ 39 10 = .ok .low := by decide
example : ratingQ 4 1 = .ok .medium := by decide
example : ratingQ 69 10 = .ok .medium := by decide
example : ratingQ 7 1 = .ok .high := by decide
example : ratingQ 89 10 = .ok .high := by decide
example : ratingQ 9 1 = .ok .critical := by decide
example : ratingQ 10 1 = .ok .critical := by decide
example : ratingQ 101 10 = .outOfBounds := by decide
example : ratingQ (-1) 10 = .outOfBounds := by decide

end Spec
