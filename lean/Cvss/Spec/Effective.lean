import Cvss.Spec.Metrics
import Cvss.Spec.OrderV2
/-!
# Spec: effective values (C10) and severity orders (C12)

`val : Bytes → Bytes` gives the value string of every metric of an object (`val (b "AV") = b "N"`).

**Effective values.** v3.x §4.2 / v4.0 §4.2: a Modified base metric that is Not Defined (`X`) takes the value
of the corresponding base metric; an undefined temporal/threat or requirement metric scores as its
documented default (v3: E:X≡H, RL:X≡U, RC:X≡C, CR/IR/AR:X≡M; v4: E:X≡A, CR/IR/AR:X≡H); v4 supplemental
metrics are not part of any score.  The *key* of a score is the list of effective values it may depend on:
two objects with the same key must get the same score.

**Severity order.** Rank of each value of a metric, larger = more severe (specification's value order: the
order in which the tables of §2 list the values, most severe first; a Not Defined value ranks with the
value it resolves to).  Nothing here looks at the Go code.
-/
namespace Spec

/-- effective value of the base metric `a` given its Modified metric `ma` -/
def eff (val : Bytes → Bytes) (a ma : Bytes) : Bytes := if val ma = b "X" then val a else val ma

/-- `X` replaced by the metric's documented default -/
def dflt (val : Bytes → Bytes) (a d : Bytes) : Bytes := if val a = b "X" then d else val a

namespace V3
/-- what `EnvironmentalScore` may depend on -/
def envKey (val : Bytes → Bytes) : List Bytes :=
  [ eff val (b "AV") (b "MAV"), eff val (b "AC") (b "MAC"), eff val (b "PR") (b "MPR"), eff val (b "UI") (b "MUI"),
    eff val (b "S") (b "MS"), eff val (b "C") (b "MC"), eff val (b "I") (b "MI"), eff val (b "A") (b "MA"),
    dflt val (b "CR") (b "M"), dflt val (b "IR") (b "M"), dflt val (b "AR") (b "M"),
    dflt val (b "E") (b "H"), dflt val (b "RL") (b "U"), dflt val (b "RC") (b "C") ]
/-- what `BaseScore` may depend on -/
def baseKey (val : Bytes → Bytes) : List Bytes := (abvs' base).map val
  where abvs' (ms : List Metric) := ms.map (·.abv)
/-- what `TemporalScore` may depend on -/
def temporalKey (val : Bytes → Bytes) : List Bytes :=
  baseKey val ++ [dflt val (b "E") (b "H"), dflt val (b "RL") (b "U"), dflt val (b "RC") (b "C")]
end V3

namespace V4
/-- what `Score` may depend on -/
def scoreKey (val : Bytes → Bytes) : List Bytes :=
  [ eff val (b "AV") (b "MAV"), eff val (b "AC") (b "MAC"), eff val (b "AT") (b "MAT"), eff val (b "PR") (b "MPR"),
    eff val (b "UI") (b "MUI"), eff val (b "VC") (b "MVC"), eff val (b "VI") (b "MVI"), eff val (b "VA") (b "MVA"),
    eff val (b "SC") (b "MSC"), eff val (b "SI") (b "MSI"), eff val (b "SA") (b "MSA"),
    dflt val (b "E") (b "A"), dflt val (b "CR") (b "H"), dflt val (b "IR") (b "H"), dflt val (b "AR") (b "H") ]
end V4

/-! ## Severity ranks (larger = more severe) -/

def rankIn (order : List String) (v : Bytes) : Option Nat :=
  match (order.map b).idxOf? v with
  | some i => some (order.length - i)
  | none => none

/-! v2.0: the severity order of the Base and Temporal metric values is `Spec.V2.rank` in `Spec/OrderV2.lean`. -/

/-- v3.x: AV N>A>L>P, AC L>H, PR N>L>H, UI N>R, S C>U, C/I/A H>L>N, E H>F>P>U (X as H), RL U>W>T>O (X as U),
    RC C>R>U (X as C), CR/IR/AR H>M>L (X as M).  Modified metrics: same order as their base metric; `X` is not
    ranked (it resolves to whatever the base metric holds), so steps from/to `X` are not single-metric
    severity steps. -/
def V3.rank (a v : Bytes) : Option Nat :=
  let v' (d : String) := if v = b "X" then b d else v
  if a = b "AV" ∨ a = b "MAV" then rankIn ["N", "A", "L", "P"] v
  else if a = b "AC" ∨ a = b "MAC" then rankIn ["L", "H"] v
  else if a = b "PR" ∨ a = b "MPR" then rankIn ["N", "L", "H"] v
  else if a = b "UI" ∨ a = b "MUI" then rankIn ["N", "R"] v
  else if a = b "S" ∨ a = b "MS" then rankIn ["C", "U"] v
  else if a = b "C" ∨ a = b "I" ∨ a = b "A" ∨ a = b "MC" ∨ a = b "MI" ∨ a = b "MA" then rankIn ["H", "L", "N"] v
  else if a = b "E" then rankIn ["H", "F", "P", "U"] (v' "H")
  else if a = b "RL" then rankIn ["U", "W", "T", "O"] (v' "U")
  else if a = b "RC" then rankIn ["C", "R", "U"] (v' "C")
  else if a = b "CR" ∨ a = b "IR" ∨ a = b "AR" then rankIn ["H", "M", "L"] (v' "M")
  else none

/-- v4.0: AV N>A>L>P, AC L>H, AT N>P, PR N>L>H, UI N>P>A, VC/VI/VA/SC/SI/SA H>L>N (MSI/MSA: S>H>L>N),
    E A>P>U (X as A), CR/IR/AR H>M>L (X as H); Modified metrics as their base metric, `X` unranked;
    supplemental metrics have no severity order. -/
def V4.rank (a v : Bytes) : Option Nat :=
  let v' (d : String) := if v = b "X" then b d else v
  if a = b "AV" ∨ a = b "MAV" then rankIn ["N", "A", "L", "P"] v
  else if a = b "AC" ∨ a = b "MAC" then rankIn ["L", "H"] v
  else if a = b "AT" ∨ a = b "MAT" then rankIn ["N", "P"] v
  else if a = b "PR" ∨ a = b "MPR" then rankIn ["N", "L", "H"] v
  else if a = b "UI" ∨ a = b "MUI" then rankIn ["N", "P", "A"] v
  else if a = b "MSI" ∨ a = b "MSA" then rankIn ["S", "H", "L", "N"] v
  else if a = b "VC" ∨ a = b "VI" ∨ a = b "VA" ∨ a = b "SC" ∨ a = b "SI" ∨ a = b "SA" ∨
          a = b "MVC" ∨ a = b "MVI" ∨ a = b "MVA" ∨ a = b "MSC" then rankIn ["H", "L", "N"] v
  else if a = b "E" then rankIn ["A", "P", "U"] (v' "A")
  else if a = b "CR" ∨ a = b "IR" ∨ a = b "AR" then rankIn ["H", "M", "L"] (v' "H")
  else none

/-- the base metric a Modified metric overrides (`MAV ↦ AV`, …): strip the leading `M` when the rest is a base
    metric of the table -/
def baseOf (ms : List Metric) (a : Bytes) : Option Bytes :=
  match a with
  | 77 :: rest => if (ms.filter (·.mandatory)).any (·.abv == rest) then some rest else none
  | _ => none

/-- rank of value `v` for metric `a` in the context `val` of the other metrics: an `X` in a Modified metric
    ranks as the base metric's current value -/
def rankCtx (ms : List Metric) (rank : Bytes → Bytes → Option Nat) (val : Bytes → Bytes) (a v : Bytes) : Option Nat :=
  match baseOf ms a with
  | some base => if v = b "X" then rank base (val base) else rank a v
  | none => rank a v

/-- `v₂` is at least as severe as `v₁` for metric `a` (both ranked) -/
def atLeastAsSevere (ms : List Metric) (rank : Bytes → Bytes → Option Nat) (val : Bytes → Bytes) (a v₁ v₂ : Bytes) : Bool :=
  match rankCtx ms rank val a v₁, rankCtx ms rank val a v₂ with
  | some r₁, some r₂ => r₁ ≤ r₂
  | _, _ => false

end Spec
