import Cvss.Spec.Metrics
/-!
# Spec: CVSS v4.0 scoring (specification §8.2, Tables 24–30, and the §8.1 MacroVector lookup)

Written from the FIRST CVSS v4.0 specification document; this file never looks at the Go code. It works
on value **strings** (byte lists, `b "N"`) and exact natural-number fractions. Scores are kept in
**tenths** (`93` is the score 9.3), so every lookup value is a natural number.

Reading guide
* `effective`      — Modified metric if defined, else the base metric; `E:X ≡ A`, `CR/IR/AR:X ≡ H`.
* `eq1 … eq6`      — Tables 24–29; `macroVector`.
* `table`/`lookup` — the 270 MacroVector scores (independent transcription, `spec-data/v40_lookup_claircore.txt`).
* `maxes1 …`       — highest severity vectors per level (Tables 24–28 and 30).
* `sev`            — severity order of the values of one metric (0 = most severe).
* `dist1 …`        — severity distance of the scored vector to a highest severity vector of its level that
                     is at least as severe in every metric.
* `depth1P1 …`     — maximal severity depth + 1 of each level (the divisor of the proportion).
* `scoreOf`        — value − mean over the existing next-lower MacroVectors of
                     (available distance × distance/(depth+1)), exact; `roundHalfUp` to one decimal.
Supplemental metrics play no role.
-/
namespace Spec.V4

/-! ## Effective values -/

/-- `v` unless it is `X` (not defined), in which case `dflt` -/
def orElse (v dflt : Bytes) : Bytes := if v == b "X" then dflt else v

/-- the fifteen values the scoring looks at -/
structure Eff where
  (AV AC AT PR UI VC VI VA SC SI SA E CR IR AR : Bytes)
deriving Repr, DecidableEq

/-- `val a` is the value string of the metric with abbreviation `a`.
    The Modified metric overrides the base metric when defined (so `SI`/`SA` may become `S`, Safety);
    `E:X` is scored as `E:A`; `CR:X`, `IR:X`, `AR:X` as `H`. -/
def effective (val : Bytes → Bytes) : Eff where
  AV := orElse (val (b "MAV")) (val (b "AV"))
  AC := orElse (val (b "MAC")) (val (b "AC"))
  AT := orElse (val (b "MAT")) (val (b "AT"))
  PR := orElse (val (b "MPR")) (val (b "PR"))
  UI := orElse (val (b "MUI")) (val (b "UI"))
  VC := orElse (val (b "MVC")) (val (b "VC"))
  VI := orElse (val (b "MVI")) (val (b "VI"))
  VA := orElse (val (b "MVA")) (val (b "VA"))
  SC := orElse (val (b "MSC")) (val (b "SC"))
  SI := orElse (val (b "MSI")) (val (b "SI"))
  SA := orElse (val (b "MSA")) (val (b "SA"))
  E  := orElse (val (b "E")) (b "A")
  CR := orElse (val (b "CR")) (b "H")
  IR := orElse (val (b "IR")) (b "H")
  AR := orElse (val (b "AR")) (b "H")

/-- `is v "N"`: the value string `v` is `N` -/
def is (v : Bytes) (s : String) : Bool := v == b s

/-! ## MacroVector: the six equivalence classes (Tables 24–29), on effective values -/

/-- Table 24. 0: AV:N and PR:N and UI:N. 1: (AV:N or PR:N or UI:N) and not (AV:N and PR:N and UI:N) and not AV:P.
    2: AV:P or not (AV:N or PR:N or UI:N). -/
def eq1 (av pr ui : Bytes) : Nat :=
  if is av "N" && is pr "N" && is ui "N" then 0
  else if (is av "N" || is pr "N" || is ui "N") && !(is av "P") then 1
  else 2

/-- Table 25. 0: AC:L and AT:N. 1: otherwise. -/
def eq2 (ac at_ : Bytes) : Nat := if is ac "L" && is at_ "N" then 0 else 1

/-- Table 26. 0: VC:H and VI:H. 1: not (VC:H and VI:H) and (VC:H or VI:H or VA:H). 2: none of VC, VI, VA is H. -/
def eq3 (vc vi va : Bytes) : Nat :=
  if is vc "H" && is vi "H" then 0
  else if is vc "H" || is vi "H" || is va "H" then 1
  else 2

/-- Table 27. 0: MSI:S or MSA:S (the effective SI/SA is `S` exactly when the Modified metric is).
    1: not that, and SC:H or SI:H or SA:H. 2: otherwise. -/
def eq4 (sc si sa : Bytes) : Nat :=
  if is si "S" || is sa "S" then 0
  else if is sc "H" || is si "H" || is sa "H" then 1
  else 2

/-- Table 28. 0: E:A. 1: E:P. 2: E:U. -/
def eq5 (e : Bytes) : Nat := if is e "A" then 0 else if is e "P" then 1 else 2

/-- Table 29. 0: (CR:H and VC:H) or (IR:H and VI:H) or (AR:H and VA:H). 1: otherwise. -/
def eq6 (vc vi va cr ir ar : Bytes) : Nat :=
  if (is cr "H" && is vc "H") || (is ir "H" && is vi "H") || (is ar "H" && is va "H") then 0 else 1

/-- a MacroVector `(EQ1, EQ2, EQ3, EQ4, EQ5, EQ6)` -/
abbrev MV := Nat × Nat × Nat × Nat × Nat × Nat

def mvOf (e : Eff) : MV :=
  (eq1 e.AV e.PR e.UI, eq2 e.AC e.AT, eq3 e.VC e.VI e.VA, eq4 e.SC e.SI e.SA, eq5 e.E,
   eq6 e.VC e.VI e.VA e.CR e.IR e.AR)

def macroVector (val : Bytes → Bytes) : MV := mvOf (effective val)

/-! ## MacroVector lookup (§8.1), in tenths. Key: the six digits read as a decimal number. -/

def key (mv : MV) : Nat :=
  match mv with
  | (q1, q2, q3, q4, q5, q6) => ((((q1 * 10 + q2) * 10 + q3) * 10 + q4) * 10 + q5) * 10 + q6

def table : List (Nat × Nat) := [
  (0, 100), (1, 99), (10, 98), (11, 95), (20, 95), (21, 92),
  (100, 100), (101, 96), (110, 93), (111, 87), (120, 91), (121, 81),
  (200, 93), (201, 90), (210, 89), (211, 80), (220, 81), (221, 68),
  (1000, 98), (1001, 95), (1010, 95), (1011, 92), (1020, 90), (1021, 84),
  (1100, 93), (1101, 92), (1110, 89), (1111, 81), (1120, 81), (1121, 65),
  (1200, 88), (1201, 80), (1210, 78), (1211, 70), (1220, 69), (1221, 48),
  (2001, 92), (2011, 82), (2021, 72), (2101, 79), (2111, 69), (2121, 50),
  (2201, 69), (2211, 55), (2221, 27), (10000, 99), (10001, 97), (10010, 95),
  (10011, 92), (10020, 92), (10021, 85), (10100, 95), (10101, 91), (10110, 90),
  (10111, 83), (10120, 84), (10121, 71), (10200, 92), (10201, 81), (10210, 82),
  (10211, 71), (10220, 72), (10221, 53), (11000, 95), (11001, 93), (11010, 92),
  (11011, 85), (11020, 85), (11021, 73), (11100, 92), (11101, 82), (11110, 80),
  (11111, 72), (11120, 70), (11121, 59), (11200, 84), (11201, 70), (11210, 71),
  (11211, 52), (11220, 50), (11221, 30), (12001, 86), (12011, 75), (12021, 52),
  (12101, 71), (12111, 52), (12121, 29), (12201, 63), (12211, 29), (12221, 17),
  (100000, 98), (100001, 95), (100010, 94), (100011, 87), (100020, 91), (100021, 81),
  (100100, 94), (100101, 89), (100110, 86), (100111, 74), (100120, 77), (100121, 64),
  (100200, 87), (100201, 75), (100210, 74), (100211, 63), (100220, 63), (100221, 49),
  (101000, 94), (101001, 89), (101010, 88), (101011, 77), (101020, 76), (101021, 67),
  (101100, 86), (101101, 76), (101110, 74), (101111, 58), (101120, 59), (101121, 50),
  (101200, 72), (101201, 57), (101210, 57), (101211, 52), (101220, 52), (101221, 25),
  (102001, 83), (102011, 70), (102021, 54), (102101, 65), (102111, 58), (102121, 26),
  (102201, 53), (102211, 21), (102221, 13), (110000, 95), (110001, 90), (110010, 88),
  (110011, 76), (110020, 76), (110021, 70), (110100, 90), (110101, 77), (110110, 75),
  (110111, 62), (110120, 61), (110121, 53), (110200, 77), (110201, 66), (110210, 68),
  (110211, 59), (110220, 52), (110221, 30), (111000, 89), (111001, 78), (111010, 76),
  (111011, 67), (111020, 62), (111021, 58), (111100, 74), (111101, 59), (111110, 57),
  (111111, 57), (111120, 47), (111121, 23), (111200, 61), (111201, 52), (111210, 57),
  (111211, 29), (111220, 24), (111221, 16), (112001, 71), (112011, 59), (112021, 30),
  (112101, 58), (112111, 26), (112121, 15), (112201, 23), (112211, 13), (112221, 6),
  (200000, 93), (200001, 87), (200010, 86), (200011, 72), (200020, 75), (200021, 58),
  (200100, 86), (200101, 74), (200110, 74), (200111, 61), (200120, 56), (200121, 34),
  (200200, 70), (200201, 54), (200210, 52), (200211, 40), (200220, 40), (200221, 22),
  (201000, 85), (201001, 75), (201010, 74), (201011, 55), (201020, 62), (201021, 51),
  (201100, 72), (201101, 57), (201110, 55), (201111, 41), (201120, 46), (201121, 19),
  (201200, 53), (201201, 36), (201210, 34), (201211, 19), (201220, 19), (201221, 8),
  (202001, 64), (202011, 51), (202021, 20), (202101, 47), (202111, 21), (202121, 11),
  (202201, 24), (202211, 9), (202221, 4), (210000, 88), (210001, 75), (210010, 73),
  (210011, 53), (210020, 60), (210021, 50), (210100, 73), (210101, 55), (210110, 59),
  (210111, 40), (210120, 41), (210121, 20), (210200, 54), (210201, 43), (210210, 45),
  (210211, 22), (210220, 20), (210221, 11), (211000, 75), (211001, 55), (211010, 58),
  (211011, 45), (211020, 40), (211021, 21), (211100, 61), (211101, 51), (211110, 48),
  (211111, 18), (211120, 20), (211121, 9), (211200, 46), (211201, 18), (211210, 17),
  (211211, 7), (211220, 8), (211221, 2), (212001, 53), (212011, 24), (212021, 14),
  (212101, 24), (212111, 12), (212121, 5), (212201, 10), (212211, 3), (212221, 1)
  ]

/-- score (tenths) of a MacroVector; `none` if the MacroVector does not exist -/
def lookup (mv : MV) : Option Nat := table.lookup (key mv)

/-! ## Severity order of the values of each metric, most severe first -/

def orders : List (Bytes × List Bytes) :=
  [ (b "AV", [b "N", b "A", b "L", b "P"]), (b "PR", [b "N", b "L", b "H"]), (b "UI", [b "N", b "P", b "A"]),
    (b "AC", [b "L", b "H"]), (b "AT", [b "N", b "P"]),
    (b "VC", [b "H", b "L", b "N"]), (b "VI", [b "H", b "L", b "N"]), (b "VA", [b "H", b "L", b "N"]),
    (b "SC", [b "H", b "L", b "N"]), (b "SI", [b "S", b "H", b "L", b "N"]), (b "SA", [b "S", b "H", b "L", b "N"]),
    (b "E", [b "A", b "P", b "U"]),
    (b "CR", [b "H", b "M", b "L"]), (b "IR", [b "H", b "M", b "L"]), (b "AR", [b "H", b "M", b "L"]) ]

def orderOf (a : Bytes) : List Bytes := (orders.lookup a).getD []

/-- severity rank of value `v` of metric `a`: the number of one-step decreases from the most severe value -/
def sev (a v : Bytes) : Nat := (orderOf a).idxOf v

/-! ## Vectors of one EQ, highest severity vectors (Tables 24–28, 30) -/

/-- a partial vector: (metric abbreviation, value) pairs -/
abbrev Vec := List (Bytes × Bytes)

def vec (l : List (String × String)) : Vec := l.map fun p => (b p.1, b p.2)

def Vec.get (v : Vec) (a : Bytes) : Bytes := (v.lookup a).getD []

def vec1 (av pr ui : Bytes) : Vec := [(b "AV", av), (b "PR", pr), (b "UI", ui)]
def vec2 (ac at_ : Bytes) : Vec := [(b "AC", ac), (b "AT", at_)]
def vec36 (vc vi va cr ir ar : Bytes) : Vec :=
  [(b "VC", vc), (b "VI", vi), (b "VA", va), (b "CR", cr), (b "IR", ir), (b "AR", ar)]
def vec4 (sc si sa : Bytes) : Vec := [(b "SC", sc), (b "SI", si), (b "SA", sa)]
def vec5 (e : Bytes) : Vec := [(b "E", e)]

/-- Table 24 -/
def maxes1 : Nat → List Vec
  | 0 => [vec [("AV","N"),("PR","N"),("UI","N")]]
  | 1 => [vec [("AV","A"),("PR","N"),("UI","N")], vec [("AV","N"),("PR","L"),("UI","N")],
          vec [("AV","N"),("PR","N"),("UI","P")]]
  | _ => [vec [("AV","P"),("PR","N"),("UI","N")], vec [("AV","A"),("PR","L"),("UI","P")]]

/-- Table 25 -/
def maxes2 : Nat → List Vec
  | 0 => [vec [("AC","L"),("AT","N")]]
  | _ => [vec [("AC","H"),("AT","N")], vec [("AC","L"),("AT","P")]]

/-- Table 30 (EQ3 and EQ6 jointly); the combination EQ3 = 2, EQ6 = 0 does not exist -/
def maxes36 : Nat → Nat → List Vec
  | 0, 0 => [vec [("VC","H"),("VI","H"),("VA","H"),("CR","H"),("IR","H"),("AR","H")]]
  | 0, _ => [vec [("VC","H"),("VI","H"),("VA","L"),("CR","M"),("IR","M"),("AR","H")],
             vec [("VC","H"),("VI","H"),("VA","H"),("CR","M"),("IR","M"),("AR","M")]]
  | 1, 0 => [vec [("VC","L"),("VI","H"),("VA","H"),("CR","H"),("IR","H"),("AR","H")],
             vec [("VC","H"),("VI","L"),("VA","H"),("CR","H"),("IR","H"),("AR","H")]]
  | 1, _ => [vec [("VC","L"),("VI","H"),("VA","L"),("CR","H"),("IR","M"),("AR","H")],
             vec [("VC","L"),("VI","H"),("VA","H"),("CR","H"),("IR","M"),("AR","M")],
             vec [("VC","H"),("VI","L"),("VA","H"),("CR","M"),("IR","H"),("AR","M")],
             vec [("VC","H"),("VI","L"),("VA","L"),("CR","M"),("IR","H"),("AR","H")],
             vec [("VC","L"),("VI","L"),("VA","H"),("CR","H"),("IR","H"),("AR","M")]]
  | _, 0 => []
  | _, _ => [vec [("VC","L"),("VI","L"),("VA","L"),("CR","H"),("IR","H"),("AR","H")]]

/-- Table 27 -/
def maxes4 : Nat → List Vec
  | 0 => [vec [("SC","H"),("SI","S"),("SA","S")]]
  | 1 => [vec [("SC","H"),("SI","H"),("SA","H")]]
  | _ => [vec [("SC","L"),("SI","L"),("SA","L")]]

/-- Table 28 -/
def maxes5 : Nat → List Vec
  | 0 => [vec [("E","A")]]
  | 1 => [vec [("E","P")]]
  | _ => [vec [("E","U")]]

/-! ## Severity distance -/

/-- `mx` is at least as severe as `v` in every metric of `mx` -/
def dominates (mx v : Vec) : Bool := mx.all fun p => sev p.1 p.2 ≤ sev p.1 (v.get p.1)

/-- number of one-step severity decreases from `mx` to `v`, summed over the metrics of `mx` -/
def distance (mx v : Vec) : Nat := (mx.map fun p => sev p.1 (v.get p.1) - sev p.1 p.2).sum

/-- distance of `v` to the (first) highest severity vector of its level that dominates it -/
def distTo (maxes : List Vec) (v : Vec) : Nat :=
  match maxes.find? (dominates · v) with
  | some mx => distance mx v
  | none => 0

def dist1 (av pr ui : Bytes) : Nat := distTo (maxes1 (eq1 av pr ui)) (vec1 av pr ui)
def dist2 (ac at_ : Bytes) : Nat := distTo (maxes2 (eq2 ac at_)) (vec2 ac at_)
def dist36 (vc vi va cr ir ar : Bytes) : Nat :=
  distTo (maxes36 (eq3 vc vi va) (eq6 vc vi va cr ir ar)) (vec36 vc vi va cr ir ar)
def dist4 (sc si sa : Bytes) : Nat := distTo (maxes4 (eq4 sc si sa)) (vec4 sc si sa)
/-- always 0: each EQ5 level consists of one vector -/
def dist5 (e : Bytes) : Nat := distTo (maxes5 (eq5 e)) (vec5 e)

/-! ## Maximal severity depth + 1 of each level (reference implementation `maxSeverity`, plus one) -/

def depth1P1 : Nat → Nat
  | 0 => 1 | 1 => 4 | _ => 5
def depth2P1 : Nat → Nat
  | 0 => 1 | _ => 2
def depth36P1 : Nat → Nat → Nat
  | 0, 0 => 7 | 0, _ => 6 | 1, _ => 8 | _, _ => 10
def depth4P1 : Nat → Nat
  | 0 => 6 | 1 => 5 | _ => 4
def depth5P1 : Nat → Nat := fun _ => 1

/-! ## Next lower MacroVectors -/

def lower1 : MV → Option Nat | (q1, q2, q3, q4, q5, q6) => lookup (q1 + 1, q2, q3, q4, q5, q6)
def lower2 : MV → Option Nat | (q1, q2, q3, q4, q5, q6) => lookup (q1, q2 + 1, q3, q4, q5, q6)
def lower4 : MV → Option Nat | (q1, q2, q3, q4, q5, q6) => lookup (q1, q2, q3, q4 + 1, q5, q6)
def lower5 : MV → Option Nat | (q1, q2, q3, q4, q5, q6) => lookup (q1, q2, q3, q4, q5 + 1, q6)

/-- the larger of two optional scores (a missing one is ignored) -/
def optMax : Option Nat → Option Nat → Option Nat
  | some x, some y => some (max x y)
  | some x, none => some x
  | none, y => y

/-- EQ3 and EQ6 are not independent: 00 → the higher-scoring of 10 and 01; 01 → 11; 10 → 11; 11 → 21; 21 has none -/
def lower36 : MV → Option Nat
  | (q1, q2, 0, q4, q5, 0) => optMax (lookup (q1, q2, 1, q4, q5, 0)) (lookup (q1, q2, 0, q4, q5, 1))
  | (q1, q2, 0, q4, q5, 1) => lookup (q1, q2, 1, q4, q5, 1)
  | (q1, q2, 1, q4, q5, 0) => lookup (q1, q2, 1, q4, q5, 1)
  | (q1, q2, 1, q4, q5, 1) => lookup (q1, q2, 2, q4, q5, 1)
  | _ => none

/-! ## The score: exact arithmetic on fractions of natural numbers -/

/-- a non-negative fraction `num / den` -/
structure Frac where
  (num den : Nat)
deriving Repr, DecidableEq

def Frac.add (x y : Frac) : Frac := ⟨x.num * y.den + y.num * x.den, x.den * y.den⟩

/-- One EQ's contribution, if that EQ has a next lower MacroVector scoring `low`:
    available distance (`value − low`, tenths) × proportion (`dist/(depth+1)`) -/
def term (value : Nat) (lower : Option Nat) (dist depthP1 : Nat) : Option Frac :=
  lower.map fun low => ⟨(value - low) * dist, depthP1⟩

/-- mean of the existing terms (0 if there is none), as a fraction in tenths -/
def mean (ts : List (Option Frac)) : Frac :=
  let xs := ts.reduceOption
  let s := xs.foldl Frac.add ⟨0, 1⟩
  if xs.length = 0 then ⟨0, 1⟩ else ⟨s.num, s.den * xs.length⟩

/-- `round(n/d)` to the nearest integer, ties up -/
def roundHalfUp (n d : Nat) : Nat := (2 * n + d) / (2 * d)

/-- the mean of (available distance × proportion) over the EQs that have a next lower MacroVector, in tenths -/
def meanOf (mv : MV) (d1 d2 d36 d4 d5 : Nat) : Frac :=
  match mv with
  | (q1, q2, q3, q4, q5, q6) =>
    let value := (lookup mv).getD 0
    mean [ term value (lower1 mv) d1 (depth1P1 q1),
           term value (lower2 mv) d2 (depth2P1 q2),
           term value (lower36 mv) d36 (depth36P1 q3 q6),
           term value (lower4 mv) d4 (depth4P1 q4),
           term value (lower5 mv) d5 (depth5P1 q5) ]

/-- the exact score of a MacroVector with the given per-EQ severity distances, in tenths, as a fraction:
    `value − mean`. (The mean never exceeds the value — `mean_le_value` in `Spec/V4Lemmas.lean` — so the
    natural-number subtraction is exact.) -/
def exactOf (mv : MV) (d1 d2 d36 d4 d5 : Nat) : Frac :=
  let value := (lookup mv).getD 0
  let m := meanOf mv d1 d2 d36 d4 d5
  ⟨value * m.den - m.num, m.den⟩

/-- the score in tenths, rounded half-up -/
def scoreOf (mv : MV) (d1 d2 d36 d4 d5 : Nat) : Nat :=
  let x := exactOf mv d1 d2 d36 d4 d5
  roundHalfUp x.num x.den

/-- no impact at all: the six effective impact metrics are `N` -/
def noImpact (e : Eff) : Bool :=
  is e.VC "N" && is e.VI "N" && is e.VA "N" && is e.SC "N" && is e.SI "N" && is e.SA "N"

/-- exact unrounded score on effective values, as a fraction in **tenths** -/
def exactE (e : Eff) : Frac :=
  if noImpact e then ⟨0, 1⟩
  else exactOf (mvOf e) (dist1 e.AV e.PR e.UI) (dist2 e.AC e.AT) (dist36 e.VC e.VI e.VA e.CR e.IR e.AR)
         (dist4 e.SC e.SI e.SA) (dist5 e.E)

/-- rounded score on effective values, in tenths -/
def scoreE (e : Eff) : Nat :=
  if noImpact e then 0
  else scoreOf (mvOf e) (dist1 e.AV e.PR e.UI) (dist2 e.AC e.AT) (dist36 e.VC e.VI e.VA e.CR e.IR e.AR)
         (dist4 e.SC e.SI e.SA) (dist5 e.E)

/-! ## API on a vector given as a map from metric abbreviation to value string -/

/-- CVSS v4.0 score in tenths (`93` = 9.3) -/
def scoreK (val : Bytes → Bytes) : Nat := scoreE (effective val)

/-- exact unrounded score: `scoreNum val / scoreDen val` (in score units, i.e. the tenths fraction over 10) -/
def scoreNum (val : Bytes → Bytes) : Nat := (exactE (effective val)).num
def scoreDen (val : Bytes → Bytes) : Nat := (exactE (effective val)).den * 10

/-- a `val` from a list of written `(abbreviation, value)` pairs; unwritten metrics are `X` -/
def valOfPairs (w : List (String × String)) (a : Bytes) : Bytes :=
  match w.find? (fun p => b p.1 == a) with
  | some p => b p.2
  | none => b "X"

end Spec.V4
