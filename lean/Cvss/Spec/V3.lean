import Cvss.Spec.Metrics
/-!
# Spec: the CVSS v3.0 and v3.1 equations

Transcribed from the FIRST specification documents (v3.0 §8.1–8.4, v3.1 §7.1–7.4 and Appendix A), over
**exact decimals**: every metric weight is a decimal and the equations only use `+ − × min` and integer
powers, so every intermediate value is a decimal `num / 10^exp` and is computed exactly (no floating point,
no rounding other than the specification's own `Roundup`). This file never looks at the Go code.

A vector is given by `val : Bytes → Bytes`, the value string of each metric abbreviation
(e.g. `val (b "AV") = b "N"`; names and legal values are those of `Spec.V3.metrics`).
The only difference between the two versions is `ModifiedImpact` for a changed (Modified) scope.
-/
namespace Spec.V3

/-! ## Exact decimals -/

/-- the exact decimal number `num / 10^exp` -/
structure Dec where
  num : Int
  exp : Nat
deriving DecidableEq, Repr

namespace Dec
/-- numerator of `x` over the denominator `10^e` (used with `e ≥ x.exp`) -/
def over (x : Dec) (e : Nat) : Int := x.num * ((10 ^ (e - x.exp) : Nat) : Int)
instance : OfNat Dec n := ⟨⟨(n : Nat), 0⟩⟩
/-- decimal literals such as `0.85` are exact: `85 / 10^2` -/
instance : OfScientific Dec := ⟨fun m neg e => if neg then ⟨(m : Nat), e⟩ else ⟨((m * 10 ^ e : Nat) : Int), 0⟩⟩
instance : Add Dec := ⟨fun x y => ⟨x.over (max x.exp y.exp) + y.over (max x.exp y.exp), max x.exp y.exp⟩⟩
instance : Sub Dec := ⟨fun x y => ⟨x.over (max x.exp y.exp) - y.over (max x.exp y.exp), max x.exp y.exp⟩⟩
instance : Mul Dec := ⟨fun x y => ⟨x.num * y.num, x.exp + y.exp⟩⟩
instance : HPow Dec Nat Dec := ⟨fun x n => ⟨x.num ^ n, x.exp * n⟩⟩
instance : LE Dec := ⟨fun x y => x.over (max x.exp y.exp) ≤ y.over (max x.exp y.exp)⟩
instance (x y : Dec) : Decidable (x ≤ y) := Int.decLe _ _
/-- `Minimum` of the specification -/
def min (x y : Dec) : Dec := if x ≤ y then x else y
end Dec
open Dec (min)

/-- `Roundup x`: "the smallest number, specified to one decimal place, that is equal to or higher than its
    input". A number with one decimal place is written as its (integer) number of tenths, so
    `Roundup x = t` means the number `t/10`: `t = ⌈10·x⌉`, the least integer with `x ≤ t/10`
    (`/` on `Int` rounds down for a positive divisor). Scores are numbers of tenths throughout. -/
def Roundup (x : Dec) : Int := -((-(x.num * 10)) / ((10 ^ x.exp : Nat) : Int))

/-- the number `t/10` -/
def tenths (t : Int) : Dec := ⟨t, 1⟩

/-- v3.1 Appendix A, the integer-based reading of `Roundup` (exact arithmetic; `round` = nearest integer, a tie
    going up — `Proofs` shows that no tie occurs on the equations' values):
    `int_input = round(x·100000); if int_input % 10000 = 0 then int_input/100000 else (floor(int_input/10000)+1)/10`,
    again as a number of tenths. `Proofs/Score3Main3x.lean` (`appendixA_base/temporal/inner`) shows that it agrees
    with `Roundup` on every value the equations feed to it. -/
def RoundupA (x : Dec) : Int :=
  let int_input : Int := (x.num * 200000 + ((10 ^ x.exp : Nat) : Int)) / (2 * ((10 ^ x.exp : Nat) : Int))
  if int_input % 10000 = 0 then int_input / 10000 else int_input / 10000 + 1

/-! ## §7.4 (v3.0 §8.4) Metric values -/

/-- numeric value of a metric value string, by table (0 for a string that is not in the table) -/
def table (t : List (String × Dec)) (v : Bytes) : Dec :=
  match t.find? (fun p => b p.1 == v) with
  | some p => p.2
  | none => 0

def wAV : Bytes → Dec := table [("N", 0.85), ("A", 0.62), ("L", 0.55), ("P", 0.2)]
def wAC : Bytes → Dec := table [("L", 0.77), ("H", 0.44)]
/-- Privileges Required depends on whether the (Modified) Scope is changed -/
def wPR (changed : Bool) : Bytes → Dec :=
  if changed then table [("N", 0.85), ("L", 0.68), ("H", 0.5)] else table [("N", 0.85), ("L", 0.62), ("H", 0.27)]
def wUI : Bytes → Dec := table [("N", 0.85), ("R", 0.62)]
/-- Confidentiality, Integrity, Availability (and their Modified forms) -/
def wCIA : Bytes → Dec := table [("H", 0.56), ("L", 0.22), ("N", 0)]
def wE : Bytes → Dec := table [("X", 1), ("H", 1), ("F", 0.97), ("P", 0.94), ("U", 0.91)]
def wRL : Bytes → Dec := table [("X", 1), ("U", 1), ("W", 0.97), ("T", 0.96), ("O", 0.95)]
def wRC : Bytes → Dec := table [("X", 1), ("C", 1), ("R", 0.96), ("U", 0.92)]
/-- Security requirements CR, IR, AR -/
def wReq : Bytes → Dec := table [("X", 1), ("H", 1.5), ("M", 1), ("L", 0.5)]

/-! ## §7.1–7.3 (v3.0 §8.1–8.3) Equations, over numbers -/

def ISS (c i a : Dec) : Dec := 1 - (1 - c) * (1 - i) * (1 - a)

def Impact (changed : Bool) (iss : Dec) : Dec :=
  if changed then 7.52 * (iss - 0.029) - 3.25 * (iss - 0.02) ^ 15 else 6.42 * iss

def Exploitability (av ac pr ui : Dec) : Dec := 8.22 * av * ac * pr * ui

def BaseScore (changed : Bool) (impact exploitability : Dec) : Int :=
  if impact ≤ 0 then 0
  else if changed then Roundup (min (1.08 * (impact + exploitability)) 10)
  else Roundup (min (impact + exploitability) 10)

def TemporalScore (baseScore : Int) (e rl rc : Dec) : Int := Roundup (tenths baseScore * e * rl * rc)

def MISS (cr mc ir mi ar ma : Dec) : Dec := min (1 - (1 - cr * mc) * (1 - ir * mi) * (1 - ar * ma)) 0.915

def ModifiedImpact (v31 changed : Bool) (miss : Dec) : Dec :=
  if !changed then 6.42 * miss
  else if v31 then 7.52 * (miss - 0.029) - 3.25 * (miss * 0.9731 - 0.02) ^ 13
  else 7.52 * (miss - 0.029) - 3.25 * (miss - 0.02) ^ 15

def EnvironmentalScore (changed : Bool) (modifiedImpact modifiedExploitability e rl rc : Dec) : Int :=
  if modifiedImpact ≤ 0 then 0
  else if changed then
    Roundup (tenths (Roundup (min (1.08 * (modifiedImpact + modifiedExploitability)) 10)) * e * rl * rc)
  else Roundup (tenths (Roundup (min (modifiedImpact + modifiedExploitability) 10)) * e * rl * rc)

/-! ## The equations applied to a vector -/
section vector
variable (v31 : Bool) (val : Bytes → Bytes)

def changed : Bool := val (b "S") == b "C"
/-- value of a Modified metric `m`: when it is Not Defined (`X`), the value of the Base metric `base` -/
def modified (m base : String) : Bytes := if val (b m) == b "X" then val (b base) else val (b m)
def modifiedChanged : Bool := modified val "MS" "S" == b "C"

def impactD : Dec := Impact (changed val) (ISS (wCIA (val (b "C"))) (wCIA (val (b "I"))) (wCIA (val (b "A"))))
def exploitabilityD : Dec :=
  Exploitability (wAV (val (b "AV"))) (wAC (val (b "AC"))) (wPR (changed val) (val (b "PR"))) (wUI (val (b "UI")))
def modifiedImpactD : Dec :=
  ModifiedImpact v31 (modifiedChanged val)
    (MISS (wReq (val (b "CR"))) (wCIA (modified val "MC" "C")) (wReq (val (b "IR"))) (wCIA (modified val "MI" "I"))
          (wReq (val (b "AR"))) (wCIA (modified val "MA" "A")))
def modifiedExploitabilityD : Dec :=
  Exploitability (wAV (modified val "MAV" "AV")) (wAC (modified val "MAC" "AC"))
    (wPR (modifiedChanged val) (modified val "MPR" "PR")) (wUI (modified val "MUI" "UI"))

/-- Base score, in tenths (the score is `baseK/10`); the two versions have the same Base equations -/
def baseK (_v31 : Bool) (val : Bytes → Bytes) : Nat := (BaseScore (changed val) (impactD val) (exploitabilityD val)).toNat
/-- Temporal score, in tenths -/
def temporalK : Nat := (TemporalScore (baseK v31 val) (wE (val (b "E"))) (wRL (val (b "RL"))) (wRC (val (b "RC")))).toNat
/-- Environmental score, in tenths -/
def environmentalK : Nat :=
  (EnvironmentalScore (modifiedChanged val) (modifiedImpactD v31 val) (modifiedExploitabilityD val)
    (wE (val (b "E"))) (wRL (val (b "RL"))) (wRC (val (b "RC")))).toNat
/-- the unrounded Impact sub-score, exactly, as (numerator, power-of-ten exponent): `num / 10^exp` -/
def impact : Int × Nat := ((impactD val).num, (impactD val).exp)
/-- the unrounded Exploitability sub-score, exactly -/
def exploitability : Int × Nat := ((exploitabilityD val).num, (exploitabilityD val).exp)
end vector

end Spec.V3
