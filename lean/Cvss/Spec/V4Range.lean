import Cvss.Spec.V4
/-!
# Spec: the v4.0 score is at most 10.0 — for every assignment of strings to the metrics

`Spec.V4.scoreK val ≤ 100` (tenths) for **all** `val : Bytes → Bytes`, legal or not: the score is either 0, or a
lookup value (all ≤ 100; 0 if the MacroVector does not exist) minus a non-negative mean, rounded half-up.
Independent of the code.
-/
namespace Spec.V4

theorem table_le_100 : (table.all fun p => p.2 ≤ 100) = true := by decide +kernel

theorem lookup_getD_le (l : List (Nat × Nat)) (h : (l.all fun p => p.2 ≤ 100) = true) (k : Nat) :
    (l.lookup k).getD 0 ≤ 100 := by
  induction l with
  | nil => simp [List.lookup]
  | cons p r ih =>
    simp only [List.all_cons, Bool.and_eq_true, decide_eq_true_eq] at h
    obtain ⟨a, v⟩ := p
    unfold List.lookup
    split
    · simpa using h.1
    · exact ih (by simpa using h.2)

theorem lookup_le_100 (mv : MV) : (lookup mv).getD 0 ≤ 100 := lookup_getD_le table table_le_100 _

/-- rounding `v − n/d` half-up never exceeds `v` -/
theorem roundHalfUp_le (v n d : Nat) : roundHalfUp (v * d - n) d ≤ v := by
  unfold roundHalfUp
  rcases Nat.eq_zero_or_pos d with h | h
  · subst h; simp
  · apply Nat.le_of_lt_succ
    rw [Nat.div_lt_iff_lt_mul (by omega)]
    have : (v + 1) * (2 * d) = 2 * (v * d) + 2 * d := by
      rw [Nat.add_mul, Nat.one_mul, Nat.mul_left_comm]
    rw [this]
    omega

theorem scoreOf_le_100 (mv : MV) (d1 d2 d36 d4 d5 : Nat) : scoreOf mv d1 d2 d36 d4 d5 ≤ 100 := by
  unfold scoreOf exactOf
  exact Nat.le_trans (roundHalfUp_le _ _ _) (lookup_le_100 mv)

theorem scoreE_le_100 (e : Eff) : scoreE e ≤ 100 := by
  unfold scoreE
  split
  · exact Nat.zero_le _
  · exact scoreOf_le_100 ..

/-- **the score never exceeds 10.0** -/
theorem scoreK_le_100 (val : Bytes → Bytes) : scoreK val ≤ 100 := scoreE_le_100 _

end Spec.V4
