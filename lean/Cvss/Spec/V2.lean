import Cvss.Spec.Metrics
/-!
# Spec: the CVSS v2.0 scoring equations (guide §3.2), over exact rational numbers

Transcribed from "A Complete Guide to the Common Vulnerability Scoring System Version 2.0", §3.2.1–3.2.3.
This file never looks at the Go code and contains no floating point: every number is a `Rat` (core Lean),
decimal literals such as `10.41` denote the exact rational `1041/100`.

A metric assignment is given as `val : Bytes → Bytes`, the value *string* of each metric abbreviation
(`val (b "AV") = b "N"`); the abbreviations and values are those of `Spec.V2.metrics` (`Spec/Metrics.lean`).

The guide's `round_to_1_decimal` is not defined at a point exactly half-way between two tenths, so rounding
is a *relation* `Near x k` ("`k/10` is a nearest tenth of `x`"; both neighbours conform at a tie). The temporal
and environmental equations chain two resp. three roundings, so their conformance is a relation as well.
-/
namespace Spec.V2

/-! ## Numeric value of every metric value (tables of §3.2.1, §3.2.2, §3.2.3) -/
def weights : List (Bytes × List (Bytes × Rat)) :=
  [ (b "AV",  [(b "L", 0.395), (b "A", 0.646), (b "N", 1.0)]),
    (b "AC",  [(b "H", 0.35), (b "M", 0.61), (b "L", 0.71)]),
    (b "Au",  [(b "M", 0.45), (b "S", 0.56), (b "N", 0.704)]),
    (b "C",   [(b "N", 0), (b "P", 0.275), (b "C", 0.660)]),
    (b "I",   [(b "N", 0), (b "P", 0.275), (b "C", 0.660)]),
    (b "A",   [(b "N", 0), (b "P", 0.275), (b "C", 0.660)]),
    (b "E",   [(b "U", 0.85), (b "POC", 0.9), (b "F", 0.95), (b "H", 1), (b "ND", 1)]),
    (b "RL",  [(b "OF", 0.87), (b "TF", 0.90), (b "W", 0.95), (b "U", 1), (b "ND", 1)]),
    (b "RC",  [(b "UC", 0.90), (b "UR", 0.95), (b "C", 1), (b "ND", 1)]),
    (b "CDP", [(b "N", 0), (b "L", 0.1), (b "LM", 0.3), (b "MH", 0.4), (b "H", 0.5), (b "ND", 0)]),
    (b "TD",  [(b "N", 0), (b "L", 0.25), (b "M", 0.75), (b "H", 1), (b "ND", 1)]),
    (b "CR",  [(b "L", 0.5), (b "M", 1), (b "H", 1.51), (b "ND", 1)]),
    (b "IR",  [(b "L", 0.5), (b "M", 1), (b "H", 1.51), (b "ND", 1)]),
    (b "AR",  [(b "L", 0.5), (b "M", 1), (b "H", 1.51), (b "ND", 1)]) ]

/-- numeric value of value string `v` of metric `m` (0 for anything not in the table) -/
def weight (m v : Bytes) : Rat := ((weights.lookup m).bind (·.lookup v)).getD 0

/-- the weight table covers exactly the metrics and values of `Spec.V2.metrics` -/
example : weights.map (·.1) = metrics.map (·.abv) := by decide
example : metrics.all (fun m => (weights.lookup m.abv).any fun t =>
    m.values.all (fun v => (t.map (·.1)).contains v) && t.all (fun p => m.values.contains p.1)) = true := by decide

/-! ## The equations of §3.2.1–3.2.3 on numbers -/
def impactEq (c i a : Rat) : Rat := 10.41 * (1 - (1 - c) * (1 - i) * (1 - a))
def exploitabilityEq (av ac au : Rat) : Rat := 20 * av * ac * au
def fImpact (impact : Rat) : Rat := if impact = 0 then 0 else 1.176
/-- BaseScore before rounding -/
def baseEq (impact exploitability : Rat) : Rat :=
  ((0.6 * impact) + (0.4 * exploitability) - 1.5) * fImpact impact
/-- TemporalScore before rounding, from an (already rounded) base score -/
def temporalEq (base e rl rc : Rat) : Rat := base * e * rl * rc
def adjustedImpactEq (c i a cr ir ar : Rat) : Rat :=
  min 10 (10.41 * (1 - (1 - c * cr) * (1 - i * ir) * (1 - a * ar)))
/-- EnvironmentalScore before rounding, from the (already rounded) AdjustedTemporal -/
def environmentalEq (adjustedTemporal cdp td : Rat) : Rat :=
  (adjustedTemporal + (10 - adjustedTemporal) * cdp) * td

/-! ## … applied to a metric assignment -/
section
variable (val : Bytes → Bytes)
/-- numeric value of metric `m` under the assignment -/
def w (m : String) : Rat := weight (b m) (val (b m))

/-- the unrounded sub-scores -/
def impact : Rat := impactEq (w val "C") (w val "I") (w val "A")
def exploitability : Rat := exploitabilityEq (w val "AV") (w val "AC") (w val "Au")
def baseExact : Rat := baseEq (impact val) (exploitability val)
/-- the temporal equation applied to a base score `base` -/
def temporalStep (base : Rat) : Rat := temporalEq base (w val "E") (w val "RL") (w val "RC")
def adjustedImpact : Rat :=
  adjustedImpactEq (w val "C") (w val "I") (w val "A") (w val "CR") (w val "IR") (w val "AR")
/-- the base equation with Impact replaced by AdjustedImpact -/
def recomputedBaseExact : Rat := baseEq (adjustedImpact val) (exploitability val)
/-- the environmental equation applied to an AdjustedTemporal score `at` -/
def finalStep (adjustedTemporal : Rat) : Rat := environmentalEq adjustedTemporal (w val "CDP") (w val "TD")
end

/-! ## Rounding to one decimal, as a relation -/

/-- the score with `k` tenths, `k/10` -/
def score (k : Int) : Rat := (k : Rat) / 10

/-- `k/10` is a tenth nearest to `x`: `|x − k/10| ≤ 1/20`. At an exact tie both neighbours qualify. -/
def Near (x : Rat) (k : Int) : Prop := score k - 1 / 20 ≤ x ∧ x ≤ score k + 1 / 20

/-- the tenth `k` (score `k/10`) is a conforming BaseScore -/
def BaseOK (val : Bytes → Bytes) (k : Int) : Prop := Near (baseExact val) k
/-- … a conforming TemporalScore: the temporal equation applied to some conforming BaseScore, rounded -/
def TemporalOK (val : Bytes → Bytes) (out : Int) : Prop :=
  ∃ kb : Int, Near (baseExact val) kb ∧ Near (temporalStep val (score kb)) out
/-- … a conforming EnvironmentalScore: recomputed base, rounded; temporal equation, rounded; final equation, rounded -/
def EnvOK (val : Bytes → Bytes) (out : Int) : Prop :=
  ∃ kb kt : Int, Near (recomputedBaseExact val) kb ∧ Near (temporalStep val (score kb)) kt ∧
    Near (finalStep val (score kt)) out

/-! ## Executable versions (used by the compiled driver as oracle) -/

instance (x : Rat) (k : Int) : Decidable (Near x k) := by unfold Near; exact inferInstance
def near (x : Rat) (k : Int) : Bool := decide (Near x k)
/-- all tenths nearest to `x`: one, or two at an exact tie -/
def tenths (x : Rat) : List Int := [(10 * x).floor, (10 * x).floor + 1].filter (near x)

def baseKs (val : Bytes → Bytes) : List Int := tenths (baseExact val)
def temporalKs (val : Bytes → Bytes) : List Int :=
  ((baseKs val).flatMap fun (kb : Int) => tenths (temporalStep val (score kb))).eraseDups
def envKs (val : Bytes → Bytes) : List Int :=
  ((tenths (recomputedBaseExact val)).flatMap fun kb =>
    (tenths (temporalStep val (score kb))).flatMap fun (kt : Int) => tenths (finalStep val (score kt))).eraseDups

def baseOK (val : Bytes → Bytes) (k : Int) : Bool := (baseKs val).contains k
def temporalOK (val : Bytes → Bytes) (k : Int) : Bool := (temporalKs val).contains k
def envOK (val : Bytes → Bytes) (k : Int) : Bool := (envKs val).contains k

end Spec.V2
