import Cvss.Proofs.IEEE.Special
import Cvss.Proofs.IEEE.RintUnique
/-!
# IEEE: the soft-float `Cvss/Base/F64.lean` implements IEEE-754 binary64 round-to-nearest-even arithmetic

Every number in the scoring code is a 64-bit pattern (`Nat`); `Spec.F64Val.ofBits` (in `Spec/Rating.lean`)
says which extended real a pattern denotes: `fin num` is the real number `num / den`, `den = 2^1075`.

## What is proved here (no enumeration, no testing: structural proofs, core Lean only)

For **all finite operands** (all 64-bit patterns whose exponent field is `< 2047`, i.e. `ofBits x = fin vx`:
±0, subnormals, normals), with respect to the exact values `vx/den`:

* `IsRNE n d r` (`Proofs/IEEE/Spec.lean`) specifies "`r` is the rational `n/d` rounded to nearest, ties to
  even, overflow to ±∞ from `2^1024 − 2^970`", purely by integer cross-multiplication over *all* finite
  doubles (no double is strictly closer; on a tie the significand is even; a non-zero value gives its sign).
  It determines its result (`rne_unique`), every double is the rounding of its own value
  (`rne_representable`), and it does not depend on how the fraction is written (`rne_congr`).
* `rnd_correct`: `F64.rnd` (round-and-pack, the heart of all operations) returns `IsRNE` of
  `± m·2^e / 2^(4096+1075)` for every `m > 0` and every `e`: subnormal results, the carry to the next binade
  when the significand rounds up to `2^53`, and overflow to ±∞ included.
* `mul_correct`, `div_correct` (+ `div_by_zero`, `div_zero_zero`), `add_correct`, `sub_correct`:
  the results are `IsRNE` of the exact product / quotient / sum / difference; the sign of zero results is the
  IEEE one (xor of the signs for `mul`/`div`; `x + (−x) = +0`, `(−0) + (−0) = −0`). The shortcuts of `F64.add`
  (zero operand; exponent gap ≥ 56) are covered.
* `ofNat_correct` (every natural number, overflow included), `ofNat_exact` (`k ≤ 2^53`), `tenth_correct`
  (`F64.tenth k` is the double nearest `k/10`).
* `neg_correct`, `abs_correct`: exact, on all patterns (finite, ±∞, NaN).
* `round_correct`, `roundToEven_correct`, `floor_correct`, `ceil_correct`, `trunc_correct`: the result is the
  exactly represented integer prescribed by Go's `math.Round/RoundToEven/Floor/Ceil/Trunc`, with the operand's
  sign bit (zero results keep the sign); the five relations are functional (`…_unique`). `truncAbs_correct`.
* `min_correct`, `max_correct` (Go's `math.Min/Max` incl. `Min(+0,−0) = −0`, `Max(+0,−0) = +0`), `eq_correct`
  (`−0 = +0`), and from `Proofs/F64Order.lean`: `lt_correct`, `le_correct` (all 64-bit patterns).
* `isNaN_correct`; NaN operands give NaN for `mul/add/sub/div` (`mul_nan` …).

## What remains trusted

* The decoding `Spec.F64Val.ofBits` is IEEE-754-2019 §3.4 (binary64 interchange format): read it, 15 lines.
* NaN payloads and the signalling/quiet distinction are not modelled (every NaN decodes to `F64Val.nan`;
  the soft-float produces the single pattern `0x7FF8000000000001` = Go's `math.NaN()`).
* The reference implementation `FB.*` on NaN/±∞ operands (`∞·0`, `∞−∞`, `x/∞`, comparisons and `min/max`
  with infinities beyond `lt/le`, …) apart from the statements above: still validated by differential testing
  against the hardware only. The v2.0/v3.x scoring code never produces such operands (all its intermediate values are
  finite, see the `Score*` proofs); v4.0 `Score` does compute with NaN — `math.NaN()` marks a missing next-lower
  MacroVector, then `abs(NaN − x)` and `math.IsNaN` — and uses exactly the NaN facts proved here (`sub_nan_correct`,
  `abs_correct`, `isNaN_correct`); it never produces an infinity.
* That Go's compiler/hardware implement IEEE-754 binary64 for `* / + −`, and that `math.Round` etc. behave as
  documented (this is the link between the Go program and this model, not a statement about the model).
-/
namespace IEEE
open Spec

/-! ## the specification is sane -/

/-- the correctly rounded result is unique (value always; bit pattern unless the exact value is 0) -/
theorem rne_unique {n : Int} {d r r' : Nat} (hd : 0 < d) (h : IsRNE n d r) (h' : IsRNE n d r') :
    F64Val.ofBits r = F64Val.ofBits r' ∧ (n ≠ 0 → r = r') ∧ r % 2^63 = r' % 2^63 :=
  IsRNE.unique hd h h'

/-- a finite double is the correctly rounded image of its own value (bit pattern included) -/
theorem rne_representable (x : Nat) (vx : Int) (hx : x < 2^64) (hvx : F64Val.ofBits x = .fin vx) :
    IsRNE vx den x :=
  isRNE_self (decode x vx hx hvx).2

/-- the predicate depends on the rational `n/d` only -/
theorem rne_congr {n n' : Int} {d d' r : Nat} (hd : 0 < d) (hd' : 0 < d') (he : n * d' = n' * d)
    (h : IsRNE n d r) : IsRNE n' d' r :=
  IsRNE.congr hd hd' he h

/-! ## the core -/

/-- **`F64.rnd sbit m e`** (`sbit = s·2^63`, `m > 0`, any `e`) is `± m · 2^e / (2^4096 · 2^1075)` rounded to
    nearest even, with sign bit `s`: subnormals, carry and overflow included -/
theorem rnd_correct (s m e : Nat) (hs : s ≤ 1) (hm : 0 < m) :
    IsRNE (sv s (m * 2^e)) (2^4096 * den) (F64.rnd (s * 2^63) m e) ∧
    signBit (F64.rnd (s * 2^63) m e) = s := by
  have hd : 0 < 2^4096 * den := Nat.mul_pos (Nat.two_pow_pos _) den_pos
  have hrep : Rep (m * 2^e) (2^4096 * den) m e := by
    unfold Rep; left
    generalize (2:Nat)^4096 = P; generalize den = D
    ac_rfl
  rw [← p63_pow]
  obtain ⟨p, hp, hr⟩ := rnd_rne (s * F64Order.P63) m e _ _ hm hd hrep
  rw [hp]
  exact ⟨isRNE_of_mag s _ _ p _ hs hd rfl hr, signBit_pack s p hs hr.1⟩

/-- a zero significand gives the signed zero -/
theorem rnd_zero_correct (sbit e : Nat) : F64.rnd sbit 0 e = sbit := rnd_zero sbit e

/-! ## arithmetic on finite operands -/

theorem mul_correct (x y : Nat) (vx vy : Int) (hx : x < 2^64) (hy : y < 2^64)
    (hvx : F64Val.ofBits x = .fin vx) (hvy : F64Val.ofBits y = .fin vy) :
    IsRNE (vx * vy) (den * den) (F64.mul x y) ∧
    signBit (F64.mul x y) = (signBit x + signBit y) % 2 :=
  mul_rne x y vx vy hx hy hvx hvy

theorem div_correct (x y : Nat) (vx vy : Int) (hx : x < 2^64) (hy : y < 2^64)
    (hvx : F64Val.ofBits x = .fin vx) (hvy : F64Val.ofBits y = .fin vy) (hy0 : vy ≠ 0) :
    IsRNE (if vy < 0 then -vx else vx) vy.natAbs (F64.div x y) ∧
    signBit (F64.div x y) = (signBit x + signBit y) % 2 :=
  div_rne x y vx vy hx hy hvx hvy hy0

theorem div_by_zero_correct (x y : Nat) (vx : Int) (hx : x < 2^64) (hy : y < 2^64)
    (hvx : F64Val.ofBits x = .fin vx) (hvy : F64Val.ofBits y = .fin 0) (hx0 : vx ≠ 0) :
    F64Val.ofBits (F64.div x y) = if (signBit x + signBit y) % 2 = 0 then .posInf else .negInf :=
  div_by_zero x y vx hx hy hvx hvy hx0

theorem div_zero_zero_correct (x y : Nat) (hx : x < 2^64) (hy : y < 2^64)
    (hvx : F64Val.ofBits x = .fin 0) (hvy : F64Val.ofBits y = .fin 0) :
    F64Val.ofBits (F64.div x y) = .nan :=
  (div_zero_zero x y hx hy hvx hvy).2

theorem add_correct (x y : Nat) (vx vy : Int) (hx : x < 2^64) (hy : y < 2^64)
    (hvx : F64Val.ofBits x = .fin vx) (hvy : F64Val.ofBits y = .fin vy) :
    IsRNE (vx + vy) den (F64.add x y) ∧
    (vx + vy = 0 → F64.add x y = if signBit x = 1 ∧ signBit y = 1 then 2^63 else 0) :=
  add_rne x y vx vy hx hy hvx hvy

theorem sub_correct (x y : Nat) (vx vy : Int) (hx : x < 2^64) (hy : y < 2^64)
    (hvx : F64Val.ofBits x = .fin vx) (hvy : F64Val.ofBits y = .fin vy) :
    IsRNE (vx - vy) den (F64.sub x y) ∧
    (vx - vy = 0 → F64.sub x y = if signBit x = 1 ∧ signBit y = 0 then 2^63 else 0) :=
  sub_rne x y vx vy hx hy hvx hvy

theorem ofNat_correct (n : Nat) : IsRNE (n : Int) 1 (F64.ofNat n) ∧ signBit (F64.ofNat n) = 0 :=
  ofNat_rne n

theorem ofNat_exact_correct (k : Nat) (hk : k ≤ 2^53) :
    F64Val.ofBits (F64.ofNat k) = .fin ((k : Int) * den) :=
  (ofNat_exact k hk).1

theorem tenth_correct (k : Nat) (hk : k ≤ 2^53) : IsRNE (k : Int) 10 (F64.tenth k) := tenth_rne k hk

/-! ## sign operations (all patterns) -/

theorem neg_correct (x : Nat) (hx : x < 2^64) :
    F64Val.ofBits (F64.neg x) = negV (F64Val.ofBits x) ∧ signBit (F64.neg x) = 1 - signBit x ∧
    expField (F64.neg x) = expField x ∧ fracField (F64.neg x) = fracField x ∧ F64.neg x < 2^64 :=
  ⟨neg_val x hx, (neg_fields x hx).2.1, (neg_fields x hx).2.2.1, (neg_fields x hx).2.2.2, (neg_fields x hx).1⟩

theorem abs_correct (x : Nat) :
    F64Val.ofBits (F64.abs x) = absV (F64Val.ofBits x) ∧ signBit (F64.abs x) = 0 ∧
    expField (F64.abs x) = expField x ∧ fracField (F64.abs x) = fracField x ∧ F64.abs x < 2^63 :=
  ⟨abs_val x, (abs_fields x).2.1, (abs_fields x).2.2.1, (abs_fields x).2.2.2, (abs_fields x).1⟩

/-! ## integer roundings (finite operands): the result is the integer `K`, exactly represented, with the
operand's sign bit -/

theorem round_correct (x : Nat) (vx : Int) (hx : x < 2^64) (hvx : F64Val.ofBits x = .fin vx) :
    ∃ K : Int, F64Val.ofBits (F64.round x) = .fin (K * den) ∧ IsRoundAway vx K ∧
      signBit (F64.round x) = signBit x ∧ F64.round x < 2^64 := round_spec x vx hx hvx
theorem roundToEven_correct (x : Nat) (vx : Int) (hx : x < 2^64) (hvx : F64Val.ofBits x = .fin vx) :
    ∃ K : Int, F64Val.ofBits (F64.roundToEven x) = .fin (K * den) ∧ IsRoundEven vx K ∧
      signBit (F64.roundToEven x) = signBit x ∧ F64.roundToEven x < 2^64 := roundToEven_spec x vx hx hvx
theorem floor_correct (x : Nat) (vx : Int) (hx : x < 2^64) (hvx : F64Val.ofBits x = .fin vx) :
    ∃ K : Int, F64Val.ofBits (F64.floor x) = .fin (K * den) ∧ IsFloor vx K ∧
      signBit (F64.floor x) = signBit x ∧ F64.floor x < 2^64 := floor_spec x vx hx hvx
theorem ceil_correct (x : Nat) (vx : Int) (hx : x < 2^64) (hvx : F64Val.ofBits x = .fin vx) :
    ∃ K : Int, F64Val.ofBits (F64.ceil x) = .fin (K * den) ∧ IsCeil vx K ∧
      signBit (F64.ceil x) = signBit x ∧ F64.ceil x < 2^64 := ceil_spec x vx hx hvx
theorem trunc_correct (x : Nat) (vx : Int) (hx : x < 2^64) (hvx : F64Val.ofBits x = .fin vx) :
    ∃ K : Int, F64Val.ofBits (F64.trunc x) = .fin (K * den) ∧ IsTrunc vx K ∧
      signBit (F64.trunc x) = signBit x ∧ F64.trunc x < 2^64 := trunc_spec x vx hx hvx
theorem truncAbs_correct (x : Nat) (vx : Int) (hx : x < 2^64) (hvx : F64Val.ofBits x = .fin vx) :
    F64.truncAbs x = vx.natAbs / den := truncAbs_spec x vx hx hvx

/-- the five relations are functional; `IsFloor v K` is `K = ⌊v/den⌋` etc. -/
theorem floor_unique {v K K' : Int} (h : IsFloor v K) (h' : IsFloor v K') : K = K' := h.unique h'
theorem ceil_unique {v K K' : Int} (h : IsCeil v K) (h' : IsCeil v K') : K = K' := h.unique h'
theorem trunc_unique {v K K' : Int} (h : IsTrunc v K) (h' : IsTrunc v K') : K = K' := h.unique h'
theorem round_unique {v K K' : Int} (h : IsRoundAway v K) (h' : IsRoundAway v K') : K = K' := h.unique h'
theorem roundToEven_unique {v K K' : Int} (h : IsRoundEven v K) (h' : IsRoundEven v K') : K = K' := h.unique h'

/-! ## comparisons, min, max -/

theorem eq_correct (x y : Nat) (vx vy : Int) (hx : x < 2^64) (hy : y < 2^64)
    (hvx : F64Val.ofBits x = .fin vx) (hvy : F64Val.ofBits y = .fin vy) :
    F64.eq x y = decide (vx = vy) := eq_spec x y vx vy hx hy hvx hvy

theorem min_correct (x y : Nat) (vx vy : Int) (hx : x < 2^64) (hy : y < 2^64)
    (hvx : F64Val.ofBits x = .fin vx) (hvy : F64Val.ofBits y = .fin vy) :
    F64.min x y = if vx < vy then x else if vy < vx then y else if signBit x = 1 then x else y :=
  min_spec x y vx vy hx hy hvx hvy

theorem max_correct (x y : Nat) (vx vy : Int) (hx : x < 2^64) (hy : y < 2^64)
    (hvx : F64Val.ofBits x = .fin vx) (hvy : F64Val.ofBits y = .fin vy) :
    F64.max x y = if vy < vx then x else if vx < vy then y else if signBit x = 0 then x else y :=
  max_spec x y vx vy hx hy hvx hvy

/-- `F64.lt` / `F64.le` are the order of the exact values, on all 64-bit patterns (`Proofs/F64Order.lean`) -/
theorem lt_correct (x y : Nat) (hx : x < 2^64) (hy : y < 2^64) :
    F64.lt x y = true ↔ F64Val.lt (F64Val.ofBits x) (F64Val.ofBits y) :=
  F64Order.lt_iff x y (by rw [p64_pow]; exact hx) (by rw [p64_pow]; exact hy)
theorem le_correct (x y : Nat) (hx : x < 2^64) (hy : y < 2^64) :
    F64.le x y = true ↔ F64Val.le (F64Val.ofBits x) (F64Val.ofBits y) :=
  F64Order.le_iff x y (by rw [p64_pow]; exact hx) (by rw [p64_pow]; exact hy)

/-! ## NaN -/

theorem isNaN_correct (x : Nat) : F64.isNaN x = true ↔ F64Val.ofBits x = .nan :=
  (F64Order.ofBits_nan_iff x).symm

theorem mul_nan_correct (x y : Nat) (h : F64Val.ofBits x = .nan ∨ F64Val.ofBits y = .nan) :
    F64Val.ofBits (F64.mul x y) = .nan := mul_nan x y h
theorem add_nan_correct (x y : Nat) (h : F64Val.ofBits x = .nan ∨ F64Val.ofBits y = .nan) :
    F64Val.ofBits (F64.add x y) = .nan := add_nan x y h
theorem sub_nan_correct (x y : Nat) (hy : y < 2^64) (h : F64Val.ofBits x = .nan ∨ F64Val.ofBits y = .nan) :
    F64Val.ofBits (F64.sub x y) = .nan := sub_nan x y hy h
theorem div_nan_correct (x y : Nat) (h : F64Val.ofBits x = .nan ∨ F64Val.ofBits y = .nan) :
    F64Val.ofBits (F64.div x y) = .nan := div_nan x y h

/-! ## the hypotheses are satisfiable; concrete instances -/

-- 0.1 = 0x3FB999999999999A is the rounding of 1/10
example : IsRNE 1 10 0x3FB999999999999A := by
  have h := tenth_correct 1 (by decide)
  rwa [show F64.tenth 1 = 0x3FB999999999999A by decide +kernel] at h

-- 0.1 · 3.0 = 0.30000000000000004 = 0x3FD3333333333334 is the rounding of the exact product
example : IsRNE ((7205759403792794 * 2^1019) * (3 * den)) (den * den) 0x3FD3333333333334 := by
  have h := (mul_correct 0x3FB999999999999A 0x4008000000000000 (7205759403792794 * 2^1019) (3 * den)
    (by decide) (by decide) (by decide +kernel) (by rw [den_eq]; decide +kernel)).1
  rwa [show F64.mul 0x3FB999999999999A 0x4008000000000000 = 0x3FD3333333333334 by decide +kernel] at h

-- the smallest subnormal times 0.5 is a tie between 0 and 2^-1074: it rounds to (even) +0
example : F64.mul 1 0x3FE0000000000000 = 0 := by decide +kernel
-- the largest finite double times 2 overflows to +∞; 1/3 and −0 + −0
example : F64.mul 0x7FEFFFFFFFFFFFFF 0x4000000000000000 = 0x7FF0000000000000 := by decide +kernel
example : F64.div 0x3FF0000000000000 0x4008000000000000 = 0x3FD5555555555555 := by decide +kernel
example : F64.add 0x8000000000000000 0x8000000000000000 = 0x8000000000000000 := by decide +kernel

end IEEE
