import Cvss.Proofs.Score3Main30
import Cvss.Proofs.Score3Main31
import Cvss.Proofs.Score3Close30
import Cvss.Proofs.Score3Close31
import Cvss.Proofs.Score3Roundup
/-!
# C03 — v3.0 / v3.1 scores equal the specification equations

For **every** well-formed `CVSS30` / `CVSS31` object (all 573,308,928,000 metric assignments per version):
`BaseScore`, `TemporalScore` and `EnvironmentalScore` of the generated float model return exactly the double
nearest to `k/10`, where `k/10` is the value of the FIRST equations (`Spec/V3.lean`) evaluated over the real
numbers (exact decimals) on the strings that `Get` returns — metric weights, scope-dependent PR weight, the
0.915 MISS cap, the version's own ModifiedImpact formula, the 10 cap, zero when (Modified)Impact ≤ 0, `Roundup` —
and `Impact` / `Exploitability` return a double within 10⁻¹² of the exact (unrounded) sub-score.

Proof (`Proofs/Score3*.lean`): hoisting to the `_core` functions on field codes (definitional); kernel
enumerations of the generated code over (a) the 2,592 base code tuples, (b) the temporal step on 101 tenths ×
100 temporal code triples, (c) the 2 × 69,984 (+ `X`≡`M` requirement classes = 165,888) environmental-inner
tuples per version in 16 chunks; (d) shape lemmas by unfolding the generated bodies; (e) `wf →` codes in range and
weight-of-the-string-`Get`-returns = weight-of-the-code, `mod` = the Spec's effective value.
-/
namespace Props.C03
open Model Proofs.Score3

/-- the panic marker of the generated code -/
def poison : Nat := 0x7FF8DEAD00000000

/-- `x` is exactly (bit for bit) the double nearest `k/10` with `k ≤ 100`; in particular it is IEEE-equal to it,
    finite, and not the panic marker -/
def IsScore (x k : Nat) : Prop :=
  F64.eq x (F64.tenth k) = true ∧ x = F64.tenth k ∧ k ≤ 100 ∧ F64.isFin x = true ∧ x ≠ poison

theorem isScore_of {x k : Nat} (h : x = F64.tenth k ∧ k ≤ 100) : IsScore x k := by
  obtain ⟨hx, hk⟩ := h
  have t := tenth_fin k (by omega)
  simp only [Bool.and_eq_true, Bool.not_eq_true'] at t
  subst hx
  refine ⟨t.1.1, rfl, hk, t.1.2, fun e => ?_⟩
  have := t.2; rw [e] at this; exact absurd this (by decide)

/-! ## v3.1 -/

theorem base_v31 (c : O31) (h : c.wf = true) :
    IsScore c.baseScore (Spec.V3.baseK true fun a => (c.get a).1) := isScore_of (V31.base_obj c h)
theorem temporal_v31 (c : O31) (h : c.wf = true) :
    IsScore c.temporalScore (Spec.V3.temporalK true fun a => (c.get a).1) := isScore_of (V31.temporal_obj c h)
theorem environmental_v31 (c : O31) (h : c.wf = true) :
    IsScore c.environmentalScore (Spec.V3.environmentalK true fun a => (c.get a).1) := isScore_of (V31.env_obj c h)
/-- `|Impact(c) − Spec impact| ≤ 10⁻¹²` (and finite): `within12` is the exact integer comparison of
    `Proofs/Score3CloseDef.lean` -/
theorem impact_v31 (c : O31) (h : c.wf = true) :
    within12 c.impact (Spec.V3.impact fun a => (c.get a).1) = true := V31.impact_obj c h
theorem exploitability_v31 (c : O31) (h : c.wf = true) :
    within12 c.exploitability (Spec.V3.exploitability fun a => (c.get a).1) = true := V31.exploitability_obj c h

/-! ## v3.0 -/

theorem base_v30 (c : O30) (h : c.wf = true) :
    IsScore c.baseScore (Spec.V3.baseK false fun a => (c.get a).1) := isScore_of (V30.base_obj c h)
theorem temporal_v30 (c : O30) (h : c.wf = true) :
    IsScore c.temporalScore (Spec.V3.temporalK false fun a => (c.get a).1) := isScore_of (V30.temporal_obj c h)
theorem environmental_v30 (c : O30) (h : c.wf = true) :
    IsScore c.environmentalScore (Spec.V3.environmentalK false fun a => (c.get a).1) := isScore_of (V30.env_obj c h)
theorem impact_v30 (c : O30) (h : c.wf = true) :
    within12 c.impact (Spec.V3.impact fun a => (c.get a).1) = true := V30.impact_obj c h
theorem exploitability_v30 (c : O30) (h : c.wf = true) :
    within12 c.exploitability (Spec.V3.exploitability fun a => (c.get a).1) = true := V30.exploitability_obj c h

/-! ## The property in the form of the catalogue: IEEE `==` with the Spec's tenth -/

theorem C03_v31 (c : O31) (h : c.wf = true) :
    F64.eq c.baseScore (F64.tenth (Spec.V3.baseK true fun a => (c.get a).1)) = true ∧
    F64.eq c.temporalScore (F64.tenth (Spec.V3.temporalK true fun a => (c.get a).1)) = true ∧
    F64.eq c.environmentalScore (F64.tenth (Spec.V3.environmentalK true fun a => (c.get a).1)) = true ∧
    within12 c.impact (Spec.V3.impact fun a => (c.get a).1) = true ∧
    within12 c.exploitability (Spec.V3.exploitability fun a => (c.get a).1) = true :=
  ⟨(base_v31 c h).1, (temporal_v31 c h).1, (environmental_v31 c h).1, impact_v31 c h, exploitability_v31 c h⟩

theorem C03_v30 (c : O30) (h : c.wf = true) :
    F64.eq c.baseScore (F64.tenth (Spec.V3.baseK false fun a => (c.get a).1)) = true ∧
    F64.eq c.temporalScore (F64.tenth (Spec.V3.temporalK false fun a => (c.get a).1)) = true ∧
    F64.eq c.environmentalScore (F64.tenth (Spec.V3.environmentalK false fun a => (c.get a).1)) = true ∧
    within12 c.impact (Spec.V3.impact fun a => (c.get a).1) = true ∧
    within12 c.exploitability (Spec.V3.exploitability fun a => (c.get a).1) = true :=
  ⟨(base_v30 c h).1, (temporal_v30 c h).1, (environmental_v30 c h).1, impact_v30 c h, exploitability_v30 c h⟩

/-! ## The hypotheses are satisfiable: a non-trivial well-formed object and its scores -/

/-- `CVSS:3.1/AV:N/AC:L/PR:L/UI:N/S:C/C:L/I:L/A:N/E:F/RL:O/CR:H/MAV:L/MS:C/MC:H` -/
def ex31 : O31 := ⟨10, 178, 130, 12, 9, 0⟩
def ex30 : O30 := ⟨10, 178, 130, 12, 9, 0⟩
example : ex31.wf = true := by decide +kernel
example : ex30.wf = true := by decide +kernel
example : ex31.vector = Spec.b "CVSS:3.1/AV:N/AC:L/PR:L/UI:N/S:C/C:L/I:L/A:N/E:F/RL:O/CR:H/MAV:L/MS:C/MC:H" := by
  decide +kernel
/-- Spec values 6.4 / 5.9 / 8.2, and the model returns exactly those doubles -/
example : (Spec.V3.baseK true fun a => (ex31.get a).1) = 64 ∧ (Spec.V3.temporalK true fun a => (ex31.get a).1) = 59 ∧
    (Spec.V3.environmentalK true fun a => (ex31.get a).1) = 82 := by decide +kernel
example : ex31.baseScore = F64.tenth 64 ∧ ex31.temporalScore = F64.tenth 59 ∧ ex31.environmentalScore = F64.tenth 82 := by
  decide +kernel
example : IsScore ex31.environmentalScore 82 := by
  have := environmental_v31 ex31 (by decide +kernel)
  have e : (Spec.V3.environmentalK true fun a => (ex31.get a).1) = 82 := by decide +kernel
  rwa [e] at this

/-! ## Spec sanity (no code involved) -/

/-- the closed formula of `Spec.V3.Roundup` is the specification's wording: `Roundup x = t` (tenths) is a number with
    one decimal that is `≥ x`, and the least such -/
theorem roundup_is_least_tenth (x : Spec.V3.Dec) :
    x ≤ Spec.V3.tenths (Spec.V3.Roundup x) ∧ ∀ t : Int, x ≤ Spec.V3.tenths t → Spec.V3.Roundup x ≤ t :=
  ⟨Roundup_ge x, Roundup_le x⟩

/-! ## Appendix A of v3.1 (integer `Roundup`) never differs from the real-number `Roundup` on an argument the
equations produce: see `Proofs.Score3.V31.appendixA_base`, `appendixA_temporal`, `appendixA_inner`
(and `V30.appendixA_inner` for the v3.0 ModifiedImpact formula). -/

end Props.C03
