import Cvss.Proofs.Pool
/-!
# C14 — independence from history, interleaving, aliasing   (the provable part)

Property: *the result of every exported function (and, for `Set`, the new value of its receiver) is
determined by its arguments and the receiver's current value alone: it is the same whatever was called
before and whatever other goroutines are doing; a string returned by `Vector()` never changes afterwards, and
a copy of an object is independent of the original.*

## What is proved here

1. **Shared-state facts** (`C14.v30_no_shared_state` … `C14.pkg_vars`): the regenerated lists of package-level
   variables, of writes to / address-of them, of method calls on them, of goroutine starts and of uses of
   package `unsafe` are exactly what the models assume: packages 3.0, 3.1, 4.0 have **no** shared mutable state
   (only error sentinels and tables that no function assigns to, indexes-and-assigns, or takes the address of);
   package 2.0 has exactly one: `splitPool`, touched only by `ParseVector` through `Get` and `Put`; each package
   uses `unsafe` exactly once, in `Vector`. That the pool model describes `ParseVector` and `split` of v2.0 as they are now is
   `Props/C14b.lean` (simulation of the regenerated loop bodies).
2. **The pool is invisible to one call** (`C14.split14With_spec`, `C14.parse20With_indep`,
   `C14.parse20With_eq_parse20`, `C14.stale_slots_untouched`): `split` writes slots `0..ei` only, `ei ≤ 13`, the
   parser reads slots `0..ei` only; with any 14 stale strings in the buffer the result is `Model.parse20 s`.
3. **The pool is invisible under every interleaving** (`C14.schedule_independent`): in the ownership machine
   `Model.Pool` (heap of buffers, pool = multiset of free buffers, any number of threads, each call cut into
   single buffer accesses, `Get` from the pool or fresh with arbitrary content, GC drops) every finished call
   of every schedule returned `Model.parse20` of its input; no buffer access is ever out of range; two threads
   never hold the same buffer. `C14.progress`: a thread inside a call can always take its next step (the pool
   never blocks). `C14.aliasing_breaks`: if the pool *violated* its contract the model *does* show a wrong
   result — the theorem is not true for trivial reasons.
4. **Determinism by construction** (`C14.obj20_determined` …, `C14.set_local`, `C14.copy_independent`,
   `C14.set_history_free`): spelled out, and trivial in the model — see the remarks there.

## What the model cannot exhibit (covered by testing only: 16 goroutines under `-race` with poisoned pools)

* Go's memory model (visibility/ordering of the writes of different goroutines; that `Get`/`Put` synchronise),
* `sync.Pool`'s implementation — its contract "a buffer obtained by `Get` is handed to nobody else until `Put`" is
  the step rule of the machine (`getPool` removes the buffer, `getNew` needs a fresh one), i.e. **assumed**,
* what `unsafe` aliasing would do: `Vector` converts its byte buffer to a string without copying; that the
  buffer is created by `make` inside the call, only passed to `app`, and never retained is visible in the
  source (and is the only shape the translator accepts: `GenVxx.Vector` is a pure function returning the
  bytes), but "the string never changes afterwards" is a statement about Go memory, not about this model,
* that the strings left in a pooled buffer alias the *input* strings of earlier calls (this keeps them
  reachable until overwritten or dropped — a memory-retention effect, not a functional one),
* the race detector's verdict,
* mutation of a package table through an alias (`x := order[0]; x[0] = …`, `copy(order[0], …)`, passing the
  slice to a callee that writes through it): `pkg_writes` records assignments, increments/decrements and `&` whose operand is
  rooted at a package variable, not data flow. (No such code exists in `/repo`; the tables are only indexed,
  ranged over, `len`-ed, and — `sevIdx[metric]` in `40/severity.go:33` — passed to a read-only `index`.)
-/
namespace C14
open Model Model.Pool

/-! ## 1. regenerated shared-state facts -/

/-- v3.0: no function assigns to, or takes the address of, a package-level variable; none calls a method on
    one; no goroutine is started -/
theorem v30_no_shared_state : GenV30.pkg_writes = [] ∧ GenV30.pkg_calls = [] := by decide
theorem v31_no_shared_state : GenV31.pkg_writes = [] ∧ GenV31.pkg_calls = [] := by decide
theorem v40_no_shared_state : GenV40.pkg_writes = [] ∧ GenV40.pkg_calls = [] := by decide

/-- v2.0: no writes; the only method calls on package state are `ParseVector`'s `splitPool.Get` and the
    (deferred) `splitPool.Put` — the two pool actions of the machine `Model.Pool` -/
theorem v20_shared_state :
    GenV20.pkg_writes = [] ∧
    GenV20.pkg_calls = ["ParseVector:splitPool.Get", "ParseVector:splitPool.Put"] := by decide

/-- exactly one use of package `unsafe` per version: the `[]byte → string` conversion at the end of `Vector` -/
theorem unsafe_uses :
    GenV20.pkg_unsafe = ["CVSS20.Vector:unsafe.Pointer"] ∧
    GenV30.pkg_unsafe = ["CVSS30.Vector:unsafe.Pointer"] ∧
    GenV31.pkg_unsafe = ["CVSS31.Vector:unsafe.Pointer"] ∧
    GenV40.pkg_unsafe = ["CVSS40.Vector:unsafe.Pointer"] := by decide

/-- all package-level variables: error sentinels, the tables `order`, `sevIdx`, `highestSeverityVectors*`
    (never written, by the theorems above: immutable after package initialisation), and `splitPool` -/
theorem pkg_vars :
    GenV20.pkg_vars = ["ErrInvalidMetricOrder:error", "ErrInvalidMetricValue:error", "ErrTooShortVector:error",
      "order:[][]string", "splitPool:sync.Pool"] ∧
    GenV30.pkg_vars = ["ErrInvalidCVSSHeader:error", "ErrInvalidMetricValue:error", "ErrOutOfBoundsScore:error",
      "ErrTooShortVector:error"] ∧
    GenV31.pkg_vars = ["ErrInvalidCVSSHeader:error", "ErrInvalidMetricValue:error", "ErrOutOfBoundsScore:error",
      "ErrTooShortVector:error"] ∧
    GenV40.pkg_vars = ["ErrInvalidCVSSHeader:error", "ErrInvalidMetricOrder:error", "ErrInvalidMetricValue:error",
      "ErrOutOfBoundsScore:error", "ErrTooShortVector:error", "highestSeverityVectors:[][][]int",
      "highestSeverityVectorsEQ3EQ6:[][][]int", "order:[][]string", "sevIdx:[][]uint8"] := by decide

/-! ## 2. one call: stale slots are never read, `split` never writes past slot 13 -/

/-- `split` into a buffer with arbitrary old content: still 14 slots, `ei ≤ 13` (so `dst[curr]` is never out
    of range and `pts[:ei+1]` is a legal reslice), and slots `0..ei` hold exactly the pool-free `splitN 13 s` -/
theorem split14With_spec (buf : Buf) (s : Bytes) (hl : buf.length = 14) :
    (split14With buf s).1.length = 14 ∧ (split14With buf s).2 ≤ 13 ∧
    (split14With buf s).1.take ((split14With buf s).2 + 1) = splitN 13 s :=
  Model.split14With_spec buf s hl

/-- slots beyond `ei` keep their stale content (they are not written; `parse20With` does not read them) -/
theorem stale_slots_untouched (buf : Buf) (s : Bytes) (j : Nat) (hj : (split14With buf s).2 < j) :
    (split14With buf s).1[j]? = buf[j]? :=
  Model.splitGo_untouched s buf 0 [] j hj

/-- **the result does not depend on the content of the buffer the pool hands out** -/
theorem parse20With_indep (buf buf' : Buf) (s : Bytes) (h : buf.length = 14) (h' : buf'.length = 14) :
    (parse20With buf s).1 = (parse20With buf' s).1 := by
  rw [parse20With_eq buf s h, parse20With_eq buf' s h']

/-- … and it is the result of the pool-free model `Model.parse20` (the one C01 … C13 talk about) -/
theorem parse20With_eq_parse20 (buf : Buf) (s : Bytes) (h : buf.length = 14) :
    (parse20With buf s).1 = parse20 s := parse20With_eq buf s h

/-- the buffer put back has 14 slots again, so the hypothesis of the two theorems above holds for the next
    call that gets it -/
theorem parse20With_returns_14 (buf : Buf) (s : Bytes) (h : buf.length = 14) :
    (parse20With buf s).2.length = 14 := parse20With_buf_len buf s h

/-- a buffer of stale `"stale/AR:H"` strings, the 16-element input `…/AR:L/X/Y`: slot 13 gets the whole tail
    `AR:L/X/Y`, `ei = 13` -/
example :
    let stale : Buf := List.replicate 14 [115, 116, 97, 108, 101, 47, 65, 82, 58, 72]
    let s : Bytes := [65, 86, 58, 78, 47, 65, 67, 58, 76, 47, 65, 117, 58, 78, 47, 67, 58, 80, 47, 73, 58, 80, 47,
      65, 58, 80, 47, 69, 58, 85, 47, 82, 76, 58, 79, 70, 47, 82, 67, 58, 67, 47, 67, 68, 80, 58, 78, 47, 84, 68,
      58, 78, 47, 67, 82, 58, 76, 47, 73, 82, 58, 76, 47, 65, 82, 58, 76, 47, 88, 47, 89]
    (split14With stale s).2 = 13 ∧ (split14With stale s).1[13]? = some [65, 82, 58, 76, 47, 88, 47, 89] ∧
    (parse20With stale s).1 = .err eValue := by decide

/-- the same stale buffer, input `AV:N`: only slot 0 is written, slot 1 still holds `stale/AR:H`, and the
    result is `ErrTooShortVector` as without a pool -/
example :
    let stale : Buf := List.replicate 14 [115, 116, 97, 108, 101, 47, 65, 82, 58, 72]
    (split14With stale [65, 86, 58, 78]).2 = 0 ∧
    (split14With stale [65, 86, 58, 78]).1[1]? = some [115, 116, 97, 108, 101, 47, 65, 82, 58, 72] ∧
    (parse20With stale [65, 86, 58, 78]).1 = .err eTooShort := by decide

/-! ## 3. every schedule -/

/-- **Main theorem.** Start with any number of idle threads and any pool of distinct 14-slot buffers with any
    content; run any schedule of legal actions (calls with any inputs by any threads, `Get` served from the pool
    or by a fresh buffer with arbitrary content, single buffer accesses of the running calls interleaved in any
    order, `Put`s, GC drops). Then
    * every finished call `(t, inp, r)` returned `r = Model.parse20 inp`;
    * every call whose body has returned (deferred `Put` pending) has that result too;
    * no thread ever hit an index out of range on its buffer;
    * a buffer is never held by two threads, and a held buffer is never in the pool. -/
theorem schedule_independent (σ₀ σ : St) (acts : List Act) (h0 : Init σ₀)
    (hlegal : ∀ x ∈ acts, x.legal = true) (hrun : run σ₀ acts = some σ) :
    (∀ (t : Nat) (inp : Bytes) (r : Res O20), (t, inp, r) ∈ σ.log → r = parse20 inp) ∧
    (∀ (t : Nat) (a : Addr) (inp : Bytes) (r : Res O20), σ.thr[t]? = some (Phase.ret a inp r) → r = parse20 inp) ∧
    (∀ t : Nat, σ.thr[t]? ≠ some Phase.crashed) ∧
    (∀ (t t' : Nat) (ph ph' : Phase) (a : Addr), σ.thr[t]? = some ph → σ.thr[t']? = some ph' →
        ph.owner = some a → ph'.owner = some a → t = t') ∧
    (∀ (t : Nat) (ph : Phase) (a : Addr), σ.thr[t]? = some ph → ph.owner = some a → a ∉ σ.pool) := by
  have hI := inv_run acts (init_inv h0) hlegal hrun
  refine ⟨fun t inp r h => hI.logOK _ h, fun t a inp r h => (hI.phaseOK t (.ret a inp r) h).2,
    fun t h => hI.phaseOK t .crashed h, hI.heldDistinct, hI.heldNotFree⟩

/-- the pool never blocks a call and no call gets stuck: a thread inside a call has an enabled step -/
theorem progress (σ : St) (t : Nat) (ph : Phase) (a : Addr) (ht : σ.thr[t]? = some ph)
    (ho : ph.owner = some a) :
    (∃ σ', apply σ (.tick t) = some σ') ∧ (∀ inp r, ph = .ret a inp r → ∃ σ', apply σ (.put t) = some σ') := by
  refine ⟨?_, ?_⟩
  · simp [apply, ht, ho]
  · rintro inp r rfl; simp [apply, ht]

/-! ### the hypotheses are satisfiable, and the machine can show interference -/

/-- `AV:L/AC:L/Au:N/C:N/I:N/A:C` -/
def inpA : Bytes := [65, 86, 58, 76, 47, 65, 67, 58, 76, 47, 65, 117, 58, 78, 47, 67, 58, 78, 47, 73, 58, 78, 47, 65, 58, 67]
/-- `AV:N/AC:L/Au:N/C:P/I:P/A:P` -/
def inpB : Bytes := [65, 86, 58, 78, 47, 65, 67, 58, 76, 47, 65, 117, 58, 78, 47, 67, 58, 80, 47, 73, 58, 80, 47, 65, 58, 80]
/-- `AV:N/AC:L/Au:N/C:P/I:P/A:P/E:U/RL:OF/RC:C/CDP:N/TD:N/CR:L/IR:L/AR:L` (14 metrics) -/
def inpC : Bytes := [65, 86, 58, 78, 47, 65, 67, 58, 76, 47, 65, 117, 58, 78, 47, 67, 58, 80, 47, 73, 58, 80, 47, 65, 58,
  80, 47, 69, 58, 85, 47, 82, 76, 58, 79, 70, 47, 82, 67, 58, 67, 47, 67, 68, 80, 58, 78, 47, 84, 68, 58, 78, 47, 67,
  82, 58, 76, 47, 73, 82, 58, 76, 47, 65, 82, 58, 76]
/-- `AV:N` -/
def inpD : Bytes := [65, 86, 58, 78]

/-- every buffer in memory holds 14 copies of `stale/AR:H`; one of them (address 0) is in the pool; 2 threads -/
def σex : St :=
  { heap := fun _ => List.replicate 14 [115, 116, 97, 108, 101, 47, 65, 82, 58, 72],
    pool := [0], thr := [.idle, .idle], log := [] }

theorem σex_init : Init σex :=
  ⟨by intro ph h; simp [σex] at h; rcases h with rfl | rfl <;> rfl, rfl, by decide, by intro a _; rfl⟩

/-- thread 0 parses `inpA` with the pooled buffer, thread 1 parses the 14-metric `inpC` with a fresh buffer
    (of arbitrary content), their buffer accesses alternate strictly; both `Put`; then thread 1 parses the short
    `inpD` and thread 0 the 6-metric `inpB`, each **with the buffer the other one used before** -/
def schedEx : List Act :=
  [.getPool 0 inpA 0, .getNew 1 inpC 7 (List.replicate 14 [88])] ++
  (List.replicate 90 [Act.tick 0, Act.tick 1]).flatten ++
  [.put 1, .put 0, .getPool 1 inpD 0, .getPool 0 inpB 7] ++
  (List.replicate 40 [Act.tick 1, Act.tick 0]).flatten ++ [.put 0, .gc 7, .put 1]

/-- a concrete legal schedule on a concrete initial state runs to the end, and its log is the four sequential
    results (two successes, `ErrTooShortVector`, a success) -/
theorem example_schedule :
    (∀ x ∈ schedEx, x.legal = true) ∧
    (run σex schedEx).map (·.log) =
      some [(1, inpD, parse20 inpD), (0, inpB, parse20 inpB), (0, inpA, parse20 inpA), (1, inpC, parse20 inpC)] ∧
    (run σex schedEx).map (·.pool) = some [0] ∧
    parse20 inpA = .ok ⟨8, 32, 0, 0⟩ ∧ parse20 inpB = .ok ⟨137, 80, 0, 0⟩ ∧
    parse20 inpC = .ok ⟨137, 82, 114, 85⟩ ∧ parse20 inpD = .err eTooShort := by
  decide +kernel

/-- **If the pool broke its contract** (`getAliased`: buffer 0 handed to thread 1 while thread 0 holds it):
    thread 0 splits `inpA`, thread 1 splits `inpB` into the same buffer, thread 0 then reads thread 1's parts
    and returns the object of `inpB`. So the machine is able to show interference; `schedule_independent` holds
    because of the ownership discipline, not because buffers are values. -/
theorem aliasing_breaks :
    let sched : List Act :=
      [.getAliased 1 inpB 0, .getPool 0 inpA 0] ++ List.replicate 27 (.tick 0) ++
      List.replicate 27 (.tick 1) ++ List.replicate 7 (.tick 0) ++ [.put 0]
    (run σex sched).map (·.log) = some [(0, inpA, parse20 inpB)] ∧
    parse20 inpB ≠ parse20 inpA := by
  decide +kernel

/-! ## 4. determinism by construction

Everything below is **trivial in the model**, and is written down only so that the reader sees what "by
construction" means. The translator turns each Go function of the four packages into a Lean *function* of
the receiver's bytes `u0 … uN` and the arguments; a Lean function has no other input, so its value cannot
depend on earlier calls or on other threads. That the Go functions really are such functions is what part 1
(no shared state except the pool) and parts 2–3 (the pool is invisible) establish, plus the assumptions listed
in the header. The object types are structs of `uint8` fields only (no pointers, slices or maps inside), which
is why the translator can represent a receiver by its bytes and why a Go assignment `c2 := *c1` copies
everything. -/

theorem O20.eq_of_bytes {c c' : O20} (h : c.bytes = c'.bytes) : c = c' := by
  cases c; cases c'; simp only [O20.bytes, List.cons.injEq, and_true] at h
  obtain ⟨h0, h1, h2, h3⟩ := h; subst h0 h1 h2 h3; rfl
theorem O30.eq_of_bytes {c c' : O30} (h : c.bytes = c'.bytes) : c = c' := by
  cases c; cases c'; simp only [O30.bytes, List.cons.injEq, and_true] at h
  obtain ⟨h0, h1, h2, h3, h4, h5⟩ := h; subst h0 h1 h2 h3 h4 h5; rfl
theorem O31.eq_of_bytes {c c' : O31} (h : c.bytes = c'.bytes) : c = c' := by
  cases c; cases c'; simp only [O31.bytes, List.cons.injEq, and_true] at h
  obtain ⟨h0, h1, h2, h3, h4, h5⟩ := h; subst h0 h1 h2 h3 h4 h5; rfl
theorem O40.eq_of_bytes {c c' : O40} (h : c.bytes = c'.bytes) : c = c' := by
  cases c; cases c'; simp only [O40.bytes, List.cons.injEq, and_true] at h
  obtain ⟨h0, h1, h2, h3, h4, h5, h6, h7, h8⟩ := h; subst h0 h1 h2 h3 h4 h5 h6 h7 h8; rfl

/-- Anything computed from a v2.0 object — `get`, `set` (new receiver value and error), `vector`, the scores —
    is determined by the object's 4 bytes (and the other arguments). Instances: `f := fun c => c.set a v`,
    `fun c => c.get a`, `O20.vector`, `O20.baseScore`, … -/
theorem obj20_determined {β : Type} (f : O20 → β) (c c' : O20) (h : c.bytes = c'.bytes) : f c = f c' :=
  O20.eq_of_bytes h ▸ rfl
theorem obj30_determined {β : Type} (f : O30 → β) (c c' : O30) (h : c.bytes = c'.bytes) : f c = f c' :=
  O30.eq_of_bytes h ▸ rfl
theorem obj31_determined {β : Type} (f : O31 → β) (c c' : O31) (h : c.bytes = c'.bytes) : f c = f c' :=
  O31.eq_of_bytes h ▸ rfl
theorem obj40_determined {β : Type} (f : O40 → β) (c c' : O40) (h : c.bytes = c'.bytes) : f c = f c' :=
  O40.eq_of_bytes h ▸ rfl

/-- spelled out for `Set`: same receiver bytes, same arguments ⇒ same new receiver and same error -/
theorem set_determined :
    (∀ (c c' : O20) a v, c.bytes = c'.bytes → c.set a v = c'.set a v) ∧
    (∀ (c c' : O30) a v, c.bytes = c'.bytes → c.set a v = c'.set a v) ∧
    (∀ (c c' : O31) a v, c.bytes = c'.bytes → c.set a v = c'.set a v) ∧
    (∀ (c c' : O40) a v, c.bytes = c'.bytes → c.set a v = c'.set a v) :=
  ⟨fun c c' a v h => obj20_determined (·.set a v) c c' h, fun c c' a v h => obj30_determined (·.set a v) c c' h,
   fun c c' a v h => obj31_determined (·.set a v) c c' h, fun c c' a v h => obj40_determined (·.set a v) c c' h⟩

/-- A program's object variables under value semantics: variable `x` holds the object `st x`. -/
abbrev Store (O : Type) := Nat → O

/-- `x.Set(a, v)`: only variable `x` changes -/
def Store.setOp {O : Type} (set : O → Bytes → Bytes → O × Go.Err) (st : Store O) (x : Nat) (a v : Bytes) :
    Store O × Go.Err :=
  (fun y => if y = x then (set (st x) a v).1 else st y, (set (st x) a v).2)

/-- `dst := src` (Go: `c2 := *c1`, or passing/returning by value) -/
def Store.copy {O : Type} (st : Store O) (dst src : Nat) : Store O := fun y => if y = dst then st src else st y

/-- `Set` on one object changes no other object (distinct objects can be used concurrently) -/
theorem set_local {O : Type} (set : O → Bytes → Bytes → O × Go.Err) (st : Store O) (x y : Nat) (a v : Bytes)
    (h : y ≠ x) : (st.setOp set x a v).1 y = st y := by simp [Store.setOp, h]

/-- **a copy is independent of the original**: `c' := c; c'.Set(a, v)` leaves `c` as it was (and the copy gets
    what `Set` on the original would have produced) -/
theorem copy_independent {O : Type} (set : O → Bytes → Bytes → O × Go.Err) (st : Store O) (dst src : Nat)
    (a v : Bytes) (h : src ≠ dst) :
    ((st.copy dst src).setOp set dst a v).1 src = st src ∧
    ((st.copy dst src).setOp set dst a v).1 dst = (set (st src) a v).1 := by
  simp [Store.setOp, Store.copy, h]

/-- **history does not matter**: two program states that agree on the object `x` (however they were reached)
    give the same new value of `x` and the same error -/
theorem set_history_free {O : Type} (set : O → Bytes → Bytes → O × Go.Err) (st st' : Store O) (x : Nat)
    (a v : Bytes) (h : st x = st' x) :
    (st.setOp set x a v).1 x = (st'.setOp set x a v).1 x ∧ (st.setOp set x a v).2 = (st'.setOp set x a v).2 := by
  simp [Store.setOp, h]

/-- the four real `Set`s plugged in: after `c' := c; c'.Set("AV","N")` the original v2.0 object is unchanged and
    the copy differs from it -/
example :
    let st : Store O20 := fun _ => ⟨8, 32, 0, 0⟩
    let st' := ((st.copy 1 0).setOp O20.set 1 [65, 86] [78]).1
    st' 0 = ⟨8, 32, 0, 0⟩ ∧ st' 1 = ⟨136, 32, 0, 0⟩ := by decide

end C14
