import Cvss.Props.C02v2
import Cvss.Props.C02v3
import Cvss.Props.C02v4
import Cvss.Props.C17
import Cvss.Props.C07
import Cvss.Props.C09
import Cvss.Props.C09v4
import Cvss.Proofs.Reach40
/-!
# C02 — serialising an object and parsing it back returns the same object (assembled)

For every object obtainable through the public API (`Reachable`: the zero value closed under `Set`, successful or
failed; `Reachable c ↔ c.wf`, C09), the regenerated `Vector()` is accepted by the same version's parser model and the
parsed object is the original one (equal as a value, hence `==` and equal on every `Get`). All 1.4·10⁸ / 5.7·10¹¹ /
2.7·10¹⁷ objects at once: the proof is structural (C01 completeness on the canonical spelling, get/set laws of C07,
the `Vector` shape theorem of `Proofs/Vec*.lean`, extensionality on well-formed objects).
-/
namespace C02
open Model Proofs

theorem v20 (c : O20) (h : c.wf = true) : parse20 c.vector = .ok c :=
  C02.V2.model_roundtrip Bits20.contract20 (C17.vecContract20 Bits20.contract20 rfl) rfl rfl h
theorem v30 (c : O30) (h : c.wf = true) : parse30 c.vector = .ok c :=
  C02.V3.parse_vector_30 Bits30.contract30 rfl rfl (C17.vecContract30 Bits30.contract30 rfl) rfl c h
theorem v31 (c : O31) (h : c.wf = true) : parse31 c.vector = .ok c :=
  C02.V3.parse_vector_31 Bits31.contract31 rfl rfl (C17.vecContract31 Bits31.contract31 rfl) rfl c h
theorem v40 (c : O40) (h : c.wf = true) : parse40 c.vector = .ok c :=
  C02.V4.parse_vector_model Proofs.B40.contract40 (C17.vecContract40 Proofs.B40.contract40 rfl) rfl rfl h

/-- in terms of the public API: every reachable object round-trips -/
theorem reachable20 (c : O20) (h : O20.Reachable c) : parse20 c.vector = .ok c := v20 c ((C09.V20.reachable_iff_wf c).mp h)
theorem reachable30 (c : O30) (h : O30.Reachable c) : parse30 c.vector = .ok c := v30 c ((C09.V30.reachable_iff_wf c).mp h)
theorem reachable31 (c : O31) (h : O31.Reachable c) : parse31 c.vector = .ok c := v31 c ((C09.V31.reachable_iff_wf c).mp h)
theorem reachable40 (c : O40) (h : O40.Reachable c) : parse40 c.vector = .ok c := v40 c ((Proofs.B40.reachable_iff_wf c).mp h)

end C02
