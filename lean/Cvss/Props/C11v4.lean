import Cvss.Proofs.Score4Bits
import Cvss.Props.C04
import Cvss.Spec.V4Range
/-!
# C11 (v4.0 part) — every score is a finite one-decimal number within the scale, and `Rating` accepts it

For every well-formed `CVSS40` object, `Score` returns **exactly the bit pattern** of the double nearest `k/10`
for a natural `k ≤ 100` (never `-0.0`, never NaN/Inf), namely `k = Spec.V4.scoreK` of the object's value strings;
so it is finite, IEEE-equal to `F64.tenth k`, and the generated `Rating` applied to these very bits returns a nil
error.

* `score_bits` — the bit-level form of `Props.C04` (`Proofs/Score4Bits.core_bits`: the no-impact shortcut returns
  the literal `+0.0`; otherwise the Spec's score is ≥ 0.1 on all 52,650 (MacroVector, distances) points, and
  IEEE `==` with a non-zero number is equality of bits).
* `Spec.V4.scoreK_le_100` — for every assignment of strings, the Spec's score is at most 10.0 (`Spec/V4Range.lean`).
* `tenth_table` — 101 cases by kernel evaluation: `F64.tenth k` is finite and `GenV40.Rating (F64.tenth k)` has a
  nil error, `k ≤ 100`.
-/
namespace Props.C11v4
open Proofs.Score4 Model
open Spec.V4 (orElse)

/-- bit-level C04: `Score` returns the double nearest the Spec's score, bit for bit -/
theorem score_bits (c : O40) (h : c.wf = true) :
    c.score = F64.tenth (Spec.V4.scoreK (fun a => (c.get a).1)) := by
  have hS : Spec.V4.scoreK (fun a => (c.get a).1) =
      scoreS (orElse (c.get (Spec.b "MAV")).1 (c.get (Spec.b "AV")).1) (orElse (c.get (Spec.b "MAC")).1 (c.get (Spec.b "AC")).1)
        (orElse (c.get (Spec.b "MAT")).1 (c.get (Spec.b "AT")).1) (orElse (c.get (Spec.b "MPR")).1 (c.get (Spec.b "PR")).1)
        (orElse (c.get (Spec.b "MUI")).1 (c.get (Spec.b "UI")).1) (orElse (c.get (Spec.b "MVC")).1 (c.get (Spec.b "VC")).1)
        (orElse (c.get (Spec.b "MVI")).1 (c.get (Spec.b "VI")).1) (orElse (c.get (Spec.b "MVA")).1 (c.get (Spec.b "VA")).1)
        (orElse (c.get (Spec.b "MSC")).1 (c.get (Spec.b "SC")).1) (orElse (c.get (Spec.b "MSI")).1 (c.get (Spec.b "SI")).1)
        (orElse (c.get (Spec.b "MSA")).1 (c.get (Spec.b "SA")).1) (orElse (c.get (Spec.b "E")).1 (Spec.b "A"))
        (orElse (c.get (Spec.b "CR")).1 (Spec.b "H")) (orElse (c.get (Spec.b "IR")).1 (Spec.b "H"))
        (orElse (c.get (Spec.b "AR")).1 (Spec.b "H")) := rfl
  rw [hS, score_eq_core]
  obtain ⟨e0, b0⟩ := wf_AV c h
  obtain ⟨e1, b1⟩ := wf_MAV c h
  obtain ⟨e2, b2⟩ := wf_AC c h
  obtain ⟨e3, b3⟩ := wf_MAC c h
  obtain ⟨e4, b4⟩ := wf_AT c h
  obtain ⟨e5, b5⟩ := wf_MAT c h
  obtain ⟨e6, b6⟩ := wf_PR c h
  obtain ⟨e7, b7⟩ := wf_MPR c h
  obtain ⟨e8, b8⟩ := wf_UI c h
  obtain ⟨e9, b9⟩ := wf_MUI c h
  obtain ⟨e10, b10⟩ := wf_VC c h
  obtain ⟨e11, b11⟩ := wf_MVC c h
  obtain ⟨e12, b12⟩ := wf_SC c h
  obtain ⟨e13, b13⟩ := wf_MSC c h
  obtain ⟨e14, b14⟩ := wf_VI c h
  obtain ⟨e15, b15⟩ := wf_MVI c h
  obtain ⟨e16, b16⟩ := wf_SI c h
  obtain ⟨e17, b17⟩ := wf_MSI c h
  obtain ⟨e18, b18⟩ := wf_VA c h
  obtain ⟨e19, b19⟩ := wf_MVA c h
  obtain ⟨e20, b20⟩ := wf_SA c h
  obtain ⟨e21, b21⟩ := wf_MSA c h
  obtain ⟨e22, b22⟩ := wf_CR c h
  obtain ⟨e23, b23⟩ := wf_IR c h
  obtain ⟨e24, b24⟩ := wf_AR c h
  obtain ⟨e25, b25⟩ := wf_E c h
  rw [e0, e1, e2, e3, e4, e5, e6, e7, e8, e9, e10, e11, e12, e13, e14, e15, e16, e17, e18, e19, e20, e21, e22, e23, e24, e25]
  exact core_bits _ _ _ _ _ _ _ _ _ _ _ _ _ _ _ _ _ _ _ _ _ _ _ _ _ _ b0 b1 b2 b3 b4 b5 b6 b7 b8 b9 b10 b11 b12 b13 b14 b15 b16
    b17 b18 b19 b20 b21 b22 b23 b24 b25

/-- the 101 one-decimal values of the scale: finite, and accepted by `Rating` -/
theorem tenth_table : ((List.range 101).all fun k =>
    F64.isFin (F64.tenth k) && decide ((GenV40.Rating (F64.tenth k)).2 = Go.errNil)) = true := by decide +kernel

/-- **C11, v4.0** -/
theorem C11v4 (c : O40) (h : c.wf = true) :
    ∃ k : Nat, k ≤ 100 ∧ F64.isFin c.score = true ∧ F64.eq c.score (F64.tenth k) = true ∧
      c.score = F64.tenth k ∧ (GenV40.Rating c.score).2 = Go.errNil := by
  have hk := Spec.V4.scoreK_le_100 (fun a => (c.get a).1)
  have ht := List.all_eq_true.mp tenth_table (Spec.V4.scoreK (fun a => (c.get a).1))
    (List.mem_range.mpr (Nat.lt_succ_of_le hk))
  simp only [Bool.and_eq_true, decide_eq_true_eq] at ht
  refine ⟨Spec.V4.scoreK (fun a => (c.get a).1), hk, ?_, Props.C04 c h, score_bits c h, ?_⟩
  · rw [score_bits c h]; exact ht.1
  · rw [score_bits c h]; exact ht.2

/-- the `k` is the Spec's score: the object of `Props.C04`'s example scores 9.3, rated CRITICAL -/
example : (⟨0x28, 0x22, 0x20, 0, 0, 0, 0, 0, 0⟩ : O40).wf = true ∧
    (⟨0x28, 0x22, 0x20, 0, 0, 0, 0, 0, 0⟩ : O40).score = F64.tenth 93 ∧
    GenV40.Rating (⟨0x28, 0x22, 0x20, 0, 0, 0, 0, 0, 0⟩ : O40).score = (Spec.b "CRITICAL", Go.errNil) := by
  decide +kernel

end Props.C11v4

