import Cvss.Proofs.Parse4Main
/-!
# C06 (v4.0): a parsed vector means what it says

The right-hand side is read off the **Spec's** decomposition of the string (the witness list of the
grammar, `Spec.valueOf`), not off the parser. `Get`/`Set` only through the abstract contract `K`.
-/
namespace C06.V4
open Spec (Pair abvs b valueOf)
open Model (Bytes O40 Res)
open Proofs.P4

variable (K : Proofs.Contract O40 Spec.V4.metrics)

/-- **C06.** every metric of the parsed object reads as the value written in the string, or as the
    metric's not-defined value `X` when it is not written; never an error -/
theorem meaning {s : Bytes} {c : O40} (h : parseK K s = .ok c) :
    ∀ w, Spec.V4.Witness s w → ∀ m ∈ Spec.V4.metrics,
      K.get c m.abv = (valueOf Spec.V4.metrics w m.abv, Go.errNil) := by
  intro w hw m hm
  rw [parseK_witness K hw] at h
  simp only [Res.ok.injEq] at h
  subst h
  exact get_setAll_valid K (witness_iff.mp hw).2 hm

/-- the parsed object is well-formed -/
theorem wf {s : Bytes} {c : O40} (h : parseK K s = .ok c) : K.WF c := by
  obtain ⟨w, _, rfl⟩ := parseK_ok K h
  exact wf_setAll K w K.zero K.wf_zero

/-- the witness quantified over in `meaning` exists (and is unique, `C01.V4.witness_unique`) -/
theorem witness_exists {s : Bytes} {c : O40} (h : parseK K s = .ok c) : ∃ w, Spec.V4.Witness s w := by
  obtain ⟨w, hw, _⟩ := parseK_ok K h
  exact ⟨w, hw⟩

/-- the object is the fold of `Set`s over the witness, starting from the zero object -/
theorem parsed_object {s : Bytes} {w : List Pair} (hw : Spec.V4.Witness s w) :
    parseK K s = .ok (w.foldl (fun c p => (K.set c p.1 p.2).1) K.zero) := parseK_witness K hw

/-- the hypotheses are satisfiable: a vector with optional metrics has a witness -/
example : ∃ w, Spec.V4.Witness (b "CVSS:4.0/AV:N/AC:L/AT:N/PR:N/UI:N/VC:H/VI:H/VA:H/SC:N/SI:N/SA:N/E:A/MSI:S/U:Red") w :=
  Option.isSome_iff_exists.mp (by decide) |>.imp fun w hw => (read_iff _ w).mp hw

/-! ## for `Model.parse40` itself, given the contract instance of the generated code -/

theorem meaning_model (hz : K.zero = O40.zero) (hs : K.set = O40.set) {s : Bytes} {c : O40}
    (h : Model.parse40 s = .ok c) : (∀ w, Spec.V4.Witness s w → ∀ m ∈ Spec.V4.metrics,
      K.get c m.abv = (valueOf Spec.V4.metrics w m.abv, Go.errNil)) ∧ K.WF c := by
  rw [parse40_eq_parseK K hz hs] at h
  exact ⟨meaning K h, wf K h⟩

end C06.V4
