import Cvss.Proofs.Score2Main
/-!
# C11 (v2.0 part) — every score is a finite number with one decimal in the documented range

For every well-formed `CVSS20` object each of the three scores is finite and is, bit for bit, the double nearest
`k/10` — or `-0.0` when `k = 0` (finding O1, `Props/C05.lean`) — with `0 ≤ k ≤ 100` for BaseScore and
TemporalScore, and `-2 ≤ k ≤ 100` for EnvironmentalScore: the v2.0 environmental equation can go *below zero*,
down to `-0.2` (e.g. `AV:L/AC:H/Au:M/C:P/I:N/A:N/CR:L`, whose exact recomputed base is −0.168), which the Go
code returns as is. Corollaries of the C05 enumerations (`Proofs/Score2Main.lean`).
`F64.tenth k` = double nearest `k/10`; `tenthI` its signed version; `NEG0 = 0x8000000000000000`.
-/
namespace Props.C11v2
open Model Proofs.Score2

theorem of_nonneg {fl : Nat} {k : Int} (b : bitsOK fl k = true) (l : 0 ≤ k) (u : k ≤ 100) :
    ∃ n : Nat, n ≤ 100 ∧ F64.isFin fl = true ∧ F64.eq fl (F64.tenth n) = true ∧
      (fl = F64.tenth n ∨ (n = 0 ∧ fl = NEG0)) := by
  obtain ⟨n, rfl⟩ := Int.eq_ofNat_of_zero_le l
  have he := eq_tbl (by omega) u b
  refine ⟨n, by omega, he.2, he.1, ?_⟩
  rcases bitsOK_cases b with e | ⟨e1, e2⟩
  · exact Or.inl e
  · exact Or.inr ⟨by omega, e2⟩

theorem base_range (c : O20) (h : c.wf = true) :
    ∃ k : Nat, k ≤ 100 ∧ F64.isFin c.baseScore = true ∧ F64.eq c.baseScore (F64.tenth k) = true ∧
      (c.baseScore = F64.tenth k ∨ (k = 0 ∧ c.baseScore = NEG0)) := by
  obtain ⟨k, _, b, l, u⟩ := base_main c h
  exact of_nonneg b l u

theorem temporal_range (c : O20) (h : c.wf = true) :
    ∃ k : Nat, k ≤ 100 ∧ F64.isFin c.temporalScore = true ∧ F64.eq c.temporalScore (F64.tenth k) = true ∧
      (c.temporalScore = F64.tenth k ∨ (k = 0 ∧ c.temporalScore = NEG0)) := by
  obtain ⟨_, kt, _, _, _, _, _, b, l, u⟩ := temporal_main c h
  exact of_nonneg b l u

theorem environmental_range (c : O20) (h : c.wf = true) :
    ∃ k : Int, -2 ≤ k ∧ k ≤ 100 ∧ F64.isFin c.environmentalScore = true ∧
      F64.eq c.environmentalScore (tenthI k) = true ∧
      (c.environmentalScore = tenthI k ∨ (k = 0 ∧ c.environmentalScore = NEG0)) := by
  obtain ⟨_, _, k, _, _, _, b, l, u, _⟩ := env_main c h
  have he := eq_tbl l u b
  exact ⟨k, l, u, he.2, he.1, bitsOK_cases b⟩

/-- the lower bound -0.2 is attained: `AV:L/AC:H/Au:M/C:P/I:N/A:N/CR:L` (all other metrics ND) -/
example : (⟨33, 0, 0, 16⟩ : O20).wf = true ∧ (⟨33, 0, 0, 16⟩ : O20).environmentalScore = tenthI (-2) := by
  decide +kernel

end Props.C11v2
