import Cvss.Proofs.Parse2Canon
import Cvss.Proofs.Parse2Read
/-!
# C08 (v2.0): parse then serialise gives the canonical form

`Vector()` is used only through `VecContract` (on a well-formed object it spells `Spec.V2.canonical` of
the object's own values), `Get`/`Set` only through `Contract`.
-/
namespace C08.V2
open Proofs Proofs.Parse2
open Model (Bytes Res)
open Spec (Pair)
open Spec.V2 (metrics Witness G canonical)

/-- the canonical spelling of a grammatical vector is grammatical -/
theorem canonical_grammatical {w : List Pair} (hw : ∃ s, Witness s w) : G (canonical w) := by
  obtain ⟨s, _, hsh, hl⟩ := hw
  exact ⟨canonW w, (canonW_witness hsh hl).1⟩

/-- `canonical` is idempotent: the canonical spelling of (the witness of) a canonical string is that string -/
theorem canonical_idem {w : List Pair} (hw : ∃ s, Witness s w) :
    ∀ w', Witness (canonical w) w' → canonical w' = canonical w := by
  obtain ⟨s, _, hsh, hl⟩ := hw
  intro w' hw'
  have := witness_unique hw' (canonW_witness hsh hl).1
  subst this
  rw [canonical_eq, canonW_idem hsh hl, ← canonical_eq]

/-- the canonical spelling means the same as the original: every metric has the same value -/
theorem canonical_same_values {w : List Pair} (hw : ∃ s, Witness s w) :
    ∀ w', Witness (canonical w) w' → ∀ m ∈ metrics, Spec.valueOf metrics w' m.abv = Spec.valueOf metrics w m.abv := by
  obtain ⟨s, _, hsh, hl⟩ := hw
  intro w' hw'
  have := witness_unique hw' (canonW_witness hsh hl).1
  subst this
  exact (canonW_witness hsh hl).2

section
variable (K : Contract Model.O20 metrics) (VK : VecContract Model.O20 metrics K canonical)

/-- parse then `Vector()` is the canonical spelling of the witness -/
theorem vector_canonical {s : Bytes} {c : Model.O20} (h : parseK K s = .ok c) :
    ∀ w, Witness s w → VK.vector c = canonical w := by
  intro w hw
  rw [VK.vector_eq c (parse_wf K h), canonical_pairs_parsed K h hw]

/-- parse, `Vector()`, parse again: the same object (hence `Vector()` again is the same string) -/
theorem vector_idem {s : Bytes} {c : Model.O20} (h : parseK K s = .ok c) : parseK K (VK.vector c) = .ok c := by
  rw [VK.vector_eq c (parse_wf K h)]
  exact parse_canonical_pairs K (parse_wf K h)

/-- a canonical string comes back unchanged -/
theorem canonical_fixed {s : Bytes} {c : Model.O20} (h : parseK K s = .ok c) :
    ∀ w, Witness s w → s = canonical w → VK.vector c = s := by
  intro w hw hs
  rw [vector_canonical K VK h w hw, ← hs]

/-- about `Model.parse20` itself, for a contract whose zero/`Set` are the generated ones -/
theorem model_vector_canonical (hz : K.zero = Model.O20.zero) (hs : K.set = Model.O20.set)
    {s : Bytes} {c : Model.O20} (h : Model.parse20 s = .ok c) : ∀ w, Witness s w → VK.vector c = canonical w := by
  rw [parse20_eq_parseK K hz hs] at h; exact vector_canonical K VK h

end

/-- the hypotheses are satisfiable and the statement is not vacuous: an all-`ND` environmental group is
    dropped, an explicit temporal `ND` is kept because the group has a defined value (real generated code) -/
example : Model.parse20 (Spec.b "AV:L/AC:H/Au:M/C:N/I:N/A:N/E:ND/RL:OF/RC:ND/CDP:ND/TD:ND/CR:ND/IR:ND/AR:ND")
    = .ok ⟨32, 0, 64, 0⟩ := by decide
example : Model.O20.vector ⟨32, 0, 64, 0⟩ = Spec.b "AV:L/AC:H/Au:M/C:N/I:N/A:N/E:ND/RL:OF/RC:ND" := by decide
example : ∃ w, Witness (Spec.b "AV:L/AC:H/Au:M/C:N/I:N/A:N/E:ND/RL:OF/RC:ND/CDP:ND/TD:ND/CR:ND/IR:ND/AR:ND") w ∧
    canonical w = Spec.b "AV:L/AC:H/Au:M/C:N/I:N/A:N/E:ND/RL:OF/RC:ND" := by
  cases h : Spec.V2.read? (Spec.b "AV:L/AC:H/Au:M/C:N/I:N/A:N/E:ND/RL:OF/RC:ND/CDP:ND/TD:ND/CR:ND/IR:ND/AR:ND") with
  | none => exact absurd h (by decide)
  | some w =>
    refine ⟨w, (Proofs.Parse2.read_iff _ _).mp h, ?_⟩
    have : (Spec.V2.read? (Spec.b "AV:L/AC:H/Au:M/C:N/I:N/A:N/E:ND/RL:OF/RC:ND/CDP:ND/TD:ND/CR:ND/IR:ND/AR:ND")).map canonical
        = some (Spec.b "AV:L/AC:H/Au:M/C:N/I:N/A:N/E:ND/RL:OF/RC:ND") := by decide
    rw [h] at this
    simpa using this

end C08.V2
