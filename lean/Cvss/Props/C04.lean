import Cvss.Proofs.Score4Main
import Cvss.Spec.V4Lemmas
/-!
# C04 — the v4.0 score equals the MacroVector algorithm

For every well-formed `CVSS40` object (≈ 2.67·10¹⁷ metric assignments), `Score` returns the double nearest
to the Spec's score: 0.0 when all six effective impact metrics are `N`, and otherwise the MacroVector lookup
value minus the mean of the proportional severity distances (specification §8.2; EQ1–EQ6 classification,
next-lower MacroVectors, highest severity vectors, depths), computed exactly and rounded half-up to one
decimal. `F64.eq` is IEEE `==`; `F64.tenth k` is the double nearest `k/10`.

The theorem is about the generated model `GenV40.Score` (through `Model.O40.score`); the Spec
(`Spec/V4.lean`) works on the value strings `Get` returns and never looks at the code.

Proof structure (all kernel-checked, no `native_decide`):
* `Proofs/Score4Shape`  `Score_core = ScoreH` (pieces of the generated text; definitional),
* `Proofs/Score4Reads`  `wf` ⇒ code ranges and value strings (from the generated `Get_core`),
* `Proofs/Score4MV`     `macroVector_core` component-wise on effective codes,
* `Proofs/Score4Nest`, `Score4Loops`  the loop nest = last/first good highest severity vector per EQ,
* `Proofs/Score4Groups` per-EQ enumerations of levels, selected vectors and distances against the Spec,
* `Proofs/Score4Tail00…17`, `Score4TailAll`  the float tail on 270 MacroVectors × all distance tuples (52,650),
* `Proofs/Score4Main`   composition.
-/
namespace Props
open Proofs.Score4 Model
open Spec.V4 (orElse)

/-- **C04** -/
theorem C04 (c : O40) (h : c.wf = true) :
    F64.eq c.score (F64.tenth (Spec.V4.scoreK (fun a => (c.get a).1))) = true := by
  have hS : Spec.V4.scoreK (fun a => (c.get a).1) =
      scoreS (orElse (c.get (Spec.b "MAV")).1 (c.get (Spec.b "AV")).1) (orElse (c.get (Spec.b "MAC")).1 (c.get (Spec.b "AC")).1)
        (orElse (c.get (Spec.b "MAT")).1 (c.get (Spec.b "AT")).1) (orElse (c.get (Spec.b "MPR")).1 (c.get (Spec.b "PR")).1)
        (orElse (c.get (Spec.b "MUI")).1 (c.get (Spec.b "UI")).1) (orElse (c.get (Spec.b "MVC")).1 (c.get (Spec.b "VC")).1)
        (orElse (c.get (Spec.b "MVI")).1 (c.get (Spec.b "VI")).1) (orElse (c.get (Spec.b "MVA")).1 (c.get (Spec.b "VA")).1)
        (orElse (c.get (Spec.b "MSC")).1 (c.get (Spec.b "SC")).1) (orElse (c.get (Spec.b "MSI")).1 (c.get (Spec.b "SI")).1)
        (orElse (c.get (Spec.b "MSA")).1 (c.get (Spec.b "SA")).1) (orElse (c.get (Spec.b "E")).1 (Spec.b "A"))
        (orElse (c.get (Spec.b "CR")).1 (Spec.b "H")) (orElse (c.get (Spec.b "IR")).1 (Spec.b "H"))
        (orElse (c.get (Spec.b "AR")).1 (Spec.b "H")) := rfl
  rw [hS, score_eq_core]
  obtain ⟨e0, b0⟩ := wf_AV c h
  obtain ⟨e1, b1⟩ := wf_MAV c h
  obtain ⟨e2, b2⟩ := wf_AC c h
  obtain ⟨e3, b3⟩ := wf_MAC c h
  obtain ⟨e4, b4⟩ := wf_AT c h
  obtain ⟨e5, b5⟩ := wf_MAT c h
  obtain ⟨e6, b6⟩ := wf_PR c h
  obtain ⟨e7, b7⟩ := wf_MPR c h
  obtain ⟨e8, b8⟩ := wf_UI c h
  obtain ⟨e9, b9⟩ := wf_MUI c h
  obtain ⟨e10, b10⟩ := wf_VC c h
  obtain ⟨e11, b11⟩ := wf_MVC c h
  obtain ⟨e12, b12⟩ := wf_SC c h
  obtain ⟨e13, b13⟩ := wf_MSC c h
  obtain ⟨e14, b14⟩ := wf_VI c h
  obtain ⟨e15, b15⟩ := wf_MVI c h
  obtain ⟨e16, b16⟩ := wf_SI c h
  obtain ⟨e17, b17⟩ := wf_MSI c h
  obtain ⟨e18, b18⟩ := wf_VA c h
  obtain ⟨e19, b19⟩ := wf_MVA c h
  obtain ⟨e20, b20⟩ := wf_SA c h
  obtain ⟨e21, b21⟩ := wf_MSA c h
  obtain ⟨e22, b22⟩ := wf_CR c h
  obtain ⟨e23, b23⟩ := wf_IR c h
  obtain ⟨e24, b24⟩ := wf_AR c h
  obtain ⟨e25, b25⟩ := wf_E c h
  rw [e0, e1, e2, e3, e4, e5, e6, e7, e8, e9, e10, e11, e12, e13, e14, e15, e16, e17, e18, e19, e20, e21, e22, e23, e24, e25]
  exact core _ _ _ _ _ _ _ _ _ _ _ _ _ _ _ _ _ _ _ _ _ _ _ _ _ _ b0 b1 b2 b3 b4 b5 b6 b7 b8 b9 b10 b11 b12 b13 b14 b15 b16
    b17 b18 b19 b20 b21 b22 b23 b24 b25

/-- the hypothesis is satisfiable by non-trivial objects:
    `CVSS:4.0/AV:N/AC:L/AT:N/PR:N/UI:N/VC:H/VI:H/VA:H/SC:N/SI:N/SA:N` (bytes 28 22 20 00 …) scores 9.3, and with
    `/MSI:S` added (`u5 = 1`) 10.0 -/
example : (⟨0x28, 0x22, 0x20, 0, 0, 0, 0, 0, 0⟩ : O40).wf = true ∧
    Spec.V4.scoreK (fun a => ((⟨0x28, 0x22, 0x20, 0, 0, 0, 0, 0, 0⟩ : O40).get a).1) = 93 ∧
    (⟨0x28, 0x22, 0x20, 0, 0, 0, 0, 0, 0⟩ : O40).score = F64.tenth 93 ∧
    (⟨0x28, 0x22, 0x20, 0, 0, 1, 0, 0, 0⟩ : O40).wf = true ∧
    Spec.V4.scoreK (fun a => ((⟨0x28, 0x22, 0x20, 0, 0, 1, 0, 0, 0⟩ : O40).get a).1) = 100 := by decide +kernel

/-- the second sanity anchor of the test-suite: `…/VC:N/VI:N/VA:N/SC:H/SI:H/SA:H` scores 7.9, all-`N` impacts 0.0 -/
example : Spec.V4.scoreK (Spec.V4.valOfPairs [("AV","N"),("AC","L"),("AT","N"),("PR","N"),("UI","N"),("VC","N"),("VI","N"),
      ("VA","N"),("SC","H"),("SI","H"),("SA","H")]) = 79 ∧
    Spec.V4.scoreK (Spec.V4.valOfPairs [("AV","N"),("AC","L"),("AT","N"),("PR","N"),("UI","N"),("VC","N"),("VI","N"),
      ("VA","N"),("SC","N"),("SI","N"),("SA","N")]) = 0 := by decide +kernel

end Props

