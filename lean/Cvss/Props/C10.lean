import Cvss.Proofs.Eff30
import Cvss.Proofs.Eff31
import Cvss.Proofs.Eff40
import Cvss.Proofs.EffKeys
/-!
# C10 - environmental scoring depends on every overridable metric only through its effective value

"Environmental scoring (v3 `EnvironmentalScore`, v4 `Score`) depends on each overridable base metric only through
its effective value: the Modified metric when it is defined, the base metric when it is X.  So replacing an X by an
explicit copy of the base value, or changing a base metric that is overridden, never changes that score; v3
`BaseScore`/`TemporalScore` ignore all environmental metrics; an undefined E, RL, RC, CR, IR or AR scores as the
specification's default for it, and v4 supplemental metrics never influence the score."

**Main theorems** (`v30_*`, `v31_*`, `v40_score`): for EVERY pair of well-formed objects, equal key
(`Spec/Effective.lean`: the list of effective value strings) implies equal score.  The scores are compared as
opaque terms; the proofs (`Proofs/Eff30.lean`, `Eff31.lean`, `Eff40.lean`) unfold the generated wrappers and cores:
`score c = core (codes c)` (the core's parameter list is the set of reads), the core uses a base/Modified pair only
as `mod_ base modified` and E/RL/RC/CR/IR/AR only through weight functions (v3) resp. tests (v4) that identify `X`
with the default, and for in-range codes the effective value string determines `mod_ base modified`.
v4: `macroVector_core` additionally tests the raw codes `MSI == S`, `MSA == S` (EQ4); since `S` (Safety) exists
only as a Modified value this is the test "effective SI/SA is S" (`Eff40.tabSIS`, `tabSAS`), so the statement holds.

**Corollaries**, spelled out with `Set` (which may also fail: then the object is unchanged): `*_fill` (Modified `X`
replaced by a copy of the base value; `*_fill_ok`: that `Set` succeeds), `*_overridden`, `*_default`,
`*_base_ignores`, `*_temporal_ignores`, `v40_supplemental`.
-/
namespace C10
open Model
open Spec (b legal)
open EffKeys (upd cval)

/-- the value string an object holds for each metric -/
abbrev val30 (c : O30) : Bytes → Bytes := fun a => (c.get a).1
abbrev val31 (c : O31) : Bytes → Bytes := fun a => (c.get a).1
abbrev val40 (c : O40) : Bytes → Bytes := fun a => (c.get a).1

/-! ## v3.0 -/

/-- **EnvironmentalScore** is a function of the effective values -/
theorem v30_env (c c' : O30) (h : c.wf = true) (h' : c'.wf = true)
    (hk : Spec.V3.envKey (val30 c) = Spec.V3.envKey (val30 c')) : c.environmentalScore = c'.environmentalScore :=
  Eff30.env_eq h h' hk

/-- **BaseScore** is a function of the eight base metrics (no temporal, no environmental metric) -/
theorem v30_base (c c' : O30) (h : c.wf = true) (h' : c'.wf = true)
    (hk : Spec.V3.baseKey (val30 c) = Spec.V3.baseKey (val30 c')) : c.baseScore = c'.baseScore :=
  Eff30.base_eq h h' hk

/-- **TemporalScore** is a function of the base metrics and E, RL, RC with `X` read as the default -/
theorem v30_temporal (c c' : O30) (h : c.wf = true) (h' : c'.wf = true)
    (hk : Spec.V3.temporalKey (val30 c) = Spec.V3.temporalKey (val30 c')) : c.temporalScore = c'.temporalScore :=
  Eff30.temporal_eq h h' hk

/-- the hypotheses are satisfiable by two different objects: `MAV:A` over `AV:N` against `AV:A` with `MAV:X` -/
example : ∃ c c' : O30, c.wf = true ∧ c'.wf = true ∧ c ≠ c' ∧
    Spec.V3.envKey (val30 c) = Spec.V3.envKey (val30 c') ∧ Spec.V3.baseKey (val30 c) ≠ Spec.V3.baseKey (val30 c') :=
  ⟨(O30.zero.set (b "MAV") (b "A")).1, (O30.zero.set (b "AV") (b "A")).1, by decide +kernel⟩

/-- replacing a Modified `X` by an explicit copy of the base value does not change the environmental score … -/
theorem v30_fill (c : O30) (h : c.wf = true) (p : Bytes × Bytes) (hp : p ∈ EffKeys.V3.pairs)
    (hx : (c.get p.2).1 = b "X") :
    (c.set p.2 (c.get p.1).1).1.environmentalScore = c.environmentalScore :=
  EffKeys.score_set Bits30.contract30 O30.environmentalScore Spec.V3.envKey (fun _ _ => Eff30.env_eq) c h _ _
    (fun _ => EffKeys.V3.env_fill (val30 c) p hp hx)

/-- … and that `Set` succeeds (a base value is a legal value of the Modified metric) -/
theorem v30_fill_ok (c : O30) (h : c.wf = true) (p : Bytes × Bytes) (hp : p ∈ EffKeys.V3.pairs) :
    (c.set p.2 (c.get p.1).1).2 = Go.errNil :=
  Bits30.contract30.set_ok c _ _ (EffKeys.legal_sub (EffKeys.V3.pairs_ok p hp).2
    (EffKeys.legal_get Bits30.contract30 Bits30.tableOK c h p.1 (EffKeys.V3.pairs_ok p hp).1))

/-- changing a base metric that is overridden does not change the environmental score -/
theorem v30_overridden (c : O30) (h : c.wf = true) (p : Bytes × Bytes) (hp : p ∈ EffKeys.V3.pairs)
    (hx : (c.get p.2).1 ≠ b "X") (v : Bytes) :
    (c.set p.1 v).1.environmentalScore = c.environmentalScore :=
  EffKeys.score_set Bits30.contract30 O30.environmentalScore Spec.V3.envKey (fun _ _ => Eff30.env_eq) c h _ _
    (fun _ => EffKeys.V3.env_overridden (val30 c) p hp hx v)

/-- an undefined E, RL, RC, CR, IR, AR scores as its default (E:H, RL:U, RC:C, CR/IR/AR:M) -/
theorem v30_default (c : O30) (h : c.wf = true) (p : Bytes × Bytes)
    (hp : p ∈ EffKeys.V3.tempDefaults ++ EffKeys.V3.reqDefaults) (hx : (c.get p.1).1 = b "X") :
    (c.set p.1 p.2).1.environmentalScore = c.environmentalScore ∧ (c.set p.1 p.2).2 = Go.errNil :=
  ⟨EffKeys.score_set Bits30.contract30 O30.environmentalScore Spec.V3.envKey (fun _ _ => Eff30.env_eq) c h _ _
    (fun _ => EffKeys.V3.env_default (val30 c) p hp hx), Bits30.contract30.set_ok c _ _ (EffKeys.V3.defaults_ok p hp)⟩

/-- … also in the temporal score (E, RL, RC) -/
theorem v30_default_temporal (c : O30) (h : c.wf = true) (p : Bytes × Bytes)
    (hp : p ∈ EffKeys.V3.tempDefaults) (hx : (c.get p.1).1 = b "X") :
    (c.set p.1 p.2).1.temporalScore = c.temporalScore :=
  EffKeys.score_set Bits30.contract30 O30.temporalScore Spec.V3.temporalKey (fun _ _ => Eff30.temporal_eq) c h _ _
    (fun _ => EffKeys.V3.temporal_default (val30 c) p hp hx)

/-- `BaseScore` ignores every temporal and environmental metric -/
theorem v30_base_ignores (c : O30) (h : c.wf = true) (a : Bytes)
    (ha : a ∈ EffKeys.V3.tempNames ++ EffKeys.V3.envNames) (v : Bytes) : (c.set a v).1.baseScore = c.baseScore :=
  EffKeys.score_set Bits30.contract30 O30.baseScore Spec.V3.baseKey (fun _ _ => Eff30.base_eq) c h _ _
    (fun _ => EffKeys.V3.base_ignores (val30 c) a ha v)

/-- `TemporalScore` ignores every environmental metric -/
theorem v30_temporal_ignores (c : O30) (h : c.wf = true) (a : Bytes) (ha : a ∈ EffKeys.V3.envNames) (v : Bytes) :
    (c.set a v).1.temporalScore = c.temporalScore :=
  EffKeys.score_set Bits30.contract30 O30.temporalScore Spec.V3.temporalKey (fun _ _ => Eff30.temporal_eq) c h _ _
    (fun _ => EffKeys.V3.temporal_ignores (val30 c) a ha v)

/-! ## v3.1 -/

/-- **EnvironmentalScore** is a function of the effective values -/
theorem v31_env (c c' : O31) (h : c.wf = true) (h' : c'.wf = true)
    (hk : Spec.V3.envKey (val31 c) = Spec.V3.envKey (val31 c')) : c.environmentalScore = c'.environmentalScore :=
  Eff31.env_eq h h' hk

/-- **BaseScore** is a function of the eight base metrics (no temporal, no environmental metric) -/
theorem v31_base (c c' : O31) (h : c.wf = true) (h' : c'.wf = true)
    (hk : Spec.V3.baseKey (val31 c) = Spec.V3.baseKey (val31 c')) : c.baseScore = c'.baseScore :=
  Eff31.base_eq h h' hk

/-- **TemporalScore** is a function of the base metrics and E, RL, RC with `X` read as the default -/
theorem v31_temporal (c c' : O31) (h : c.wf = true) (h' : c'.wf = true)
    (hk : Spec.V3.temporalKey (val31 c) = Spec.V3.temporalKey (val31 c')) : c.temporalScore = c'.temporalScore :=
  Eff31.temporal_eq h h' hk

/-- the hypotheses are satisfiable by two different objects: `MAV:A` over `AV:N` against `AV:A` with `MAV:X` -/
example : ∃ c c' : O31, c.wf = true ∧ c'.wf = true ∧ c ≠ c' ∧
    Spec.V3.envKey (val31 c) = Spec.V3.envKey (val31 c') ∧ Spec.V3.baseKey (val31 c) ≠ Spec.V3.baseKey (val31 c') :=
  ⟨(O31.zero.set (b "MAV") (b "A")).1, (O31.zero.set (b "AV") (b "A")).1, by decide +kernel⟩

/-- replacing a Modified `X` by an explicit copy of the base value does not change the environmental score … -/
theorem v31_fill (c : O31) (h : c.wf = true) (p : Bytes × Bytes) (hp : p ∈ EffKeys.V3.pairs)
    (hx : (c.get p.2).1 = b "X") :
    (c.set p.2 (c.get p.1).1).1.environmentalScore = c.environmentalScore :=
  EffKeys.score_set Bits31.contract31 O31.environmentalScore Spec.V3.envKey (fun _ _ => Eff31.env_eq) c h _ _
    (fun _ => EffKeys.V3.env_fill (val31 c) p hp hx)

/-- … and that `Set` succeeds (a base value is a legal value of the Modified metric) -/
theorem v31_fill_ok (c : O31) (h : c.wf = true) (p : Bytes × Bytes) (hp : p ∈ EffKeys.V3.pairs) :
    (c.set p.2 (c.get p.1).1).2 = Go.errNil :=
  Bits31.contract31.set_ok c _ _ (EffKeys.legal_sub (EffKeys.V3.pairs_ok p hp).2
    (EffKeys.legal_get Bits31.contract31 Bits31.tableOK c h p.1 (EffKeys.V3.pairs_ok p hp).1))

/-- changing a base metric that is overridden does not change the environmental score -/
theorem v31_overridden (c : O31) (h : c.wf = true) (p : Bytes × Bytes) (hp : p ∈ EffKeys.V3.pairs)
    (hx : (c.get p.2).1 ≠ b "X") (v : Bytes) :
    (c.set p.1 v).1.environmentalScore = c.environmentalScore :=
  EffKeys.score_set Bits31.contract31 O31.environmentalScore Spec.V3.envKey (fun _ _ => Eff31.env_eq) c h _ _
    (fun _ => EffKeys.V3.env_overridden (val31 c) p hp hx v)

/-- an undefined E, RL, RC, CR, IR, AR scores as its default (E:H, RL:U, RC:C, CR/IR/AR:M) -/
theorem v31_default (c : O31) (h : c.wf = true) (p : Bytes × Bytes)
    (hp : p ∈ EffKeys.V3.tempDefaults ++ EffKeys.V3.reqDefaults) (hx : (c.get p.1).1 = b "X") :
    (c.set p.1 p.2).1.environmentalScore = c.environmentalScore ∧ (c.set p.1 p.2).2 = Go.errNil :=
  ⟨EffKeys.score_set Bits31.contract31 O31.environmentalScore Spec.V3.envKey (fun _ _ => Eff31.env_eq) c h _ _
    (fun _ => EffKeys.V3.env_default (val31 c) p hp hx), Bits31.contract31.set_ok c _ _ (EffKeys.V3.defaults_ok p hp)⟩

/-- … also in the temporal score (E, RL, RC) -/
theorem v31_default_temporal (c : O31) (h : c.wf = true) (p : Bytes × Bytes)
    (hp : p ∈ EffKeys.V3.tempDefaults) (hx : (c.get p.1).1 = b "X") :
    (c.set p.1 p.2).1.temporalScore = c.temporalScore :=
  EffKeys.score_set Bits31.contract31 O31.temporalScore Spec.V3.temporalKey (fun _ _ => Eff31.temporal_eq) c h _ _
    (fun _ => EffKeys.V3.temporal_default (val31 c) p hp hx)

/-- `BaseScore` ignores every temporal and environmental metric -/
theorem v31_base_ignores (c : O31) (h : c.wf = true) (a : Bytes)
    (ha : a ∈ EffKeys.V3.tempNames ++ EffKeys.V3.envNames) (v : Bytes) : (c.set a v).1.baseScore = c.baseScore :=
  EffKeys.score_set Bits31.contract31 O31.baseScore Spec.V3.baseKey (fun _ _ => Eff31.base_eq) c h _ _
    (fun _ => EffKeys.V3.base_ignores (val31 c) a ha v)

/-- `TemporalScore` ignores every environmental metric -/
theorem v31_temporal_ignores (c : O31) (h : c.wf = true) (a : Bytes) (ha : a ∈ EffKeys.V3.envNames) (v : Bytes) :
    (c.set a v).1.temporalScore = c.temporalScore :=
  EffKeys.score_set Bits31.contract31 O31.temporalScore Spec.V3.temporalKey (fun _ _ => Eff31.temporal_eq) c h _ _
    (fun _ => EffKeys.V3.temporal_ignores (val31 c) a ha v)

/-- the hypotheses of the corollaries are satisfiable, and the `Set`s in question do change the object -/
example : ∃ (c : O31) (p : Bytes × Bytes), c.wf = true ∧ p ∈ EffKeys.V3.pairs ∧ (c.get p.2).1 = b "X" ∧
    (c.set p.2 (c.get p.1).1).1 ≠ c := ⟨(O31.zero.set (b "AV") (b "A")).1, (b "AV", b "MAV"), by decide +kernel⟩
example : ∃ (c : O31) (p : Bytes × Bytes) (v : Bytes), c.wf = true ∧ p ∈ EffKeys.V3.pairs ∧ (c.get p.2).1 ≠ b "X" ∧
    (c.set p.1 v).1 ≠ c := ⟨(O31.zero.set (b "MAV") (b "A")).1, (b "AV", b "MAV"), b "L", by decide +kernel⟩
example : ∃ (c : O31) (p : Bytes × Bytes), c.wf = true ∧ p ∈ EffKeys.V3.tempDefaults ++ EffKeys.V3.reqDefaults ∧
    (c.get p.1).1 = b "X" ∧ (c.set p.1 p.2).1 ≠ c := ⟨O31.zero, (b "CR", b "M"), by decide +kernel⟩
example : ∃ (c : O31) (a v : Bytes), c.wf = true ∧ a ∈ EffKeys.V3.envNames ∧ (c.set a v).1 ≠ c :=
  ⟨O31.zero, b "MS", b "C", by decide +kernel⟩

/-! ## v4.0 -/

/-- **Score** is a function of the effective values (no supplemental metric occurs in the key) -/
theorem v40_score (c c' : O40) (h : c.wf = true) (h' : c'.wf = true)
    (hk : Spec.V4.scoreKey (val40 c) = Spec.V4.scoreKey (val40 c')) : c.score = c'.score :=
  Eff40.score_eq h h' hk

/-- the hypotheses are satisfiable by two different objects: `MSI:S` over `SI:H` against `MSI:S` over `SI:N`, the
    second one with `E:A` spelled out and a supplemental metric set -/
example : ∃ c c' : O40, c.wf = true ∧ c'.wf = true ∧ c ≠ c' ∧
    Spec.V4.scoreKey (val40 c) = Spec.V4.scoreKey (val40 c') :=
  ⟨(O40.zero.set (b "MSI") (b "S")).1,
   ((((O40.zero.set (b "MSI") (b "S")).1.set (b "SI") (b "N")).1.set (b "E") (b "A")).1.set (b "AU") (b "Y")).1,
   by decide +kernel⟩

/-- replacing a Modified `X` by an explicit copy of the base value does not change the score … -/
theorem v40_fill (c : O40) (h : c.wf = true) (p : Bytes × Bytes) (hp : p ∈ EffKeys.V4.pairs)
    (hx : (c.get p.2).1 = b "X") : (c.set p.2 (c.get p.1).1).1.score = c.score :=
  EffKeys.score_set Proofs.B40.contract40 O40.score Spec.V4.scoreKey (fun _ _ => Eff40.score_eq) c h _ _
    (fun _ => EffKeys.V4.score_fill (val40 c) p hp hx)

/-- … and that `Set` succeeds -/
theorem v40_fill_ok (c : O40) (h : c.wf = true) (p : Bytes × Bytes) (hp : p ∈ EffKeys.V4.pairs) :
    (c.set p.2 (c.get p.1).1).2 = Go.errNil :=
  Proofs.B40.contract40.set_ok c _ _ (EffKeys.legal_sub (EffKeys.V4.pairs_ok p hp).2
    (EffKeys.legal_get Proofs.B40.contract40 EffKeys.V4.tableOK c h p.1 (EffKeys.V4.pairs_ok p hp).1))

/-- changing a base metric that is overridden does not change the score -/
theorem v40_overridden (c : O40) (h : c.wf = true) (p : Bytes × Bytes) (hp : p ∈ EffKeys.V4.pairs)
    (hx : (c.get p.2).1 ≠ b "X") (v : Bytes) : (c.set p.1 v).1.score = c.score :=
  EffKeys.score_set Proofs.B40.contract40 O40.score Spec.V4.scoreKey (fun _ _ => Eff40.score_eq) c h _ _
    (fun _ => EffKeys.V4.score_overridden (val40 c) p hp hx v)

/-- an undefined E, CR, IR, AR scores as its default (E:A, CR/IR/AR:H) -/
theorem v40_default (c : O40) (h : c.wf = true) (p : Bytes × Bytes) (hp : p ∈ EffKeys.V4.defaults)
    (hx : (c.get p.1).1 = b "X") : (c.set p.1 p.2).1.score = c.score ∧ (c.set p.1 p.2).2 = Go.errNil :=
  ⟨EffKeys.score_set Proofs.B40.contract40 O40.score Spec.V4.scoreKey (fun _ _ => Eff40.score_eq) c h _ _
    (fun _ => EffKeys.V4.score_default (val40 c) p hp hx),
   Proofs.B40.contract40.set_ok c _ _ (EffKeys.V4.defaults_ok p hp)⟩

/-- supplemental metrics never influence the score -/
theorem v40_supplemental (c : O40) (h : c.wf = true) (a : Bytes) (ha : a ∈ EffKeys.V4.suppNames) (v : Bytes) :
    (c.set a v).1.score = c.score :=
  EffKeys.score_set Proofs.B40.contract40 O40.score Spec.V4.scoreKey (fun _ _ => Eff40.score_eq) c h _ _
    (fun _ => EffKeys.V4.score_ignores (val40 c) a ha v)

/-- the hypotheses of the corollaries are satisfiable, and the `Set`s in question do change the object -/
example : ∃ (c : O40) (p : Bytes × Bytes), c.wf = true ∧ p ∈ EffKeys.V4.pairs ∧ (c.get p.2).1 = b "X" ∧
    (c.set p.2 (c.get p.1).1).1 ≠ c := ⟨(O40.zero.set (b "SI") (b "L")).1, (b "SI", b "MSI"), by decide +kernel⟩
example : ∃ (c : O40) (p : Bytes × Bytes) (v : Bytes), c.wf = true ∧ p ∈ EffKeys.V4.pairs ∧ (c.get p.2).1 ≠ b "X" ∧
    (c.set p.1 v).1 ≠ c := ⟨(O40.zero.set (b "MSA") (b "S")).1, (b "SA", b "MSA"), b "L", by decide +kernel⟩
example : ∃ (c : O40) (p : Bytes × Bytes), c.wf = true ∧ p ∈ EffKeys.V4.defaults ∧
    (c.get p.1).1 = b "X" ∧ (c.set p.1 p.2).1 ≠ c := ⟨O40.zero, (b "E", b "A"), by decide +kernel⟩
example : ∃ (c : O40) (a v : Bytes), c.wf = true ∧ a ∈ EffKeys.V4.suppNames ∧ (c.set a v).1 ≠ c :=
  ⟨O40.zero, b "U", b "Red", by decide +kernel⟩

end C10
