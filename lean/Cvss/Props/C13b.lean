import Cvss.Props.C13
import Cvss.Props.C02
/-!
# C13, second part — `Vector()` of one version is accepted by that version's parser only

From `C02` (the own parser accepts `Vector()` of every well-formed object) and `C13.exclusive`.
-/
namespace C13
open Model

theorem vector20_only (c : O20) (h : c.wf = true) :
    (parse20 c.vector).isOk = true ∧ (parse30 c.vector).isOk = false ∧ (parse31 c.vector).isOk = false ∧ (parse40 c.vector).isOk = false := by
  have ok : (parse20 c.vector).isOk = true := by rw [C02.v20 c h]; rfl
  have e := exclusive c.vector
  refine ⟨ok, ?_, ?_, ?_⟩ <;> (apply Bool.eq_false_iff.mpr; intro h')
  · exact e.1 ⟨ok, h'⟩
  · exact e.2.1 ⟨ok, h'⟩
  · exact e.2.2.1 ⟨ok, h'⟩
theorem vector30_only (c : O30) (h : c.wf = true) :
    (parse30 c.vector).isOk = true ∧ (parse20 c.vector).isOk = false ∧ (parse31 c.vector).isOk = false ∧ (parse40 c.vector).isOk = false := by
  have ok : (parse30 c.vector).isOk = true := by rw [C02.v30 c h]; rfl
  have e := exclusive c.vector
  refine ⟨ok, ?_, ?_, ?_⟩ <;> (apply Bool.eq_false_iff.mpr; intro h')
  · exact e.1 ⟨h', ok⟩
  · exact e.2.2.2.1 ⟨ok, h'⟩
  · exact e.2.2.2.2.1 ⟨ok, h'⟩
theorem vector31_only (c : O31) (h : c.wf = true) :
    (parse31 c.vector).isOk = true ∧ (parse20 c.vector).isOk = false ∧ (parse30 c.vector).isOk = false ∧ (parse40 c.vector).isOk = false := by
  have ok : (parse31 c.vector).isOk = true := by rw [C02.v31 c h]; rfl
  have e := exclusive c.vector
  refine ⟨ok, ?_, ?_, ?_⟩ <;> (apply Bool.eq_false_iff.mpr; intro h')
  · exact e.2.1 ⟨h', ok⟩
  · exact e.2.2.2.1 ⟨h', ok⟩
  · exact e.2.2.2.2.2 ⟨ok, h'⟩
theorem vector40_only (c : O40) (h : c.wf = true) :
    (parse40 c.vector).isOk = true ∧ (parse20 c.vector).isOk = false ∧ (parse30 c.vector).isOk = false ∧ (parse31 c.vector).isOk = false := by
  have ok : (parse40 c.vector).isOk = true := by rw [C02.v40 c h]; rfl
  have e := exclusive c.vector
  refine ⟨ok, ?_, ?_, ?_⟩ <;> (apply Bool.eq_false_iff.mpr; intro h')
  · exact e.2.2.1 ⟨h', ok⟩
  · exact e.2.2.2.2.1 ⟨h', ok⟩
  · exact e.2.2.2.2.2 ⟨h', ok⟩

end C13
