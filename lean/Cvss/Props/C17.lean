import Cvss.Proofs.Vec20
import Cvss.Proofs.Vec30
import Cvss.Proofs.Vec31
import Cvss.Proofs.Vec40
import Cvss.Proofs.Contract
/-!
# C17 — `Vector()` performs exactly one allocation: `len(Vector()) = lenVec()`; and the shape of `Vector()`

For each version (`C17.V20`, `C17.V30`, `C17.V31`, `C17.V40`):
* `length_eq` — **C17**: for every well-formed object (`c.wf = true`) the string built by the generated `Vector`
  has exactly the length the generated `lenVec` pre-sizes the buffer with, so none of the `append`s reallocates.
* `length_eq_of_legal` — the same under a weaker hypothesis: byte-sized fields whose metrics all read as legal
  values; the unused bits may be anything (v2.0: only the six base metrics need to be legal, nothing else).
* `length_formula` — the strongest true statement, for **every byte state**:
  `len(Vector()) + #{metrics reading as an illegal value} = lenVec()` (v2.0: base metrics only; v4.0: `+ 4` on the
  right when `U` reads as an illegal value).
* `length_eq_iff`, `length_le` — hence for byte states C17 holds iff the metrics are legal, and (v2.0, v3.x) the
  buffer is never outgrown; in v4.0 both need `U` to read as a legal value, and
* `not_all_bytes` — C17 is false for arbitrary byte states (concrete witness). In v2.0/v3.x the buffer is then
  over-allocated; in v4.0 it can be **outgrown** (`U` code 5..7 is written as `/U:` but not counted by `lenVec`).

Shape (`C17.vector_eq20 … vector_eq40`): the field `vector_eq` of `Proofs.VecContract`, for any contract `K` whose
`get` is the model's `Get`; it holds for every object, so `K.WF` is not even used. `C17.vecContractxx` packages it.
-/
namespace C17
open Spec Model

namespace V20
/-- **C17 (v2.0)** -/
theorem length_eq (c : O20) (h : c.wf = true) : c.vector.length = c.lenVec := Proofs.Vec20.length_eq_wf c h

theorem length_eq_of_legal (c : O20) (hv : ∀ m ∈ V2.base, (c.get m.abv).1 ∈ m.values) :
    c.vector.length = c.lenVec := Proofs.Vec20.length_eq c hv

/-- every object, no hypothesis at all: the constant 26 of `lenVec` assumes one-letter base values -/
theorem length_formula_all (c : O20) :
    c.vector.length + 6 = c.lenVec + (V2.base.map fun m => ((c.get m.abv).1).length).sum :=
  Proofs.Vec20.length_formula c

theorem length_formula (c : O20) (hb : c.IsBytes) :
    c.vector.length + (V2.base.map fun m => Proofs.Vec.bad m (c.get m.abv).1).sum = c.lenVec :=
  Proofs.Vec20.length_formula_bytes c hb

theorem length_eq_iff (c : O20) (hb : c.IsBytes) :
    c.vector.length = c.lenVec ↔ ∀ m ∈ V2.base, (c.get m.abv).1 ∈ m.values := Proofs.Vec20.length_eq_iff c hb

theorem length_le (c : O20) (hb : c.IsBytes) : c.vector.length ≤ c.lenVec := Proofs.Vec20.length_le c hb

theorem not_all_bytes : ¬ ∀ c : O20, c.IsBytes → c.vector.length = c.lenVec := by
  intro h
  have h1 := h ⟨3, 0, 0, 0⟩ (by unfold O20.IsBytes; decide)
  rw [Proofs.Vec20.length_ne_example.1, Proofs.Vec20.length_ne_example.2] at h1
  exact absurd h1 (by decide)

example : (⟨101, 32, 134, 3⟩ : O20).wf = true := by decide +kernel

end V20

namespace V30
/-- **C17 (v3.0)** -/
theorem length_eq (c : O30) (h : c.wf = true) : c.vector.length = c.lenVec := Proofs.Vec30.length_eq_wf c h

theorem length_eq_of_legal (c : O30) (hb : c.IsBytes) (hv : ∀ m ∈ V3.metrics, (c.get m.abv).1 ∈ m.values) :
    c.vector.length = c.lenVec := Proofs.Vec30.length_eq c hb hv

theorem length_formula (c : O30) (hb : c.IsBytes) :
    c.vector.length + (V3.metrics.map fun m => Proofs.Vec.bad m (c.get m.abv).1).sum = c.lenVec :=
  Proofs.Vec30.length_formula c hb

theorem length_eq_iff (c : O30) (hb : c.IsBytes) :
    c.vector.length = c.lenVec ↔ ∀ m ∈ V3.metrics, (c.get m.abv).1 ∈ m.values := Proofs.Vec30.length_eq_iff c hb

theorem length_le (c : O30) (hb : c.IsBytes) : c.vector.length ≤ c.lenVec := Proofs.Vec30.length_le c hb

theorem not_all_bytes : ¬ ∀ c : O30, c.IsBytes → c.vector.length = c.lenVec := by
  intro h
  have h1 := h ⟨0, 5, 0, 0, 0, 0⟩ (by unfold O30.IsBytes; decide)
  rw [Proofs.Vec30.length_ne_example.1, Proofs.Vec30.length_ne_example.2] at h1
  exact absurd h1 (by decide)

example : (⟨110, 194, 1, 16, 0, 48⟩ : O30).wf = true := by decide +kernel

end V30

namespace V31
/-- **C17 (v3.1)** -/
theorem length_eq (c : O31) (h : c.wf = true) : c.vector.length = c.lenVec := Proofs.Vec31.length_eq_wf c h

theorem length_eq_of_legal (c : O31) (hb : c.IsBytes) (hv : ∀ m ∈ V3.metrics, (c.get m.abv).1 ∈ m.values) :
    c.vector.length = c.lenVec := Proofs.Vec31.length_eq c hb hv

theorem length_formula (c : O31) (hb : c.IsBytes) :
    c.vector.length + (V3.metrics.map fun m => Proofs.Vec.bad m (c.get m.abv).1).sum = c.lenVec :=
  Proofs.Vec31.length_formula c hb

theorem length_eq_iff (c : O31) (hb : c.IsBytes) :
    c.vector.length = c.lenVec ↔ ∀ m ∈ V3.metrics, (c.get m.abv).1 ∈ m.values := Proofs.Vec31.length_eq_iff c hb

theorem length_le (c : O31) (hb : c.IsBytes) : c.vector.length ≤ c.lenVec := Proofs.Vec31.length_le c hb

theorem not_all_bytes : ¬ ∀ c : O31, c.IsBytes → c.vector.length = c.lenVec := by
  intro h
  have h1 := h ⟨0, 5, 0, 0, 0, 0⟩ (by unfold O31.IsBytes; decide)
  rw [Proofs.Vec31.length_ne_example.1, Proofs.Vec31.length_ne_example.2] at h1
  exact absurd h1 (by decide)

example : (⟨110, 194, 1, 16, 0, 48⟩ : O31).wf = true := by decide +kernel

end V31

namespace V40
/-- **C17 (v4.0)** -/
theorem length_eq (c : O40) (h : c.wf = true) : c.vector.length = c.lenVec := Proofs.Vec40.length_eq_wf c h

theorem length_eq_of_legal (c : O40) (hb : c.IsBytes) (hv : ∀ m ∈ V4.metrics, (c.get m.abv).1 ∈ m.values) :
    c.vector.length = c.lenVec := Proofs.Vec40.length_eq c hb hv

theorem length_formula (c : O40) (hb : c.IsBytes) :
    c.vector.length + (V4.metrics.map fun m => Proofs.Vec.bad m (c.get m.abv).1).sum
      = c.lenVec + 4 * Proofs.Vec.bad (Proofs.Vec40.M "U") (c.get (b "U")).1 := Proofs.Vec40.length_formula c hb

theorem length_eq_iff (c : O40) (hb : c.IsBytes) (hU : (c.get (b "U")).1 ∈ (Proofs.Vec40.M "U").values) :
    c.vector.length = c.lenVec ↔ ∀ m ∈ V4.metrics, (c.get m.abv).1 ∈ m.values := Proofs.Vec40.length_eq_iff c hb hU

theorem length_le (c : O40) (hb : c.IsBytes) (hU : (c.get (b "U")).1 ∈ (Proofs.Vec40.M "U").values) :
    c.vector.length ≤ c.lenVec := Proofs.Vec40.length_le c hb hU

/-- for non-well-formed byte states `Vector()` can outgrow the buffer pre-sized by `lenVec()` -/
theorem not_all_bytes : ¬ ∀ c : O40, c.IsBytes → c.vector.length ≤ c.lenVec := by
  intro h
  have h1 := h ⟨0, 0, 0, 0, 0, 0, 0, 1, 64⟩ (by unfold O40.IsBytes; decide)
  rw [Proofs.Vec40.length_gt_example.1, Proofs.Vec40.length_gt_example.2] at h1
  exact absurd h1 (by decide)

example : (⟨86, 88, 40, 0, 64, 1, 1, 1, 0⟩ : O40).wf = true := by decide +kernel
example : (Proofs.Vec40.M "U").values = [b "X", b "Clear", b "Green", b "Amber", b "Red"] := by decide +kernel

end V40

/-! ## Shape of `Vector()` (field `vector_eq` of `Proofs.VecContract`) -/

/-- v2.0: `Vector()` is the Spec canonical form of the object's own values (every object) -/
theorem vector_eq20_raw (c : O20) :
    c.vector = V2.canonical (V2.metrics.map fun m => (m.abv, (c.get m.abv).1)) :=
  Proofs.Vec20.vector_eq c

theorem vector_eq20 (K : Proofs.Contract O20 V2.metrics) (hget : K.get = O20.get) :
    ∀ c, K.WF c → O20.vector c = V2.canonical (K.pairs c) := by
  intro c _
  unfold Proofs.Contract.pairs
  rw [hget]
  exact Proofs.Vec20.vector_eq c

def vecContract20 (K : Proofs.Contract O20 V2.metrics) (hget : K.get = O20.get) :
    Proofs.VecContract O20 V2.metrics K V2.canonical :=
  ⟨O20.vector, vector_eq20 K hget⟩

/-- v3.0: `Vector()` is the Spec canonical form of the object's own values (every object) -/
theorem vector_eq30_raw (c : O30) :
    c.vector = V3.canonical V3.header30 (V3.metrics.map fun m => (m.abv, (c.get m.abv).1)) :=
  Proofs.Vec30.vector_eq c

theorem vector_eq30 (K : Proofs.Contract O30 V3.metrics) (hget : K.get = O30.get) :
    ∀ c, K.WF c → O30.vector c = (V3.canonical V3.header30) (K.pairs c) := by
  intro c _
  unfold Proofs.Contract.pairs
  rw [hget]
  exact Proofs.Vec30.vector_eq c

def vecContract30 (K : Proofs.Contract O30 V3.metrics) (hget : K.get = O30.get) :
    Proofs.VecContract O30 V3.metrics K (V3.canonical V3.header30) :=
  ⟨O30.vector, vector_eq30 K hget⟩

/-- v3.1: `Vector()` is the Spec canonical form of the object's own values (every object) -/
theorem vector_eq31_raw (c : O31) :
    c.vector = V3.canonical V3.header31 (V3.metrics.map fun m => (m.abv, (c.get m.abv).1)) :=
  Proofs.Vec31.vector_eq c

theorem vector_eq31 (K : Proofs.Contract O31 V3.metrics) (hget : K.get = O31.get) :
    ∀ c, K.WF c → O31.vector c = (V3.canonical V3.header31) (K.pairs c) := by
  intro c _
  unfold Proofs.Contract.pairs
  rw [hget]
  exact Proofs.Vec31.vector_eq c

def vecContract31 (K : Proofs.Contract O31 V3.metrics) (hget : K.get = O31.get) :
    Proofs.VecContract O31 V3.metrics K (V3.canonical V3.header31) :=
  ⟨O31.vector, vector_eq31 K hget⟩

/-- v4.0: `Vector()` is the Spec canonical form of the object's own values (every object) -/
theorem vector_eq40_raw (c : O40) :
    c.vector = V4.canonical (V4.metrics.map fun m => (m.abv, (c.get m.abv).1)) :=
  Proofs.Vec40.vector_eq c

theorem vector_eq40 (K : Proofs.Contract O40 V4.metrics) (hget : K.get = O40.get) :
    ∀ c, K.WF c → O40.vector c = V4.canonical (K.pairs c) := by
  intro c _
  unfold Proofs.Contract.pairs
  rw [hget]
  exact Proofs.Vec40.vector_eq c

def vecContract40 (K : Proofs.Contract O40 V4.metrics) (hget : K.get = O40.get) :
    Proofs.VecContract O40 V4.metrics K V4.canonical :=
  ⟨O40.vector, vector_eq40 K hget⟩

end C17

