import Cvss.Proofs.Parse3Read
import Cvss.Proofs.Parse3Inst
/-!
# C06 (v3.0 / v3.1): a parsed vector means what it says

If the parser accepts `s` and returns `c`, then for the (unique) reading `w` of `s` by the *Spec's* grammar,
`Get` on every metric returns what `w` says: the written value, else the not-defined value `X`.
The result is well-formed. Generic in the header and the `Contract`.
-/
namespace C06.V3
open Proofs Proofs.Parse3
open Spec (Bytes Pair valueOf)

variable {O : Type} (K : Contract O Spec.V3.metrics) (hdr : Bytes)

/-- the object the parser returns is the fold of `Set`s over the Spec's reading of the string -/
theorem parsed_is_fold (s : Bytes) (c : O) (h : Model.parse3 (hdr ++ [47]) K.zero K.set s = .ok c)
    (w : List Pair) (hw : Spec.V3.Witness hdr s w) : c = setAll K K.zero w := by
  obtain ⟨hs, hw'⟩ := (witness_iff _ _ _).mp hw
  subst hs
  have := parse3_witness K hdr w hw'
  rw [show hdr ++ [47] = hdr ++ [Spec.SLASH] from rfl, this] at h
  cases h; rfl

/-- **C06** -/
theorem means_what_it_says (s : Bytes) (c : O) (h : Model.parse3 (hdr ++ [47]) K.zero K.set s = .ok c) :
    ∀ w, Spec.V3.Witness hdr s w → ∀ m ∈ Spec.V3.metrics,
      K.get c m.abv = (valueOf Spec.V3.metrics w m.abv, Go.errNil) := by
  intro w hw
  rw [parsed_is_fold K hdr s c h w hw]
  exact get_setAll_zero K w ((witness_iff _ _ _).mp hw).2

/-- … and there is such a reading (so the statement above is never vacuous) -/
theorem has_reading (s : Bytes) (c : O) (h : Model.parse3 (hdr ++ [47]) K.zero K.set s = .ok c) :
    ∃ w, Spec.V3.Witness hdr s w := by
  obtain ⟨w, hw, _⟩ := parse3_sound K hdr s c h
  exact ⟨w, hw⟩

/-- the parser's result is well-formed -/
theorem wf (s : Bytes) (c : O) (h : Model.parse3 (hdr ++ [47]) K.zero K.set s = .ok c) : K.WF c := by
  obtain ⟨w, _, rfl⟩ := parse3_sound K hdr s c h
  exact wf_setAll K w K.zero K.wf_zero

/-- reading: a written pair reads back as written … -/
theorem written (s : Bytes) (c : O) (h : Model.parse3 (hdr ++ [47]) K.zero K.set s = .ok c)
    (w : List Pair) (hw : Spec.V3.Witness hdr s w) (p : Pair) (hp : p ∈ w) : K.get c p.1 = (p.2, Go.errNil) := by
  obtain ⟨m, hm, habv, _⟩ := legal_v3 (hw.2.1 p hp)
  have := means_what_it_says K hdr s c h w hw m hm
  rw [habv] at this
  rw [this]
  have hf : w.find? (fun q => q.1 == p.1) = some p := find?_of_mem_nodup w hw.2.2.1 p hp
  simp [valueOf, hf]

/-- … and an optional metric that is not written reads as its not-defined value -/
theorem unwritten (s : Bytes) (c : O) (h : Model.parse3 (hdr ++ [47]) K.zero K.set s = .ok c)
    (w : List Pair) (hw : Spec.V3.Witness hdr s w) (m : Spec.Metric) (hm : m ∈ Spec.V3.metrics)
    (hn : m.abv ∉ w.map (·.1)) : ∃ u, m.undef = some u ∧ K.get c m.abv = (u, Go.errNil) := by
  rcases tbl_mand_or_undef m hm with ⟨_, hb⟩ | ⟨_, u, hu, _⟩
  · exact absurd (hw.2.2.2 m hb) hn
  · refine ⟨u, hu, ?_⟩
    rw [means_what_it_says K hdr s c h w hw m hm]
    have hf : w.find? (fun q => q.1 == m.abv) = none := by
      rw [List.find?_eq_none]
      intro q hq he
      exact hn (List.mem_map.mpr ⟨q, hq, by simpa using he⟩)
    simp [valueOf, hf, tbl_find_self m hm, hu]

/-- the hypotheses are satisfiable for every contract: a shuffled vector with an explicit `X` is accepted -/
example : ∃ c, Model.parse3 (Spec.V3.header31 ++ [47]) K.zero K.set
    (Spec.b "CVSS:3.1/S:U/C:H/I:H/A:H/AV:N/AC:L/PR:N/UI:N/MAV:X/E:F") = .ok c := by
  have h : Spec.V3.G Spec.V3.header31 (Spec.b "CVSS:3.1/S:U/C:H/I:H/A:H/AV:N/AC:L/PR:N/UI:N/MAV:X/E:F") := by decide
  obtain ⟨w, hs, hw⟩ := h
  rw [hs]
  exact ⟨_, parse3_witness K _ w hw⟩

/-! ## Instances (`Model.parse30` / `Model.parse31`).
**Final instantiation**: supply `contract30` / `contract31`; `hz`, `hs`, `hg` are then `rfl`. -/
section Instances
open Model (O30 O31)
variable (K30 : Contract O30 Spec.V3.metrics) (hz30 : K30.zero = O30.zero) (hs30 : K30.set = O30.set)
  (hg30 : K30.get = O30.get)
variable (K31 : Contract O31 Spec.V3.metrics) (hz31 : K31.zero = O31.zero) (hs31 : K31.set = O31.set)
  (hg31 : K31.get = O31.get)

include hz30 hs30 hg30 in
theorem means_what_it_says_30 (s : Bytes) (c : O30) (h : Model.parse30 s = .ok c) :
    ∀ w, Spec.V3.Witness Spec.V3.header30 s w → ∀ m ∈ Spec.V3.metrics,
      c.get m.abv = (valueOf Spec.V3.metrics w m.abv, Go.errNil) := by
  rw [parse30_eq_K K30 hz30 hs30] at h
  rw [← hg30]; exact means_what_it_says K30 _ s c h

include hz31 hs31 hg31 in
theorem means_what_it_says_31 (s : Bytes) (c : O31) (h : Model.parse31 s = .ok c) :
    ∀ w, Spec.V3.Witness Spec.V3.header31 s w → ∀ m ∈ Spec.V3.metrics,
      c.get m.abv = (valueOf Spec.V3.metrics w m.abv, Go.errNil) := by
  rw [parse31_eq_K K31 hz31 hs31] at h
  rw [← hg31]; exact means_what_it_says K31 _ s c h

include hz30 hs30 in
theorem wf_30 (s : Bytes) (c : O30) (h : Model.parse30 s = .ok c) : K30.WF c := by
  rw [parse30_eq_K K30 hz30 hs30] at h; exact wf K30 _ s c h
include hz31 hs31 in
theorem wf_31 (s : Bytes) (c : O31) (h : Model.parse31 s = .ok c) : K31.WF c := by
  rw [parse31_eq_K K31 hz31 hs31] at h; exact wf K31 _ s c h
end Instances

end C06.V3
