import Cvss.Props.C01v2
import Cvss.Props.C01v3
import Cvss.Props.C01v4
import Cvss.Proofs.Bits20
import Cvss.Proofs.Bits30
import Cvss.Proofs.Bits31
import Cvss.Proofs.Bits40
/-!
# C01 — ParseVector accepts exactly the specification's vector grammar (all four versions, assembled)

The version files prove the statement for the parser model over an arbitrary Get/Set contract; here the contract
is the one proved from the **generated** bit-field code (`Proofs/Bits*.lean`), so the statements are about
`Model.parse20/30/31/40` as they run in the driver: for EVERY byte string `s` (no length bound),
acceptance ⇔ membership in the generative grammar of `Spec/Grammar.lean`, and no input leads to the panic outcome.
The Go-level shape (non-nil object with nil error / nil object with non-nil error) is asserted by the harness on
every call of every stream.
-/
namespace C01
open Model Proofs

theorem v20 (s : Bytes) : (parse20 s).isOk = true ↔ Spec.V2.G s :=
  C01.V2.model_accepts_iff Bits20.contract20 rfl rfl s
theorem v30 (s : Bytes) : (parse30 s).isOk = true ↔ Spec.V3.G Spec.V3.header30 s :=
  C01.V3.accepts_iff_30 Bits30.contract30 rfl rfl s
theorem v31 (s : Bytes) : (parse31 s).isOk = true ↔ Spec.V3.G Spec.V3.header31 s :=
  C01.V3.accepts_iff_31 Bits31.contract31 rfl rfl s
theorem v40 (s : Bytes) : (parse40 s).isOk = true ↔ Spec.V4.G s :=
  C01.V4.accepts_iff_model Proofs.B40.contract40 rfl rfl s

theorem no_panic (s : Bytes) :
    parse20 s ≠ .panic ∧ parse30 s ≠ .panic ∧ parse31 s ≠ .panic ∧ parse40 s ≠ .panic :=
  ⟨C01.V2.model_no_panic s, C01.V3.no_panic_30 s, C01.V3.no_panic_31 s, C01.V4.no_panic_model Proofs.B40.contract40 rfl rfl s⟩

end C01
