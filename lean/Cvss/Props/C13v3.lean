import Cvss.Proofs.Parse3Loop
import Cvss.Proofs.Parse3Inst
/-!
# C13 (v3 part): an accepted string starts with the version's prefix literal

`parse3 header … s` ok ⇒ `header` is a prefix of `s` — for any header and any `Set`. With the generated
constants: `parse30` accepts only strings starting `CVSS:3.0/`, `parse31` only `CVSS:3.1/`, hence never both.
-/
namespace C13.V3
open Proofs Proofs.Parse3
open Spec (Bytes)

theorem ok_prefix {O : Type} (header : Bytes) (zero : O) (set : O → Bytes → Bytes → O × Go.Err) (s : Bytes)
    (h : (Model.parse3 header zero set s).isOk = true) : header <+: s := by
  cases hp : Model.parse3 header zero set s with
  | ok c => exact (parse3_ok_prefix header zero set s c hp).1
  | err e => rw [hp] at h; cases h
  | panic => rw [hp] at h; cases h

/-- the form asked for: with a contract and `hdr ++ "/"` -/
theorem ok_prefix_K {O : Type} (K : Contract O Spec.V3.metrics) (hdr s : Bytes)
    (h : (Model.parse3 (hdr ++ [47]) K.zero K.set s).isOk = true) : (hdr ++ [47]) <+: s :=
  ok_prefix _ _ _ s h

/-- a string not starting with the prefix gets `ErrInvalidCVSSHeader` -/
theorem not_prefix_err {O : Type} (header : Bytes) (zero : O) (set : O → Bytes → Bytes → O × Go.Err) (s : Bytes)
    (h : ¬ header <+: s) : Model.parse3 header zero set s = .err Model.eHeader := by
  have : Model.hasPrefix s header = false := by
    rw [← Bool.not_eq_true, hasPrefix_iff]; exact h
  simp [Model.parse3, this]

/-! ## with the generated constants -/

theorem parse30_prefix (s : Bytes) (h : (Model.parse30 s).isOk = true) : Spec.b "CVSS:3.0/" <+: s := by
  have := ok_prefix _ _ _ s h
  rwa [const_header30] at this

theorem parse31_prefix (s : Bytes) (h : (Model.parse31 s).isOk = true) : Spec.b "CVSS:3.1/" <+: s := by
  have := ok_prefix _ _ _ s h
  rwa [const_header31] at this

/-- no string is accepted by both v3 parsers -/
theorem parse30_parse31_exclusive (s : Bytes) :
    ¬ ((Model.parse30 s).isOk = true ∧ (Model.parse31 s).isOk = true) := by
  rintro ⟨h0, h1⟩
  have := List.prefix_of_prefix_length_le (parse30_prefix s h0) (parse31_prefix s h1) (by decide)
  rw [← List.isPrefixOf_iff_prefix] at this
  revert this
  decide

end C13.V3
