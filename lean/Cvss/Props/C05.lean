import Cvss.Proofs.Score2Main
/-!
# C05 — v2.0 scores equal the guide equations

For every well-formed `CVSS20` object (all 139,968,000 metric assignments) the generated `BaseScore`,
`TemporalScore`, `EnvironmentalScore` return the value of the CVSS v2.0 guide equations (§3.2, `Spec/V2.lean`,
exact rational arithmetic) rounded to one decimal; `Impact` and `Exploitability` return the unrounded sub-scores
up to 10⁻¹². Where an exact value lies precisely half-way between two tenths, either neighbour conforms
(`Spec.V2.Near`); because the roundings are chained, Temporal and Environmental conformance are the relations
`TemporalOK`, `EnvOK` of the Spec.

Reading guide. `val := fun a => (c.get a).1` is the metric assignment of the object as value *strings* (what
`Get` returns). A score is identified by its number of tenths `k : Int`; `tenthI k` (`Proofs/Score2Defs.lean`) is
the double nearest `k/10` (`F64.tenth`, `F64.negTenth`), and `F64.eq` is IEEE `==`, so
`F64.eq score (tenthI k) = true` says "the result is the double nearest `k/10`, up to the sign of zero".
`baseOK/temporalOK/envOK` are the executable oracles of the Spec, `BaseOK/TemporalOK/EnvOK` the relations they
decide (`Proofs/Score2Near.lean`).

Proof: `Proofs/Score2*.lean` — kernel enumeration (`decide +kernel`) of the generated float code against the
exact equations over 729 base tuples, 46,656 recomputed-base tuples, 10,400 temporal-step and 3,120 final-step
inputs, plus unfolding lemmas tying the object methods to those phases.
-/
namespace Props.C05
open Model Spec.V2 Proofs.Score2

/-! ## BaseScore -/

/-- BaseScore is a nearest tenth of the exact base equation -/
theorem base_conforms (c : O20) (h : c.wf = true) :
    ∃ k : Int, baseOK (fun a => (c.get a).1) k = true ∧ F64.eq c.baseScore (tenthI k) = true := by
  obtain ⟨k, n, bk, l, u⟩ := base_main c h
  exact ⟨k, (baseOK_iff _ _).2 n, (eq_tbl (by omega) u bk).1⟩

/-- … stated with the Spec relation -/
theorem base_conforms_rel (c : O20) (h : c.wf = true) :
    ∃ k : Int, BaseOK (fun a => (c.get a).1) k ∧ F64.eq c.baseScore (tenthI k) = true := by
  obtain ⟨k, hk, he⟩ := base_conforms c h
  exact ⟨k, (baseOK_iff _ _).1 hk, he⟩

/-- when the exact value is not a tie, BaseScore is *the* rounded value -/
theorem base_unique (c : O20) (h : c.wf = true) (k : Int) (hk : baseKs (fun a => (c.get a).1) = [k]) :
    F64.eq c.baseScore (tenthI k) = true := by
  obtain ⟨k', hk', he⟩ := base_conforms_rel c h
  have : k' ∈ baseKs (fun a => (c.get a).1) := (mem_baseKs _ _).2 hk'
  rw [hk] at this
  rw [← List.mem_singleton.1 this]; exact he

/-! ## TemporalScore -/

theorem temporal_conforms_rel (c : O20) (h : c.wf = true) :
    ∃ k : Int, TemporalOK (fun a => (c.get a).1) k ∧ F64.eq c.temporalScore (tenthI k) = true := by
  obtain ⟨kb, kt, n1, _, _, _, n2, b2, l2, u2⟩ := temporal_main c h
  exact ⟨kt, ⟨kb, n1, n2⟩, (eq_tbl (by omega) u2 b2).1⟩

/-- TemporalScore is a nearest tenth of the temporal equation applied to a conforming BaseScore -/
theorem temporal_conforms (c : O20) (h : c.wf = true) :
    ∃ k : Int, temporalOK (fun a => (c.get a).1) k = true ∧ F64.eq c.temporalScore (tenthI k) = true := by
  obtain ⟨k, hk, he⟩ := temporal_conforms_rel c h
  exact ⟨k, (temporalOK_iff _ _).2 hk, he⟩

/-- when no tie occurs anywhere in the chain, TemporalScore is *the* value -/
theorem temporal_unique (c : O20) (h : c.wf = true) (k : Int) (hk : temporalKs (fun a => (c.get a).1) = [k]) :
    F64.eq c.temporalScore (tenthI k) = true := by
  obtain ⟨k', hk', he⟩ := temporal_conforms_rel c h
  have : k' ∈ temporalKs (fun a => (c.get a).1) := (mem_temporalKs _ _).2 hk'
  rw [hk] at this
  rw [← List.mem_singleton.1 this]; exact he

/-! ## EnvironmentalScore -/

theorem environmental_conforms_rel (c : O20) (h : c.wf = true) :
    ∃ k : Int, EnvOK (fun a => (c.get a).1) k ∧ F64.eq c.environmentalScore (tenthI k) = true := by
  obtain ⟨kb, kt, k, n1, n2, n3, b3, l3, u3, _⟩ := env_main c h
  exact ⟨k, ⟨kb, kt, n1, n2, n3⟩, (eq_tbl l3 u3 b3).1⟩

/-- EnvironmentalScore is a conforming result of the three chained roundings (it can be negative, down to -0.2) -/
theorem environmental_conforms (c : O20) (h : c.wf = true) :
    ∃ k : Int, envOK (fun a => (c.get a).1) k = true ∧ F64.eq c.environmentalScore (tenthI k) = true := by
  obtain ⟨k, hk, he⟩ := environmental_conforms_rel c h
  exact ⟨k, (envOK_iff _ _).2 hk, he⟩

/-- when no tie occurs anywhere in the chain, EnvironmentalScore is *the* value -/
theorem environmental_unique (c : O20) (h : c.wf = true) (k : Int) (hk : envKs (fun a => (c.get a).1) = [k]) :
    F64.eq c.environmentalScore (tenthI k) = true := by
  obtain ⟨k', hk', he⟩ := environmental_conforms_rel c h
  have : k' ∈ envKs (fun a => (c.get a).1) := (mem_envKs _ _).2 hk'
  rw [hk] at this
  rw [← List.mem_singleton.1 this]; exact he

/-! ## Impact and Exploitability: the unrounded sub-scores, within 10⁻¹² (`toRat` = the rational a double denotes) -/

theorem abs_le_of {d e : Rat} (h1 : d ≤ e) (h2 : -d ≤ e) : d.abs ≤ e := by
  unfold Rat.abs; split <;> assumption

theorem closeTo_elim {fl : Nat} {x : Rat} (h : closeTo fl x = true) :
    F64.isFin fl = true ∧ (toRat fl - x).abs ≤ 1 / 1000000000000 := by
  simp only [closeTo, forceRat_eq, Bool.and_eq_true, decide_eq_true_eq] at h
  exact ⟨h.1, abs_le_of h.2.1 h.2.2⟩

theorem impact_close (c : O20) (h : c.wf = true) :
    F64.isFin c.impact = true ∧ (toRat c.impact - impact (fun a => (c.get a).1)).abs ≤ 1 / 1000000000000 := by
  have r := wf_inRange c h
  have := sub_tbl r.hC r.hI r.hA
  rw [Bool.and_eq_true] at this
  exact closeTo_elim this.1

theorem exploitability_close (c : O20) (h : c.wf = true) :
    F64.isFin c.exploitability = true ∧
    (toRat c.exploitability - exploitability (fun a => (c.get a).1)).abs ≤ 1 / 1000000000000 := by
  have r := wf_inRange c h
  have := sub_tbl r.hAV r.hAC r.hAu
  rw [Bool.and_eq_true] at this
  exact closeTo_elim this.2

/-! ## the weights
Every weight function of the Go code (`accessVector`, `cia`, `ciar`, `exploitability`, …) returns, for every legal
code, the double nearest to the guide's numeric value of the *string* that `Get` prints for that code
(`isNearest`: finite and within half a unit in the last place; `weightsChunk` in `Proofs/Score2Ok.lean` lists all
53 (metric, code) pairs). -/
theorem weights_conform : weightsChunk = true := weights_chunk

/-! ## O1 — negative zero
The Go code returns `-0.0` (bit pattern `NEG0 = 0x8000000000000000`) for some vectors. This violates nothing above
(`F64.eq` is numeric equality) but is recorded so that nobody is surprised. -/

/-- BaseScore is `-0.0` exactly for the zero-impact vectors (C:N/I:N/A:N) with 0.4·Exploitability < 1.5 -/
theorem O1_base (c : O20) (h : c.wf = true) :
    c.baseScore = NEG0 ↔
      (impact (fun a => (c.get a).1) = 0 ∧ 0.4 * exploitability (fun a => (c.get a).1) < 1.5) :=
  base_neg0 c h

/-- TemporalScore is `-0.0` exactly when BaseScore is -/
theorem O1_temporal (c : O20) (h : c.wf = true) : c.temporalScore = NEG0 ↔ c.baseScore = NEG0 :=
  temporal_neg0 c h

/-- EnvironmentalScore can be `-0.0` only if the exact recomputed base is negative and the collateral damage
    weight is 0 (CDP:N or CDP:ND); in particular never for a zero-impact vector (for which BaseScore may be `-0.0`) -/
theorem O1_environmental (c : O20) (h : c.wf = true) (e : c.environmentalScore = NEG0) :
    recomputedBaseExact (fun a => (c.get a).1) < 0 ∧ w (fun a => (c.get a).1) "CDP" = 0 := by
  obtain ⟨kb, _, _, n1, _, _, _, _, _, hz⟩ := env_main c h
  obtain ⟨hk, hw⟩ := hz e
  refine ⟨?_, hw⟩
  have h2 : recomputedBaseExact (valOf c) ≤ (kb : Rat) / 10 + 1 / 20 := n1.2
  have h3 : (kb : Rat) ≤ ((-1 : Int) : Rat) := Rat.intCast_le_intCast.2 (by omega)
  have h4 : ((-1 : Int) : Rat) = -1 := by decide
  rw [h4] at h3
  show recomputedBaseExact (valOf c) < 0
  grind

/-! ## the hypotheses are satisfiable: a concrete object with all three groups set
`AV:N/AC:L/Au:N/C:P/I:P/A:P/E:F/RL:OF/RC:UR/CDP:LM/TD:M/CR:H/IR:L/AR:M` -/
def sample : O20 := ⟨137, 86, 102, 246⟩
example : sample.wf = true := by decide
example : sample.vector = Spec.b "AV:N/AC:L/Au:N/C:P/I:P/A:P/E:F/RL:OF/RC:UR/CDP:LM/TD:M/CR:H/IR:L/AR:M" := by decide
/-- a zero-impact object whose BaseScore is `-0.0`: `AV:L/AC:H/Au:M/C:N/I:N/A:N` -/
def sampleNeg0 : O20 := ⟨32, 0, 0, 0⟩
example : sampleNeg0.wf = true := by decide
example : sampleNeg0.baseScore = NEG0 := by decide +kernel
/-- an object whose EnvironmentalScore is `-0.0`: `AV:L/AC:H/Au:M/C:P/I:N/A:N/CDP:N/TD:N/CR:L/IR:ND/AR:ND` -/
def sampleEnvNeg0 : O20 := ⟨33, 0, 2, 80⟩
example : sampleEnvNeg0.wf = true := by decide
example : sampleEnvNeg0.environmentalScore = NEG0 := by decide +kernel

/-! Ties do occur, and the code picks either neighbour (both conform by the property's wording).
`AV:L/AC:M/Au:S/C:N/I:N/A:P/RC:UC`: BaseScore 1.5, exact temporal value 1.5·0.9 = 1.35 — the code returns 1.4;
`AV:L/AC:M/Au:S/C:N/I:P/A:P/RC:UR`: BaseScore 3.0, exact temporal value 3.0·0.95 = 2.85 — the code returns 2.8.
(Of the 72,900 Base×Temporal assignments 1,818 have a tie in the chain; the code takes the upper tenth in 1,692
and the lower one in 126 of them. No Base equation value is a tie.) -/
def sampleTieUp : O20 := ⟨20, 16, 16, 0⟩
def sampleTieDown : O20 := ⟨20, 80, 32, 0⟩
example : sampleTieUp.wf = true ∧ temporalKs (fun a => (sampleTieUp.get a).1) = [13, 14] ∧
    sampleTieUp.temporalScore = tenthI 14 := by decide +kernel
example : sampleTieDown.wf = true ∧ temporalKs (fun a => (sampleTieDown.get a).1) = [28, 29] ∧
    sampleTieDown.temporalScore = tenthI 28 := by decide +kernel
/-- the hypothesis of the `…_unique` corollaries holds for `sample`: 7.5 / 5.9 / 5.4 -/
example : baseKs (fun a => (sample.get a).1) = [75] ∧ temporalKs (fun a => (sample.get a).1) = [59] ∧
    envKs (fun a => (sample.get a).1) = [54] := by decide +kernel

end Props.C05
