import Cvss.Proofs.NoPanic40Main
import Cvss.Proofs.Score4Reads
/-!
# No panic, CVSS v4.0: `Score` returns normally on every well-formed object

`GenK40` (`Gen/K40.lean`, regenerated from the Go source by `tools/okgen` + the translator on every check) contains
for every function of package 40 that can panic — a `panic(...)` statement, an index expression, or a call of such a
function — a twin `f_ok` that returns `true` exactly when `f` returns normally. For v4.0 these are `lookupMV`
(`panic` on an unknown MacroVector), `index`/`severityDistance` (`panic` when the value is not in the metric's row of
`sevIdx`; index into `sevIdx`), `getDepth`/`getDepthEQ3EQ6` (`panic` on an unknown EQ/level) and the one API method
that calls them, `Score` (which also indexes `highestSeverityVectors[k][eq]` and `highestSeverityVectorsEQ3EQ6[eq3][eq6]`).

**`score_ok`**: for every well-formed `CVSS40` object the twin of `Score` returns `true` — hypothesis exactly
`c.wf = true`. All other exported functions of the package are panic-free by construction (`panic_free`).

Proof structure (all kernel-checked, no `native_decide`, no enumeration of objects):
* `Proofs/NoPanic40Shape`   `Score_ok_core = ScoreOkH` (named pieces of the generated text; definitional, `rfl`),
* `Proofs/NoPanic40Loops`   generic `forRange` lemmas with the verdict in the loop state (`nestK_keeps`), closed forms
  of the verdict after each piece (`preG`: lookups, `okB`: the fourteen severity-distance guards, `depthG`),
* `Proofs/NoPanic40Guards`  by evaluation of the generated tables/twins: the MacroVector of in-range codes is one of the
  270 valid ones; for each of the 270 all `lookupMV_ok` guards (itself and every next-lower one looked up), the four
  table-index guards and the depth guards; `severityDistance_ok` for every value of every metric against every digit
  of every highest severity vector; `index_ok` = membership (generic),
* `Proofs/NoPanic40Main`    composition on raw codes in range; code ranges of well-formed objects from `Proofs/Score4Reads`.
-/
namespace Props.NoPanic40
open Proofs.NoPanic40 Model
open Proofs.Score4 (rAV rMAV rAC rMAC rAT rMAT rPR rMPR rUI rMUI rVC rMVC rSC rMSC rVI rMVI rSI rMSI rVA rMVA rSA rMSA rCR rIR rAR rE
  wf_AV wf_MAV wf_AC wf_MAC wf_AT wf_MAT wf_PR wf_MPR wf_UI wf_MUI wf_VC wf_MVC wf_SC wf_MSC wf_VI wf_MVI wf_SI wf_MSI
  wf_VA wf_MVA wf_SA wf_MSA wf_CR wf_IR wf_AR wf_E)

/-! ## 1. `Score` never panics on a well-formed object -/

/-- the byte-level twin is the core on the decoded field codes -/
theorem Score_ok_eq_core (c : O40) : GenK40.Score_ok c.u0 c.u1 c.u2 c.u3 c.u4 c.u5 c.u6 c.u7 c.u8 =
    GenK40.Score_ok_core (rAV c) (rMAV c) (rAC c) (rMAC c) (rAT c) (rMAT c) (rPR c) (rMPR c) (rUI c) (rMUI c) (rVC c) (rMVC c)
      (rSC c) (rMSC c) (rVI c) (rMVI c) (rSI c) (rMSI c) (rVA c) (rMVA c) (rSA c) (rMSA c) (rCR c) (rIR c) (rAR c) (rE c) := rfl

/-- **`Score` returns normally on every well-formed object**: no `panic` in `lookupMV` (the MacroVector and every
    next-lower MacroVector looked up), `severityDistance`/`index` (every metric value against every digit of every
    highest severity vector the loops visit), `getDepth`/`getDepthEQ3EQ6`, and no index out of range in
    `highestSeverityVectors`, `highestSeverityVectorsEQ3EQ6`, `sevIdx` -/
theorem score_ok (c : O40) (h : c.wf = true) :
    GenK40.Score_ok c.u0 c.u1 c.u2 c.u3 c.u4 c.u5 c.u6 c.u7 c.u8 = true := by
  rw [Score_ok_eq_core]
  exact score_ok_core _ _ _ _ _ _ _ _ _ _ _ _ _ _ _ _ _ _ _ _ _ _ _ _ _ _
    (wf_AV c h).2 (wf_MAV c h).2 (wf_AC c h).2 (wf_MAC c h).2 (wf_AT c h).2 (wf_MAT c h).2 (wf_PR c h).2 (wf_MPR c h).2
    (wf_UI c h).2 (wf_MUI c h).2 (wf_VC c h).2 (wf_MVC c h).2 (wf_SC c h).2 (wf_MSC c h).2 (wf_VI c h).2 (wf_MVI c h).2
    (wf_SI c h).2 (wf_MSI c h).2 (wf_VA c h).2 (wf_MVA c h).2 (wf_SA c h).2 (wf_MSA c h).2 (wf_CR c h).2 (wf_IR c h).2
    (wf_AR c h).2 (wf_E c h).2

/-- the hypothesis is satisfiable by non-trivial objects, e.g.
    `CVSS:4.0/AV:N/AC:L/AT:N/PR:N/UI:N/VC:H/VI:H/VA:H/SC:N/SI:N/SA:N` (bytes 28 22 20 00 …), also with `/MSI:S` (`u5 = 1`);
    and the twin indeed evaluates to `true` on them -/
example : (⟨0x28, 0x22, 0x20, 0, 0, 0, 0, 0, 0⟩ : O40).wf = true ∧ (⟨0x28, 0x22, 0x20, 0, 0, 1, 0, 0, 0⟩ : O40).wf = true ∧
    GenK40.Score_ok 0x28 0x22 0x20 0 0 0 0 0 0 = true ∧ GenK40.Score_ok 0x28 0x22 0x20 0 0 1 0 0 0 = true := by
  decide +kernel

/-! ## 1'. the parts, as separate statements -/

/-- the MacroVector of a well-formed object is one of the 270 valid MacroVectors, and `lookupMV` does not panic on it -/
theorem macroVector_ok (c : O40) (h : c.wf = true) :
    match GenK40.macroVector c.u0 c.u1 c.u2 c.u3 c.u4 c.u5 c.u6 c.u7 c.u8 with
    | (eq1, eq2, eq3, eq4, eq5, eq6) =>
      validMV eq1 eq2 eq3 eq4 eq5 eq6 = true ∧ GenK40.lookupMV_ok eq1 eq2 eq3 eq4 eq5 eq6 = true := by
  have e : GenK40.macroVector c.u0 c.u1 c.u2 c.u3 c.u4 c.u5 c.u6 c.u7 c.u8 =
      GenK40.macroVector_core (rAV c) (rMAV c) (rAC c) (rMAC c) (rAT c) (rMAT c) (rPR c) (rMPR c) (rUI c) (rMUI c) (rVC c) (rMVC c)
        (rSC c) (rMSC c) (rVI c) (rMVI c) (rMSI c) (rSI c) (rVA c) (rMVA c) (rMSA c) (rSA c) (rE c) (rCR c) (rIR c) (rAR c) := rfl
  rw [e, mvK_eq]
  simp only []
  have hav := modLt_elim mod_4_5 (wf_AV c h).2 (wf_MAV c h).2
  have hac := modLt_elim mod_2_3 (wf_AC c h).2 (wf_MAC c h).2
  have hat := modLt_elim mod_2_3 (wf_AT c h).2 (wf_MAT c h).2
  have hpr := modLt_elim mod_3_4 (wf_PR c h).2 (wf_MPR c h).2
  have hui := modLt_elim mod_3_4 (wf_UI c h).2 (wf_MUI c h).2
  have hvc := modLt_elim mod_3_4 (wf_VC c h).2 (wf_MVC c h).2
  have hsc := modLt_elim mod_3_4 (wf_SC c h).2 (wf_MSC c h).2
  have hvi := modLt_elim mod_3_4 (wf_VI c h).2 (wf_MVI c h).2
  have hva := modLt_elim mod_3_4 (wf_VA c h).2 (wf_MVA c h).2
  obtain ⟨b3, b6, bx⟩ := eq36k_lt hvc hvi hva (wf_CR c h).2 (wf_IR c h).2 (wf_AR c h).2
  have b1 := eq1k_lt hav hpr hui
  have b2 := eq2k_lt hac hat
  have b4 := eq4k_lt hsc (wf_MSI c h).2 (wf_SI c h).2 (wf_MSA c h).2 (wf_SA c h).2
  have b5 := eq5k_lt (wf_E c h).2
  have hv : validMV (eq1k (GenK40.mod_ (rAV c) (rMAV c)) (GenK40.mod_ (rPR c) (rMPR c)) (GenK40.mod_ (rUI c) (rMUI c)))
      (eq2k (GenK40.mod_ (rAC c) (rMAC c)) (GenK40.mod_ (rAT c) (rMAT c)))
      (eq3k (GenK40.mod_ (rVC c) (rMVC c)) (GenK40.mod_ (rVI c) (rMVI c)) (GenK40.mod_ (rVA c) (rMVA c)))
      (eq4k (GenK40.mod_ (rSC c) (rMSC c)) (rMSI c) (rSI c) (rMSA c) (rSA c)) (eq5k (rE c))
      (eq6k (GenK40.mod_ (rVC c) (rMVC c)) (GenK40.mod_ (rVI c) (rMVI c)) (GenK40.mod_ (rVA c) (rMVA c)) (rCR c) (rIR c) (rAR c)) = true := by
    unfold validMV
    rw [bx, Proofs.Score4.blt_true b1, Proofs.Score4.blt_true b2, Proofs.Score4.blt_true b3, Proofs.Score4.blt_true b4,
      Proofs.Score4.blt_true b5, Proofs.Score4.blt_true b6]
    rfl
  refine ⟨hv, ?_⟩
  have hp := (mvGuards b1 b2 b3 b4 b5 b6 bx).1
  unfold preG at hp
  simp only [Bool.and_eq_true] at hp
  exact hp.1.1.1.1.1.2

/-- for every valid MacroVector — levels `eq1 < 3, eq2 < 2, eq3 < 3, eq4 < 3, eq5 < 3, eq6 < 2`, not `eq3 = 2 ∧ eq6 = 0` —:
    * `preG`: `lookupMV_ok` of the MacroVector and of every next-lower MacroVector `Score` looks up (under the very
      condition under which it looks it up),
    * `idxG1 … idxG4`: the table-index guards of the four `range` expressions,
    * `depthG`: `getDepth_ok 1 eq1`, `getDepth_ok 2 eq2`, `getDepthEQ3EQ6_ok eq3 eq6`, `getDepth_ok 4 eq4`, `getDepth_ok 5 eq5` -/
theorem valid_macroVector_guards {eq1 eq2 eq3 eq4 eq5 eq6 : Nat} (h : validMV eq1 eq2 eq3 eq4 eq5 eq6 = true) :
    preG true eq1 eq2 eq3 eq4 eq5 eq6 = true ∧ idxG1 eq1 = true ∧ idxG2 eq2 = true ∧ idxG36 eq3 eq6 = true ∧
      idxG4 eq4 = true ∧ depthG true eq1 eq2 eq3 eq4 eq5 eq6 = true := by
  unfold validMV at h
  simp only [Bool.and_eq_true, Bool.not_eq_true'] at h
  obtain ⟨⟨⟨⟨⟨⟨h1, h2⟩, h3⟩, h4⟩, h5⟩, h6⟩, hx⟩ := h
  exact mvGuards (Nat.le_of_ble_eq_true h1) (Nat.le_of_ble_eq_true h2) (Nat.le_of_ble_eq_true h3)
    (Nat.le_of_ble_eq_true h4) (Nat.le_of_ble_eq_true h5) (Nat.le_of_ble_eq_true h6) hx

/-- `severityDistance_ok` (hence `index_ok` twice, and the index into `sevIdx`) for every effective value of every
    metric of a well-formed object against every digit of every highest severity vector of the tables:
    `sev1 x` = all AV/PR/UI values against the digits of `x`, … (definitions in `Proofs/NoPanic40Guards`) -/
theorem severity_guards :
    (∀ eq1 < 3, ∀ x ∈ Go.idx (Go.idx GenK40.tbl_highestSeverityVectors 1) eq1, sev1 x = true) ∧
    (∀ eq2 < 2, ∀ x ∈ Go.idx (Go.idx GenK40.tbl_highestSeverityVectors 2) eq2, sev2 x = true) ∧
    (∀ eq3 < 3, ∀ eq6 < 2, ∀ x ∈ Go.idx (Go.idx GenK40.tbl_highestSeverityVectorsEQ3EQ6 eq3) eq6, sev36 x = true) ∧
    (∀ eq4 < 3, ∀ x ∈ Go.idx (Go.idx GenK40.tbl_highestSeverityVectors 4) eq4, sev4 x = true) :=
  ⟨fun _ h x hx => List.all_eq_true.mp (all1 sev1_all h) x hx,
   fun _ h x hx => List.all_eq_true.mp (all1 sev2_all h) x hx,
   fun _ h3 _ h6 x hx => List.all_eq_true.mp (all1 (all1 sev36_all h3) h6) x hx,
   fun _ h x hx => List.all_eq_true.mp (all1 sev4_all h) x hx⟩

/-! ## 2. the functions that cannot panic at all -/

/-- the functions of package 40 without a twin: no `panic`, no index expression, no call of a function that has one.
    In particular the exported API `(*CVSS40).Get`, `(*CVSS40).Set`, `(CVSS40).Vector`, `(CVSS40).Nomenclature`, `Rating` and
    `(*ErrInvalidMetric).Error` are **panic-free by construction** (on every object, well formed or not), as are the
    internal `get`, `macroVector`, `lenVec`, `mandatory`, `notMandatory`, `validate`, `mod`, `abs`, `roundup`.
    The only API function with a twin is `Score` (`score_ok`). -/
theorem panic_free : GenK40.tbl_okPanicFree =
    [Spec.b "CVSS40.Get", Spec.b "CVSS40.Nomenclature", Spec.b "CVSS40.Set", Spec.b "CVSS40.Vector", Spec.b "CVSS40.get",
     Spec.b "CVSS40.macroVector", Spec.b "ErrInvalidMetric.Error", Spec.b "Rating", Spec.b "abs", Spec.b "lenVec",
     Spec.b "mandatory", Spec.b "mod", Spec.b "notMandatory", Spec.b "roundup", Spec.b "validate"] := by decide

/-! ## 3. not vacuous: the twins do return `false` outside the well-formed states -/

/-- a byte state that is not well formed — `UI` field holding the code 3, which is no `UI` value — on which `Score`
    panics (`index` does not find 3 in `sevIdx[ui]`): the twin returns `false` -/
example : (⟨0x03, 0, 0, 0, 0, 0, 0, 0, 0⟩ : O40).wf = false ∧ GenK40.Score_ok 0x03 0 0 0 0 0 0 0 0 = false := by decide +kernel

/-- an impossible MacroVector (`eq3 = 2` with `eq6 = 0`: no High impact but a High requirement with a High impact),
    an out-of-range level, an out-of-range value and an unknown depth -/
example : GenK40.lookupMV_ok 0 0 2 0 0 0 = false ∧ GenK40.lookupMV_ok 3 0 0 0 0 0 = false ∧
    GenK40.severityDistance_ok 4 3 0 = false ∧ GenK40.severityDistance_ok 15 0 0 = false ∧
    GenK40.index_ok [0, 1, 2] 3 = false ∧ GenK40.getDepth_ok 3 0 = false ∧ GenK40.getDepthEQ3EQ6_ok 0 2 = false := by
  decide +kernel

/-! ## 4. the `GenK40` copies of the ordinary functions are the `GenV40` ones -/

theorem tie_mod : GenK40.mod_ = GenV40.mod_ := rfl
theorem tie_macroVector_core : GenK40.macroVector_core = GenV40.macroVector_core := rfl
theorem tie_macroVector : GenK40.macroVector = GenV40.macroVector := rfl
theorem tie_lookupMV : GenK40.lookupMV = GenV40.lookupMV := rfl
theorem tie_abs : GenK40.abs_ = GenV40.abs_ := rfl
theorem tie_tables : GenK40.tbl_highestSeverityVectors = GenV40.tbl_highestSeverityVectors ∧
    GenK40.tbl_highestSeverityVectorsEQ3EQ6 = GenV40.tbl_highestSeverityVectorsEQ3EQ6 ∧
    GenK40.tbl_sevIdx = GenV40.tbl_sevIdx := ⟨rfl, rfl, rfl⟩
theorem tie_index : GenK40.index_ = GenV40.index_ := rfl
theorem tie_severityDistance : GenK40.severityDistance = GenV40.severityDistance := rfl
theorem tie_getDepth : GenK40.getDepth = GenV40.getDepth := rfl
theorem tie_getDepthEQ3EQ6 : GenK40.getDepthEQ3EQ6 = GenV40.getDepthEQ3EQ6 := rfl

end Props.NoPanic40
