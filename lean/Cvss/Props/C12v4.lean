import Cvss.Props.C11v4
import Cvss.Proofs.Mono4Raw
import Cvss.Proofs.Bits40
/-!
# C12 (v4.0 part) — the score is monotone in every single metric

"Changing a single metric to a more severe value of the specification's ordering (others fixed) never decreases
the score": for every well-formed `CVSS40` object `c`, every metric `a` (all 32) and legal values `v₁`, `v₂` of `a`
such that `v₂` is at least as severe as `v₁` in the order of `Spec/Effective.lean` (`Spec.atLeastAsSevere` with
`Spec.V4.rank`: AV N>A>L>P, AC L>H, AT N>P, PR N>L>H, UI N>P>A, VC/VI/VA/SC/SI/SA H>L>N (MSI/MSA S>H>L>N),
E A>P>U with X as A, CR/IR/AR H>M>L with X as H; a Modified `X` ranks as the current value of its base metric;
supplemental metrics are not ordered, so for them the hypothesis is never satisfied — they do not influence the
score at all, `C10.v40_supplemental`):

    F64.le (c.set a v₁).1.score (c.set a v₂).1.score = true      (IEEE `≤` on the generated float model)

Proof. Both objects are well formed (`contract40.wf_set`) and hold the value strings `upd val a vᵢ`
(`EffKeys.cval_set`, the Get/Set contract). By the bit-level C11 (`Props.C11v4.score_bits`) their scores are
`F64.tenth k₁`, `F64.tenth k₂` with `kᵢ = Spec.V4.scoreK (upd val a vᵢ) ≤ 100`. The Spec is monotone:
`Proofs.Mono4.scoreK_mono` gives `k₁ ≤ k₂` — per raw metric, the effective value of one EQ group moves to an at
least as severe one (small enumerations), the (level, distance) summary of that group moves along a listed
transition (`Mono4Cover`, enumeration of the Spec over all vectors of the group), and along every listed
transition, in every context of the other groups, the exact half-up score does not decrease (`Mono4Tab*`: kernel
evaluation of a primitive form of the Spec's `scoreOf`, itself checked against the readable Spec on all 52,650
points, `Mono4Bridge*`). Finally `k₁ ≤ k₂ ≤ 100 → F64.le (tenth k₁) (tenth k₂)` (`tenth_le`, 5,151 cases).
-/
namespace Props.C12v4
open Model Proofs.Mono4
open Spec (b legal atLeastAsSevere isMetric)
open EffKeys (upd cval)

/-- the one-decimal doubles are ordered like their numerators -/
theorem tenth_le_table : ((List.range 101).all fun k₂ => (List.range (k₂ + 1)).all fun k₁ =>
    F64.le (F64.tenth k₁) (F64.tenth k₂)) = true := by decide +kernel

theorem tenth_le {k₁ k₂ : Nat} (h : k₁ ≤ k₂) (h2 : k₂ ≤ 100) : F64.le (F64.tenth k₁) (F64.tenth k₂) = true :=
  List.all_eq_true.mp (List.all_eq_true.mp tenth_le_table k₂ (List.mem_range.mpr (by omega))) k₁
    (List.mem_range.mpr (by omega))

/-- the value strings of a well-formed object are legal -/
theorem legalV_of_wf (c : O40) (h : c.wf = true) : LegalV (fun a => (c.get a).1) := by
  intro a ha
  exact EffKeys.legal_get Proofs.B40.contract40 EffKeys.V4.tableOK c h a ha

/-- **C12, v4.0** -/
theorem C12v4 (c : O40) (h : c.wf = true) (a v₁ v₂ : Spec.Bytes)
    (h₁ : legal Spec.V4.metrics a v₁ = true) (h₂ : legal Spec.V4.metrics a v₂ = true)
    (hs : atLeastAsSevere Spec.V4.metrics Spec.V4.rank (fun x => (c.get x).1) a v₁ v₂ = true) :
    F64.le (c.set a v₁).1.score (c.set a v₂).1.score = true := by
  have w₁ : (c.set a v₁).1.wf = true := Proofs.B40.contract40.wf_set c a v₁ h
  have w₂ : (c.set a v₂).1.wf = true := Proofs.B40.contract40.wf_set c a v₂ h
  have e₁ : (fun x => ((c.set a v₁).1.get x).1) = upd (fun x => (c.get x).1) a v₁ :=
    EffKeys.cval_set Proofs.B40.contract40 c a v₁ h₁
  have e₂ : (fun x => ((c.set a v₂).1.get x).1) = upd (fun x => (c.get x).1) a v₂ :=
    EffKeys.cval_set Proofs.B40.contract40 c a v₂ h₂
  rw [Props.C11v4.score_bits _ w₁, Props.C11v4.score_bits _ w₂, e₁, e₂]
  exact tenth_le (scoreK_mono _ (legalV_of_wf c h) a v₁ v₂ h₁ h₂ hs) (Spec.V4.scoreK_le_100 _)

/-- the same with the `Set` results named, and the scores compared as numbers `k/10` -/
theorem C12v4_tenths (c : O40) (h : c.wf = true) (a v₁ v₂ : Spec.Bytes)
    (h₁ : legal Spec.V4.metrics a v₁ = true) (h₂ : legal Spec.V4.metrics a v₂ = true)
    (hs : atLeastAsSevere Spec.V4.metrics Spec.V4.rank (fun x => (c.get x).1) a v₁ v₂ = true) :
    ∃ k₁ k₂ : Nat, k₁ ≤ k₂ ∧ k₂ ≤ 100 ∧ (c.set a v₁).1.score = F64.tenth k₁ ∧ (c.set a v₂).1.score = F64.tenth k₂ := by
  have w₁ : (c.set a v₁).1.wf = true := Proofs.B40.contract40.wf_set c a v₁ h
  have w₂ : (c.set a v₂).1.wf = true := Proofs.B40.contract40.wf_set c a v₂ h
  have e₁ : (fun x => ((c.set a v₁).1.get x).1) = upd (fun x => (c.get x).1) a v₁ :=
    EffKeys.cval_set Proofs.B40.contract40 c a v₁ h₁
  have e₂ : (fun x => ((c.set a v₂).1.get x).1) = upd (fun x => (c.get x).1) a v₂ :=
    EffKeys.cval_set Proofs.B40.contract40 c a v₂ h₂
  refine ⟨_, _, ?_, Spec.V4.scoreK_le_100 _, Props.C11v4.score_bits _ w₁, Props.C11v4.score_bits _ w₂⟩
  rw [e₁, e₂]
  exact scoreK_mono _ (legalV_of_wf c h) a v₁ v₂ h₁ h₂ hs

/-- the hypotheses are satisfiable non-trivially: on `CVSS:4.0/AV:N/AC:L/AT:N/PR:N/UI:N/VC:H/VI:H/VA:H/SC:N/SI:N/SA:N`
    (9.3), `MAV:P` (7.0 … ) is less severe than `MAV:X` (= the base value `N`), and `SI:L` less severe than `SI:H`;
    strictly increasing scores in both cases -/
example :
    let c : O40 := ⟨0x28, 0x22, 0x20, 0, 0, 0, 0, 0, 0⟩
    c.wf = true ∧
    atLeastAsSevere Spec.V4.metrics Spec.V4.rank (fun x => (c.get x).1) (b "MAV") (b "P") (b "X") = true ∧
    (c.set (b "MAV") (b "P")).1.score ≠ (c.set (b "MAV") (b "X")).1.score ∧
    atLeastAsSevere Spec.V4.metrics Spec.V4.rank (fun x => (c.get x).1) (b "SI") (b "L") (b "H") = true ∧
    (c.set (b "SI") (b "L")).1.score ≠ (c.set (b "SI") (b "H")).1.score := by decide +kernel

end Props.C12v4

