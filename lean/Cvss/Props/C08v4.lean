import Cvss.Proofs.Parse4Canon
/-!
# C08 (v4.0): parse then serialise gives the canonical form

`Vector()` only through `VK : VecContract` (on a well-formed object it spells `Spec.V4.canonical` of the
object's own values); `Get`/`Set` only through `K`.
-/
namespace C08.V4
open Spec (Pair b canonPairs)
open Model (Bytes O40 Res)
open Proofs.P4

variable (K : Proofs.Contract O40 Spec.V4.metrics)
variable (VK : Proofs.VecContract O40 Spec.V4.metrics K Spec.V4.canonical)

/-- **C08.** the serialisation of the parsed object is the canonical spelling of the witness -/
theorem vector_parse {s : Bytes} {c : O40} (h : parseK K s = .ok c) :
    ∀ w, Spec.V4.Witness s w → VK.vector c = Spec.V4.canonical w := by
  intro w hw
  rw [parseK_witness K hw] at h
  simp only [Res.ok.injEq] at h
  subst h
  have hv := (witness_iff.mp hw).2
  rw [VK.vector_eq _ (wf_setAll K w K.zero K.wf_zero), canonical_eq, canonical_eq, canon_pairs_setAll K hv]

/-- the canonical spelling of a grammatical vector is grammatical -/
theorem canonical_G {s : Bytes} {w : List Pair} (hw : Spec.V4.Witness s w) : Spec.V4.G (Spec.V4.canonical w) :=
  ⟨_, witness_canonical (witness_iff.mp hw).2⟩

/-- … and its reading is the canonical pair list -/
theorem canonical_witness {s : Bytes} {w : List Pair} (hw : Spec.V4.Witness s w) :
    Spec.V4.Witness (Spec.V4.canonical w) (canonPairs Spec.V4.metrics w) :=
  witness_canonical (witness_iff.mp hw).2

/-- idempotence on pair lists (any list) -/
theorem canonPairs_idem (w : List Pair) :
    canonPairs Spec.V4.metrics (canonPairs Spec.V4.metrics w) = canonPairs Spec.V4.metrics w :=
  Proofs.P4.canonPairs_idem w

/-- idempotence on strings: canonicalising the canonical spelling (read with *its* witness) changes nothing -/
theorem canonical_idem {s : Bytes} {w : List Pair} (hw : Spec.V4.Witness s w) :
    ∀ w', Spec.V4.Witness (Spec.V4.canonical w) w' → Spec.V4.canonical w' = Spec.V4.canonical w := by
  intro w' hw'
  rw [witness_unique hw' (canonical_witness hw), canonical_eq, canonical_eq, Proofs.P4.canonPairs_idem]

/-- a string is canonical when it is the canonical spelling of its own reading -/
def IsCanonical (s : Bytes) : Prop := ∃ w, Spec.V4.Witness s w ∧ s = Spec.V4.canonical w

/-- `s` canonical ⇒ parse then serialise returns `s` -/
theorem canonical_fixed {s : Bytes} {c : O40} (hs : IsCanonical s) (h : parseK K s = .ok c) : VK.vector c = s := by
  obtain ⟨w, hw, e⟩ := hs
  rw [vector_parse K VK h w hw, ← e]

/-- the canonical spelling of any grammatical vector is canonical; so parse∘serialise∘parse∘serialise = parse∘serialise -/
theorem canonical_isCanonical {s : Bytes} {w : List Pair} (hw : Spec.V4.Witness s w) : IsCanonical (Spec.V4.canonical w) :=
  ⟨_, canonical_witness hw, by rw [canonical_eq, canonical_eq, Proofs.P4.canonPairs_idem]⟩

theorem reparse {s : Bytes} {c c' : O40} (h : parseK K s = .ok c) (h' : parseK K (VK.vector c) = .ok c') :
    VK.vector c' = VK.vector c := by
  obtain ⟨w, hw, _⟩ := parseK_ok K h
  have e := vector_parse K VK h w hw
  rw [e] at h' ⊢
  exact canonical_fixed K VK (canonical_isCanonical hw) h'

/-- examples: explicit `X` and the optional metrics are normalised; a canonical string is a fixed point -/
example : Spec.V4.canonical [(b "AV", b "N"), (b "AC", b "L"), (b "AT", b "N"), (b "PR", b "N"), (b "UI", b "N"),
    (b "VC", b "H"), (b "VI", b "H"), (b "VA", b "H"), (b "SC", b "N"), (b "SI", b "N"), (b "SA", b "N"),
    (b "E", b "X"), (b "CR", b "H"), (b "MAV", b "X"), (b "U", b "Red")] =
    b "CVSS:4.0/AV:N/AC:L/AT:N/PR:N/UI:N/VC:H/VI:H/VA:H/SC:N/SI:N/SA:N/CR:H/U:Red" := by decide
example : IsCanonical (b "CVSS:4.0/AV:N/AC:L/AT:N/PR:N/UI:N/VC:H/VI:H/VA:H/SC:N/SI:N/SA:N/CR:H/U:Red") :=
  ⟨[(b "AV", b "N"), (b "AC", b "L"), (b "AT", b "N"), (b "PR", b "N"), (b "UI", b "N"),
    (b "VC", b "H"), (b "VI", b "H"), (b "VA", b "H"), (b "SC", b "N"), (b "SI", b "N"), (b "SA", b "N"),
    (b "CR", b "H"), (b "U", b "Red")], (read_iff _ _).mp (by decide), by decide⟩

/-! ## for `Model.parse40` itself, given the contract instances of the generated code -/

theorem vector_parse_model (hz : K.zero = O40.zero) (hs : K.set = O40.set) {s : Bytes} {c : O40}
    (h : Model.parse40 s = .ok c) : ∀ w, Spec.V4.Witness s w → VK.vector c = Spec.V4.canonical w := by
  rw [parse40_eq_parseK K hz hs] at h; exact vector_parse K VK h

end C08.V4
