import Cvss.Proofs.Nomen40
import Cvss.Proofs.Reach40
/-!
# C16 — CVSS v4.0 nomenclature

"Nomenclature returns CVSS-B followed by T if and only if the threat metric E is defined (not X), and by E if and
only if at least one environmental metric (CR, IR, AR or any Modified metric) is defined; base and supplemental
metrics never affect it."

Proved on the generated `GenV40.Nomenclature` for **every byte state** (nine `uint8`s), not only for reachable
objects; the metric groups are the Spec tables `Spec.V4.threat / environmental / base / supplemental`.
-/
namespace C16
open Model (O40)
open Spec (b)
open Proofs.B40

/-- **C16.** The nomenclature string, for every byte state. -/
theorem nomenclature (c : O40) (hc : c.IsBytes) :
    c.nomenclature = b "CVSS-B"
      ++ (if (c.get (b "E")).1 ≠ b "X" then b "T" else [])
      ++ (if ∃ m ∈ Spec.V4.environmental, (c.get m.abv).1 ≠ b "X" then b "E" else []) :=
  nomenclature_eq c hc

/-- `E` is the (only) threat metric of the Spec table, so the first test is "the threat group is defined" -/
theorem threat_is_E : Spec.V4.threat.map (·.abv) = [b "E"] := by decide

/-- … in particular for every object reachable through the API -/
theorem nomenclature_reachable (c : O40) (hr : O40.Reachable c) :
    c.nomenclature = b "CVSS-B"
      ++ (if (c.get (b "E")).1 ≠ b "X" then b "T" else [])
      ++ (if ∃ m ∈ Spec.V4.environmental, (c.get m.abv).1 ≠ b "X" then b "E" else []) :=
  nomenclature_eq c ((wf_iff c).1 ((reachable_iff_wf c).1 hr)).1

/-- only the values of `E` and of the environmental metrics matter … -/
theorem depends_only_on_threat_env (c c' : O40) (hc : c.IsBytes) (hc' : c'.IsBytes)
    (hE : (c.get (b "E")).1 = (c'.get (b "E")).1)
    (hEnv : ∀ m ∈ Spec.V4.environmental, (c.get m.abv).1 = (c'.get m.abv).1) :
    c.nomenclature = c'.nomenclature :=
  nomenclature_congr c c' hc hc' hE hEnv

/-- … so storing anything in a base or supplemental metric never changes it -/
theorem base_supplemental_irrelevant (c : O40) (hc : c.IsBytes) (m : Spec.Metric)
    (hm : m ∈ Spec.V4.base ++ Spec.V4.supplemental) (v : List Nat) :
    (c.set m.abv v).1.nomenclature = c.nomenclature :=
  nomenclature_set_base_supp c hc m hm v

/-- the four groups are all of the metrics (nothing else could matter) -/
theorem groups_cover : Spec.V4.metrics = Spec.V4.base ++ Spec.V4.threat ++ Spec.V4.environmental ++ Spec.V4.supplemental := rfl

/-! Non-trivial instances (each hypothesis is satisfiable, every outcome occurs). -/
def ex (ps : List (String × String)) : O40 := ps.foldl (fun c p => (c.set (b p.1) (b p.2)).1) O40.zero
example : (ex []).nomenclature = b "CVSS-B" := by decide +kernel
example : (ex [("AV", "P"), ("U", "Red"), ("E", "P")]).nomenclature = b "CVSS-BT" := by decide +kernel
example : (ex [("AV", "P"), ("MSA", "S")]).nomenclature = b "CVSS-BE" := by decide +kernel
example : (ex [("CR", "L"), ("E", "U"), ("S", "P")]).nomenclature = b "CVSS-BTE" := by decide +kernel
example : (ex [("MAC", "L"), ("E", "A"), ("MAC", "X"), ("E", "X"), ("VC", "N")]).nomenclature = b "CVSS-B" := by decide +kernel

end C16
