import Cvss.Proofs.Parse2Err
import Cvss.Proofs.Parse2Read
/-!
# C18 (v2.0): the documented error values — partial, with the known finding F3 characterised exactly

Full statement (FALSE, see `Cvss/Findings/C18v2.lean` for the negation on a concrete witness):

    ∀ w d s e, (∃ s0, Witness s0 w) → d.apply .v20 w = some (s, e) → parse s = .err ⟨e.1, e.2⟩

What is missing: exactly the defects with `afterEnv w d = true` — an element inserted (repeated or unknown
abbreviation) after a complete environmental group: `w` ends with `CDP/TD/CR/IR/AR` and the element is
inserted at position `w.length`, or it is a copy of the last element `AR:x` inserted just before it (which
produces the same kind of string: a complete vector followed by one more `AR:…`). For these the
documentation promises `ErrInvalidMetricOrder` (3) and the parser returns `ErrInvalidMetricValue` (4):
`v2_errors_afterEnv`. Every other defect gets the documented value: `v2_errors_partial`
(illegal value ⇒ 4; swapped neighbours / repeated / unknown ⇒ 3; truncation inside a started group ⇒ 2).
-/
namespace C18.V2
open Proofs Proofs.Parse2
open Model (Bytes Res)
open Spec (Defect Pair)
open Spec.V2 (metrics Witness)

/-- the side condition, an explicit decidable predicate -/
def afterEnv (w : List Pair) (d : Defect) : Bool := Proofs.Parse2.afterEnv w d

theorem afterEnv_def (w : List Pair) (d : Defect) :
    afterEnv w d =
      match d with
      | .repeated i j _ =>
        (Spec.abvs Spec.V2.environmental).isSuffixOf (w.map (·.1)) &&
          (j == (w.map (·.1)).length || (i + 1 == (w.map (·.1)).length && j + 1 == (w.map (·.1)).length))
      | .unknown j _ _ => (Spec.abvs Spec.V2.environmental).isSuffixOf (w.map (·.1)) && j == w.length
      | _ => false := by
  cases d <;> rfl

section
variable (K : Contract Model.O20 metrics)

theorem v2_errors_partial (w : List Pair) (d : Defect) (s : Bytes) (e : Spec.ErrVal)
    (hw : ∃ s0, Witness s0 w) (h : d.apply .v20 w = some (s, e)) (hna : afterEnv w d = false) :
    parseK K s = .err ⟨e.1, e.2⟩ :=
  err_partial K hw d s e h hna

/-- the finding, exactly: under `afterEnv` code 3 is promised and code 4 is returned -/
theorem v2_errors_afterEnv (w : List Pair) (d : Defect) (s : Bytes) (e : Spec.ErrVal)
    (hw : ∃ s0, Witness s0 w) (h : d.apply .v20 w = some (s, e)) (ha : afterEnv w d = true) :
    parseK K s = .err ⟨4, []⟩ ∧ e = (3, []) :=
  err_afterEnv K hw d s e h ha

/-- so the documented value is returned **iff** the defect is not after a complete environmental group -/
theorem v2_errors_iff (w : List Pair) (d : Defect) (s : Bytes) (e : Spec.ErrVal)
    (hw : ∃ s0, Witness s0 w) (h : d.apply .v20 w = some (s, e)) :
    parseK K s = .err ⟨e.1, e.2⟩ ↔ afterEnv w d = false := by
  constructor
  · intro hp
    cases ha : afterEnv w d with
    | false => rfl
    | true =>
      obtain ⟨h4, he⟩ := v2_errors_afterEnv K w d s e hw h ha
      rw [h4, he] at hp
      exact absurd hp (by decide)
  · exact v2_errors_partial K w d s e hw h

/-- about `Model.parse20` itself, for a contract whose zero/`Set` are the generated ones -/
theorem model_v2_errors_partial (hz : K.zero = Model.O20.zero) (hs : K.set = Model.O20.set)
    (w : List Pair) (d : Defect) (s : Bytes) (e : Spec.ErrVal)
    (hw : ∃ s0, Witness s0 w) (h : d.apply .v20 w = some (s, e)) (hna : afterEnv w d = false) :
    Model.parse20 s = .err ⟨e.1, e.2⟩ := by
  rw [parse20_eq_parseK K hz hs]; exact v2_errors_partial K w d s e hw h hna

end

/-! The hypotheses are satisfiable, for each kind of defect, and the model (with the real generated `Set`)
returns the documented value on them. -/

def wFull : List Pair := [(Spec.b "AV", Spec.b "L"), (Spec.b "AC", Spec.b "H"), (Spec.b "Au", Spec.b "M"),
  (Spec.b "C", Spec.b "N"), (Spec.b "I", Spec.b "N"), (Spec.b "A", Spec.b "N"),
  (Spec.b "E", Spec.b "F"), (Spec.b "RL", Spec.b "OF"), (Spec.b "RC", Spec.b "C"),
  (Spec.b "CDP", Spec.b "ND"), (Spec.b "TD", Spec.b "ND"), (Spec.b "CR", Spec.b "ND"),
  (Spec.b "IR", Spec.b "ND"), (Spec.b "AR", Spec.b "ND")]

theorem wFull_witness : ∃ s0, Witness s0 wFull :=
  ⟨Spec.b "AV:L/AC:H/Au:M/C:N/I:N/A:N/E:F/RL:OF/RC:C/CDP:ND/TD:ND/CR:ND/IR:ND/AR:ND",
    (Proofs.Parse2.read_iff _ _).mp (by decide)⟩

def good (d : Defect) (code : Nat) : Bool :=
  match d.apply .v20 wFull with
  | some (s, e) => !afterEnv wFull d && e.1 == code && Model.parse20 s == .err ⟨code, []⟩
  | none => false

example : good (.illegalValue 7 (Spec.b "XX")) 4 = true := by decide
example : good (.repeated 0 14 (Spec.b "N")) 3 = false := by decide   -- the finding (afterEnv)
example : good (.repeated 0 13 (Spec.b "N")) 3 = true := by decide    -- 15 elements, before the last
example : good (.repeated 13 5 (Spec.b "H")) 3 = true := by decide
example : good (.unknown 6 (Spec.b "XY") (Spec.b "N")) 3 = true := by decide
example : good (.swap 5) 3 = true := by decide
example : good (.truncate 7) 2 = true := by decide

end C18.V2
