import Cvss.Proofs.Parse2Err
import Cvss.Proofs.Parse2Read
/-!
# C18 (v2.0): the documented error values — partial, with the known finding F3 characterised exactly

Full statement (FALSE, see `Cvss/Findings/C18v2.lean` for the negation on a concrete witness):

    ∀ w d s e, (∃ s0, Witness s0 w) → d.apply .v20 w = some (s, e) → parse s = .err ⟨e.1, e.2⟩

What is missing: exactly the defects with `afterEnv w d = true` — an element inserted (repeated or unknown
abbreviation) after a complete environmental group: `w` ends with `CDP/TD/CR/IR/AR` and the element is
inserted at position `w.length`, or it is a copy of the last element `AR:x` inserted just before it (which
produces the same kind of string: a complete vector followed by one more `AR:…`). For these the
documentation promises `ErrInvalidMetricOrder` (3) and the parser returns `ErrInvalidMetricValue` (4):
`v2_errors_afterEnv`. Every other defect gets the documented value: `v2_errors_partial`
(illegal value ⇒ 4; misplaced — swapped neighbours `swap i` and, in general, `move i j` — / repeated / unknown ⇒ 3;
truncation inside a started group ⇒ 2).

"Misplaced" holds without exception (`moved_metric`, and `afterEnv w (.move i j) = false` always): a moved vector has
as many elements as the original, so the first element the parser refuses is never *after* a complete
environmental group; in particular moving an earlier element behind a complete environmental group, or moving the
last `AR` forward, gives ErrInvalidMetricOrder (examples below). F3 needs an *additional* element.

`Defect.truncate` leaves out two cuts that are inside a group (`n = 9` of base+environmental, `n = 11` of
base+temporal+environmental, because 9 and 11 are complete lengths of *other* shapes); `truncated_inside_group`
proves ErrTooShortVector for every cut whose kept part is not itself a complete vector.
-/
namespace C18.V2
open Proofs Proofs.Parse2
open Model (Bytes Res)
open Spec (Defect Pair)
open Spec.V2 (metrics Witness)

/-- the side condition, an explicit decidable predicate -/
def afterEnv (w : List Pair) (d : Defect) : Bool := Proofs.Parse2.afterEnv w d

theorem afterEnv_def (w : List Pair) (d : Defect) :
    afterEnv w d =
      match d with
      | .repeated i j _ =>
        (Spec.abvs Spec.V2.environmental).isSuffixOf (w.map (·.1)) &&
          (j == (w.map (·.1)).length || (i + 1 == (w.map (·.1)).length && j + 1 == (w.map (·.1)).length))
      | .unknown j _ _ => (Spec.abvs Spec.V2.environmental).isSuffixOf (w.map (·.1)) && j == w.length
      | _ => false := by
  cases d <;> rfl

section
variable (K : Contract Model.O20 metrics)

theorem v2_errors_partial (w : List Pair) (d : Defect) (s : Bytes) (e : Spec.ErrVal)
    (hw : ∃ s0, Witness s0 w) (h : d.apply .v20 w = some (s, e)) (hna : afterEnv w d = false) :
    parseK K s = .err ⟨e.1, e.2⟩ :=
  err_partial K hw d s e h hna

/-- misplaced, general form, no side condition: element `i` taken out and put back at position `j ≠ i` -/
theorem moved_metric (w : List Pair) (hw : ∃ s0, Witness s0 w) {i j : Nat} {p : Pair}
    (hp : w[i]? = some p) (hji : j ≠ i) (hj : j < w.length) :
    parseK K (Spec.joinSlash ((Spec.insertAt (w.eraseIdx i) j p).map Spec.render)) = .err Model.eOrder := by
  have happ : (Defect.move i j).apply .v20 w =
      some (Spec.joinSlash ((Spec.insertAt (w.eraseIdx i) j p).map Spec.render), (3, [])) := by
    simp only [Defect.apply, hp]
    rw [if_neg (by omega)]
    rfl
  exact err_move K hw i j _ _ happ

/-- a `move` is never in the F3 situation -/
theorem afterEnv_move (w : List Pair) (i j : Nat) : afterEnv w (.move i j) = false := rfl

/-- cut short inside a started group, exact form: every proper non-empty prefix whose abbreviations are not
    themselves a complete vector (`Defect.truncate` is the special case `n ∉ {6, 9, 11, 14}`) -/
theorem truncated_inside_group (w : List Pair) (hw : ∃ s0, Witness s0 w) (n : Nat) (h1 : 1 ≤ n) (h2 : n < w.length)
    (h3 : (w.take n).map (·.1) ∉ Spec.V2.shapes) :
    parseK K (Spec.joinSlash ((w.take n).map Spec.render)) = .err Model.eTooShort :=
  err_truncate_exact K hw n h1 h2 h3

/-- the finding, exactly: under `afterEnv` code 3 is promised and code 4 is returned -/
theorem v2_errors_afterEnv (w : List Pair) (d : Defect) (s : Bytes) (e : Spec.ErrVal)
    (hw : ∃ s0, Witness s0 w) (h : d.apply .v20 w = some (s, e)) (ha : afterEnv w d = true) :
    parseK K s = .err ⟨4, []⟩ ∧ e = (3, []) :=
  err_afterEnv K hw d s e h ha

/-- so the documented value is returned **iff** the defect is not after a complete environmental group -/
theorem v2_errors_iff (w : List Pair) (d : Defect) (s : Bytes) (e : Spec.ErrVal)
    (hw : ∃ s0, Witness s0 w) (h : d.apply .v20 w = some (s, e)) :
    parseK K s = .err ⟨e.1, e.2⟩ ↔ afterEnv w d = false := by
  constructor
  · intro hp
    cases ha : afterEnv w d with
    | false => rfl
    | true =>
      obtain ⟨h4, he⟩ := v2_errors_afterEnv K w d s e hw h ha
      rw [h4, he] at hp
      exact absurd hp (by decide)
  · exact v2_errors_partial K w d s e hw h

/-- about `Model.parse20` itself, for a contract whose zero/`Set` are the generated ones -/
theorem model_v2_errors_partial (hz : K.zero = Model.O20.zero) (hs : K.set = Model.O20.set)
    (w : List Pair) (d : Defect) (s : Bytes) (e : Spec.ErrVal)
    (hw : ∃ s0, Witness s0 w) (h : d.apply .v20 w = some (s, e)) (hna : afterEnv w d = false) :
    Model.parse20 s = .err ⟨e.1, e.2⟩ := by
  rw [parse20_eq_parseK K hz hs]; exact v2_errors_partial K w d s e hw h hna

end

/-! The hypotheses are satisfiable, for each kind of defect, and the model (with the real generated `Set`)
returns the documented value on them. -/

def wFull : List Pair := [(Spec.b "AV", Spec.b "L"), (Spec.b "AC", Spec.b "H"), (Spec.b "Au", Spec.b "M"),
  (Spec.b "C", Spec.b "N"), (Spec.b "I", Spec.b "N"), (Spec.b "A", Spec.b "N"),
  (Spec.b "E", Spec.b "F"), (Spec.b "RL", Spec.b "OF"), (Spec.b "RC", Spec.b "C"),
  (Spec.b "CDP", Spec.b "ND"), (Spec.b "TD", Spec.b "ND"), (Spec.b "CR", Spec.b "ND"),
  (Spec.b "IR", Spec.b "ND"), (Spec.b "AR", Spec.b "ND")]

theorem wFull_witness : ∃ s0, Witness s0 wFull :=
  ⟨Spec.b "AV:L/AC:H/Au:M/C:N/I:N/A:N/E:F/RL:OF/RC:C/CDP:ND/TD:ND/CR:ND/IR:ND/AR:ND",
    (Proofs.Parse2.read_iff _ _).mp (by decide)⟩

def good (d : Defect) (code : Nat) : Bool :=
  match d.apply .v20 wFull with
  | some (s, e) => !afterEnv wFull d && e.1 == code && Model.parse20 s == .err ⟨code, []⟩
  | none => false

example : good (.illegalValue 7 (Spec.b "XX")) 4 = true := by decide
example : good (.repeated 0 14 (Spec.b "N")) 3 = false := by decide   -- the finding (afterEnv)
example : good (.repeated 0 13 (Spec.b "N")) 3 = true := by decide    -- 15 elements, before the last
example : good (.repeated 13 5 (Spec.b "H")) 3 = true := by decide
example : good (.unknown 6 (Spec.b "XY") (Spec.b "N")) 3 = true := by decide
example : good (.swap 5) 3 = true := by decide
example : good (.truncate 7) 2 = true := by decide
example : good (.move 0 13) 3 = true := by decide     -- `AV` moved behind the complete environmental group
example : good (.move 13 9) 3 = true := by decide     -- the last `AR` moved to the front of its group
example : good (.move 6 13) 3 = true := by decide     -- temporal `E` moved to the very end
example : good (.move 13 0) 3 = true := by decide
/-- all 14·13 moves of the full vector: applicable, promised 3, returned 3 by the model with the generated `Set` -/
example : ∀ i < 14, ∀ j < 14, j ≠ i → good (.move i j) 3 = true := by decide
example : (Defect.move 0 13).apply .v20 wFull =
    some (Spec.b "AC:H/Au:M/C:N/I:N/A:N/E:F/RL:OF/RC:C/CDP:ND/TD:ND/CR:ND/IR:ND/AR:ND/AV:L", (3, [])) := by decide

/-- base+environmental, cut after 9 elements (inside the environmental group): not covered by `Defect.truncate`,
    covered by `truncated_inside_group`; the model says ErrTooShortVector -/
example : (Defect.truncate 9).apply .v20 (wFull.take 6 ++ wFull.drop 9) = none := by decide
example : Model.parse20 (Spec.b "AV:L/AC:H/Au:M/C:N/I:N/A:N/CDP:ND/TD:ND/CR:ND") = .err Model.eTooShort := by decide
example : ((wFull.take 6 ++ wFull.drop 9).take 9).map (·.1) ∉ Spec.V2.shapes := by decide

end C18.V2
