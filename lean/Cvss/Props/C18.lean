import Cvss.Props.C18v2
import Cvss.Props.C18v3
import Cvss.Props.C18v4
import Cvss.Findings.C18v2
import Cvss.Props.C07
import Cvss.Props.C09
import Cvss.Props.C09v4
import Cvss.Proofs.Bits20
import Cvss.Proofs.Bits30
import Cvss.Proofs.Bits31
import Cvss.Proofs.Bits40
/-!
# C18 — failures are reported with the documented error values (assembled)

For every grammatical vector (witness list `w`), every defect of `Spec/Errors.lean` and every position, the parser
model returns exactly the promised error value (`Spec.Defect.apply`), with the abbreviation payload for the typed
errors. v3.0/v3.1/v4.0: full statement. v2.0: the full statement is FALSE (known finding F3,
`Findings.C18.V2.v2_misplaced_after_env`); `v20_partial` proves it for every defect that is not an insertion after
a complete environmental group, and `C18.V2.v2_errors_afterEnv` shows that in exactly that case the code returns
ErrInvalidMetricValue. Get/Set on an unknown abbreviation and Set with an illegal value: the contract fields
`get_unknown`, `set_unknown`, `set_illegal` of `Bits20.contract20 … Proofs.B40.contract40` (theorems of C07/C09).
-/
namespace C18
open Model Proofs

theorem v30 (w : List Spec.Pair) (d : Spec.Defect) (s : Bytes) (e : Spec.ErrVal)
    (hw : ∃ s0, Spec.V3.Witness Spec.V3.header30 s0 w) (hd : d.apply .v30 w = some (s, e)) : parse30 s = .err ⟨e.1, e.2⟩ :=
  C18.V3.errors_parse30 Bits30.contract30 rfl rfl w d s e hw hd
theorem v31 (w : List Spec.Pair) (d : Spec.Defect) (s : Bytes) (e : Spec.ErrVal)
    (hw : ∃ s0, Spec.V3.Witness Spec.V3.header31 s0 w) (hd : d.apply .v31 w = some (s, e)) : parse31 s = .err ⟨e.1, e.2⟩ :=
  C18.V3.errors_parse31 Bits31.contract31 rfl rfl w d s e hw hd
theorem v40 (w : List Spec.Pair) (d : Spec.Defect) (s : Bytes) (e : Spec.ErrVal)
    (hw : ∃ s0, Spec.V4.Witness s0 w) (hd : d.apply .v40 w = some (s, e)) : parse40 s = .err ⟨e.1, e.2⟩ :=
  C18.V4.errors_model Proofs.B40.contract40 rfl rfl w d s e hw hd
/-- v2.0, partial: every defect except an insertion after a complete environmental group (finding F3) -/
theorem v20_partial (w : List Spec.Pair) (d : Spec.Defect) (s : Bytes) (e : Spec.ErrVal)
    (hw : ∃ s0, Spec.V2.Witness s0 w) (hd : d.apply .v20 w = some (s, e)) (hna : C18.V2.afterEnv w d = false) :
    parse20 s = .err ⟨e.1, e.2⟩ :=
  C18.V2.model_v2_errors_partial Bits20.contract20 rfl rfl w d s e hw hd hna

/-- Get/Set on an unknown abbreviation return `*ErrInvalidMetric{abv}`; Set with an illegal value
    `ErrInvalidMetricValue`; the object is unchanged (all versions, every byte state). -/
theorem getset_errors31 (c : O31) (a v : Bytes) :
    (Spec.isMetric Spec.V3.metrics a = false → c.get a = ([], eInvalidMetric a) ∧ c.set a v = (c, eInvalidMetric a)) ∧
    (Spec.isMetric Spec.V3.metrics a = true → Spec.legal Spec.V3.metrics a v = false → c.set a v = (c, eValue)) :=
  ⟨fun h => ⟨Bits31.contract31.get_unknown c a h, Bits31.contract31.set_unknown c a v h⟩, fun h h' => Bits31.contract31.set_illegal c a v h h'⟩
theorem getset_errors30 (c : O30) (a v : Bytes) :
    (Spec.isMetric Spec.V3.metrics a = false → c.get a = ([], eInvalidMetric a) ∧ c.set a v = (c, eInvalidMetric a)) ∧
    (Spec.isMetric Spec.V3.metrics a = true → Spec.legal Spec.V3.metrics a v = false → c.set a v = (c, eValue)) :=
  ⟨fun h => ⟨Bits30.contract30.get_unknown c a h, Bits30.contract30.set_unknown c a v h⟩, fun h h' => Bits30.contract30.set_illegal c a v h h'⟩
theorem getset_errors20 (c : O20) (a v : Bytes) :
    (Spec.isMetric Spec.V2.metrics a = false → c.get a = ([], eInvalidMetric a) ∧ c.set a v = (c, eInvalidMetric a)) ∧
    (Spec.isMetric Spec.V2.metrics a = true → Spec.legal Spec.V2.metrics a v = false → c.set a v = (c, eValue)) :=
  ⟨fun h => ⟨Bits20.contract20.get_unknown c a h, Bits20.contract20.set_unknown c a v h⟩, fun h h' => Bits20.contract20.set_illegal c a v h h'⟩
theorem getset_errors40 (c : O40) (a v : Bytes) :
    (Spec.isMetric Spec.V4.metrics a = false → c.get a = ([], eInvalidMetric a) ∧ c.set a v = (c, eInvalidMetric a)) ∧
    (Spec.isMetric Spec.V4.metrics a = true → Spec.legal Spec.V4.metrics a v = false → c.set a v = (c, eValue)) :=
  ⟨fun h => ⟨Proofs.B40.contract40.get_unknown c a h, Proofs.B40.contract40.set_unknown c a v h⟩, fun h h' => Proofs.B40.contract40.set_illegal c a v h h'⟩

end C18
