import Cvss.Props.C18v2
import Cvss.Props.C18v3
import Cvss.Props.C18v4
import Cvss.Findings.C18v2
import Cvss.Props.C07
import Cvss.Props.C09
import Cvss.Props.C09v4
import Cvss.Proofs.Bits20
import Cvss.Proofs.Bits30
import Cvss.Proofs.Bits31
import Cvss.Proofs.Bits40
import Cvss.Props.C13v3
import Cvss.Props.C13v4
import Cvss.Proofs.HeaderErr
/-!
# C18 — failures are reported with the documented error values (assembled)

**Header (v3.0, v3.1, v4.0) — unconditional, for every byte string** (`header30`, `header31`, `header40`; no witness,
no generator). The specification's reading (`Spec/Errors.lean`): the header of a vector string is the part before its
first `/` (`Spec.headOf`), and it is wrong or missing iff that part is not exactly `CVSS:3.0` / `CVSS:3.1` / `CVSS:4.0`.
* v3.0 / v3.1: ErrInvalidCVSSHeader ⇔ the string does not begin with `CVSS:3.0/` resp. `CVSS:3.1/` — *including the
  slash* (`header30_iff`, `header31_iff`). So the empty string, another version's header, a lower-case header and
  `CVSS:3.1X/AV:…` (header followed by junk) are all header errors (`header30_spec`, `header31_spec`: every string whose
  `headOf` is not the header), and so is the bare `CVSS:3.1` (right header, nothing behind it: `…_iff_spec`);
* v4.0: ErrInvalidCVSSHeader ⇔ the string is neither exactly `CVSS:4.0` nor begins with `CVSS:4.0/` (`header40_iff`)
  ⇔ its `headOf` is not `CVSS:4.0` (`header40_spec`). `CVSS:4.0` followed directly by junk IS a header error:
  `CVSS:4.0X…`, `CVSS:4.01/…`, `CVSS:4.0AV:N/…` (any byte other than `/` behind the header) yield ErrInvalidCVSSHeader
  whatever follows (`v40_header_then_junk`); the bare `CVSS:4.0` yields ErrTooShortVector (`v40_header_only`), and
  `CVSS:4.0/…` continues with the element loop (order / value / too-short errors, never the header error).
  (Before the repair of finding F4 the v4.0 parser reported header-then-junk as ErrInvalidMetricValue; these
  theorems fail to compile against that source.)
`Spec.Defect.header p` generates, for v3 and v4 alike, every string `p ++ rest` whose `headOf` is not the header.

**Single defects.** For every grammatical vector (witness list `w`), every defect of `Spec/Errors.lean` and every
position, the parser model returns exactly the promised error value (`Spec.Defect.apply`), with the abbreviation
payload for the typed errors. "Misplaced" is `swap i` (two neighbours) and, in general, `move i j` (any element taken
out and put back at any other position); the side conditions under which a defect promises nothing are listed at
the top of `Spec/Errors.lean`. v3.0/v3.1/v4.0: full statement. v2.0: the full statement is FALSE (known finding F3,
`Findings.C18.V2.v2_misplaced_after_env`); `v20_partial` proves it for every defect that is not an insertion after
a complete environmental group, and `C18.V2.v2_errors_afterEnv` shows that in exactly that case the code returns
ErrInvalidMetricValue. A `move` is never in that situation (`v20_move`: no side condition), and the exact form of
"cut short inside a started group" is `C18.V2.truncated_inside_group`. Get/Set on an unknown abbreviation and Set
with an illegal value: the contract fields `get_unknown`, `set_unknown`, `set_illegal` of
`Bits20.contract20 … Proofs.B40.contract40` (theorems of C07/C09).
-/
namespace C18
open Model Proofs

theorem v30 (w : List Spec.Pair) (d : Spec.Defect) (s : Bytes) (e : Spec.ErrVal)
    (hw : ∃ s0, Spec.V3.Witness Spec.V3.header30 s0 w) (hd : d.apply .v30 w = some (s, e)) : parse30 s = .err ⟨e.1, e.2⟩ :=
  C18.V3.errors_parse30 Bits30.contract30 rfl rfl w d s e hw hd
theorem v31 (w : List Spec.Pair) (d : Spec.Defect) (s : Bytes) (e : Spec.ErrVal)
    (hw : ∃ s0, Spec.V3.Witness Spec.V3.header31 s0 w) (hd : d.apply .v31 w = some (s, e)) : parse31 s = .err ⟨e.1, e.2⟩ :=
  C18.V3.errors_parse31 Bits31.contract31 rfl rfl w d s e hw hd
theorem v40 (w : List Spec.Pair) (d : Spec.Defect) (s : Bytes) (e : Spec.ErrVal)
    (hw : ∃ s0, Spec.V4.Witness s0 w) (hd : d.apply .v40 w = some (s, e)) : parse40 s = .err ⟨e.1, e.2⟩ :=
  C18.V4.errors_model Proofs.B40.contract40 rfl rfl w d s e hw hd
/-- v2.0, partial: every defect except an insertion after a complete environmental group (finding F3) -/
theorem v20_partial (w : List Spec.Pair) (d : Spec.Defect) (s : Bytes) (e : Spec.ErrVal)
    (hw : ∃ s0, Spec.V2.Witness s0 w) (hd : d.apply .v20 w = some (s, e)) (hna : C18.V2.afterEnv w d = false) :
    parse20 s = .err ⟨e.1, e.2⟩ :=
  C18.V2.model_v2_errors_partial Bits20.contract20 rfl rfl w d s e hw hd hna

/-- v2.0, misplaced in general (`move`): full strength, F3 cannot occur -/
theorem v20_move (w : List Spec.Pair) (i j : Nat) (s : Bytes) (e : Spec.ErrVal)
    (hw : ∃ s0, Spec.V2.Witness s0 w) (hd : (Spec.Defect.move i j).apply .v20 w = some (s, e)) :
    parse20 s = .err eOrder ∧ e = (3, []) := by
  have h := v20_partial w _ s e hw hd rfl
  obtain ⟨_, _, _, _, _, he⟩ := Proofs.Parse2.move_unfold hd
  subst he
  exact ⟨h, rfl⟩
/-- v4.0, misplaced in general (`move`), spelled out (it is an instance of `v40`) -/
theorem v40_move (w : List Spec.Pair) (i j : Nat) (p : Spec.Pair) (hw : ∃ s0, Spec.V4.Witness s0 w)
    (hp : w[i]? = some p) (hji : j ≠ i) (hj : j < w.length) :
    parse40 (Spec.V4.header ++ Proofs.P4.body (Spec.insertAt (w.eraseIdx i) j p)) = .err eOrder := by
  rw [Proofs.P4.parse40_eq_parseK Proofs.B40.contract40 rfl rfl]
  exact C18.V4.moved_metric _ hw hp hji hj
/-- v2.0, the same -/
theorem v20_move' (w : List Spec.Pair) (i j : Nat) (p : Spec.Pair) (hw : ∃ s0, Spec.V2.Witness s0 w)
    (hp : w[i]? = some p) (hji : j ≠ i) (hj : j < w.length) :
    parse20 (Spec.joinSlash ((Spec.insertAt (w.eraseIdx i) j p).map Spec.render)) = .err eOrder := by
  rw [Proofs.Parse2.parse20_eq_parseK Bits20.contract20 rfl rfl]
  exact C18.V2.moved_metric _ w hw hp hji hj

/-! ## the header clause, for every byte string -/

/-- **v3.0**: every string that does not begin with `CVSS:3.0/` -/
theorem header30 (s : Bytes) (h : ¬ (Spec.V3.header30 ++ [47]) <+: s) : parse30 s = .err eHeader := by
  unfold Model.parse30; rw [Proofs.Parse3.const_header30]; exact C13.V3.not_prefix_err _ _ _ s h
/-- **v3.1**: every string that does not begin with `CVSS:3.1/` -/
theorem header31 (s : Bytes) (h : ¬ (Spec.V3.header31 ++ [47]) <+: s) : parse31 s = .err eHeader := by
  unfold Model.parse31; rw [Proofs.Parse3.const_header31]; exact C13.V3.not_prefix_err _ _ _ s h
/-- **v4.0**: every string that is neither exactly `CVSS:4.0` nor begins with `CVSS:4.0/` -/
theorem header40 (s : Bytes) (h : ¬ (s = Spec.V4.header ∨ (Spec.V4.header ++ [47]) <+: s)) :
    parse40 s = .err eHeader := by
  rw [Proofs.P4.parse40_eq_parseK Proofs.B40.contract40 rfl rfl]; exact (Proofs.HeaderErr.parseK_header_iff _ s).mpr h
/-- in particular every string that does not begin with `CVSS:4.0` at all -/
theorem header40_no_prefix (s : Bytes) (h : ¬ Spec.V4.header <+: s) : parse40 s = .err eHeader := by
  rw [Proofs.P4.parse40_eq_parseK Proofs.B40.contract40 rfl rfl]; exact C13.V4.no_header _ h

/-- and only those: ErrInvalidCVSSHeader ⇔ the prefix is missing -/
theorem header30_iff (s : Bytes) : parse30 s = .err eHeader ↔ ¬ (Spec.V3.header30 ++ [47]) <+: s := by
  rw [Proofs.Parse3.parse30_eq_K Bits30.contract30 rfl rfl]; exact Proofs.HeaderErr.parse3_header_iff _ _ s
theorem header31_iff (s : Bytes) : parse31 s = .err eHeader ↔ ¬ (Spec.V3.header31 ++ [47]) <+: s := by
  rw [Proofs.Parse3.parse31_eq_K Bits31.contract31 rfl rfl]; exact Proofs.HeaderErr.parse3_header_iff _ _ s
/-- v4.0, for EVERY byte string: ErrInvalidCVSSHeader ⇔ ¬ (the string is exactly the header, or continues with `/`) -/
theorem header40_iff (s : Bytes) :
    parse40 s = .err eHeader ↔ ¬ (s = Spec.V4.header ∨ (Spec.V4.header ++ [47]) <+: s) := by
  rw [Proofs.P4.parse40_eq_parseK Proofs.B40.contract40 rfl rfl]; exact Proofs.HeaderErr.parseK_header_iff _ s
/-- the same, spelled "starts with the header and (is exactly the header or continues with `/`)" -/
theorem header40_iff' (s : Bytes) :
    parse40 s = .err eHeader ↔
      ¬ (Spec.V4.header <+: s ∧ (s = Spec.V4.header ∨ ∃ r, s = Spec.V4.header ++ 47 :: r)) := by
  rw [header40_iff]
  refine not_congr ⟨?_, ?_⟩
  · rintro (rfl | ⟨r, rfl⟩)
    · exact ⟨List.prefix_refl _, Or.inl rfl⟩
    · exact ⟨⟨47 :: r, by simp⟩, Or.inr ⟨r, by simp⟩⟩
  · rintro ⟨_, rfl | ⟨r, rfl⟩⟩
    · exact Or.inl rfl
    · exact Or.inr ⟨r, by simp⟩

/-! ### the same in the specification's terms: the header is the part before the first `/` (`Spec.headOf`) -/

/-- **v4.0**, every byte string: ErrInvalidCVSSHeader ⇔ the part before the first `/` is not `CVSS:4.0` -/
theorem header40_spec (s : Bytes) : parse40 s = .err eHeader ↔ Spec.headOf s ≠ Spec.V4.header := by
  rw [header40_iff]; exact not_congr (Spec.headOf_eq_iff s _ (by decide)).symm
/-- **v3.x**, every byte string: the part before the first `/` is not `CVSS:3.x` ⇒ ErrInvalidCVSSHeader … -/
theorem header30_spec (s : Bytes) (h : Spec.headOf s ≠ Spec.V3.header30) : parse30 s = .err eHeader :=
  header30 s (fun hp => h ((Spec.headOf_eq_iff s _ (by decide)).mpr (Or.inr hp)))
theorem header31_spec (s : Bytes) (h : Spec.headOf s ≠ Spec.V3.header31) : parse31 s = .err eHeader :=
  header31 s (fun hp => h ((Spec.headOf_eq_iff s _ (by decide)).mpr (Or.inr hp)))
/-- … and the only other string with that error is the bare header (right header, nothing behind it) -/
theorem header30_iff_spec (s : Bytes) :
    parse30 s = .err eHeader ↔ Spec.headOf s ≠ Spec.V3.header30 ∨ s = Spec.V3.header30 := by
  rw [header30_iff]
  have hi := Spec.headOf_eq_iff s Spec.V3.header30 (by decide)
  constructor
  · intro hn
    by_cases hs : s = Spec.V3.header30
    · exact Or.inr hs
    · exact Or.inl (fun e => (hi.mp e).elim hs hn)
  · rintro (h | rfl) hp
    · exact h (hi.mpr (Or.inr hp))
    · exact absurd (List.IsPrefix.length_le hp) (by decide)
theorem header31_iff_spec (s : Bytes) :
    parse31 s = .err eHeader ↔ Spec.headOf s ≠ Spec.V3.header31 ∨ s = Spec.V3.header31 := by
  rw [header31_iff]
  have hi := Spec.headOf_eq_iff s Spec.V3.header31 (by decide)
  constructor
  · intro hn
    by_cases hs : s = Spec.V3.header31
    · exact Or.inr hs
    · exact Or.inl (fun e => (hi.mp e).elim hs hn)
  · rintro (h | rfl) hp
    · exact h (hi.mpr (Or.inr hp))
    · exact absurd (List.IsPrefix.length_le hp) (by decide)

/-- v4.0: the header followed directly by a byte other than `/` is ErrInvalidCVSSHeader, whatever follows -/
theorem v40_header_then_junk (c : Nat) (r : Bytes) (hc : c ≠ 47) :
    parse40 (Spec.V4.header ++ c :: r) = .err eHeader := by
  rw [Proofs.P4.parse40_eq_parseK Proofs.B40.contract40 rfl rfl, Proofs.P4.parseK_header_append]
  exact if_neg hc
/-- v4.0: the bare header is ErrTooShortVector -/
theorem v40_header_only : parse40 Spec.V4.header = .err eTooShort := by decide

/-- the headers, as bytes -/
example : Spec.V3.header30 ++ [47] = Spec.b "CVSS:3.0/" ∧ Spec.V3.header31 ++ [47] = Spec.b "CVSS:3.1/" ∧
    Spec.V4.header = Spec.b "CVSS:4.0" ∧ Spec.V4.header ++ [47] = Spec.b "CVSS:4.0/" := by decide
example : Spec.headOf (Spec.b "CVSS:4.01/AV:N") = Spec.b "CVSS:4.01" ∧ Spec.headOf (Spec.b "CVSS:4.0") = Spec.b "CVSS:4.0" ∧
    Spec.headOf (Spec.b "/AV:N") = [] ∧ Spec.headOf (Spec.b "CVSS:4.0/AV:N/AC:L") = Spec.b "CVSS:4.0" := by decide
/-- header followed by junk: a header error in v3, and the generator `Defect.header` produces it … -/
example : parse31 (Spec.b "CVSS:3.1X/AV:N/AC:L/PR:N/UI:N/S:U/C:H/I:H/A:H") = .err eHeader :=
  header31 _ (by rw [← List.isPrefixOf_iff_prefix]; decide)
example : (Spec.Defect.header (Spec.b "CVSS:3.1X")).apply .v31 C18.V3.w₀ =
    some (Spec.b "CVSS:3.1X/AV:N/AC:L/PR:N/UI:N/S:U/C:H/I:H/A:H/E:F", (1, [])) := by decide
/-- … the bare header and the missing header too … -/
example : parse31 (Spec.b "CVSS:3.1") = .err eHeader := header31 _ (by rw [← List.isPrefixOf_iff_prefix]; decide)
example : parse30 [] = .err eHeader := header30 _ (by rw [← List.isPrefixOf_iff_prefix]; decide)
example : parse30 (Spec.b "CVSS:3.1/AV:N/AC:L/PR:N/UI:N/S:U/C:H/I:H/A:H") = .err eHeader :=
  header30 _ (by rw [← List.isPrefixOf_iff_prefix]; decide)
/-- … and in v4.0 as well (finding F4, repaired): junk byte, a longer version number, a missing separator -/
example : parse40 (Spec.b "CVSS:4.0X/AV:N/AC:L/AT:N/PR:N/UI:N/VC:H/VI:H/VA:H/SC:N/SI:N/SA:N") = .err eHeader :=
  v40_header_then_junk 88 _ (by decide)
example : parse40 (Spec.b "CVSS:4.01/AV:N/AC:L/AT:N/PR:N/UI:N/VC:H/VI:H/VA:H/SC:N/SI:N/SA:N") = .err eHeader :=
  v40_header_then_junk 49 _ (by decide)
example : parse40 (Spec.b "CVSS:4.0AV:N/AC:L/AT:N/PR:N/UI:N/VC:H/VI:H/VA:H/SC:N/SI:N/SA:N") = .err eHeader :=
  v40_header_then_junk 65 _ (by decide)
example : (Spec.Defect.header (Spec.b "CVSS:4.0X")).apply .v40 C18.V4.w0 =
    some (Spec.b "CVSS:4.0X/AV:N/AC:L/AT:N/PR:N/UI:N/VC:H/VI:H/VA:H/SC:N/SI:N/SA:N/E:A/CR:H/U:Red", (1, [])) := by decide
/-- the right header put back is no defect; the right header plus a complete element is not a *header* defect -/
example : (Spec.Defect.header (Spec.b "CVSS:4.0")).apply .v40 C18.V4.w0 = none ∧
    (Spec.Defect.header (Spec.b "CVSS:4.0/XX:Y")).apply .v40 C18.V4.w0 = none ∧
    (Spec.Defect.header (Spec.b "CVSS:3.1")).apply .v31 C18.V3.w₀ = none := by decide
example : parse40 (Spec.b "CVSS:4.1/AV:N/AC:L/AT:N/PR:N/UI:N/VC:H/VI:H/VA:H/SC:N/SI:N/SA:N") = .err eHeader :=
  header40_no_prefix _ (by rw [← List.isPrefixOf_iff_prefix]; decide)
example : parse40 (Spec.b "CVSS:4.0/AV:N/AC:L/AT:N/PR:N/UI:N/VC:H/VI:H/VA:H/SC:N/SI:N/SA:N") ≠ .err eHeader :=
  fun h => (header40_iff _).mp h (Or.inr (by rw [← List.isPrefixOf_iff_prefix]; decide))

/-- Get/Set on an unknown abbreviation return `*ErrInvalidMetric{abv}`; Set with an illegal value
    `ErrInvalidMetricValue`; the object is unchanged (all versions, every byte state). -/
theorem getset_errors31 (c : O31) (a v : Bytes) :
    (Spec.isMetric Spec.V3.metrics a = false → c.get a = ([], eInvalidMetric a) ∧ c.set a v = (c, eInvalidMetric a)) ∧
    (Spec.isMetric Spec.V3.metrics a = true → Spec.legal Spec.V3.metrics a v = false → c.set a v = (c, eValue)) :=
  ⟨fun h => ⟨Bits31.contract31.get_unknown c a h, Bits31.contract31.set_unknown c a v h⟩, fun h h' => Bits31.contract31.set_illegal c a v h h'⟩
theorem getset_errors30 (c : O30) (a v : Bytes) :
    (Spec.isMetric Spec.V3.metrics a = false → c.get a = ([], eInvalidMetric a) ∧ c.set a v = (c, eInvalidMetric a)) ∧
    (Spec.isMetric Spec.V3.metrics a = true → Spec.legal Spec.V3.metrics a v = false → c.set a v = (c, eValue)) :=
  ⟨fun h => ⟨Bits30.contract30.get_unknown c a h, Bits30.contract30.set_unknown c a v h⟩, fun h h' => Bits30.contract30.set_illegal c a v h h'⟩
theorem getset_errors20 (c : O20) (a v : Bytes) :
    (Spec.isMetric Spec.V2.metrics a = false → c.get a = ([], eInvalidMetric a) ∧ c.set a v = (c, eInvalidMetric a)) ∧
    (Spec.isMetric Spec.V2.metrics a = true → Spec.legal Spec.V2.metrics a v = false → c.set a v = (c, eValue)) :=
  ⟨fun h => ⟨Bits20.contract20.get_unknown c a h, Bits20.contract20.set_unknown c a v h⟩, fun h h' => Bits20.contract20.set_illegal c a v h h'⟩
theorem getset_errors40 (c : O40) (a v : Bytes) :
    (Spec.isMetric Spec.V4.metrics a = false → c.get a = ([], eInvalidMetric a) ∧ c.set a v = (c, eInvalidMetric a)) ∧
    (Spec.isMetric Spec.V4.metrics a = true → Spec.legal Spec.V4.metrics a v = false → c.set a v = (c, eValue)) :=
  ⟨fun h => ⟨Proofs.B40.contract40.get_unknown c a h, Proofs.B40.contract40.set_unknown c a v h⟩, fun h h' => Proofs.B40.contract40.set_illegal c a v h h'⟩

end C18
