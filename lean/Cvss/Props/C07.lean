import Cvss.Proofs.Bits20
import Cvss.Proofs.Bits30
import Cvss.Proofs.Bits31
/-!
# C07 — Get/Set round trip, frame, failure leaves the object alone, canonical objects (v2.0, v3.0, v3.1)

> On any reachable object, a successful `Set(m, v)` makes `Get(m)` return `v` and leaves the value of every
> other metric unchanged; a failed `Set` (unknown metric or illegal value) leaves the whole object unchanged.
> Two objects holding the same metric values are equal under `==`, whatever sequence of calls produced them.

All statements are about the **generated** `Get`/`Set` (through the wrappers `Model.O20.get/set` …) against the
**Spec** tables `Spec.V2.metrics`, `Spec.V3.metrics`; "successful" means the returned error is nil; `==` on a Go
struct of `uint8` fields is Lean `=` on the structure of bytes. The first two theorems do not even need
reachability (they hold for every state, hence every byte state); it is kept in the statements to match the
property as worded. Proofs: `Cvss/Proofs/Bits{20,30,31}.lean` (per-arm unfolding of the generated code, one-byte
kernel enumerations) and `Cvss/Proofs/BitsCommon.lean` (version-independent derivation). v4.0: `C07v4.lean`.
-/
namespace C07
open Model Bits
open Spec (Metric legal isMetric b)

namespace V20
/-- the Spec metric table of this version -/
abbrev ms : List Metric := Spec.V2.metrics

/-- `Set` succeeds (nil error) exactly when `a` is a metric of the table and `v` one of its listed values -/
theorem set_succeeds_iff (c : O20) (a v : Bytes) : (c.set a v).2 = Go.errNil ↔ legal ms a v = true :=
  set_ok_iff Bits20.contract20 c a v

/-- **successful Set**: `Get(a)` returns `v`, and `Get` of every other string answers as before -/
theorem set_success (c : O20) (_ : O20.Reachable c) (a v : Bytes) (h : (c.set a v).2 = Go.errNil) :
    (c.set a v).1.get a = (v, Go.errNil) ∧ ∀ a', a' ≠ a → (c.set a v).1.get a' = c.get a' :=
  have hl := (set_succeeds_iff c a v).mp h
  ⟨(Bits20.set_same c a v hl).2, fun a' hne => get_set_frame Bits20.contract20 c a v a' hl hne⟩

/-- **failed Set** (non-nil error): the whole object is unchanged -/
theorem set_failure (c : O20) (_ : O20.Reachable c) (a v : Bytes) (h : (c.set a v).2 ≠ Go.errNil) :
    (c.set a v).1 = c := set_fail_unchanged Bits20.contract20 c a v h

/-- … and a `Set` fails exactly for an unknown metric (`*ErrInvalidMetric{a}`) or an illegal value
    (`ErrInvalidMetricValue`) -/
theorem set_failure_cases (c : O20) (a v : Bytes) (h : (c.set a v).2 ≠ Go.errNil) :
    (isMetric ms a = false ∧ c.set a v = (c, eInvalidMetric a)) ∨
    (isMetric ms a = true ∧ legal ms a v = false ∧ c.set a v = (c, eValue)) := by
  rcases Bits20.set_cases c a v with ⟨_, hs⟩ | h' | h'
  · exact absurd hs h
  · exact Or.inl h'
  · exact Or.inr h'

/-- **canonical representation**: reachable objects with the same metric values are equal (`==`),
    whatever sequences of calls produced them -/
theorem eq_of_same_values (c c' : O20) (h : O20.Reachable c) (h' : O20.Reachable c')
    (he : ∀ m ∈ ms, c.get m.abv = c'.get m.abv) : c = c' :=
  Bits20.ext c c' ((Bits20.reachable_iff_wf c).mp h) ((Bits20.reachable_iff_wf c').mp h') he

/-- the round trip and frame facts for all byte states, well formed or not -/
theorem set_success_bytes (c : O20) (_ : c.IsBytes) (a v : Bytes) (h : legal ms a v = true) :
    (c.set a v).2 = Go.errNil ∧ (c.set a v).1.get a = (v, Go.errNil) ∧ (c.set a v).1.IsBytes ∧
    ∀ a', a' ≠ a → (c.set a v).1.get a' = c.get a' :=
  ⟨(Bits20.set_same c a v h).1, (Bits20.set_same c a v h).2, Bits20.isBytes_set c a v ‹_›,
   fun a' hne => get_set_frame Bits20.contract20 c a v a' h hne⟩

/-! the hypotheses are satisfiable: a reachable non-zero object, a successful and two failing `Set`s,
    and two different call sequences producing equal objects -/
def sample : O20 := ((O20.zero.set (b "AV") (b "N")).1.set (b "RL") (b "W")).1
example : O20.Reachable sample := .set _ _ _ (.set _ _ _ .zero)
example : sample ≠ O20.zero := by decide
example : (sample.set (b "TD") (b "H")).2 = Go.errNil := by decide
example : (sample.set (b "TD") (b "H")).1.get (b "TD") = (b "H", Go.errNil) := by decide
example : (sample.set (b "TD") (b "X")).2 = eValue := by decide
example : (sample.set (b "td") (b "H")).2 = eInvalidMetric (b "td") := by decide
example : ((O20.zero.set (b "RL") (b "W")).1.set (b "AV") (b "N")).1 = sample := by decide

end V20

namespace V30
/-- the Spec metric table of this version -/
abbrev ms : List Metric := Spec.V3.metrics

/-- `Set` succeeds (nil error) exactly when `a` is a metric of the table and `v` one of its listed values -/
theorem set_succeeds_iff (c : O30) (a v : Bytes) : (c.set a v).2 = Go.errNil ↔ legal ms a v = true :=
  set_ok_iff Bits30.contract30 c a v

/-- **successful Set**: `Get(a)` returns `v`, and `Get` of every other string answers as before -/
theorem set_success (c : O30) (_ : O30.Reachable c) (a v : Bytes) (h : (c.set a v).2 = Go.errNil) :
    (c.set a v).1.get a = (v, Go.errNil) ∧ ∀ a', a' ≠ a → (c.set a v).1.get a' = c.get a' :=
  have hl := (set_succeeds_iff c a v).mp h
  ⟨(Bits30.set_same c a v hl).2, fun a' hne => get_set_frame Bits30.contract30 c a v a' hl hne⟩

/-- **failed Set** (non-nil error): the whole object is unchanged -/
theorem set_failure (c : O30) (_ : O30.Reachable c) (a v : Bytes) (h : (c.set a v).2 ≠ Go.errNil) :
    (c.set a v).1 = c := set_fail_unchanged Bits30.contract30 c a v h

/-- … and a `Set` fails exactly for an unknown metric (`*ErrInvalidMetric{a}`) or an illegal value
    (`ErrInvalidMetricValue`) -/
theorem set_failure_cases (c : O30) (a v : Bytes) (h : (c.set a v).2 ≠ Go.errNil) :
    (isMetric ms a = false ∧ c.set a v = (c, eInvalidMetric a)) ∨
    (isMetric ms a = true ∧ legal ms a v = false ∧ c.set a v = (c, eValue)) := by
  rcases Bits30.set_cases c a v with ⟨_, hs⟩ | h' | h'
  · exact absurd hs h
  · exact Or.inl h'
  · exact Or.inr h'

/-- **canonical representation**: reachable objects with the same metric values are equal (`==`),
    whatever sequences of calls produced them -/
theorem eq_of_same_values (c c' : O30) (h : O30.Reachable c) (h' : O30.Reachable c')
    (he : ∀ m ∈ ms, c.get m.abv = c'.get m.abv) : c = c' :=
  Bits30.ext c c' ((Bits30.reachable_iff_wf c).mp h) ((Bits30.reachable_iff_wf c').mp h') he

/-- the round trip and frame facts for all byte states, well formed or not -/
theorem set_success_bytes (c : O30) (_ : c.IsBytes) (a v : Bytes) (h : legal ms a v = true) :
    (c.set a v).2 = Go.errNil ∧ (c.set a v).1.get a = (v, Go.errNil) ∧ (c.set a v).1.IsBytes ∧
    ∀ a', a' ≠ a → (c.set a v).1.get a' = c.get a' :=
  ⟨(Bits30.set_same c a v h).1, (Bits30.set_same c a v h).2, Bits30.isBytes_set c a v ‹_›,
   fun a' hne => get_set_frame Bits30.contract30 c a v a' h hne⟩

/-! the hypotheses are satisfiable: a reachable non-zero object, a successful and two failing `Set`s,
    and two different call sequences producing equal objects -/
def sample : O30 := ((O30.zero.set (b "C") (b "L")).1.set (b "IR") (b "M")).1
example : O30.Reachable sample := .set _ _ _ (.set _ _ _ .zero)
example : sample ≠ O30.zero := by decide
example : (sample.set (b "MAV") (b "P")).2 = Go.errNil := by decide
example : (sample.set (b "MAV") (b "P")).1.get (b "MAV") = (b "P", Go.errNil) := by decide
example : (sample.set (b "MAV") (b "ND")).2 = eValue := by decide
example : (sample.set (b "mav") (b "P")).2 = eInvalidMetric (b "mav") := by decide
example : ((O30.zero.set (b "IR") (b "M")).1.set (b "C") (b "L")).1 = sample := by decide

end V30

namespace V31
/-- the Spec metric table of this version -/
abbrev ms : List Metric := Spec.V3.metrics

/-- `Set` succeeds (nil error) exactly when `a` is a metric of the table and `v` one of its listed values -/
theorem set_succeeds_iff (c : O31) (a v : Bytes) : (c.set a v).2 = Go.errNil ↔ legal ms a v = true :=
  set_ok_iff Bits31.contract31 c a v

/-- **successful Set**: `Get(a)` returns `v`, and `Get` of every other string answers as before -/
theorem set_success (c : O31) (_ : O31.Reachable c) (a v : Bytes) (h : (c.set a v).2 = Go.errNil) :
    (c.set a v).1.get a = (v, Go.errNil) ∧ ∀ a', a' ≠ a → (c.set a v).1.get a' = c.get a' :=
  have hl := (set_succeeds_iff c a v).mp h
  ⟨(Bits31.set_same c a v hl).2, fun a' hne => get_set_frame Bits31.contract31 c a v a' hl hne⟩

/-- **failed Set** (non-nil error): the whole object is unchanged -/
theorem set_failure (c : O31) (_ : O31.Reachable c) (a v : Bytes) (h : (c.set a v).2 ≠ Go.errNil) :
    (c.set a v).1 = c := set_fail_unchanged Bits31.contract31 c a v h

/-- … and a `Set` fails exactly for an unknown metric (`*ErrInvalidMetric{a}`) or an illegal value
    (`ErrInvalidMetricValue`) -/
theorem set_failure_cases (c : O31) (a v : Bytes) (h : (c.set a v).2 ≠ Go.errNil) :
    (isMetric ms a = false ∧ c.set a v = (c, eInvalidMetric a)) ∨
    (isMetric ms a = true ∧ legal ms a v = false ∧ c.set a v = (c, eValue)) := by
  rcases Bits31.set_cases c a v with ⟨_, hs⟩ | h' | h'
  · exact absurd hs h
  · exact Or.inl h'
  · exact Or.inr h'

/-- **canonical representation**: reachable objects with the same metric values are equal (`==`),
    whatever sequences of calls produced them -/
theorem eq_of_same_values (c c' : O31) (h : O31.Reachable c) (h' : O31.Reachable c')
    (he : ∀ m ∈ ms, c.get m.abv = c'.get m.abv) : c = c' :=
  Bits31.ext c c' ((Bits31.reachable_iff_wf c).mp h) ((Bits31.reachable_iff_wf c').mp h') he

/-- the round trip and frame facts for all byte states, well formed or not -/
theorem set_success_bytes (c : O31) (_ : c.IsBytes) (a v : Bytes) (h : legal ms a v = true) :
    (c.set a v).2 = Go.errNil ∧ (c.set a v).1.get a = (v, Go.errNil) ∧ (c.set a v).1.IsBytes ∧
    ∀ a', a' ≠ a → (c.set a v).1.get a' = c.get a' :=
  ⟨(Bits31.set_same c a v h).1, (Bits31.set_same c a v h).2, Bits31.isBytes_set c a v ‹_›,
   fun a' hne => get_set_frame Bits31.contract31 c a v a' h hne⟩

/-! the hypotheses are satisfiable: a reachable non-zero object, a successful and two failing `Set`s,
    and two different call sequences producing equal objects -/
def sample : O31 := ((O31.zero.set (b "C") (b "L")).1.set (b "IR") (b "M")).1
example : O31.Reachable sample := .set _ _ _ (.set _ _ _ .zero)
example : sample ≠ O31.zero := by decide
example : (sample.set (b "MAV") (b "P")).2 = Go.errNil := by decide
example : (sample.set (b "MAV") (b "P")).1.get (b "MAV") = (b "P", Go.errNil) := by decide
example : (sample.set (b "MAV") (b "ND")).2 = eValue := by decide
example : (sample.set (b "mav") (b "P")).2 = eInvalidMetric (b "mav") := by decide
example : ((O31.zero.set (b "IR") (b "M")).1.set (b "C") (b "L")).1 = sample := by decide

end V31

end C07
