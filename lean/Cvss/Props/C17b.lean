import Cvss.Props.C17
import Cvss.Model.Alloc
/-!
# C17, allocation cost of `Vector()` in the buffer cost model

`Vector()` pre-sizes its buffer and then only appends. The capacity is the code's own: the translator emits, for the
`b := make([]byte, 0, X)` of `Vector`, the twin definition `GenVxx.Vector_cap` (the statements before the `make`, then `X`);
`cap_eq_lenVecNN` shows that it is `lenVec()` (`rfl` on the regenerated text). In the cost model of `Model/Alloc.lean`
(`make` = 1 allocation, an `append` beyond the capacity = 1 more) this costs **exactly one** allocation for every
well-formed object of every version, *whatever* sequence of appends produces the text — because the total appended length
is `len(Vector()) = lenVec()` (C17 length theorems). Conversely any under-count in `lenVec` makes the model regrow.
NOT modelled (measured by the alloc stream on the real code): escape analysis, the `unsafe` string conversion, allocations
of everything else (`ParseVector`, `Get`, `Set`, scores, `Rating`, `Nomenclature`).
-/
namespace C17
open Model Model.Alloc

/-- any decomposition of the text into appended pieces -/
private theorem sum_lengths (pieces : List (List Nat)) : (pieces.map List.length).sum = pieces.flatten.length := by
  induction pieces with
  | nil => rfl
  | cons p ps ih => simp only [List.map_cons, List.sum_cons, List.flatten_cons, List.length_append, ih]

private theorem flet_id (x : Nat) : F64.flet x (fun l => l) = x := by cases x <;> rfl

/-! the capacity the code passes to `make` is `lenVec()` -/
theorem cap_eq_lenVec20 (c : O20) : c.vectorCap = c.lenVec := by
  simp only [O20.vectorCap, O20.lenVec, GenV20.Vector_cap, GenV20.Vector_cap_core, GenV20.lenVec, flet_id]
theorem cap_eq_lenVec30 (c : O30) : c.vectorCap = c.lenVec := by
  simp only [O30.vectorCap, O30.lenVec, GenV30.Vector_cap, GenV30.Vector_cap_core, GenV30.lenVec, flet_id]
theorem cap_eq_lenVec31 (c : O31) : c.vectorCap = c.lenVec := by
  simp only [O31.vectorCap, O31.lenVec, GenV31.Vector_cap, GenV31.Vector_cap_core, GenV31.lenVec, flet_id]
theorem cap_eq_lenVec40 (c : O40) : c.vectorCap = c.lenVec := by
  simp only [O40.vectorCap, O40.lenVec, GenV40.Vector_cap, GenV40.Vector_cap_core, GenV40.lenVec, flet_id]

/-- **the text never outgrows the buffer the code allocated** -/
theorem vector_fits20 (c : O20) (h : c.wf = true) : c.vector.length ≤ c.vectorCap := by
  rw [cap_eq_lenVec20, C17.V20.length_eq c h]; exact Nat.le_refl _
theorem vector_fits30 (c : O30) (h : c.wf = true) : c.vector.length ≤ c.vectorCap := by
  rw [cap_eq_lenVec30, C17.V30.length_eq c h]; exact Nat.le_refl _
theorem vector_fits31 (c : O31) (h : c.wf = true) : c.vector.length ≤ c.vectorCap := by
  rw [cap_eq_lenVec31, C17.V31.length_eq c h]; exact Nat.le_refl _
theorem vector_fits40 (c : O40) (h : c.wf = true) : c.vector.length ≤ c.vectorCap := by
  rw [cap_eq_lenVec40, C17.V40.length_eq c h]; exact Nat.le_refl _

theorem vector_one_alloc20 (c : O20) (h : c.wf = true) (pieces : List (List Nat)) (hp : pieces.flatten = c.vector) :
    (run c.vectorCap (pieces.map List.length)).allocs = 1 :=
  presized_one_alloc _ _ (by rw [sum_lengths, hp]; exact vector_fits20 c h)
theorem vector_one_alloc30 (c : O30) (h : c.wf = true) (pieces : List (List Nat)) (hp : pieces.flatten = c.vector) :
    (run c.vectorCap (pieces.map List.length)).allocs = 1 :=
  presized_one_alloc _ _ (by rw [sum_lengths, hp]; exact vector_fits30 c h)
theorem vector_one_alloc31 (c : O31) (h : c.wf = true) (pieces : List (List Nat)) (hp : pieces.flatten = c.vector) :
    (run c.vectorCap (pieces.map List.length)).allocs = 1 :=
  presized_one_alloc _ _ (by rw [sum_lengths, hp]; exact vector_fits31 c h)
theorem vector_one_alloc40 (c : O40) (h : c.wf = true) (pieces : List (List Nat)) (hp : pieces.flatten = c.vector) :
    (run c.vectorCap (pieces.map List.length)).allocs = 1 :=
  presized_one_alloc _ _ (by rw [sum_lengths, hp]; exact vector_fits40 c h)

/-- the converse, as a statement about the model: a capacity below the text's length costs a second allocation -/
theorem undercount_regrows (cap : Nat) (pieces : List (List Nat)) (h : cap < pieces.flatten.length) :
    1 < (run cap (pieces.map List.length)).allocs :=
  undersized_regrows _ _ (by rw [sum_lengths]; exact h)

end C17
