import Cvss.Props.C17
import Cvss.Model.Alloc
/-!
# C17, allocation cost of `Vector()` in the buffer cost model

`Vector()` pre-sizes its buffer with `lenVec()` and then only appends. In the cost model of `Model/Alloc.lean`
(`make` = 1 allocation, an `append` beyond the capacity = 1 more) this costs **exactly one** allocation for every
well-formed object of every version, *whatever* sequence of appends produces the text — because the total appended length
is `len(Vector()) = lenVec()` (C17 length theorems). Conversely any under-count in `lenVec` makes the model regrow.
NOT modelled (measured by the alloc stream on the real code): escape analysis, the `unsafe` string conversion, allocations
of everything else (`ParseVector`, `Get`, `Set`, scores, `Rating`, `Nomenclature`).
-/
namespace C17
open Model Model.Alloc

/-- any decomposition of the text into appended pieces -/
private theorem sum_lengths (pieces : List (List Nat)) : (pieces.map List.length).sum = pieces.flatten.length := by
  induction pieces with
  | nil => rfl
  | cons p ps ih => simp only [List.map_cons, List.sum_cons, List.flatten_cons, List.length_append, ih]

theorem vector_one_alloc20 (c : O20) (h : c.wf = true) (pieces : List (List Nat)) (hp : pieces.flatten = c.vector) :
    (run c.lenVec (pieces.map List.length)).allocs = 1 :=
  presized_one_alloc _ _ (by rw [sum_lengths, hp, C17.V20.length_eq c h]; exact Nat.le_refl _)
theorem vector_one_alloc30 (c : O30) (h : c.wf = true) (pieces : List (List Nat)) (hp : pieces.flatten = c.vector) :
    (run c.lenVec (pieces.map List.length)).allocs = 1 :=
  presized_one_alloc _ _ (by rw [sum_lengths, hp, C17.V30.length_eq c h]; exact Nat.le_refl _)
theorem vector_one_alloc31 (c : O31) (h : c.wf = true) (pieces : List (List Nat)) (hp : pieces.flatten = c.vector) :
    (run c.lenVec (pieces.map List.length)).allocs = 1 :=
  presized_one_alloc _ _ (by rw [sum_lengths, hp, C17.V31.length_eq c h]; exact Nat.le_refl _)
theorem vector_one_alloc40 (c : O40) (h : c.wf = true) (pieces : List (List Nat)) (hp : pieces.flatten = c.vector) :
    (run c.lenVec (pieces.map List.length)).allocs = 1 :=
  presized_one_alloc _ _ (by rw [sum_lengths, hp, C17.V40.length_eq c h]; exact Nat.le_refl _)

/-- the converse, as a statement about the model: a capacity below the text's length costs a second allocation -/
theorem undercount_regrows (cap : Nat) (pieces : List (List Nat)) (h : cap < pieces.flatten.length) :
    1 < (run cap (pieces.map List.length)).allocs :=
  undersized_regrows _ _ (by rw [sum_lengths]; exact h)

end C17
