import Cvss.Proofs.Bits20
import Cvss.Proofs.Bits30
import Cvss.Proofs.Bits31
/-!
# C09 (Get/Set part) — exactly the specified metrics and values; reachable objects are well formed (v2.0, v3.0, v3.1)

> Get and Set recognise exactly the version's metric abbreviations (case-sensitive) and Set accepts exactly the
> metric's specified values; anything else is refused with an error. Consequently every reachable object,
> including the zero value, is well formed: every Get returns a legal non-empty value.

Statements are about the **generated** `Get`/`Set` against the **Spec** tables (`isMetric`, `legal` of
`Spec/Metrics.lean`; abbreviations and values are compared as byte strings, hence case-sensitively).
Proofs: `Cvss/Proofs/Bits{20,30,31}.lean`, `BitsCommon.lean`. v4.0 is in a separate file.
-/
namespace C09
open Model Bits
open Spec (Metric legal isMetric b)

namespace V20
abbrev ms : List Metric := Spec.V2.metrics

/-- `Get` recognises exactly the Spec abbreviations — on every state: nil error iff `a` is in the table,
    otherwise `("", *ErrInvalidMetric{a})` -/
theorem get_recognises (c : O20) (a : Bytes) :
    ((c.get a).2 = Go.errNil ↔ isMetric ms a = true) ∧
    (isMetric ms a = false → c.get a = ([], eInvalidMetric a)) :=
  ⟨Bits20.get_ok_iff c a, Bits20.get_unknown c a⟩

/-- `Set` recognises exactly the Spec abbreviations: it answers `*ErrInvalidMetric{a}` (object unchanged) iff
    `a` is not in the table -/
theorem set_recognises (c : O20) (a v : Bytes) :
    (isMetric ms a = false → c.set a v = (c, eInvalidMetric a)) ∧
    (isMetric ms a = true → (c.set a v).2 ≠ eInvalidMetric a) := by
  refine ⟨Bits20.set_unknown c a v, fun hm => ?_⟩
  rcases Bits20.set_cases c a v with ⟨_, hs⟩ | ⟨hn, _⟩ | ⟨_, _, hs⟩
  · rw [hs]; exact (eInvalidMetric_ne_nil a).symm
  · rw [hm] at hn; cases hn
  · rw [hs]; intro e; simp [eValue, eInvalidMetric] at e

/-- `Set` accepts exactly the specified values of a metric; any other value is refused with
    `ErrInvalidMetricValue` and the object is unchanged -/
theorem set_accepts (c : O20) (a v : Bytes) (hm : isMetric ms a = true) :
    ((c.set a v).2 = Go.errNil ↔ legal ms a v = true) ∧
    (legal ms a v = false → c.set a v = (c, eValue)) :=
  ⟨set_ok_iff Bits20.contract20 c a v, Bits20.set_illegal c a v hm⟩

/-- `legal` unfolded: `v` is listed for the metric called `a` -/
theorem legal_iff (a v : Bytes) : legal ms a v = true ↔ ∃ m ∈ ms, m.abv = a ∧ v ∈ m.values := by
  constructor
  · intro h
    obtain ⟨j, hj, rfl, hv⟩ := legal_cases Bits20.tableOK h
    exact ⟨_, at_mem hj, rfl, hv⟩
  · rintro ⟨m, hm, rfl, hv⟩
    obtain ⟨j, hj, rfl⟩ := mem_at hm
    rw [legal_at Bits20.tableOK hj]; simpa using hv

/-- anything else is refused with an error -/
theorem set_refuses (c : O20) (a v : Bytes) (h : legal ms a v = false) :
    (c.set a v).2 ≠ Go.errNil ∧ (c.set a v).1 = c := by
  have hne : (c.set a v).2 ≠ Go.errNil := fun e => by
    rw [(set_ok_iff Bits20.contract20 c a v).mp e] at h; cases h
  exact ⟨hne, set_fail_unchanged Bits20.contract20 c a v hne⟩

/-- **every reachable object is well formed** (and conversely: every well-formed object is reachable) -/
theorem reachable_iff_wf (c : O20) : O20.Reachable c ↔ c.wf = true := Bits20.reachable_iff_wf c

/-- the zero value is well formed -/
theorem zero_wf : O20.zero.wf = true := Bits20.wf_zero

/-- **on a reachable object every `Get` of a metric returns a legal, non-empty value with nil error** -/
theorem reachable_get (c : O20) (h : O20.Reachable c) :
    ∀ m ∈ ms, (c.get m.abv).2 = Go.errNil ∧ (c.get m.abv).1 ∈ m.values ∧ (c.get m.abv).1 ≠ [] :=
  Bits20.wf_get c ((reachable_iff_wf c).mp h)

/-- reachable objects are byte states whose unused bits are zero (part of `wf`) -/
theorem reachable_bytes (c : O20) (h : O20.Reachable c) : c.IsBytes :=
  ((Bits20.wfB_iff c).mp ((reachable_iff_wf c).mp h)).1

/-! case-sensitivity and the exact value sets, on concrete strings; a byte state that is NOT well formed
    (so `wf` is not vacuous): `AV` code 3 decodes to the empty string -/
example : isMetric ms (b "AV") = true ∧ isMetric ms (b "av") = false ∧ isMetric ms (b "Av") = false := by decide
example : legal ms (b "Au") (b "S") = true ∧ legal ms (b "Au") (b "s") = false ∧ legal ms (b "AU") (b "S") = false := by
  decide
example : (O20.zero.get (b "av")).2 = eInvalidMetric (b "av") := by decide
example : (O20.mk 192 0 0 0).wf = false ∧ (O20.mk 192 0 0 0).get (b "AV") = ([], Go.errNil) := by decide

end V20

namespace V30
abbrev ms : List Metric := Spec.V3.metrics

/-- `Get` recognises exactly the Spec abbreviations — on every state: nil error iff `a` is in the table,
    otherwise `("", *ErrInvalidMetric{a})` -/
theorem get_recognises (c : O30) (a : Bytes) :
    ((c.get a).2 = Go.errNil ↔ isMetric ms a = true) ∧
    (isMetric ms a = false → c.get a = ([], eInvalidMetric a)) :=
  ⟨Bits30.get_ok_iff c a, Bits30.get_unknown c a⟩

/-- `Set` recognises exactly the Spec abbreviations: it answers `*ErrInvalidMetric{a}` (object unchanged) iff
    `a` is not in the table -/
theorem set_recognises (c : O30) (a v : Bytes) :
    (isMetric ms a = false → c.set a v = (c, eInvalidMetric a)) ∧
    (isMetric ms a = true → (c.set a v).2 ≠ eInvalidMetric a) := by
  refine ⟨Bits30.set_unknown c a v, fun hm => ?_⟩
  rcases Bits30.set_cases c a v with ⟨_, hs⟩ | ⟨hn, _⟩ | ⟨_, _, hs⟩
  · rw [hs]; exact (eInvalidMetric_ne_nil a).symm
  · rw [hm] at hn; cases hn
  · rw [hs]; intro e; simp [eValue, eInvalidMetric] at e

/-- `Set` accepts exactly the specified values of a metric; any other value is refused with
    `ErrInvalidMetricValue` and the object is unchanged -/
theorem set_accepts (c : O30) (a v : Bytes) (hm : isMetric ms a = true) :
    ((c.set a v).2 = Go.errNil ↔ legal ms a v = true) ∧
    (legal ms a v = false → c.set a v = (c, eValue)) :=
  ⟨set_ok_iff Bits30.contract30 c a v, Bits30.set_illegal c a v hm⟩

/-- `legal` unfolded: `v` is listed for the metric called `a` -/
theorem legal_iff (a v : Bytes) : legal ms a v = true ↔ ∃ m ∈ ms, m.abv = a ∧ v ∈ m.values := by
  constructor
  · intro h
    obtain ⟨j, hj, rfl, hv⟩ := legal_cases Bits30.tableOK h
    exact ⟨_, at_mem hj, rfl, hv⟩
  · rintro ⟨m, hm, rfl, hv⟩
    obtain ⟨j, hj, rfl⟩ := mem_at hm
    rw [legal_at Bits30.tableOK hj]; simpa using hv

/-- anything else is refused with an error -/
theorem set_refuses (c : O30) (a v : Bytes) (h : legal ms a v = false) :
    (c.set a v).2 ≠ Go.errNil ∧ (c.set a v).1 = c := by
  have hne : (c.set a v).2 ≠ Go.errNil := fun e => by
    rw [(set_ok_iff Bits30.contract30 c a v).mp e] at h; cases h
  exact ⟨hne, set_fail_unchanged Bits30.contract30 c a v hne⟩

/-- **every reachable object is well formed** (and conversely: every well-formed object is reachable) -/
theorem reachable_iff_wf (c : O30) : O30.Reachable c ↔ c.wf = true := Bits30.reachable_iff_wf c

/-- the zero value is well formed -/
theorem zero_wf : O30.zero.wf = true := Bits30.wf_zero

/-- **on a reachable object every `Get` of a metric returns a legal, non-empty value with nil error** -/
theorem reachable_get (c : O30) (h : O30.Reachable c) :
    ∀ m ∈ ms, (c.get m.abv).2 = Go.errNil ∧ (c.get m.abv).1 ∈ m.values ∧ (c.get m.abv).1 ≠ [] :=
  Bits30.wf_get c ((reachable_iff_wf c).mp h)

/-- reachable objects are byte states whose unused bits are zero (part of `wf`) -/
theorem reachable_bytes (c : O30) (h : O30.Reachable c) : c.IsBytes :=
  ((Bits30.wfB_iff c).mp ((reachable_iff_wf c).mp h)).1

/-! case-sensitivity and the exact value sets, on concrete strings; a byte state that is NOT well formed
    (so `wf` is not vacuous): `PR` code 3 decodes to the empty string -/
example : isMetric ms (b "MAV") = true ∧ isMetric ms (b "mav") = false ∧ isMetric ms (b "Mav") = false := by decide
example : legal ms (b "PR") (b "L") = true ∧ legal ms (b "PR") (b "l") = false ∧ legal ms (b "PR") (b "X") = false := by
  decide
example : (O30.zero.get (b "mav")).2 = eInvalidMetric (b "mav") := by decide
example : (O30.mk 24 0 0 0 0 0).wf = false ∧ (O30.mk 24 0 0 0 0 0).get (b "PR") = ([], Go.errNil) := by decide

end V30

namespace V31
abbrev ms : List Metric := Spec.V3.metrics

/-- `Get` recognises exactly the Spec abbreviations — on every state: nil error iff `a` is in the table,
    otherwise `("", *ErrInvalidMetric{a})` -/
theorem get_recognises (c : O31) (a : Bytes) :
    ((c.get a).2 = Go.errNil ↔ isMetric ms a = true) ∧
    (isMetric ms a = false → c.get a = ([], eInvalidMetric a)) :=
  ⟨Bits31.get_ok_iff c a, Bits31.get_unknown c a⟩

/-- `Set` recognises exactly the Spec abbreviations: it answers `*ErrInvalidMetric{a}` (object unchanged) iff
    `a` is not in the table -/
theorem set_recognises (c : O31) (a v : Bytes) :
    (isMetric ms a = false → c.set a v = (c, eInvalidMetric a)) ∧
    (isMetric ms a = true → (c.set a v).2 ≠ eInvalidMetric a) := by
  refine ⟨Bits31.set_unknown c a v, fun hm => ?_⟩
  rcases Bits31.set_cases c a v with ⟨_, hs⟩ | ⟨hn, _⟩ | ⟨_, _, hs⟩
  · rw [hs]; exact (eInvalidMetric_ne_nil a).symm
  · rw [hm] at hn; cases hn
  · rw [hs]; intro e; simp [eValue, eInvalidMetric] at e

/-- `Set` accepts exactly the specified values of a metric; any other value is refused with
    `ErrInvalidMetricValue` and the object is unchanged -/
theorem set_accepts (c : O31) (a v : Bytes) (hm : isMetric ms a = true) :
    ((c.set a v).2 = Go.errNil ↔ legal ms a v = true) ∧
    (legal ms a v = false → c.set a v = (c, eValue)) :=
  ⟨set_ok_iff Bits31.contract31 c a v, Bits31.set_illegal c a v hm⟩

/-- `legal` unfolded: `v` is listed for the metric called `a` -/
theorem legal_iff (a v : Bytes) : legal ms a v = true ↔ ∃ m ∈ ms, m.abv = a ∧ v ∈ m.values := by
  constructor
  · intro h
    obtain ⟨j, hj, rfl, hv⟩ := legal_cases Bits31.tableOK h
    exact ⟨_, at_mem hj, rfl, hv⟩
  · rintro ⟨m, hm, rfl, hv⟩
    obtain ⟨j, hj, rfl⟩ := mem_at hm
    rw [legal_at Bits31.tableOK hj]; simpa using hv

/-- anything else is refused with an error -/
theorem set_refuses (c : O31) (a v : Bytes) (h : legal ms a v = false) :
    (c.set a v).2 ≠ Go.errNil ∧ (c.set a v).1 = c := by
  have hne : (c.set a v).2 ≠ Go.errNil := fun e => by
    rw [(set_ok_iff Bits31.contract31 c a v).mp e] at h; cases h
  exact ⟨hne, set_fail_unchanged Bits31.contract31 c a v hne⟩

/-- **every reachable object is well formed** (and conversely: every well-formed object is reachable) -/
theorem reachable_iff_wf (c : O31) : O31.Reachable c ↔ c.wf = true := Bits31.reachable_iff_wf c

/-- the zero value is well formed -/
theorem zero_wf : O31.zero.wf = true := Bits31.wf_zero

/-- **on a reachable object every `Get` of a metric returns a legal, non-empty value with nil error** -/
theorem reachable_get (c : O31) (h : O31.Reachable c) :
    ∀ m ∈ ms, (c.get m.abv).2 = Go.errNil ∧ (c.get m.abv).1 ∈ m.values ∧ (c.get m.abv).1 ≠ [] :=
  Bits31.wf_get c ((reachable_iff_wf c).mp h)

/-- reachable objects are byte states whose unused bits are zero (part of `wf`) -/
theorem reachable_bytes (c : O31) (h : O31.Reachable c) : c.IsBytes :=
  ((Bits31.wfB_iff c).mp ((reachable_iff_wf c).mp h)).1

/-! case-sensitivity and the exact value sets, on concrete strings; a byte state that is NOT well formed
    (so `wf` is not vacuous): `PR` code 3 decodes to the empty string -/
example : isMetric ms (b "MAV") = true ∧ isMetric ms (b "mav") = false ∧ isMetric ms (b "Mav") = false := by decide
example : legal ms (b "PR") (b "L") = true ∧ legal ms (b "PR") (b "l") = false ∧ legal ms (b "PR") (b "X") = false := by
  decide
example : (O31.zero.get (b "mav")).2 = eInvalidMetric (b "mav") := by decide
example : (O31.mk 24 0 0 0 0 0).wf = false ∧ (O31.mk 24 0 0 0 0 0).get (b "PR") = ([], Go.errNil) := by decide

end V31

end C09
