import Cvss.Proofs.Parse2Read
/-!
# C13 (v2.0 part): an accepted v2.0 string starts with `AV:`

(The other three parsers require their `CVSS:x.y` header, which is incompatible with this prefix.)
-/
namespace C13.V2
open Proofs Proofs.Parse2
open Model (Bytes Res)
open Spec.V2 (metrics Witness G)

theorem grammatical_prefix {s : Bytes} (h : G s) : [65, 86, 58] <+: s := by
  obtain ⟨w, hw⟩ := h
  exact witness_prefix hw

section
variable (K : Contract Model.O20 metrics)

theorem accepted_prefix {s : Bytes} {c : Model.O20} (h : parseK K s = .ok c) : [65, 86, 58] <+: s := by
  obtain ⟨w, hw, _⟩ := parse_sound K h
  exact witness_prefix hw

/-- in the form the other parsers test their headers: `strings.HasPrefix` -/
theorem accepted_hasPrefix {s : Bytes} {c : Model.O20} (h : parseK K s = .ok c) :
    Model.hasPrefix s [65, 86, 58] = true := by
  obtain ⟨r, hr⟩ := accepted_prefix K h
  rw [← hr]
  simp [Model.hasPrefix]

theorem model_accepted_prefix (hz : K.zero = Model.O20.zero) (hs : K.set = Model.O20.set)
    {s : Bytes} {c : Model.O20} (h : Model.parse20 s = .ok c) : [65, 86, 58] <+: s := by
  rw [parse20_eq_parseK K hz hs] at h; exact accepted_prefix K h

end

/-- `AV:` is incompatible with every `CVSS:x.y` header the other parsers require -/
theorem prefix_excludes_headers {s : Bytes} (h : [65, 86, 58] <+: s) :
    Model.hasPrefix s GenV30.const_header = false ∧ Model.hasPrefix s GenV31.const_header = false ∧
    Model.hasPrefix s GenV40.const_header = false := by
  obtain ⟨r, rfl⟩ := h
  refine ⟨?_, ?_, ?_⟩ <;> rfl

example : Model.parse20 (Spec.b "AV:L/AC:H/Au:M/C:N/I:N/A:N") = .ok ⟨32, 0, 0, 0⟩ := by decide

end C13.V2
