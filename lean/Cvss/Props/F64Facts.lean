import Cvss.Proofs.F64Tenth
/-!
# F64Facts — what the float constants of the score theorems denote

The score properties (C03, C04, C05, C11*) conclude `score = F64.tenth K`; C05 and C03 bound unrounded
sub-scores with `Proofs.Score2.closeTo` and `Proofs.Score3.within12`; C15 orders floats by the exact values of
`Spec.F64Val.ofBits`.  This file re-exports (from `Proofs/F64Tenth.lean`) the theorems that tie these together:

* `F64.tenth k` (`0 ≤ k ≤ 100`), `F64.negTenth k` and `Proofs.Score2.tenthI k` denote **the** double nearest
  `k/10`, `−k/10`: every other finite double is strictly farther away (`tenth_nearest`, `negTenth_nearest`,
  `tenthI_nearest`, `isNearestTenth_iff`), with neighbour, half-ulp, exactness, sign and order facts;
* `Proofs.Score2.toRat`, `Proofs.Score3.withinPow10` and `Spec.F64Val.ofBits` decode every finite 64-bit pattern
  to the same number (`toRat_eq`, `withinPow10_iff`, `withinPow10_iff_rat`, `within12_eq_closeTo`).

Trusted, not proved: that `Spec.F64Val.ofBits` is the IEEE-754 binary64 decoding; that the soft-float operations
are correct *in general* (only their results on `F64.tenth` and on the evaluated score tables are kernel-checked).
All values below are `num / 2^1075` with `num : Int` and `Spec.F64Val.den = 2^1075`.
-/
namespace F64Facts
open Spec

/-- `|10·num − k·2^1075|`, i.e. `|num/2^1075 − k/10|` scaled by `10·2^1075` -/
abbrev dist10 := F64Tenth.dist10
/-- `x` denotes the finite double nearest `k/10`, and no other finite double is as near -/
abbrev IsNearestTenth := F64Tenth.IsNearestTenth

/-- the definition, spelled out -/
theorem isNearestTenth_iff (x : Nat) (k : Int) :
    IsNearestTenth x k ↔ ∃ num : Int, F64Val.ofBits x = .fin num ∧
      ∀ (y : Nat) (m : Int), F64Val.ofBits y = .fin m → m ≠ num →
        (10 * num - k * (F64Val.den : Int)).natAbs < (10 * m - k * (F64Val.den : Int)).natAbs :=
  Iff.rfl

/-! ## (a) `F64.tenth k` is the double nearest `k/10` -/

/-- **headline**: for `0 ≤ k ≤ 100`, `F64.tenth k` is the unique nearest double of `k/10` -/
theorem tenth_nearest : ∀ k : Nat, k ≤ 100 → IsNearestTenth (F64.tenth k) k := F64Tenth.tenth_nearest

/-- finite, non-negative, sign bit clear (`F64.tenth 0` is `+0.0`) -/
theorem tenth_nonneg {k : Nat} (hk : k ≤ 100) :
    ∃ num : Int, F64Val.ofBits (F64.tenth k) = .fin num ∧ 0 ≤ num ∧ F64.tenth k < 2^63 ∧
      F64.isFin (F64.tenth k) = true := F64Tenth.tenth_nonneg hk
theorem tenth_zero : F64.tenth 0 = 0 := F64Tenth.tenth_zero

/-- the next smaller and next larger double (bit pattern ∓ 1) are finite, bracket `k/10` strictly and are both
    strictly farther from `k/10` -/
theorem tenth_neighbours {k : Nat} (hk : k ≤ 100) (hk0 : k ≠ 0) :
    ∃ a num b : Int,
      F64Val.ofBits (F64.tenth k - 1) = .fin a ∧ F64Val.ofBits (F64.tenth k) = .fin num ∧
      F64Val.ofBits (F64.tenth k + 1) = .fin b ∧
      a < num ∧ num < b ∧ 10 * a < k * (F64Val.den : Int) ∧ k * (F64Val.den : Int) < 10 * b ∧
      dist10 num k < dist10 a k ∧ dist10 num k < dist10 b k := F64Tenth.tenth_neighbours hk hk0

/-- the error is at most half the gap to the next double above (half a unit in the last place) -/
theorem tenth_half_ulp {k : Nat} (hk : k ≤ 100) (hk0 : k ≠ 0) :
    ∃ num b : Int, F64Val.ofBits (F64.tenth k) = .fin num ∧ F64Val.ofBits (F64.tenth k + 1) = .fin b ∧
      2 * dist10 num k ≤ 10 * (b - num) := F64Tenth.tenth_half_ulp hk hk0

/-- `F64.tenth k` is exactly `k/10` iff `k` is a multiple of 5 -/
theorem tenth_exact_iff {k : Nat} (hk : k ≤ 100) :
    ∃ num : Int, F64Val.ofBits (F64.tenth k) = .fin num ∧
      (10 * num = k * (F64Val.den : Int) ↔ k % 5 = 0) := F64Tenth.tenth_exact_iff hk

/-- `F64.negTenth k` is the double nearest `−k/10` (`k = 0`: `−0.0`, which denotes 0) -/
theorem negTenth_nearest : ∀ k : Nat, k ≤ 100 → IsNearestTenth (F64.negTenth k) (-(k : Int)) :=
  F64Tenth.negTenth_nearest
theorem negTenth_one : IsNearestTenth (F64.negTenth 1) (-1) := F64Tenth.negTenth_one
theorem negTenth_two : IsNearestTenth (F64.negTenth 2) (-2) := F64Tenth.negTenth_two

/-- the signed tenths of the v2 proofs -/
theorem tenthI_nearest (k : Int) (h1 : -100 ≤ k) (h2 : k ≤ 100) :
    IsNearestTenth (Proofs.Score2.tenthI k) k := F64Tenth.tenthI_nearest k h1 h2
/-- C05's `bitsOK fl k` says that `fl` denotes the double nearest `k/10` -/
theorem bitsOK_nearest (fl : Nat) (k : Int) (h1 : -100 ≤ k) (h2 : k ≤ 100)
    (h : Proofs.Score2.bitsOK fl k = true) : IsNearestTenth fl k := F64Tenth.bitsOK_nearest fl k h1 h2 h

/-- "nearest" determines the number denoted -/
theorem nearest_value_unique {x x' : Nat} {k : Int} (h : IsNearestTenth x k) (h' : IsNearestTenth x' k) :
    F64Val.ofBits x = F64Val.ofBits x' := F64Tenth.IsNearestTenth.value_unique h h'

/-! order: bit patterns, exact values and the model's comparisons follow `k` -/

theorem tenth_strictMono {k₁ k₂ : Nat} (h : k₁ < k₂) (h2 : k₂ ≤ 100) : F64.tenth k₁ < F64.tenth k₂ :=
  F64Tenth.tenth_strictMono h h2
theorem tenth_injective {k₁ k₂ : Nat} (h1 : k₁ ≤ 100) (h2 : k₂ ≤ 100) (h : F64.tenth k₁ = F64.tenth k₂) :
    k₁ = k₂ := F64Tenth.tenth_injective h1 h2 h
theorem tenth_val_lt {k₁ k₂ : Nat} (h : k₁ < k₂) (h2 : k₂ ≤ 100) :
    F64Val.lt (F64Val.ofBits (F64.tenth k₁)) (F64Val.ofBits (F64.tenth k₂)) := F64Tenth.tenth_val_lt h h2
/-- `tenth_mono` -/
theorem tenth_val_le {k₁ k₂ : Nat} (h : k₁ ≤ k₂) (h2 : k₂ ≤ 100) :
    F64Val.le (F64Val.ofBits (F64.tenth k₁)) (F64Val.ofBits (F64.tenth k₂)) := F64Tenth.tenth_val_le h h2
theorem tenth_lt {k₁ k₂ : Nat} (h1 : k₁ ≤ 100) (h2 : k₂ ≤ 100) :
    F64.lt (F64.tenth k₁) (F64.tenth k₂) = decide (k₁ < k₂) := F64Tenth.tenth_lt h1 h2
theorem tenth_le {k₁ k₂ : Nat} (h1 : k₁ ≤ 100) (h2 : k₂ ≤ 100) :
    F64.le (F64.tenth k₁) (F64.tenth k₂) = decide (k₁ ≤ k₂) := F64Tenth.tenth_le h1 h2

/-- the threshold constant of C15 is `F64.tenth 1` -/
theorem tenth_one_eq_TENTH : F64.tenth 1 = F64Order.TENTH := F64Tenth.tenth_one_eq_TENTH

/-! ## (b) the three decoders agree -/

/-- `Proofs.Score2.toRat` is the value of `Spec.F64Val.ofBits`, on every finite 64-bit pattern -/
theorem toRat_eq (x : Nat) (hx : x < 2^64) (num : Int) (h : F64Val.ofBits x = .fin num) :
    Proofs.Score2.toRat x = (num : Rat) / ((F64Val.den : Nat) : Rat) := F64Tenth.toRat_eq x hx num h

/-- finite in the model's sense iff the decoder yields a finite value -/
theorem isFin_iff_fin (x : Nat) (hx : x < 2^64) :
    F64.isFin x = true ↔ ∃ num, F64Val.ofBits x = .fin num := F64Tenth.isFin_iff_fin x hx

/-- C05's `closeTo` -/
theorem closeTo_iff (fl : Nat) (hfl : fl < 2^64) (x : Rat) :
    Proofs.Score2.closeTo fl x = true ↔ ∃ num : Int, F64Val.ofBits fl = .fin num ∧
      (num : Rat) / ((F64Val.den : Nat) : Rat) - x ≤ 1 / 1000000000000 ∧
      -((num : Rat) / ((F64Val.den : Nat) : Rat) - x) ≤ 1 / 1000000000000 := F64Tenth.closeTo_iff fl hfl x

/-- C05's `isNearest` (weights): within `2^(E−1076)`, half a unit in the last place -/
theorem isNearest_iff (fl : Nat) (hfl : fl < 2^64) (x : Rat) :
    Proofs.Score2.isNearest fl x = true ↔ ∃ num : Int, F64Val.ofBits fl = .fin num ∧
      (num : Rat) / ((F64Val.den : Nat) : Rat) - x ≤ (2 : Rat) ^ ((F64.exf (F64.ebits fl) : Int) - 1076) ∧
      -((num : Rat) / ((F64Val.den : Nat) : Rat) - x) ≤ (2 : Rat) ^ ((F64.exf (F64.ebits fl) : Int) - 1076) :=
  F64Tenth.isNearest_iff fl hfl x

/-- C03's `withinPow10`, denominators cleared: `|num/2^1075 − n/10^e| ≤ 10^-d` -/
theorem withinPow10_iff (d x : Nat) (hx : x < 2^64) (n : Int) (e : Nat) :
    Proofs.Score3.withinPow10 d x (n, e) = true ↔ ∃ num : Int, F64Val.ofBits x = .fin num ∧
      (num * ((10^e : Nat) : Int) - n * ((F64Val.den : Nat) : Int)).natAbs * 10^d ≤ F64Val.den * 10^e :=
  F64Tenth.withinPow10_iff d x hx n e

/-- the same with fractions -/
theorem withinPow10_iff_rat (d x : Nat) (hx : x < 2^64) (n : Int) (e : Nat) :
    Proofs.Score3.withinPow10 d x (n, e) = true ↔ ∃ num : Int, F64Val.ofBits x = .fin num ∧
      (num : Rat) / ((F64Val.den : Nat) : Rat) - (n : Rat) / ((10^e : Nat) : Rat) ≤ 1 / ((10^d : Nat) : Rat) ∧
      -((num : Rat) / ((F64Val.den : Nat) : Rat) - (n : Rat) / ((10^e : Nat) : Rat)) ≤ 1 / ((10^d : Nat) : Rat) :=
  F64Tenth.withinPow10_iff_rat d x hx n e

/-- the same through `toRat` -/
theorem withinPow10_iff_toRat (d x : Nat) (hx : x < 2^64) (n : Int) (e : Nat) :
    Proofs.Score3.withinPow10 d x (n, e) = true ↔ F64.isFin x = true ∧
      Proofs.Score2.toRat x - (n : Rat) / ((10^e : Nat) : Rat) ≤ 1 / ((10^d : Nat) : Rat) ∧
      -(Proofs.Score2.toRat x - (n : Rat) / ((10^e : Nat) : Rat)) ≤ 1 / ((10^d : Nat) : Rat) :=
  F64Tenth.withinPow10_iff_toRat d x hx n e

/-- C03's and C05's closeness predicates are one and the same -/
theorem within12_eq_closeTo (x : Nat) (hx : x < 2^64) (n : Int) (e : Nat) :
    Proofs.Score3.within12 x (n, e) = Proofs.Score2.closeTo x ((n : Rat) / ((10^e : Nat) : Rat)) :=
  F64Tenth.within12_eq_closeTo x hx n e

/-! ## examples -/

-- the bit patterns (they agree with the hardware: 0.1, 9.3, 10.0, −0.1, −0.2)
example : F64.tenth 1 = 0x3fb999999999999a := by decide +kernel
example : F64.tenth 93 = 0x402299999999999a := by decide +kernel
example : F64.tenth 100 = 0x4024000000000000 := by decide +kernel
example : F64.negTenth 1 = 0xbfb999999999999a := by decide +kernel
example : F64.negTenth 2 = 0xbfc999999999999a := by decide +kernel

-- hence 0x3fb999999999999a is the double nearest 1/10 …
example : IsNearestTenth 0x3fb999999999999a 1 := by
  have h := tenth_nearest 1 (by decide)
  rw [show F64.tenth 1 = 0x3fb999999999999a by decide +kernel] at h
  exact h
-- … and its lower neighbour is not (the predicate is not vacuous): it denotes a different number
example : ¬ IsNearestTenth 0x3fb9999999999999 1 := by
  intro h
  have e := nearest_value_unique h (tenth_nearest 1 (by decide))
  rw [show F64.tenth 1 = 0x3fb999999999999a by decide +kernel] at e
  exact absurd e (by decide +kernel)
-- 9.3 is not exact, 9.5 is
example : ∃ num : Int, F64Val.ofBits (F64.tenth 93) = .fin num ∧ 10 * num ≠ 93 * (F64Val.den : Int) := by
  obtain ⟨num, h, e⟩ := tenth_exact_iff (k := 93) (by decide)
  exact ⟨num, h, fun h' => absurd (e.mp h') (by decide)⟩
example : F64Val.ofBits (F64.tenth 95) = .fin (19 * 2^1074) := by decide +kernel
-- the decoders on 1.5 = 3·2^1074 / 2^1075 (hypotheses of `toRat_eq`, `withinPow10_iff` are satisfiable)
example : F64Val.ofBits 0x3ff8000000000000 = .fin (3 * 2^1074) := by decide +kernel
example : Proofs.Score2.toRat 0x3ff8000000000000 = ((3 * 2^1074 : Int) : Rat) / ((F64Val.den : Nat) : Rat) :=
  toRat_eq _ (by decide) _ (by decide +kernel)
example : ∃ num : Int, F64Val.ofBits 0x3ff8000000000000 = .fin num ∧
    (num * ((10^1 : Nat) : Int) - 15 * ((F64Val.den : Nat) : Int)).natAbs * 10^12 ≤ F64Val.den * 10^1 :=
  (withinPow10_iff 12 _ (by decide) 15 1).mp (by decide)

end F64Facts
