import Cvss.Props.ParseTie
/-!
# C01, clause "a rejection returns a nil object and a NON-NIL error"

`Res` has the three outcomes `ok c | err e | panic`, so "object xor error" holds by construction; what needs a proof is that the
error of a rejection is never Go's `nil` (`Go.errNil`, code 0). Proved for the four readable models (every `.err` carries a
sentinel, a typed error, or the error of `Set` behind an `e ≠ nil` test) and transferred to the regenerated parsers by
`Props/ParseTie`. Together with `C01.no_panic` this is the whole result shape of the property's last sentence.
-/
set_option linter.unusedSimpArgs false
namespace C01b
open Model

private theorem ne_nil_of_code {e : Go.Err} (h : e.code ≠ 0) : e ≠ Go.errNil := by
  intro he; apply h; rw [he]; rfl

theorem loop3_err {O : Type} (set : O → Bytes → Bytes → O × Go.Err) :
    ∀ (els : List Bytes) (c : O) (seen : List Bytes) (e : Go.Err), loop3 set els c seen = .err e → e ≠ Go.errNil := by
  intro els
  induction els with
  | nil =>
    intro c seen e h
    simp only [loop3] at h
    split at h
    · cases h; exact ne_nil_of_code (by simp [eMissing, eInvalidMetric, eDefinedN, eHeader, eTooShort, eOrder, eValue])
    · cases h
  | cons el rest ih =>
    intro c seen e h
    simp only [loop3] at h
    split at h
    · rename_i e' hk
      cases h
      simp only [kvmSet] at hk
      split at hk
      · cases hk; exact ne_nil_of_code (by simp [eMissing, eInvalidMetric, eDefinedN, eHeader, eTooShort, eOrder, eValue])
      · split at hk
        · cases hk; exact ne_nil_of_code (by simp [eMissing, eInvalidMetric, eDefinedN, eHeader, eTooShort, eOrder, eValue])
        · cases hk
    · split at h
      · exact ih _ _ _ h
      · rename_i hne; cases h; exact hne

theorem parse3_err {O : Type} (header : Bytes) (zero : O) (set : O → Bytes → Bytes → O × Go.Err) (s : Bytes) (e : Go.Err)
    (h : parse3 header zero set s = .err e) : e ≠ Go.errNil := by
  simp only [parse3] at h
  split at h
  · exact loop3_err set _ _ _ _ h
  · cases h; exact ne_nil_of_code (by simp [eMissing, eInvalidMetric, eDefinedN, eHeader, eTooShort, eOrder, eValue])

theorem v30 (s : Bytes) (e : Go.Err) (h : parse30 s = .err e) : e ≠ Go.errNil := parse3_err _ _ _ s e h
theorem v31 (s : Bytes) (e : Go.Err) (h : parse31 s = .err e) : e ≠ Go.errNil := parse3_err _ _ _ s e h

theorem loop4_err (set : O40 → Bytes → Bytes → O40 × Go.Err) :
    ∀ (els : List Bytes) (c : O40) (ord : List (Bool × Bytes)) (e : Go.Err), loop4 set els c ord = .err e → e ≠ Go.errNil := by
  intro els
  induction els with
  | nil =>
    intro c ord e h
    simp only [loop4] at h
    split at h
    · cases h; exact ne_nil_of_code (by simp [eMissing, eInvalidMetric, eDefinedN, eHeader, eTooShort, eOrder, eValue])
    · cases h
  | cons el rest ih =>
    intro c ord e h
    simp only [loop4] at h
    split at h
    · cases h; exact ne_nil_of_code (by simp [eMissing, eInvalidMetric, eDefinedN, eHeader, eTooShort, eOrder, eValue])
    · split at h
      · exact ih _ _ _ h
      · rename_i hne; cases h; exact hne

theorem v40 (s : Bytes) (e : Go.Err) (h : parse40 s = .err e) : e ≠ Go.errNil := by
  unfold parse40 at h
  split at h
  · split at h
    · cases h; exact ne_nil_of_code (by simp [eTooShort])
    · split at h
      · exact loop4_err _ _ _ _ _ h
      · cases h; exact ne_nil_of_code (by simp [eValue, eHeader])
  · cases h; exact ne_nil_of_code (by simp [eHeader])

theorem step2_err (order : List (List Bytes)) (slci i : Nat) (c : O20) (pt : Bytes) (e : Go.Err)
    (h : step2 order slci i c pt = .err e) : e ≠ Go.errNil := by
  simp only [step2] at h
  split at h
  · cases h; exact ne_nil_of_code (by simp [eValue])
  · cases h
  · split at h
    · cases h; exact ne_nil_of_code (by simp [eOrder])
    · split at h
      · rename_i hne; cases h; exact hne
      · split at h <;> cases h

theorem loop2_err (order : List (List Bytes)) :
    ∀ (pts : List Bytes) (slci i : Nat) (c : O20) (e : Go.Err), loop2 order pts slci i c = .err e → e ≠ Go.errNil := by
  intro pts
  induction pts with
  | nil =>
    intro slci i c e h
    simp only [loop2] at h
    split at h
    · cases h; exact ne_nil_of_code (by simp [eMissing, eInvalidMetric, eDefinedN, eHeader, eTooShort, eOrder, eValue])
    · cases h
  | cons pt rest ih =>
    intro slci i c e h
    simp only [loop2] at h
    split at h
    · exact ih _ _ _ _ h
    · rename_i e' hs; cases h; exact step2_err _ _ _ _ _ _ hs
    · cases h

theorem v20 (s : Bytes) (e : Go.Err) (h : parse20 s = .err e) : e ≠ Go.errNil := loop2_err _ _ _ _ _ _ h

/-! ## the regenerated parsers -/

theorem gen30 (s : Bytes) (e : Go.Err) (h : ParseTie.res30 (GenP30.ParseVector s) = .err e) : e ≠ Go.errNil :=
  v30 s e (by rw [← ParseTie.v30]; exact h)
theorem gen31 (s : Bytes) (e : Go.Err) (h : ParseTie.res31 (GenP31.ParseVector s) = .err e) : e ≠ Go.errNil :=
  v31 s e (by rw [← ParseTie.v31]; exact h)
theorem gen40 (s : Bytes) (e : Go.Err) (h : ParseTie.res40 (GenP40.ParseVector s) = .err e) : e ≠ Go.errNil :=
  v40 s e (by rw [← ParseTie.v40]; exact h)
theorem gen20 (buf : List Bytes) (hbuf : buf.length = 14) (s : Bytes) (e : Go.Err)
    (h : ParseTie.res20 (GenP20.ParseVector buf s) = .err e) : e ≠ Go.errNil :=
  v20 s e (by rw [← ParseTie.v20 buf hbuf]; exact h)

/-- not vacuous: rejections exist -/
example : parse31 [] = .err eHeader ∧ eHeader ≠ Go.errNil := by decide

end C01b
