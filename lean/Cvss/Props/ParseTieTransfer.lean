import Cvss.Props.ParseTie
import Cvss.Props.C01
import Cvss.Props.C18
/-!
# ParseTieTransfer — existing parser theorems, restated for the REGENERATED parsers

The parser properties are proved about the hand-written `Model.parseXX`. `ParseTie.v20/v30/v31/v40` make every
one of them a statement about `GenPxx.ParseVector`, the text produced from the Go source on each check. Two are
transferred here as a demonstration (the others transfer the same way, by rewriting with the tie):

* C01 — the generated parser accepts exactly the specification's grammar, and never panics (on no byte string:
  no index out of range, no nil dereference, no loop fuel exhaustion);
* C18 — on a defective vector the generated parser returns exactly the documented error value (every defect of
  `Spec.Defect`, including the general "misplaced" `move i j`; v2.0 with the `afterEnv` restriction of finding F3),
  and the unconditional header clause: every byte string not beginning with `CVSS:3.x/` (v3) / being neither the bare
  `CVSS:4.0` nor beginning with `CVSS:4.0/` (v4.0) gets ErrInvalidCVSSHeader from the generated parser, and only those.
-/
namespace ParseTie
open Model GenParse

theorem isOk_ofGo {α β : Type} (f : α → β) (r : Go.Res α) : (ofGo f r).isOk = okOf r := by cases r <;> rfl
theorem ne_panic_of {α β : Type} (f : α → β) (r : Go.Res α) (h : ofGo f r ≠ .panic) : r ≠ .panic := by
  intro e; subst e; exact h rfl

/-! ## C01: acceptance ⇔ grammar, for the generated parsers -/

theorem C01_v31 (s : Bytes) : okOf (GenP31.ParseVector s) = true ↔ Spec.V3.G Spec.V3.header31 s := by
  rw [← isOk_ofGo dec31, show ofGo dec31 (GenP31.ParseVector s) = parse31 s from v31 s]; exact C01.v31 s
theorem C01_v30 (s : Bytes) : okOf (GenP30.ParseVector s) = true ↔ Spec.V3.G Spec.V3.header30 s := by
  rw [← isOk_ofGo dec30, show ofGo dec30 (GenP30.ParseVector s) = parse30 s from v30 s]; exact C01.v30 s
theorem C01_v40 (s : Bytes) : okOf (GenP40.ParseVector s) = true ↔ Spec.V4.G s := by
  rw [← isOk_ofGo GenParse40.dec40, show ofGo GenParse40.dec40 (GenP40.ParseVector s) = parse40 s from v40 s]
  exact C01.v40 s
theorem C01_v20 (buf : List Bytes) (hbuf : buf.length = 14) (s : Bytes) :
    okOf (GenP20.ParseVector buf s) = true ↔ Spec.V2.G s := by
  rw [← isOk_ofGo GenParse20.dec20,
    show ofGo GenParse20.dec20 (GenP20.ParseVector buf s) = parse20 s from v20 buf hbuf s]
  exact C01.v20 s

/-- **no panic**: on no byte string (and no pool buffer content) does a generated parser reach a panic outcome —
    no `s[i]` / `s[a:b]` / `order[i][j]` / `dst[curr]` out of range, no nil `*dst`, and neither the `l+2` fuel of
    the counting loops nor the fuel 64 of the v4 `for { }` is ever exhausted -/
theorem no_panic (buf : List Bytes) (hbuf : buf.length = 14) (s : Bytes) :
    GenP20.ParseVector buf s ≠ .panic ∧ GenP30.ParseVector s ≠ .panic ∧ GenP31.ParseVector s ≠ .panic ∧
    GenP40.ParseVector s ≠ .panic := by
  obtain ⟨h2, h30, h31, h4⟩ := C01.no_panic s
  exact ⟨ne_panic_of GenParse20.dec20 _ (by rw [show ofGo GenParse20.dec20 (GenP20.ParseVector buf s) = parse20 s from v20 buf hbuf s]; exact h2),
    ne_panic_of dec30 _ (by rw [show ofGo dec30 (GenP30.ParseVector s) = parse30 s from v30 s]; exact h30),
    ne_panic_of dec31 _ (by rw [show ofGo dec31 (GenP31.ParseVector s) = parse31 s from v31 s]; exact h31),
    ne_panic_of GenParse40.dec40 _ (by rw [show ofGo GenParse40.dec40 (GenP40.ParseVector s) = parse40 s from v40 s]; exact h4)⟩

/-! ## C18: documented error values, for the generated parsers -/

theorem C18_v31 (w : List Spec.Pair) (d : Spec.Defect) (s : Bytes) (e : Spec.ErrVal)
    (hw : ∃ s0, Spec.V3.Witness Spec.V3.header31 s0 w) (hd : d.apply .v31 w = some (s, e)) :
    GenP31.ParseVector s = .err ⟨e.1, e.2⟩ :=
  (ofGo_err_iff dec31 _ _).mp ((v31 s).trans (C18.v31 w d s e hw hd))
theorem C18_v30 (w : List Spec.Pair) (d : Spec.Defect) (s : Bytes) (e : Spec.ErrVal)
    (hw : ∃ s0, Spec.V3.Witness Spec.V3.header30 s0 w) (hd : d.apply .v30 w = some (s, e)) :
    GenP30.ParseVector s = .err ⟨e.1, e.2⟩ :=
  (ofGo_err_iff dec30 _ _).mp ((v30 s).trans (C18.v30 w d s e hw hd))
theorem C18_v40 (w : List Spec.Pair) (d : Spec.Defect) (s : Bytes) (e : Spec.ErrVal)
    (hw : ∃ s0, Spec.V4.Witness s0 w) (hd : d.apply .v40 w = some (s, e)) :
    GenP40.ParseVector s = .err ⟨e.1, e.2⟩ :=
  (ofGo_err_iff GenParse40.dec40 _ _).mp ((v40 s).trans (C18.v40 w d s e hw hd))
theorem C18_v20_partial (buf : List Bytes) (hbuf : buf.length = 14) (w : List Spec.Pair) (d : Spec.Defect) (s : Bytes)
    (e : Spec.ErrVal) (hw : ∃ s0, Spec.V2.Witness s0 w) (hd : d.apply .v20 w = some (s, e))
    (hna : C18.V2.afterEnv w d = false) : GenP20.ParseVector buf s = .err ⟨e.1, e.2⟩ :=
  (ofGo_err_iff GenParse20.dec20 _ _).mp ((v20 buf hbuf s).trans (C18.v20_partial w d s e hw hd hna))
/-- v2.0 "misplaced" in general: no side condition -/
theorem C18_v20_move (buf : List Bytes) (hbuf : buf.length = 14) (w : List Spec.Pair) (i j : Nat) (s : Bytes)
    (e : Spec.ErrVal) (hw : ∃ s0, Spec.V2.Witness s0 w) (hd : (Spec.Defect.move i j).apply .v20 w = some (s, e)) :
    GenP20.ParseVector buf s = .err eOrder :=
  (ofGo_err_iff GenParse20.dec20 _ _).mp ((v20 buf hbuf s).trans (C18.v20_move w i j s e hw hd).1)

/-! ### the header clause, for every byte string -/

theorem C18_header31 (s : Bytes) : GenP31.ParseVector s = .err eHeader ↔ ¬ (Spec.V3.header31 ++ [47]) <+: s := by
  rw [← ofGo_err_iff dec31, show ofGo dec31 (GenP31.ParseVector s) = parse31 s from v31 s]; exact C18.header31_iff s
theorem C18_header30 (s : Bytes) : GenP30.ParseVector s = .err eHeader ↔ ¬ (Spec.V3.header30 ++ [47]) <+: s := by
  rw [← ofGo_err_iff dec30, show ofGo dec30 (GenP30.ParseVector s) = parse30 s from v30 s]; exact C18.header30_iff s
theorem C18_header40 (s : Bytes) :
    GenP40.ParseVector s = .err eHeader ↔ ¬ (s = Spec.V4.header ∨ (Spec.V4.header ++ [47]) <+: s) := by
  rw [← ofGo_err_iff GenParse40.dec40, show ofGo GenParse40.dec40 (GenP40.ParseVector s) = parse40 s from v40 s]
  exact C18.header40_iff s
/-- in the specification's terms: the part before the first `/` is not `CVSS:4.0` -/
theorem C18_header40_spec (s : Bytes) : GenP40.ParseVector s = .err eHeader ↔ Spec.headOf s ≠ Spec.V4.header := by
  rw [← ofGo_err_iff GenParse40.dec40, show ofGo GenParse40.dec40 (GenP40.ParseVector s) = parse40 s from v40 s]
  exact C18.header40_spec s
/-- `CVSS:4.0` followed directly by a byte other than `/`: ErrInvalidCVSSHeader from the generated parser
    (finding F4; against the unrepaired source this is ErrInvalidMetricValue and the theorem does not compile) -/
theorem C18_v40_header_then_junk (c : Nat) (r : Bytes) (hc : c ≠ 47) :
    GenP40.ParseVector (Spec.V4.header ++ c :: r) = .err eHeader :=
  (ofGo_err_iff GenParse40.dec40 _ _).mp ((v40 _).trans (C18.v40_header_then_junk c r hc))
/-- the bare `CVSS:4.0`: ErrTooShortVector from the generated parser -/
theorem C18_v40_header_only : GenP40.ParseVector Spec.V4.header = .err eTooShort :=
  (ofGo_err_iff GenParse40.dec40 _ _).mp ((v40 _).trans C18.v40_header_only)

end ParseTie
