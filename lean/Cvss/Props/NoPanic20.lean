import Cvss.Proofs.NoPanic20Core
import Cvss.Spec.Metrics
/-!
# NoPanic (CVSS v2.0): no scoring or serialising method of `CVSS20` panics on a well-formed object

`GenK20.X_ok` (regenerated from the Go source by `tools/okgen` + the translator on every check run) returns `true`
exactly when method `X` of package `20` returns normally. For every well-formed object `c` (`c.wf = true`, i.e.
every field holds a code of one of its metric's values; `Bits20.reachable_iff_wf`: exactly the objects reachable
through the API) every twin returns `true`.

The only `panic`s of the package are the `default:` arms of the ten weight helpers (`cia`, `accessVector`, …, reached
on a field code outside the metric's values) and `get` (reached when `Get` reports an error, i.e. on an abbreviation
that is not a metric). The proofs unfold the regenerated twins down to those and use that `wf` bounds every code
(`Proofs.Score2.wf_inRange`).
-/
set_option maxRecDepth 100000
namespace Props.NoPanic20
open Model Proofs.NoPanic20 Proofs.Score2
open Spec (b isMetric)

/-! ## 4. the K copies of the ordinary functions are the V ones -/
theorem cia_tie : GenK20.cia = GenV20.cia := rfl
theorem accessVector_tie : GenK20.accessVector = GenV20.accessVector := rfl
theorem accessComplexity_tie : GenK20.accessComplexity = GenV20.accessComplexity := rfl
theorem authentication_tie : GenK20.authentication = GenV20.authentication := rfl
theorem ciar_tie : GenK20.ciar = GenV20.ciar := rfl
theorem exploitability_tie : GenK20.exploitability = GenV20.exploitability := rfl
theorem remediationLevel_tie : GenK20.remediationLevel = GenV20.remediationLevel := rfl
theorem reportConfidence_tie : GenK20.reportConfidence = GenV20.reportConfidence := rfl
theorem collateralDamagePotential_tie : GenK20.collateralDamagePotential = GenV20.collateralDamagePotential := rfl
theorem targetDistribution_tie : GenK20.targetDistribution = GenV20.targetDistribution := rfl
theorem roundTo1Decimal_tie : GenK20.roundTo1Decimal = GenV20.roundTo1Decimal := rfl
theorem impact_tie : GenK20.Impact = GenV20.Impact := rfl
theorem exploitability_method_tie : GenK20.Exploitability = GenV20.Exploitability := rfl
theorem get_tie : GenK20.Get = GenV20.Get := rfl
theorem get_core_tie : GenK20.Get_core = GenV20.Get_core := rfl
theorem app_tie : GenK20.app = GenV20.app := rfl
theorem lenVec_tie : GenK20.lenVec = GenV20.lenVec := rfl

/-! ## 1. the twins return `true` on every well-formed object -/

/-- `Impact()` does not panic -/
theorem impact_ok (c : O20) (h : c.wf = true) : GenK20.Impact_ok c.u0 c.u1 c.u2 c.u3 = true :=
  have r := wf_inRange c h
  impact_ok_core _ _ _ r.hC r.hI r.hA

/-- `Exploitability()` does not panic -/
theorem exploitability_ok (c : O20) (h : c.wf = true) : GenK20.Exploitability_ok c.u0 c.u1 c.u2 c.u3 = true :=
  have r := wf_inRange c h
  exploitability_ok_core _ _ _ r.hAV r.hAC r.hAu

/-- `BaseScore()` does not panic -/
theorem baseScore_ok (c : O20) (h : c.wf = true) : GenK20.BaseScore_ok c.u0 c.u1 c.u2 c.u3 = true :=
  have r := wf_inRange c h
  baseScore_ok_core _ _ _ _ _ _ r.hC r.hI r.hA r.hAV r.hAC r.hAu

/-- `TemporalScore()` does not panic -/
theorem temporalScore_ok (c : O20) (h : c.wf = true) : GenK20.TemporalScore_ok c.u0 c.u1 c.u2 c.u3 = true :=
  have r := wf_inRange c h
  temporalScore_ok_core _ _ _ _ _ _ _ _ _ r.hE r.hRL r.hRC r.hC r.hI r.hA r.hAV r.hAC r.hAu

/-- `EnvironmentalScore()` does not panic -/
theorem environmentalScore_ok (c : O20) (h : c.wf = true) :
    GenK20.EnvironmentalScore_ok c.u0 c.u1 c.u2 c.u3 = true :=
  have r := wf_inRange c h
  environmentalScore_ok_core _ _ _ _ _ _ _ _ _ _ _ _ _ _ r.hC r.hI r.hA r.hCR r.hIR r.hAR r.hAV r.hAC r.hAu
    r.hE r.hRL r.hRC r.hCDP r.hTD

/-- the twin of the internal `get` is "`Get` returned a nil error" (by unfolding the regenerated twin) -/
theorem get_ok_eq (c : O20) (a : Spec.Bytes) :
    GenK20.get_ok c.u0 c.u1 c.u2 c.u3 a = Go.Err.beq (c.get a).2 Go.errNil := by
  show GenK20.get_ok_core _ _ _ _ _ _ _ _ _ _ _ _ _ _ a = Go.Err.beq (GenV20.Get_core _ _ _ _ _ _ _ _ _ _ _ _ _ _ a).2 _
  rw [GenK20.get_ok_core, get_core_tie]
  generalize GenV20.Get_core _ _ _ _ _ _ _ _ _ _ _ _ _ _ a = p
  obtain ⟨s, e⟩ := p
  cases hb : Go.Err.beq e Go.errNil <;> simp [hb]

/-- on ANY state (well formed or not) the internal `get` panics exactly on the abbreviations that are not metrics -/
theorem get_ok_iff (c : O20) (a : Spec.Bytes) :
    GenK20.get_ok c.u0 c.u1 c.u2 c.u3 a = true ↔ isMetric Spec.V2.metrics a = true := by
  rw [get_ok_eq, ← Bits20.get_ok_iff c a, Go.Err.beq, decide_eq_true_iff]

/-- `get(abv)` does not panic for any abbreviation `abv` of the metric table -/
theorem get_ok (c : O20) (_h : c.wf = true) (abv : Spec.Bytes) (hm : abv ∈ Spec.V2.metrics.map (·.abv)) :
    GenK20.get_ok c.u0 c.u1 c.u2 c.u3 abv = true := by
  refine (get_ok_iff c abv).2 ?_
  have : ∀ a ∈ Spec.V2.metrics.map (·.abv), isMetric Spec.V2.metrics a = true := by decide
  exact this abv hm

/-- … spelled out: the 14 abbreviations -/
theorem get_ok_all (c : O20) (h : c.wf = true) :
    ∀ abv ∈ [b "AV", b "AC", b "Au", b "C", b "I", b "A", b "E", b "RL", b "RC", b "CDP", b "TD", b "CR", b "IR", b "AR"],
      GenK20.get_ok c.u0 c.u1 c.u2 c.u3 abv = true :=
  fun abv hm => get_ok c h abv (by
    have e : [b "AV", b "AC", b "Au", b "C", b "I", b "A", b "E", b "RL", b "RC", b "CDP", b "TD", b "CR", b "IR", b "AR"]
        = Spec.V2.metrics.map (·.abv) := by decide
    exact e ▸ hm)

/-- the core form used inside `lenVec_ok_core`/`Vector_ok_core` -/
theorem get_ok_core_metric (c : O20) (a : Spec.Bytes) (hm : isMetric Spec.V2.metrics a = true) :
    GenK20.get_ok_core (cAV c) (cAC c) (cAu c) (cC c) (cI c) (cA c) (cE c) (cRL c) (cRC c) (cCDP c) (cTD c)
      (cCR c) (cIR c) (cAR c) a = true :=
  (get_ok_iff c a).2 hm

/-- `lenVec` does not panic (on any state: it only calls `get` on metrics) -/
theorem lenVec_ok_any (c : O20) : GenK20.lenVec_ok c.u0 c.u1 c.u2 c.u3 = true := by
  show GenK20.lenVec_ok_core (cAV c) (cAC c) (cAu c) (cC c) (cI c) (cA c) (cE c) (cRL c) (cRC c) (cCDP c) (cTD c)
      (cCR c) (cIR c) (cAR c) = true
  have g := fun a hm => get_ok_core_metric c a hm
  simp only [GenK20.lenVec_ok_core, Bits.flet_eq, g _ (by decide : isMetric Spec.V2.metrics [69] = true),
    g _ (by decide : isMetric Spec.V2.metrics [82, 76] = true), g _ (by decide : isMetric Spec.V2.metrics [82, 67] = true),
    g _ (by decide : isMetric Spec.V2.metrics [67, 68, 80] = true), g _ (by decide : isMetric Spec.V2.metrics [84, 68] = true),
    g _ (by decide : isMetric Spec.V2.metrics [67, 82] = true), g _ (by decide : isMetric Spec.V2.metrics [73, 82] = true),
    g _ (by decide : isMetric Spec.V2.metrics [65, 82] = true), Bool.and_self]

theorem lenVec_ok (c : O20) (_h : c.wf = true) : GenK20.lenVec_ok c.u0 c.u1 c.u2 c.u3 = true := lenVec_ok_any c

/-- `Vector()` does not panic (on any state) -/
theorem vector_ok_any (c : O20) : GenK20.Vector_ok c.u0 c.u1 c.u2 c.u3 = true := by
  show GenK20.Vector_ok_core (cAV c) (cAC c) (cAu c) (cC c) (cI c) (cA c) (cE c) (cRL c) (cRC c) (cCDP c) (cTD c)
      (cCR c) (cIR c) (cAR c) = true
  have g := fun a hm => get_ok_core_metric c a hm
  have l : GenK20.lenVec_ok_core (cAV c) (cAC c) (cAu c) (cC c) (cI c) (cA c) (cE c) (cRL c) (cRC c) (cCDP c) (cTD c)
      (cCR c) (cIR c) (cAR c) = true := lenVec_ok_any c
  simp only [GenK20.Vector_ok_core, Bits.flet_eq, l,
    g _ (by decide : isMetric Spec.V2.metrics [65, 86] = true), g _ (by decide : isMetric Spec.V2.metrics [65, 67] = true),
    g _ (by decide : isMetric Spec.V2.metrics [65, 117] = true), g _ (by decide : isMetric Spec.V2.metrics [67] = true),
    g _ (by decide : isMetric Spec.V2.metrics [73] = true), g _ (by decide : isMetric Spec.V2.metrics [65] = true),
    g _ (by decide : isMetric Spec.V2.metrics [69] = true),
    g _ (by decide : isMetric Spec.V2.metrics [82, 76] = true), g _ (by decide : isMetric Spec.V2.metrics [82, 67] = true),
    g _ (by decide : isMetric Spec.V2.metrics [67, 68, 80] = true), g _ (by decide : isMetric Spec.V2.metrics [84, 68] = true),
    g _ (by decide : isMetric Spec.V2.metrics [67, 82] = true), g _ (by decide : isMetric Spec.V2.metrics [73, 82] = true),
    g _ (by decide : isMetric Spec.V2.metrics [65, 82] = true), Bool.and_self]

theorem vector_ok (c : O20) (_h : c.wf = true) : GenK20.Vector_ok c.u0 c.u1 c.u2 c.u3 = true := vector_ok_any c

/-- **NoPanic (v2.0)**: on a well-formed object no exported or internal method panics -/
theorem no_panic (c : O20) (h : c.wf = true) :
    GenK20.BaseScore_ok c.u0 c.u1 c.u2 c.u3 = true ∧
    GenK20.TemporalScore_ok c.u0 c.u1 c.u2 c.u3 = true ∧
    GenK20.EnvironmentalScore_ok c.u0 c.u1 c.u2 c.u3 = true ∧
    GenK20.Impact_ok c.u0 c.u1 c.u2 c.u3 = true ∧
    GenK20.Exploitability_ok c.u0 c.u1 c.u2 c.u3 = true ∧
    GenK20.Vector_ok c.u0 c.u1 c.u2 c.u3 = true ∧
    GenK20.lenVec_ok c.u0 c.u1 c.u2 c.u3 = true ∧
    (∀ m ∈ Spec.V2.metrics, GenK20.get_ok c.u0 c.u1 c.u2 c.u3 m.abv = true) :=
  ⟨baseScore_ok c h, temporalScore_ok c h, environmentalScore_ok c h, impact_ok c h, exploitability_ok c h,
   vector_ok c h, lenVec_ok c h, fun m hm => get_ok c h m.abv (List.mem_map_of_mem hm)⟩

/-- the hypothesis is satisfiable by a non-trivial object (`AV:N/AC:L/Au:N/C:C/I:C/A:C/E:H/RL:U/RC:C/CDP:H/TD:H/CR:H/IR:H/AR:H`) -/
example : (⟨0xAA, 0xA9, 0x3B, 0x3F⟩ : O20).wf = true := by decide

/-! ## 2. the functions without a twin -/

/-- The functions of package `20` in which okgen found no panic source at all (no `panic`, no index expression, no call
    of a function that can panic), so that no twin was generated: they are panic-free by construction.
    Of the API these are **`Get`** and **`Set`** (on every state and every argument); further the `Error` method of
    `ErrInvalidMetric` and the internal `app`, `roundTo1Decimal`, `validate`.
    `Vector` is NOT in the list — it goes through the panicking `get` — and is covered by `vector_ok` above (v2.0 has no
    `Rating`/`Nomenclature`). `ParseVector`/`split` are handled by the parser-mode translator (`Gen/P20.lean`), not here. -/
theorem panic_free : GenK20.tbl_okPanicFree =
    [b "CVSS20.Get", b "CVSS20.Set", b "ErrInvalidMetric.Error", b "app", b "roundTo1Decimal", b "validate"] := by
  decide

/-! ## 3. the twins do fail outside the well-formed objects (the theorems above are not vacuous) -/

/-- `u0 = 0xFF`: AV, AC, Au, C all hold the code 3, which none of the weight helpers accepts -/
example : (⟨0xFF, 0, 0, 0⟩ : O20).wf = false := by decide
example : GenK20.BaseScore_ok 0xFF 0 0 0 = false := by decide +kernel
example : GenK20.Impact_ok 0xFF 0 0 0 = false := by decide +kernel
example : GenK20.Exploitability_ok 0xFF 0 0 0 = false := by decide +kernel
example : GenK20.TemporalScore_ok 0xFF 0 0 0 = false := by decide +kernel
example : GenK20.EnvironmentalScore_ok 0xFF 0 0 0 = false := by decide +kernel
/-- only the temporal metric E out of range (code 7): base score fine, temporal score panics -/
example : GenK20.BaseScore_ok 0 0x0E 0 0 = true ∧ GenK20.TemporalScore_ok 0 0x0E 0 0 = false := by decide +kernel
/-- only the environmental metric CDP out of range (code 6): temporal score fine, environmental score panics -/
example : GenK20.TemporalScore_ok 0 0 0x0C 0 = true ∧ GenK20.EnvironmentalScore_ok 0 0 0x0C 0 = false := by
  decide +kernel
/-- the internal `get` panics on an abbreviation that is not a metric, even on the zero object -/
example : GenK20.get_ok 0 0 0 0 (b "XX") = false := by decide +kernel
/-- the weight helpers reject exactly the codes outside their metric (`Proofs.NoPanic20.helpers_exact`) -/
example : GenK20.cia_ok 3 = false ∧ GenK20.exploitability_ok 5 = false ∧ GenK20.collateralDamagePotential_ok 6 = false := by
  decide

end Props.NoPanic20
