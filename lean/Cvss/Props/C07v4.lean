import Cvss.Proofs.Reach40
/-!
# C07 (CVSS v4.0) — Get/Set round trip, frame, failed Set, equality of objects

"On any reachable object, a successful Set(m, v) makes Get(m) return v and leaves the value of every other metric
unchanged; a failed Set (unknown metric or illegal value) leaves the whole object unchanged. Two objects holding
the same metric values are equal under ==, whatever sequence of calls produced them."

All of it is proved from the generated `GenV40.Get` / `GenV40.Set`. The Get/Set parts hold for **every** object
`c : O40` (any nine `Nat`s, hence every byte state), which is stronger than "reachable"; the equality part needs
well-formedness (= reachability, `reachable_iff_wf`) because `Set("U", …)` clears the six unused bits of `u8`
that no `Get` can see (`set_U_clears_unused_bits`, `raw_counterexample`).
-/
namespace C07.V40
open Model (O40)
open Spec (b legal isMetric)
open Proofs.B40

/-- a `Set` that returns a nil error stored a legal value, reads back, and leaves all 31 other metrics alone -/
theorem set_success (c : O40) (m v : List Nat) (h : (c.set m v).2 = Go.errNil) :
    legal Spec.V4.metrics m v = true ∧ (c.set m v).1.get m = (v, Go.errNil) ∧
      ∀ m', isMetric Spec.V4.metrics m' = true → m' ≠ m → (c.set m v).1.get m' = c.get m' := by
  have hl := (set_err c m v).1 h
  exact ⟨hl, get_set_same c m v hl, fun m' hm' hne => get_set_other c m v m' hl hm' hne⟩

/-- a `Set` that returns an error (unknown metric or illegal value) leaves the whole object unchanged -/
theorem set_failure (c : O40) (m v : List Nat) (h : (c.set m v).2 ≠ Go.errNil) : (c.set m v).1 = c := by
  cases hl : legal Spec.V4.metrics m v with
  | false => exact (set_fail c m v hl).1
  | true => exact absurd (set_ok c m v hl) h

/-- … and it fails exactly when the metric is unknown or the value is not one of the metric's Spec values -/
theorem set_fails_iff (c : O40) (m v : List Nat) :
    (c.set m v).2 ≠ Go.errNil ↔ (isMetric Spec.V4.metrics m = false ∨ legal Spec.V4.metrics m v = false) := by
  rw [Ne, set_err]
  constructor
  · intro h; right; simpa using h
  · rintro (h | h) hl
    · rw [legal_isMetric hl] at h; cases h
    · rw [hl] at h; cases h

/-- two reachable objects holding the same metric values are the same object (Go `==` on the struct),
    whatever sequence of calls produced them -/
theorem eq_of_same_values (c c' : O40) (hr : O40.Reachable c) (hr' : O40.Reachable c')
    (h : ∀ m ∈ Spec.V4.metrics, (c.get m.abv).1 = (c'.get m.abv).1) : c = c' := by
  have w := (reachable_iff_wf c).1 hr
  have w' := (reachable_iff_wf c').1 hr'
  apply ext c c' w w'
  intro m hm
  exact Prod.ext (h m hm) ((wf_get c w m hm).1.trans (wf_get c' w' m hm).1.symm)

/-- storing the value a metric already has is the identity on reachable objects -/
theorem set_same_value (c : O40) (hr : O40.Reachable c) (m : Spec.Metric) (hm : m ∈ Spec.V4.metrics) :
    c.set m.abv (c.get m.abv).1 = (c, Go.errNil) :=
  set_get_id c ((reachable_iff_wf c).1 hr) m hm

/-- `Set` keeps bytes bytes -/
theorem set_bytes (c : O40) (m v : List Nat) (hc : c.IsBytes) : (c.set m v).1.IsBytes := set_isBytes c m v hc

/-- What is *not* true on arbitrary byte states: `Set("U", v)` does not preserve the unused low six bits of
    `u8` — it zeroes them (`u8 = (v & 0b011) << 6`), all other arms keep `u8`. -/
theorem set_U_clears_unused_bits (c : O40) (v : List Nat) (h : legal Spec.V4.metrics (b "U") v = true) :
    (c.set (b "U") v).1.u8 % 64 = 0 := set_U_u8 c v h
theorem set_other_keeps_u8 (c : O40) (m v : List Nat) (h : m ≠ b "U") : (c.set m v).1.u8 = c.u8 :=
  set_notU_u8 c m v h

/-- hence on a non-well-formed byte state a successful `Set(m, Get(m))` can change the object
    (`rawU = ⟨0,…,0,1⟩`: `Get("U") = "X"`, `Set("U","X")` yields the zero object). -/
theorem raw_counterexample :
    rawU.IsBytes ∧ rawU.get (b "U") = (b "X", Go.errNil) ∧
      rawU.set (b "U") (b "X") = (O40.zero, Go.errNil) ∧ O40.zero ≠ rawU := set_get_id_fails_raw

/-! Satisfiability of the hypotheses on concrete non-trivial objects. -/
def c1 : O40 := (((O40.zero.set (b "AV") (b "L")).1.set (b "MSI") (b "S")).1.set (b "U") (b "Amber")).1
def c2 : O40 := ((((O40.zero.set (b "U") (b "Amber")).1.set (b "MSI") (b "N")).1.set (b "AV") (b "L")).1.set (b "MSI") (b "S")).1
example : O40.Reachable c1 := .set _ _ _ (.set _ _ _ (.set _ _ _ .zero))
example : (c1.set (b "MAC") (b "L")).2 = Go.errNil ∧ (c1.set (b "MAC") (b "L")).1.get (b "MAC") = (b "L", Go.errNil)
    ∧ (c1.set (b "MAC") (b "L")).1.get (b "MSI") = (b "S", Go.errNil) := by decide +kernel
example : (c1.set (b "MAC") (b "N")).2 ≠ Go.errNil ∧ (c1.set (b "mac") (b "L")).2 ≠ Go.errNil := by decide +kernel
/-- different histories, same values, same object -/
example : c1 = c2 := by decide +kernel

end C07.V40
