import Cvss.Props.C01
import Cvss.Props.C02
/-!
# C09, consequence — `Vector()` of every reachable object is a grammatical vector of its version
(from C02: the own parser accepts it, and C01: acceptance = membership in the grammar).
-/
namespace C09
open Model

theorem vector_grammatical20 (c : O20) (h : c.wf = true) : Spec.V2.G c.vector :=
  (C01.v20 c.vector).mp (by rw [C02.v20 c h]; rfl)
theorem vector_grammatical30 (c : O30) (h : c.wf = true) : Spec.V3.G Spec.V3.header30 c.vector :=
  (C01.v30 c.vector).mp (by rw [C02.v30 c h]; rfl)
theorem vector_grammatical31 (c : O31) (h : c.wf = true) : Spec.V3.G Spec.V3.header31 c.vector :=
  (C01.v31 c.vector).mp (by rw [C02.v31 c h]; rfl)
theorem vector_grammatical40 (c : O40) (h : c.wf = true) : Spec.V4.G c.vector :=
  (C01.v40 c.vector).mp (by rw [C02.v40 c h]; rfl)

end C09
