import Cvss.Proofs.GenParse20
import Cvss.Proofs.GenParse3
import Cvss.Proofs.GenParse40
/-!
# ParseTie — the regenerated parsers ARE the hand-written parser models

`Cvss/Gen/P20.lean, P30.lean, P31.lean, P40.lean` are produced from the Go source on every check by `tools/gen`
(parser mode: `ParseVector`, v2 `split`, v3 `splitCouple` and `kvm.Set`). The hand-written models
`Model.parse20/30/31/40` (`Cvss/Model/Parse.lean`) are what every parser property (C01, C02, C06, C08, C13, C18, …)
is proved about. This file states, for EVERY byte string `s` (any `List Nat`; no `< 256` or length hypothesis is
needed), that the generated parser and the model agree completely:

    ofGo dec (GenPxx.ParseVector s) = Model.parseXX s

i.e. the same object on success (`dec` packs the byte tuple into `Model.Oxx`), the same error value (code and
`Abv` payload) on failure, and a panic outcome (index out of range, nil dereference, loop fuel exhausted) on one
side iff on the other. For v2.0 the statement holds for every content of the pooled 14-slot buffer.

With these theorems no source-hash tie is needed for `ParseVector`, `split`, `splitCouple`, `kvm.Set` (an earlier one was
removed): a change of the Go text changes `Gen/P*.lean`, and either these theorems still hold (the
change is behaviour-preserving with respect to the model) or they fail to compile.
-/
namespace ParseTie
open Model GenParse

/-- generated result → model result, per version -/
abbrev res20 : Go.Res (Nat × Nat × Nat × Nat) → Res O20 := ofGo GenParse20.dec20
abbrev res30 : Go.Res T6 → Res O30 := ofGo dec30
abbrev res31 : Go.Res T6 → Res O31 := ofGo dec31
abbrev res40 : Go.Res GenParse40.T9 → Res O40 := ofGo GenParse40.dec40

/-- **v3.1** -/
theorem v31 (s : Bytes) : res31 (GenP31.ParseVector s) = parse31 s := genParse31 s
/-- **v3.0** -/
theorem v30 (s : Bytes) : res30 (GenP30.ParseVector s) = parse30 s := genParse30 s
/-- **v4.0** -/
theorem v40 (s : Bytes) : res40 (GenP40.ParseVector s) = parse40 s := GenParse40.genParse40 s
/-- **v2.0**, for every 14-slot pool buffer -/
theorem v20 (buf : List Bytes) (hbuf : buf.length = 14) (s : Bytes) :
    res20 (GenP20.ParseVector buf s) = parse20 s := GenParse20.genParse20 buf hbuf s

/-- the v2.0 result does not depend on what the pool hands out -/
theorem v20_buffer_independent (b1 b2 : List Bytes) (h1 : b1.length = 14) (h2 : b2.length = 14) (s : Bytes) :
    GenP20.ParseVector b1 s = GenP20.ParseVector b2 s := by
  have e := (v20 b1 h1 s).trans (v20 b2 h2 s).symm
  revert e
  cases GenP20.ParseVector b1 s <;> cases GenP20.ParseVector b2 s <;> simp [res20, ofGo]
  rename_i c1 c2
  obtain ⟨a, b, c, d⟩ := c1
  obtain ⟨a', b', c', d'⟩ := c2
  simp [GenParse20.dec20]

/-! ### unfolded readings of the equalities -/

theorem ofGo_ok_iff {α β : Type} (f : α → β) (r : Go.Res α) (c : β) :
    ofGo f r = .ok c ↔ ∃ t, r = .ok t ∧ f t = c := by
  cases r <;> simp [ofGo]
theorem ofGo_err_iff {α β : Type} (f : α → β) (r : Go.Res α) (e : Go.Err) : ofGo f r = .err e ↔ r = .err e := by
  cases r <;> simp [ofGo]
theorem ofGo_panic_iff {α β : Type} (f : α → β) (r : Go.Res α) : ofGo f r = .panic ↔ r = .panic := by
  cases r <;> simp [ofGo]

/-- v3.1, spelled out: success with the same object, failure with the same error, panic iff panic -/
theorem v31_cases (s : Bytes) :
    (∀ c, parse31 s = .ok c ↔ ∃ t, GenP31.ParseVector s = .ok t ∧ dec31 t = c) ∧
    (∀ e, parse31 s = .err e ↔ GenP31.ParseVector s = .err e) ∧
    (parse31 s = .panic ↔ GenP31.ParseVector s = .panic) := by
  rw [← v31 s]
  exact ⟨fun c => ofGo_ok_iff _ _ _, fun e => ofGo_err_iff _ _ _, ofGo_panic_iff _ _⟩

/-! ### the statements are not vacuous: concrete evaluations of the generated parsers -/

def okOf {α : Type} : Go.Res α → Bool | .ok _ => true | _ => false
def errOf {α : Type} : Go.Res α → Option Go.Err | .err e => some e | _ => none

/-- a 14-slot buffer with stale content exists (hypothesis of `v20`) -/
example : (List.replicate 14 ([65, 86, 58, 78] : Bytes)).length = 14 := rfl

/-- "CVSS:3.1/AV:N/AC:L/PR:N/UI:N/S:U/C:H/I:H/A:H" is accepted by the generated v3.1 parser -/
example : okOf (GenP31.ParseVector
    [67,86,83,83,58,51,46,49,47,65,86,58,78,47,65,67,58,76,47,80,82,58,78,47,85,73,58,78,47,83,58,85,47,67,58,72,47,
     73,58,72,47,65,58,72]) = true := by decide +kernel

/-- "CVSS:3.1/AV:N" is rejected by the generated v3.1 parser with `ErrMissing{Abv: "AC"}` -/
example : errOf (GenP31.ParseVector [67,86,83,83,58,51,46,49,47,65,86,58,78]) = some ⟨103, [65, 67]⟩ := by
  decide +kernel

/-- "CVSS:3.0/AV:N/AV:N" is rejected by the generated v3.0 parser with `ErrDefinedN{Abv: "AV"}` -/
example : errOf (GenP30.ParseVector [67,86,83,83,58,51,46,48,47,65,86,58,78,47,65,86,58,78]) = some ⟨102, [65, 86]⟩ := by
  decide +kernel

/-- "AV:N/AC:L/Au:N/C:P/I:P/A:P" is accepted by the generated v2.0 parser on a buffer of stale strings -/
example : okOf (GenP20.ParseVector (List.replicate 14 [65, 86, 58, 78])
    [65,86,58,78,47,65,67,58,76,47,65,117,58,78,47,67,58,80,47,73,58,80,47,65,58,80]) = true := by decide +kernel

/-- "CVSS:4.0/AV:N" is rejected by the generated v4.0 parser with `ErrTooShortVector` -/
example : errOf (GenP40.ParseVector [67,86,83,83,58,52,46,48,47,65,86,58,78]) = some ⟨2, []⟩ := by decide +kernel

end ParseTie
