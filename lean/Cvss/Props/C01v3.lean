import Cvss.Proofs.Parse3Read
import Cvss.Proofs.Parse3Inst
/-!
# C01 (v3.0 / v3.1): `ParseVector` accepts exactly the grammar — for every byte string

Generic in the header `hdr` and in a `Contract` `K` for the generated `Get`/`Set` (instances are proved from
the bit-field code elsewhere). The parser model is `Model.parse3 (hdr ++ "/") K.zero K.set`.
-/
namespace C01.V3
open Proofs Proofs.Parse3
open Spec (Bytes Pair render joinSlash legal)

variable {O : Type} (K : Contract O Spec.V3.metrics) (hdr : Bytes)

/-- **accepts ⇔ grammar**, for all byte strings (no length bound) -/
theorem accepts_iff (s : Bytes) :
    (Model.parse3 (hdr ++ [47]) K.zero K.set s).isOk = true ↔ Spec.V3.G hdr s := by
  constructor
  · intro h
    cases hp : Model.parse3 (hdr ++ [47]) K.zero K.set s with
    | ok c =>
      obtain ⟨w, hw, _⟩ := parse3_sound K hdr s c hp
      exact ⟨w, hw⟩
    | err e => rw [hp] at h; cases h
    | panic => rw [hp] at h; cases h
  · rintro ⟨w, hw⟩
    obtain ⟨hs, hw'⟩ := (witness_iff _ _ _).mp hw
    subst hs
    have := parse3_witness K hdr w hw'
    exact (congrArg Model.Res.isOk this).trans rfl

/-- the parser model never panics (whatever the `Set`) -/
theorem no_panic (header : Bytes) (zero : O) (set : O → Bytes → Bytes → O × Go.Err) (s : Bytes) :
    Model.parse3 header zero set s ≠ .panic := parse3_no_panic header zero set s

/-- **the executable recogniser is exactly the grammar** and returns the witness -/
theorem read?_iff (s : Bytes) (w : List Pair) :
    Spec.V3.read? hdr s = some w ↔ Spec.V3.Witness hdr s w := read?_eq_some_iff hdr s w

theorem G_iff_read? (s : Bytes) : Spec.V3.G hdr s ↔ (Spec.V3.read? hdr s).isSome = true :=
  Parse3.G_iff_read? hdr s

/-- a grammatical string has exactly one reading -/
theorem witness_unique (s : Bytes) (w₁ w₂ : List Pair)
    (h₁ : Spec.V3.Witness hdr s w₁) (h₂ : Spec.V3.Witness hdr s w₂) : w₁ = w₂ := Parse3.witness_unique h₁ h₂

/-- the parser and the recogniser agree on every byte string -/
theorem accepts_iff_read? (s : Bytes) :
    (Model.parse3 (hdr ++ [47]) K.zero K.set s).isOk = (Spec.V3.read? hdr s).isSome := by
  rw [Bool.eq_iff_iff, accepts_iff, G_iff_read?]

/-! ## Corollaries spelled out -/

/-- **case-sensitivity**: after the header only `/`, `:` and upper-case ASCII letters occur -/
theorem case_sensitive (s : Bytes) (h : Spec.V3.G hdr s) :
    ∀ x ∈ s.drop hdr.length, x = 47 ∨ x = 58 ∨ (65 ≤ x ∧ x ≤ 90) := G_body_bytes h

/-- **every element is `abv:value` of a legal pair**, in particular … -/
theorem elements_legal (s : Bytes) (h : Spec.V3.G hdr s) :
    ∀ el ∈ Spec.splitSlash (s.drop (hdr.length + 1)),
      ∃ p : Pair, el = render p ∧ legal Spec.V3.metrics p.1 p.2 = true := G_elements h

/-- … **no empty element** … -/
theorem no_empty_element (s : Bytes) (h : Spec.V3.G hdr s) :
    [] ∉ Spec.splitSlash (s.drop (hdr.length + 1)) := G_no_empty h

/-- … no `//` anywhere after the header's own `/` (with `a = []`: nothing like `CVSS:3.1//AV:N…`) … -/
theorem no_double_slash (s : Bytes) (h : Spec.V3.G hdr s) (a b : Bytes) :
    s ≠ hdr ++ 47 :: (a ++ 47 :: 47 :: b) := G_no_double_slash h a b

/-- … and **no trailing `/`** -/
theorem no_trailing_slash (s : Bytes) (h : Spec.V3.G hdr s) (t : Bytes) : s ≠ t ++ [47] :=
  G_no_trailing_slash h t

/-- **nothing before the header** (and the header is followed by `/`) -/
theorem nothing_before_header (s : Bytes) (h : Spec.V3.G hdr s) : (hdr ++ [47]) <+: s := by
  obtain ⟨w, rfl, _⟩ := h
  exact ⟨joinSlash (w.map render), by simp [Spec.SLASH]⟩

/-- at least the eight base metrics are present -/
theorem at_least_base (s : Bytes) (w : List Pair) (h : Spec.V3.Witness hdr s w) :
    ∀ m ∈ Spec.V3.base, m.abv ∈ w.map (·.1) := h.2.2.2

/-! concrete members and non-members (decided through `read?`, which is the grammar) -/
example : Spec.V3.G Spec.V3.header31 (Spec.b "CVSS:3.1/AV:N/AC:L/PR:N/UI:N/S:U/C:H/I:H/A:H") := by decide
example : Spec.V3.G Spec.V3.header30 (Spec.b "CVSS:3.0/S:U/C:H/I:H/A:H/AV:N/AC:L/PR:N/UI:N/MAV:X/E:F") := by decide
example : ¬ Spec.V3.G Spec.V3.header31 (Spec.b "CVSS:3.1/av:N/AC:L/PR:N/UI:N/S:U/C:H/I:H/A:H") := by decide
example : ¬ Spec.V3.G Spec.V3.header31 (Spec.b "CVSS:3.1/AV:n/AC:L/PR:N/UI:N/S:U/C:H/I:H/A:H") := by decide
example : ¬ Spec.V3.G Spec.V3.header31 (Spec.b "cvss:3.1/AV:N/AC:L/PR:N/UI:N/S:U/C:H/I:H/A:H") := by decide
example : ¬ Spec.V3.G Spec.V3.header31 (Spec.b " CVSS:3.1/AV:N/AC:L/PR:N/UI:N/S:U/C:H/I:H/A:H") := by decide
example : ¬ Spec.V3.G Spec.V3.header31 (Spec.b "CVSS:3.1/AV:N/AC:L/PR:N/UI:N/S:U/C:H/I:H/A:H/") := by decide
example : ¬ Spec.V3.G Spec.V3.header31 (Spec.b "CVSS:3.1/AV:N//AC:L/PR:N/UI:N/S:U/C:H/I:H/A:H") := by decide
example : ¬ Spec.V3.G Spec.V3.header31 (Spec.b "CVSS:3.1/AV:N/AC:L/PR:N/UI:N/S:U/C:H/I:H/A:H/AV:N") := by decide
example : ¬ Spec.V3.G Spec.V3.header31 (Spec.b "CVSS:3.1/AV:N/AC:L/PR:N/UI:N/S:U/C:H/I:H") := by decide
example : ¬ Spec.V3.G Spec.V3.header31 (Spec.b "CVSS:3.0/AV:N/AC:L/PR:N/UI:N/S:U/C:H/I:H/A:H") := by decide

/-! ## Instances: `Model.parse30` / `Model.parse31`

Only the header constants of the generated code are used (`Parse3.const_header30/31`, by evaluation).
**Final instantiation**: supply the concrete contracts (`contract30`, `contract31`, proved from the generated
bit-field code) for `K30`/`K31`; `hz`/`hs` are then `rfl`. -/
section Instances
open Model (O30 O31)
variable (K30 : Contract O30 Spec.V3.metrics) (hz30 : K30.zero = O30.zero) (hs30 : K30.set = O30.set)
variable (K31 : Contract O31 Spec.V3.metrics) (hz31 : K31.zero = O31.zero) (hs31 : K31.set = O31.set)
include hz30 hs30 in
theorem accepts_iff_30 (s : Bytes) : (Model.parse30 s).isOk = true ↔ Spec.V3.G Spec.V3.header30 s := by
  rw [parse30_eq_K K30 hz30 hs30]; exact accepts_iff K30 _ s
include hz31 hs31 in
theorem accepts_iff_31 (s : Bytes) : (Model.parse31 s).isOk = true ↔ Spec.V3.G Spec.V3.header31 s := by
  rw [parse31_eq_K K31 hz31 hs31]; exact accepts_iff K31 _ s

/-- needs no contract at all -/
theorem no_panic_30 (s : Bytes) : Model.parse30 s ≠ .panic := parse3_no_panic _ _ _ s
theorem no_panic_31 (s : Bytes) : Model.parse31 s ≠ .panic := parse3_no_panic _ _ _ s
end Instances

end C01.V3
