import Cvss.Gen.V30
import Cvss.Gen.V31
import Cvss.Gen.V40
import Cvss.Spec.Rating
import Cvss.Proofs.F64Order
/-!
# C15 — `Rating` follows the qualitative severity rating scale

For **every** `float64` (every 64-bit pattern `x < 2^64`) that is not a NaN, the generated models of
`Rating` in packages 30, 31 and 40 return exactly what the scale of `Spec/Rating.lean` prescribes for
the *real number* (or ±∞) denoted by `x`:

    NONE on [0, 1/10)   LOW on [1/10, 4)   MEDIUM on [4, 7)   HIGH on [7, 9)   CRITICAL on [9, 10]

with a nil error, and `("", ErrOutOfBoundsScore)` for anything below 0 or above 10 (−∞, +∞ included;
`−0.0` is the real number 0, hence NONE).  The three packages' functions are equal.  On a NaN (about which
the specification says nothing) all three return `("NONE", nil)`.

No enumeration of floats: the proofs unfold the generated definitions, replace `F64.lt/F64.le` by the
order of the exact values (`Proofs/F64Order.lean`), use the number-theoretic lemma about the constant
`0.1` and finish with linear integer arithmetic.  A changed threshold, a `>=` turned into `>` or a
changed result string in one package makes the corresponding theorem fail after regeneration.
-/
namespace C15
open Spec F64Order

/-- How an outcome of the specification appears as a Go result `(string, error)`:
    `Go.Err.mk 5 []` is the sentinel `ErrOutOfBoundsScore`, `Go.errNil` is `nil`.
    Nothing is prescribed for NaN (`none`). -/
def goResult : Outcome → Option (List Nat × Go.Err)
  | .ok s => some (s.name, Go.errNil)
  | .outOfBounds => some ([], Go.Err.mk 5 [])
  | .unspecified => none

/-- the error value for a code of the driver-facing `Spec.ratingOfBits` -/
def errOfCode (c : Nat) : Go.Err := if c = Spec.ratingOk then Go.errNil else Go.Err.mk 5 []

/-! ### what the IEEE bit patterns of the thresholds denote (facts about binary64, not about the code) -/

theorem bits_zero  : F64Val.ofBits 0x0000000000000000 = .fin 0 := by decide +kernel
theorem bits_four  : F64Val.ofBits 0x4010000000000000 = .fin (4 * (F64Val.den : Int)) := by decide +kernel
theorem bits_seven : F64Val.ofBits 0x401c000000000000 = .fin (7 * (F64Val.den : Int)) := by decide +kernel
theorem bits_nine  : F64Val.ofBits 0x4022000000000000 = .fin (9 * (F64Val.den : Int)) := by decide +kernel
theorem bits_ten   : F64Val.ofBits 0x4024000000000000 = .fin (10 * (F64Val.den : Int)) := by decide +kernel

theorem cond_iff {α : Type} {b : Bool} {P : Prop} [Decidable P] (h : b = true ↔ P) (A B : α) :
    cond b A B = if P then A else B := by
  cases b
  · have : ¬ P := fun p => by cases h.mpr p
    rw [if_neg this]; rfl
  · rw [if_pos (h.mp rfl)]; rfl

theorem or_iff {b c : Bool} {P Q : Prop} (h : b = true ↔ P) (k : c = true ↔ Q) :
    (b || c) = true ↔ P ∨ Q := by
  rw [Bool.or_eq_true, h, k]

/-- **The scale, in the shape of a cascade of comparisons on the exact value.**
    `v < 0 ∨ 10 < v → out of bounds; 9 ≤ v → CRITICAL; 7 ≤ v → HIGH; 4 ≤ v → MEDIUM; 1/10 ≤ v → LOW; else NONE`
    agrees with `Spec.rating` on every non-NaN value, whatever Booleans `b…` decide the comparisons.
    Pure statement about the Spec (no code, no floats). -/
theorem cascade (v : F64Val) (hv : v ≠ .nan) (b0 b10 b9 b7 b4 b1 : Bool)
    (h0 : b0 = true ↔ F64Val.lt v (.fin 0))
    (h10 : b10 = true ↔ F64Val.lt (.fin (10 * (F64Val.den : Int))) v)
    (h9 : b9 = true ↔ F64Val.le (.fin (9 * (F64Val.den : Int))) v)
    (h7 : b7 = true ↔ F64Val.le (.fin (7 * (F64Val.den : Int))) v)
    (h4 : b4 = true ↔ F64Val.le (.fin (4 * (F64Val.den : Int))) v)
    (h1 : b1 = true ↔ GeTenth v) :
    some (cond (b0 || b10)
      (([] : List Nat), Go.Err.mk 5 [])
      (cond b9 (Severity.critical.name, Go.errNil)
      (cond b7 (Severity.high.name, Go.errNil)
      (cond b4 (Severity.medium.name, Go.errNil)
      (cond b1 (Severity.low.name, Go.errNil)
        (Severity.none.name, Go.errNil))))))
    = goResult (rating v) := by
  have hd := den_pos
  cases v with
  | nan => exact absurd rfl hv
  | negInf =>
    simp only [F64Val.lt] at h0
    rw [h0.mpr trivial]; rfl
  | posInf =>
    simp only [F64Val.lt] at h10
    rw [h10.mpr trivial, Bool.or_true]; rfl
  | fin n =>
    simp only [F64Val.lt, F64Val.le, GeTenth] at h0 h10 h9 h7 h4 h1
    rw [cond_iff (or_iff h0 h10), cond_iff h9, cond_iff h7, cond_iff h4, cond_iff h1]
    simp only [rating, ratingQ]
    repeat' split
    all_goals first | rfl | (exfalso; omega)

/-- the proof script shared by the three packages, run on the *unfolded generated definition*:
    every comparison of the code is replaced by the comparison of exact values it computes
    (`F64Order.lt_iff/le_iff`, the 0.1 lemma `tenth_threshold`), then `cascade` applies. -/
macro "rating_spec" x:ident hx:ident hn:ident : tactic => `(tactic|
  (have hnan : F64Val.ofBits $x ≠ .nan := fun h => by
     rw [(ofBits_nan_iff $x).mp h] at $hn:ident; cases $hn:ident
   have h0 := lt_iff $x 0x0000000000000000 $hx (by decide)
   have h10 := lt_iff 0x4024000000000000 $x (by decide) $hx
   have h9 := le_iff 0x4022000000000000 $x (by decide) $hx
   have h7 := le_iff 0x401c000000000000 $x (by decide) $hx
   have h4 := le_iff 0x4010000000000000 $x (by decide) $hx
   have h1 := (le_iff TENTH $x (by decide) $hx).trans (tenth_threshold $x $hx $hn)
   rw [bits_zero] at h0
   rw [bits_ten] at h10
   rw [bits_nine] at h9
   rw [bits_seven] at h7
   rw [bits_four] at h4
   exact cascade (F64Val.ofBits $x) hnan _ _ _ _ _ _ h0 h10 h9 h7 h4 h1))

/-! ## The property, per package -/

/-- **C15, v3.1.** For every non-NaN `float64` bit pattern, `Rating` returns what the scale prescribes
    for the exact value (string bytes and error). -/
theorem rating31_spec (x : Nat) (hx : x < 2^64) (hn : F64.isNaN x = false) :
    some (GenV31.Rating x) = goResult (Spec.rating (F64Val.ofBits x)) := by
  unfold GenV31.Rating
  rating_spec x hx hn

/-- **C15, v3.0.** -/
theorem rating30_spec (x : Nat) (hx : x < 2^64) (hn : F64.isNaN x = false) :
    some (GenV30.Rating x) = goResult (Spec.rating (F64Val.ofBits x)) := by
  unfold GenV30.Rating
  rating_spec x hx hn

/-- **C15, v4.0.** -/
theorem rating40_spec (x : Nat) (hx : x < 2^64) (hn : F64.isNaN x = false) :
    some (GenV40.Rating x) = goResult (Spec.rating (F64Val.ofBits x)) := by
  unfold GenV40.Rating
  rating_spec x hx hn

/-- **The three packages behave identically** — on every `Nat`, not only on 64-bit patterns; proved by
    unfolding the three generated definitions. -/
theorem rating_same (x : Nat) :
    GenV30.Rating x = GenV31.Rating x ∧ GenV31.Rating x = GenV40.Rating x := by
  unfold GenV30.Rating GenV31.Rating GenV40.Rating
  exact ⟨rfl, rfl⟩

/-! ## NaN -/

theorem lt_nan_left (x y : Nat) (h : F64.isNaN x = true) : F64.lt x y = false := by
  unfold F64.lt
  rw [flet_eq, flet_eq]
  have hf : F64.isFin2 x y = false := by
    cases hh : F64.isFin2 x y
    · rfl
    · rw [(isFin2_notNaN x y hh).1] at h; cases h
  rw [hf, cond_false]
  unfold FB.lt
  rw [fb_isNaN_eq, h]; rfl

theorem lt_nan_right (x y : Nat) (h : F64.isNaN y = true) : F64.lt x y = false := by
  unfold F64.lt
  rw [flet_eq, flet_eq]
  have hf : F64.isFin2 x y = false := by
    cases hh : F64.isFin2 x y
    · rfl
    · rw [(isFin2_notNaN x y hh).2] at h; cases h
  rw [hf, cond_false]
  unfold FB.lt
  rw [fb_isNaN_eq, fb_isNaN_eq, h, Bool.not_true, Bool.and_false, Bool.false_and]

theorem le_nan_right (x y : Nat) (h : F64.isNaN y = true) : F64.le x y = false := by
  unfold F64.le
  rw [flet_eq, flet_eq]
  have hf : F64.isFin2 x y = false := by
    cases hh : F64.isFin2 x y
    · rfl
    · rw [(isFin2_notNaN x y hh).2] at h; cases h
  rw [hf, cond_false]
  unfold FB.le
  rw [fb_isNaN_eq, fb_isNaN_eq, h, Bool.not_true, Bool.and_false, Bool.false_and]

/-- **On a NaN** every comparison is false, so all three `Rating` functions fall through to the last
    `return`: they answer `("NONE", nil)`, not an error. (Holds for every `Nat` whose exponent field is
    all ones and fraction non-zero, 64-bit or not.) -/
theorem rating31_nan (x : Nat) (h : F64.isNaN x = true) :
    GenV31.Rating x = (Severity.none.name, Go.errNil) := by
  unfold GenV31.Rating
  rw [lt_nan_left _ _ h, lt_nan_right _ _ h, le_nan_right _ _ h, le_nan_right _ _ h,
    le_nan_right _ _ h, le_nan_right _ _ h]
  rfl

theorem rating30_nan (x : Nat) (h : F64.isNaN x = true) :
    GenV30.Rating x = (Severity.none.name, Go.errNil) := by
  rw [(rating_same x).1]; exact rating31_nan x h

theorem rating40_nan (x : Nat) (h : F64.isNaN x = true) :
    GenV40.Rating x = (Severity.none.name, Go.errNil) := by
  rw [← (rating_same x).2]; exact rating31_nan x h

/-! ## Readable corollaries: the property as worded -/

/-- The intervals, spelled out on the exact value `num / den` of a finite pattern
    (`den = 2^1075`; `v ≥ 1/10` is `den ≤ 10·num`). -/
theorem rating31_intervals (x : Nat) (hx : x < 2^64) (n : Int) (h : F64Val.ofBits x = .fin n) :
    let d : Int := F64Val.den
    (0 ≤ n ∧ 10 * n < d → GenV31.Rating x = ([78, 79, 78, 69], Go.errNil)) ∧                       -- NONE
    (d ≤ 10 * n ∧ n < 4 * d → GenV31.Rating x = ([76, 79, 87], Go.errNil)) ∧                       -- LOW
    (4 * d ≤ n ∧ n < 7 * d → GenV31.Rating x = ([77, 69, 68, 73, 85, 77], Go.errNil)) ∧            -- MEDIUM
    (7 * d ≤ n ∧ n < 9 * d → GenV31.Rating x = ([72, 73, 71, 72], Go.errNil)) ∧                    -- HIGH
    (9 * d ≤ n ∧ n ≤ 10 * d → GenV31.Rating x = ([67, 82, 73, 84, 73, 67, 65, 76], Go.errNil)) ∧   -- CRITICAL
    (n < 0 ∨ 10 * d < n → GenV31.Rating x = ([], Go.Err.mk 5 [])) := by
  intro d
  have hn : F64.isNaN x = false := by
    cases hh : F64.isNaN x
    · rfl
    · rw [(ofBits_nan_iff x).mpr hh] at h; cases h
  have main := rating31_spec x hx hn
  rw [h] at main
  simp only [rating] at main
  have key : ∀ o, Scale n F64Val.den o → some (GenV31.Rating x) = goResult o := by
    intro o ho
    rw [scale_unique n F64Val.den den_pos o ho]; exact main
  refine ⟨fun c => ?_, fun c => ?_, fun c => ?_, fun c => ?_, fun c => ?_, fun c => ?_⟩
  · exact Option.some.inj (key (.ok .none) c)
  · exact Option.some.inj (key (.ok .low) c)
  · exact Option.some.inj (key (.ok .medium) c)
  · exact Option.some.inj (key (.ok .high) c)
  · exact Option.some.inj (key (.ok .critical) c)
  · exact Option.some.inj (key .outOfBounds c)

/-- ±∞ are out of bounds -/
theorem rating31_inf (x : Nat) (hx : x < 2^64)
    (h : F64Val.ofBits x = .posInf ∨ F64Val.ofBits x = .negInf) :
    GenV31.Rating x = ([], Go.Err.mk 5 []) := by
  have hn : F64.isNaN x = false := by
    cases hh : F64.isNaN x
    · rfl
    · rw [(ofBits_nan_iff x).mpr hh] at h; rcases h with h | h <;> cases h
  have main := rating31_spec x hx hn
  rcases h with h | h <;> rw [h] at main <;> exact Option.some.inj main

/-- link with the driver-facing executable `Spec.ratingOfBits` -/
theorem rating31_driver (x : Nat) (hx : x < 2^64) (hn : F64.isNaN x = false) :
    GenV31.Rating x = ((Spec.ratingOfBits x).1, errOfCode (Spec.ratingOfBits x).2) := by
  have main := rating31_spec x hx hn
  unfold Spec.ratingOfBits
  cases hr : Spec.rating (F64Val.ofBits x) with
  | ok s => rw [hr] at main; exact Option.some.inj main
  | outOfBounds => rw [hr] at main; exact Option.some.inj main
  | unspecified => rw [hr] at main; cases main

theorem rating30_driver (x : Nat) (hx : x < 2^64) (hn : F64.isNaN x = false) :
    GenV30.Rating x = ((Spec.ratingOfBits x).1, errOfCode (Spec.ratingOfBits x).2) := by
  rw [(rating_same x).1]; exact rating31_driver x hx hn

theorem rating40_driver (x : Nat) (hx : x < 2^64) (hn : F64.isNaN x = false) :
    GenV40.Rating x = ((Spec.ratingOfBits x).1, errOfCode (Spec.ratingOfBits x).2) := by
  rw [← (rating_same x).2]; exact rating31_driver x hx hn

/-! ## The interesting points (evaluated by the kernel on the generated definitions) -/

-- fl(0.1) = 0x3fb999999999999a is LOW; its predecessor (the largest double below 1/10) is NONE
example : GenV31.Rating 0x3fb999999999999a = ([76, 79, 87], Go.errNil) := by decide +kernel
example : GenV31.Rating 0x3fb9999999999999 = ([78, 79, 78, 69], Go.errNil) := by decide +kernel
-- 4.0 and its predecessor
example : GenV31.Rating 0x4010000000000000 = ([77, 69, 68, 73, 85, 77], Go.errNil) := by decide +kernel
example : GenV31.Rating 0x400fffffffffffff = ([76, 79, 87], Go.errNil) := by decide +kernel
-- 7.0 and its predecessor
example : GenV31.Rating 0x401c000000000000 = ([72, 73, 71, 72], Go.errNil) := by decide +kernel
example : GenV31.Rating 0x401bffffffffffff = ([77, 69, 68, 73, 85, 77], Go.errNil) := by decide +kernel
-- 9.0 and its predecessor
example : GenV31.Rating 0x4022000000000000 = ([67, 82, 73, 84, 73, 67, 65, 76], Go.errNil) := by decide +kernel
example : GenV31.Rating 0x4021ffffffffffff = ([72, 73, 71, 72], Go.errNil) := by decide +kernel
-- 10.0 is CRITICAL, its successor is out of bounds
example : GenV31.Rating 0x4024000000000000 = ([67, 82, 73, 84, 73, 67, 65, 76], Go.errNil) := by decide +kernel
example : GenV31.Rating 0x4024000000000001 = ([], Go.Err.mk 5 []) := by decide +kernel
-- +0.0, −0.0 (the real number 0: in bounds), smallest subnormals of both signs
example : GenV31.Rating 0x0000000000000000 = ([78, 79, 78, 69], Go.errNil) := by decide +kernel
example : GenV31.Rating 0x8000000000000000 = ([78, 79, 78, 69], Go.errNil) := by decide +kernel
example : GenV31.Rating 0x0000000000000001 = ([78, 79, 78, 69], Go.errNil) := by decide +kernel
example : GenV31.Rating 0x8000000000000001 = ([], Go.Err.mk 5 []) := by decide +kernel
-- +Inf, −Inf
example : GenV31.Rating 0x7ff0000000000000 = ([], Go.Err.mk 5 []) := by decide +kernel
example : GenV31.Rating 0xfff0000000000000 = ([], Go.Err.mk 5 []) := by decide +kernel
-- NaN (Go's math.NaN() and a negative signalling one)
example : GenV31.Rating 0x7ff8000000000001 = ([78, 79, 78, 69], Go.errNil) := by decide +kernel
example : GenV31.Rating 0xfff0000000000001 = ([78, 79, 78, 69], Go.errNil) := by decide +kernel
-- the same points through the specification (so the examples above are what the Spec says, too)
example : Spec.ratingOfBits 0x3fb999999999999a = ([76, 79, 87], 0) := by decide +kernel
example : Spec.ratingOfBits 0x3fb9999999999999 = ([78, 79, 78, 69], 0) := by decide +kernel
example : Spec.ratingOfBits 0x4024000000000000 = ([67, 82, 73, 84, 73, 67, 65, 76], 0) := by decide +kernel
example : Spec.ratingOfBits 0x4024000000000001 = ([], 1) := by decide +kernel
example : Spec.ratingOfBits 0x8000000000000000 = ([78, 79, 78, 69], 0) := by decide +kernel
example : Spec.ratingOfBits 0x7ff0000000000000 = ([], 1) := by decide +kernel
example : Spec.ratingOfBits 0x7ff8000000000001 = ([], 2) := by decide +kernel

/-- the same points as one table, for each of the three packages -/
def points : List Nat :=
  [0x3fb999999999999a, 0x3fb9999999999999, 0x4010000000000000, 0x400fffffffffffff, 0x401c000000000000,
   0x401bffffffffffff, 0x4022000000000000, 0x4021ffffffffffff, 0x4024000000000000, 0x4024000000000001,
   0x0000000000000000, 0x8000000000000000, 0x0000000000000001, 0x8000000000000001, 0x7ff0000000000000,
   0xfff0000000000000]
def expected : List (List Nat × Go.Err) :=
  points.map fun p => ((Spec.ratingOfBits p).1, errOfCode (Spec.ratingOfBits p).2)
example : points.map GenV30.Rating = expected := by decide +kernel
example : points.map GenV31.Rating = expected := by decide +kernel
example : points.map GenV40.Rating = expected := by decide +kernel

/-! hypotheses of the main theorems are satisfiable by non-trivial objects -/
example : (0x3fb999999999999a : Nat) < 2^64 ∧ F64.isNaN 0x3fb999999999999a = false := by decide +kernel
example : F64.isNaN 0x7ff8000000000001 = true := by decide +kernel
example : F64Val.ofBits 0x3fb9999999999999 = .fin (7205759403792793 * 2^1019) ∧
    (0:Int) ≤ 7205759403792793 * 2^1019 ∧ 10 * (7205759403792793 * 2^1019 : Int) < F64Val.den := by
  decide +kernel

end C15
