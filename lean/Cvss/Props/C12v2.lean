import Cvss.Proofs.Score2Mono
/-!
# C12 (v2.0 part) — Base and Temporal scores are monotone

Changing one metric of a well-formed v2.0 object to a more severe value (order of `Spec/OrderV2.lean`:
AV L<A<N; AC H<M<L; Au M<S<N; C/I/A N<P<C; E U<POC<F<H with ND as H; RL OF<TF<W<U with ND as U; RC UC<UR<C with
ND as C) never decreases `BaseScore` (Base metrics) nor `TemporalScore` (Base and Temporal metrics), as IEEE `≤`
(`F64.le`) on the generated float model. Metrics are identified by their abbreviation strings and compared
through `Get`, so the statement does not mention codes or bits.

Proof: `Proofs/Score2Mono.lean` (kernel enumeration on the float model: 729 base tuples × more severe values;
temporal step on the 102 possible BaseScore values × 100 weight codes). (case analysis generated)
-/
namespace Props.C12v2
open Model Spec.V2 Proofs.Score2
open Spec (b)

theorem baseAbvs : Spec.V2.base.map (·.abv) = [b "AV", b "AC", b "Au", b "C", b "I", b "A"] := by decide
theorem tempAbvs : (Spec.V2.base ++ Spec.V2.temporal).map (·.abv) =
    [b "AV", b "AC", b "Au", b "C", b "I", b "A", b "E", b "RL", b "RC"] := by decide

/-- raising one Base metric (all other Base metrics unchanged) never lowers BaseScore -/
theorem base_monotone (c c' : O20) (h : c.wf = true) (h' : c'.wf = true) (a : Spec.Bytes)
    (ha : a ∈ Spec.V2.base.map (·.abv))
    (same : ∀ a' ∈ Spec.V2.base.map (·.abv), a' ≠ a → c.get a' = c'.get a')
    (sev : sevLE a (c.get a).1 (c'.get a).1 = true) :
    F64.le c.baseScore c'.baseScore = true := by
  have r := wf_inRange c h
  have r' := wf_inRange c' h'
  rw [baseAbvs] at ha same
  have mt := monoBase_elim (monoBase_tbl r.hC r.hI r.hA r.hAV r.hAC r.hAu)
  rw [baseScore_codes, baseScore_codes]
  simp only [List.mem_cons, List.not_mem_nil, or_false] at ha
  rcases ha with rfl | rfl | rfl | rfl | rfl | rfl
  · -- AV
    have eAC := codeEq_AC c c' h h' (same (b "AC") (by decide) (by decide))
    have eAu := codeEq_Au c c' h h' (same (b "Au") (by decide) (by decide))
    have eC := codeEq_C c c' h h' (same (b "C") (by decide) (by decide))
    have eI := codeEq_I c c' h h' (same (b "I") (by decide) (by decide))
    have eA := codeEq_A c c' h h' (same (b "A") (by decide) (by decide))
    rw [← eAC, ← eAu, ← eC, ← eI, ← eA]
    exact (mt (cAV c') r'.hAV).2.2.2.1 sev
  · -- AC
    have eAV := codeEq_AV c c' h h' (same (b "AV") (by decide) (by decide))
    have eAu := codeEq_Au c c' h h' (same (b "Au") (by decide) (by decide))
    have eC := codeEq_C c c' h h' (same (b "C") (by decide) (by decide))
    have eI := codeEq_I c c' h h' (same (b "I") (by decide) (by decide))
    have eA := codeEq_A c c' h h' (same (b "A") (by decide) (by decide))
    rw [← eAV, ← eAu, ← eC, ← eI, ← eA]
    exact (mt (cAC c') r'.hAC).2.2.2.2.1 sev
  · -- Au
    have eAV := codeEq_AV c c' h h' (same (b "AV") (by decide) (by decide))
    have eAC := codeEq_AC c c' h h' (same (b "AC") (by decide) (by decide))
    have eC := codeEq_C c c' h h' (same (b "C") (by decide) (by decide))
    have eI := codeEq_I c c' h h' (same (b "I") (by decide) (by decide))
    have eA := codeEq_A c c' h h' (same (b "A") (by decide) (by decide))
    rw [← eAV, ← eAC, ← eC, ← eI, ← eA]
    exact (mt (cAu c') r'.hAu).2.2.2.2.2 sev
  · -- C
    have eAV := codeEq_AV c c' h h' (same (b "AV") (by decide) (by decide))
    have eAC := codeEq_AC c c' h h' (same (b "AC") (by decide) (by decide))
    have eAu := codeEq_Au c c' h h' (same (b "Au") (by decide) (by decide))
    have eI := codeEq_I c c' h h' (same (b "I") (by decide) (by decide))
    have eA := codeEq_A c c' h h' (same (b "A") (by decide) (by decide))
    rw [← eAV, ← eAC, ← eAu, ← eI, ← eA]
    exact (mt (cC c') r'.hC).1 sev
  · -- I
    have eAV := codeEq_AV c c' h h' (same (b "AV") (by decide) (by decide))
    have eAC := codeEq_AC c c' h h' (same (b "AC") (by decide) (by decide))
    have eAu := codeEq_Au c c' h h' (same (b "Au") (by decide) (by decide))
    have eC := codeEq_C c c' h h' (same (b "C") (by decide) (by decide))
    have eA := codeEq_A c c' h h' (same (b "A") (by decide) (by decide))
    rw [← eAV, ← eAC, ← eAu, ← eC, ← eA]
    exact (mt (cI c') r'.hI).2.1 sev
  · -- A
    have eAV := codeEq_AV c c' h h' (same (b "AV") (by decide) (by decide))
    have eAC := codeEq_AC c c' h h' (same (b "AC") (by decide) (by decide))
    have eAu := codeEq_Au c c' h h' (same (b "Au") (by decide) (by decide))
    have eC := codeEq_C c c' h h' (same (b "C") (by decide) (by decide))
    have eI := codeEq_I c c' h h' (same (b "I") (by decide) (by decide))
    rw [← eAV, ← eAC, ← eAu, ← eC, ← eI]
    exact (mt (cA c') r'.hA).2.2.1 sev

theorem mem_temp_of_base {a : Spec.Bytes} (h : a ∈ Spec.V2.base.map (·.abv)) :
    a ∈ (Spec.V2.base ++ Spec.V2.temporal).map (·.abv) := by
  rw [List.map_append]; exact List.mem_append_left _ h

/-- raising one Base or Temporal metric (all other Base and Temporal metrics unchanged) never lowers TemporalScore -/
theorem temporal_monotone (c c' : O20) (h : c.wf = true) (h' : c'.wf = true) (a : Spec.Bytes)
    (ha : a ∈ (Spec.V2.base ++ Spec.V2.temporal).map (·.abv))
    (same : ∀ a' ∈ (Spec.V2.base ++ Spec.V2.temporal).map (·.abv), a' ≠ a → c.get a' = c'.get a')
    (sev : sevLE a (c.get a).1 (c'.get a).1 = true) :
    F64.le c.temporalScore c'.temporalScore = true := by
  have r := wf_inRange c h
  have r' := wf_inRange c' h'
  obtain ⟨k, _, bk, l, u⟩ := base_main c h
  obtain ⟨j, hj, ej⟩ := inB_of_bitsOK bk l u
  obtain ⟨k', _, bk', l', u'⟩ := base_main c' h'
  obtain ⟨j', hj', ej'⟩ := inB_of_bitsOK bk' l' u'
  rw [temporalScore_shape, temporalScore_shape]
  have hbase : a ∈ Spec.V2.base.map (·.abv) → F64.le c.baseScore c'.baseScore = true := fun hb =>
    base_monotone c c' h h' a hb (fun a' ha' hne => same a' (mem_temp_of_base ha') hne) sev
  rw [tempAbvs] at ha same
  simp only [List.mem_cons, List.not_mem_nil, or_false] at ha
  rcases ha with rfl | rfl | rfl | rfl | rfl | rfl | rfl | rfl | rfl
  · -- AV: the temporal codes agree, BaseScore does not decrease
    have hle := hbase (by decide)
    have eE := codeEq_E c c' h h' (same (b "E") (by decide) (by decide))
    have eRL := codeEq_RL c c' h h' (same (b "RL") (by decide) (by decide))
    have eRC := codeEq_RC c c' h h' (same (b "RC") (by decide) (by decide))
    rw [← eE, ← eRL, ← eRC]
    rw [ej, ej'] at hle ⊢
    exact t2_mono_in hj hj' hle r.hE r.hRL r.hRC
  · -- AC: the temporal codes agree, BaseScore does not decrease
    have hle := hbase (by decide)
    have eE := codeEq_E c c' h h' (same (b "E") (by decide) (by decide))
    have eRL := codeEq_RL c c' h h' (same (b "RL") (by decide) (by decide))
    have eRC := codeEq_RC c c' h h' (same (b "RC") (by decide) (by decide))
    rw [← eE, ← eRL, ← eRC]
    rw [ej, ej'] at hle ⊢
    exact t2_mono_in hj hj' hle r.hE r.hRL r.hRC
  · -- Au: the temporal codes agree, BaseScore does not decrease
    have hle := hbase (by decide)
    have eE := codeEq_E c c' h h' (same (b "E") (by decide) (by decide))
    have eRL := codeEq_RL c c' h h' (same (b "RL") (by decide) (by decide))
    have eRC := codeEq_RC c c' h h' (same (b "RC") (by decide) (by decide))
    rw [← eE, ← eRL, ← eRC]
    rw [ej, ej'] at hle ⊢
    exact t2_mono_in hj hj' hle r.hE r.hRL r.hRC
  · -- C: the temporal codes agree, BaseScore does not decrease
    have hle := hbase (by decide)
    have eE := codeEq_E c c' h h' (same (b "E") (by decide) (by decide))
    have eRL := codeEq_RL c c' h h' (same (b "RL") (by decide) (by decide))
    have eRC := codeEq_RC c c' h h' (same (b "RC") (by decide) (by decide))
    rw [← eE, ← eRL, ← eRC]
    rw [ej, ej'] at hle ⊢
    exact t2_mono_in hj hj' hle r.hE r.hRL r.hRC
  · -- I: the temporal codes agree, BaseScore does not decrease
    have hle := hbase (by decide)
    have eE := codeEq_E c c' h h' (same (b "E") (by decide) (by decide))
    have eRL := codeEq_RL c c' h h' (same (b "RL") (by decide) (by decide))
    have eRC := codeEq_RC c c' h h' (same (b "RC") (by decide) (by decide))
    rw [← eE, ← eRL, ← eRC]
    rw [ej, ej'] at hle ⊢
    exact t2_mono_in hj hj' hle r.hE r.hRL r.hRC
  · -- A: the temporal codes agree, BaseScore does not decrease
    have hle := hbase (by decide)
    have eE := codeEq_E c c' h h' (same (b "E") (by decide) (by decide))
    have eRL := codeEq_RL c c' h h' (same (b "RL") (by decide) (by decide))
    have eRC := codeEq_RC c c' h h' (same (b "RC") (by decide) (by decide))
    rw [← eE, ← eRL, ← eRC]
    rw [ej, ej'] at hle ⊢
    exact t2_mono_in hj hj' hle r.hE r.hRL r.hRC
  · -- E: BaseScore is unchanged, one weight code is raised
    have eAV := codeEq_AV c c' h h' (same (b "AV") (by decide) (by decide))
    have eAC := codeEq_AC c c' h h' (same (b "AC") (by decide) (by decide))
    have eAu := codeEq_Au c c' h h' (same (b "Au") (by decide) (by decide))
    have eC := codeEq_C c c' h h' (same (b "C") (by decide) (by decide))
    have eI := codeEq_I c c' h h' (same (b "I") (by decide) (by decide))
    have eA := codeEq_A c c' h h' (same (b "A") (by decide) (by decide))
    have eRL := codeEq_RL c c' h h' (same (b "RL") (by decide) (by decide))
    have eRC := codeEq_RC c c' h h' (same (b "RC") (by decide) (by decide))
    have eb : c'.baseScore = c.baseScore := by
      rw [baseScore_codes, baseScore_codes, ← eAV, ← eAC, ← eAu, ← eC, ← eI, ← eA]
    rw [eb, ← eRL, ← eRC, ej]
    exact (monoT2_tbl hj r.hE r.hRL r.hRC).inE (cE c') r'.hE sev
  · -- RL: BaseScore is unchanged, one weight code is raised
    have eAV := codeEq_AV c c' h h' (same (b "AV") (by decide) (by decide))
    have eAC := codeEq_AC c c' h h' (same (b "AC") (by decide) (by decide))
    have eAu := codeEq_Au c c' h h' (same (b "Au") (by decide) (by decide))
    have eC := codeEq_C c c' h h' (same (b "C") (by decide) (by decide))
    have eI := codeEq_I c c' h h' (same (b "I") (by decide) (by decide))
    have eA := codeEq_A c c' h h' (same (b "A") (by decide) (by decide))
    have eE := codeEq_E c c' h h' (same (b "E") (by decide) (by decide))
    have eRC := codeEq_RC c c' h h' (same (b "RC") (by decide) (by decide))
    have eb : c'.baseScore = c.baseScore := by
      rw [baseScore_codes, baseScore_codes, ← eAV, ← eAC, ← eAu, ← eC, ← eI, ← eA]
    rw [eb, ← eE, ← eRC, ej]
    exact (monoT2_tbl hj r.hE r.hRL r.hRC).inRL (cRL c') r'.hRL sev
  · -- RC: BaseScore is unchanged, one weight code is raised
    have eAV := codeEq_AV c c' h h' (same (b "AV") (by decide) (by decide))
    have eAC := codeEq_AC c c' h h' (same (b "AC") (by decide) (by decide))
    have eAu := codeEq_Au c c' h h' (same (b "Au") (by decide) (by decide))
    have eC := codeEq_C c c' h h' (same (b "C") (by decide) (by decide))
    have eI := codeEq_I c c' h h' (same (b "I") (by decide) (by decide))
    have eA := codeEq_A c c' h h' (same (b "A") (by decide) (by decide))
    have eE := codeEq_E c c' h h' (same (b "E") (by decide) (by decide))
    have eRL := codeEq_RL c c' h h' (same (b "RL") (by decide) (by decide))
    have eb : c'.baseScore = c.baseScore := by
      rw [baseScore_codes, baseScore_codes, ← eAV, ← eAC, ← eAu, ← eC, ← eI, ← eA]
    rw [eb, ← eE, ← eRL, ej]
    exact (monoT2_tbl hj r.hE r.hRL r.hRC).inRC (cRC c') r'.hRC sev

/-! the hypotheses are satisfiable: `AV:L/…` raised to `AV:N`, everything else equal -/
example : (⟨9, 80, 0, 0⟩ : O20).wf = true ∧ (⟨137, 80, 0, 0⟩ : O20).wf = true ∧
    sevLE (b "AV") ((⟨9, 80, 0, 0⟩ : O20).get (b "AV")).1 ((⟨137, 80, 0, 0⟩ : O20).get (b "AV")).1 = true := by decide

end Props.C12v2
