import Cvss.Proofs.Parse2Read
/-!
# C01 (v2.0): `ParseVector` accepts exactly the grammar; it never panics; `read?` returns the witness

`parseK K` is the hand-written parser model `Model.parse20` with the zero object and `Set` of an arbitrary
Get/Set contract `K` (`Proofs.Parse2.parse20_eq_parseK`: it *is* `Model.parse20` when `K.zero`/`K.set` are
the generated ones — the case of the instance proved from the bit-field code). All statements are for
**every** byte string, no length bound.
-/
namespace C01.V2
open Proofs Proofs.Parse2
open Model (Bytes Res)
open Spec.V2 (metrics Witness G)

/-- the regenerated order table is the Spec's three groups -/
theorem order_tie :
    GenV20.tbl_order = [Spec.abvs Spec.V2.base, Spec.abvs Spec.V2.temporal, Spec.abvs Spec.V2.environmental] :=
  tbl_eq

/-- the hand-written model is the generalised parser at the regenerated table, `O20.zero`, `O20.set` -/
theorem model_is_instance :
    Model.parse20 = parse20With GenV20.tbl_order Model.O20.zero Model.O20.set := parse20_eq

section
variable (K : Contract Model.O20 metrics)

/-- accepted ⇔ grammatical, for every byte string -/
theorem accepts_iff (s : Bytes) : (parseK K s).isOk = true ↔ G s := by
  constructor
  · intro h
    cases hp : parseK K s with
    | ok c => obtain ⟨w, hw, _⟩ := parse_sound K hp; exact ⟨w, hw⟩
    | err e => rw [hp] at h; cases h
    | panic => rw [hp] at h; cases h
  · rintro ⟨w, hw⟩
    rw [parse_complete K hw]; rfl

/-- the out-of-range index into `order` is unreachable -/
theorem no_panic (s : Bytes) : parseK K s ≠ .panic := parse_ne_panic K.zero K.set s

/-- the same two statements about `Model.parse20` itself, for a contract whose zero/`Set` are the generated ones -/
theorem model_accepts_iff (hz : K.zero = Model.O20.zero) (hs : K.set = Model.O20.set) (s : Bytes) :
    (Model.parse20 s).isOk = true ↔ G s := by
  rw [parse20_eq_parseK K hz hs]; exact accepts_iff K s

end

/-- no panic needs no contract at all: it holds for the model with the generated `Set` as it is -/
theorem model_no_panic (s : Bytes) : Model.parse20 s ≠ .panic := by
  rw [parse20_eq]; exact parse_ne_panic _ _ s

/-- the executable recogniser returns exactly the witness -/
theorem read_iff (s : Bytes) (w : List Spec.Pair) : Spec.V2.read? s = some w ↔ Witness s w :=
  Proofs.Parse2.read_iff s w

theorem read_isSome_iff (s : Bytes) : (Spec.V2.read? s).isSome = true ↔ G s :=
  Proofs.Parse2.read_isSome_iff s

/-- the witness of a string is unique -/
theorem witness_unique {s : Bytes} {w w' : List Spec.Pair} (h : Witness s w) (h' : Witness s w') : w = w' :=
  Proofs.Parse2.witness_unique h h'

/-! Consequences the reader may want to see (each decided through `read?`). -/

theorem G_decidable (s : Bytes) : G s ↔ (Spec.V2.read? s).isSome = true := (read_isSome_iff s).symm

/-- the grammar is inhabited: a base vector, a base+environmental vector and a full vector -/
example : G (Spec.b "AV:L/AC:H/Au:M/C:N/I:N/A:N") := (G_decidable _).mpr (by decide)
example : G (Spec.b "AV:N/AC:L/Au:N/C:C/I:C/A:C/CDP:ND/TD:H/CR:ND/IR:M/AR:ND") := (G_decidable _).mpr (by decide)
example : G (Spec.b "AV:N/AC:L/Au:N/C:C/I:C/A:C/E:F/RL:OF/RC:C/CDP:H/TD:H/CR:M/IR:M/AR:H") :=
  (G_decidable _).mpr (by decide)
/-- empty string, lower case, trailing `/`, empty element, header, incomplete group: not grammatical -/
example : ¬ G [] := fun h => absurd ((G_decidable _).mp h) (by decide)
example : ¬ G (Spec.b "av:L/AC:H/Au:M/C:N/I:N/A:N") := fun h => absurd ((G_decidable _).mp h) (by decide)
example : ¬ G (Spec.b "AV:L/AC:H/Au:M/C:N/I:N/A:N/") := fun h => absurd ((G_decidable _).mp h) (by decide)
example : ¬ G (Spec.b "AV:L//AC:H/Au:M/C:N/I:N/A:N") := fun h => absurd ((G_decidable _).mp h) (by decide)
example : ¬ G (Spec.b "CVSS:2.0/AV:L/AC:H/Au:M/C:N/I:N/A:N") := fun h => absurd ((G_decidable _).mp h) (by decide)
example : ¬ G (Spec.b "AV:L/AC:H/Au:M/C:N/I:N/A:N/E:F/RL:OF") := fun h => absurd ((G_decidable _).mp h) (by decide)
/-- and the model agrees on them (evaluation of the real generated `Set`) -/
example : (Model.parse20 (Spec.b "AV:L/AC:H/Au:M/C:N/I:N/A:N")).isOk = true := by decide
example : Model.parse20 (Spec.b "AV:L/AC:H/Au:M/C:N/I:N/A:N/") = .err ⟨3, []⟩ := by decide

end C01.V2
