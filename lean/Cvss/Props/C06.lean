import Cvss.Props.C06v2
import Cvss.Props.C06v3
import Cvss.Props.C06v4
import Cvss.Proofs.Bits20
import Cvss.Proofs.Bits30
import Cvss.Proofs.Bits31
import Cvss.Proofs.Bits40
/-!
# C06 — a parsed vector means what it says (assembled for the generated Get/Set)

For every accepted string `s`, every witness list `w` of the grammar for `s` (it is unique) and every metric `m`
of the version, the generated `Get` on the parsed object returns exactly `Spec.valueOf w m`: the value written
in `s`, or the not-defined value (`ND` / `X`) when `s` omits the optional metric. The parsed object is well formed.
-/
namespace C06
open Model Proofs

theorem v20 {s : Bytes} {c : O20} (h : parse20 s = .ok c) :
    c.wf = true ∧ ∀ w, Spec.V2.Witness s w → ∀ m ∈ Spec.V2.metrics, c.get m.abv = (Spec.valueOf Spec.V2.metrics w m.abv, Go.errNil) :=
  C06.V2.model_parsed_means Bits20.contract20 rfl rfl h
theorem v30 (s : Bytes) (c : O30) (h : parse30 s = .ok c) :
    ∀ w, Spec.V3.Witness Spec.V3.header30 s w → ∀ m ∈ Spec.V3.metrics, c.get m.abv = (Spec.valueOf Spec.V3.metrics w m.abv, Go.errNil) :=
  C06.V3.means_what_it_says_30 Bits30.contract30 rfl rfl rfl s c h
theorem v31 (s : Bytes) (c : O31) (h : parse31 s = .ok c) :
    ∀ w, Spec.V3.Witness Spec.V3.header31 s w → ∀ m ∈ Spec.V3.metrics, c.get m.abv = (Spec.valueOf Spec.V3.metrics w m.abv, Go.errNil) :=
  C06.V3.means_what_it_says_31 Bits31.contract31 rfl rfl rfl s c h
theorem v40 {s : Bytes} {c : O40} (h : parse40 s = .ok c) :
    (∀ w, Spec.V4.Witness s w → ∀ m ∈ Spec.V4.metrics, c.get m.abv = (Spec.valueOf Spec.V4.metrics w m.abv, Go.errNil)) ∧ c.wf = true :=
  C06.V4.meaning_model Proofs.B40.contract40 rfl rfl h
theorem wf30 (s : Bytes) (c : O30) (h : parse30 s = .ok c) : c.wf = true := C06.V3.wf_30 Bits30.contract30 rfl rfl s c h
theorem wf31 (s : Bytes) (c : O31) (h : parse31 s = .ok c) : c.wf = true := C06.V3.wf_31 Bits31.contract31 rfl rfl s c h

end C06
