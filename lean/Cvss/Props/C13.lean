import Cvss.Props.C13v2
import Cvss.Props.C13v3
import Cvss.Props.C13v4
import Cvss.Proofs.Bits20
import Cvss.Proofs.Bits40
/-!
# C13 — every vector string belongs to exactly one CVSS version (assembled)

No byte string is accepted by two of the four parsers: an accepted string starts with the version's own prefix
(`AV:`, `CVSS:3.0/`, `CVSS:3.1/`, `CVSS:4.0` — the latter three are the REGENERATED header constants), and the four
prefixes are pairwise incompatible. A copy-paste slip between the 3.0 and 3.1 headers or a shortened prefix changes
exactly these constants and breaks the proof.
-/
namespace C13
open Model Proofs

private theorem pre_excl {p q s : Bytes} (hp : p <+: s) (hq : q <+: s) (hpq : p.isPrefixOf q = false)
    (hqp : q.isPrefixOf p = false) : False := by
  rcases Nat.le_total p.length q.length with h | h
  · have := List.prefix_of_prefix_length_le hp hq h
    rw [← List.isPrefixOf_iff_prefix] at this; rw [this] at hpq; cases hpq
  · have := List.prefix_of_prefix_length_le hq hp h
    rw [← List.isPrefixOf_iff_prefix] at this; rw [this] at hqp; cases hqp

theorem pre20 {s : Bytes} (h : (parse20 s).isOk = true) : [65, 86, 58] <+: s := by
  cases hp : parse20 s with
  | ok c => exact C13.V2.model_accepted_prefix Bits20.contract20 rfl rfl hp
  | err e => rw [hp] at h; cases h
  | panic => rw [hp] at h; cases h
theorem pre40 {s : Bytes} (h : (parse40 s).isOk = true) : Spec.V4.header <+: s := by
  cases hp : parse40 s with
  | ok c => exact C13.V4.header_prefix_model Proofs.B40.contract40 rfl rfl hp
  | err e => rw [hp] at h; cases h
  | panic => rw [hp] at h; cases h

/-- **C13.** at most one of the four parsers accepts `s` -/
theorem exclusive (s : Bytes) :
    ¬ ((parse20 s).isOk = true ∧ (parse30 s).isOk = true) ∧ ¬ ((parse20 s).isOk = true ∧ (parse31 s).isOk = true) ∧
    ¬ ((parse20 s).isOk = true ∧ (parse40 s).isOk = true) ∧ ¬ ((parse30 s).isOk = true ∧ (parse31 s).isOk = true) ∧
    ¬ ((parse30 s).isOk = true ∧ (parse40 s).isOk = true) ∧ ¬ ((parse31 s).isOk = true ∧ (parse40 s).isOk = true) := by
  refine ⟨?_, ?_, ?_, ?_, ?_, ?_⟩
  · rintro ⟨a, b⟩; exact pre_excl (pre20 a) (C13.V3.parse30_prefix s b) (by decide) (by decide)
  · rintro ⟨a, b⟩; exact pre_excl (pre20 a) (C13.V3.parse31_prefix s b) (by decide) (by decide)
  · rintro ⟨a, b⟩; exact pre_excl (pre20 a) (pre40 b) (by decide) (by decide)
  · exact C13.V3.parse30_parse31_exclusive s
  · rintro ⟨a, b⟩; exact pre_excl (C13.V3.parse30_prefix s a) (pre40 b) (by decide) (by decide)
  · rintro ⟨a, b⟩; exact pre_excl (C13.V3.parse31_prefix s a) (pre40 b) (by decide) (by decide)

end C13
