import Cvss.Proofs.Parse4Canon
/-!
# C02 (v4.0): `Vector()` then `ParseVector` returns the same object

For every well-formed object (all of them at once), through the abstract `Contract` / `VecContract`.
-/
namespace C02.V4
open Model (Bytes O40 Res)
open Proofs.P4

variable (K : Proofs.Contract O40 Spec.V4.metrics)
variable (VK : Proofs.VecContract O40 Spec.V4.metrics K Spec.V4.canonical)

/-- **C02.** -/
theorem parse_vector {c : O40} (hc : K.WF c) : parseK K (VK.vector c) = .ok c := by
  rw [VK.vector_eq c hc]; exact parseK_canonical_pairs K hc

/-- the serialisation of a well-formed object is grammatical -/
theorem vector_G {c : O40} (hc : K.WF c) : Spec.V4.G (VK.vector c) :=
  (parseK_isOk_iff K _).mp (by rw [parse_vector K VK hc]; rfl)

/-- `Vector()` is injective on well-formed objects -/
theorem vector_inj {c c' : O40} (hc : K.WF c) (hc' : K.WF c') (h : VK.vector c = VK.vector c') : c = c' := by
  have h1 := parse_vector K VK hc
  rw [h, parse_vector K VK hc'] at h1
  exact (Res.ok.inj h1).symm

/-- the hypothesis is satisfiable: the zero object is well-formed (and so is every parsed object, `C06.V4.wf`) -/
example : K.WF K.zero := K.wf_zero

/-! ## for `Model.parse40` itself, given the contract instances of the generated code -/

theorem parse_vector_model (hz : K.zero = O40.zero) (hs : K.set = O40.set) {c : O40} (hc : K.WF c) :
    Model.parse40 (VK.vector c) = .ok c := by
  rw [parse40_eq_parseK K hz hs]; exact parse_vector K VK hc

end C02.V4
