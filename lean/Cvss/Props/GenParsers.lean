import Cvss.Props.ParseTie
import Cvss.Props.C02
import Cvss.Props.C06
import Cvss.Props.C08
import Cvss.Props.C13b
import Cvss.Props.C18
/-!
# The parser-level properties restated for the REGENERATED parsers

`Props/ParseTie.lean` proves `resXX (GenPxx.ParseVector s) = Model.parseXX s` for every byte string (v2: for every 14-slot pool
buffer). The property theorems C02, C06, C08, C13 and C18 (v2 part) are stated on the readable models `Model.parseXX`; here
they are restated — by rewriting with the tie — for the functions the translator regenerates from `/repo` on every run
(C01 and C18 v3/v4 are restated in `Props/ParseTieTransfer.lean`). `resXX` only repacks the byte tuple into `Model.Oxx`
and maps ok/err/panic one to one.
-/
namespace GenParsers
open Model ParseTie

/-! C02 — serialise then parse returns the same object -/
theorem C02_v20 (buf : List Bytes) (hb : buf.length = 14) (c : O20) (h : c.wf = true) :
    res20 (GenP20.ParseVector buf c.vector) = .ok c := by rw [ParseTie.v20 buf hb]; exact C02.v20 c h
theorem C02_v30 (c : O30) (h : c.wf = true) : res30 (GenP30.ParseVector c.vector) = .ok c := by rw [ParseTie.v30]; exact C02.v30 c h
theorem C02_v31 (c : O31) (h : c.wf = true) : res31 (GenP31.ParseVector c.vector) = .ok c := by rw [ParseTie.v31]; exact C02.v31 c h
theorem C02_v40 (c : O40) (h : c.wf = true) : res40 (GenP40.ParseVector c.vector) = .ok c := by rw [ParseTie.v40]; exact C02.v40 c h

/-! C06 — a parsed vector means what it says -/
theorem C06_v20 (buf : List Bytes) (hb : buf.length = 14) {s : Bytes} {c : O20} (h : res20 (GenP20.ParseVector buf s) = .ok c) :
    c.wf = true ∧ ∀ w, Spec.V2.Witness s w → ∀ m ∈ Spec.V2.metrics, c.get m.abv = (Spec.valueOf Spec.V2.metrics w m.abv, Go.errNil) := by
  rw [ParseTie.v20 buf hb] at h; exact C06.v20 h
theorem C06_v30 (s : Bytes) (c : O30) (h : res30 (GenP30.ParseVector s) = .ok c) :
    ∀ w, Spec.V3.Witness Spec.V3.header30 s w → ∀ m ∈ Spec.V3.metrics, c.get m.abv = (Spec.valueOf Spec.V3.metrics w m.abv, Go.errNil) := by
  rw [ParseTie.v30] at h; exact C06.v30 s c h
theorem C06_v31 (s : Bytes) (c : O31) (h : res31 (GenP31.ParseVector s) = .ok c) :
    ∀ w, Spec.V3.Witness Spec.V3.header31 s w → ∀ m ∈ Spec.V3.metrics, c.get m.abv = (Spec.valueOf Spec.V3.metrics w m.abv, Go.errNil) := by
  rw [ParseTie.v31] at h; exact C06.v31 s c h
theorem C06_v40 {s : Bytes} {c : O40} (h : res40 (GenP40.ParseVector s) = .ok c) :
    (∀ w, Spec.V4.Witness s w → ∀ m ∈ Spec.V4.metrics, c.get m.abv = (Spec.valueOf Spec.V4.metrics w m.abv, Go.errNil)) ∧ c.wf = true := by
  rw [ParseTie.v40] at h; exact C06.v40 h

/-! C08 — parse then serialise gives the canonical spelling -/
theorem C08_v20 (buf : List Bytes) (hb : buf.length = 14) {s : Bytes} {c : O20} (h : res20 (GenP20.ParseVector buf s) = .ok c) :
    ∀ w, Spec.V2.Witness s w → c.vector = Spec.V2.canonical w := by rw [ParseTie.v20 buf hb] at h; exact C08.v20 h
theorem C08_v30 (s : Bytes) (c : O30) (h : res30 (GenP30.ParseVector s) = .ok c) :
    ∀ w, Spec.V3.Witness Spec.V3.header30 s w → c.vector = Spec.V3.canonical Spec.V3.header30 w := by
  rw [ParseTie.v30] at h; exact C08.v30 s c h
theorem C08_v31 (s : Bytes) (c : O31) (h : res31 (GenP31.ParseVector s) = .ok c) :
    ∀ w, Spec.V3.Witness Spec.V3.header31 s w → c.vector = Spec.V3.canonical Spec.V3.header31 w := by
  rw [ParseTie.v31] at h; exact C08.v31 s c h
theorem C08_v40 {s : Bytes} {c : O40} (h : res40 (GenP40.ParseVector s) = .ok c) :
    ∀ w, Spec.V4.Witness s w → c.vector = Spec.V4.canonical w := by rw [ParseTie.v40] at h; exact C08.v40 h

/-! C13 — at most one generated parser accepts a string -/
theorem C13_exclusive (buf : List Bytes) (hb : buf.length = 14) (s : Bytes) :
    ¬ ((res20 (GenP20.ParseVector buf s)).isOk = true ∧ (res30 (GenP30.ParseVector s)).isOk = true) ∧
    ¬ ((res20 (GenP20.ParseVector buf s)).isOk = true ∧ (res31 (GenP31.ParseVector s)).isOk = true) ∧
    ¬ ((res20 (GenP20.ParseVector buf s)).isOk = true ∧ (res40 (GenP40.ParseVector s)).isOk = true) ∧
    ¬ ((res30 (GenP30.ParseVector s)).isOk = true ∧ (res31 (GenP31.ParseVector s)).isOk = true) ∧
    ¬ ((res30 (GenP30.ParseVector s)).isOk = true ∧ (res40 (GenP40.ParseVector s)).isOk = true) ∧
    ¬ ((res31 (GenP31.ParseVector s)).isOk = true ∧ (res40 (GenP40.ParseVector s)).isOk = true) := by
  rw [ParseTie.v20 buf hb, ParseTie.v30, ParseTie.v31, ParseTie.v40]; exact C13.exclusive s

/-! C18, v2.0 part (every defect except an insertion after a complete environmental group, known finding F3) -/
theorem C18_v20_partial (buf : List Bytes) (hb : buf.length = 14) (w : List Spec.Pair) (d : Spec.Defect) (s : Bytes) (e : Spec.ErrVal)
    (hw : ∃ s0, Spec.V2.Witness s0 w) (hd : d.apply .v20 w = some (s, e)) (hna : C18.V2.afterEnv w d = false) :
    res20 (GenP20.ParseVector buf s) = .err ⟨e.1, e.2⟩ := by
  rw [ParseTie.v20 buf hb]; exact C18.v20_partial w d s e hw hd hna

/-! every object a generated parser returns is reachable through `Set` from the zero value (so "reachable" needs no
    separate constructor for `ParseVector`) -/
theorem parsed_reachable20 (buf : List Bytes) (hb : buf.length = 14) {s : Bytes} {c : O20}
    (h : res20 (GenP20.ParseVector buf s) = .ok c) : O20.Reachable c := (C09.V20.reachable_iff_wf c).mpr (C06_v20 buf hb h).1
theorem parsed_reachable30 (s : Bytes) (c : O30) (h : res30 (GenP30.ParseVector s) = .ok c) : O30.Reachable c := by
  rw [ParseTie.v30] at h; exact (C09.V30.reachable_iff_wf c).mpr (C06.wf30 s c h)
theorem parsed_reachable31 (s : Bytes) (c : O31) (h : res31 (GenP31.ParseVector s) = .ok c) : O31.Reachable c := by
  rw [ParseTie.v31] at h; exact (C09.V31.reachable_iff_wf c).mpr (C06.wf31 s c h)
theorem parsed_reachable40 {s : Bytes} {c : O40} (h : res40 (GenP40.ParseVector s) = .ok c) : O40.Reachable c :=
  (Proofs.B40.reachable_iff_wf c).mpr (C06_v40 h).2

end GenParsers
