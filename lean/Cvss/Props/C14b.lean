import Cvss.Proofs.PoolSim
import Cvss.Props.ParseTie
import Cvss.Props.C14
/-!
# C14b — the pool machine's steps are the regenerated loop bodies; `schedule_independent` against the generated parser

`C14.schedule_independent` (`Props/C14.lean`) is a theorem about the hand-written ownership machine
`Model.Pool` and the hand-written sequential model `Model.parse20`. What tied the *machine's decomposition of a
call into ticks* to the Go source was a source hash (`C14.pool_model_src_tie`). This file replaces that tie by
proof against the functions the translator regenerates on every check (`Cvss/Gen/P20.lean`):

1. `C14.gen_split_is_forN`, `C14.gen_ParseVector_is_forRange` — the generated `split` / `ParseVector` are the
   combinator loops `Go.forN` / `Go.forRange` over the generated bodies `GenP20.split_for1` /
   `GenP20.ParseVector_range1`, followed by explicit tails.
2. `C14.tick_split_is_split_for1`, `C14.tick_split_exit_is_tail`, `C14.tick_loop_is_range1`,
   `C14.tick_loop_is_step2`, `C14.tick_loop_exit_is_tail` — **each thread-local `tick` is one application of the
   generated body** (or of the tail after the loop) to the thread's own `(buffer, start, curr, i)` /
   `(slci, i, object)` state: same write `dst[curr] = vector[start:i]`, same `break` at `curr == 13`, same final
   write `dst[curr] = vector[start:]`.
3. `C14.tick_simulates_generated`, `C14.single_thread_computes_generated`, `C14.single_thread_ret_only` — the
   (stuttering) simulation `PoolSim.Rem` between a thread's run and the unfolding of the generated function: a
   thread that did `Get` (buffer content `B`) and then ticks computes exactly `GenP20.ParseVector B inp`.
4. `C14.other_threads_do_not_interfere`, `C14.generated_code_shares_nothing` — why a thread-local step may be
   interleaved freely: a tick changes only the actor's phase and the actor's own buffer; and the generated
   bodies are functions of `(vector, loop state)` that consult only `GenV20.tbl_order` and `GenV20.Set`, with
   `GenV20.pkg_writes = []` and the only calls on package state being `splitPool.Get/Put` — the machine's
   `getPool/getNew` and `put`.
5. `C14.schedule_independent_gen` — `schedule_independent` with the **generated** parser on the right-hand side,
   for every 14-slot buffer; `C14.held_buffer_result` — in particular for the buffer content the thread actually
   received, with the buffer put back being what the generated `split` leaves.

The step correspondence is one-to-one with Go loop iterations; the only merging is in the two "exit" ticks (see
the table in `Cvss/Proofs/PoolSim.lean`): the tick on `split … []` performs the failing loop test, the final write,
`return curr`, the reslice `pts[:ei+1]` and the loop-variable initialisation (one buffer access: the write); the
tick on `loop … (ei+1) …` performs the end of the range loop and the `i != 0` test (no buffer access). After a
`break` the scan phase makes one more tick (`split … 13 vector[start:] []`) for the final write, exactly as Go
executes the statement after the loop. All these steps are thread-local, so merging them does not remove any
interleaving of *shared* accesses: by `other_threads_do_not_interfere` no other thread can observe the intermediate
states.
-/
/- decidable equality on phases, actions and loop-control values: used only to evaluate the concrete examples -/
deriving instance DecidableEq for Model.Pool.Phase
deriving instance DecidableEq for Model.Pool.Act
deriving instance DecidableEq for Go.Ctl

namespace C14
open Model Model.Pool GenParse GenParse20 PoolSim ParseTie

/-! ## 1. the generated functions are loops over the generated bodies -/

/-- `GenP20.split` = `Go.forN` (fuel `len+2`, condition `i < len(vector)`, post `i++`) over
    `GenP20.split_for1`, then `dst[curr] = vector[start:]; return curr` (`PoolSim.splitK`) -/
theorem gen_split_is_forN (dst : Buf) (v : Bytes) :
    GenP20.split dst v
      = splitK v (Go.forN (v.length + 2) (dst, 0, 0, 0) (PoolSim.cnd v) PoolSim.post (GenP20.split_for1 v)) :=
  split_unfold dst v

/-- `GenP20.ParseVector` = `GenP20.split`, `pts[:ei+1]`, `Go.forRange` over `GenP20.ParseVector_range1`, then the
    `i != 0` test (`PoolSim.pvK`, `PoolSim.rangeK`) -/
theorem gen_ParseVector_is_forRange (buf : Buf) (s : Bytes) :
    GenP20.ParseVector buf s = pvK (GenP20.split buf s) ∧
    (∀ pts ei, pvK (some (pts, ei)) = Go.sliceTo pts (ei + 1) Go.Res.panic fun pts =>
      rangeK (Go.forRange pts (0, 0, 0, 0, 0, 0) GenP20.ParseVector_range1)) :=
  ⟨pv_unfold buf s, fun _ _ => rfl⟩

/-! ## 2. a tick is one application of a generated body -/

/-- **(1) scan tick = `GenP20.split_for1`.** Thread in phase `split a inp curr seg (c :: cs)` with
    `inp = pre ++ seg ++ c :: cs` (so `start = |pre|`, `i = |pre|+|seg|`, `vector[i] = c`), on a 14-slot buffer,
    `curr ≤ 12`. The loop condition `i < len` holds and exactly one of:
    * `c ≠ '/'`: the body returns `next` with the state unchanged; after `i++` the thread's state is that of phase
      `split a inp curr (seg ++ [c]) cs` on the same buffer — which is what `tick` yields;
    * `c = '/'`, `curr+1 ≠ 13`: the body writes `dst[curr] = vector[start:i]` (`= seg`), sets `start = i+1`,
      `curr++`, returns `next`; after `i++` this is phase `split a inp (curr+1) [] cs` on `buf.set curr seg` = `tick`;
    * `c = '/'`, `curr+1 = 13`: the same write, then `brk`; `tick` yields phase `split a inp 13 vector[start:] []`
      on `buf.set curr seg`, whose next tick is the final write (`tick_split_exit_is_tail`). -/
theorem tick_split_is_split_for1 (a : Addr) (inp pre seg : Bytes) (c : Nat) (cs : Bytes) (curr : Nat) (buf : Buf)
    (hv : inp = pre ++ seg ++ c :: cs) (hl : buf.length = 14) (hc : curr ≤ 12) :
    PoolSim.cnd inp (gst buf pre seg curr) = true ∧
    ((c ≠ 47 ∧
        GenP20.split_for1 inp (gst buf pre seg curr) = .next (gst buf pre seg curr) ∧
        PoolSim.post (gst buf pre seg curr) = gst buf pre (seg ++ [c]) curr ∧
        tick (.split a inp curr seg (c :: cs)) buf = (.split a inp curr (seg ++ [c]) cs, buf)) ∨
     (c = 47 ∧ curr + 1 ≠ 13 ∧
        GenP20.split_for1 inp (gst buf pre seg curr)
          = .next (buf.set curr seg, pre.length + seg.length + 1, curr + 1, pre.length + seg.length) ∧
        PoolSim.post (buf.set curr seg, pre.length + seg.length + 1, curr + 1, pre.length + seg.length)
          = gst (buf.set curr seg) (pre ++ seg ++ [47]) [] (curr + 1) ∧
        tick (.split a inp curr seg (c :: cs)) buf = (.split a inp (curr + 1) [] cs, buf.set curr seg)) ∨
     (c = 47 ∧ curr + 1 = 13 ∧
        GenP20.split_for1 inp (gst buf pre seg curr)
          = .brk (buf.set curr seg, pre.length + seg.length + 1, 13, pre.length + seg.length) ∧
        inp.drop (pre.length + seg.length + 1) = cs ∧
        tick (.split a inp curr seg (c :: cs)) buf = (.split a inp 13 cs [], buf.set curr seg))) :=
  tick_split_body a inp pre seg c cs curr buf hv hl hc

/-- the hypotheses of `tick_split_is_split_for1` are satisfiable, all three cases occur:
    `"A/B"` at `i = 0` (`'A'`), at `i = 1` (`'/'`, `curr = 0`), and `'/'` with `curr = 12` (the `break`) -/
example :
    let buf : Buf := List.replicate 14 [88]
    GenP20.split_for1 [65, 47, 66] (gst buf [] [] 0) = .next (gst buf [] [] 0) ∧
    GenP20.split_for1 [65, 47, 66] (gst buf [] [65] 0) = .next (buf.set 0 [65], 2, 1, 1) ∧
    GenP20.split_for1 [65, 47, 66] (gst buf [] [65] 12) = .brk (buf.set 12 [65], 2, 13, 1) ∧
    tick (.split 0 [65, 47, 66] 12 [65] [47, 66]) buf = (.split 0 [65, 47, 66] 13 [66] [], buf.set 12 [65]) :=
  ⟨rfl, rfl, rfl, rfl⟩

/-- **(1, end) last scan tick = failing loop test + the code after the loop.** Thread in phase
    `split a inp curr seg []` with `inp = pre ++ seg` (so `seg = vector[start:]`; reached by end of input, or by
    `break` with `curr = 13`): the loop condition is false at `i = len`, the generated tail
    `dst[curr] = vector[start:]; return curr` yields `(buf.set curr seg, curr)` for *any* value of `i` (after a
    `break`, `i` was not incremented), and `tick` performs that write and enters the range loop over `pts[:curr+1]`
    with all loop variables 0. -/
theorem tick_split_exit_is_tail (a : Addr) (inp pre seg : Bytes) (curr : Nat) (buf : Buf) (i : Nat)
    (hv : inp = pre ++ seg) (hl : buf.length = 14) (hc : curr ≤ 13) :
    PoolSim.cnd inp (gst buf pre seg curr) = false ∧
    splitK inp (.done (buf, pre.length, curr, i)) = some (buf.set curr seg, curr) ∧
    tick (.split a inp curr seg []) buf = (.loop a inp curr 0 0 0 O20.zero, buf.set curr seg) :=
  tick_split_exit a inp pre seg curr buf i hv hl hc

/-- **(2) range tick = `GenP20.ParseVector_range1`.** Thread in phase `loop a inp ei k slci i c`, `k ≤ ei`,
    `pts[k] = pt`: the tick is determined by the value of the generated body on `(slci, c, i)` and `pt` — `next`
    with new loop variables ⇒ the same phase at `k+1` with those variables, buffer unchanged; `return x` ⇒ phase
    `ret x`; the body never `break`s. -/
theorem tick_loop_is_range1 (a : Addr) (inp : Bytes) (ei k slci i : Nat) (c : O20) (buf : Buf) (pt : Bytes)
    (hk : k < ei + 1) (hpt : buf[k]? = some pt) :
    match GenP20.ParseVector_range1 pt (enc slci i c) with
    | .next (slci', u0, u1, u2, u3, i') =>
        tick (.loop a inp ei k slci i c) buf = (.loop a inp ei (k + 1) slci' i' ⟨u0, u1, u2, u3⟩, buf)
    | .ret r => tick (.loop a inp ei k slci i c) buf = (.ret a inp (res20 r), buf)
    | .brk _ => False :=
  tick_loop_body a inp ei k slci i c buf pt hk hpt

/-- … equivalently `Model.step2` (`GenParse20.range_step`): the generated body *is* the `step2` the machine calls -/
theorem tick_loop_is_step2 (pt : Bytes) (slci i : Nat) (c : O20) :
    GenP20.ParseVector_range1 pt (enc slci i c) = next2 (step2 GenV20.tbl_order slci i c pt) :=
  range_step pt slci i c

/-- **(2, end) last range tick = end of `Go.forRange` + the code after the loop** (`if i != 0 { return nil,
    ErrTooShortVector }; return obj, nil`) -/
theorem tick_loop_exit_is_tail (a : Addr) (inp : Bytes) (ei k slci i : Nat) (c : O20) (buf : Buf)
    (hk : ¬ k < ei + 1) :
    tick (.loop a inp ei k slci i c) buf
      = (.ret a inp (res20 (rangeK (Go.forRange [] (enc slci i c) GenP20.ParseVector_range1))), buf) :=
  tick_loop_exit a inp ei k slci i c buf hk

/-- the first range tick of `"AV:N"` (slot 0 of the buffer): the generated body returns `next` with
    `slci = 0, i = 1` and `AV = N` stored; the tick moves to `k = 1` with exactly these values -/
example :
    let buf : Buf := [[65, 86, 58, 78]] ++ List.replicate 13 [88]
    GenP20.ParseVector_range1 [65, 86, 58, 78] (enc 0 0 O20.zero) = .next (0, 128, 0, 0, 0, 1) ∧
    tick (.loop 0 [65, 86, 58, 78] 0 0 0 0 O20.zero) buf = (.loop 0 [65, 86, 58, 78] 0 1 0 1 ⟨128, 0, 0, 0⟩, buf) := by
  decide +kernel

/-! ## 3. the simulation: a thread's run is the unfolding of the generated function -/

/-- **Simulation.** `PoolSim.Rem a inp B ph buf` says: from the thread's state `(ph, buf)` the generated code that
    remains (rest of `Go.forN` over `split_for1`, `splitK`, `pvK`; or rest of `Go.forRange` over
    `ParseVector_range1`, `rangeK`) evaluates to `GenP20.split B inp` / `GenP20.ParseVector B inp`.
    It holds right after `Get` returned a 14-slot buffer with content `B` (`getPool` and `getNew` both put the thread
    in phase `split a inp 0 [] inp`), and every tick preserves it — the thread moves along the *same* generated
    computation; it never crashes, never leaves its buffer, and the tick bound `fuelOf` decreases. -/
theorem tick_simulates_generated (a : Addr) (inp : Bytes) (B : Buf) :
    (B.length = 14 → Rem a inp B (.split a inp 0 [] inp) B) ∧
    (∀ ph buf, Rem a inp B ph buf →
      Rem a inp B (tick ph buf).1 (tick ph buf).2 ∧ (tick ph buf).1.owner = some a ∧
      fuelOf (tick ph buf).1 ≤ fuelOf ph - 1) ∧
    (∀ a' inp' r buf, Rem a inp B (.ret a' inp' r) buf →
      a' = a ∧ inp' = inp ∧ r = res20 (GenP20.ParseVector B inp) ∧ ∃ ei, GenP20.split B inp = some (buf, ei)) :=
  ⟨rem_start a inp B,
   fun _ _ h => ⟨(rem_tick h).1, rem_owner (rem_tick h).1, (rem_tick h).2⟩,
   fun _ _ _ _ h => ⟨h.1, h.2.1, h.2.2.2.2, h.2.2.2.1⟩⟩

/-- **(3) A thread that got the buffer `buf` and ticks `len(inp) + 17` times or more** is in phase `ret` holding
    exactly the value of the generated `ParseVector` **on that buffer**, and the buffer it will `Put` back is the one
    the generated `split` returns. -/
theorem single_thread_computes_generated (a : Addr) (inp : Bytes) (buf : Buf) (hl : buf.length = 14) (m : Nat)
    (hm : inp.length + 17 ≤ m) :
    ∃ bufF ei, tickN m (.split a inp 0 [] inp) buf = (.ret a inp (res20 (GenP20.ParseVector buf inp)), bufF) ∧
      GenP20.split buf inp = some (bufF, ei) :=
  run_reaches_ret a inp buf hl m hm

/-- … and after *any* number of ticks, if the thread is in phase `ret`, its value is the generated one; it is never
    `crashed` -/
theorem single_thread_ret_only (a : Addr) (inp : Bytes) (buf : Buf) (hl : buf.length = 14) (m : Nat) :
    (∀ a' inp' r, (tickN m (.split a inp 0 [] inp) buf).1 = .ret a' inp' r →
      a' = a ∧ inp' = inp ∧ r = res20 (GenP20.ParseVector buf inp)) ∧
    (tickN m (.split a inp 0 [] inp) buf).1 ≠ .crashed :=
  ⟨(run_ret_only a inp buf hl m).1, (run_ret_only a inp buf hl m).2.1⟩

/-- `"AV:N"` on a stale buffer: 4 scan ticks, the exit tick, one range tick, the exit tick — 7 ticks reach `ret` with
    the generated result `ErrTooShortVector`; 6 ticks do not -/
example :
    let stale : Buf := List.replicate 14 [115, 116, 97, 108, 101, 47, 65, 82, 58, 72]
    (tickN 7 (.split 0 inpD 0 [] inpD) stale).1 = .ret 0 inpD (res20 (GenP20.ParseVector stale inpD)) ∧
    res20 (GenP20.ParseVector stale inpD) = .err eTooShort ∧
    (tickN 6 (.split 0 inpD 0 [] inpD) stale).1 = .loop 0 inpD 0 1 0 1 ⟨128, 0, 0, 0⟩ := by
  decide +kernel

/-! ## 4. why thread-local steps may be interleaved freely -/

/-- **Frame.** A legal action changes the phase (= all locals) of no thread other than its actor, and — in a state
    satisfying the ownership invariant — does not change the buffer held by any thread other than its actor. In
    particular a `tick` of thread `t'` touches only `t'`'s phase and `t'`'s own buffer. -/
theorem other_threads_do_not_interfere {σ σ' : St} {act : Act} (hI : Inv σ) (hl : act.legal = true)
    (hs : apply σ act = some σ') {t : Nat} {ph : Phase} {a : Addr} (ht : σ.thr[t]? = some ph)
    (ho : ph.owner = some a) (hne : actor act ≠ some t) :
    σ'.thr[t]? = some ph ∧ σ'.heap a = σ.heap a :=
  ⟨(frame_thr hs hne).trans ht, frame_heap hI hl hs ht ho hne⟩

/-- The generated bodies `GenP20.split_for1`, `GenP20.ParseVector_range1` are Lean functions of
    `(vector, loop state)` resp. `(pt, loop state)`; the only package-level objects their text mentions are the table
    `GenV20.tbl_order` and the function `GenV20.Set`. The regenerated shared-state facts say that no function of
    package 20 writes a package variable, and that the only calls on package state are `ParseVector`'s
    `splitPool.Get` / `splitPool.Put` — the machine's actions `getPool`/`getNew` and `put`. So between `Get` and
    `Put` a call reads and writes its own buffer and its locals only: the thread-local `tick`. -/
theorem generated_code_shares_nothing :
    GenV20.pkg_writes = [] ∧
    GenV20.pkg_calls = ["ParseVector:splitPool.Get", "ParseVector:splitPool.Put"] :=
  v20_shared_state

/-! ## 5. every schedule, against the generated parser -/

/-- **`schedule_independent`, generated parser on the right.** Any `Init` state, any legal schedule. Then
    * every finished call `(t, inp, r)` returned `r = res20 (GenP20.ParseVector buf inp)` for **every** 14-slot
      buffer `buf` (the generated result does not depend on the buffer: `ParseTie.v20_buffer_independent`);
    * every call whose body has returned holds that value, and the buffer it is about to `Put` back is what the
      generated `split` leaves from some 14-slot buffer;
    * every thread inside a call is at a point of the generated `ParseVector B inp` for a 14-slot `B` (`PoolSim.Rem`);
    * no thread ever crashed.
    The proof goes through the simulation (`PoolSim.ginv_run`), not through `Model.parse20`. -/
theorem schedule_independent_gen (σ₀ σ : St) (acts : List Act) (h0 : Init σ₀)
    (hlegal : ∀ x ∈ acts, x.legal = true) (hrun : run σ₀ acts = some σ) :
    (∀ (t : Nat) (inp : Bytes) (r : Res O20), (t, inp, r) ∈ σ.log →
        ∀ buf : Buf, buf.length = 14 → r = res20 (GenP20.ParseVector buf inp)) ∧
    (∀ (t : Nat) (a : Addr) (inp : Bytes) (r : Res O20), σ.thr[t]? = some (Phase.ret a inp r) →
        (∀ buf : Buf, buf.length = 14 → r = res20 (GenP20.ParseVector buf inp)) ∧
        ∃ (B : Buf) (ei : Nat), B.length = 14 ∧ GenP20.split B inp = some (σ.heap a, ei)) ∧
    (∀ (t : Nat) (ph : Phase) (a : Addr), σ.thr[t]? = some ph → ph.owner = some a →
        ∃ (inp : Bytes) (B : Buf), B.length = 14 ∧ Rem a inp B ph (σ.heap a)) ∧
    (∀ t : Nat, σ.thr[t]? ≠ some Phase.crashed) := by
  have hG := ginv_run acts (init_ginv h0) hlegal hrun
  refine ⟨?_, ?_, hG.rem, fun t h => hG.inv.phaseOK t .crashed h⟩
  · intro t inp r h buf hb
    obtain ⟨B, hB, e⟩ := hG.log _ h
    rw [v20_buffer_independent buf B hb hB inp]; exact e
  · intro t a inp r h
    obtain ⟨inp', B, hB, hr⟩ := hG.rem t _ a h rfl
    obtain ⟨_, rfl, _, ⟨ei, he⟩, rfl⟩ := hr
    exact ⟨fun buf hb => by rw [v20_buffer_independent buf B hb hB inp], B, ei, hB, he⟩

/-- … and the two statements agree: the generated result for any 14-slot buffer is the sequential model's
    (`ParseTie.v20`), so `schedule_independent_gen` implies the log part of `C14.schedule_independent` and vice versa -/
theorem gen_result_is_model (buf : Buf) (hb : buf.length = 14) (inp : Bytes) :
    res20 (GenP20.ParseVector buf inp) = parse20 inp := ParseTie.v20 buf hb inp

/-- **In particular for the buffer the thread actually held.** Split a schedule at a call of thread `t`:
    `before`, then the `Get` (from the pool, or a fresh buffer with arbitrary content), then `during` — anything
    legal by anybody, except that `t` does not `Put` —, then `t`'s `Put`. Let `B` be the content of the buffer at
    address `a` at the moment `Get` returned it (stale strings of earlier calls of possibly other threads). Then the
    call logged exactly `res20 (GenP20.ParseVector B inp)`, and the buffer that went back into the pool is the one the
    generated `split B inp` returns — whatever the other threads did in between. -/
theorem held_buffer_result (σ₀ σ₁ σ₂ σ₃ σ₄ : St) (before during : List Act) (get : Act) (t : Nat) (inp : Bytes)
    (a : Addr) (h0 : Init σ₀)
    (hget : get = .getPool t inp a ∨ ∃ content, get = .getNew t inp a content)
    (hl1 : ∀ x ∈ before, x.legal = true) (hl2 : ∀ x ∈ during, x.legal = true) (hnp : Act.put t ∉ during)
    (h1 : run σ₀ before = some σ₁) (h2 : apply σ₁ get = some σ₂) (h3 : run σ₂ during = some σ₃)
    (h4 : apply σ₃ (.put t) = some σ₄) :
    (σ₂.heap a).length = 14 ∧
    (get = .getPool t inp a → σ₂.heap a = σ₁.heap a) ∧
    (∀ content, get = .getNew t inp a content → σ₂.heap a = content) ∧
    σ₄.log = (t, inp, res20 (GenP20.ParseVector (σ₂.heap a) inp)) :: σ₃.log ∧
    (∃ ei, GenP20.split (σ₂.heap a) inp = some (σ₄.heap a, ei)) ∧ a ∈ σ₄.pool := by
  have hI1 := inv_run before (init_inv h0) hl1 h1
  have key : Inv σ₂ ∧ (σ₂.heap a).length = 14 ∧ Tracks σ₂ t a inp (σ₂.heap a) ∧
      (get = .getPool t inp a → σ₂.heap a = σ₁.heap a) ∧
      (∀ content, get = .getNew t inp a content → σ₂.heap a = content) := by
    rcases hget with rfl | ⟨content, rfl⟩
    · obtain ⟨e1, e2, e3⟩ := tracks_getPool hI1 h2
      refine ⟨inv_apply hI1 rfl h2, by rw [e2]; exact e1, by rw [e2]; exact e3, fun _ => e2, ?_⟩
      intro content h; cases h
    · obtain ⟨e1, e2, e3⟩ := tracks_getNew h2
      refine ⟨inv_apply hI1 rfl h2, by rw [e2]; exact e1, by rw [e2]; exact e3, ?_, ?_⟩
      · intro h; cases h
      · intro content' h; cases h; exact e2
  obtain ⟨hI2, hlen, hT2, hp, hn⟩ := key
  obtain ⟨_, hT3⟩ := tracks_run during hI2 hT2 hl2 hnp h3
  obtain ⟨e1, e2, e3⟩ := tracks_put hT3 h4
  exact ⟨hlen, hp, hn, e1, e3, e2⟩

/-- The hypotheses of `held_buffer_result` are satisfiable by a genuinely interleaved run: on `σex` (every buffer
    holds 14 copies of `"stale/AR:H"`) thread 1 first starts parsing the 14-metric `inpC` on a fresh buffer, then thread
    0 gets the pooled buffer 0 for `inpA`; 90 rounds of strictly alternating ticks; thread 1 `Put`s; thread 0 `Put`s.
    The run is enabled to the end and thread 0's entry is the generated result on the stale buffer. -/
theorem held_buffer_example :
    let before : List Act := [.getNew 1 inpC 7 (List.replicate 14 [88])]
    let during : List Act := (List.replicate 90 [Act.tick 0, Act.tick 1]).flatten ++ [.put 1]
    (∀ x ∈ before ++ during, x.legal = true) ∧ Act.put 0 ∉ during ∧
    ((run σex before).bind fun σ₁ => (apply σ₁ (.getPool 0 inpA 0)).bind fun σ₂ =>
      (run σ₂ during).bind fun σ₃ => (apply σ₃ (.put 0)).map fun σ₄ => σ₄.log)
      = some [(0, inpA, res20 (GenP20.ParseVector (σex.heap 0) inpA)),
              (1, inpC, res20 (GenP20.ParseVector (List.replicate 14 [88]) inpC))] := by
  decide +kernel

end C14
