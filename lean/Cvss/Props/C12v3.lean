import Cvss.Proofs.Score3MonoObj
/-!
# C12 (v3.0 / v3.1 part) — more severe never scores lower

"Changing a single metric to a more severe value of the specification's ordering (others fixed) never decreases the
score." For every well-formed object `c`, **every** metric `a` (all 22) and legal values `v₁`, `v₂` with
`Spec.atLeastAsSevere Spec.V3.metrics Spec.V3.rank (values of c) a v₁ v₂` (order of `Spec/Effective.lean`: AV N>A>L>P,
AC L>H, PR N>L>H, UI N>R, S C>U, C/I/A H>L>N, E H>F>P>U, RL U>W>T>O, RC C>R>U, CR/IR/AR H>M>L, `X` as its default;
Modified metrics like their base metric, a Modified `X` ranks as the base metric's current value):

* v3.1: `BaseScore`, `TemporalScore` **and `EnvironmentalScore`** of `c.Set(a, v₁)` are `≤` (IEEE, `F64.le`) those of
  `c.Set(a, v₂)`;
* v3.0: `BaseScore` and `TemporalScore`.  For the v3.0 `EnvironmentalScore` the statement is **false** — already for
  the v3.0 specification equations (the reason the v3.1 ModifiedImpact formula was changed): `v30_environmental_not_monotone`.

Metrics a score does not depend on (e.g. `E` for BaseScore, `AV` when `MAV` is defined) are included: the score is
then unchanged. Scope (`S`, `MS`: C > U, with the scope-dependent PR weight, the changed-scope Impact formula and the
factor 1.08) is included.

Proof: monotonicity of the exact Spec (`Proofs/Score3Mono*.lean`: kernel enumeration of the equations over
2 × 69,984 modified-base-score classes + Base + Temporal step, per component and context, product order), transferred
by C03 (`score = tenth k`) and the Get/Set contract (`Bits30/31`).
-/
namespace Props.C12v3
open Model Spec Proofs.Score3.Mono

abbrev ms : List Metric := Spec.V3.metrics

/-! ## v3.1 -/
section v31
variable (c : O31) (h : c.wf = true) (a v₁ v₂ : Spec.Bytes) (l1 : legal ms a v₁ = true) (l2 : legal ms a v₂ = true)
  (sev : atLeastAsSevere ms Spec.V3.rank (fun x => (c.get x).1) a v₁ v₂ = true)
include h l1 l2 sev

theorem base_v31 : F64.le (c.set a v₁).1.baseScore (c.set a v₂).1.baseScore = true := by
  have s1 := Props.C03.base_v31 _ (Bits31.wf_set c a v₁ h)
  have s2 := Props.C03.base_v31 _ (Bits31.wf_set c a v₂ h)
  rw [val_set31 c l1] at s1; rw [val_set31 c l2] at s2
  exact le_of_isScore s1 s2 (base_spec_mono (legalVec31 c h) l1 l2 sev true).1

theorem temporal_v31 : F64.le (c.set a v₁).1.temporalScore (c.set a v₂).1.temporalScore = true := by
  have s1 := Props.C03.temporal_v31 _ (Bits31.wf_set c a v₁ h)
  have s2 := Props.C03.temporal_v31 _ (Bits31.wf_set c a v₂ h)
  rw [val_set31 c l1] at s1; rw [val_set31 c l2] at s2
  exact le_of_isScore s1 s2 (temporal_spec_mono (legalVec31 c h) l1 l2 sev true)

theorem environmental_v31 : F64.le (c.set a v₁).1.environmentalScore (c.set a v₂).1.environmentalScore = true := by
  have s1 := Props.C03.environmental_v31 _ (Bits31.wf_set c a v₁ h)
  have s2 := Props.C03.environmental_v31 _ (Bits31.wf_set c a v₂ h)
  rw [val_set31 c l1] at s1; rw [val_set31 c l2] at s2
  exact le_of_isScore s1 s2 (env_spec_mono (legalVec31 c h) l1 l2 sev)
end v31

/-! ## v3.0 -/
section v30
variable (c : O30) (h : c.wf = true) (a v₁ v₂ : Spec.Bytes) (l1 : legal ms a v₁ = true) (l2 : legal ms a v₂ = true)
  (sev : atLeastAsSevere ms Spec.V3.rank (fun x => (c.get x).1) a v₁ v₂ = true)
include h l1 l2 sev

theorem base_v30 : F64.le (c.set a v₁).1.baseScore (c.set a v₂).1.baseScore = true := by
  have s1 := Props.C03.base_v30 _ (Bits30.wf_set c a v₁ h)
  have s2 := Props.C03.base_v30 _ (Bits30.wf_set c a v₂ h)
  rw [val_set30 c l1] at s1; rw [val_set30 c l2] at s2
  exact le_of_isScore s1 s2 (base_spec_mono (legalVec30 c h) l1 l2 sev false).1

theorem temporal_v30 : F64.le (c.set a v₁).1.temporalScore (c.set a v₂).1.temporalScore = true := by
  have s1 := Props.C03.temporal_v30 _ (Bits30.wf_set c a v₁ h)
  have s2 := Props.C03.temporal_v30 _ (Bits30.wf_set c a v₂ h)
  rw [val_set30 c l1] at s1; rw [val_set30 c l2] at s2
  exact le_of_isScore s1 s2 (temporal_spec_mono (legalVec30 c h) l1 l2 sev false)
end v30

/-! ## the Spec itself (no code): the statement on the FIRST equations -/

/-- for a legal assignment `f` of value strings, the exact v3.1 Environmental score (tenths) does not decrease; same
    for Base and Temporal of both versions (`base_spec_mono`, `temporal_spec_mono`) -/
theorem spec_environmental_v31 (f : Spec.Bytes → Spec.Bytes) (hf : LegalVec f) (a v₁ v₂ : Spec.Bytes)
    (l1 : legal ms a v₁ = true) (l2 : legal ms a v₂ = true) (sev : atLeastAsSevere ms Spec.V3.rank f a v₁ v₂ = true) :
    Spec.V3.environmentalK true (EffKeys.upd f a v₁) ≤ Spec.V3.environmentalK true (EffKeys.upd f a v₂) :=
  env_spec_mono hf l1 l2 sev

/-! ## the hypotheses are satisfiable, and the v3.0 Environmental score is *not* monotone -/

/-- `CVSS:3.x/AV:N/AC:L/PR:N/UI:N/S:U/C:N/I:N/A:N/CR:L/IR:H/AR:H/MAV:P/MAC:H/MPR:H/MUI:R/MS:C/MC:N/MI:L/MA:H` -/
def w31 : O31 := ⟨1, 80, 6, 178, 235, 144⟩
def w30 : O30 := ⟨1, 80, 6, 178, 235, 144⟩

/-- a non-trivial instance: `MC:N → MC:L` (more severe) on `w31`; scores 6.9 ≤ 6.9 -/
example : w31.wf = true ∧ legal ms (b "MC") (b "N") = true ∧ legal ms (b "MC") (b "L") = true ∧
    atLeastAsSevere ms Spec.V3.rank (fun x => (w31.get x).1) (b "MC") (b "N") (b "L") = true ∧
    (w31.set (b "MC") (b "N")).1.environmentalScore = F64.tenth 69 ∧
    (w31.set (b "MC") (b "L")).1.environmentalScore = F64.tenth 69 := by decide +kernel
/-- a step through a Modified `X`: `MS:X` (ranks as `S:U`) `→ MS:C`; scores 0.0 ≤ 6.9 … -/
example : atLeastAsSevere ms Spec.V3.rank (fun x => (w31.get x).1) (b "MS") (b "X") (b "C") = true ∧
    F64.le (w31.set (b "MS") (b "X")).1.environmentalScore (w31.set (b "MS") (b "C")).1.environmentalScore = true ∧
    (w31.set (b "MS") (b "X")).1.environmentalScore ≠ (w31.set (b "MS") (b "C")).1.environmentalScore := by decide +kernel

/-- **v3.0 EnvironmentalScore is not monotone**: on `w30`, raising `MC` from `N` to the more severe `L` lowers the score
    from 6.9 to 6.8. The same happens in the exact v3.0 specification equations (`Spec.V3.environmentalK false` gives 69
    and 68 tenths), so this is a property of CVSS v3.0, faithfully reproduced by the code — not an implementation defect. -/
theorem v30_environmental_not_monotone :
    w30.wf = true ∧ legal ms (b "MC") (b "N") = true ∧ legal ms (b "MC") (b "L") = true ∧
    atLeastAsSevere ms Spec.V3.rank (fun x => (w30.get x).1) (b "MC") (b "N") (b "L") = true ∧
    F64.le (w30.set (b "MC") (b "N")).1.environmentalScore (w30.set (b "MC") (b "L")).1.environmentalScore = false ∧
    (w30.set (b "MC") (b "N")).1.environmentalScore = F64.tenth 69 ∧
    (w30.set (b "MC") (b "L")).1.environmentalScore = F64.tenth 68 ∧
    Spec.V3.environmentalK false (fun x => ((w30.set (b "MC") (b "N")).1.get x).1) = 69 ∧
    Spec.V3.environmentalK false (fun x => ((w30.set (b "MC") (b "L")).1.get x).1) = 68 := by decide +kernel

end Props.C12v3
