import Cvss.Proofs.Parse2Canon
import Cvss.Proofs.Parse2Read
/-!
# C06 (v2.0): a parsed vector means what it says

The right-hand side is read off the Spec's witness list of the string, not off the parser.
-/
namespace C06.V2
open Proofs Proofs.Parse2
open Model (Bytes Res)
open Spec.V2 (metrics Witness G)

section
variable (K : Contract Model.O20 metrics)

/-- every metric reads as the value written in the string, else as its not-defined value `ND` -/
theorem parsed_means {s : Bytes} {c : Model.O20} (h : parseK K s = .ok c) :
    ∀ w, Witness s w → ∀ m ∈ metrics, K.get c m.abv = (Spec.valueOf metrics w m.abv, Go.errNil) :=
  fun _ hw _ hm => parse_get K h hw hm

/-- the parsed object is well-formed -/
theorem parsed_wf {s : Bytes} {c : Model.O20} (h : parseK K s = .ok c) : K.WF c := parse_wf K h

/-- the parsed object is the fold of `Set` over the witness, from the zero object -/
theorem parsed_fold {s : Bytes} {c : Model.O20} (h : parseK K s = .ok c) :
    ∀ w, Witness s w → c = setAll K.set K.zero w := by
  intro w hw
  obtain ⟨w0, hw0, hc⟩ := parse_sound K h
  rw [witness_unique hw hw0]; exact hc

/-- about `Model.parse20` itself, for a contract whose zero/`Set` are the generated ones -/
theorem model_parsed_means (hz : K.zero = Model.O20.zero) (hs : K.set = Model.O20.set)
    {s : Bytes} {c : Model.O20} (h : Model.parse20 s = .ok c) :
    K.WF c ∧ ∀ w, Witness s w → ∀ m ∈ metrics, K.get c m.abv = (Spec.valueOf metrics w m.abv, Go.errNil) := by
  rw [parse20_eq_parseK K hz hs] at h
  exact ⟨parsed_wf K h, parsed_means K h⟩

end

/-- the hypotheses are satisfiable: an accepted string with its witness; the implicit `ND` of an omitted
    group and an explicit value are both read off the witness -/
example : Model.parse20 (Spec.b "AV:L/AC:H/Au:M/C:N/I:N/A:N/E:F/RL:OF/RC:C") = .ok ⟨32, 6, 112, 0⟩ := by decide
example : Witness (Spec.b "AV:L/AC:H/Au:M/C:N/I:N/A:N/E:F/RL:OF/RC:C")
    [(Spec.b "AV", Spec.b "L"), (Spec.b "AC", Spec.b "H"), (Spec.b "Au", Spec.b "M"), (Spec.b "C", Spec.b "N"),
     (Spec.b "I", Spec.b "N"), (Spec.b "A", Spec.b "N"), (Spec.b "E", Spec.b "F"), (Spec.b "RL", Spec.b "OF"),
     (Spec.b "RC", Spec.b "C")] := (Proofs.Parse2.read_iff _ _).mp (by decide)

end C06.V2
