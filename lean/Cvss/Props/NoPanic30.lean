import Cvss.Gen.V30
import Cvss.Proofs.NoPanic30
/-!
# No panic, package 30 (CVSS v3.0): the scoring methods return normally on every well-formed object

`Gen/K30.lean` is regenerated from the Go source on every check (`tools/okgen` + `tools/gen`): for every function `f` of the
package that can panic — in this package the only panic sources are the `default: panic(...)` branches of the weight helpers
`cia`, `ciar`, `attackVector`, `attackComplexity`, `privilegesRequired`, `userInteraction`, `exploitCodeMaturity`,
`remediationLevel`, `reportConfidence`, and whoever calls them — it contains a twin `f_ok` that returns `true` exactly when `f`
returns normally. The theorems below say: on a well-formed object (`c.wf = true`, i.e. every field holds the code of one of its
metric's values; equivalent to "reachable through the API", `Bits30.reachable_iff_wf`) every twin of a scoring method
returns `true`. The proofs do not enumerate objects: `wf` puts every field code in its value range
(`Proofs.Score3.V30.inRange_of_wf`), each twin on codes is exactly the conjunction of the range tests of the codes it reads
(`Proofs.NoPanic30.*_core_eq`), and the effective code `mod base modified` of a Modified metric stays in the Base metric's range.
-/
namespace Props.NoPanic30
open Model Proofs.Score3.V30 Proofs.NoPanic30

/-! ## 1. The twins of the API methods return `true` on well-formed objects -/

theorem impact_ok (c : O30) (h : c.wf = true) : GenK30.Impact_ok c.u0 c.u1 c.u2 c.u3 c.u4 c.u5 = true := by
  have R := inRange_of_wf c h
  exact impact_core_ok (kS c) R.h5 R.h6 R.h7

theorem exploitability_ok (c : O30) (h : c.wf = true) : GenK30.Exploitability_ok c.u0 c.u1 c.u2 c.u3 c.u4 c.u5 = true := by
  have R := inRange_of_wf c h
  exact exploitability_core_ok (k4 c) R.h0 R.h1 R.h2 R.h3

theorem baseScore_ok (c : O30) (h : c.wf = true) : GenK30.BaseScore_ok c.u0 c.u1 c.u2 c.u3 c.u4 c.u5 = true := by
  have R := inRange_of_wf c h
  exact baseScore_core_ok (kS c) (k4 c) R.h5 R.h6 R.h7 R.h0 R.h1 R.h2 R.h3

theorem temporalScore_ok (c : O30) (h : c.wf = true) : GenK30.TemporalScore_ok c.u0 c.u1 c.u2 c.u3 c.u4 c.u5 = true := by
  have R := inRange_of_wf c h
  exact temporalScore_core_ok (kS c) (k4 c) R.h8 R.h9 R.h10 R.h5 R.h6 R.h7 R.h0 R.h1 R.h2 R.h3

theorem environmentalScore_ok (c : O30) (h : c.wf = true) :
    GenK30.EnvironmentalScore_ok c.u0 c.u1 c.u2 c.u3 c.u4 c.u5 = true := by
  have R := inRange_of_wf c h
  exact environmentalScore_core_ok (k4 c) (k18 c) R.h0 R.h14 R.h1 R.h15 R.h2 R.h16 R.h3 R.h17 R.h5 R.h19 R.h6 R.h20
    R.h7 R.h21 R.h11 R.h12 R.h13 R.h8 R.h9 R.h10

/-- all five at once -/
theorem scoring_ok (c : O30) (h : c.wf = true) :
    GenK30.BaseScore_ok c.u0 c.u1 c.u2 c.u3 c.u4 c.u5 = true ∧
    GenK30.TemporalScore_ok c.u0 c.u1 c.u2 c.u3 c.u4 c.u5 = true ∧
    GenK30.EnvironmentalScore_ok c.u0 c.u1 c.u2 c.u3 c.u4 c.u5 = true ∧
    GenK30.Impact_ok c.u0 c.u1 c.u2 c.u3 c.u4 c.u5 = true ∧
    GenK30.Exploitability_ok c.u0 c.u1 c.u2 c.u3 c.u4 c.u5 = true :=
  ⟨baseScore_ok c h, temporalScore_ok c h, environmentalScore_ok c h, impact_ok c h, exploitability_ok c h⟩

/-- the hypothesis is satisfiable by a non-trivial object
    (`CVSS:3.0/AV:A/AC:H/PR:L/UI:R/S:C/C:L/I:L/A:N/E:U/RL:O/RC:U/CR:L/IR:M/AR:H/MAV:P/MAC:H/MPR:H/MUI:R/MS:C/MC:N/MI:L/MA:H`)
    and by the zero value -/
example : (⟨0x6E, 0xB4, 0x9F, 0x32, 0xEB, 0x90⟩ : O30).wf = true := by decide
example : O30.zero.wf = true := by decide

/-! ## 2. The functions that cannot panic at all -/

/-- The functions of the package without any panic source (no `panic`, no index expression, no call of a function that has
    one), as `okgen` computes the set from the source; they get no twin. Hence **`CVSS30.Get`, `CVSS30.Set`, `CVSS30.Vector`
    and the package function `Rating` are panic-free by construction on every object, well formed or not**, as are the
    internal `get`, `lenVec`, `validate`, `mandatory`, `notMandatory`, `mod`, `pow15`, `roundup` and the `Error`
    methods of the error types. Every other function of the package that `okgen` handles has a twin in `GenK30`
    (`BaseScore`, `TemporalScore`, `EnvironmentalScore`, `Impact`, `Exploitability` and the nine weight helpers).
    (`ParseVector` is not handled by `okgen`; it is modelled by the parser-mode translator, `Gen/P30.lean`.) -/
theorem panic_free : GenK30.tbl_okPanicFree =
    [Spec.b "CVSS30.Get", Spec.b "CVSS30.Set", Spec.b "CVSS30.Vector", Spec.b "CVSS30.get", Spec.b "ErrDefinedN.Error",
     Spec.b "ErrInvalidMetric.Error", Spec.b "ErrMissing.Error", Spec.b "Rating", Spec.b "lenVec", Spec.b "mandatory",
     Spec.b "mod", Spec.b "notMandatory", Spec.b "pow15", Spec.b "roundup", Spec.b "validate"] := by decide

/-! ## 3. Not vacuous: the twins return `false` on byte states that are not well formed -/

/-- `C` holds the code 3 (no such value): not well formed, and `Impact`, `BaseScore`, `TemporalScore` panic in `cia` -/
example : (⟨1, 128, 0, 0, 0, 0⟩ : O30).wf = false := by decide
example : GenK30.Impact_ok 1 128 0 0 0 0 = false := by decide
example : GenK30.BaseScore_ok 1 128 0 0 0 0 = false := by decide
example : GenK30.TemporalScore_ok 1 128 0 0 0 0 = false := by decide
/-- `PR` holds the code 3: `Exploitability` panics in `privilegesRequired` -/
example : (⟨24, 0, 0, 0, 0, 0⟩ : O30).wf = false := by decide
example : GenK30.Exploitability_ok 24 0 0 0 0 0 = false := by decide
/-- `E` holds the code 7: `TemporalScore` panics in `exploitCodeMaturity` (while `BaseScore` does not panic) -/
example : (⟨0, 7, 0, 0, 0, 0⟩ : O30).wf = false := by decide
example : GenK30.TemporalScore_ok 0 7 0 0 0 0 = false ∧ GenK30.BaseScore_ok 0 7 0 0 0 0 = true := by decide
/-- `MAV` holds the code 7, effective code 6: `EnvironmentalScore` panics in `attackVector` -/
example : (⟨0, 0, 0, 28, 0, 0⟩ : O30).wf = false := by decide
example : GenK30.EnvironmentalScore_ok 0 0 0 28 0 0 = false := by decide
/-- the helper twins are exactly range tests, e.g. `cia_ok v = (v < 3)` -/
example : ∀ v, GenK30.cia_ok v = Nat.blt v 3 := cia_rng
/-- … and so is every method twin on codes, e.g. `Impact` returns normally exactly when `C`, `I`, `A` hold codes below 3 -/
example (r0 r1 r2 r3 : Nat) : GenK30.Impact_ok_core r0 r1 r2 r3 = (Nat.blt r0 3 && Nat.blt r1 3 && Nat.blt r2 3) :=
  impact_core_eq r0 r1 r2 r3

/-! ## 4. The K copies of the ordinary functions are the V ones -/
theorem k_eq_v :
    GenK30.cia = GenV30.cia ∧ GenK30.ciar = GenV30.ciar ∧ GenK30.attackVector = GenV30.attackVector ∧
    GenK30.attackComplexity = GenV30.attackComplexity ∧ GenK30.privilegesRequired = GenV30.privilegesRequired ∧
    GenK30.userInteraction = GenV30.userInteraction ∧ GenK30.exploitCodeMaturity = GenV30.exploitCodeMaturity ∧
    GenK30.remediationLevel = GenV30.remediationLevel ∧ GenK30.reportConfidence = GenV30.reportConfidence ∧
    GenK30.mod_ = GenV30.mod_ ∧ GenK30.pow15 = GenV30.pow15 ∧
    GenK30.Impact_core = GenV30.Impact_core ∧ GenK30.Impact = GenV30.Impact ∧
    GenK30.Exploitability_core = GenV30.Exploitability_core ∧ GenK30.Exploitability = GenV30.Exploitability :=
  ⟨rfl, rfl, rfl, rfl, rfl, rfl, rfl, rfl, rfl, rfl, rfl, rfl, rfl, rfl, rfl⟩

end Props.NoPanic30
