import Cvss.Props.C03
/-!
# C11 (v3.0 / v3.1 part) — every score is a finite number with one decimal in 0.0 … 10.0, and `Rating` accepts it

For every well-formed `CVSS30` / `CVSS31` object each of `BaseScore`, `TemporalScore`, `EnvironmentalScore` is
finite, is not the panic marker, and is — bit for bit — the double nearest `k/10` for some `0 ≤ k ≤ 100`
(corollary of C03: `k` is the Spec value); and the package's `Rating` returns no error on it
(101-case kernel table of the generated `Rating` on `F64.tenth k`).
-/
namespace Props.C11v3
open Model Proofs.Score3

/-- the generated `Rating` functions return no error on any tenth in range -/
theorem rating31_tbl : ∀ k, k < 101 → (GenV31.Rating (F64.tenth k)).2 = Go.errNil := by decide +kernel
theorem rating30_tbl : ∀ k, k < 101 → (GenV30.Rating (F64.tenth k)).2 = Go.errNil := by decide +kernel

/-- the C11 form of a score value -/
def InRange (x : Nat) : Prop :=
  ∃ k : Nat, k ≤ 100 ∧ F64.isFin x = true ∧ x ≠ Props.C03.poison ∧ F64.eq x (F64.tenth k) = true ∧ x = F64.tenth k

theorem inRange_of {x k : Nat} (h : Props.C03.IsScore x k) : InRange x := ⟨k, h.2.2.1, h.2.2.2.1, h.2.2.2.2, h.1, h.2.1⟩

theorem rating31_of {x : Nat} (h : InRange x) : (GenV31.Rating x).2 = Go.errNil := by
  obtain ⟨k, hk, _, _, _, e⟩ := h; rw [e]; exact rating31_tbl k (by omega)
theorem rating30_of {x : Nat} (h : InRange x) : (GenV30.Rating x).2 = Go.errNil := by
  obtain ⟨k, hk, _, _, _, e⟩ := h; rw [e]; exact rating30_tbl k (by omega)

/-! ## v3.1 -/
theorem base_v31 (c : O31) (h : c.wf = true) : InRange c.baseScore ∧ (GenV31.Rating c.baseScore).2 = Go.errNil :=
  ⟨inRange_of (Props.C03.base_v31 c h), rating31_of (inRange_of (Props.C03.base_v31 c h))⟩
theorem temporal_v31 (c : O31) (h : c.wf = true) :
    InRange c.temporalScore ∧ (GenV31.Rating c.temporalScore).2 = Go.errNil :=
  ⟨inRange_of (Props.C03.temporal_v31 c h), rating31_of (inRange_of (Props.C03.temporal_v31 c h))⟩
theorem environmental_v31 (c : O31) (h : c.wf = true) :
    InRange c.environmentalScore ∧ (GenV31.Rating c.environmentalScore).2 = Go.errNil :=
  ⟨inRange_of (Props.C03.environmental_v31 c h), rating31_of (inRange_of (Props.C03.environmental_v31 c h))⟩

/-! ## v3.0 -/
theorem base_v30 (c : O30) (h : c.wf = true) : InRange c.baseScore ∧ (GenV30.Rating c.baseScore).2 = Go.errNil :=
  ⟨inRange_of (Props.C03.base_v30 c h), rating30_of (inRange_of (Props.C03.base_v30 c h))⟩
theorem temporal_v30 (c : O30) (h : c.wf = true) :
    InRange c.temporalScore ∧ (GenV30.Rating c.temporalScore).2 = Go.errNil :=
  ⟨inRange_of (Props.C03.temporal_v30 c h), rating30_of (inRange_of (Props.C03.temporal_v30 c h))⟩
theorem environmental_v30 (c : O30) (h : c.wf = true) :
    InRange c.environmentalScore ∧ (GenV30.Rating c.environmentalScore).2 = Go.errNil :=
  ⟨inRange_of (Props.C03.environmental_v30 c h), rating30_of (inRange_of (Props.C03.environmental_v30 c h))⟩

/-- satisfiable: `CVSS:3.1/AV:N/AC:L/PR:L/UI:N/S:C/C:L/I:L/A:N/E:F/RL:O/CR:H/MAV:L/MS:C/MC:H` scores 6.4 / 5.9 / 8.2,
    rated MEDIUM / MEDIUM / HIGH -/
example : Props.C03.ex31.wf = true ∧ Props.C03.ex31.environmentalScore = F64.tenth 82 ∧
    GenV31.Rating Props.C03.ex31.environmentalScore = (Spec.b "HIGH", Go.errNil) ∧
    GenV31.Rating Props.C03.ex31.baseScore = (Spec.b "MEDIUM", Go.errNil) := by decide +kernel

end Props.C11v3
