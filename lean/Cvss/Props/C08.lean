import Cvss.Props.C08v2
import Cvss.Props.C08v3
import Cvss.Props.C08v4
import Cvss.Props.C02
import Cvss.Props.C06
/-!
# C08 — parsing then serialising yields the canonical form (assembled)

For every accepted string `s` and its grammar witness `w`, the regenerated `Vector()` of the parsed object is
`Spec.Vx.canonical w`: the same header and values, metrics in specification order, not-defined optional metrics removed
(v3/v4: every `X`; v2.0: a temporal/environmental group dropped only when all its metrics are `ND`, otherwise written in
full). Consequences: a canonical string comes back unchanged (`canonical_fixed` in the version files), and
parse-then-serialise twice gives the same string as once (`twice*`): the second parse returns the same object (C02).
-/
namespace C08
open Model Proofs

theorem v20 {s : Bytes} {c : O20} (h : parse20 s = .ok c) : ∀ w, Spec.V2.Witness s w → c.vector = Spec.V2.canonical w :=
  C08.V2.model_vector_canonical Bits20.contract20 (C17.vecContract20 Bits20.contract20 rfl) rfl rfl h
theorem v30 (s : Bytes) (c : O30) (h : parse30 s = .ok c) :
    ∀ w, Spec.V3.Witness Spec.V3.header30 s w → c.vector = Spec.V3.canonical Spec.V3.header30 w :=
  C08.V3.vector_parse_30 Bits30.contract30 rfl rfl (C17.vecContract30 Bits30.contract30 rfl) rfl s c h
theorem v31 (s : Bytes) (c : O31) (h : parse31 s = .ok c) :
    ∀ w, Spec.V3.Witness Spec.V3.header31 s w → c.vector = Spec.V3.canonical Spec.V3.header31 w :=
  C08.V3.vector_parse_31 Bits31.contract31 rfl rfl (C17.vecContract31 Bits31.contract31 rfl) rfl s c h
theorem v40 {s : Bytes} {c : O40} (h : parse40 s = .ok c) : ∀ w, Spec.V4.Witness s w → c.vector = Spec.V4.canonical w :=
  C08.V4.vector_parse_model Proofs.B40.contract40 (C17.vecContract40 Proofs.B40.contract40 rfl) rfl rfl h

/-- applying parse-then-serialise twice gives the same string as once: the re-parse returns the same object -/
theorem twice20 {s : Bytes} {c : O20} (h : parse20 s = .ok c) : parse20 c.vector = .ok c := C02.v20 c (C06.v20 h).1
theorem twice30 (s : Bytes) (c : O30) (h : parse30 s = .ok c) : parse30 c.vector = .ok c := C02.v30 c (C06.wf30 s c h)
theorem twice31 (s : Bytes) (c : O31) (h : parse31 s = .ok c) : parse31 c.vector = .ok c := C02.v31 c (C06.wf31 s c h)
theorem twice40 {s : Bytes} {c : O40} (h : parse40 s = .ok c) : parse40 c.vector = .ok c := C02.v40 c (C06.v40 h).2

/-- an already canonical string is returned unchanged -/
theorem fixed20 {s : Bytes} {c : O20} (h : parse20 s = .ok c) (w) (hw : Spec.V2.Witness s w) (hc : s = Spec.V2.canonical w) :
    c.vector = s := by rw [v20 h w hw, ← hc]
theorem fixed30 (s : Bytes) (c : O30) (h : parse30 s = .ok c) (w) (hw : Spec.V3.Witness Spec.V3.header30 s w)
    (hc : s = Spec.V3.canonical Spec.V3.header30 w) : c.vector = s := by rw [v30 s c h w hw, ← hc]
theorem fixed31 (s : Bytes) (c : O31) (h : parse31 s = .ok c) (w) (hw : Spec.V3.Witness Spec.V3.header31 s w)
    (hc : s = Spec.V3.canonical Spec.V3.header31 w) : c.vector = s := by rw [v31 s c h w hw, ← hc]
theorem fixed40 {s : Bytes} {c : O40} (h : parse40 s = .ok c) (w) (hw : Spec.V4.Witness s w) (hc : s = Spec.V4.canonical w) :
    c.vector = s := by rw [v40 h w hw, ← hc]

end C08
