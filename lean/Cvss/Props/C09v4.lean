import Cvss.Proofs.Reach40
/-!
# C09 (CVSS v4.0, Get/Set part) — recognised abbreviations and values; well-formedness of reachable objects

"Get and Set recognise exactly the version's metric abbreviations (case-sensitive) and Set accepts exactly the
metric's specified values; anything else is refused with an error. Consequently every reachable object, including
the zero value, is well formed: every Get returns a legal non-empty value."

The abbreviations and value lists are the Spec table `Spec.V4.metrics`; the functions are the generated
`GenV40.Get` / `GenV40.Set`. The recognition statements hold for every object, reachable or not.
-/
namespace C09.V40
open Model (O40)
open Spec (b legal isMetric)
open Proofs.B40

/-- `isMetric` is membership in the Spec abbreviation list (byte-wise, hence case-sensitive, equality) -/
theorem isMetric_iff_mem (a : List Nat) : isMetric Spec.V4.metrics a = true ↔ a ∈ Spec.V4.metrics.map (·.abv) := by
  rw [isMetric_iff, List.mem_map]
  constructor
  · rintro ⟨k, hk, rfl⟩; exact ⟨met k, met_mem hk, rfl⟩
  · rintro ⟨m, hm, rfl⟩; obtain ⟨k, hk, rfl⟩ := mem_metrics.1 hm; exact ⟨k, hk, rfl⟩

/-- `Get` succeeds exactly on the 32 abbreviations … -/
theorem get_recognises (c : O40) (a : List Nat) : (c.get a).2 = Go.errNil ↔ isMetric Spec.V4.metrics a = true :=
  get_err c a
/-- … and refuses anything else with `*ErrInvalidMetric{abv}` and the empty string -/
theorem get_refuses (c : O40) (a : List Nat) (h : isMetric Spec.V4.metrics a = false) :
    c.get a = ([], Model.eInvalidMetric a) := get_unknown c a h

/-- `Set` succeeds exactly on (Spec abbreviation, one of that metric's Spec values) … -/
theorem set_accepts (c : O40) (a v : List Nat) : (c.set a v).2 = Go.errNil ↔ legal Spec.V4.metrics a v = true :=
  set_err c a v
/-- … refuses an unknown abbreviation with `*ErrInvalidMetric{abv}` … -/
theorem set_refuses_unknown (c : O40) (a v : List Nat) (h : isMetric Spec.V4.metrics a = false) :
    c.set a v = (c, Model.eInvalidMetric a) := set_unknown c a v h
/-- … and an illegal value of a known metric with `ErrInvalidMetricValue`; both leave the object alone -/
theorem set_refuses_illegal (c : O40) (a v : List Nat) (h : isMetric Spec.V4.metrics a = true)
    (h' : legal Spec.V4.metrics a v = false) : c.set a v = (c, Model.eValue) := set_illegal c a v h h'

/-- every reachable object (the zero value included) is well formed … -/
theorem reachable_wf (c : O40) (hr : O40.Reachable c) : c.wf = true := (reachable_iff_wf c).1 hr
theorem zero_wf : O40.zero.wf = true := wf_zero
/-- … and nothing else is reachable -/
theorem wf_reachable (c : O40) (h : c.wf = true) : O40.Reachable c := (reachable_iff_wf c).2 h

/-- on a reachable object every `Get` of a Spec metric returns, without error, one of the metric's legal values,
    which is a non-empty string -/
theorem reachable_get_legal (c : O40) (hr : O40.Reachable c) (m : Spec.Metric) (hm : m ∈ Spec.V4.metrics) :
    (c.get m.abv).2 = Go.errNil ∧ (c.get m.abv).1 ∈ m.values ∧ (c.get m.abv).1 ≠ [] :=
  have w := reachable_wf c hr
  ⟨(wf_get c w m hm).1, (wf_get c w m hm).2, wf_get_ne_nil c w m hm⟩

/-- the zero value holds `X` in every optional metric (and the first-coded value in the mandatory ones) -/
theorem zero_optional (m : Spec.Metric) (hm : m ∈ Spec.V4.metrics) (u : List Nat) (hu : m.undef = some u) :
    O40.zero.get m.abv = (u, Go.errNil) := get_zero_opt m hm u hu

/-! Case sensitivity and the v4-specific values, on concrete inputs. -/
example : isMetric Spec.V4.metrics (b "AV") = true ∧ isMetric Spec.V4.metrics (b "av") = false
    ∧ isMetric Spec.V4.metrics (b "Av") = false ∧ isMetric Spec.V4.metrics (b "RL") = false
    ∧ isMetric Spec.V4.metrics (b "") = false := by decide
example : legal Spec.V4.metrics (b "MSI") (b "S") = true ∧ legal Spec.V4.metrics (b "MSC") (b "S") = false
    ∧ legal Spec.V4.metrics (b "U") (b "Clear") = true ∧ legal Spec.V4.metrics (b "U") (b "clear") = false
    ∧ legal Spec.V4.metrics (b "AV") (b "X") = false ∧ legal Spec.V4.metrics (b "MAV") (b "X") = true := by decide
example : O40.zero.set (b "av") (b "N") = (O40.zero, Model.eInvalidMetric (b "av")) := set_unknown _ _ _ (by decide)
example : O40.zero.set (b "U") (b "red") = (O40.zero, Model.eValue) := set_illegal _ _ _ (by decide) (by decide)
/-- a byte state that is *not* well formed (code 5 in the 3-bit field of MAV reads as the empty string) is
    not reachable -/
example : ¬ O40.Reachable ⟨0, 0, 0, 10, 0, 0, 0, 0, 0⟩ := fun h => by
  have := reachable_wf _ h; revert this; decide +kernel

end C09.V40
