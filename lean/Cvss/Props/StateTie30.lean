import Cvss.Gen.V30
/-!
# State tie, package 30 — what every property about this package silently assumes

The translator turns each Go function into a pure Lean function of its arguments and reads tables and constants from their
initialisers. That is only the program's behaviour if nothing else can change them: no `init` function, no assignment to (or
address taken of) a package-level variable anywhere in the package, no method call on a package-level variable except v2's
`splitPool.Get/Put`, and no source file that a differently tagged build would add or drop (the checks run a `-tags verif`
build; the hooks files `zz_verif*.go` only add exported accessors). These facts are regenerated from the source on every run
(`pkg_*` lists at the end of `Gen/V30.lean`) and pinned here; every property of this package builds this module as a tie.
-/
namespace StateTie
theorem v30 : GenV30.pkg_inits = [] ∧ GenV30.pkg_build_tags = [] ∧ GenV30.pkg_writes = [] ∧
    GenV30.pkg_calls = [] := by decide
/-- … and the set of package-level variables is exactly the documented one (error sentinels, immutable tables, v2's pool) -/
theorem vars30 : GenV30.pkg_vars =
    ["ErrInvalidCVSSHeader:error", "ErrInvalidMetricValue:error", "ErrOutOfBoundsScore:error", "ErrTooShortVector:error"] := by decide
/-- the object is exactly its packed bytes: 6 `uint8` fields and nothing else (so Go's `==` on objects is equality of the
    bytes the model works on — no cached or hidden state takes part in it), and only these methods have a pointer receiver
    (every other method works on a copy and cannot change the object) -/
theorem obj30 : GenV30.obj_fields = ["u0:uint8", "u1:uint8", "u2:uint8", "u3:uint8", "u4:uint8", "u5:uint8"] ∧ GenV30.obj_ptr_methods = ["Set"] := by decide
/-- what the pointer-receiver methods do with their receiver: only `Set` assigns through it; none takes an address inside the
    object, hands the pointer on, or keeps an alias -/
theorem effects30 : GenV30.obj_ptr_effects = ["Set:writes"] := by decide
/-- `sync.Pool`s of the package: none -/
theorem pool30 : GenV30.pool_new = [] ∧ GenV30.pool_uses = [] := by decide
/-- the package imports exactly these standard packages (no `os`, `time`, `runtime`, `reflect`, `C`, no module-internal package:
    nothing through which the environment, the clock, the scheduler or foreign code could reach the translated functions) -/
theorem imports30 : GenV30.pkg_imports = ["errors", "fmt", "math", "strings", "unsafe"] := by decide
/-- files and initialisers outside what the translator reads: the hooks file declares only the `Verif…` accessors (no `init`, no
    variable, no import), no file of the directory belongs to another platform's or another tag's build, and the only package-level
    initialisers that run code are the `errors.New` sentinels -/
theorem files30 : GenV30.hook_decls = ["zz_verif_hooks.go:func VerifBytes", "zz_verif_hooks.go:func VerifFromBytes", "zz_verif_hooks.go:func VerifLenVec", "zz_verif_hooks.go:func VerifRoundup"] ∧
    GenV30.pkg_other_files = [] ∧
    GenV30.pkg_var_inits = ["ErrInvalidCVSSHeader:call errors.New", "ErrInvalidMetricValue:call errors.New", "ErrOutOfBoundsScore:call errors.New", "ErrTooShortVector:call errors.New"] := by decide
/-- which function mentions which package-level table or pool (the `error` sentinels aside): nothing else in the package —
    no `Error()` method, initialiser or untranslated helper — can read or write them, whatever aliasing it might use -/
theorem uses30 : GenV30.pkg_var_uses = [] := by decide
/-- the only pre-sized buffer is `Vector`'s (its capacity is pinned by `C17.cap_eq_lenVec30`; a run-time capacity anywhere else
    would be an unmodelled panic source), the only mention of package `unsafe` is `Vector`'s string conversion, and the hooks file is
    byte for byte the committed one -/
theorem buffers30 : GenV30.pkg_presized = ["CVSS30.Vector"] ∧ GenV30.pkg_unsafe_all = ["CVSS30.Vector:unsafe.Pointer"] ∧
    GenV30.hook_sha = ["zz_verif_hooks.go:6fcc9fa640673df6"] := by decide
end StateTie
