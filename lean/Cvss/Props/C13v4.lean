import Cvss.Proofs.Parse4Main
/-!
# C13 (v4.0 part): an accepted v4.0 string starts with the specification's header `CVSS:4.0`
-/
namespace C13.V4
open Model (Bytes O40 Res)
open Proofs.P4

variable (K : Proofs.Contract O40 Spec.V4.metrics)

/-- acceptance implies the header is a prefix; the header is the *regenerated* constant, proved equal to the Spec's -/
theorem header_prefix {s : Bytes} {c : O40} (h : parseK K s = .ok c) : Spec.V4.header <+: s := by
  rcases parseK_cases K s with ⟨_, e⟩ | ⟨hs, _⟩ | ⟨_, _, hs, _⟩ | ⟨r, hs, _⟩
  · rw [e] at h; simp at h
  · exact ⟨[], by simp [hs]⟩
  · exact ⟨_, hs.symm⟩
  · exact ⟨_, hs.symm⟩

theorem header_prefix_gen {s : Bytes} {c : O40} (h : parseK K s = .ok c) : GenV40.const_header <+: s := by
  rw [header_eq]; exact header_prefix K h

/-- without the header the error is `ErrInvalidCVSSHeader`, whatever follows -/
theorem no_header {s : Bytes} (h : ¬ Spec.V4.header <+: s) : parseK K s = .err Model.eHeader := by
  rcases parseK_cases K s with ⟨_, e⟩ | ⟨hs, _⟩ | ⟨_, _, hs, _⟩ | ⟨r, hs, _⟩
  · exact e
  · exact absurd ⟨[], by simp [hs]⟩ h
  · exact absurd ⟨_, hs.symm⟩ h
  · exact absurd ⟨_, hs.symm⟩ h

theorem header_value : Spec.V4.header = [67, 86, 83, 83, 58, 52, 46, 48] := by decide

theorem header_prefix_model (hz : K.zero = O40.zero) (hs : K.set = O40.set) {s : Bytes} {c : O40}
    (h : Model.parse40 s = .ok c) : Spec.V4.header <+: s := by
  rw [parse40_eq_parseK K hz hs] at h; exact header_prefix K h

end C13.V4
