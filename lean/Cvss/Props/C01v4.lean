import Cvss.Proofs.Parse4Main
/-!
# C01 (v4.0): `ParseVector` accepts exactly the grammar

`parse K` is the hand-written model `Model.parse40` with the generated `Set`/zero replaced by those of an
arbitrary Get/Set contract `K` (`model_parse`: it *is* `Model.parse40` for the contract of the generated
code). All statements are for every byte string, no length bound.
-/
namespace C01.V4
open Spec (Pair render SLASH COLON abvs b)
open Model (Bytes O40 Res)
open Proofs.P4

variable (K : Proofs.Contract O40 Spec.V4.metrics)

/-- the parser model over the contract `K` -/
abbrev parse : Bytes → Res O40 := parseK K

/-- `Model.parse40` is literally `parse40With` at the regenerated tables and the generated `Set` -/
theorem model_parse_with : Model.parse40 = parse40With GenV40.const_header GenV40.tbl_order O40.zero O40.set := rfl

/-- … hence `parse K` for the contract instance proved from the generated bit-field code -/
theorem model_parse (hz : K.zero = O40.zero) (hs : K.set = O40.set) : Model.parse40 = parse K :=
  parse40_eq_parseK K hz hs

/-- the regenerated tables are the specification's (a changed header or order table breaks these) -/
theorem header_table : GenV40.const_header = Spec.V4.header := header_eq
theorem order_table : GenV40.tbl_order =
    [abvs Spec.V4.base, abvs Spec.V4.threat, abvs Spec.V4.environmental, abvs Spec.V4.supplemental] := order_eq

/-- **C01.** accepted ⇔ grammatical, for every byte string -/
theorem accepts_iff (s : Bytes) : (parse K s).isOk = true ↔ Spec.V4.G s := parseK_isOk_iff K s

/-- the model never panics -/
theorem no_panic (s : Bytes) : parse K s ≠ .panic := parseK_ne_panic K s

/-- the executable recogniser returns exactly the witness list of the grammar -/
theorem read_iff (s : Bytes) (w : List Pair) : Spec.V4.read? s = some w ↔ Spec.V4.Witness s w :=
  Proofs.P4.read_iff s w

theorem read_isSome_iff (s : Bytes) : (Spec.V4.read? s).isSome = true ↔ Spec.V4.G s := by
  constructor
  · intro h
    obtain ⟨w, hw⟩ := Option.isSome_iff_exists.mp h
    exact ⟨w, (read_iff s w).mp hw⟩
  · rintro ⟨w, hw⟩
    rw [(read_iff s w).mpr hw]; rfl

/-- a string has at most one reading -/
theorem witness_unique {s : Bytes} {w w' : List Pair} (h : Spec.V4.Witness s w) (h' : Spec.V4.Witness s w') : w = w' :=
  Proofs.P4.witness_unique h h'

/-! ## consequences, spelled out -/

/-- the header comes first, and nothing precedes it -/
theorem header_first {s : Bytes} (h : (parse K s).isOk = true) : Spec.V4.header <+: s := by
  obtain ⟨w, hw, _⟩ := (accepts_iff K s).mp h
  exact ⟨_, hw.symm⟩

/-- all eleven base metrics, in the order of Table 23, come first -/
theorem base_in_order {s : Bytes} {w : List Pair} (h : Spec.V4.Witness s w) :
    (w.map (·.1)).take 11 = abvs Spec.V4.base := by
  obtain ⟨_, _, opt, _, h2⟩ := h
  rw [h2, List.take_left' base_length]

/-- the optional metrics follow in the fixed order of Table 23, each at most once -/
theorem optional_in_order {s : Bytes} {w : List Pair} (h : Spec.V4.Witness s w) :
    ((w.map (·.1)).drop 11).Sublist (abvs Spec.V4.optional) ∧ (w.map (·.1)).Nodup := by
  refine ⟨?_, (witness_iff.mp h).2.nodup⟩
  obtain ⟨_, _, opt, h1, h2⟩ := h
  rw [h2, List.drop_left' base_length]; exact h1

/-- case-sensitive, byte-exact: every element is an abbreviation of the table, a colon, and one of
    the values the table lists for it -/
theorem byte_exact {s : Bytes} {w : List Pair} (h : Spec.V4.Witness s w) :
    ∀ p ∈ w, ∃ m ∈ Spec.V4.metrics, p.1 = m.abv ∧ p.2 ∈ m.values := by
  intro p hp
  obtain ⟨m, h1, h2⟩ := legal_iff.mp (h.2.1 p hp)
  obtain ⟨hm, ha⟩ := findMetric_some h1
  exact ⟨m, hm, ha.symm, h2⟩

/-- the elements of an accepted string (between the `/`s after the header) are exactly the renderings
    `abv:value` of the witness: no empty element, nothing but one colon-separated pair per element -/
theorem elements {s : Bytes} {w : List Pair} (h : Spec.V4.Witness s w) :
    Spec.splitSlash (s.drop (Spec.V4.header.length + 1)) = w.map render := by
  obtain ⟨rfl, hv⟩ := witness_iff.mp h
  have hlen := hv.length
  cases w with
  | nil => simp at hlen
  | cons p w =>
    rw [← List.drop_drop, List.drop_left, body_cons, List.drop_one, List.tail_cons,
      ← model_split_eq_spec, splitSlash_render_body w p (fun q hq => (hv.lex q hq).2)]
    rfl

/-- no empty element (so no `//` and no trailing `/`) -/
theorem no_empty_element {s : Bytes} (h : Spec.V4.G s) :
    ∀ el ∈ Spec.splitSlash (s.drop (Spec.V4.header.length + 1)), el ≠ [] := by
  obtain ⟨w, hw⟩ := h
  rw [elements hw]
  intro el hel
  obtain ⟨p, _, rfl⟩ := List.mem_map.mp hel
  simp [render]

/-- no trailing `/` -/
theorem no_trailing_slash {s : Bytes} (h : Spec.V4.G s) : s.getLast? ≠ some SLASH := by
  obtain ⟨w, hw⟩ := h
  obtain ⟨rfl, hv⟩ := witness_iff.mp hw
  have hlen := hv.length
  rcases List.eq_nil_or_concat w with e | ⟨w', p, e⟩
  · subst e; simp at hlen
  · subst e
    rw [List.concat_eq_append, body_append, body_cons, body_nil, List.append_nil, ← List.append_assoc,
      show SLASH :: render p = [SLASH] ++ render p from rfl, ← List.append_assoc, List.getLast?_append]
    have hne : (render p).getLast? ≠ none := by
      rw [ne_eq, List.getLast?_eq_none_iff]; simp [render]
    cases hg : (render p).getLast? with
    | none => exact absurd hg hne
    | some x =>
      simp only [Option.some_or, ne_eq, Option.some.injEq]
      intro hx
      subst hx
      exact (hv.lex p (by simp)).2 (List.mem_of_getLast? hg)

/-! ## concrete strings (evaluated through the recogniser) -/

theorem not_G_of_read {s : Bytes} (h : Spec.V4.read? s = none) : ¬ Spec.V4.G s := by
  intro hg
  have := (read_isSome_iff s).mpr hg
  rw [h] at this; simp at this

/-- a full vector with threat, environmental and supplemental metrics is grammatical -/
example : Spec.V4.G (b "CVSS:4.0/AV:N/AC:L/AT:N/PR:N/UI:N/VC:H/VI:H/VA:H/SC:N/SI:N/SA:N/E:A/MSI:S/U:Red") :=
  (read_isSome_iff _).mp (by decide)
/-- lower-case header, abbreviation or value: rejected -/
example : ¬ Spec.V4.G (b "cvss:4.0/AV:N/AC:L/AT:N/PR:N/UI:N/VC:H/VI:H/VA:H/SC:N/SI:N/SA:N") := not_G_of_read (by decide)
example : ¬ Spec.V4.G (b "CVSS:4.0/av:N/AC:L/AT:N/PR:N/UI:N/VC:H/VI:H/VA:H/SC:N/SI:N/SA:N") := not_G_of_read (by decide)
example : ¬ Spec.V4.G (b "CVSS:4.0/AV:n/AC:L/AT:N/PR:N/UI:N/VC:H/VI:H/VA:H/SC:N/SI:N/SA:N") := not_G_of_read (by decide)
example : ¬ Spec.V4.G (b "CVSS:4.0/AV:N/AC:L/AT:N/PR:N/UI:N/VC:H/VI:H/VA:H/SC:N/SI:N/SA:N/U:red") := not_G_of_read (by decide)
/-- trailing `/`, empty element, optional metric repeated or out of order, base metric missing: rejected -/
example : ¬ Spec.V4.G (b "CVSS:4.0/AV:N/AC:L/AT:N/PR:N/UI:N/VC:H/VI:H/VA:H/SC:N/SI:N/SA:N/") := not_G_of_read (by decide)
example : ¬ Spec.V4.G (b "CVSS:4.0/AV:N/AC:L/AT:N/PR:N/UI:N/VC:H/VI:H/VA:H/SC:N/SI:N/SA:N//E:A") := not_G_of_read (by decide)
example : ¬ Spec.V4.G (b "CVSS:4.0/AV:N/AC:L/AT:N/PR:N/UI:N/VC:H/VI:H/VA:H/SC:N/SI:N/SA:N/E:A/E:A") := not_G_of_read (by decide)
example : ¬ Spec.V4.G (b "CVSS:4.0/AV:N/AC:L/AT:N/PR:N/UI:N/VC:H/VI:H/VA:H/SC:N/SI:N/SA:N/CR:H/E:A") := not_G_of_read (by decide)
example : ¬ Spec.V4.G (b "CVSS:4.0/AV:N/AC:L/PR:N/UI:N/VC:H/VI:H/VA:H/SC:N/SI:N/SA:N") := not_G_of_read (by decide)
example : ¬ Spec.V4.G (b "CVSS:4.0AV:N/AC:L/AT:N/PR:N/UI:N/VC:H/VI:H/VA:H/SC:N/SI:N/SA:N") := not_G_of_read (by decide)

/-! ## for `Model.parse40` itself, given the contract instance of the generated code -/

theorem accepts_iff_model (hz : K.zero = O40.zero) (hs : K.set = O40.set) (s : Bytes) :
    (Model.parse40 s).isOk = true ↔ Spec.V4.G s := by
  rw [model_parse K hz hs]; exact accepts_iff K s

theorem no_panic_model (hz : K.zero = O40.zero) (hs : K.set = O40.set) (s : Bytes) : Model.parse40 s ≠ .panic := by
  rw [model_parse K hz hs]; exact no_panic K s

end C01.V4
