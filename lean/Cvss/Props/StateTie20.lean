import Cvss.Gen.V20
/-!
# State tie, package 20 — what every property about this package silently assumes

The translator turns each Go function into a pure Lean function of its arguments and reads tables and constants from their
initialisers. That is only the program's behaviour if nothing else can change them: no `init` function, no assignment to (or
address taken of) a package-level variable anywhere in the package, no method call on a package-level variable except v2's
`splitPool.Get/Put`, and no source file that a differently tagged build would add or drop (the checks run a `-tags verif`
build; the hooks files `zz_verif*.go` only add exported accessors). These facts are regenerated from the source on every run
(`pkg_*` lists at the end of `Gen/V20.lean`) and pinned here; every property of this package builds this module as a tie.
-/
namespace StateTie
theorem v20 : GenV20.pkg_inits = [] ∧ GenV20.pkg_build_tags = [] ∧ GenV20.pkg_writes = [] ∧
    GenV20.pkg_calls = ["ParseVector:splitPool.Get", "ParseVector:splitPool.Put"] := by decide
/-- … and the set of package-level variables is exactly the documented one (error sentinels, immutable tables, v2's pool) -/
theorem vars20 : GenV20.pkg_vars =
    ["ErrInvalidMetricOrder:error", "ErrInvalidMetricValue:error", "ErrTooShortVector:error", "order:[][]string", "splitPool:sync.Pool"] := by decide
/-- the object is exactly its packed bytes: 4 `uint8` fields and nothing else (so Go's `==` on objects is equality of the
    bytes the model works on — no cached or hidden state takes part in it), and only these methods have a pointer receiver
    (every other method works on a copy and cannot change the object) -/
theorem obj20 : GenV20.obj_fields = ["u0:uint8", "u1:uint8", "u2:uint8", "u3:uint8"] ∧ GenV20.obj_ptr_methods = ["Set"] := by decide
/-- what the pointer-receiver methods do with their receiver: only `Set` assigns through it; none takes an address inside the
    object, hands the pointer on, or keeps an alias -/
theorem effects20 : GenV20.obj_ptr_effects = ["Set:writes"] := by decide
/-- `sync.Pool`s of the package: `splitPool.New` makes a 14-slot `[]string` (the buffer length every v2.0 parser theorem assumes: `buf.length = 14`), `ParseVector` is the only user, it takes one buffer and hands the SAME variable back, deferred (so on every path) -/
theorem pool20 : GenV20.pool_new = ["splitPool:New=make([]string, 14)"] ∧ GenV20.pool_uses = ["ParseVector:v0 := splitPool.Get()", "ParseVector:defer splitPool.Put(v0)"] := by decide
/-- the package imports exactly these standard packages (no `os`, `time`, `runtime`, `reflect`, `C`, no module-internal package:
    nothing through which the environment, the clock, the scheduler or foreign code could reach the translated functions) -/
theorem imports20 : GenV20.pkg_imports = ["errors", "fmt", "math", "strings", "sync", "unsafe"] := by decide
/-- files and initialisers outside what the translator reads: the hooks file declares only the `Verif…` accessors (no `init`, no
    variable, no import), no file of the directory belongs to another platform's or another tag's build, and the only package-level
    initialisers that run code are the `errors.New` sentinels and the pool's `New` closure -/
theorem files20 : GenV20.hook_decls = ["zz_verif_hooks.go:func VerifBytes", "zz_verif_hooks.go:func VerifFromBytes", "zz_verif_hooks.go:func VerifLenVec", "zz_verif_hooks.go:func VerifPoolGet", "zz_verif_hooks.go:func VerifPoolPut", "zz_verif_hooks.go:func VerifRound", "zz_verif_hooks.go:func VerifSplit"] ∧
    GenV20.pkg_other_files = [] ∧
    GenV20.pkg_var_inits = ["ErrInvalidMetricOrder:call errors.New", "ErrInvalidMetricValue:call errors.New", "ErrTooShortVector:call errors.New", "splitPool:call make,funclit"] := by decide
/-- which function mentions which package-level table or pool (the `error` sentinels aside): nothing else in the package —
    no `Error()` method, initialiser or untranslated helper — can read or write them, whatever aliasing it might use -/
theorem uses20 : GenV20.pkg_var_uses = ["ParseVector:order", "ParseVector:splitPool"] := by decide
/-- the only pre-sized buffer is `Vector`'s (its capacity is pinned by `C17.cap_eq_lenVec20`; a run-time capacity anywhere else
    would be an unmodelled panic source), the only mention of package `unsafe` is `Vector`'s string conversion, and the hooks file is
    byte for byte the committed one -/
theorem buffers20 : GenV20.pkg_presized = ["CVSS20.Vector"] ∧ GenV20.pkg_unsafe_all = ["CVSS20.Vector:unsafe.Pointer"] ∧
    GenV20.hook_sha = ["zz_verif_hooks.go:a7e96d94804e9cda"] := by decide
end StateTie
