import Cvss.Proofs.Parse3Canon
import Cvss.Proofs.Parse3Inst
/-!
# C02 (v3.0 / v3.1): `Vector()` then `ParseVector` returns the same object

For every well-formed object `c` (all of them at once): `parse (vector c) = ok c`. Generic in the header, the
`Contract` for `Get`/`Set` and the `VecContract` for `Vector()` (which says `Vector()` spells the Spec's
canonical form of the object's own values).
-/
namespace C02.V3
open Proofs Proofs.Parse3
open Spec (Bytes Pair)

variable {O : Type} (K : Contract O Spec.V3.metrics) (hdr : Bytes)
  (VK : VecContract O Spec.V3.metrics K (Spec.V3.canonical hdr))

/-- **C02** -/
theorem parse_vector (c : O) (hc : K.WF c) :
    Model.parse3 (hdr ++ [47]) K.zero K.set (VK.vector c) = .ok c := by
  rw [VK.vector_eq c hc]
  exact parse3_canonical_pairs K hdr c hc

/-- corollary: `Vector()` is injective on well-formed objects -/
theorem vector_injective (c c' : O) (hc : K.WF c) (hc' : K.WF c') (h : VK.vector c = VK.vector c') : c = c' := by
  have h1 := parse_vector K hdr VK c hc
  have h2 := parse_vector K hdr VK c' hc'
  rw [h, h2] at h1
  cases h1; rfl

/-- corollary: `Vector()` of a well-formed object is grammatical -/
theorem vector_grammatical (c : O) (hc : K.WF c) : Spec.V3.G hdr (VK.vector c) := by
  rw [VK.vector_eq c hc]
  exact ⟨_, canonical_witness hdr _ (good_pairs K c hc)⟩

/-- the hypothesis `K.WF c` is satisfiable by non-trivial objects: every parser result is well-formed
    (and `C06.V3`'s example shows the parser does accept a shuffled vector, for every contract) -/
example (s : Bytes) (c : O) (h : Model.parse3 (hdr ++ [47]) K.zero K.set s = .ok c) : K.WF c := by
  obtain ⟨w, _, rfl⟩ := parse3_sound K hdr s c h
  exact wf_setAll K w K.zero K.wf_zero

/-! ## Instances. **Final instantiation**: supply `contract30/31` and `vecContract30/31`; the equations are `rfl`. -/
section Instances
open Model (O30 O31)
variable (K30 : Contract O30 Spec.V3.metrics) (hz30 : K30.zero = O30.zero) (hs30 : K30.set = O30.set)
  (VK30 : VecContract O30 Spec.V3.metrics K30 (Spec.V3.canonical Spec.V3.header30)) (hv30 : VK30.vector = O30.vector)
variable (K31 : Contract O31 Spec.V3.metrics) (hz31 : K31.zero = O31.zero) (hs31 : K31.set = O31.set)
  (VK31 : VecContract O31 Spec.V3.metrics K31 (Spec.V3.canonical Spec.V3.header31)) (hv31 : VK31.vector = O31.vector)

include hz30 hs30 hv30 in
theorem parse_vector_30 (c : O30) (hc : K30.WF c) : Model.parse30 c.vector = .ok c := by
  rw [parse30_eq_K K30 hz30 hs30, ← hv30]; exact parse_vector K30 _ VK30 c hc
include hz31 hs31 hv31 in
theorem parse_vector_31 (c : O31) (hc : K31.WF c) : Model.parse31 c.vector = .ok c := by
  rw [parse31_eq_K K31 hz31 hs31, ← hv31]; exact parse_vector K31 _ VK31 c hc
end Instances

end C02.V3
