import Cvss.Proofs.Parse3Canon
import Cvss.Proofs.Parse3Read
import Cvss.Proofs.Parse3Inst
/-!
# C08 (v3.0 / v3.1): parse then serialise gives the canonical form

`parse s = ok c → vector c = canonical (reading of s)`; the canonical form is grammatical; canonicalisation is
idempotent (Spec level, and parse-then-serialise level); a canonical string comes back unchanged.
Generic in the header, the `Contract` and the `VecContract`.
-/
namespace C08.V3
open Proofs Proofs.Parse3
open Spec (Bytes Pair canonPairs)

variable {O : Type} (K : Contract O Spec.V3.metrics) (hdr : Bytes)
  (VK : VecContract O Spec.V3.metrics K (Spec.V3.canonical hdr))

/-- **C08**: the serialisation of the parser's result is the Spec's canonical spelling of the Spec's reading -/
theorem vector_parse (s : Bytes) (c : O) (h : Model.parse3 (hdr ++ [47]) K.zero K.set s = .ok c) :
    ∀ w, Spec.V3.Witness hdr s w → VK.vector c = Spec.V3.canonical hdr w := by
  intro w hw
  obtain ⟨hs, hw'⟩ := (witness_iff _ _ _).mp hw
  subst hs
  have hp := parse3_witness K hdr w hw'
  rw [show hdr ++ [47] = hdr ++ [Spec.SLASH] from rfl, hp] at h
  cases h
  rw [VK.vector_eq _ (wf_setAll K w K.zero K.wf_zero)]
  apply canonical_congr
  intro m hm
  rw [valueOf_pairs K _ m hm, get_setAll_zero K w hw' m hm]

/-- the canonical spelling of a reading is grammatical, read as `canonPairs` -/
theorem canonical_grammatical (s : Bytes) (w : List Pair) (hw : Spec.V3.Witness hdr s w) :
    Spec.V3.Witness hdr (Spec.V3.canonical hdr w) (canonPairs Spec.V3.metrics w) :=
  canonical_witness hdr w (good_of_isWit w ((witness_iff _ _ _).mp hw).2)

theorem canonical_G (s : Bytes) (w : List Pair) (hw : Spec.V3.Witness hdr s w) :
    Spec.V3.G hdr (Spec.V3.canonical hdr w) := ⟨_, canonical_grammatical hdr s w hw⟩

/-- idempotence, Spec level: canonicalising the canonical reading changes nothing (for every pair list) -/
theorem canonical_idem (w : List Pair) :
    Spec.V3.canonical hdr (canonPairs Spec.V3.metrics w) = Spec.V3.canonical hdr w := by
  unfold Spec.V3.canonical
  rw [canonPairs_idem]

/-- idempotence, implementation level: parse-then-serialise twice = once -/
theorem parse_vector_idem (s : Bytes) (c : O) (h : Model.parse3 (hdr ++ [47]) K.zero K.set s = .ok c) :
    Model.parse3 (hdr ++ [47]) K.zero K.set (VK.vector c) = .ok c := by
  obtain ⟨w, _, rfl⟩ := parse3_sound K hdr s c h
  rw [VK.vector_eq _ (wf_setAll K w K.zero K.wf_zero)]
  exact parse3_canonical_pairs K hdr _ (wf_setAll K w K.zero K.wf_zero)

/-- a canonical string comes back unchanged -/
theorem canonical_fixed (s : Bytes) (c : O) (h : Model.parse3 (hdr ++ [47]) K.zero K.set s = .ok c)
    (w : List Pair) (hw : Spec.V3.Witness hdr s w) (hcan : s = Spec.V3.canonical hdr w) : VK.vector c = s := by
  rw [vector_parse K hdr VK s c h w hw, ← hcan]

/-- … and every canonical spelling of a grammatical vector *is* accepted and comes back unchanged -/
theorem canonical_roundtrip (s₀ : Bytes) (w : List Pair) (hw : Spec.V3.Witness hdr s₀ w) :
    ∃ c, Model.parse3 (hdr ++ [47]) K.zero K.set (Spec.V3.canonical hdr w) = .ok c ∧
      VK.vector c = Spec.V3.canonical hdr w := by
  have hcw := canonical_grammatical hdr s₀ w hw
  have hp := parse3_witness K hdr _ ((witness_iff _ _ _).mp hcw).2
  refine ⟨_, hp, ?_⟩
  have := vector_parse K hdr VK _ _ hp _ hcw
  rw [this, canonical_idem]

/-- example of a canonical form computed by the Spec: shuffled input with explicit `X` -/
example : Spec.V3.canonical Spec.V3.header31
      [(Spec.b "S", Spec.b "U"), (Spec.b "C", Spec.b "H"), (Spec.b "I", Spec.b "H"), (Spec.b "A", Spec.b "H"),
       (Spec.b "AV", Spec.b "N"), (Spec.b "AC", Spec.b "L"), (Spec.b "PR", Spec.b "N"), (Spec.b "UI", Spec.b "N"),
       (Spec.b "MAV", Spec.b "X"), (Spec.b "E", Spec.b "F")]
    = Spec.b "CVSS:3.1/AV:N/AC:L/PR:N/UI:N/S:U/C:H/I:H/A:H/E:F" := by decide

/-! ## Instances. **Final instantiation**: supply `contract30/31` and `vecContract30/31`; the equations are `rfl`. -/
section Instances
open Model (O30 O31)
variable (K30 : Contract O30 Spec.V3.metrics) (hz30 : K30.zero = O30.zero) (hs30 : K30.set = O30.set)
  (VK30 : VecContract O30 Spec.V3.metrics K30 (Spec.V3.canonical Spec.V3.header30)) (hv30 : VK30.vector = O30.vector)
variable (K31 : Contract O31 Spec.V3.metrics) (hz31 : K31.zero = O31.zero) (hs31 : K31.set = O31.set)
  (VK31 : VecContract O31 Spec.V3.metrics K31 (Spec.V3.canonical Spec.V3.header31)) (hv31 : VK31.vector = O31.vector)

include hz30 hs30 hv30 in
theorem vector_parse_30 (s : Bytes) (c : O30) (h : Model.parse30 s = .ok c) :
    ∀ w, Spec.V3.Witness Spec.V3.header30 s w → c.vector = Spec.V3.canonical Spec.V3.header30 w := by
  rw [parse30_eq_K K30 hz30 hs30] at h
  rw [← hv30]; exact vector_parse K30 _ VK30 s c h
include hz31 hs31 hv31 in
theorem vector_parse_31 (s : Bytes) (c : O31) (h : Model.parse31 s = .ok c) :
    ∀ w, Spec.V3.Witness Spec.V3.header31 s w → c.vector = Spec.V3.canonical Spec.V3.header31 w := by
  rw [parse31_eq_K K31 hz31 hs31] at h
  rw [← hv31]; exact vector_parse K31 _ VK31 s c h
include hz30 hs30 hv30 in
theorem parse_vector_idem_30 (s : Bytes) (c : O30) (h : Model.parse30 s = .ok c) : Model.parse30 c.vector = .ok c := by
  rw [parse30_eq_K K30 hz30 hs30] at h ⊢
  rw [← hv30]; exact parse_vector_idem K30 _ VK30 s c h
include hz31 hs31 hv31 in
theorem parse_vector_idem_31 (s : Bytes) (c : O31) (h : Model.parse31 s = .ok c) : Model.parse31 c.vector = .ok c := by
  rw [parse31_eq_K K31 hz31 hs31] at h ⊢
  rw [← hv31]; exact parse_vector_idem K31 _ VK31 s c h
end Instances

end C08.V3
