import Cvss.Proofs.Parse2Canon
/-!
# C02 (v2.0): `Vector()` then `ParseVector` returns the same object

For every well-formed object at once; `Vector()` through `VecContract`, `Get`/`Set` through `Contract`.
-/
namespace C02.V2
open Proofs Proofs.Parse2
open Model (Bytes Res)
open Spec.V2 (metrics canonical)

section
variable (K : Contract Model.O20 metrics) (VK : VecContract Model.O20 metrics K canonical)

theorem roundtrip {c : Model.O20} (h : K.WF c) : parseK K (VK.vector c) = .ok c := by
  rw [VK.vector_eq c h]; exact parse_canonical_pairs K h

/-- hence the serialisation of a well-formed object is grammatical -/
theorem vector_grammatical {c : Model.O20} (h : K.WF c) : Spec.V2.G (VK.vector c) := by
  obtain ⟨w, hw, _⟩ := parse_sound K (roundtrip K VK h)
  exact ⟨w, hw⟩

/-- and `Vector()` is injective on well-formed objects -/
theorem vector_injective {c c' : Model.O20} (h : K.WF c) (h' : K.WF c') (hv : VK.vector c = VK.vector c') : c = c' := by
  have h1 := roundtrip K VK h
  rw [hv, roundtrip K VK h'] at h1
  cases h1; rfl

/-- about `Model.parse20` itself, for a contract whose zero/`Set` are the generated ones -/
theorem model_roundtrip (hz : K.zero = Model.O20.zero) (hs : K.set = Model.O20.set)
    {c : Model.O20} (h : K.WF c) : Model.parse20 (VK.vector c) = .ok c := by
  rw [parse20_eq_parseK K hz hs]; exact roundtrip K VK h

end

/-- a concrete non-trivial object through the real generated `Vector` and `Set` -/
example : Model.parse20 (Model.O20.vector ⟨32, 0, 64, 0⟩) = .ok ⟨32, 0, 64, 0⟩ := by decide

end C02.V2
