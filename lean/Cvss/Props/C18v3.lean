import Cvss.Proofs.Parse3Defect
import Cvss.Proofs.Parse3Read
import Cvss.Proofs.Parse3Inst
/-!
# C18 (v3.0 / v3.1): the documented error values

For every witness list of a grammatical vector and every applicable single defect of `Spec.Defect`, the parser
model returns exactly the promised error value: header defect ⇒ `ErrInvalidCVSSHeader` (1); illegal value ⇒
`ErrInvalidMetricValue` (4); removed mandatory metric ⇒ `*ErrMissing{abv}` (103) naming it; repeated metric ⇒
`*ErrDefinedN{abv}` (102) naming it; unknown abbreviation ⇒ `*ErrInvalidMetric{abv}` (101) naming it.
All five cases hold for the model; nothing had to be weakened. The order defects `swap`/`move` and `truncate` are
not applicable to v3 (`Defect.apply` is `none`: the metric order is free in v3, see `move_is_no_defect` below for
an example of a moved element being accepted).
-/
namespace C18.V3
open Proofs Proofs.Parse3
open Spec (Bytes Pair Defect Version)

variable {O : Type} (K : Contract O Spec.V3.metrics)

theorem render_v30 (w : List Pair) : Version.render .v30 w = rend Spec.V3.header30 w := rfl
theorem render_v31 (w : List Pair) : Version.render .v31 w = rend Spec.V3.header31 w := rfl

/-- the five defect kinds, for an arbitrary header `hdr` with `ver.header = hdr`, `ver.render = rend hdr` -/
theorem defect_generic (ver : Version) (hver : ver = .v30 ∨ ver = .v31)
    (w : List Pair) (d : Defect) (s : Bytes) (e : Spec.ErrVal)
    (hw : ∃ s0, Spec.V3.Witness ver.header s0 w) (hd : d.apply ver w = some (s, e)) :
    Model.parse3 (ver.header ++ [47]) K.zero K.set s = .err ⟨e.1, e.2⟩ := by
  obtain ⟨s0, hw0⟩ := hw
  have hw : IsWit w := ((witness_iff _ _ _).mp hw0).2
  have hr : ∀ L, ver.render L = rend ver.header L := by
    intro L; rcases hver with rfl | rfl <;> rfl
  have hm : ver.metrics = Spec.V3.metrics := by rcases hver with rfl | rfl <;> rfl
  have h20 : ver ≠ .v20 := by rcases hver with rfl | rfl <;> simp
  cases d with
  | header p =>
    simp only [Defect.apply, h20, if_false] at hd
    split at hd
    · cases hd
    · rename_i hp
      cases hd
      have hh : 47 ∉ ver.header := by rcases hver with rfl | rfl <;> decide
      exact defect_header_headOf _ hh _ _ _ hp
  | illegalValue i v =>
    simp only [Defect.apply] at hd
    split at hd
    · cases hd
    · rename_i a x hi
      split at hd
      · cases hd
      · rename_i hc
        cases hd
        rw [Bool.or_eq_true, not_or, hm] at hc
        obtain ⟨l1, l2, rfl, rfl⟩ := split_at_getElem? hi
        rw [hr]
        have : (l1 ++ (a, x) :: l2).set l1.length (a, v) = l1 ++ (a, v) :: l2 := by simp
        rw [this]
        exact defect_illegal K _ l1 l2 a x v hw (by simpa using hc.1)
          (fun h => hc.2 (List.contains_iff_mem.mpr h))
  | removeMandatory i =>
    have key : ∀ a x, w[i]? = some (a, x) →
        (if (Spec.abvs Spec.V3.base).contains a = true then some (ver.render (w.eraseIdx i), ((103 : Nat), a))
          else none) = some (s, e) →
        Model.parse3 (ver.header ++ [47]) K.zero K.set s = .err ⟨e.1, e.2⟩ := by
      intro a x hi hd
      split at hd
      · rename_i ha
        cases hd
        obtain ⟨l1, l2, rfl, rfl⟩ := split_at_getElem? hi
        rw [hr]
        have : (l1 ++ (a, x) :: l2).eraseIdx l1.length = l1 ++ l2 := by
          rw [List.eraseIdx_append_of_length_le (Nat.le_refl _), Nat.sub_self]; rfl
        rw [this]
        exact defect_remove K _ l1 l2 a x hw (List.contains_iff_mem.mp ha)
      · cases hd
    rcases hver with rfl | rfl
    · unfold Defect.apply at hd
      cases hi : w[i]? with
      | none => simp only [hi] at hd; cases hd
      | some p => obtain ⟨a, x⟩ := p; simp only [hi] at hd; exact key a x hi hd
    · unfold Defect.apply at hd
      cases hi : w[i]? with
      | none => simp only [hi] at hd; cases hd
      | some p => obtain ⟨a, x⟩ := p; simp only [hi] at hd; exact key a x hi hd
  | repeated i j v =>
    simp only [Defect.apply] at hd
    split at hd
    · cases hd
    · rename_i a x hi
      split at hd
      · cases hd
      · rename_i hc
        rw [Bool.or_eq_true, not_or, hm] at hc
        have hs : s = rend ver.header (Spec.insertAt w j (a, v)) ∧ e = (102, a) := by
          rcases hver with rfl | rfl <;> (cases hd; exact ⟨rfl, rfl⟩)
        obtain ⟨rfl, rfl⟩ := hs
        have ha : a ∈ w.map (·.1) := List.mem_map.mpr ⟨(a, x), List.mem_of_getElem? hi, rfl⟩
        exact defect_repeated K _ w a v j hw ha (by simpa using hc.1)
  | unknown j a v =>
    simp only [Defect.apply] at hd
    split at hd
    · cases hd
    · rename_i hc
      simp only [Bool.or_eq_true, not_or, hm] at hc
      obtain ⟨⟨⟨h1, h2⟩, h3⟩, _⟩ := hc
      have hs : s = rend ver.header (Spec.insertAt w j (a, v)) ∧ e = (101, a) := by
        rcases hver with rfl | rfl <;> (cases hd; exact ⟨rfl, rfl⟩)
      obtain ⟨rfl, rfl⟩ := hs
      exact defect_unknown K _ w a v j hw (by simpa using h1) (by simpa using h2)
        (fun h => h3 (List.contains_iff_mem.mpr h))
  | swap i =>
    rcases hver with rfl | rfl <;> simp [Defect.apply] at hd
  | truncate n =>
    rcases hver with rfl | rfl <;> simp [Defect.apply] at hd
  | move i j =>
    rcases hver with rfl | rfl <;> simp [Defect.apply] at hd

/-- **C18, v3.0** -/
theorem errors_v30 (w : List Pair) (d : Defect) (s : Bytes) (e : Spec.ErrVal)
    (hw : ∃ s0, Spec.V3.Witness Spec.V3.header30 s0 w) (hd : d.apply .v30 w = some (s, e)) :
    Model.parse3 (Spec.V3.header30 ++ [47]) K.zero K.set s = .err ⟨e.1, e.2⟩ :=
  defect_generic K .v30 (Or.inl rfl) w d s e hw hd

/-- **C18, v3.1** -/
theorem errors_v31 (w : List Pair) (d : Defect) (s : Bytes) (e : Spec.ErrVal)
    (hw : ∃ s0, Spec.V3.Witness Spec.V3.header31 s0 w) (hd : d.apply .v31 w = some (s, e)) :
    Model.parse3 (Spec.V3.header31 ++ [47]) K.zero K.set s = .err ⟨e.1, e.2⟩ :=
  defect_generic K .v31 (Or.inr rfl) w d s e hw hd

/-! ## The five kinds, one by one (any header `hdr`; `rend hdr L` is `hdr/p₁/…/pₙ`) -/

variable (hdr : Bytes)

/-- anything not starting with the header ⇒ `ErrInvalidCVSSHeader` -/
theorem header_defect (s : Bytes) (h : hdr.isPrefixOf s = false) :
    Model.parse3 (hdr ++ [47]) K.zero K.set s = .err ⟨1, []⟩ := defect_header hdr _ _ s h

/-- an illegal (slash-free) value in one element ⇒ `ErrInvalidMetricValue` -/
theorem illegal_value (l1 l2 : List Pair) (a x v : Bytes) (hw : IsWit (l1 ++ (a, x) :: l2))
    (hv : Spec.legal Spec.V3.metrics a v = false) (hs : 47 ∉ v) :
    Model.parse3 (hdr ++ [47]) K.zero K.set (rend hdr (l1 ++ (a, v) :: l2)) = .err ⟨4, []⟩ :=
  defect_illegal K hdr l1 l2 a x v hw hv hs

/-- one base metric removed ⇒ `*ErrMissing` naming it -/
theorem removed_mandatory (l1 l2 : List Pair) (a x : Bytes) (hw : IsWit (l1 ++ (a, x) :: l2))
    (ha : a ∈ Spec.abvs Spec.V3.base) :
    Model.parse3 (hdr ++ [47]) K.zero K.set (rend hdr (l1 ++ l2)) = .err ⟨103, a⟩ :=
  defect_remove K hdr l1 l2 a x hw ha

/-- several base metrics absent from an otherwise fine vector ⇒ `*ErrMissing` naming the **first** one in
    specification order -/
theorem missing_reports_first (L : List Pair) (hl : Spec.allLegal Spec.V3.metrics L)
    (hn : (L.map (·.1)).Nodup) (hne : L ≠ []) (a : Bytes)
    (h : (Spec.abvs Spec.V3.base).find? (fun a => !(L.map (·.1)).contains a) = some a) :
    Model.parse3 (hdr ++ [47]) K.zero K.set (rend hdr L) = .err ⟨103, a⟩ := by
  have e := parse3_rend hdr K.zero K.set L hne (fun p hp => render_no_slash (hl p hp))
  have := loop3_prefix K L hl hn [] K.zero [] (by simp)
  rw [List.append_nil] at this
  rw [show hdr ++ [47] = hdr ++ [Spec.SLASH] from rfl, e, this, loop3_nil]
  have hf : Model.firstMissing ((L.map (·.1)).reverse ++ []) = some a := by
    unfold Model.firstMissing
    rw [kvmMandatory_eq, ← h]
    congr 1
    funext b
    simp
  rw [hf]; rfl

/-- a second element for a metric already present, anywhere ⇒ `*ErrDefinedN` naming it -/
theorem repeated_metric (w : List Pair) (a v : Bytes) (j : Nat) (hw : IsWit w) (ha : a ∈ w.map (·.1))
    (hv : Spec.legal Spec.V3.metrics a v = true) :
    Model.parse3 (hdr ++ [47]) K.zero K.set (rend hdr (Spec.insertAt w j (a, v))) = .err ⟨102, a⟩ :=
  defect_repeated K hdr w a v j hw ha hv

/-- an element with an unknown (clean) abbreviation, anywhere ⇒ `*ErrInvalidMetric` naming it -/
theorem unknown_metric (w : List Pair) (a v : Bytes) (j : Nat) (hw : IsWit w)
    (ha : Spec.isMetric Spec.V3.metrics a = false) (hc : Spec.clean a = true) (hv : 47 ∉ v) :
    Model.parse3 (hdr ++ [47]) K.zero K.set (rend hdr (Spec.insertAt w j (a, v))) = .err ⟨101, a⟩ :=
  defect_unknown K hdr w a v j hw ha hc hv

/-! ## The hypotheses are satisfiable: each defect kind applies to a concrete vector -/

/-- `AV:N/AC:L/PR:N/UI:N/S:U/C:H/I:H/A:H/E:F` -/
def w₀ : List Pair :=
  [(Spec.b "AV", Spec.b "N"), (Spec.b "AC", Spec.b "L"), (Spec.b "PR", Spec.b "N"), (Spec.b "UI", Spec.b "N"),
   (Spec.b "S", Spec.b "U"), (Spec.b "C", Spec.b "H"), (Spec.b "I", Spec.b "H"), (Spec.b "A", Spec.b "H"),
   (Spec.b "E", Spec.b "F")]

example : ∃ s0, Spec.V3.Witness Spec.V3.header31 s0 w₀ :=
  ⟨Spec.b "CVSS:3.1/AV:N/AC:L/PR:N/UI:N/S:U/C:H/I:H/A:H/E:F", (read?_eq_some_iff _ _ _).mp (by decide)⟩
example : (Defect.header (Spec.b "CVSS:3.0")).apply .v31 w₀ =
    some (Spec.b "CVSS:3.0/AV:N/AC:L/PR:N/UI:N/S:U/C:H/I:H/A:H/E:F", (1, [])) := by decide
example : (Defect.header []).apply .v31 w₀ =
    some (Spec.b "/AV:N/AC:L/PR:N/UI:N/S:U/C:H/I:H/A:H/E:F", (1, [])) := by decide
example : (Defect.illegalValue 2 (Spec.b "n")).apply .v31 w₀ =
    some (Spec.b "CVSS:3.1/AV:N/AC:L/PR:n/UI:N/S:U/C:H/I:H/A:H/E:F", (4, [])) := by decide
example : (Defect.illegalValue 8 []).apply .v31 w₀ =
    some (Spec.b "CVSS:3.1/AV:N/AC:L/PR:N/UI:N/S:U/C:H/I:H/A:H/E:", (4, [])) := by decide
example : (Defect.removeMandatory 4).apply .v31 w₀ =
    some (Spec.b "CVSS:3.1/AV:N/AC:L/PR:N/UI:N/C:H/I:H/A:H/E:F", (103, Spec.b "S")) := by decide
example : (Defect.repeated 8 0 (Spec.b "X")).apply .v31 w₀ =
    some (Spec.b "CVSS:3.1/E:X/AV:N/AC:L/PR:N/UI:N/S:U/C:H/I:H/A:H/E:F", (102, Spec.b "E")) := by decide
example : (Defect.unknown 9 (Spec.b "av") (Spec.b "N")).apply .v31 w₀ =
    some (Spec.b "CVSS:3.1/AV:N/AC:L/PR:N/UI:N/S:U/C:H/I:H/A:H/E:F/av:N", (101, Spec.b "av")) := by decide
example : (Defect.unknown 0 [] []).apply .v30 w₀ =
    some (Spec.b "CVSS:3.0/:/AV:N/AC:L/PR:N/UI:N/S:U/C:H/I:H/A:H/E:F", (101, [])) := by decide

/-- `move`/`swap` promise nothing in v3: the order is free, the moved vector is accepted -/
example : (Defect.move 8 0).apply .v31 w₀ = none ∧ (Defect.swap 0).apply .v30 w₀ = none := by decide
theorem move_is_no_defect :
    (Model.parse31 (Spec.b "CVSS:3.1/E:F/AV:N/AC:L/PR:N/UI:N/S:U/C:H/I:H/A:H")).isOk = true := by decide

/-! ## Instances. **Final instantiation**: supply `contract30` / `contract31`; `hz`, `hs` are then `rfl`. -/
section Instances
open Model (O30 O31)
variable (K30 : Contract O30 Spec.V3.metrics) (hz30 : K30.zero = O30.zero) (hs30 : K30.set = O30.set)
variable (K31 : Contract O31 Spec.V3.metrics) (hz31 : K31.zero = O31.zero) (hs31 : K31.set = O31.set)

include hz30 hs30 in
theorem errors_parse30 (w : List Pair) (d : Defect) (s : Bytes) (e : Spec.ErrVal)
    (hw : ∃ s0, Spec.V3.Witness Spec.V3.header30 s0 w) (hd : d.apply .v30 w = some (s, e)) :
    Model.parse30 s = .err ⟨e.1, e.2⟩ := by
  rw [parse30_eq_K K30 hz30 hs30]; exact errors_v30 K30 w d s e hw hd
include hz31 hs31 in
theorem errors_parse31 (w : List Pair) (d : Defect) (s : Bytes) (e : Spec.ErrVal)
    (hw : ∃ s0, Spec.V3.Witness Spec.V3.header31 s0 w) (hd : d.apply .v31 w = some (s, e)) :
    Model.parse31 s = .err ⟨e.1, e.2⟩ := by
  rw [parse31_eq_K K31 hz31 hs31]; exact errors_v31 K31 w d s e hw hd
end Instances

end C18.V3
