import Cvss.Proofs.Parse4Defect
/-!
# C18 (v4.0 part): documented error values

For every grammatical vector (witness list `w`), every defect kind of `Spec.Defect` and every position:
the parser returns exactly the error value the Spec promises — `ErrInvalidCVSSHeader` (1) for a damaged or
missing header (the part before the first `/` is not `CVSS:4.0`; this includes `CVSS:4.0` followed by junk, finding F4), `ErrInvalidMetricValue` (4) for an illegal value, `ErrInvalidMetricOrder` (3) for a misplaced
metric (swapped neighbours `swap i`, and in general `move i j`: any one element taken out and put back at any
other position) / a repeated metric / an unknown abbreviation, `ErrTooShortVector` (2) for a truncation inside
the base group. All defect kinds hold for the model at full strength (no `_partial`), including the corner
cases: swap of two optional metrics, a base metric moved to the very end, the last optional metric moved to the
front, a repeat inserted directly before the original, an unknown element with an empty abbreviation, insertion
at the very end, truncation to zero elements.
-/
namespace C18.V4
open Spec (Pair b Defect)
open Model (Bytes O40 Res)
open Proofs.P4

variable (K : Proofs.Contract O40 Spec.V4.metrics)

/-- **C18 (v4.0).** -/
theorem errors (w : List Pair) (d : Defect) (s : Bytes) (e : Spec.ErrVal)
    (hw : ∃ s0, Spec.V4.Witness s0 w) (h : d.apply .v40 w = some (s, e)) :
    parseK K s = .err ⟨e.1, e.2⟩ := by
  obtain ⟨s0, hs0⟩ := hw
  exact defect_v4 K (witness_iff.mp hs0).2 d s e h

/-! ## per defect kind, with the sentinel spelled out -/

theorem header_defect {w : List Pair} (_hw : ∃ s0, Spec.V4.Witness s0 w) (p : Bytes) {s : Bytes} {e : Spec.ErrVal}
    (h : (Defect.header p).apply .v40 w = some (s, e)) : parseK K s = .err Model.eHeader ∧ e = (1, []) := by
  have := errors K w _ s e _hw h
  simp only [Defect.apply, reduceCtorEq, if_false] at h
  split at h
  · simp at h
  · simp only [Option.some.injEq, Prod.mk.injEq] at h
    obtain ⟨_, rfl⟩ := h
    exact ⟨this, rfl⟩

theorem illegal_value {w : List Pair} (hw : ∃ s0, Spec.V4.Witness s0 w) {i : Nat} {a x v : Bytes}
    (hi : w[i]? = some (a, x)) (hl : Spec.legal Spec.V4.metrics a v = false) (hs : Spec.SLASH ∉ v) :
    parseK K (Spec.V4.header ++ body (w.set i (a, v))) = .err Model.eValue := by
  obtain ⟨s0, hs0⟩ := hw
  exact err_illegal K (witness_iff.mp hs0).2 hi hl hs

theorem repeated_metric {w : List Pair} (hw : ∃ s0, Spec.V4.Witness s0 w) {i : Nat} (j : Nat) {a x v : Bytes}
    (hi : w[i]? = some (a, x)) (hl : Spec.legal Spec.V4.metrics a v = true) :
    parseK K (Spec.V4.header ++ body (Spec.insertAt w j (a, v))) = .err Model.eOrder := by
  obtain ⟨s0, hs0⟩ := hw
  exact err_repeated K (witness_iff.mp hs0).2 hi hl

theorem unknown_metric {w : List Pair} (hw : ∃ s0, Spec.V4.Witness s0 w) (j : Nat) {a v : Bytes}
    (ha : Spec.isMetric Spec.V4.metrics a = false) (hc : Spec.clean a = true) (hs : Spec.SLASH ∉ v) :
    parseK K (Spec.V4.header ++ body (Spec.insertAt w j (a, v))) = .err Model.eOrder := by
  obtain ⟨s0, hs0⟩ := hw
  exact err_unknown K (witness_iff.mp hs0).2 ha hc hs

theorem swapped_neighbours {w : List Pair} (hw : ∃ s0, Spec.V4.Witness s0 w) {i : Nat} {p q : Pair}
    (hp : w[i]? = some p) (hq : w[i + 1]? = some q) :
    parseK K (Spec.V4.header ++ body ((w.set i q).set (i + 1) p)) = .err Model.eOrder := by
  obtain ⟨s0, hs0⟩ := hw
  exact err_swap K (witness_iff.mp hs0).2 hp hq

/-- misplaced: element `i` taken out and put back so that it is element `j ≠ i` of the result -/
theorem moved_metric {w : List Pair} (hw : ∃ s0, Spec.V4.Witness s0 w) {i j : Nat} {p : Pair}
    (hp : w[i]? = some p) (hji : j ≠ i) (hj : j < w.length) :
    parseK K (Spec.V4.header ++ body (Spec.insertAt (w.eraseIdx i) j p)) = .err Model.eOrder := by
  obtain ⟨s0, hs0⟩ := hw
  exact err_move K (witness_iff.mp hs0).2 hp hji hj

theorem truncated {w : List Pair} (hw : ∃ s0, Spec.V4.Witness s0 w) {n : Nat} (hn : n < 11) :
    parseK K (Spec.V4.header ++ body (w.take n)) = .err Model.eTooShort := by
  obtain ⟨s0, hs0⟩ := hw
  exact err_truncate K (witness_iff.mp hs0).2 hn

/-- the error sentinels are the documented codes -/
theorem codes : Model.eHeader = ⟨1, []⟩ ∧ Model.eTooShort = ⟨2, []⟩ ∧ Model.eOrder = ⟨3, []⟩ ∧ Model.eValue = ⟨4, []⟩ :=
  ⟨rfl, rfl, rfl, rfl⟩

/-! ## the hypotheses are satisfiable; the corner cases on the generated code itself -/

/-- a witness with threat, environmental and supplemental metrics -/
def w0 : List Pair :=
  [(b "AV", b "N"), (b "AC", b "L"), (b "AT", b "N"), (b "PR", b "N"), (b "UI", b "N"), (b "VC", b "H"),
   (b "VI", b "H"), (b "VA", b "H"), (b "SC", b "N"), (b "SI", b "N"), (b "SA", b "N"),
   (b "E", b "A"), (b "CR", b "H"), (b "U", b "Red")]

theorem w0_witness : ∃ s0, Spec.V4.Witness s0 w0 :=
  ⟨b "CVSS:4.0/AV:N/AC:L/AT:N/PR:N/UI:N/VC:H/VI:H/VA:H/SC:N/SI:N/SA:N/E:A/CR:H/U:Red", (read_iff _ _).mp (by decide)⟩

/-- every defect kind is applicable to `w0` -/
example : ((Defect.header (b "CVSS:3.1")).apply .v40 w0).isSome = true := by decide
/-- the header defect includes the right header followed by junk (the part before the first `/` is then not the
    header); putting the right header back is no defect -/
example : ((Defect.header (b "CVSS:4.01")).apply .v40 w0).isSome = true ∧ ((Defect.header (b "CVSS:4.0X")).apply .v40 w0).isSome = true ∧
    ((Defect.header (b "CVSS:4.0")).apply .v40 w0) = none := by decide
example : Model.parse40 (b "CVSS:4.01/AV:N/AC:L/AT:N/PR:N/UI:N/VC:H/VI:H/VA:H/SC:N/SI:N/SA:N/E:A/CR:H/U:Red") =
    .err Model.eHeader := by decide
example : ((Defect.illegalValue 3 (b "X")).apply .v40 w0).isSome = true := by decide
example : ((Defect.repeated 11 11 (b "P")).apply .v40 w0).isSome = true := by decide
example : ((Defect.unknown 14 [] (b "H")).apply .v40 w0).isSome = true := by decide
example : ((Defect.swap 11).apply .v40 w0).isSome = true := by decide
example : ((Defect.truncate 0).apply .v40 w0).isSome = true := by decide
example : ((Defect.move 0 13).apply .v40 w0).isSome = true := by decide
/-- `move` is applicable exactly for `i < length`, `j < length`, `j ≠ i` (here: all 14·13 pairs) -/
example : ∀ i < 16, ∀ j < 16, ((Defect.move i j).apply .v40 w0).isSome = (decide (i < 14) && decide (j < 14) && decide (j ≠ i)) := by
  decide
/-- `move i (i+1)` and `move (i+1) i` are `swap i` -/
example : (Defect.move 11 12).apply .v40 w0 = (Defect.swap 11).apply .v40 w0 ∧
    (Defect.move 12 11).apply .v40 w0 = (Defect.swap 11).apply .v40 w0 := by decide

/-- swap of two optional metrics (`E`,`CR`), evaluated on the model with the generated `Set` -/
example : (Defect.swap 11).apply .v40 w0 =
    some (b "CVSS:4.0/AV:N/AC:L/AT:N/PR:N/UI:N/VC:H/VI:H/VA:H/SC:N/SI:N/SA:N/CR:H/E:A/U:Red", (3, [])) := by decide
example : Model.parse40 (b "CVSS:4.0/AV:N/AC:L/AT:N/PR:N/UI:N/VC:H/VI:H/VA:H/SC:N/SI:N/SA:N/CR:H/E:A/U:Red") =
    .err Model.eOrder := by decide
/-- a base metric moved to the very end; the last optional metric moved to the front; an optional metric moved
    two places back — the defective strings and the model's answers -/
example : (Defect.move 0 13).apply .v40 w0 =
    some (b "CVSS:4.0/AC:L/AT:N/PR:N/UI:N/VC:H/VI:H/VA:H/SC:N/SI:N/SA:N/E:A/CR:H/U:Red/AV:N", (3, [])) := by decide
example : Model.parse40 (b "CVSS:4.0/AC:L/AT:N/PR:N/UI:N/VC:H/VI:H/VA:H/SC:N/SI:N/SA:N/E:A/CR:H/U:Red/AV:N") =
    .err Model.eOrder := by decide
example : (Defect.move 13 0).apply .v40 w0 =
    some (b "CVSS:4.0/U:Red/AV:N/AC:L/AT:N/PR:N/UI:N/VC:H/VI:H/VA:H/SC:N/SI:N/SA:N/E:A/CR:H", (3, [])) := by decide
example : Model.parse40 (b "CVSS:4.0/U:Red/AV:N/AC:L/AT:N/PR:N/UI:N/VC:H/VI:H/VA:H/SC:N/SI:N/SA:N/E:A/CR:H") =
    .err Model.eOrder := by decide
example : (Defect.move 11 13).apply .v40 w0 =
    some (b "CVSS:4.0/AV:N/AC:L/AT:N/PR:N/UI:N/VC:H/VI:H/VA:H/SC:N/SI:N/SA:N/CR:H/U:Red/E:A", (3, [])) := by decide
example : Model.parse40 (b "CVSS:4.0/AV:N/AC:L/AT:N/PR:N/UI:N/VC:H/VI:H/VA:H/SC:N/SI:N/SA:N/CR:H/U:Red/E:A") =
    .err Model.eOrder := by decide
/-- a repeat inserted directly before the original -/
example : Model.parse40 (b "CVSS:4.0/AV:N/AC:L/AT:N/PR:N/UI:N/VC:H/VI:H/VA:H/SC:N/SI:N/SA:N/E:P/E:A/CR:H/U:Red") =
    .err Model.eOrder := by decide
example : Model.parse40 (b "CVSS:4.0/AV:N/AC:L/AT:N/PR:N/UI:N/VC:H/VI:H/VA:H/SC:N/SI:N/SA:H/SA:N") =
    .err Model.eOrder := by decide
/-- an unknown element with an empty abbreviation, in the middle and at the end -/
example : Model.parse40 (b "CVSS:4.0/AV:N/AC:L/:H/AT:N/PR:N/UI:N/VC:H/VI:H/VA:H/SC:N/SI:N/SA:N") =
    .err Model.eOrder := by decide
example : Model.parse40 (b "CVSS:4.0/AV:N/AC:L/AT:N/PR:N/UI:N/VC:H/VI:H/VA:H/SC:N/SI:N/SA:N/E:A/CR:H/U:Red/:H") =
    .err Model.eOrder := by decide
/-- truncation to nothing / inside the base group -/
example : Model.parse40 (b "CVSS:4.0") = .err Model.eTooShort := by decide
example : Model.parse40 (b "CVSS:4.0/AV:N/AC:L") = .err Model.eTooShort := by decide

/-! ## for `Model.parse40` itself, given the contract instance of the generated code -/

theorem errors_model (hz : K.zero = O40.zero) (hs : K.set = O40.set) (w : List Pair) (d : Defect) (s : Bytes)
    (e : Spec.ErrVal) (hw : ∃ s0, Spec.V4.Witness s0 w) (h : d.apply .v40 w = some (s, e)) :
    Model.parse40 s = .err ⟨e.1, e.2⟩ := by
  rw [parse40_eq_parseK K hz hs]; exact errors K w d s e hw h

end C18.V4
