import Cvss.Proofs.Parse2Err
import Cvss.Proofs.Parse2Read
/-!
# Finding F3 (C18, v2.0): the full error contract is false

Any element after a complete environmental group yields `ErrInvalidMetricValue` (4), not the documented
`ErrInvalidMetricOrder` (3): the `default:` arm of `switch slci` (a 12th element after base+environmental)
and the 14th split part keeping the remainder (a 15th element after a full vector). Proved by evaluating
`Model.parse20` (with the real generated `Set`) on concrete witnesses, and for an arbitrary contract.
-/
namespace Findings.C18.V2
open Proofs Proofs.Parse2
open Model (Bytes Res)
open Spec (Defect Pair)
open Spec.V2 (metrics Witness)

/-- `AV:L/AC:H/Au:M/C:N/I:N/A:N/CDP:ND/TD:ND/CR:ND/IR:ND/AR:ND` -/
def w : List Pair := [(Spec.b "AV", Spec.b "L"), (Spec.b "AC", Spec.b "H"), (Spec.b "Au", Spec.b "M"),
  (Spec.b "C", Spec.b "N"), (Spec.b "I", Spec.b "N"), (Spec.b "A", Spec.b "N"),
  (Spec.b "CDP", Spec.b "ND"), (Spec.b "TD", Spec.b "ND"), (Spec.b "CR", Spec.b "ND"),
  (Spec.b "IR", Spec.b "ND"), (Spec.b "AR", Spec.b "ND")]

theorem w_witness : Witness (Spec.b "AV:L/AC:H/Au:M/C:N/I:N/A:N/CDP:ND/TD:ND/CR:ND/IR:ND/AR:ND") w :=
  (Proofs.Parse2.read_iff _ _).mp (by decide)

/-- repeated `AV:N` at the end: documented 3 … -/
theorem promised :
    (Defect.repeated 0 11 (Spec.b "N")).apply .v20 w =
      some (Spec.b "AV:L/AC:H/Au:M/C:N/I:N/A:N/CDP:ND/TD:ND/CR:ND/IR:ND/AR:ND/AV:N", (3, [])) := by decide

/-- … returned 4 (the `default:` arm) -/
theorem returned :
    Model.parse20 (Spec.b "AV:L/AC:H/Au:M/C:N/I:N/A:N/CDP:ND/TD:ND/CR:ND/IR:ND/AR:ND/AV:N") = .err ⟨4, []⟩ := by
  decide

/-- the same after a full 14-element vector (the remainder-keeping 14th part) -/
theorem returned_full :
    Model.parse20 (Spec.b "AV:L/AC:H/Au:M/C:N/I:N/A:N/E:F/RL:OF/RC:C/CDP:ND/TD:ND/CR:ND/IR:ND/AR:ND/AV:N")
      = .err ⟨4, []⟩ := by decide

/-- the full C18 statement for v2.0, negated -/
theorem v2_misplaced_after_env :
    ¬ ∀ (w : List Pair) (d : Defect) (s : Bytes) (e : Spec.ErrVal), (∃ s0, Witness s0 w) →
        d.apply .v20 w = some (s, e) → Model.parse20 s = .err ⟨e.1, e.2⟩ := by
  intro h
  have := h w _ _ _ ⟨_, w_witness⟩ promised
  rw [returned] at this
  exact absurd this (by decide)

/-- and for the parser of an arbitrary contract (so the finding does not depend on the bit-field code) -/
theorem v2_misplaced_after_env_contract (K : Contract Model.O20 metrics) :
    ¬ ∀ (w : List Pair) (d : Defect) (s : Bytes) (e : Spec.ErrVal), (∃ s0, Witness s0 w) →
        d.apply .v20 w = some (s, e) → parseK K s = .err ⟨e.1, e.2⟩ := by
  intro h
  have h3 := h w _ _ _ ⟨_, w_witness⟩ promised
  have h4 := (err_afterEnv K ⟨_, w_witness⟩ _ _ _ promised (by decide)).1
  rw [h4] at h3
  exact absurd h3 (by decide)

end Findings.C18.V2
