import Cvss.Spec.V3
/-!
# C03 helpers, specification side (no code involved)

* code-indexed weight tables `cAV …` (code = index of the value in the order the Go tables use), and the Spec
  equations applied to them (`specBase`, `specInner`, `specT`): this is what the kernel enumerations evaluate;
* `EnvironmentalScore = TemporalScore ∘ BaseScore` on the Modified sub-scores;
* `Roundup` is the least tenth above its argument.
-/
namespace Proofs.Score3
open Spec Spec.V3

/-! ## Weights by code -/
def cAV (c : Nat) : Dec := cond (Nat.beq c 0) 0.85 (cond (Nat.beq c 1) 0.62 (cond (Nat.beq c 2) 0.55 0.2))
def cAC (c : Nat) : Dec := cond (Nat.beq c 0) 0.77 0.44
def cPR (c : Nat) (changed : Bool) : Dec :=
  cond (Nat.beq c 0) 0.85 (cond (Nat.beq c 1) (cond changed 0.68 0.62) (cond changed 0.5 0.27))
def cUI (c : Nat) : Dec := cond (Nat.beq c 0) 0.85 0.62
def cCIA (c : Nat) : Dec := cond (Nat.beq c 0) 0.56 (cond (Nat.beq c 1) 0.22 0)
def cE (c : Nat) : Dec := cond (Nat.ble c 1) 1 (cond (Nat.beq c 2) 0.97 (cond (Nat.beq c 3) 0.94 0.91))
def cRL (c : Nat) : Dec := cond (Nat.ble c 1) 1 (cond (Nat.beq c 2) 0.97 (cond (Nat.beq c 3) 0.96 0.95))
def cRC (c : Nat) : Dec := cond (Nat.ble c 1) 1 (cond (Nat.beq c 2) 0.96 0.92)
def cReq (c : Nat) : Dec := cond (Nat.beq c 1) 1.5 (cond (Nat.beq c 3) 0.5 1)

/-- requirement codes: `X` (0) weighs like `M` (2) -/
def nR (r : Nat) : Nat := cond (Nat.beq r 0) 2 r
theorem cReq_nR (r : Nat) : cReq r = cReq (nR r) := by
  unfold nR; cases h : Nat.beq r 0
  · rfl
  · have := Nat.eq_of_beq_eq_true h; subst this; rfl

/-! ## The equations on codes -/
def specImpact (s c i a : Nat) : Dec := Impact (Nat.beq s 1) (ISS (cCIA c) (cCIA i) (cCIA a))
def specExpl (av ac pr ui s : Nat) : Dec := Exploitability (cAV av) (cAC ac) (cPR pr (Nat.beq s 1)) (cUI ui)
def specBase (av ac pr ui s c i a : Nat) : Int :=
  BaseScore (Nat.beq s 1) (specImpact s c i a) (specExpl av ac pr ui s)
def specMImpact (v31 : Bool) (ms mc mi ma cr ir ar : Nat) : Dec :=
  ModifiedImpact v31 (Nat.beq ms 1) (MISS (cReq cr) (cCIA mc) (cReq ir) (cCIA mi) (cReq ar) (cCIA ma))
/-- the "modified base score" inside the Environmental equation, on effective codes -/
def specInner (v31 : Bool) (mav mac mpr mui ms mc mi ma cr ir ar : Nat) : Int :=
  BaseScore (Nat.beq ms 1) (specMImpact v31 ms mc mi ma cr ir ar) (specExpl mav mac mpr mui ms)
def specT (k : Int) (e rl rc : Nat) : Int := TemporalScore k (cE e) (cRL rl) (cRC rc)

/-- the argument of the (inner) `Roundup` of the Base / Environmental equations -/
def baseArg (changed : Bool) (impact expl : Dec) : Dec :=
  if changed then Dec.min (1.08 * (impact + expl)) 10 else Dec.min (impact + expl) 10
theorem BaseScore_eq (ch : Bool) (imp ex : Dec) :
    BaseScore ch imp ex = if imp ≤ 0 then 0 else Roundup (baseArg ch imp ex) := by
  unfold BaseScore baseArg; cases ch <;> rfl

/-! ## Environmental = Temporal ∘ (modified) Base -/
theorem TemporalScore_zero (e rl rc : Dec) : TemporalScore 0 e rl rc = 0 := by
  show -((-((0 * e.num * rl.num * rc.num) * 10)) / _) = 0
  simp

theorem EnvironmentalScore_eq (ch : Bool) (mi me e rl rc : Dec) :
    EnvironmentalScore ch mi me e rl rc = TemporalScore (BaseScore ch mi me) e rl rc := by
  unfold EnvironmentalScore BaseScore
  by_cases h : mi ≤ 0
  · rw [if_pos h, if_pos h, TemporalScore_zero]
  · rw [if_neg h, if_neg h]; cases ch <;> rfl

end Proofs.Score3
