import Cvss.Proofs.Score4TailDef
/-! GENERATED chunk 0 of the v4.0 float-tail obligation: for each MacroVector below and every severity
distance tuple within its depths, `roundup(eqsv − mean)` (the generated tail) is `F64.tenth` of the Spec's
exact half-up value. Kernel evaluation (`decide +kernel`), 2927 tuples. -/
namespace Proofs.Score4
set_option maxHeartbeats 2000000 in
theorem tail_000100 : tailOkMV 0 0 0 1 0 0 = true := by decide +kernel
set_option maxHeartbeats 2000000 in
theorem tail_001100 : tailOkMV 0 0 1 1 0 0 = true := by decide +kernel
set_option maxHeartbeats 2000000 in
theorem tail_002101 : tailOkMV 0 0 2 1 0 1 = true := by decide +kernel
set_option maxHeartbeats 2000000 in
theorem tail_010100 : tailOkMV 0 1 0 1 0 0 = true := by decide +kernel
set_option maxHeartbeats 2000000 in
theorem tail_011011 : tailOkMV 0 1 1 0 1 1 = true := by decide +kernel
set_option maxHeartbeats 2000000 in
theorem tail_100101 : tailOkMV 1 0 0 1 0 1 = true := by decide +kernel
set_option maxHeartbeats 2000000 in
theorem tail_102101 : tailOkMV 1 0 2 1 0 1 = true := by decide +kernel
set_option maxHeartbeats 2000000 in
theorem tail_102201 : tailOkMV 1 0 2 2 0 1 = true := by decide +kernel
set_option maxHeartbeats 2000000 in
theorem tail_110100 : tailOkMV 1 1 0 1 0 0 = true := by decide +kernel
set_option maxHeartbeats 2000000 in
theorem tail_110101 : tailOkMV 1 1 0 1 0 1 = true := by decide +kernel
set_option maxHeartbeats 2000000 in
theorem tail_110201 : tailOkMV 1 1 0 2 0 1 = true := by decide +kernel
set_option maxHeartbeats 2000000 in
theorem tail_111011 : tailOkMV 1 1 1 0 1 1 = true := by decide +kernel
set_option maxHeartbeats 2000000 in
theorem tail_112201 : tailOkMV 1 1 2 2 0 1 = true := by decide +kernel
set_option maxHeartbeats 2000000 in
theorem tail_200200 : tailOkMV 2 0 0 2 0 0 = true := by decide +kernel
set_option maxHeartbeats 2000000 in
theorem tail_212001 : tailOkMV 2 1 2 0 0 1 = true := by decide +kernel
end Proofs.Score4
