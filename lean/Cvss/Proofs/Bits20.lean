import Cvss.Proofs.BitsCommon
/-!
# CVSS v2.0: the generated bit-field `Get`/`Set` satisfy the contract (C07, C09)

`codes` and `upd` transcribe the field extraction of `GenV20.Get` and the byte updates of `GenV20.Set`;
`get_core`/`set_known` tie them to the generated definitions (by unfolding those), so any change of a mask,
shift, literal or value list in the Go source breaks a proof below.  The bit facts are proved for ALL
`Nat`-valued fields (in particular all byte states), one byte at a time by kernel enumeration.
-/
set_option maxRecDepth 100000
namespace Bits20
open Bits Model
open Spec (Metric legal isMetric)

abbrev ms : List Metric := Spec.V2.metrics

theorem tableOK : TableOK ms where
  nodup := by decide
  vne := by decide

/-- field codes in Spec table order, as `GenV20.Get` extracts them -/
def codes : O20 → List Nat
  | ⟨u0, u1, u2, u3⟩ =>
    [ Nat.shiftRight (Nat.land u0 192) 6,
      Nat.shiftRight (Nat.land u0 48) 4,
      Nat.shiftRight (Nat.land u0 12) 2,
      Nat.land u0 3,
      Nat.shiftRight (Nat.land u1 192) 6,
      Nat.shiftRight (Nat.land u1 48) 4,
      Nat.shiftRight (Nat.land u1 14) 1,
      Nat.lor (Nat.mod (Nat.shiftLeft (Nat.land u1 1) 2) 256) (Nat.shiftRight (Nat.land u2 192) 6),
      Nat.shiftRight (Nat.land u2 48) 4,
      Nat.shiftRight (Nat.land u2 14) 1,
      Nat.lor (Nat.mod (Nat.shiftLeft (Nat.land u2 1) 2) 256) (Nat.shiftRight (Nat.land u3 192) 6),
      Nat.shiftRight (Nat.land u3 48) 4,
      Nat.shiftRight (Nat.land u3 12) 2,
      Nat.land u3 3 ]

/-- the byte update of arm `j` of `GenV20.Set` for value index `k` -/
def upd : Nat → O20 → Nat → O20
  | 0, ⟨u0, u1, u2, u3⟩, k => ⟨Nat.lor (Nat.land u0 63) (Nat.mod (Nat.shiftLeft k 6) 256), u1, u2, u3⟩  -- AV
  | 1, ⟨u0, u1, u2, u3⟩, k => ⟨Nat.lor (Nat.land u0 207) (Nat.mod (Nat.shiftLeft k 4) 256), u1, u2, u3⟩  -- AC
  | 2, ⟨u0, u1, u2, u3⟩, k => ⟨Nat.lor (Nat.land u0 243) (Nat.mod (Nat.shiftLeft k 2) 256), u1, u2, u3⟩  -- Au
  | 3, ⟨u0, u1, u2, u3⟩, k => ⟨Nat.lor (Nat.land u0 252) k, u1, u2, u3⟩  -- C
  | 4, ⟨u0, u1, u2, u3⟩, k => ⟨u0, Nat.lor (Nat.land u1 63) (Nat.mod (Nat.shiftLeft k 6) 256), u2, u3⟩  -- I
  | 5, ⟨u0, u1, u2, u3⟩, k => ⟨u0, Nat.lor (Nat.land u1 207) (Nat.mod (Nat.shiftLeft k 4) 256), u2, u3⟩  -- A
  | 6, ⟨u0, u1, u2, u3⟩, k => ⟨u0, Nat.lor (Nat.land u1 241) (Nat.mod (Nat.shiftLeft k 1) 256), u2, u3⟩  -- E
  | 7, ⟨u0, u1, u2, u3⟩, k => ⟨u0, Nat.lor (Nat.land u1 254) (Nat.shiftRight (Nat.land k 4) 2), Nat.lor (Nat.land u2 63) (Nat.mod (Nat.shiftLeft (Nat.land k 3) 6) 256), u3⟩  -- RL
  | 8, ⟨u0, u1, u2, u3⟩, k => ⟨u0, u1, Nat.lor (Nat.land u2 207) (Nat.mod (Nat.shiftLeft k 4) 256), u3⟩  -- RC
  | 9, ⟨u0, u1, u2, u3⟩, k => ⟨u0, u1, Nat.lor (Nat.land u2 241) (Nat.mod (Nat.shiftLeft k 1) 256), u3⟩  -- CDP
  | 10, ⟨u0, u1, u2, u3⟩, k => ⟨u0, u1, Nat.lor (Nat.land u2 254) (Nat.shiftRight (Nat.land k 4) 2), Nat.lor (Nat.land u3 63) (Nat.mod (Nat.shiftLeft (Nat.land k 3) 6) 256)⟩  -- TD
  | 11, ⟨u0, u1, u2, u3⟩, k => ⟨u0, u1, u2, Nat.lor (Nat.land u3 207) (Nat.mod (Nat.shiftLeft k 4) 256)⟩  -- CR
  | 12, ⟨u0, u1, u2, u3⟩, k => ⟨u0, u1, u2, Nat.lor (Nat.land u3 243) (Nat.mod (Nat.shiftLeft k 2) 256)⟩  -- IR
  | 13, ⟨u0, u1, u2, u3⟩, k => ⟨u0, u1, u2, Nat.lor (Nat.land u3 252) k⟩  -- AR
  | _, c, _ => c

/-! ## ties to the generated code -/

/-- `GenV20.Get_core` as a function of the code list -/
def core (rs : List Nat) (abv : Bytes) : Bytes × Go.Err :=
  GenV20.Get_core (rs.getD 0 0) (rs.getD 1 0) (rs.getD 2 0) (rs.getD 3 0) (rs.getD 4 0) (rs.getD 5 0) (rs.getD 6 0)
    (rs.getD 7 0) (rs.getD 8 0) (rs.getD 9 0) (rs.getD 10 0) (rs.getD 11 0) (rs.getD 12 0) (rs.getD 13 0) abv

/-- the generated `Get` is `Get_core` on `codes` (by unfolding `GenV20.Get`) -/
theorem get_core (c : O20) (abv : Bytes) : c.get abv = core (codes c) abv := by
  obtain ⟨u0, u1, u2, u3⟩ := c; rfl

theorem codes_len (c : O20) : (codes c).length = ms.length := by
  obtain ⟨u0, u1, u2, u3⟩ := c; rfl

/-- the value strings of metric `j` in the code's numbering, read off the generated `Get_core`
    (decode codes 0, 1, … until the empty string) -/
def vals (j : Nat) : List Bytes :=
  ((List.range 8).map fun x => (core (List.replicate 14 x) (mAt ms j).abv).1).takeWhile (fun v => !v.isEmpty)

theorem vals_nodup : ∀ j, j < 14 → (vals j).Nodup := by decide
theorem vals_len : ∀ j, j < 14 → (vals j).length ≤ 256 := by decide
/-- the code's value strings are exactly the Spec's (the code numbers v2 `AC` as L,M,H; the guide lists H,M,L) -/
theorem vals_spec : ∀ j, j < 14 → ∀ v, v ∈ vals j ↔ v ∈ (mAt ms j).values := by
  have h : ∀ j, j < 14 → sameMembers (vals j) (mAt ms j).values = true := by decide
  exact fun j hj => sameMembers_iff (h j hj)

/-- arm `j` of the generated `Get_core` decodes code `x` as the `x`-th value string of metric `j` (`""` beyond) -/
theorem core_known : ∀ j, j < 14 → ∀ rs : List Nat,
    core rs (mAt ms j).abv = ((vals j).getD (rs.getD j 0) [], Go.errNil) := by
  split_lt <;> (
    intro rs
    simp only [core, GenV20.Get_core, flet_eq, reduceStrEq, cond_true, cond_false]
    generalize rs.getD _ 0 = x
    match x with
    | 0 | 1 | 2 | 3 | 4 | 5 | 6 | 7 => rfl
    | n+8 => rfl)

theorem get_known (j : Nat) (hj : j < ms.length) (c : O20) :
    c.get (mAt ms j).abv = ((vals j).getD ((codes c).getD j 0) [], Go.errNil) := by
  rw [get_core]; exact core_known j hj _

/-- an abbreviation outside the Spec table reaches the `default:` arm of `Get` -/
theorem get_default (c : O20) (a : Bytes) (h : a ∉ ms.map (·.abv)) : c.get a = ([], eInvalidMetric a) := by
  obtain ⟨u0, u1, u2, u3⟩ := c
  simp (disch := exact ne_of_not_mem h (by decide)) only
    [O20.get, GenV20.Get, GenV20.Get_core, cond_strEq_ne]
  rfl

/-- … and of `Set`, which leaves the object alone -/
theorem set_default (c : O20) (a v : Bytes) (h : a ∉ ms.map (·.abv)) : c.set a v = (c, eInvalidMetric a) := by
  obtain ⟨u0, u1, u2, u3⟩ := c
  simp (disch := exact ne_of_not_mem h (by decide)) only
    [O20.set, GenV20.Set, cond_strEq_ne]
  rfl

/-- arm `j` of the generated `Set`: `validate` against the same value list that `Get` decodes with, then `upd j` -/
theorem set_known : ∀ j, j < 14 → ∀ (c : O20) (v : Bytes), c.set (mAt ms j).abv v =
    (match validate v (vals j) with
     | (k, err) => cond (!(Go.Err.beq err Go.errNil)) (c, err) (upd j c k, Go.errNil)) := by
  split_lt <;> (
    rintro ⟨u0, u1, u2, u3⟩ v
    generalize hp : validate v (vals _) = p
    simp only [O20.set, GenV20.Set, flet_eq, reduceStrEq, cond_true, cond_false]
    generalize hq : GenV20.validate v _ = q
    obtain rfl : q = p := hq.symm.trans hp
    obtain ⟨k, err⟩ := q
    cases Go.Err.beq err Go.errNil <;> rfl)

/-! ## bit facts (all `Nat` fields; one byte at a time) -/

set_option hygiene false in
macro "byte_tac" : tactic => `(tactic| first
  | rfl | assumption
  | byte_enum u0 | byte_enum u1 | byte_enum u2 | byte_enum u3
  | split_enum u1 u2 4 3 | split_enum u2 u3 4 3
  | (refine Bits.congr2 Nat.lor ?_ ?_ <;> first | rfl | byte_enum u0 | byte_enum u1 | byte_enum u2 | byte_enum u3))

/-- `upd j c k` sets code `j` to `k` and leaves every other code alone -/
theorem upd_codes : ∀ j, j < 14 → ∀ (c : O20) (k : Nat), k < (vals j).length →
    codes (upd j c k) = (codes c).set j k := by
  split_lt <;> (
    rintro ⟨u0, u1, u2, u3⟩ k hk
    simp only [upd, codes]
    list_eq <;> byte_tac)

theorem upd_isB : ∀ j, j < 14 → ∀ (c : O20) (k : Nat), k < (vals j).length →
    c.IsBytes → (upd j c k).IsBytes := by
  split_lt <;> (
    rintro ⟨u0, u1, u2, u3⟩ k hk ⟨h0, h1, h2, h3⟩
    simp only [upd, O20.IsBytes]
    refine ⟨?_, ?_, ?_, ?_⟩ <;> byte_tac)

/-- the bytes are determined by the codes -/
def recon (rs : List Nat) : O20 :=
  ⟨rs.getD 0 0 * 64 + rs.getD 1 0 * 16 + rs.getD 2 0 * 4 + rs.getD 3 0,
   rs.getD 4 0 * 64 + rs.getD 5 0 * 16 + rs.getD 6 0 * 2 + rs.getD 7 0 / 4,
   rs.getD 7 0 % 4 * 64 + rs.getD 8 0 * 16 + rs.getD 9 0 * 2 + rs.getD 10 0 / 4,
   rs.getD 10 0 % 4 * 64 + rs.getD 11 0 * 16 + rs.getD 12 0 * 4 + rs.getD 13 0⟩

theorem recon_codes (c : O20) (h : c.IsBytes) : recon (codes c) = c := by
  obtain ⟨u0, u1, u2, u3⟩ := c
  obtain ⟨h0, h1, h2, h3⟩ := h
  have lo : ∀ u, u < 256 → Nat.shiftRight (Nat.land u 192) 6 < 4 := by decide +kernel
  have hi : ∀ u, u < 256 → Nat.mod (Nat.shiftLeft (Nat.land u 1) 2) 256 = 0 ∨
      Nat.mod (Nat.shiftLeft (Nat.land u 1) 2) 256 = 4 := by decide +kernel
  have e0 : ∀ u, u < 256 → Nat.shiftRight (Nat.land u 192) 6 * 64 + Nat.shiftRight (Nat.land u 48) 4 * 16 +
      Nat.shiftRight (Nat.land u 12) 2 * 4 + Nat.land u 3 = u := by decide +kernel
  have e1 : ∀ u, u < 256 → ∀ x, x < 4 → Nat.shiftRight (Nat.land u 192) 6 * 64 + Nat.shiftRight (Nat.land u 48) 4 * 16 +
      Nat.shiftRight (Nat.land u 14) 1 * 2 + Nat.lor (Nat.mod (Nat.shiftLeft (Nat.land u 1) 2) 256) x / 4 = u := by
    decide +kernel
  have e2 : ∀ u, u < 256 → ∀ y, y < 5 → (y = 0 ∨ y = 4) → ∀ x, x < 4 →
      Nat.lor y (Nat.shiftRight (Nat.land u 192) 6) % 4 * 64 + Nat.shiftRight (Nat.land u 48) 4 * 16 +
      Nat.shiftRight (Nat.land u 14) 1 * 2 + Nat.lor (Nat.mod (Nat.shiftLeft (Nat.land u 1) 2) 256) x / 4 = u := by
    decide +kernel
  have e3 : ∀ u, u < 256 → ∀ y, y < 5 → (y = 0 ∨ y = 4) →
      Nat.lor y (Nat.shiftRight (Nat.land u 192) 6) % 4 * 64 + Nat.shiftRight (Nat.land u 48) 4 * 16 +
      Nat.shiftRight (Nat.land u 12) 2 * 4 + Nat.land u 3 = u := by
    decide +kernel
  have lt5 : ∀ {y}, (y = 0 ∨ y = 4) → y < 5 := by rintro y (rfl | rfl) <;> decide
  show O20.mk _ _ _ _ = _
  congr 1
  · exact e0 u0 h0
  · exact e1 u1 h1 _ (lo u2 h2)
  · exact e2 u2 h2 _ (lt5 (hi u1 h1)) (hi u1 h1) _ (lo u3 h3)
  · exact e3 u3 h3 _ (lt5 (hi u2 h2)) (hi u2 h2)

theorem codes_inj (c c' : O20) (h : c.IsBytes) (h' : c'.IsBytes) (_ : True) (_ : True)
    (e : codes c = codes c') : c = c' := by
  rw [← recon_codes c h, ← recon_codes c' h', e]

theorem wfB_iff (c : O20) : c.wf = true ↔ c.IsBytes ∧ True ∧ legalGets ms c.get = true := by
  obtain ⟨u0, u1, u2, u3⟩ := c
  simp [O20.wf, O20.bytes, O20.IsBytes, and_assoc]

/-- everything the generic development needs about the generated v2.0 code -/
def layout : Layout O20 ms where
  zero := O20.zero
  get := O20.get
  set := O20.set
  wfB := O20.wf
  IsB := O20.IsBytes
  Spare := fun _ => True
  codes := codes
  upd := upd
  vals := vals
  vals_nodup := vals_nodup
  vals_len := vals_len
  vals_spec := vals_spec
  codes_len := codes_len
  get_known := get_known
  get_default := get_default
  set_known := set_known
  set_default := set_default
  upd_codes := upd_codes
  upd_isB := upd_isB
  upd_spare := fun _ _ _ _ _ _ => trivial
  codes_inj := codes_inj
  wfB_iff := wfB_iff
  wf_zero := by decide
  zero_opt := by decide

/-- **the v2.0 Get/Set contract**, with `WF c := c.wf = true` -/
def contract20 : Proofs.Contract O20 Spec.V2.metrics := layout.contract tableOK

/-! ## the named facts (for ALL states, in particular all byte states `c.IsBytes`; no well-formedness needed) -/

/-- a legal `Set` succeeds and `Get` then returns the value that was set -/
theorem set_same (c : O20) (a v : Bytes) (h : legal ms a v = true) :
    (c.set a v).2 = Go.errNil ∧ (c.set a v).1.get a = (v, Go.errNil) :=
  ⟨contract20.set_ok c a v h, contract20.get_set_same c a v h⟩

/-- … and every other metric reads as before -/
theorem set_other (c : O20) (a v a' : Bytes) (h : legal ms a v = true) (hm : isMetric ms a' = true)
    (hne : a' ≠ a) : (c.set a v).1.get a' = c.get a' := contract20.get_set_other c a v a' h hm hne

theorem set_unknown (c : O20) (a v : Bytes) (h : isMetric ms a = false) : c.set a v = (c, eInvalidMetric a) :=
  contract20.set_unknown c a v h

theorem get_unknown (c : O20) (a : Bytes) (h : isMetric ms a = false) : c.get a = ([], eInvalidMetric a) :=
  contract20.get_unknown c a h

theorem set_illegal (c : O20) (a v : Bytes) (hm : isMetric ms a = true) (h : legal ms a v = false) :
    c.set a v = (c, eValue) := contract20.set_illegal c a v hm h

/-- the three outcomes of `Set` -/
theorem set_cases (c : O20) (a v : Bytes) :
    (legal ms a v = true ∧ (c.set a v).2 = Go.errNil) ∨
    (isMetric ms a = false ∧ c.set a v = (c, eInvalidMetric a)) ∨
    (isMetric ms a = true ∧ legal ms a v = false ∧ c.set a v = (c, eValue)) := Bits.set_cases contract20 c a v

/-- `Set` keeps bytes bytes -/
theorem isBytes_set (c : O20) (a v : Bytes) (h : c.IsBytes) : (c.set a v).1.IsBytes :=
  layout.isB_set tableOK c a v h

/-- a `Get` of a Spec metric never fails (on any state); on an out-of-range field code it returns `""` -/
theorem get_known_err (c : O20) (a : Bytes) (h : isMetric ms a = true) : (c.get a).2 = Go.errNil := by
  obtain ⟨j, hj, rfl⟩ := isMetric_at h
  rw [get_known j hj]

/-- `Get` recognises exactly the Spec abbreviations (on any state) -/
theorem get_ok_iff (c : O20) (a : Bytes) : (c.get a).2 = Go.errNil ↔ isMetric ms a = true := by
  constructor
  · intro h
    cases hm : isMetric ms a with
    | true => rfl
    | false => rw [get_unknown c a hm] at h; exact absurd h (eInvalidMetric_ne_nil a)
  · exact get_known_err c a

theorem wf_zero : O20.zero.wf = true := contract20.wf_zero
theorem wf_set (c : O20) (a v : Bytes) (h : c.wf = true) : (c.set a v).1.wf = true := contract20.wf_set c a v h

/-- on a well-formed object every `Get` of a Spec metric returns one of its legal (non-empty) values, nil error -/
theorem wf_get (c : O20) (h : c.wf = true) :
    ∀ m ∈ ms, (c.get m.abv).2 = Go.errNil ∧ (c.get m.abv).1 ∈ m.values ∧ (c.get m.abv).1 ≠ [] := by
  intro m hm
  have := contract20.wf_get c h m hm
  exact ⟨this.1, this.2, fun e => tableOK.vne m hm (e ▸ this.2)⟩

/-- two well-formed objects holding the same metric values are the same object (Go `==` on the struct) -/
theorem ext (c c' : O20) (h : c.wf = true) (h' : c'.wf = true)
    (he : ∀ m ∈ ms, c.get m.abv = c'.get m.abv) : c = c' := contract20.ext c c' h h' he

theorem reachable_iff_reach (c : O20) : O20.Reachable c ↔ Reach contract20 c := by
  constructor
  · intro h
    induction h with
    | zero => exact Reach.zero
    | set c a v _ ih => exact Reach.set c a v ih
  · intro h
    induction h with
    | zero => exact O20.Reachable.zero
    | set c a v _ ih => exact O20.Reachable.set c a v ih

/-- **reachable = well-formed**: `→` by induction over the history of `Set` calls; `←` by `Set`ting every
    metric of the Spec table, in order, on the zero value (`Bits.rebuild`) -/
theorem reachable_iff_wf (c : O20) : O20.Reachable c ↔ c.wf = true :=
  (reachable_iff_reach c).trans (reach_iff_wf contract20 tableOK c)

/-- the explicit `Set` sequence that reaches a well-formed `c` -/
theorem rebuild_eq (c : O20) (h : c.wf = true) : rebuild contract20 c ms O20.zero = c :=
  Bits.rebuild_eq contract20 tableOK c h

end Bits20
