import Cvss.Proofs.GenParse20
import Cvss.Proofs.Pool
/-!
# The ownership machine's thread-local steps ARE the regenerated loop bodies (C14, tie by proof)

`Cvss/Model/Pool.lean` cuts a v2.0 `ParseVector` call into `tick`s (one iteration of `split`'s scan, or one
iteration of `for _, pt := range pts`, on the thread's own buffer). Until now the only link between that
hand-written decomposition and the Go source was a source hash. Here the link is a proof against the
**regenerated** functions of `Cvss/Gen/P20.lean`:

* `split_unfold`, `pv_unfold` — the generated `GenP20.split` / `GenP20.ParseVector` are literally
  `Go.forN … GenP20.split_for1` followed by the tail `splitK`, resp. `GenP20.split` followed by `Go.sliceTo`,
  `Go.forRange … GenP20.ParseVector_range1` and the tail `rangeK`. (`cnd`, `post`, `splitK`, `rangeK`, `pvK` below are
  hand-copied pieces of the generated text; these two theorems check them against that text — the first by `rfl`.)
* `tick_split_body`, `tick_split_exit`, `tick_loop_body`, `tick_loop_exit` — what one `tick` does, expressed
  through the value of the generated body on the thread's loop state.
* `Rem`, `rem_start`, `rem_tick` — the (stuttering) simulation: "the generated computation that remains to be done
  from the thread's state evaluates to `GenP20.ParseVector B inp`", `B` = buffer content at `Get`.
* `run_reaches_ret`, `run_ret_only` — a thread ticking alone ends in `ret` with exactly that value.
* `frame_thr`, `frame_heap` — an action of another thread changes neither a thread's phase nor its buffer.
* `Tracks`, `tracks_*`, `GInv`, `ginv_run` — the same inside the interleaved machine.

Correspondence of steps (the machine is *not* coarser than a Go loop iteration anywhere):

| machine `tick` in phase …                    | generated code                                                              |
|----------------------------------------------|-----------------------------------------------------------------------------|
| `split … (c :: cs)`                          | one `Go.forN` round: `cnd` true, `split_for1` (`next` + `post`, or `brk`)   |
| `split … []`, reached by end of input        | the failing `cnd` test, then tail `dst[curr] = vector[start:]`, `return curr`, `pts[:ei+1]`, loop-variable init |
| `split … 13 … []`, reached by `break`        | (the `forN` has already returned `.done` at the `brk`) the same tail         |
| `loop … k …`, `k < ei+1`                     | one `Go.forRange` round: read `pts[k]`, `ParseVector_range1`                 |
| `loop … k …`, `k = ei+1`                     | `Go.forRange [] = .next`, tail `if i != 0 …; return`                        |
| `ret …`                                      | stutter (the deferred `Put` is the separate action `put`)                   |
-/
namespace PoolSim
open Model Model.Pool GenParse GenParse20

abbrev T4 := Nat × Nat × Nat × Nat
abbrev S6 := Nat × Nat × Nat × Nat × Nat × Nat

/-! ## the generated functions as loops over the generated bodies -/

/-- loop condition of `split`'s `for ; i < l; i++` -/
def cnd (v : Bytes) : StS → Bool := fun (_, _, _, i) => Nat.blt i v.length
/-- its post statement `i++` -/
def post : StS → StS := fun (dst, start, curr, i) => (dst, start, curr, i + 1)
/-- what `split` does with the value of its loop: `dst[curr] = vector[start:]; return curr` -/
def splitK (v : Bytes) : Go.Loop StS RS → RS
  | .ret r => r
  | .fuel => none
  | .done (dst, start, curr, _) =>
    Go.sliceFrom v start none fun t2 => Go.setIndex dst curr t2 none fun dst => some (dst, curr)

/-- **the generated `split` is `Go.forN` over the generated body `split_for1`, then `splitK`** (by `rfl`:
    a change of the loop header or of the tail in the Go source breaks this) -/
theorem split_unfold (dst : Buf) (v : Bytes) :
    GenP20.split dst v = splitK v (Go.forN (v.length + 2) (dst, 0, 0, 0) (cnd v) post (GenP20.split_for1 v)) := rfl

/-- what `ParseVector` does with the value of its range loop: `return` inside the loop, or `if i != 0 { … }` -/
def rangeK : Go.Ctl S6 (Go.Res T4) → Go.Res T4
  | .ret r => r
  | .brk _ => .panic
  | .next (_, u0, u1, u2, u3, i) => cond (!(Nat.beq i 0)) (.err ⟨2, []⟩) (.ok (u0, u1, u2, u3))

/-- what `ParseVector` does with the result of `split`: `pts = pts[:ei+1]`, the range loop, `rangeK` -/
def pvK : RS → Go.Res T4
  | none => .panic
  | some (pts, ei) => Go.sliceTo pts (ei + 1) .panic fun pts =>
      rangeK (Go.forRange pts (0, 0, 0, 0, 0, 0) GenP20.ParseVector_range1)

/-- **the generated `ParseVector` is the generated `split`, then `Go.forRange` over the generated body
    `ParseVector_range1`, then `rangeK`** -/
theorem pv_unfold (buf : Buf) (s : Bytes) : GenP20.ParseVector buf s = pvK (GenP20.split buf s) := by
  unfold GenP20.ParseVector
  simp only []
  cases GenP20.split buf s with
  | none => rfl
  | some r =>
    obtain ⟨pts, ei⟩ := r
    simp only [pvK]
    unfold Go.sliceTo
    cases Nat.ble (ei + 1) pts.length with
    | false => rfl
    | true =>
      simp only [Nat.add_eq]
      cases Go.forRange (List.take (ei + 1) pts) ((0:Nat), (0:Nat), (0:Nat), (0:Nat), (0:Nat), (0:Nat))
          GenP20.ParseVector_range1 with
      | ret r => rfl
      | brk s => rfl
      | next s => rfl

/-! ## (1) a `split`-phase tick is one application of `GenP20.split_for1` -/

/-- the state of the generated scan that a thread in phase `split a inp curr seg rest` with
    `inp = pre ++ seg ++ rest` is in: `dst` = its buffer, `start = |pre|`, `i = |pre| + |seg|` -/
def gst (buf : Buf) (pre seg : Bytes) (curr : Nat) : StS := (buf, pre.length, curr, pre.length + seg.length)

/-- **One scan tick = one round of the generated `for`**: the loop condition holds, and the generated body, run on
    the thread's state, produces exactly the tick:
    * byte ≠ `/`: `next` with the state unchanged, `i++`;
    * `/`, `curr+1 ≠ 13`: the write `dst[curr] = vector[start:i]`, `start = i+1`, `curr++`, `next`, `i++`;
    * `/`, `curr+1 = 13`: the same write, then `brk`; the machine goes to `split a inp 13 vector[start:] []`. -/
theorem tick_split_body (a : Addr) (inp pre seg : Bytes) (c : Nat) (cs : Bytes) (curr : Nat) (buf : Buf)
    (hv : inp = pre ++ seg ++ c :: cs) (hl : buf.length = 14) (hc : curr ≤ 12) :
    cnd inp (gst buf pre seg curr) = true ∧
    ((c ≠ 47 ∧
        GenP20.split_for1 inp (gst buf pre seg curr) = .next (gst buf pre seg curr) ∧
        post (gst buf pre seg curr) = gst buf pre (seg ++ [c]) curr ∧
        tick (.split a inp curr seg (c :: cs)) buf = (.split a inp curr (seg ++ [c]) cs, buf)) ∨
     (c = 47 ∧ curr + 1 ≠ 13 ∧
        GenP20.split_for1 inp (gst buf pre seg curr)
          = .next (buf.set curr seg, pre.length + seg.length + 1, curr + 1, pre.length + seg.length) ∧
        post (buf.set curr seg, pre.length + seg.length + 1, curr + 1, pre.length + seg.length)
          = gst (buf.set curr seg) (pre ++ seg ++ [47]) [] (curr + 1) ∧
        tick (.split a inp curr seg (c :: cs)) buf = (.split a inp (curr + 1) [] cs, buf.set curr seg)) ∨
     (c = 47 ∧ curr + 1 = 13 ∧
        GenP20.split_for1 inp (gst buf pre seg curr)
          = .brk (buf.set curr seg, pre.length + seg.length + 1, 13, pre.length + seg.length) ∧
        inp.drop (pre.length + seg.length + 1) = cs ∧
        tick (.split a inp curr seg (c :: cs)) buf = (.split a inp 13 cs [], buf.set curr seg))) := by
  have hlt : pre.length + seg.length < inp.length := by simp [hv]
  have hix : inp[pre.length + seg.length]? = some c := by rw [hv]; exact getElem?_at pre seg c cs
  have hsl : ∀ (p : Go.Ctl StS RS) (k : Bytes → Go.Ctl StS RS),
      Go.slice inp pre.length (pre.length + seg.length) p k = k seg := by
    intro p k
    rw [slice_ok inp (by omega) (by omega), hv, take_drop_seg]
  have hcl : curr < buf.length := by omega
  refine ⟨blt_true hlt, ?_⟩
  by_cases hs : c = 47
  · subst hs
    by_cases h13 : curr + 1 = 13
    · refine .inr (.inr ⟨rfl, h13, ?_, ?_, ?_⟩)
      · simp only [GenP20.split_for1, gst]
        rw [index_some hix]
        simp only [Nat.beq_refl, cond_true]
        rw [hsl, setIndex_ok _ _ (by omega)]
        simp [h13]
      · have hv' : inp = (pre ++ seg ++ [47]) ++ cs := by simp [hv]
        have hl' : pre.length + seg.length + 1 = (pre ++ seg ++ [47]).length := by
          simp only [List.length_append, List.length_singleton]
        rw [hl', hv']; exact drop_seg _ _
      · simp [tick, SLASH, hcl, h13]
    · refine .inr (.inl ⟨rfl, h13, ?_, ?_, ?_⟩)
      · simp only [GenP20.split_for1, gst]
        rw [index_some hix]
        simp only [Nat.beq_refl, cond_true]
        rw [hsl, setIndex_ok _ _ (by omega)]
        simp [beq_false h13]
      · simp [post, gst, Nat.add_assoc]
      · simp [tick, SLASH, hcl, h13]
  · refine .inl ⟨hs, ?_, ?_, ?_⟩
    · simp only [GenP20.split_for1, gst]
      rw [index_some hix]
      simp [beq_false hs]
    · simp [post, gst, Nat.add_assoc]
    · simp [tick, SLASH, hs]

/-- **The last `split` tick = the failing loop test (if the scan was not left by `break`) and the code after the
    loop**: `dst[curr] = vector[start:]`, `return curr`; `seg` is `vector[start:]`. `splitK` ignores `i`, so this
    covers both the state after a `brk` (`i` not incremented) and the state after the last `i++`. -/
theorem tick_split_exit (a : Addr) (inp pre seg : Bytes) (curr : Nat) (buf : Buf) (i : Nat)
    (hv : inp = pre ++ seg) (hl : buf.length = 14) (hc : curr ≤ 13) :
    cnd inp (gst buf pre seg curr) = false ∧
    splitK inp (.done (buf, pre.length, curr, i)) = some (buf.set curr seg, curr) ∧
    tick (.split a inp curr seg []) buf = (.loop a inp curr 0 0 0 O20.zero, buf.set curr seg) := by
  refine ⟨blt_false (by simp [hv]), ?_, ?_⟩
  · simp only [splitK]
    rw [sliceFrom_ok _ (by simp [hv]), setIndex_ok _ _ (by omega)]
    simp [hv]
  · have hcl : curr < buf.length := by omega
    simp [tick, hcl]

/-! ## (2) a `loop`-phase tick is one application of `GenP20.ParseVector_range1` -/

/-- the state `(slci, u0, u1, u2, u3, i)` of the generated range loop for the machine's `(slci, i, object)` -/
def enc (slci i : Nat) (c : O20) : S6 := (slci, c.u0, c.u1, c.u2, c.u3, i)

/-- **One range tick = one application of the generated body to `pts[k]`**: the tick is determined by the value
    of `GenP20.ParseVector_range1` (`next` ⇒ next slot with the new loop variables, `return x` ⇒ phase `ret x`;
    the body never `break`s). Through `GenParse20.range_step` this is also `Model.step2`. -/
theorem tick_loop_body (a : Addr) (inp : Bytes) (ei k slci i : Nat) (c : O20) (buf : Buf) (pt : Bytes)
    (hk : k < ei + 1) (hpt : buf[k]? = some pt) :
    match GenP20.ParseVector_range1 pt (enc slci i c) with
    | .next (slci', u0, u1, u2, u3, i') =>
        tick (.loop a inp ei k slci i c) buf = (.loop a inp ei (k + 1) slci' i' ⟨u0, u1, u2, u3⟩, buf)
    | .ret r => tick (.loop a inp ei k slci i c) buf = (.ret a inp (ofGo dec20 r), buf)
    | .brk _ => False := by
  simp only [enc]
  rw [range_step]
  cases hst : step2 GenV20.tbl_order slci i c pt with
  | ok v =>
    obtain ⟨s', i', c'⟩ := v
    simp [next2, tick, hk, hpt, hst]
  | err e => simp [next2, tick, hk, hpt, hst, ofGo]
  | panic => simp [next2, tick, hk, hpt, hst, ofGo]

/-- **The last range tick = `Go.forRange [] st = .next st` and the code after the loop** (`if i != 0 { return
    nil, ErrTooShortVector }; return obj, nil`) -/
theorem tick_loop_exit (a : Addr) (inp : Bytes) (ei k slci i : Nat) (c : O20) (buf : Buf) (hk : ¬ k < ei + 1) :
    tick (.loop a inp ei k slci i c) buf
      = (.ret a inp (ofGo dec20 (rangeK (Go.forRange [] (enc slci i c) GenP20.ParseVector_range1))), buf) := by
  obtain ⟨u0, u1, u2, u3⟩ := c
  by_cases hi : i = 0
  · subst hi; simp [tick, hk, Go.forRange, rangeK, enc, ofGo, dec20]
  · simp [tick, hk, Go.forRange, rangeK, enc, ofGo, hi, beq_false hi, eTooShort]

/-! ## (3) the simulation -/

/-- `Rem a inp B ph buf`: a thread in phase `ph` whose buffer (address `a`) now holds `buf` is at a point of the
    generated `ParseVector B inp` — `B` being what `Get` handed out — in the sense that the generated code that
    remains to be executed from here (rest of the `forN`, then `splitK`, then `pvK`; or rest of the `forRange`,
    then `rangeK`) evaluates to the results of `GenP20.split B inp` / `GenP20.ParseVector B inp`.
    Side facts: 14 slots, indices in range. -/
def Rem (a : Addr) (inp : Bytes) (B : Buf) : Phase → Buf → Prop
  | .split a' inp' curr seg rest, buf =>
    a' = a ∧ inp' = inp ∧ buf.length = 14 ∧ (curr ≤ 12 ∨ (curr = 13 ∧ rest = [])) ∧
    ∃ pre, inp = pre ++ seg ++ rest ∧
      splitK inp (Go.forN (rest.length + 2) (gst buf pre seg curr) (cnd inp) post (GenP20.split_for1 inp))
        = GenP20.split B inp
  | .loop a' inp' ei k slci i c, buf =>
    a' = a ∧ inp' = inp ∧ buf.length = 14 ∧ ei ≤ 13 ∧ k ≤ ei + 1 ∧
    GenP20.split B inp = some (buf, ei) ∧
    rangeK (Go.forRange ((buf.take (ei + 1)).drop k) (enc slci i c) GenP20.ParseVector_range1)
      = GenP20.ParseVector B inp
  | .ret a' inp' r, buf =>
    a' = a ∧ inp' = inp ∧ buf.length = 14 ∧ (∃ ei, GenP20.split B inp = some (buf, ei)) ∧
    r = ofGo dec20 (GenP20.ParseVector B inp)
  | .idle, _ => False
  | .crashed, _ => False

theorem rem_owner {a : Addr} {inp : Bytes} {B : Buf} {ph : Phase} {buf : Buf} (h : Rem a inp B ph buf) :
    ph.owner = some a := by
  cases ph <;> simp only [Rem] at h <;> first | exact h.elim | (simp only [Phase.owner]; rw [h.1])

theorem rem_len {a : Addr} {inp : Bytes} {B : Buf} {ph : Phase} {buf : Buf} (h : Rem a inp B ph buf) :
    buf.length = 14 := by
  cases ph <;> simp only [Rem] at h <;> first | exact h.elim | exact h.2.2.1

/-- the state right after `Get` (both `getPool` and `getNew` put the thread there) is the start of the generated
    `ParseVector` on the buffer obtained -/
theorem rem_start (a : Addr) (inp : Bytes) (buf : Buf) (hl : buf.length = 14) :
    Rem a inp buf (.split a inp 0 [] inp) buf :=
  ⟨rfl, rfl, hl, .inl (by omega), [], by simp, (split_unfold buf inp).symm⟩

/-- remaining ticks (an upper bound): the scan needs one tick per remaining byte and one for the tail; the range
    loop one per remaining slot and one for the tail; `ei ≤ 13` -/
def fuelOf : Phase → Nat
  | .split _ _ _ _ rest => rest.length + 17
  | .loop _ _ ei k _ _ _ => ei + 2 - k
  | _ => 0

/-- **Simulation step.** A tick moves the thread to a later point of the *same* generated computation (and
    never to `crashed`), and strictly decreases the number of remaining ticks unless the body has returned. -/
theorem rem_tick {a : Addr} {inp : Bytes} {B : Buf} {ph : Phase} {buf : Buf} (h : Rem a inp B ph buf) :
    Rem a inp B (tick ph buf).1 (tick ph buf).2 ∧ fuelOf (tick ph buf).1 ≤ fuelOf ph - 1 := by
  cases ph with
  | idle => exact h.elim
  | crashed => exact h.elim
  | ret a' inp' r =>
    have : tick (.ret a' inp' r) buf = (.ret a' inp' r, buf) := rfl
    rw [this]; exact ⟨h, Nat.zero_le _⟩
  | split a' inp' curr seg rest =>
    obtain ⟨rfl, rfl, hl, hc, pre, hv, hg⟩ := h
    cases rest with
    | nil =>
      have hc' : curr ≤ 13 := by rcases hc with h | ⟨h, _⟩ <;> omega
      have hv' : inp' = pre ++ seg := by simpa using hv
      obtain ⟨h1, h2, h3⟩ := tick_split_exit a' inp' pre seg curr buf (pre.length + seg.length) hv' hl hc'
      have hf : ([] : Bytes).length + 2 = 1 + 1 := rfl
      rw [hf, forN_stop _ _ _ _ _ h1] at hg
      have hg' : GenP20.split B inp' = some (buf.set curr seg, curr) := by rw [← hg]; exact h2
      rw [h3]
      refine ⟨⟨rfl, rfl, by simp [hl], hc', Nat.zero_le _, hg', ?_⟩, ?_⟩
      · rw [pv_unfold, hg']
        simp only [pvK]
        rw [sliceTo_ok _ (by simp [hl]; omega)]
        rfl
      · simp only [fuelOf, List.length_nil]; omega
    | cons c cs =>
      have hc' : curr ≤ 12 := by
        rcases hc with h | ⟨_, h⟩
        · exact h
        · cases h
      have hf : (c :: cs).length + 2 = (cs.length + 2) + 1 := by simp
      rw [hf] at hg
      obtain ⟨hcn, hcase⟩ := tick_split_body a' inp' pre seg c cs curr buf hv hl hc'
      have hfu : ∀ (x y : Nat) (s1 s2 : Bytes), fuelOf (.split a' inp' x s1 cs)
          ≤ fuelOf (.split a' inp' y s2 (c :: cs)) - 1 := by
        intro x y s1 s2; simp only [fuelOf, List.length_cons]; omega
      rcases hcase with ⟨_, hb, hp, ht⟩ | ⟨rfl, h13, hb, hp, ht⟩ | ⟨rfl, h13, hb, hd, ht⟩
      · rw [forN_next (h := hcn) (hb := hb), hp] at hg
        rw [ht]
        exact ⟨⟨rfl, rfl, hl, .inl hc', pre, by simp [hv], hg⟩, hfu _ _ _ _⟩
      · rw [forN_next (h := hcn) (hb := hb), hp] at hg
        rw [ht]
        exact ⟨⟨rfl, rfl, by simp [hl], .inl (by omega), pre ++ seg ++ [47], by simp [hv], hg⟩, hfu _ _ _ _⟩
      · rw [forN_brk (h := hcn) (hb := hb)] at hg
        rw [ht]
        have hv2 : inp' = (pre ++ seg ++ [47]) ++ cs := by simp [hv]
        have hl2 : (buf.set curr seg).length = 14 := by simp [hl]
        have hlen : pre.length + seg.length + 1 = (pre ++ seg ++ [47]).length := by
          simp only [List.length_append, List.length_singleton]
        obtain ⟨e1, e2, _⟩ := tick_split_exit a' inp' (pre ++ seg ++ [47]) cs 13 (buf.set curr seg)
          (pre.length + seg.length) hv2 hl2 (Nat.le_refl _)
        obtain ⟨_, e3, _⟩ := tick_split_exit a' inp' (pre ++ seg ++ [47]) cs 13 (buf.set curr seg)
          ((pre ++ seg ++ [47]).length + cs.length) hv2 hl2 (Nat.le_refl _)
        refine ⟨⟨rfl, rfl, hl2, .inr ⟨rfl, rfl⟩, pre ++ seg ++ [47], by simp [hv], ?_⟩,
          by simp only [fuelOf, List.length_cons, List.length_nil]; omega⟩
        have hf : ([] : Bytes).length + 2 = 1 + 1 := rfl
        rw [hf, forN_stop _ _ _ _ _ e1, ← hg, hlen]
        exact e3.trans e2.symm
  | loop a' inp' ei k slci i c =>
    obtain ⟨rfl, rfl, hl, he, hk, hsp, hg⟩ := h
    by_cases hlt : k < ei + 1
    · have hkl : k < buf.length := by omega
      have hkt : k < (buf.take (ei + 1)).length := by simp [List.length_take]; omega
      rw [List.drop_eq_getElem_cons hkt, List.getElem_take] at hg
      have hb := tick_loop_body a' inp' ei k slci i c buf buf[k] hlt (List.getElem?_eq_getElem hkl)
      simp only [Go.forRange] at hg
      cases hr : GenP20.ParseVector_range1 buf[k] (enc slci i c) with
      | next s' =>
        obtain ⟨slci', u0, u1, u2, u3, i'⟩ := s'
        rw [hr] at hb hg
        simp only [] at hb hg
        rw [hb]
        refine ⟨⟨rfl, rfl, hl, he, by omega, hsp, hg⟩, ?_⟩
        simp only [fuelOf]; omega
      | ret r =>
        rw [hr] at hb hg
        simp only [] at hb hg
        rw [hb]
        refine ⟨⟨rfl, rfl, hl, ⟨ei, hsp⟩, ?_⟩, Nat.zero_le _⟩
        rw [← hg]; rfl
      | brk s' => rw [hr] at hb; exact hb.elim
    · have hk' : k = ei + 1 := by omega
      subst hk'
      rw [List.drop_take_self] at hg
      rw [tick_loop_exit a' inp' ei (ei + 1) slci i c buf hlt, hg]
      exact ⟨⟨rfl, rfl, hl, ⟨ei, hsp⟩, rfl⟩, Nat.zero_le _⟩

/-! ### a thread running alone -/

/-- `n` consecutive ticks of one thread on its buffer -/
def tickN : Nat → Phase → Buf → Phase × Buf
  | 0, ph, buf => (ph, buf)
  | n + 1, ph, buf => tickN n (tick ph buf).1 (tick ph buf).2

theorem rem_tickN {a : Addr} {inp : Bytes} {B : Buf} : ∀ (n : Nat) {ph : Phase} {buf : Buf},
    Rem a inp B ph buf → Rem a inp B (tickN n ph buf).1 (tickN n ph buf).2 ∧
      fuelOf (tickN n ph buf).1 ≤ fuelOf ph - n
  | 0, _, _, h => ⟨h, by simp [tickN]⟩
  | n + 1, ph, buf, h => by
    obtain ⟨h1, h2⟩ := rem_tick h
    obtain ⟨h3, h4⟩ := rem_tickN n h1
    exact ⟨h3, by simp only [tickN]; omega⟩

/-- a thread whose remaining-tick bound is 0 has returned from the body, with the generated result -/
theorem rem_fuel_zero {a : Addr} {inp : Bytes} {B : Buf} {ph : Phase} {buf : Buf} (h : Rem a inp B ph buf)
    (hz : fuelOf ph = 0) :
    ph = .ret a inp (ofGo dec20 (GenP20.ParseVector B inp)) ∧ ∃ ei, GenP20.split B inp = some (buf, ei) := by
  cases ph with
  | idle => exact h.elim
  | crashed => exact h.elim
  | split a' inp' curr seg rest => simp [fuelOf] at hz
  | loop a' inp' ei k slci i c =>
    obtain ⟨_, _, _, _, hk, _⟩ := h
    simp only [fuelOf] at hz; omega
  | ret a' inp' r =>
    obtain ⟨rfl, rfl, _, he, rfl⟩ := h
    exact ⟨rfl, he⟩

/-- **Single-thread run, "reaches"**: `Get` (buffer `buf`, 14 slots, any content), then at least
    `len(inp) + 17` ticks: the thread is in phase `ret` with the value of the generated `ParseVector` on that very
    buffer, and the buffer it will `Put` back is the one the generated `split` leaves. -/
theorem run_reaches_ret (a : Addr) (inp : Bytes) (buf : Buf) (hl : buf.length = 14) (m : Nat)
    (hm : inp.length + 17 ≤ m) :
    ∃ bufF ei, tickN m (.split a inp 0 [] inp) buf
        = (.ret a inp (ofGo dec20 (GenP20.ParseVector buf inp)), bufF) ∧
      GenP20.split buf inp = some (bufF, ei) := by
  obtain ⟨h1, h2⟩ := rem_tickN m (rem_start a inp buf hl)
  have hz : fuelOf (tickN m (.split a inp 0 [] inp) buf).1 = 0 := by
    have hf : fuelOf (.split a inp 0 [] inp) = inp.length + 17 := rfl
    rw [hf] at h2; omega
  obtain ⟨e1, ei, e2⟩ := rem_fuel_zero h1 hz
  exact ⟨_, ei, Prod.ext e1 rfl, e2⟩

/-- **Single-thread run, "only"**: whenever, after any number of ticks, the thread is in phase `ret`, the value
    it holds is the generated one; and it is never `crashed` or `idle`. -/
theorem run_ret_only (a : Addr) (inp : Bytes) (buf : Buf) (hl : buf.length = 14) (m : Nat) :
    (∀ a' inp' r, (tickN m (.split a inp 0 [] inp) buf).1 = .ret a' inp' r →
      a' = a ∧ inp' = inp ∧ r = ofGo dec20 (GenP20.ParseVector buf inp)) ∧
    (tickN m (.split a inp 0 [] inp) buf).1 ≠ .crashed ∧ (tickN m (.split a inp 0 [] inp) buf).1 ≠ .idle := by
  obtain ⟨h1, _⟩ := rem_tickN m (rem_start a inp buf hl)
  refine ⟨?_, ?_, ?_⟩
  · intro a' inp' r e
    rw [e] at h1
    exact ⟨h1.1, h1.2.1, h1.2.2.2.2⟩
  · intro e; rw [e] at h1; exact h1
  · intro e; rw [e] at h1; exact h1

/-! ## the interleaved machine -/

/-- the thread that performs an action (`gc` is the pool's own) -/
def actor : Act → Option Nat
  | .getPool t _ _ => some t
  | .getNew t _ _ _ => some t
  | .tick t => some t
  | .put t => some t
  | .gc _ => none
  | .getAliased t _ _ => some t

theorem set_get_self {α : Type} {l : List α} {t : Nat} {x y : α} (h : l[t]? = some y) :
    (l.set t x)[t]? = some x := by
  have hlt : t < l.length := by
    rcases Nat.lt_or_ge t l.length with h' | h'
    · exact h'
    · rw [List.getElem?_eq_none h'] at h; cases h
  rw [List.getElem?_set_self hlt]

/-- **Frame, locals**: an action changes the phase (the locals) of no thread but its actor -/
theorem frame_thr {σ σ' : St} {act : Act} (hs : apply σ act = some σ') {t : Nat} (hne : actor act ≠ some t) :
    σ'.thr[t]? = σ.thr[t]? := by
  cases act with
  | gc x =>
    simp only [apply] at hs
    split at hs
    · cases hs; rfl
    · cases hs
  | getPool t' inp' a' =>
    have hne' : t' ≠ t := fun e => hne (by simp [actor, e])
    simp only [apply] at hs
    split at hs
    next =>
      split at hs
      next => cases hs; exact List.getElem?_set_ne hne'
      next => cases hs
    next => cases hs
  | getNew t' inp' a' content =>
    have hne' : t' ≠ t := fun e => hne (by simp [actor, e])
    simp only [apply] at hs
    split at hs
    next =>
      split at hs
      next => cases hs; exact List.getElem?_set_ne hne'
      next => cases hs
    next => cases hs
  | getAliased t' inp' a' =>
    have hne' : t' ≠ t := fun e => hne (by simp [actor, e])
    simp only [apply] at hs
    split at hs
    next =>
      split at hs
      next => cases hs; exact List.getElem?_set_ne hne'
      next => cases hs
    next => cases hs
  | tick t' =>
    have hne' : t' ≠ t := fun e => hne (by simp [actor, e])
    simp only [apply] at hs
    split at hs
    next =>
      split at hs
      next => cases hs; exact List.getElem?_set_ne hne'
      next => cases hs
    next => cases hs
  | put t' =>
    have hne' : t' ≠ t := fun e => hne (by simp [actor, e])
    simp only [apply] at hs
    split at hs
    next => cases hs; exact List.getElem?_set_ne hne'
    next => cases hs

/-- **Frame, buffer**: a legal action of *another* thread (or the GC) does not change the buffer a thread holds.
    (`tick` writes only the actor's own buffer — a different one by `Inv.heldDistinct`; `getNew` initialises a
    fresh one; `getPool`, `put`, `gc` do not write at all.) -/
theorem frame_heap {σ σ' : St} {act : Act} (hI : Inv σ) (hl : act.legal = true) (hs : apply σ act = some σ')
    {t : Nat} {ph : Phase} {a : Addr} (ht : σ.thr[t]? = some ph) (ho : ph.owner = some a)
    (hne : actor act ≠ some t) : σ'.heap a = σ.heap a := by
  cases act with
  | getAliased t' inp' a' => simp [Act.legal] at hl
  | gc x =>
    simp only [apply] at hs
    split at hs
    · cases hs; rfl
    · cases hs
  | getPool t' inp' a' =>
    simp only [apply] at hs
    split at hs
    next =>
      split at hs
      next => cases hs; rfl
      next => cases hs
    next => cases hs
  | put t' =>
    simp only [apply] at hs
    split at hs
    next => cases hs; rfl
    next => cases hs
  | getNew t' inp' a' content =>
    simp only [apply] at hs
    split at hs
    next =>
      split at hs
      next hf =>
        cases hs
        obtain ⟨hf, _⟩ := hf
        simp only [St.fresh, Bool.and_eq_true, Bool.not_eq_true', List.all_eq_true] at hf
        have hne2 : a ≠ a' := by
          have := hf.2 ph (List.mem_of_getElem? ht)
          intro e; subst e; simp [ho] at this
        exact upd_other _ _ hne2
      next => cases hs
    next => cases hs
  | tick t' =>
    have hne' : t' ≠ t := fun e => hne (by simp [actor, e])
    simp only [apply] at hs
    split at hs
    next ph' ht' =>
      split at hs
      next a' ho' =>
        cases hs
        have hne2 : a ≠ a' := fun e => hne' (hI.heldDistinct t' t ph' ph a' ht' ht ho' (e ▸ ho))
        exact upd_other _ _ hne2
      next => cases hs
    next => cases hs

/-- thread `t` is inside a call `ParseVector(inp)` on the buffer at address `a`, which held `B` when `Get`
    returned it, and is at a point of the generated `GenP20.ParseVector B inp` -/
def Tracks (σ : St) (t : Nat) (a : Addr) (inp : Bytes) (B : Buf) : Prop :=
  ∃ ph, σ.thr[t]? = some ph ∧ Rem a inp B ph (σ.heap a)

/-- `getPool`: the call starts on the pooled buffer's current (stale) content -/
theorem tracks_getPool {σ σ' : St} {t : Nat} {inp : Bytes} {a : Addr} (hI : Inv σ)
    (hs : apply σ (.getPool t inp a) = some σ') :
    (σ.heap a).length = 14 ∧ σ'.heap a = σ.heap a ∧ Tracks σ' t a inp (σ.heap a) := by
  simp only [apply] at hs
  split at hs
  next ht =>
    split at hs
    next hm =>
      cases hs
      exact ⟨hI.poolLen a hm, rfl, _, set_get_self ht, rem_start a inp _ (hI.poolLen a hm)⟩
    next => cases hs
  next => cases hs

/-- `getNew`: the call starts on the fresh buffer's content -/
theorem tracks_getNew {σ σ' : St} {t : Nat} {inp : Bytes} {a : Addr} {content : Buf}
    (hs : apply σ (.getNew t inp a content) = some σ') :
    content.length = 14 ∧ σ'.heap a = content ∧ Tracks σ' t a inp content := by
  simp only [apply] at hs
  split at hs
  next ht =>
    split at hs
    next hf =>
      cases hs
      refine ⟨hf.2, upd_same _ _ _, _, set_get_self ht, ?_⟩
      show Rem a inp content _ (upd σ.heap a content a)
      rw [upd_same]; exact rem_start a inp content hf.2
    next => cases hs
  next => cases hs

/-- **every legal action except the thread's own `put` keeps it on track**: its own `tick` by `rem_tick`, the
    others by the frame lemmas; its own `getPool`/`getNew` are not enabled inside a call -/
theorem tracks_step {σ σ' : St} {act : Act} {t : Nat} {a : Addr} {inp : Bytes} {B : Buf} (hI : Inv σ)
    (hT : Tracks σ t a inp B) (hl : act.legal = true) (hnp : act ≠ .put t) (hs : apply σ act = some σ') :
    Tracks σ' t a inp B := by
  obtain ⟨ph, ht, hr⟩ := hT
  have ho := rem_owner hr
  by_cases hact : actor act = some t
  · cases act with
    | gc x => simp [actor] at hact
    | getAliased t' inp' a' => simp [Act.legal] at hl
    | put t' =>
      simp only [actor, Option.some.injEq] at hact
      subst hact; exact absurd rfl hnp
    | getPool t' inp' a' =>
      simp only [actor, Option.some.injEq] at hact
      subst hact
      simp only [apply, ht] at hs
      split at hs
      next e => cases e; exact hr.elim
      next => cases hs
    | getNew t' inp' a' content =>
      simp only [actor, Option.some.injEq] at hact
      subst hact
      simp only [apply, ht] at hs
      split at hs
      next e => cases e; exact hr.elim
      next => cases hs
    | tick t' =>
      simp only [actor, Option.some.injEq] at hact
      subst hact
      simp only [apply, ht, ho] at hs
      cases hs
      refine ⟨_, set_get_self ht, ?_⟩
      show Rem a inp B _ (upd σ.heap a _ a)
      rw [upd_same]
      exact (rem_tick hr).1
  · refine ⟨ph, (frame_thr hs hact).trans ht, ?_⟩
    rw [frame_heap hI hl hs ht ho hact]
    exact hr

/-- the thread's `put` logs the generated result on the buffer it got, and gives back the buffer the generated
    `split` leaves -/
theorem tracks_put {σ σ' : St} {t : Nat} {a : Addr} {inp : Bytes} {B : Buf}
    (hT : Tracks σ t a inp B) (hs : apply σ (.put t) = some σ') :
    σ'.log = (t, inp, ofGo dec20 (GenP20.ParseVector B inp)) :: σ.log ∧ a ∈ σ'.pool ∧
    ∃ ei, GenP20.split B inp = some (σ'.heap a, ei) := by
  obtain ⟨ph, ht, hr⟩ := hT
  simp only [apply, ht] at hs
  split at hs
  next a' inp' r e =>
    cases e
    cases hs
    obtain ⟨rfl, rfl, _, he, rfl⟩ := hr
    exact ⟨rfl, List.mem_cons_self .., he⟩
  next => cases hs

/-- a schedule in which thread `t` does not `put` keeps it on track -/
theorem tracks_run {t : Nat} {a : Addr} {inp : Bytes} {B : Buf} : ∀ (acts : List Act) {σ σ' : St}, Inv σ →
    Tracks σ t a inp B → (∀ x ∈ acts, x.legal = true) → Act.put t ∉ acts → run σ acts = some σ' →
    Inv σ' ∧ Tracks σ' t a inp B
  | [], σ, σ', hI, hT, _, _, hr => by
    simp only [run, Option.some.injEq] at hr; subst hr; exact ⟨hI, hT⟩
  | x :: xs, σ, σ', hI, hT, hl, hnp, hr => by
    simp only [run] at hr
    split at hr
    next σ1 h1 =>
      have hlx := hl x (List.mem_cons_self ..)
      have hne : x ≠ .put t := fun e => hnp (e ▸ List.mem_cons_self ..)
      exact tracks_run xs (inv_apply hI hlx h1) (tracks_step hI hT hlx hne h1)
        (fun y hy => hl y (List.mem_cons_of_mem _ hy)) (fun hm => hnp (List.mem_cons_of_mem _ hm)) hr
    next => cases hr

/-- The invariant of the interleaved machine, in terms of the **generated** parser: the ownership invariant of
    `Proofs/Pool.lean`; every thread inside a call is at a point of the generated `ParseVector B inp` for the
    buffer content `B` it received (14 slots); every logged result is such a generated result. -/
structure GInv (σ : St) : Prop where
  inv : Inv σ
  rem : ∀ (t : Nat) (ph : Phase) (a : Addr), σ.thr[t]? = some ph → ph.owner = some a →
    ∃ (inp : Bytes) (B : Buf), B.length = 14 ∧ Rem a inp B ph (σ.heap a)
  log : ∀ e ∈ σ.log, ∃ B : Buf, B.length = 14 ∧ e.2.2 = ofGo dec20 (GenP20.ParseVector B e.2.1)

theorem init_ginv {σ : St} (hi : Init σ) : GInv σ where
  inv := init_inv hi
  rem t ph a ht ho := by
    rw [hi.idle ph (List.mem_of_getElem? ht)] at ho; simp [Phase.owner] at ho
  log e he := by rw [hi.log] at he; cases he

theorem of_tracks {σ : St} {t : Nat} {ph : Phase} {a a1 : Addr} {inp : Bytes} {B : Buf}
    (ht : σ.thr[t]? = some ph) (ho : ph.owner = some a1) (hT : Tracks σ t a inp B) (hB : B.length = 14) :
    ∃ (inp : Bytes) (B : Buf), B.length = 14 ∧ Rem a1 inp B ph (σ.heap a1) := by
  obtain ⟨ph', ht', hr⟩ := hT
  rw [ht] at ht'; cases ht'
  have := rem_owner hr
  rw [ho] at this; cases this
  exact ⟨inp, B, hB, hr⟩

theorem ginv_apply {σ σ' : St} {act : Act} (hG : GInv σ) (hl : act.legal = true)
    (hs : apply σ act = some σ') : GInv σ' where
  inv := inv_apply hG.inv hl hs
  rem t1 ph1 a1 ht1 ho1 := by
    by_cases hact : actor act = some t1
    · cases act with
      | gc x => simp [actor] at hact
      | getAliased t' inp' a' => simp [Act.legal] at hl
      | getPool t' inp' a' =>
        simp only [actor, Option.some.injEq] at hact; subst hact
        obtain ⟨h1, _, h3⟩ := tracks_getPool hG.inv hs
        exact of_tracks ht1 ho1 h3 h1
      | getNew t' inp' a' content =>
        simp only [actor, Option.some.injEq] at hact; subst hact
        obtain ⟨h1, _, h3⟩ := tracks_getNew hs
        exact of_tracks ht1 ho1 h3 h1
      | put t' =>
        simp only [actor, Option.some.injEq] at hact; subst hact
        simp only [apply] at hs
        split at hs
        next a inp r ht =>
          cases hs
          have : (σ.thr.set t' Phase.idle)[t']? = some ph1 := ht1
          rw [set_get_self ht] at this
          cases this
          simp [Phase.owner] at ho1
        next => cases hs
      | tick t' =>
        simp only [actor, Option.some.injEq] at hact; subst hact
        have hs' := hs
        simp only [apply] at hs'
        split at hs'
        next ph ht =>
          split at hs'
          next a ho =>
            obtain ⟨inp, B, hB, hr⟩ := hG.rem t' ph a ht ho
            have hT : Tracks σ t' a inp B := ⟨ph, ht, hr⟩
            exact of_tracks ht1 ho1 (tracks_step hG.inv hT hl (by simp) hs) hB
          next => cases hs'
        next => cases hs'
    · have ht0 : σ.thr[t1]? = some ph1 := (frame_thr hs hact).symm.trans ht1
      obtain ⟨inp, B, hB, hr⟩ := hG.rem t1 ph1 a1 ht0 ho1
      refine ⟨inp, B, hB, ?_⟩
      rw [frame_heap hG.inv hl hs ht0 ho1 hact]
      exact hr
  log e he := by
    cases act with
    | getAliased t' inp' a' => simp [Act.legal] at hl
    | gc x =>
      simp only [apply] at hs
      split at hs
      · cases hs; exact hG.log e he
      · cases hs
    | getPool t' inp' a' =>
      simp only [apply] at hs
      split at hs
      next =>
        split at hs
        next => cases hs; exact hG.log e he
        next => cases hs
      next => cases hs
    | getNew t' inp' a' content =>
      simp only [apply] at hs
      split at hs
      next =>
        split at hs
        next => cases hs; exact hG.log e he
        next => cases hs
      next => cases hs
    | tick t' =>
      simp only [apply] at hs
      split at hs
      next =>
        split at hs
        next => cases hs; exact hG.log e he
        next => cases hs
      next => cases hs
    | put t' =>
      have hs' := hs
      simp only [apply] at hs'
      split at hs'
      next a inp r ht =>
        obtain ⟨inp', B, hB, hr⟩ := hG.rem t' _ a ht rfl
        have hi : inp = inp' := hr.2.1
        subst hi
        obtain ⟨hlog, _, _⟩ := tracks_put (σ := σ) (t := t') ⟨_, ht, hr⟩ hs
        rw [hlog] at he
        rcases List.mem_cons.1 he with rfl | he
        · exact ⟨B, hB, rfl⟩
        · exact hG.log e he
      next => cases hs'

theorem ginv_run : ∀ (acts : List Act) {σ σ' : St}, GInv σ → (∀ x ∈ acts, x.legal = true) →
    run σ acts = some σ' → GInv σ'
  | [], σ, σ', hG, _, hr => by simp only [run, Option.some.injEq] at hr; exact hr ▸ hG
  | x :: xs, σ, σ', hG, hl, hr => by
    simp only [run] at hr
    split at hr
    next σ1 h1 =>
      exact ginv_run xs (ginv_apply hG (hl x (List.mem_cons_self ..)) h1)
        (fun y hy => hl y (List.mem_cons_of_mem _ hy)) hr
    next => cases hr

end PoolSim
