import Lean
import Cvss.Model.WF
import Cvss.Proofs.Contract
/-!
# Bit-field `Get`/`Set`: the version-independent part (C07, C09)

Every version's generated `Get` is `Get_core (code₀ bytes) … (codeₙ bytes) abv`, a `cond`-chain over the
abbreviation whose arm `j` decodes `codeⱼ`; the generated `Set` is a `cond`-chain whose arm `j` runs
`validate value [literals…]` and writes the returned index into the bits of field `j`.

A `Layout` packages what the per-version files (`Bits20/30/31.lean`) prove *about the generated definitions*:

* arm `j` of `Get` returns `(vals j)[codeⱼ]` (or `""` if out of range) with nil error, where `vals j` is the
  metric's value strings in the code's numbering, read off the generated `Get_core` by evaluation;
* arm `j` of `Set` is `validate value (vals j)` (the same list) followed by the bit update `upd j`;
* `vals j` has exactly the members of the Spec value list of metric `j`, without repetition;
* an abbreviation outside the Spec table falls through to the `default:` arm;
* bit facts: `codes (upd j c k) = (codes c).set j k`, bytes stay bytes, unused bits stay zero, and the
  bytes are determined by the codes.

From a `Layout` this file derives the whole `Proofs.Contract`, `Reachable ↔ wf`, and extensionality.
Nothing here mentions a mask, a shift or a literal: those are all consumed in the per-version files.
-/
namespace Bits
open Spec (Metric legal isMetric findMetric)
open Model (Bytes eValue eInvalidMetric)

theorem flet_eq {α : Sort u} (x : Nat) (k : Nat → α) : F64.flet x k = k x := by cases x <;> rfl

-- `simp` procedure: evaluate `Go.strEq a b` when both strings are closed terms (by `whnf`, so the
-- result is definitionally equal and re-checked by the kernel).
open Lean Meta Simp in
dsimproc reduceStrEq (Go.strEq _ _) := fun e => do
  if e.hasFVar || e.hasMVar then return .continue
  let r ← withTransparency .default <| whnf e
  if r.isConstOf ``Bool.true || r.isConstOf ``Bool.false then return .done r
  return .continue

/-! ## bytes -/

/-- a byte mask only looks at the low byte -/
theorem land_mod256 (u m : Nat) (hm : m < 256) : Nat.land u m = Nat.land (u % 256) m := by
  show u &&& m = (u % 2 ^ 8) &&& m
  apply Nat.eq_of_testBit_eq
  intro i
  simp only [Nat.testBit_and, Nat.testBit_mod_two_pow]
  by_cases hi : i < 8
  · simp [hi]
  · have h2 : m < 2 ^ i :=
      Nat.lt_of_lt_of_le hm (by
        have : 2 ^ 8 ≤ 2 ^ i := Nat.pow_le_pow_right (by decide) (Nat.le_of_not_lt hi)
        exact this)
    have : m.testBit i = false := Nat.testBit_lt_two_pow h2
    simp [this]

/-! ## small list facts (own inductions, to be independent of library names) -/

theorem getD_mem {α} (d : α) : ∀ (l : List α) i, i < l.length → l.getD i d ∈ l
  | [], _, h => absurd h (Nat.not_lt_zero _)
  | x :: xs, 0, _ => by simp
  | x :: xs, i+1, h => by
    have := getD_mem d xs i (Nat.lt_of_succ_lt_succ h)
    simp only [List.getD_cons_succ]
    exact List.mem_cons_of_mem _ this

theorem mem_getD {α} (d : α) : ∀ (l : List α) a, a ∈ l → ∃ i, i < l.length ∧ l.getD i d = a
  | [], _, h => by cases h
  | x :: xs, a, h => by
    rcases List.mem_cons.mp h with rfl | h
    · exact ⟨0, Nat.zero_lt_succ _, by simp⟩
    · obtain ⟨i, hi, he⟩ := mem_getD d xs a h
      exact ⟨i+1, Nat.succ_lt_succ hi, by simpa using he⟩

theorem nodup_getD_inj {α} (d : α) : ∀ (l : List α) i j, l.Nodup → i < l.length → j < l.length →
    l.getD i d = l.getD j d → i = j
  | [], _, _, _, h, _, _ => absurd h (Nat.not_lt_zero _)
  | x :: xs, 0, 0, _, _, _, _ => rfl
  | x :: xs, 0, j+1, hn, _, hj, he => by
    have hx := (List.nodup_cons.mp hn).1
    have := getD_mem d xs j (Nat.lt_of_succ_lt_succ hj)
    simp only [List.getD_cons_zero, List.getD_cons_succ] at he
    exact absurd (he ▸ this) hx
  | x :: xs, i+1, 0, hn, hi, _, he => by
    have hx := (List.nodup_cons.mp hn).1
    have := getD_mem d xs i (Nat.lt_of_succ_lt_succ hi)
    simp only [List.getD_cons_zero, List.getD_cons_succ] at he
    exact absurd (he ▸ this) hx
  | x :: xs, i+1, j+1, hn, hi, hj, he => by
    simp only [List.getD_cons_succ] at he
    exact congrArg Nat.succ (nodup_getD_inj d xs i j (List.nodup_cons.mp hn).2
      (Nat.lt_of_succ_lt_succ hi) (Nat.lt_of_succ_lt_succ hj) he)

theorem getD_ge {α} (d : α) : ∀ (l : List α) i, l.length ≤ i → l.getD i d = d
  | [], _, _ => by simp
  | x :: xs, 0, h => absurd h (by simp)
  | x :: xs, i+1, h => by simpa using getD_ge d xs i (Nat.le_of_succ_le_succ h)

theorem getD_set_same {α} (d : α) : ∀ (l : List α) j k, j < l.length → (l.set j k).getD j d = k
  | [], _, _, h => absurd h (Nat.not_lt_zero _)
  | x :: xs, 0, k, _ => by simp
  | x :: xs, j+1, k, h => by
    simpa using getD_set_same d xs j k (Nat.lt_of_succ_lt_succ h)

theorem getD_set_other {α} (d : α) : ∀ (l : List α) j j' k, j' ≠ j → (l.set j k).getD j' d = l.getD j' d
  | [], _, _, _, _ => by simp
  | x :: xs, 0, 0, _, h => absurd rfl h
  | x :: xs, 0, j'+1, k, _ => by simp
  | x :: xs, j+1, 0, k, _ => by simp
  | x :: xs, j+1, j'+1, k, h => by
    simpa using getD_set_other d xs j j' k (fun e => h (congrArg Nat.succ e))

theorem ext_getD {α} (d : α) : ∀ (l l' : List α), l.length = l'.length →
    (∀ j, j < l.length → l.getD j d = l'.getD j d) → l = l'
  | [], [], _, _ => rfl
  | [], _ :: _, h, _ => by cases h
  | _ :: _, [], h, _ => by cases h
  | x :: xs, y :: ys, hl, h => by
    have h0 := h 0 (Nat.zero_lt_succ _)
    simp only [List.getD_cons_zero] at h0
    have ht := ext_getD d xs ys (Nat.succ.inj hl) (fun j hj => by
      have := h (j+1) (Nat.succ_lt_succ hj)
      simpa using this)
    rw [h0, ht]

/-- `∀ j < n+1` splits off the last index (used to enumerate the metrics of a version) -/
theorem forall_lt_succ {P : Nat → Prop} {n : Nat} (h : ∀ j, j < n → P j) (hn : P n) : ∀ j, j < n + 1 → P j := by
  intro j hj
  rcases Nat.lt_succ_iff_lt_or_eq.mp hj with h' | rfl
  · exact h j h'
  · exact hn
theorem forall_lt_zero {P : Nat → Prop} : ∀ j, j < 0 → P j := fun _ h => absurd h (Nat.not_lt_zero _)

/-- split `∀ j, j < N → P j` (literal `N`) into the goals `P (N-1)`, …, `P 0` -/
macro "split_lt" : tactic =>
  `(tactic| repeat' (first | exact forall_lt_zero | refine forall_lt_succ ?_ ?_))

/-! ## the generated `validate` (identical text in every package) -/

/-- same body as `GenV20.validate`, `GenV30.validate`, `GenV31.validate` (tied by `rfl` in the version files) -/
def validate (value : List Nat) (enabled : List (List Nat)) : Nat × Go.Err :=
  F64.flet (0 : Nat) fun i =>
  match Go.forRange enabled i (fun enbl i =>
      cond (Go.strEq value enbl)
        (Go.Ctl.ret (i, Go.errNil))
        (F64.flet (Nat.mod (Nat.add i (1 : Nat)) 256) fun i =>
        Go.Ctl.next i)) with
  | Go.Ctl.ret r => r
  | Go.Ctl.brk _ => ((0x7FF8DEAD00000000 : Nat), Go.errPanic)
  | Go.Ctl.next _ =>
  ((0 : Nat), (Go.Err.mk 4 []))

def vbody (value : List Nat) : List Nat → Nat → Go.Ctl Nat (Nat × Go.Err) := fun enbl i =>
  cond (Go.strEq value enbl) (Go.Ctl.ret (i, Go.errNil))
    (F64.flet (Nat.mod (Nat.add i (1 : Nat)) 256) fun i => Go.Ctl.next i)

theorem validate_eq (v L) : validate v L =
    match Go.forRange L 0 (vbody v) with
    | Go.Ctl.ret r => r
    | Go.Ctl.brk _ => ((0x7FF8DEAD00000000 : Nat), Go.errPanic)
    | Go.Ctl.next _ => ((0 : Nat), (Go.Err.mk 4 [])) := rfl

theorem forRange_hit (v : List Nat) (xs : List (List Nat)) (i : Nat) :
    Go.forRange (v :: xs) i (vbody v) = .ret (i, Go.errNil) := by
  have : vbody v v i = .ret (i, Go.errNil) := by simp [vbody, Go.strEq]
  rw [Go.forRange, this]

theorem forRange_miss (v x : List Nat) (xs : List (List Nat)) (i : Nat) (h : v ≠ x) :
    Go.forRange (x :: xs) i (vbody v) = Go.forRange xs (Nat.mod (Nat.add i 1) 256) (vbody v) := by
  have : vbody v x i = .next (Nat.mod (Nat.add i 1) 256) := by simp [vbody, Go.strEq, h, flet_eq]
  rw [Go.forRange, this]

theorem loop_found (v : List Nat) : ∀ (L : List (List Nat)) (i : Nat), i + L.length ≤ 256 → v ∈ L →
    ∃ k, k < L.length ∧ L.getD k [] = v ∧ Go.forRange L i (vbody v) = .ret (i + k, Go.errNil)
  | [], _, _, h => by cases h
  | x :: xs, i, hl, h => by
    by_cases hx : v = x
    · subst hx
      exact ⟨0, Nat.zero_lt_succ _, by simp, forRange_hit v xs i⟩
    · have hm : v ∈ xs := by
        rcases List.mem_cons.mp h with h | h
        · exact absurd h hx
        · exact h
      have hpos : 0 < xs.length := List.length_pos_of_mem hm
      simp only [List.length_cons] at hl
      have hi : i + 1 < 256 := by omega
      obtain ⟨k, hk, hg, hr⟩ := loop_found v xs (i+1) (by omega) hm
      refine ⟨k+1, Nat.succ_lt_succ hk, by simpa using hg, ?_⟩
      have hmod : Nat.mod (Nat.add i 1) 256 = i + 1 := Nat.mod_eq_of_lt hi
      rw [forRange_miss v x xs i hx, hmod, hr, Nat.add_assoc, Nat.add_comm 1 k]

theorem loop_notfound (v : List Nat) : ∀ (L : List (List Nat)) (i : Nat), v ∉ L →
    ∃ s, Go.forRange L i (vbody v) = .next s
  | [], i, _ => ⟨i, rfl⟩
  | x :: xs, i, h => by
    have hx : v ≠ x := fun e => h (e ▸ List.mem_cons_self ..)
    have hm : v ∉ xs := fun e => h (List.mem_cons_of_mem _ e)
    obtain ⟨s, hs⟩ := loop_notfound v xs (Nat.mod (Nat.add i 1) 256) hm
    exact ⟨s, by rw [forRange_miss v x xs i hx, hs]⟩

/-- `validate` finds a listed value: it returns an index at which the list holds that value -/
theorem validate_found (v : List Nat) (L : List (List Nat)) (hl : L.length ≤ 256) (h : v ∈ L) :
    ∃ k, k < L.length ∧ L.getD k [] = v ∧ validate v L = (k, Go.errNil) := by
  obtain ⟨k, hk, hg, hr⟩ := loop_found v L 0 (by omega) h
  refine ⟨k, hk, hg, ?_⟩
  rw [validate_eq, hr]; simp

/-- `validate` refuses anything else with `ErrInvalidMetricValue` -/
theorem validate_notfound (v : List Nat) (L : List (List Nat)) (h : v ∉ L) :
    validate v L = (0, eValue) := by
  obtain ⟨s, hs⟩ := loop_notfound v L 0 h
  rw [validate_eq, hs]; rfl

/-! ## the Spec table -/

def dflt : Metric := ⟨[], [], false, none⟩
/-- the `j`-th metric of a table -/
def mAt (ms : List Metric) (j : Nat) : Metric := ms.getD j dflt

/-- decidable side conditions on a Spec table -/
structure TableOK (ms : List Metric) : Prop where
  /-- no abbreviation is listed twice -/
  nodup : (ms.map (·.abv)).Nodup
  /-- no metric has the empty string as a value -/
  vne : ∀ m ∈ ms, [] ∉ m.values

theorem at_mem {ms : List Metric} {j} (hj : j < ms.length) : mAt ms j ∈ ms := getD_mem _ ms j hj
theorem mem_at {ms : List Metric} {m} (h : m ∈ ms) : ∃ j, j < ms.length ∧ mAt ms j = m := mem_getD _ ms m h

theorem abv_mem {ms : List Metric} {j} (hj : j < ms.length) : (mAt ms j).abv ∈ ms.map (·.abv) :=
  List.mem_map.mpr ⟨_, at_mem hj, rfl⟩

theorem isMetric_iff (a : Bytes) : ∀ ms : List Metric, isMetric ms a = true ↔ a ∈ ms.map (·.abv)
  | [] => by simp [isMetric, findMetric]
  | m :: ms => by
    have ih := isMetric_iff a ms
    simp only [isMetric, findMetric] at ih ⊢
    by_cases h : m.abv = a
    · simp [List.find?, h]
    · have hb : (m.abv == a) = false := by simpa using h
      simp only [List.find?, hb, List.map_cons, List.mem_cons]
      rw [ih]
      constructor
      · exact Or.inr
      · rintro (e | e)
        · exact absurd e.symm h
        · exact e

theorem isMetric_at {ms : List Metric} {a} (h : isMetric ms a = true) : ∃ j, j < ms.length ∧ a = (mAt ms j).abv := by
  obtain ⟨m, hm, rfl⟩ := List.mem_map.mp ((isMetric_iff a ms).mp h)
  obtain ⟨j, hj, rfl⟩ := mem_at hm
  exact ⟨j, hj, rfl⟩

theorem not_isMetric {ms : List Metric} {a} (h : isMetric ms a = false) : a ∉ ms.map (·.abv) := by
  intro hm
  rw [(isMetric_iff a ms).mpr hm] at h
  cases h

theorem find_at : ∀ (l : List Metric) j, (l.map (·.abv)).Nodup → j < l.length →
    l.find? (fun m => m.abv == (l.getD j dflt).abv) = some (l.getD j dflt)
  | [], _, _, h => absurd h (Nat.not_lt_zero _)
  | m :: ms, 0, _, _ => by simp [List.find?]
  | m :: ms, j+1, hn, hj => by
    have hj' := Nat.lt_of_succ_lt_succ hj
    simp only [List.map_cons, List.nodup_cons] at hn
    have hne : m.abv ≠ (ms.getD j dflt).abv := by
      intro e
      exact hn.1 (e ▸ List.mem_map.mpr ⟨_, getD_mem dflt ms j hj', rfl⟩)
    have hb : (m.abv == (ms.getD j dflt).abv) = false := by simpa using hne
    simp only [List.getD_cons_succ, List.find?, hb]
    exact find_at ms j hn.2 hj'

theorem findMetric_at {ms : List Metric} (T : TableOK ms) {j} (hj : j < ms.length) :
    findMetric ms (mAt ms j).abv = some (mAt ms j) := find_at ms j T.nodup hj

theorem legal_at {ms : List Metric} (T : TableOK ms) {j} (hj : j < ms.length) (v : Bytes) :
    legal ms (mAt ms j).abv v = (mAt ms j).values.contains v := by
  simp only [legal, findMetric_at T hj]

theorem isMetric_of_at {ms : List Metric} {j} (hj : j < ms.length) : isMetric ms (mAt ms j).abv = true :=
  (isMetric_iff _ ms).mpr (abv_mem hj)

theorem legal_cases {ms : List Metric} (T : TableOK ms) {a v} (h : legal ms a v = true) :
    ∃ j, j < ms.length ∧ a = (mAt ms j).abv ∧ v ∈ (mAt ms j).values := by
  have hm : isMetric ms a = true := by
    simp only [legal] at h
    simp only [isMetric]
    cases hf : findMetric ms a with
    | none => rw [hf] at h; cases h
    | some m => rfl
  obtain ⟨j, hj, rfl⟩ := isMetric_at hm
  rw [legal_at T hj] at h
  exact ⟨j, hj, rfl, by simpa using h⟩

theorem abv_inj {ms : List Metric} (T : TableOK ms) {j j'} (hj : j < ms.length) (hj' : j' < ms.length)
    (h : (mAt ms j).abv = (mAt ms j').abv) : j = j' := by
  have hl : (ms.map (·.abv)).length = ms.length := List.length_map ..
  have e : ∀ i, i < ms.length → (ms.map (·.abv)).getD i [] = (mAt ms i).abv := by
    intro i hi
    simp [mAt, List.getD_eq_getElem?_getD, hi]
  exact nodup_getD_inj [] _ j j' T.nodup (hl ▸ hj) (hl ▸ hj') (by rw [e j hj, e j' hj', h])

theorem cond_strEq_ne {α} (a l : Bytes) (x y : α) (h : a ≠ l) : cond (Go.strEq a l) x y = y := by
  simp [Go.strEq, h]
theorem ne_of_not_mem {a l : Bytes} {L : List Bytes} (h : a ∉ L) (hl : l ∈ L) : a ≠ l := fun e => h (e ▸ hl)

/-- two lists have the same members, as a Boolean check -/
def sameMembers (A B : List Bytes) : Bool := A.all (B.contains ·) && B.all (A.contains ·)
theorem sameMembers_iff {A B : List Bytes} (h : sameMembers A B = true) (v : Bytes) : v ∈ A ↔ v ∈ B := by
  simp only [sameMembers, Bool.and_eq_true, List.all_eq_true, List.contains_iff_mem] at h
  exact ⟨h.1 v, h.2 v⟩

/-! ## Layout: what a version file proves about the generated code -/

structure Layout (O : Type) (ms : List Metric) where
  zero : O
  get : O → Bytes → Bytes × Go.Err
  set : O → Bytes → Bytes → O × Go.Err
  /-- the Boolean well-formedness predicate of `Model/WF.lean` -/
  wfB : O → Bool
  /-- every field is `< 256` -/
  IsB : O → Prop
  /-- the bits no metric uses are zero -/
  Spare : O → Prop
  /-- the field codes that `Get` extracts, in table order -/
  codes : O → List Nat
  /-- the bit update that arm `j` of `Set` performs with value index `k` -/
  upd : Nat → O → Nat → O
  /-- the value strings of metric `j` **in the code's numbering** (index = field code) -/
  vals : Nat → List Bytes
  vals_nodup : ∀ j, j < ms.length → (vals j).Nodup
  vals_len : ∀ j, j < ms.length → (vals j).length ≤ 256
  /-- … which are exactly the Spec values of metric `j` (the Spec order is the document's, not the code's) -/
  vals_spec : ∀ j, j < ms.length → ∀ v, v ∈ vals j ↔ v ∈ (mAt ms j).values
  codes_len : ∀ c, (codes c).length = ms.length
  get_known : ∀ j, j < ms.length → ∀ c,
    get c (mAt ms j).abv = ((vals j).getD ((codes c).getD j 0) [], Go.errNil)
  get_default : ∀ c a, a ∉ ms.map (·.abv) → get c a = ([], eInvalidMetric a)
  set_known : ∀ j, j < ms.length → ∀ c v, set c (mAt ms j).abv v =
    (match validate v (vals j) with
     | (k, err) => cond (!(Go.Err.beq err Go.errNil)) (c, err) (upd j c k, Go.errNil))
  set_default : ∀ c a v, a ∉ ms.map (·.abv) → set c a v = (c, eInvalidMetric a)
  upd_codes : ∀ j, j < ms.length → ∀ c k, k < (vals j).length → codes (upd j c k) = (codes c).set j k
  upd_isB : ∀ j, j < ms.length → ∀ c k, k < (vals j).length → IsB c → IsB (upd j c k)
  upd_spare : ∀ j, j < ms.length → ∀ c k, k < (vals j).length → Spare c → Spare (upd j c k)
  codes_inj : ∀ c c', IsB c → IsB c' → Spare c → Spare c' → codes c = codes c' → c = c'
  wfB_iff : ∀ c, wfB c = true ↔ IsB c ∧ Spare c ∧ Model.legalGets ms (get c) = true
  wf_zero : wfB zero = true
  zero_opt : (ms.all fun m => match m.undef with
                | some u => decide (get zero m.abv = (u, Go.errNil)) | none => true) = true

namespace Layout
variable {O : Type} {ms : List Metric} (L : Layout O ms) (T : TableOK ms)
include T

/-- a legal `Set` is the bit update with an index `k` at which the Spec value list holds `v` -/
theorem set_legal {a v} (c : O) (h : legal ms a v = true) :
    ∃ j, j < ms.length ∧ a = (mAt ms j).abv ∧ ∃ k, k < (L.vals j).length ∧
      (L.vals j).getD k [] = v ∧ L.set c a v = (L.upd j c k, Go.errNil) := by
  obtain ⟨j, hj, rfl, hv⟩ := legal_cases T h
  obtain ⟨k, hk, hg, hr⟩ := validate_found v _ (L.vals_len j hj) ((L.vals_spec j hj v).mpr hv)
  refine ⟨j, hj, rfl, k, hk, hg, ?_⟩
  rw [L.set_known j hj, hr]
  rfl

theorem set_ok (c : O) (a v) (h : legal ms a v = true) : (L.set c a v).2 = Go.errNil := by
  obtain ⟨j, _, _, k, _, _, hs⟩ := L.set_legal T c h
  rw [hs]

omit T in
theorem set_unknown (c : O) (a v) (h : isMetric ms a = false) : L.set c a v = (c, eInvalidMetric a) :=
  L.set_default c a v (not_isMetric h)

omit T in
theorem get_unknown (c : O) (a) (h : isMetric ms a = false) : L.get c a = ([], eInvalidMetric a) :=
  L.get_default c a (not_isMetric h)

theorem set_illegal (c : O) (a v) (hm : isMetric ms a = true) (h : legal ms a v = false) :
    L.set c a v = (c, eValue) := by
  obtain ⟨j, hj, rfl⟩ := isMetric_at hm
  rw [legal_at T hj] at h
  have hv : v ∉ (mAt ms j).values := by
    intro hv
    have : (mAt ms j).values.contains v = true := by simpa using hv
    rw [this] at h; cases h
  rw [L.set_known j hj, validate_notfound v _ (fun h => hv ((L.vals_spec j hj v).mp h))]
  rfl

theorem get_set_same (c : O) (a v) (h : legal ms a v = true) : L.get (L.set c a v).1 a = (v, Go.errNil) := by
  obtain ⟨j, hj, rfl, k, hk, hg, hs⟩ := L.set_legal T c h
  rw [hs, L.get_known j hj, L.upd_codes j hj c k hk, getD_set_same 0 _ j k (by rw [L.codes_len]; exact hj), hg]

theorem get_set_other (c : O) (a v a') (h : legal ms a v = true) (hm : isMetric ms a' = true) (hne : a' ≠ a) :
    L.get (L.set c a v).1 a' = L.get c a' := by
  obtain ⟨j, hj, rfl, k, hk, hg, hs⟩ := L.set_legal T c h
  obtain ⟨j', hj', rfl⟩ := isMetric_at hm
  have hjj : j' ≠ j := fun e => hne (e ▸ rfl)
  rw [hs, L.get_known j' hj', L.get_known j' hj', L.upd_codes j hj c k hk, getD_set_other 0 _ j j' k hjj]

omit T in
theorem get_zero_opt : ∀ m ∈ ms, ∀ u, m.undef = some u → L.get L.zero m.abv = (u, Go.errNil) := by
  intro m hm u hu
  have := List.all_eq_true.mp L.zero_opt m hm
  rw [hu] at this
  exact of_decide_eq_true this

/-- `legalGets` says exactly that every field code is in range -/
theorem legalGets_iff (c : O) :
    Model.legalGets ms (L.get c) = true ↔ ∀ j, j < ms.length → (L.codes c).getD j 0 < (L.vals j).length := by
  simp only [Model.legalGets, List.all_eq_true]
  constructor
  · intro h j hj
    have := h _ (at_mem hj)
    rw [L.get_known j hj] at this
    simp only [Bool.and_eq_true, List.contains_iff_mem] at this
    have hmem := this.2
    by_cases hlt : (L.codes c).getD j 0 < (L.vals j).length
    · exact hlt
    · have : (L.vals j).getD ((L.codes c).getD j 0) [] = [] :=
        getD_ge _ _ _ (Nat.le_of_not_lt hlt)
      rw [this] at hmem
      exact absurd hmem (T.vne _ (at_mem hj))
  · intro h m hm
    obtain ⟨j, hj, rfl⟩ := mem_at hm
    rw [L.get_known j hj]
    simp only [Bool.and_eq_true, List.contains_iff_mem]
    exact ⟨by decide, (L.vals_spec j hj _).mp (getD_mem _ _ _ (h j hj))⟩

theorem wf_iff (c : O) : L.wfB c = true ↔ L.IsB c ∧ L.Spare c ∧
    ∀ j, j < ms.length → (L.codes c).getD j 0 < (L.vals j).length := by
  rw [L.wfB_iff, L.legalGets_iff T]

theorem wf_upd {j} (hj : j < ms.length) (c : O) {k} (hk : k < (L.vals j).length)
    (h : L.wfB c = true) : L.wfB (L.upd j c k) = true := by
  rw [L.wf_iff T] at h ⊢
  refine ⟨L.upd_isB j hj c k hk h.1, L.upd_spare j hj c k hk h.2.1, ?_⟩
  intro j' hj'
  rw [L.upd_codes j hj c k hk]
  by_cases e : j' = j
  · subst e
    rw [getD_set_same 0 _ j' k (by rw [L.codes_len]; exact hj)]
    exact hk
  · rw [getD_set_other 0 _ j j' k e]
    exact h.2.2 j' hj'

theorem wf_set (c : O) (a v) (h : L.wfB c = true) : L.wfB (L.set c a v).1 = true := by
  cases hm : isMetric ms a with
  | false => rw [L.set_unknown c a v hm]; exact h
  | true =>
    cases hl : legal ms a v with
    | false => rw [L.set_illegal T c a v hm hl]; exact h
    | true =>
      obtain ⟨j, hj, rfl, k, hk, _, hs⟩ := L.set_legal T c hl
      rw [hs]
      exact L.wf_upd T hj c hk h

theorem isB_set (c : O) (a v) (h : L.IsB c) : L.IsB (L.set c a v).1 := by
  cases hm : isMetric ms a with
  | false => rw [L.set_unknown c a v hm]; exact h
  | true =>
    cases hl : legal ms a v with
    | false => rw [L.set_illegal T c a v hm hl]; exact h
    | true =>
      obtain ⟨j, hj, rfl, k, hk, _, hs⟩ := L.set_legal T c hl
      rw [hs]
      exact L.upd_isB j hj c k hk h

omit T in
theorem wf_get (c : O) (h : L.wfB c = true) :
    ∀ m ∈ ms, (L.get c m.abv).2 = Go.errNil ∧ (L.get c m.abv).1 ∈ m.values := by
  intro m hm
  have := List.all_eq_true.mp ((L.wfB_iff c).mp h).2.2 m hm
  simp only [Bool.and_eq_true, List.contains_iff_mem, beq_iff_eq] at this
  exact this

theorem ext (c c' : O) (h : L.wfB c = true) (h' : L.wfB c' = true)
    (he : ∀ m ∈ ms, L.get c m.abv = L.get c' m.abv) : c = c' := by
  rw [L.wf_iff T] at h h'
  refine L.codes_inj c c' h.1 h'.1 h.2.1 h'.2.1 ?_
  apply ext_getD 0
  · rw [L.codes_len, L.codes_len]
  · intro j hj
    rw [L.codes_len] at hj
    have := he _ (at_mem hj)
    rw [L.get_known j hj, L.get_known j hj] at this
    exact nodup_getD_inj [] _ _ _ (L.vals_nodup j hj) (h.2.2 j hj) (h'.2.2 j hj) (congrArg Prod.fst this)

/-- the contract of `Proofs/Contract.lean`, with `WF c := wf c = true` -/
def contract : Proofs.Contract O ms where
  zero := L.zero
  get := L.get
  set := L.set
  WF c := L.wfB c = true
  set_ok := L.set_ok T
  set_unknown := L.set_unknown
  set_illegal := L.set_illegal T
  get_unknown := L.get_unknown
  get_set_same := L.get_set_same T
  get_set_other := L.get_set_other T
  get_zero_opt := L.get_zero_opt
  wf_zero := L.wf_zero
  wf_set := L.wf_set T
  wf_get := L.wf_get
  ext := L.ext T

end Layout

/-! ## Reachability, generically over a `Contract` -/

section Reach
variable {O : Type} {ms : List Metric}
open Proofs (Contract)

/-- the zero value closed under `Set` (successful or not) -/
inductive Reach (K : Contract O ms) : O → Prop
  | zero : Reach K K.zero
  | set (c a v) : Reach K c → Reach K (K.set c a v).1

theorem reach_wf (K : Contract O ms) {c} (h : Reach K c) : K.WF c := by
  induction h with
  | zero => exact K.wf_zero
  | set c a v _ ih => exact K.wf_set c a v ih

/-- rebuild `c` from the zero value: `Set` every metric of `l` to the value it has in `c` -/
def rebuild (K : Contract O ms) (c : O) (l : List Metric) (acc : O) : O :=
  l.foldl (fun acc m => (K.set acc m.abv (K.get c m.abv).1).1) acc

theorem rebuild_reach (K : Contract O ms) (c : O) : ∀ (l : List Metric) acc, Reach K acc → Reach K (rebuild K c l acc)
  | [], _, h => h
  | _ :: l, acc, h => rebuild_reach K c l _ (Reach.set acc _ _ h)

theorem rebuild_spec (K : Contract O ms) (T : TableOK ms) (c : O) (hc : K.WF c) :
    ∀ (l : List Metric) acc, (∀ m ∈ l, m ∈ ms) → (l.map (·.abv)).Nodup →
      (∀ m ∈ l, K.get (rebuild K c l acc) m.abv = K.get c m.abv) ∧
      (∀ m' ∈ ms, m'.abv ∉ l.map (·.abv) → K.get (rebuild K c l acc) m'.abv = K.get acc m'.abv)
  | [], acc, _, _ => ⟨fun _ h => (by cases h), fun _ _ _ => rfl⟩
  | m :: l, acc, hsub, hnd => by
    have hm : m ∈ ms := hsub m (List.mem_cons_self ..)
    simp only [List.map_cons, List.nodup_cons] at hnd
    obtain ⟨ih1, ih2⟩ := rebuild_spec K T c hc l (K.set acc m.abv (K.get c m.abv).1).1
      (fun x hx => hsub x (List.mem_cons_of_mem _ hx)) hnd.2
    obtain ⟨j, hj, rfl⟩ := mem_at hm
    have hg := K.wf_get c hc _ hm
    have hleg : legal ms (mAt ms j).abv (K.get c (mAt ms j).abv).1 = true := by
      rw [legal_at T hj]; simpa using hg.2
    have hpair : K.get c (mAt ms j).abv = ((K.get c (mAt ms j).abv).1, Go.errNil) := by
      rw [← hg.1]
    constructor
    · intro x hx
      rcases List.mem_cons.mp hx with rfl | hx
      · show K.get (rebuild K c l _) _ = _
        rw [ih2 _ hm hnd.1, K.get_set_same _ _ _ hleg, ← hpair]
      · exact ih1 x hx
    · intro m' hm' hnot
      simp only [List.map_cons, List.mem_cons, not_or] at hnot
      show K.get (rebuild K c l _) _ = _
      rw [ih2 m' hm' hnot.2]
      obtain ⟨j', hj', rfl⟩ := mem_at hm'
      exact K.get_set_other _ _ _ _ hleg (isMetric_of_at hj') hnot.1

/-- every well-formed object is reached by `Set`ting each metric in turn on the zero value -/
theorem rebuild_eq (K : Contract O ms) (T : TableOK ms) (c : O) (hc : K.WF c) : rebuild K c ms K.zero = c := by
  have hr : Reach K (rebuild K c ms K.zero) := rebuild_reach K c ms _ Reach.zero
  exact K.ext _ _ (reach_wf K hr) hc (rebuild_spec K T c hc ms K.zero (fun _ h => h) T.nodup).1

theorem reach_iff_wf (K : Contract O ms) (T : TableOK ms) (c : O) : Reach K c ↔ K.WF c :=
  ⟨reach_wf K, fun h => rebuild_eq K T c h ▸ rebuild_reach K c ms _ Reach.zero⟩

/-! ### property-level consequences of a `Contract` (used by `Props/C07.lean`, `Props/C09.lean`) -/

theorem eInvalidMetric_ne_nil (a : Bytes) : eInvalidMetric a ≠ Go.errNil := by
  intro h; simp [eInvalidMetric, Go.errNil] at h
theorem eValue_ne_nil : eValue ≠ Go.errNil := by decide

/-- the three outcomes of `Set` -/
theorem set_cases (K : Contract O ms) (c : O) (a v : Bytes) :
    (legal ms a v = true ∧ (K.set c a v).2 = Go.errNil) ∨
    (isMetric ms a = false ∧ K.set c a v = (c, eInvalidMetric a)) ∨
    (isMetric ms a = true ∧ legal ms a v = false ∧ K.set c a v = (c, eValue)) := by
  cases hm : isMetric ms a with
  | false => exact Or.inr (Or.inl ⟨rfl, K.set_unknown c a v hm⟩)
  | true =>
    cases hl : legal ms a v with
    | false => exact Or.inr (Or.inr ⟨rfl, rfl, K.set_illegal c a v hm hl⟩)
    | true => exact Or.inl ⟨rfl, K.set_ok c a v hl⟩

/-- `Set` succeeds exactly on (metric of the table, one of its listed values) -/
theorem set_ok_iff (K : Contract O ms) (c : O) (a v : Bytes) :
    (K.set c a v).2 = Go.errNil ↔ legal ms a v = true := by
  constructor
  · intro h
    rcases set_cases K c a v with ⟨hl, _⟩ | ⟨_, hs⟩ | ⟨_, _, hs⟩
    · exact hl
    · rw [hs] at h; exact absurd h (eInvalidMetric_ne_nil a)
    · rw [hs] at h; exact absurd h eValue_ne_nil
  · exact K.set_ok c a v

/-- a failed `Set` leaves the whole object unchanged -/
theorem set_fail_unchanged (K : Contract O ms) (c : O) (a v : Bytes) (h : (K.set c a v).2 ≠ Go.errNil) :
    (K.set c a v).1 = c := by
  rcases set_cases K c a v with ⟨_, hs⟩ | ⟨_, hs⟩ | ⟨_, _, hs⟩
  · exact absurd hs h
  · rw [hs]
  · rw [hs]

/-- after a successful `Set(a, v)`, `Get` of ANY other string (metric or not) answers as before -/
theorem get_set_frame (K : Contract O ms) (c : O) (a v a' : Bytes) (h : legal ms a v = true) (hne : a' ≠ a) :
    K.get (K.set c a v).1 a' = K.get c a' := by
  cases hm : isMetric ms a' with
  | false => rw [K.get_unknown _ a' hm, K.get_unknown _ a' hm]
  | true => exact K.get_set_other c a v a' h hm hne

end Reach

end Bits

/-! ## tactics for the per-version bit facts -/
namespace Bits

theorem congr2 {α β γ} (f : α → β → γ) {a a' : α} {b b' : β} (h1 : a = a') (h2 : b = b') : f a b = f a' b' := by
  subst h1 h2; rfl

/-- `a :: as = b :: bs` componentwise (closing the components that are syntactically equal) -/
macro "list_eq" : tactic => `(tactic| repeat' (first | rfl | apply Bits.congr2 List.cons))

/-- Close a goal about ONE byte variable `u` (an arbitrary `Nat`, only ever looked at through byte masks)
    and the value index `k` (with `hk : k < n` in context) by enumerating `u % 256` and `k` in the kernel. -/
syntax "byte_enum " ident : tactic
set_option hygiene false in
macro_rules
  | `(tactic| byte_enum $u:ident) => `(tactic| (
      have hw : ∀ m, m < 256 → Nat.land $u m = Nat.land ($u % 256) m := fun m hm => Bits.land_mod256 $u m hm
      simp (disch := decide) only [hw]
      have hlt : $u % 256 < 256 := Nat.mod_lt _ (by decide)
      generalize $u % 256 = w at hlt ⊢
      clear hw
      revert k
      revert w
      decide +kernel))

/-- the two halves of a field that straddles bytes `u`,`u'`: `hi ||| lo = k` with `hi = k &&& mh`, `lo = k &&& ml` -/
syntax "split_enum " ident ident num num : tactic
set_option hygiene false in
macro_rules
  | `(tactic| split_enum $u:ident $u':ident $mh:num $ml:num) => `(tactic| (
      refine Eq.trans (Bits.congr2 Nat.lor (?_ : _ = Nat.land k $mh) (?_ : _ = Nat.land k $ml)) ?_
      · byte_enum $u
      · byte_enum $u'
      · revert k; decide +kernel))

end Bits
