import Cvss.Proofs.Score4Shape
import Cvss.Proofs.Score4Basic
/-!
# The loop nest of v4.0 `Score`, generically

`nest f L1 L2 L3 L4 st` (the shape of the generated four nested `range` loops) with a body that
`continue`s when one of four per-loop-variable conditions holds and otherwise overwrites the state with a
state-independent payload and `break`s (out of the innermost loop only): the final state is the payload at
the **last** good element of each of the three outer lists and the **first** good element of the innermost.
-/
namespace Proofs.Score4
open Go

/-- last element satisfying `p` -/
def lastSat (p : Nat → Bool) : List Nat → Option Nat
  | [] => none
  | x :: xs => match lastSat p xs with
    | some y => some y
    | none => cond (p x) (some x) none

variable {σ ρ : Type}

/-- innermost loop: the first element passing the filter breaks with its payload -/
theorem forRange_filter_brk (xs : List Nat) (st : σ) (f : Nat → σ → Ctl σ ρ) (bad : Nat → Bool) (g : Nat → σ)
    (hf : ∀ x s, f x s = cond (bad x) (Ctl.next s) (Ctl.brk (g x))) :
    forRange xs st f = Ctl.next (match xs.find? (fun x => !bad x) with | some x => g x | none => st) := by
  induction xs generalizing st with
  | nil => rfl
  | cons x xs ih =>
    unfold forRange
    rw [hf]
    cases h : bad x
    · simp [List.find?, h]
    · simp only [cond_true]
      rw [ih]
      simp [List.find?, h]

/-- a loop whose body always completes normally is a fold -/
theorem forRange_next (xs : List Nat) (st : σ) (f : Nat → σ → Ctl σ ρ) (T : Nat → σ → σ)
    (hf : ∀ x s, f x s = Ctl.next (T x s)) :
    forRange xs st f = Ctl.next (xs.foldl (fun s x => T x s) st) := by
  induction xs generalizing st with
  | nil => rfl
  | cons x xs ih =>
    unfold forRange
    rw [hf]
    exact ih _

/-- a fold whose steps never change the state -/
theorem foldl_id (xs : List Nat) (st : σ) (T : Nat → σ → σ) (h : ∀ x s, T x s = s) :
    xs.foldl (fun s x => T x s) st = st := by
  induction xs generalizing st with
  | nil => rfl
  | cons x xs ih => rw [List.foldl_cons, h]; exact ih st

/-- a fold that overwrites the state with a state-independent payload at the good elements and leaves it
    alone at the others returns the payload of the last good element -/
theorem foldl_overwrite (xs : List Nat) (st : σ) (T : Nat → σ → σ) (good : Nat → Bool) (v : Nat → σ)
    (hbad : ∀ x s, good x = false → T x s = s) (hgood : ∀ x s, good x = true → T x s = v x)
    (x0 : Nat) (h0 : lastSat good xs = some x0) :
    xs.foldl (fun s x => T x s) st = v x0 := by
  induction xs generalizing st with
  | nil => simp [lastSat] at h0
  | cons x xs ih =>
    simp only [List.foldl_cons]
    unfold lastSat at h0
    cases hl : lastSat good xs with
    | some y =>
      rw [hl] at h0
      simp only [Option.some.injEq] at h0
      subst h0
      exact ih _ hl
    | none =>
      rw [hl] at h0
      cases hg : good x
      · rw [hg] at h0; simp at h0
      · rw [hg] at h0
        simp only [cond_true, Option.some.injEq] at h0
        subst h0
        rw [hgood x st hg]
        -- no later element is good: the rest of the fold is the identity
        have hrest : ∀ (ys : List Nat) (s : σ), lastSat good ys = none → ys.foldl (fun s x => T x s) s = s := by
          intro ys
          induction ys with
          | nil => intro s _; rfl
          | cons y ys ihy =>
            intro s hn
            unfold lastSat at hn
            cases hy : lastSat good ys with
            | some z => rw [hy] at hn; simp at hn
            | none =>
              rw [hy] at hn
              cases hgy : good y
              · simp only [List.foldl_cons, hbad y s hgy]; exact ihy s hy
              · rw [hgy] at hn; simp at hn
        exact hrest xs _ hl

theorem wrap_next (s : S) : wrap (Ctl.next s) = Ctl.next s := by
  obtain ⟨a, b, c, d, e⟩ := s; rfl

theorem find_or (c : Bool) (b : Nat → Bool) (xs : List Nat) :
    xs.find? (fun x => !(c || b x)) = cond c none (xs.find? (fun x => !b x)) := by
  cases c
  · simp
  · simp

/-- **the loop nest** -/
theorem nest_eq (f : Nat → Nat → Nat → Nat → S → Ctl S Nat) (b1 b2 b3 b4 : Nat → Bool)
    (P : Nat → Nat → Nat → Nat → S)
    (hf : ∀ x1 x2 x3 x4 st, f x1 x2 x3 x4 st =
      cond (b1 x1 || b2 x2 || b3 x3 || b4 x4) (Ctl.next st) (Ctl.brk (P x1 x2 x3 x4)))
    (L1 L2 L3 L4 : List Nat) (x1 x2 x3 x4 : Nat)
    (h1 : lastSat (fun x => !b1 x) L1 = some x1) (h2 : lastSat (fun x => !b2 x) L2 = some x2)
    (h3 : lastSat (fun x => !b3 x) L3 = some x3) (h4 : L4.find? (fun x => !b4 x) = some x4) (st : S) :
    nest f L1 L2 L3 L4 st = Ctl.next (P x1 x2 x3 x4) := by
  -- level 4
  have lev4 : ∀ y1 y2 y3 (s : S),
      wrap (forRange L4 s (fun eq4mx (st : S) => match st with
        | (a, b, c, d, e) => f y1 y2 y3 eq4mx (a, b, c, d, e))) =
      Ctl.next (cond (b1 y1 || b2 y2 || b3 y3) s (P y1 y2 y3 x4)) := by
    intro y1 y2 y3 s
    rw [forRange_filter_brk L4 s _ (fun x => b1 y1 || b2 y2 || b3 y3 || b4 x) (P y1 y2 y3)
      (by intro x ⟨a, b, c, d, e⟩; exact hf y1 y2 y3 x _)]
    rw [find_or, h4, wrap_next]
    cases (b1 y1 || b2 y2 || b3 y3) <;> rfl
  -- level 3
  have lev3 : ∀ y1 y2 (s : S),
      wrap (forRange L3 s (fun eq3mx (st : S) => match st with
        | (a, b, c, d, e) => wrap (forRange L4 (a, b, c, d, e) (fun eq4mx (st : S) => match st with
          | (a, b, c, d, e) => f y1 y2 eq3mx eq4mx (a, b, c, d, e))))) =
      Ctl.next (cond (b1 y1 || b2 y2) s (P y1 y2 x3 x4)) := by
    intro y1 y2 s
    rw [forRange_next L3 s _ (fun y3 s => cond (b1 y1 || b2 y2 || b3 y3) s (P y1 y2 y3 x4))
      (by intro x ⟨a, b, c, d, e⟩; exact lev4 y1 y2 x _)]
    rw [wrap_next]
    cases hc : (b1 y1 || b2 y2)
    · rw [foldl_overwrite L3 s _ (fun x => !b3 x) (fun y3 => P y1 y2 y3 x4)
        (by intro x s hx; simp only [Bool.false_or]; simp at hx; rw [hx]; rfl)
        (by intro x s hx; simp only [Bool.false_or]; simp at hx; rw [hx]; rfl) x3 h3]
      rfl
    · rw [foldl_id L3 s _ (by intro x s; simp only [Bool.true_or]; rfl)]
      rfl
  -- level 2
  have lev2 : ∀ y1 (s : S),
      wrap (forRange L2 s (fun eq2mx (st : S) => match st with
        | (a, b, c, d, e) => wrap (forRange L3 (a, b, c, d, e) (fun eq3mx (st : S) => match st with
          | (a, b, c, d, e) => wrap (forRange L4 (a, b, c, d, e) (fun eq4mx (st : S) => match st with
            | (a, b, c, d, e) => f y1 eq2mx eq3mx eq4mx (a, b, c, d, e))))))) =
      Ctl.next (cond (b1 y1) s (P y1 x2 x3 x4)) := by
    intro y1 s
    rw [forRange_next L2 s _ (fun y2 s => cond (b1 y1 || b2 y2) s (P y1 y2 x3 x4))
      (by intro x ⟨a, b, c, d, e⟩; exact lev3 y1 x _)]
    rw [wrap_next]
    cases hc : b1 y1
    · rw [foldl_overwrite L2 s _ (fun x => !b2 x) (fun y2 => P y1 y2 x3 x4)
        (by intro x s hx; simp only [Bool.false_or]; simp at hx; rw [hx]; rfl)
        (by intro x s hx; simp only [Bool.false_or]; simp at hx; rw [hx]; rfl) x2 h2]
      rfl
    · rw [foldl_id L2 s _ (by intro x s; simp only [Bool.true_or]; rfl)]
      rfl
  -- level 1
  unfold nest
  rw [forRange_next L1 st _ (fun y1 s => cond (b1 y1) s (P y1 x2 x3 x4))
    (by intro x ⟨a, b, c, d, e⟩; exact lev2 x _)]
  rw [foldl_overwrite L1 st _ (fun x => !b1 x) (fun y1 => P y1 x2 x3 x4)
    (by intro x s hx; simp at hx; rw [hx]; rfl)
    (by intro x s hx; simp at hx; rw [hx]; rfl) x1 h1]

end Proofs.Score4
