import Cvss.Proofs.Score4TailDef
/-! GENERATED chunk 9 of the v4.0 float-tail obligation: for each MacroVector below and every severity
distance tuple within its depths, `roundup(eqsv − mean)` (the generated tail) is `F64.tenth` of the Spec's
exact half-up value. Kernel evaluation (`decide +kernel`), 2922 tuples. -/
namespace Proofs.Score4
set_option maxHeartbeats 2000000 in
theorem tail_000201 : tailOkMV 0 0 0 2 0 1 = true := by decide +kernel
set_option maxHeartbeats 2000000 in
theorem tail_001000 : tailOkMV 0 0 1 0 0 0 = true := by decide +kernel
set_option maxHeartbeats 2000000 in
theorem tail_010001 : tailOkMV 0 1 0 0 0 1 = true := by decide +kernel
set_option maxHeartbeats 2000000 in
theorem tail_010201 : tailOkMV 0 1 0 2 0 1 = true := by decide +kernel
set_option maxHeartbeats 2000000 in
theorem tail_011000 : tailOkMV 0 1 1 0 0 0 = true := by decide +kernel
set_option maxHeartbeats 2000000 in
theorem tail_012001 : tailOkMV 0 1 2 0 0 1 = true := by decide +kernel
set_option maxHeartbeats 2000000 in
theorem tail_100000 : tailOkMV 1 0 0 0 0 0 = true := by decide +kernel
set_option maxHeartbeats 2000000 in
theorem tail_110000 : tailOkMV 1 1 0 0 0 0 = true := by decide +kernel
set_option maxHeartbeats 2000000 in
theorem tail_110200 : tailOkMV 1 1 0 2 0 0 = true := by decide +kernel
set_option maxHeartbeats 2000000 in
theorem tail_111211 : tailOkMV 1 1 1 2 1 1 = true := by decide +kernel
set_option maxHeartbeats 2000000 in
theorem tail_200101 : tailOkMV 2 0 0 1 0 1 = true := by decide +kernel
set_option maxHeartbeats 2000000 in
theorem tail_201111 : tailOkMV 2 0 1 1 1 1 = true := by decide +kernel
set_option maxHeartbeats 2000000 in
theorem tail_210101 : tailOkMV 2 1 0 1 0 1 = true := by decide +kernel
set_option maxHeartbeats 2000000 in
theorem tail_211000 : tailOkMV 2 1 1 0 0 0 = true := by decide +kernel
set_option maxHeartbeats 2000000 in
theorem tail_211111 : tailOkMV 2 1 1 1 1 1 = true := by decide +kernel
end Proofs.Score4
