import Cvss.Proofs.Mono4Lists
/-! GENERATED: kernel evaluation of the monotonicity check for EQ group 36 (all transitions × all contexts) -/
namespace Proofs.Mono4
set_option maxHeartbeats 4000000 in
theorem mono36_q0 : mono36Ok 0 = true := by decide +kernel
set_option maxHeartbeats 4000000 in
theorem mono36_q1 : mono36Ok 1 = true := by decide +kernel
set_option maxHeartbeats 4000000 in
theorem mono36_q2 : mono36Ok 2 = true := by decide +kernel
end Proofs.Mono4
