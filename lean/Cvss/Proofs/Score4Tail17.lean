import Cvss.Proofs.Score4TailDef
/-! GENERATED chunk 17 of the v4.0 float-tail obligation: for each MacroVector below and every severity
distance tuple within its depths, `roundup(eqsv − mean)` (the generated tail) is `F64.tenth` of the Spec's
exact half-up value. Kernel evaluation (`decide +kernel`), 2926 tuples. -/
namespace Proofs.Score4
set_option maxHeartbeats 2000000 in
theorem tail_000021 : tailOkMV 0 0 0 0 2 1 = true := by decide +kernel
set_option maxHeartbeats 2000000 in
theorem tail_001221 : tailOkMV 0 0 1 2 2 1 = true := by decide +kernel
set_option maxHeartbeats 2000000 in
theorem tail_010121 : tailOkMV 0 1 0 1 2 1 = true := by decide +kernel
set_option maxHeartbeats 2000000 in
theorem tail_011221 : tailOkMV 0 1 1 2 2 1 = true := by decide +kernel
set_option maxHeartbeats 2000000 in
theorem tail_100120 : tailOkMV 1 0 0 1 2 0 = true := by decide +kernel
set_option maxHeartbeats 2000000 in
theorem tail_100221 : tailOkMV 1 0 0 2 2 1 = true := by decide +kernel
set_option maxHeartbeats 2000000 in
theorem tail_101210 : tailOkMV 1 0 1 2 1 0 = true := by decide +kernel
set_option maxHeartbeats 2000000 in
theorem tail_112121 : tailOkMV 1 1 2 1 2 1 = true := by decide +kernel
set_option maxHeartbeats 2000000 in
theorem tail_200020 : tailOkMV 2 0 0 0 2 0 = true := by decide +kernel
set_option maxHeartbeats 2000000 in
theorem tail_200021 : tailOkMV 2 0 0 0 2 1 = true := by decide +kernel
set_option maxHeartbeats 2000000 in
theorem tail_201110 : tailOkMV 2 0 1 1 1 0 = true := by decide +kernel
set_option maxHeartbeats 2000000 in
theorem tail_210020 : tailOkMV 2 1 0 0 2 0 = true := by decide +kernel
set_option maxHeartbeats 2000000 in
theorem tail_210021 : tailOkMV 2 1 0 0 2 1 = true := by decide +kernel
set_option maxHeartbeats 2000000 in
theorem tail_210220 : tailOkMV 2 1 0 2 2 0 = true := by decide +kernel
set_option maxHeartbeats 2000000 in
theorem tail_211210 : tailOkMV 2 1 1 2 1 0 = true := by decide +kernel
end Proofs.Score4
