import Cvss.Proofs.BitsCommon40
/-!
# The v4.0 bit layout, tied to the generated `Get` / `Set`

`D0 … D8` list the pieces every byte is cut into (bit order), `codes c` the 32 metric codes in **Spec**
order, `W‹k›` the byte update performed by `Set` of metric `k`, `upd k c i` the object after storing code
`i` in metric `k`. Each of these is *checked* against the generated code:

* `GC‹k›`      : `GenV40.Get_core … (abv k)` decodes its `k`-th hoisted read with `gvals k`, the value list in code order read off `Get` itself (by `rfl`);
* `get_idx`    : `c.get (abv k) = ((gvals k).getD (code k c) [], nil)` (unification against `GenV40.Get`);
* `SA‹k›`/`set_idx` : `c.set (abv k) value = arm (validate value (gvals k)) c (upd k c)` (by `simp` through `GenV40.Set`);
* `set_unknown`, `get_unknown` : the default arms.

A changed mask, shift, literal or value list in the Go source makes the corresponding lemma fail.
(File produced by tools/gen_layout40.py at authoring time; it is ordinary checked Lean.)
-/
set_option maxRecDepth 100000
namespace Proofs.B40
open Spec (Metric legal isMetric findMetric)
open Model (O40)

/-! ## pieces of each byte -/

/-- `u0`: AV AC AT PR UI -/
def D0 (u : Nat) : List Nat := [Nat.shiftRight (Nat.land u 192) 6, Nat.shiftRight (Nat.land u 32) 5, Nat.shiftRight (Nat.land u 16) 4, Nat.shiftRight (Nat.land u 12) 2, Nat.land u 3]
/-- `u1`: VC SC VI SI -/
def D1 (u : Nat) : List Nat := [Nat.shiftRight (Nat.land u 192) 6, Nat.shiftRight (Nat.land u 48) 4, Nat.shiftRight (Nat.land u 12) 2, Nat.land u 3]
/-- `u2`: VA SA E CR -/
def D2 (u : Nat) : List Nat := [Nat.shiftRight (Nat.land u 192) 6, Nat.shiftRight (Nat.land u 48) 4, Nat.shiftRight (Nat.land u 12) 2, Nat.land u 3]
/-- `u3`: IR AR MAV MAC.hi -/
def D3 (u : Nat) : List Nat := [Nat.shiftRight (Nat.land u 192) 6, Nat.shiftRight (Nat.land u 48) 4, Nat.shiftRight (Nat.land u 14) 1, Nat.mod (Nat.shiftLeft (Nat.land u 1) 1) 256]
/-- `u4`: MAC.lo MAT MPR MUI MVC.hi -/
def D4 (u : Nat) : List Nat := [Nat.shiftRight (Nat.land u 128) 7, Nat.shiftRight (Nat.land u 96) 5, Nat.shiftRight (Nat.land u 24) 3, Nat.shiftRight (Nat.land u 6) 1, Nat.mod (Nat.shiftLeft (Nat.land u 1) 1) 256]
/-- `u5`: MVC.lo MVI MVA MSC MSI.hi -/
def D5 (u : Nat) : List Nat := [Nat.shiftRight (Nat.land u 128) 7, Nat.shiftRight (Nat.land u 96) 5, Nat.shiftRight (Nat.land u 24) 3, Nat.shiftRight (Nat.land u 6) 1, Nat.mod (Nat.shiftLeft (Nat.land u 1) 2) 256]
/-- `u6`: MSI.lo MSA S AU.hi -/
def D6 (u : Nat) : List Nat := [Nat.shiftRight (Nat.land u 192) 6, Nat.shiftRight (Nat.land u 56) 3, Nat.shiftRight (Nat.land u 6) 1, Nat.mod (Nat.shiftLeft (Nat.land u 1) 1) 256]
/-- `u7`: AU.lo R V RE U.hi -/
def D7 (u : Nat) : List Nat := [Nat.shiftRight (Nat.land u 128) 7, Nat.shiftRight (Nat.land u 96) 5, Nat.shiftRight (Nat.land u 24) 3, Nat.shiftRight (Nat.land u 6) 1, Nat.mod (Nat.shiftLeft (Nat.land u 1) 2) 256]
/-- `u8`: U.lo -/
def D8 (u : Nat) : List Nat := [Nat.shiftRight (Nat.land u 192) 6]

/-- the 32 metric codes in Spec order -/
def codes (c : O40) : List Nat :=
  [(D0 c.u0).getD 0 0,
   (D0 c.u0).getD 1 0,
   (D0 c.u0).getD 2 0,
   (D0 c.u0).getD 3 0,
   (D0 c.u0).getD 4 0,
   (D1 c.u1).getD 0 0,
   (D1 c.u1).getD 2 0,
   (D2 c.u2).getD 0 0,
   (D1 c.u1).getD 1 0,
   (D1 c.u1).getD 3 0,
   (D2 c.u2).getD 1 0,
   (D2 c.u2).getD 2 0,
   (D2 c.u2).getD 3 0,
   (D3 c.u3).getD 0 0,
   (D3 c.u3).getD 1 0,
   (D3 c.u3).getD 2 0,
   Nat.lor ((D3 c.u3).getD 3 0) ((D4 c.u4).getD 0 0),
   (D4 c.u4).getD 1 0,
   (D4 c.u4).getD 2 0,
   (D4 c.u4).getD 3 0,
   Nat.lor ((D4 c.u4).getD 4 0) ((D5 c.u5).getD 0 0),
   (D5 c.u5).getD 1 0,
   (D5 c.u5).getD 2 0,
   (D5 c.u5).getD 3 0,
   Nat.lor ((D5 c.u5).getD 4 0) ((D6 c.u6).getD 0 0),
   (D6 c.u6).getD 1 0,
   (D6 c.u6).getD 2 0,
   Nat.lor ((D6 c.u6).getD 3 0) ((D7 c.u7).getD 0 0),
   (D7 c.u7).getD 1 0,
   (D7 c.u7).getD 2 0,
   (D7 c.u7).getD 3 0,
   Nat.lor ((D7 c.u7).getD 4 0) ((D8 c.u8).getD 0 0)]
def code (k : Nat) (c : O40) : Nat := (codes c).getD k 0
theorem codes_length (c : O40) : (codes c).length = 32 := rfl

/-! ## byte updates performed by `Set` -/
/-- AV -/
def W0 (u i : Nat) : Nat := Nat.lor (Nat.land u 63) (Nat.mod (Nat.shiftLeft i 6) 256)
/-- AC -/
def W1 (u i : Nat) : Nat := Nat.lor (Nat.land u 223) (Nat.mod (Nat.shiftLeft i 5) 256)
/-- AT -/
def W2 (u i : Nat) : Nat := Nat.lor (Nat.land u 239) (Nat.mod (Nat.shiftLeft i 4) 256)
/-- PR -/
def W3 (u i : Nat) : Nat := Nat.lor (Nat.land u 243) (Nat.mod (Nat.shiftLeft i 2) 256)
/-- UI -/
def W4 (u i : Nat) : Nat := Nat.lor (Nat.land u 252) i
/-- VC -/
def W5 (u i : Nat) : Nat := Nat.lor (Nat.land u 63) (Nat.mod (Nat.shiftLeft i 6) 256)
/-- VI -/
def W6 (u i : Nat) : Nat := Nat.lor (Nat.land u 243) (Nat.mod (Nat.shiftLeft i 2) 256)
/-- VA -/
def W7 (u i : Nat) : Nat := Nat.lor (Nat.land u 63) (Nat.mod (Nat.shiftLeft i 6) 256)
/-- SC -/
def W8 (u i : Nat) : Nat := Nat.lor (Nat.land u 207) (Nat.mod (Nat.shiftLeft i 4) 256)
/-- SI -/
def W9 (u i : Nat) : Nat := Nat.lor (Nat.land u 252) i
/-- SA -/
def W10 (u i : Nat) : Nat := Nat.lor (Nat.land u 207) (Nat.mod (Nat.shiftLeft i 4) 256)
/-- E -/
def W11 (u i : Nat) : Nat := Nat.lor (Nat.land u 243) (Nat.mod (Nat.shiftLeft i 2) 256)
/-- CR -/
def W12 (u i : Nat) : Nat := Nat.lor (Nat.land u 252) i
/-- IR -/
def W13 (u i : Nat) : Nat := Nat.lor (Nat.land u 63) (Nat.mod (Nat.shiftLeft i 6) 256)
/-- AR -/
def W14 (u i : Nat) : Nat := Nat.lor (Nat.land u 207) (Nat.mod (Nat.shiftLeft i 4) 256)
/-- MAV -/
def W15 (u i : Nat) : Nat := Nat.lor (Nat.land u 241) (Nat.mod (Nat.shiftLeft i 1) 256)
/-- MAC hi -/
def W16h (u i : Nat) : Nat := Nat.lor (Nat.land u 254) (Nat.shiftRight (Nat.land i 10) 1)
/-- MAC lo -/
def W16l (u i : Nat) : Nat := Nat.lor (Nat.land u 127) (Nat.mod (Nat.shiftLeft (Nat.land i 1) 7) 256)
/-- MAT -/
def W17 (u i : Nat) : Nat := Nat.lor (Nat.land u 159) (Nat.mod (Nat.shiftLeft i 5) 256)
/-- MPR -/
def W18 (u i : Nat) : Nat := Nat.lor (Nat.land u 231) (Nat.mod (Nat.shiftLeft i 3) 256)
/-- MUI -/
def W19 (u i : Nat) : Nat := Nat.lor (Nat.land u 249) (Nat.mod (Nat.shiftLeft i 1) 256)
/-- MVC hi -/
def W20h (u i : Nat) : Nat := Nat.lor (Nat.land u 254) (Nat.shiftRight (Nat.land i 2) 1)
/-- MVC lo -/
def W20l (u i : Nat) : Nat := Nat.lor (Nat.land u 127) (Nat.mod (Nat.shiftLeft (Nat.land i 1) 7) 256)
/-- MVI -/
def W21 (u i : Nat) : Nat := Nat.lor (Nat.land u 159) (Nat.mod (Nat.shiftLeft i 5) 256)
/-- MVA -/
def W22 (u i : Nat) : Nat := Nat.lor (Nat.land u 231) (Nat.mod (Nat.shiftLeft i 3) 256)
/-- MSC -/
def W23 (u i : Nat) : Nat := Nat.lor (Nat.land u 249) (Nat.mod (Nat.shiftLeft i 1) 256)
/-- MSI hi -/
def W24h (u i : Nat) : Nat := Nat.lor (Nat.land u 254) (Nat.shiftRight (Nat.land i 4) 2)
/-- MSI lo -/
def W24l (u i : Nat) : Nat := Nat.lor (Nat.land u 63) (Nat.mod (Nat.shiftLeft (Nat.land i 3) 6) 256)
/-- MSA -/
def W25 (u i : Nat) : Nat := Nat.lor (Nat.land u 199) (Nat.mod (Nat.shiftLeft i 3) 256)
/-- S -/
def W26 (u i : Nat) : Nat := Nat.lor (Nat.land u 249) (Nat.mod (Nat.shiftLeft i 1) 256)
/-- AU hi -/
def W27h (u i : Nat) : Nat := Nat.lor (Nat.land u 254) (Nat.shiftRight (Nat.land i 2) 1)
/-- AU lo -/
def W27l (u i : Nat) : Nat := Nat.lor (Nat.land u 127) (Nat.mod (Nat.shiftLeft (Nat.land i 1) 7) 256)
/-- R -/
def W28 (u i : Nat) : Nat := Nat.lor (Nat.land u 159) (Nat.mod (Nat.shiftLeft i 5) 256)
/-- V -/
def W29 (u i : Nat) : Nat := Nat.lor (Nat.land u 231) (Nat.mod (Nat.shiftLeft i 3) 256)
/-- RE -/
def W30 (u i : Nat) : Nat := Nat.lor (Nat.land u 249) (Nat.mod (Nat.shiftLeft i 1) 256)
/-- U hi -/
def W31h (u i : Nat) : Nat := Nat.lor (Nat.land u 254) (Nat.shiftRight (Nat.land i 4) 2)
/-- U lo -/
def W31l (_u i : Nat) : Nat := Nat.mod (Nat.shiftLeft (Nat.land i 3) 6) 256

/-- the object after `Set` stored code `i` in metric `k` -/
def upd : Nat → O40 → Nat → O40
  | 0, c, i => { c with u0 := W0 c.u0 i }
  | 1, c, i => { c with u0 := W1 c.u0 i }
  | 2, c, i => { c with u0 := W2 c.u0 i }
  | 3, c, i => { c with u0 := W3 c.u0 i }
  | 4, c, i => { c with u0 := W4 c.u0 i }
  | 5, c, i => { c with u1 := W5 c.u1 i }
  | 6, c, i => { c with u1 := W6 c.u1 i }
  | 7, c, i => { c with u2 := W7 c.u2 i }
  | 8, c, i => { c with u1 := W8 c.u1 i }
  | 9, c, i => { c with u1 := W9 c.u1 i }
  | 10, c, i => { c with u2 := W10 c.u2 i }
  | 11, c, i => { c with u2 := W11 c.u2 i }
  | 12, c, i => { c with u2 := W12 c.u2 i }
  | 13, c, i => { c with u3 := W13 c.u3 i }
  | 14, c, i => { c with u3 := W14 c.u3 i }
  | 15, c, i => { c with u3 := W15 c.u3 i }
  | 16, c, i => { c with u3 := W16h c.u3 i, u4 := W16l c.u4 i }
  | 17, c, i => { c with u4 := W17 c.u4 i }
  | 18, c, i => { c with u4 := W18 c.u4 i }
  | 19, c, i => { c with u4 := W19 c.u4 i }
  | 20, c, i => { c with u4 := W20h c.u4 i, u5 := W20l c.u5 i }
  | 21, c, i => { c with u5 := W21 c.u5 i }
  | 22, c, i => { c with u5 := W22 c.u5 i }
  | 23, c, i => { c with u5 := W23 c.u5 i }
  | 24, c, i => { c with u5 := W24h c.u5 i, u6 := W24l c.u6 i }
  | 25, c, i => { c with u6 := W25 c.u6 i }
  | 26, c, i => { c with u6 := W26 c.u6 i }
  | 27, c, i => { c with u6 := W27h c.u6 i, u7 := W27l c.u7 i }
  | 28, c, i => { c with u7 := W28 c.u7 i }
  | 29, c, i => { c with u7 := W29 c.u7 i }
  | 30, c, i => { c with u7 := W30 c.u7 i }
  | 31, c, i => { c with u7 := W31h c.u7 i, u8 := W31l c.u8 i }
  | _, c, _ => c

/-! ## `Get` -/
/-- what the generated `Get` answers for metric `k` when every field reads `i` (a black-box decoder) -/
def dec (k i : Nat) : List Nat := (GenV40.Get_core i i i i i i i i i i i i i i i i i i i i i i i i i i i i i i i i (abv k)).1
/-- the value list of metric `k` **in code order**, read off the generated `Get` (the Spec lists the same values in
    another order; `gvals_perm` in `Bits40`) -/
def gvals (k : Nat) : List (List Nat) := (List.range (nv k)).map (dec k)
theorem GC0 (r0 r1 r2 r3 r4 r5 r6 r7 r8 r9 r10 r11 r12 r13 r14 r15 r16 r17 r18 r19 r20 r21 r22 r23 r24 r25 r26 r27 r28 r29 r30 r31 : Nat) :
    GenV40.Get_core r0 r1 r2 r3 r4 r5 r6 r7 r8 r9 r10 r11 r12 r13 r14 r15 r16 r17 r18 r19 r20 r21 r22 r23 r24 r25 r26 r27 r28 r29 r30 r31 (abv 0) = ((gvals 0).getD r0 [], Go.errNil) := by
  match r0 with
  | 0 | 1 | 2 | 3 => rfl
  | _ + 4 => rfl
theorem GC1 (r0 r1 r2 r3 r4 r5 r6 r7 r8 r9 r10 r11 r12 r13 r14 r15 r16 r17 r18 r19 r20 r21 r22 r23 r24 r25 r26 r27 r28 r29 r30 r31 : Nat) :
    GenV40.Get_core r0 r1 r2 r3 r4 r5 r6 r7 r8 r9 r10 r11 r12 r13 r14 r15 r16 r17 r18 r19 r20 r21 r22 r23 r24 r25 r26 r27 r28 r29 r30 r31 (abv 1) = ((gvals 1).getD r1 [], Go.errNil) := by
  match r1 with
  | 0 | 1 => rfl
  | _ + 2 => rfl
theorem GC2 (r0 r1 r2 r3 r4 r5 r6 r7 r8 r9 r10 r11 r12 r13 r14 r15 r16 r17 r18 r19 r20 r21 r22 r23 r24 r25 r26 r27 r28 r29 r30 r31 : Nat) :
    GenV40.Get_core r0 r1 r2 r3 r4 r5 r6 r7 r8 r9 r10 r11 r12 r13 r14 r15 r16 r17 r18 r19 r20 r21 r22 r23 r24 r25 r26 r27 r28 r29 r30 r31 (abv 2) = ((gvals 2).getD r2 [], Go.errNil) := by
  match r2 with
  | 0 | 1 => rfl
  | _ + 2 => rfl
theorem GC3 (r0 r1 r2 r3 r4 r5 r6 r7 r8 r9 r10 r11 r12 r13 r14 r15 r16 r17 r18 r19 r20 r21 r22 r23 r24 r25 r26 r27 r28 r29 r30 r31 : Nat) :
    GenV40.Get_core r0 r1 r2 r3 r4 r5 r6 r7 r8 r9 r10 r11 r12 r13 r14 r15 r16 r17 r18 r19 r20 r21 r22 r23 r24 r25 r26 r27 r28 r29 r30 r31 (abv 3) = ((gvals 3).getD r3 [], Go.errNil) := by
  match r3 with
  | 0 | 1 | 2 => rfl
  | _ + 3 => rfl
theorem GC4 (r0 r1 r2 r3 r4 r5 r6 r7 r8 r9 r10 r11 r12 r13 r14 r15 r16 r17 r18 r19 r20 r21 r22 r23 r24 r25 r26 r27 r28 r29 r30 r31 : Nat) :
    GenV40.Get_core r0 r1 r2 r3 r4 r5 r6 r7 r8 r9 r10 r11 r12 r13 r14 r15 r16 r17 r18 r19 r20 r21 r22 r23 r24 r25 r26 r27 r28 r29 r30 r31 (abv 4) = ((gvals 4).getD r4 [], Go.errNil) := by
  match r4 with
  | 0 | 1 | 2 => rfl
  | _ + 3 => rfl
theorem GC5 (r0 r1 r2 r3 r4 r5 r6 r7 r8 r9 r10 r11 r12 r13 r14 r15 r16 r17 r18 r19 r20 r21 r22 r23 r24 r25 r26 r27 r28 r29 r30 r31 : Nat) :
    GenV40.Get_core r0 r1 r2 r3 r4 r5 r6 r7 r8 r9 r10 r11 r12 r13 r14 r15 r16 r17 r18 r19 r20 r21 r22 r23 r24 r25 r26 r27 r28 r29 r30 r31 (abv 5) = ((gvals 5).getD r5 [], Go.errNil) := by
  match r5 with
  | 0 | 1 | 2 => rfl
  | _ + 3 => rfl
theorem GC6 (r0 r1 r2 r3 r4 r5 r6 r7 r8 r9 r10 r11 r12 r13 r14 r15 r16 r17 r18 r19 r20 r21 r22 r23 r24 r25 r26 r27 r28 r29 r30 r31 : Nat) :
    GenV40.Get_core r0 r1 r2 r3 r4 r5 r6 r7 r8 r9 r10 r11 r12 r13 r14 r15 r16 r17 r18 r19 r20 r21 r22 r23 r24 r25 r26 r27 r28 r29 r30 r31 (abv 6) = ((gvals 6).getD r7 [], Go.errNil) := by
  match r7 with
  | 0 | 1 | 2 => rfl
  | _ + 3 => rfl
theorem GC7 (r0 r1 r2 r3 r4 r5 r6 r7 r8 r9 r10 r11 r12 r13 r14 r15 r16 r17 r18 r19 r20 r21 r22 r23 r24 r25 r26 r27 r28 r29 r30 r31 : Nat) :
    GenV40.Get_core r0 r1 r2 r3 r4 r5 r6 r7 r8 r9 r10 r11 r12 r13 r14 r15 r16 r17 r18 r19 r20 r21 r22 r23 r24 r25 r26 r27 r28 r29 r30 r31 (abv 7) = ((gvals 7).getD r9 [], Go.errNil) := by
  match r9 with
  | 0 | 1 | 2 => rfl
  | _ + 3 => rfl
theorem GC8 (r0 r1 r2 r3 r4 r5 r6 r7 r8 r9 r10 r11 r12 r13 r14 r15 r16 r17 r18 r19 r20 r21 r22 r23 r24 r25 r26 r27 r28 r29 r30 r31 : Nat) :
    GenV40.Get_core r0 r1 r2 r3 r4 r5 r6 r7 r8 r9 r10 r11 r12 r13 r14 r15 r16 r17 r18 r19 r20 r21 r22 r23 r24 r25 r26 r27 r28 r29 r30 r31 (abv 8) = ((gvals 8).getD r6 [], Go.errNil) := by
  match r6 with
  | 0 | 1 | 2 => rfl
  | _ + 3 => rfl
theorem GC9 (r0 r1 r2 r3 r4 r5 r6 r7 r8 r9 r10 r11 r12 r13 r14 r15 r16 r17 r18 r19 r20 r21 r22 r23 r24 r25 r26 r27 r28 r29 r30 r31 : Nat) :
    GenV40.Get_core r0 r1 r2 r3 r4 r5 r6 r7 r8 r9 r10 r11 r12 r13 r14 r15 r16 r17 r18 r19 r20 r21 r22 r23 r24 r25 r26 r27 r28 r29 r30 r31 (abv 9) = ((gvals 9).getD r8 [], Go.errNil) := by
  match r8 with
  | 0 | 1 | 2 => rfl
  | _ + 3 => rfl
theorem GC10 (r0 r1 r2 r3 r4 r5 r6 r7 r8 r9 r10 r11 r12 r13 r14 r15 r16 r17 r18 r19 r20 r21 r22 r23 r24 r25 r26 r27 r28 r29 r30 r31 : Nat) :
    GenV40.Get_core r0 r1 r2 r3 r4 r5 r6 r7 r8 r9 r10 r11 r12 r13 r14 r15 r16 r17 r18 r19 r20 r21 r22 r23 r24 r25 r26 r27 r28 r29 r30 r31 (abv 10) = ((gvals 10).getD r10 [], Go.errNil) := by
  match r10 with
  | 0 | 1 | 2 => rfl
  | _ + 3 => rfl
theorem GC11 (r0 r1 r2 r3 r4 r5 r6 r7 r8 r9 r10 r11 r12 r13 r14 r15 r16 r17 r18 r19 r20 r21 r22 r23 r24 r25 r26 r27 r28 r29 r30 r31 : Nat) :
    GenV40.Get_core r0 r1 r2 r3 r4 r5 r6 r7 r8 r9 r10 r11 r12 r13 r14 r15 r16 r17 r18 r19 r20 r21 r22 r23 r24 r25 r26 r27 r28 r29 r30 r31 (abv 11) = ((gvals 11).getD r11 [], Go.errNil) := by
  match r11 with
  | 0 | 1 | 2 | 3 => rfl
  | _ + 4 => rfl
theorem GC12 (r0 r1 r2 r3 r4 r5 r6 r7 r8 r9 r10 r11 r12 r13 r14 r15 r16 r17 r18 r19 r20 r21 r22 r23 r24 r25 r26 r27 r28 r29 r30 r31 : Nat) :
    GenV40.Get_core r0 r1 r2 r3 r4 r5 r6 r7 r8 r9 r10 r11 r12 r13 r14 r15 r16 r17 r18 r19 r20 r21 r22 r23 r24 r25 r26 r27 r28 r29 r30 r31 (abv 12) = ((gvals 12).getD r12 [], Go.errNil) := by
  match r12 with
  | 0 | 1 | 2 | 3 => rfl
  | _ + 4 => rfl
theorem GC13 (r0 r1 r2 r3 r4 r5 r6 r7 r8 r9 r10 r11 r12 r13 r14 r15 r16 r17 r18 r19 r20 r21 r22 r23 r24 r25 r26 r27 r28 r29 r30 r31 : Nat) :
    GenV40.Get_core r0 r1 r2 r3 r4 r5 r6 r7 r8 r9 r10 r11 r12 r13 r14 r15 r16 r17 r18 r19 r20 r21 r22 r23 r24 r25 r26 r27 r28 r29 r30 r31 (abv 13) = ((gvals 13).getD r13 [], Go.errNil) := by
  match r13 with
  | 0 | 1 | 2 | 3 => rfl
  | _ + 4 => rfl
theorem GC14 (r0 r1 r2 r3 r4 r5 r6 r7 r8 r9 r10 r11 r12 r13 r14 r15 r16 r17 r18 r19 r20 r21 r22 r23 r24 r25 r26 r27 r28 r29 r30 r31 : Nat) :
    GenV40.Get_core r0 r1 r2 r3 r4 r5 r6 r7 r8 r9 r10 r11 r12 r13 r14 r15 r16 r17 r18 r19 r20 r21 r22 r23 r24 r25 r26 r27 r28 r29 r30 r31 (abv 14) = ((gvals 14).getD r14 [], Go.errNil) := by
  match r14 with
  | 0 | 1 | 2 | 3 => rfl
  | _ + 4 => rfl
theorem GC15 (r0 r1 r2 r3 r4 r5 r6 r7 r8 r9 r10 r11 r12 r13 r14 r15 r16 r17 r18 r19 r20 r21 r22 r23 r24 r25 r26 r27 r28 r29 r30 r31 : Nat) :
    GenV40.Get_core r0 r1 r2 r3 r4 r5 r6 r7 r8 r9 r10 r11 r12 r13 r14 r15 r16 r17 r18 r19 r20 r21 r22 r23 r24 r25 r26 r27 r28 r29 r30 r31 (abv 15) = ((gvals 15).getD r15 [], Go.errNil) := by
  match r15 with
  | 0 | 1 | 2 | 3 | 4 => rfl
  | _ + 5 => rfl
theorem GC16 (r0 r1 r2 r3 r4 r5 r6 r7 r8 r9 r10 r11 r12 r13 r14 r15 r16 r17 r18 r19 r20 r21 r22 r23 r24 r25 r26 r27 r28 r29 r30 r31 : Nat) :
    GenV40.Get_core r0 r1 r2 r3 r4 r5 r6 r7 r8 r9 r10 r11 r12 r13 r14 r15 r16 r17 r18 r19 r20 r21 r22 r23 r24 r25 r26 r27 r28 r29 r30 r31 (abv 16) = ((gvals 16).getD r16 [], Go.errNil) := by
  match r16 with
  | 0 | 1 | 2 => rfl
  | _ + 3 => rfl
theorem GC17 (r0 r1 r2 r3 r4 r5 r6 r7 r8 r9 r10 r11 r12 r13 r14 r15 r16 r17 r18 r19 r20 r21 r22 r23 r24 r25 r26 r27 r28 r29 r30 r31 : Nat) :
    GenV40.Get_core r0 r1 r2 r3 r4 r5 r6 r7 r8 r9 r10 r11 r12 r13 r14 r15 r16 r17 r18 r19 r20 r21 r22 r23 r24 r25 r26 r27 r28 r29 r30 r31 (abv 17) = ((gvals 17).getD r17 [], Go.errNil) := by
  match r17 with
  | 0 | 1 | 2 => rfl
  | _ + 3 => rfl
theorem GC18 (r0 r1 r2 r3 r4 r5 r6 r7 r8 r9 r10 r11 r12 r13 r14 r15 r16 r17 r18 r19 r20 r21 r22 r23 r24 r25 r26 r27 r28 r29 r30 r31 : Nat) :
    GenV40.Get_core r0 r1 r2 r3 r4 r5 r6 r7 r8 r9 r10 r11 r12 r13 r14 r15 r16 r17 r18 r19 r20 r21 r22 r23 r24 r25 r26 r27 r28 r29 r30 r31 (abv 18) = ((gvals 18).getD r18 [], Go.errNil) := by
  match r18 with
  | 0 | 1 | 2 | 3 => rfl
  | _ + 4 => rfl
theorem GC19 (r0 r1 r2 r3 r4 r5 r6 r7 r8 r9 r10 r11 r12 r13 r14 r15 r16 r17 r18 r19 r20 r21 r22 r23 r24 r25 r26 r27 r28 r29 r30 r31 : Nat) :
    GenV40.Get_core r0 r1 r2 r3 r4 r5 r6 r7 r8 r9 r10 r11 r12 r13 r14 r15 r16 r17 r18 r19 r20 r21 r22 r23 r24 r25 r26 r27 r28 r29 r30 r31 (abv 19) = ((gvals 19).getD r19 [], Go.errNil) := by
  match r19 with
  | 0 | 1 | 2 | 3 => rfl
  | _ + 4 => rfl
theorem GC20 (r0 r1 r2 r3 r4 r5 r6 r7 r8 r9 r10 r11 r12 r13 r14 r15 r16 r17 r18 r19 r20 r21 r22 r23 r24 r25 r26 r27 r28 r29 r30 r31 : Nat) :
    GenV40.Get_core r0 r1 r2 r3 r4 r5 r6 r7 r8 r9 r10 r11 r12 r13 r14 r15 r16 r17 r18 r19 r20 r21 r22 r23 r24 r25 r26 r27 r28 r29 r30 r31 (abv 20) = ((gvals 20).getD r20 [], Go.errNil) := by
  match r20 with
  | 0 | 1 | 2 | 3 => rfl
  | _ + 4 => rfl
theorem GC21 (r0 r1 r2 r3 r4 r5 r6 r7 r8 r9 r10 r11 r12 r13 r14 r15 r16 r17 r18 r19 r20 r21 r22 r23 r24 r25 r26 r27 r28 r29 r30 r31 : Nat) :
    GenV40.Get_core r0 r1 r2 r3 r4 r5 r6 r7 r8 r9 r10 r11 r12 r13 r14 r15 r16 r17 r18 r19 r20 r21 r22 r23 r24 r25 r26 r27 r28 r29 r30 r31 (abv 21) = ((gvals 21).getD r21 [], Go.errNil) := by
  match r21 with
  | 0 | 1 | 2 | 3 => rfl
  | _ + 4 => rfl
theorem GC22 (r0 r1 r2 r3 r4 r5 r6 r7 r8 r9 r10 r11 r12 r13 r14 r15 r16 r17 r18 r19 r20 r21 r22 r23 r24 r25 r26 r27 r28 r29 r30 r31 : Nat) :
    GenV40.Get_core r0 r1 r2 r3 r4 r5 r6 r7 r8 r9 r10 r11 r12 r13 r14 r15 r16 r17 r18 r19 r20 r21 r22 r23 r24 r25 r26 r27 r28 r29 r30 r31 (abv 22) = ((gvals 22).getD r22 [], Go.errNil) := by
  match r22 with
  | 0 | 1 | 2 | 3 => rfl
  | _ + 4 => rfl
theorem GC23 (r0 r1 r2 r3 r4 r5 r6 r7 r8 r9 r10 r11 r12 r13 r14 r15 r16 r17 r18 r19 r20 r21 r22 r23 r24 r25 r26 r27 r28 r29 r30 r31 : Nat) :
    GenV40.Get_core r0 r1 r2 r3 r4 r5 r6 r7 r8 r9 r10 r11 r12 r13 r14 r15 r16 r17 r18 r19 r20 r21 r22 r23 r24 r25 r26 r27 r28 r29 r30 r31 (abv 23) = ((gvals 23).getD r23 [], Go.errNil) := by
  match r23 with
  | 0 | 1 | 2 | 3 => rfl
  | _ + 4 => rfl
theorem GC24 (r0 r1 r2 r3 r4 r5 r6 r7 r8 r9 r10 r11 r12 r13 r14 r15 r16 r17 r18 r19 r20 r21 r22 r23 r24 r25 r26 r27 r28 r29 r30 r31 : Nat) :
    GenV40.Get_core r0 r1 r2 r3 r4 r5 r6 r7 r8 r9 r10 r11 r12 r13 r14 r15 r16 r17 r18 r19 r20 r21 r22 r23 r24 r25 r26 r27 r28 r29 r30 r31 (abv 24) = ((gvals 24).getD r24 [], Go.errNil) := by
  match r24 with
  | 0 | 1 | 2 | 3 | 4 => rfl
  | _ + 5 => rfl
theorem GC25 (r0 r1 r2 r3 r4 r5 r6 r7 r8 r9 r10 r11 r12 r13 r14 r15 r16 r17 r18 r19 r20 r21 r22 r23 r24 r25 r26 r27 r28 r29 r30 r31 : Nat) :
    GenV40.Get_core r0 r1 r2 r3 r4 r5 r6 r7 r8 r9 r10 r11 r12 r13 r14 r15 r16 r17 r18 r19 r20 r21 r22 r23 r24 r25 r26 r27 r28 r29 r30 r31 (abv 25) = ((gvals 25).getD r25 [], Go.errNil) := by
  match r25 with
  | 0 | 1 | 2 | 3 | 4 => rfl
  | _ + 5 => rfl
theorem GC26 (r0 r1 r2 r3 r4 r5 r6 r7 r8 r9 r10 r11 r12 r13 r14 r15 r16 r17 r18 r19 r20 r21 r22 r23 r24 r25 r26 r27 r28 r29 r30 r31 : Nat) :
    GenV40.Get_core r0 r1 r2 r3 r4 r5 r6 r7 r8 r9 r10 r11 r12 r13 r14 r15 r16 r17 r18 r19 r20 r21 r22 r23 r24 r25 r26 r27 r28 r29 r30 r31 (abv 26) = ((gvals 26).getD r26 [], Go.errNil) := by
  match r26 with
  | 0 | 1 | 2 => rfl
  | _ + 3 => rfl
theorem GC27 (r0 r1 r2 r3 r4 r5 r6 r7 r8 r9 r10 r11 r12 r13 r14 r15 r16 r17 r18 r19 r20 r21 r22 r23 r24 r25 r26 r27 r28 r29 r30 r31 : Nat) :
    GenV40.Get_core r0 r1 r2 r3 r4 r5 r6 r7 r8 r9 r10 r11 r12 r13 r14 r15 r16 r17 r18 r19 r20 r21 r22 r23 r24 r25 r26 r27 r28 r29 r30 r31 (abv 27) = ((gvals 27).getD r27 [], Go.errNil) := by
  match r27 with
  | 0 | 1 | 2 => rfl
  | _ + 3 => rfl
theorem GC28 (r0 r1 r2 r3 r4 r5 r6 r7 r8 r9 r10 r11 r12 r13 r14 r15 r16 r17 r18 r19 r20 r21 r22 r23 r24 r25 r26 r27 r28 r29 r30 r31 : Nat) :
    GenV40.Get_core r0 r1 r2 r3 r4 r5 r6 r7 r8 r9 r10 r11 r12 r13 r14 r15 r16 r17 r18 r19 r20 r21 r22 r23 r24 r25 r26 r27 r28 r29 r30 r31 (abv 28) = ((gvals 28).getD r28 [], Go.errNil) := by
  match r28 with
  | 0 | 1 | 2 | 3 => rfl
  | _ + 4 => rfl
theorem GC29 (r0 r1 r2 r3 r4 r5 r6 r7 r8 r9 r10 r11 r12 r13 r14 r15 r16 r17 r18 r19 r20 r21 r22 r23 r24 r25 r26 r27 r28 r29 r30 r31 : Nat) :
    GenV40.Get_core r0 r1 r2 r3 r4 r5 r6 r7 r8 r9 r10 r11 r12 r13 r14 r15 r16 r17 r18 r19 r20 r21 r22 r23 r24 r25 r26 r27 r28 r29 r30 r31 (abv 29) = ((gvals 29).getD r29 [], Go.errNil) := by
  match r29 with
  | 0 | 1 | 2 => rfl
  | _ + 3 => rfl
theorem GC30 (r0 r1 r2 r3 r4 r5 r6 r7 r8 r9 r10 r11 r12 r13 r14 r15 r16 r17 r18 r19 r20 r21 r22 r23 r24 r25 r26 r27 r28 r29 r30 r31 : Nat) :
    GenV40.Get_core r0 r1 r2 r3 r4 r5 r6 r7 r8 r9 r10 r11 r12 r13 r14 r15 r16 r17 r18 r19 r20 r21 r22 r23 r24 r25 r26 r27 r28 r29 r30 r31 (abv 30) = ((gvals 30).getD r30 [], Go.errNil) := by
  match r30 with
  | 0 | 1 | 2 | 3 => rfl
  | _ + 4 => rfl
theorem GC31 (r0 r1 r2 r3 r4 r5 r6 r7 r8 r9 r10 r11 r12 r13 r14 r15 r16 r17 r18 r19 r20 r21 r22 r23 r24 r25 r26 r27 r28 r29 r30 r31 : Nat) :
    GenV40.Get_core r0 r1 r2 r3 r4 r5 r6 r7 r8 r9 r10 r11 r12 r13 r14 r15 r16 r17 r18 r19 r20 r21 r22 r23 r24 r25 r26 r27 r28 r29 r30 r31 (abv 31) = ((gvals 31).getD r31 [], Go.errNil) := by
  match r31 with
  | 0 | 1 | 2 | 3 | 4 => rfl
  | _ + 5 => rfl

/-- `Get` of the `k`-th Spec metric decodes code `k` with the Spec value list; the error is always nil -/
theorem GI0 (c : O40) : c.get (abv 0) = ((gvals 0).getD (code 0 c) [], Go.errNil) := by
  unfold O40.get GenV40.Get; exact GC0 ..
theorem GI1 (c : O40) : c.get (abv 1) = ((gvals 1).getD (code 1 c) [], Go.errNil) := by
  unfold O40.get GenV40.Get; exact GC1 ..
theorem GI2 (c : O40) : c.get (abv 2) = ((gvals 2).getD (code 2 c) [], Go.errNil) := by
  unfold O40.get GenV40.Get; exact GC2 ..
theorem GI3 (c : O40) : c.get (abv 3) = ((gvals 3).getD (code 3 c) [], Go.errNil) := by
  unfold O40.get GenV40.Get; exact GC3 ..
theorem GI4 (c : O40) : c.get (abv 4) = ((gvals 4).getD (code 4 c) [], Go.errNil) := by
  unfold O40.get GenV40.Get; exact GC4 ..
theorem GI5 (c : O40) : c.get (abv 5) = ((gvals 5).getD (code 5 c) [], Go.errNil) := by
  unfold O40.get GenV40.Get; exact GC5 ..
theorem GI6 (c : O40) : c.get (abv 6) = ((gvals 6).getD (code 6 c) [], Go.errNil) := by
  unfold O40.get GenV40.Get; exact GC6 ..
theorem GI7 (c : O40) : c.get (abv 7) = ((gvals 7).getD (code 7 c) [], Go.errNil) := by
  unfold O40.get GenV40.Get; exact GC7 ..
theorem GI8 (c : O40) : c.get (abv 8) = ((gvals 8).getD (code 8 c) [], Go.errNil) := by
  unfold O40.get GenV40.Get; exact GC8 ..
theorem GI9 (c : O40) : c.get (abv 9) = ((gvals 9).getD (code 9 c) [], Go.errNil) := by
  unfold O40.get GenV40.Get; exact GC9 ..
theorem GI10 (c : O40) : c.get (abv 10) = ((gvals 10).getD (code 10 c) [], Go.errNil) := by
  unfold O40.get GenV40.Get; exact GC10 ..
theorem GI11 (c : O40) : c.get (abv 11) = ((gvals 11).getD (code 11 c) [], Go.errNil) := by
  unfold O40.get GenV40.Get; exact GC11 ..
theorem GI12 (c : O40) : c.get (abv 12) = ((gvals 12).getD (code 12 c) [], Go.errNil) := by
  unfold O40.get GenV40.Get; exact GC12 ..
theorem GI13 (c : O40) : c.get (abv 13) = ((gvals 13).getD (code 13 c) [], Go.errNil) := by
  unfold O40.get GenV40.Get; exact GC13 ..
theorem GI14 (c : O40) : c.get (abv 14) = ((gvals 14).getD (code 14 c) [], Go.errNil) := by
  unfold O40.get GenV40.Get; exact GC14 ..
theorem GI15 (c : O40) : c.get (abv 15) = ((gvals 15).getD (code 15 c) [], Go.errNil) := by
  unfold O40.get GenV40.Get; exact GC15 ..
theorem GI16 (c : O40) : c.get (abv 16) = ((gvals 16).getD (code 16 c) [], Go.errNil) := by
  unfold O40.get GenV40.Get; exact GC16 ..
theorem GI17 (c : O40) : c.get (abv 17) = ((gvals 17).getD (code 17 c) [], Go.errNil) := by
  unfold O40.get GenV40.Get; exact GC17 ..
theorem GI18 (c : O40) : c.get (abv 18) = ((gvals 18).getD (code 18 c) [], Go.errNil) := by
  unfold O40.get GenV40.Get; exact GC18 ..
theorem GI19 (c : O40) : c.get (abv 19) = ((gvals 19).getD (code 19 c) [], Go.errNil) := by
  unfold O40.get GenV40.Get; exact GC19 ..
theorem GI20 (c : O40) : c.get (abv 20) = ((gvals 20).getD (code 20 c) [], Go.errNil) := by
  unfold O40.get GenV40.Get; exact GC20 ..
theorem GI21 (c : O40) : c.get (abv 21) = ((gvals 21).getD (code 21 c) [], Go.errNil) := by
  unfold O40.get GenV40.Get; exact GC21 ..
theorem GI22 (c : O40) : c.get (abv 22) = ((gvals 22).getD (code 22 c) [], Go.errNil) := by
  unfold O40.get GenV40.Get; exact GC22 ..
theorem GI23 (c : O40) : c.get (abv 23) = ((gvals 23).getD (code 23 c) [], Go.errNil) := by
  unfold O40.get GenV40.Get; exact GC23 ..
theorem GI24 (c : O40) : c.get (abv 24) = ((gvals 24).getD (code 24 c) [], Go.errNil) := by
  unfold O40.get GenV40.Get; exact GC24 ..
theorem GI25 (c : O40) : c.get (abv 25) = ((gvals 25).getD (code 25 c) [], Go.errNil) := by
  unfold O40.get GenV40.Get; exact GC25 ..
theorem GI26 (c : O40) : c.get (abv 26) = ((gvals 26).getD (code 26 c) [], Go.errNil) := by
  unfold O40.get GenV40.Get; exact GC26 ..
theorem GI27 (c : O40) : c.get (abv 27) = ((gvals 27).getD (code 27 c) [], Go.errNil) := by
  unfold O40.get GenV40.Get; exact GC27 ..
theorem GI28 (c : O40) : c.get (abv 28) = ((gvals 28).getD (code 28 c) [], Go.errNil) := by
  unfold O40.get GenV40.Get; exact GC28 ..
theorem GI29 (c : O40) : c.get (abv 29) = ((gvals 29).getD (code 29 c) [], Go.errNil) := by
  unfold O40.get GenV40.Get; exact GC29 ..
theorem GI30 (c : O40) : c.get (abv 30) = ((gvals 30).getD (code 30 c) [], Go.errNil) := by
  unfold O40.get GenV40.Get; exact GC30 ..
theorem GI31 (c : O40) : c.get (abv 31) = ((gvals 31).getD (code 31 c) [], Go.errNil) := by
  unfold O40.get GenV40.Get; exact GC31 ..
theorem get_idx (c : O40) : ∀ k, k < 32 → c.get (abv k) = ((gvals k).getD (code k c) [], Go.errNil) :=
  all32 (GI0 c) (GI1 c) (GI2 c) (GI3 c) (GI4 c) (GI5 c) (GI6 c) (GI7 c) (GI8 c) (GI9 c) (GI10 c) (GI11 c) (GI12 c) (GI13 c) (GI14 c) (GI15 c) (GI16 c) (GI17 c) (GI18 c) (GI19 c) (GI20 c) (GI21 c) (GI22 c) (GI23 c) (GI24 c) (GI25 c) (GI26 c) (GI27 c) (GI28 c) (GI29 c) (GI30 c) (GI31 c)

/-! ## `Set` -/
/-- what every arm of `Set` does with the result of `validate` -/
def arm (r : Nat × Go.Err) (c : O40) (f : Nat → O40) : O40 × Go.Err :=
  cond (!(Go.Err.beq r.2 Go.errNil)) (c, r.2) (f r.1, Go.errNil)

theorem SA0 (c : O40) (value : List Nat) :
    c.set (abv 0) value = arm (GenV40.validate value (gvals 0)) c (upd 0 c) := by
  generalize hr : GenV40.validate value _ = r
  simp (config := {decide := true}) only [O40.set, GenV40.Set, Go.strEq, cond_true, cond_false, decide_true,
    decide_false, flet_eq]
  erw [hr]
  unfold arm
  cases (!(r.2.beq Go.errNil)) <;> rfl
theorem SA1 (c : O40) (value : List Nat) :
    c.set (abv 1) value = arm (GenV40.validate value (gvals 1)) c (upd 1 c) := by
  generalize hr : GenV40.validate value _ = r
  simp (config := {decide := true}) only [O40.set, GenV40.Set, Go.strEq, cond_true, cond_false, decide_true,
    decide_false, flet_eq]
  erw [hr]
  unfold arm
  cases (!(r.2.beq Go.errNil)) <;> rfl
theorem SA2 (c : O40) (value : List Nat) :
    c.set (abv 2) value = arm (GenV40.validate value (gvals 2)) c (upd 2 c) := by
  generalize hr : GenV40.validate value _ = r
  simp (config := {decide := true}) only [O40.set, GenV40.Set, Go.strEq, cond_true, cond_false, decide_true,
    decide_false, flet_eq]
  erw [hr]
  unfold arm
  cases (!(r.2.beq Go.errNil)) <;> rfl
theorem SA3 (c : O40) (value : List Nat) :
    c.set (abv 3) value = arm (GenV40.validate value (gvals 3)) c (upd 3 c) := by
  generalize hr : GenV40.validate value _ = r
  simp (config := {decide := true}) only [O40.set, GenV40.Set, Go.strEq, cond_true, cond_false, decide_true,
    decide_false, flet_eq]
  erw [hr]
  unfold arm
  cases (!(r.2.beq Go.errNil)) <;> rfl
theorem SA4 (c : O40) (value : List Nat) :
    c.set (abv 4) value = arm (GenV40.validate value (gvals 4)) c (upd 4 c) := by
  generalize hr : GenV40.validate value _ = r
  simp (config := {decide := true}) only [O40.set, GenV40.Set, Go.strEq, cond_true, cond_false, decide_true,
    decide_false, flet_eq]
  erw [hr]
  unfold arm
  cases (!(r.2.beq Go.errNil)) <;> rfl
theorem SA5 (c : O40) (value : List Nat) :
    c.set (abv 5) value = arm (GenV40.validate value (gvals 5)) c (upd 5 c) := by
  generalize hr : GenV40.validate value _ = r
  simp (config := {decide := true}) only [O40.set, GenV40.Set, Go.strEq, cond_true, cond_false, decide_true,
    decide_false, flet_eq]
  erw [hr]
  unfold arm
  cases (!(r.2.beq Go.errNil)) <;> rfl
theorem SA6 (c : O40) (value : List Nat) :
    c.set (abv 6) value = arm (GenV40.validate value (gvals 6)) c (upd 6 c) := by
  generalize hr : GenV40.validate value _ = r
  simp (config := {decide := true}) only [O40.set, GenV40.Set, Go.strEq, cond_true, cond_false, decide_true,
    decide_false, flet_eq]
  erw [hr]
  unfold arm
  cases (!(r.2.beq Go.errNil)) <;> rfl
theorem SA7 (c : O40) (value : List Nat) :
    c.set (abv 7) value = arm (GenV40.validate value (gvals 7)) c (upd 7 c) := by
  generalize hr : GenV40.validate value _ = r
  simp (config := {decide := true}) only [O40.set, GenV40.Set, Go.strEq, cond_true, cond_false, decide_true,
    decide_false, flet_eq]
  erw [hr]
  unfold arm
  cases (!(r.2.beq Go.errNil)) <;> rfl
theorem SA8 (c : O40) (value : List Nat) :
    c.set (abv 8) value = arm (GenV40.validate value (gvals 8)) c (upd 8 c) := by
  generalize hr : GenV40.validate value _ = r
  simp (config := {decide := true}) only [O40.set, GenV40.Set, Go.strEq, cond_true, cond_false, decide_true,
    decide_false, flet_eq]
  erw [hr]
  unfold arm
  cases (!(r.2.beq Go.errNil)) <;> rfl
theorem SA9 (c : O40) (value : List Nat) :
    c.set (abv 9) value = arm (GenV40.validate value (gvals 9)) c (upd 9 c) := by
  generalize hr : GenV40.validate value _ = r
  simp (config := {decide := true}) only [O40.set, GenV40.Set, Go.strEq, cond_true, cond_false, decide_true,
    decide_false, flet_eq]
  erw [hr]
  unfold arm
  cases (!(r.2.beq Go.errNil)) <;> rfl
theorem SA10 (c : O40) (value : List Nat) :
    c.set (abv 10) value = arm (GenV40.validate value (gvals 10)) c (upd 10 c) := by
  generalize hr : GenV40.validate value _ = r
  simp (config := {decide := true}) only [O40.set, GenV40.Set, Go.strEq, cond_true, cond_false, decide_true,
    decide_false, flet_eq]
  erw [hr]
  unfold arm
  cases (!(r.2.beq Go.errNil)) <;> rfl
theorem SA11 (c : O40) (value : List Nat) :
    c.set (abv 11) value = arm (GenV40.validate value (gvals 11)) c (upd 11 c) := by
  generalize hr : GenV40.validate value _ = r
  simp (config := {decide := true}) only [O40.set, GenV40.Set, Go.strEq, cond_true, cond_false, decide_true,
    decide_false, flet_eq]
  erw [hr]
  unfold arm
  cases (!(r.2.beq Go.errNil)) <;> rfl
theorem SA12 (c : O40) (value : List Nat) :
    c.set (abv 12) value = arm (GenV40.validate value (gvals 12)) c (upd 12 c) := by
  generalize hr : GenV40.validate value _ = r
  simp (config := {decide := true}) only [O40.set, GenV40.Set, Go.strEq, cond_true, cond_false, decide_true,
    decide_false, flet_eq]
  erw [hr]
  unfold arm
  cases (!(r.2.beq Go.errNil)) <;> rfl
theorem SA13 (c : O40) (value : List Nat) :
    c.set (abv 13) value = arm (GenV40.validate value (gvals 13)) c (upd 13 c) := by
  generalize hr : GenV40.validate value _ = r
  simp (config := {decide := true}) only [O40.set, GenV40.Set, Go.strEq, cond_true, cond_false, decide_true,
    decide_false, flet_eq]
  erw [hr]
  unfold arm
  cases (!(r.2.beq Go.errNil)) <;> rfl
theorem SA14 (c : O40) (value : List Nat) :
    c.set (abv 14) value = arm (GenV40.validate value (gvals 14)) c (upd 14 c) := by
  generalize hr : GenV40.validate value _ = r
  simp (config := {decide := true}) only [O40.set, GenV40.Set, Go.strEq, cond_true, cond_false, decide_true,
    decide_false, flet_eq]
  erw [hr]
  unfold arm
  cases (!(r.2.beq Go.errNil)) <;> rfl
theorem SA15 (c : O40) (value : List Nat) :
    c.set (abv 15) value = arm (GenV40.validate value (gvals 15)) c (upd 15 c) := by
  generalize hr : GenV40.validate value _ = r
  simp (config := {decide := true}) only [O40.set, GenV40.Set, Go.strEq, cond_true, cond_false, decide_true,
    decide_false, flet_eq]
  erw [hr]
  unfold arm
  cases (!(r.2.beq Go.errNil)) <;> rfl
theorem SA16 (c : O40) (value : List Nat) :
    c.set (abv 16) value = arm (GenV40.validate value (gvals 16)) c (upd 16 c) := by
  generalize hr : GenV40.validate value _ = r
  simp (config := {decide := true}) only [O40.set, GenV40.Set, Go.strEq, cond_true, cond_false, decide_true,
    decide_false, flet_eq]
  erw [hr]
  unfold arm
  cases (!(r.2.beq Go.errNil)) <;> rfl
theorem SA17 (c : O40) (value : List Nat) :
    c.set (abv 17) value = arm (GenV40.validate value (gvals 17)) c (upd 17 c) := by
  generalize hr : GenV40.validate value _ = r
  simp (config := {decide := true}) only [O40.set, GenV40.Set, Go.strEq, cond_true, cond_false, decide_true,
    decide_false, flet_eq]
  erw [hr]
  unfold arm
  cases (!(r.2.beq Go.errNil)) <;> rfl
theorem SA18 (c : O40) (value : List Nat) :
    c.set (abv 18) value = arm (GenV40.validate value (gvals 18)) c (upd 18 c) := by
  generalize hr : GenV40.validate value _ = r
  simp (config := {decide := true}) only [O40.set, GenV40.Set, Go.strEq, cond_true, cond_false, decide_true,
    decide_false, flet_eq]
  erw [hr]
  unfold arm
  cases (!(r.2.beq Go.errNil)) <;> rfl
theorem SA19 (c : O40) (value : List Nat) :
    c.set (abv 19) value = arm (GenV40.validate value (gvals 19)) c (upd 19 c) := by
  generalize hr : GenV40.validate value _ = r
  simp (config := {decide := true}) only [O40.set, GenV40.Set, Go.strEq, cond_true, cond_false, decide_true,
    decide_false, flet_eq]
  erw [hr]
  unfold arm
  cases (!(r.2.beq Go.errNil)) <;> rfl
theorem SA20 (c : O40) (value : List Nat) :
    c.set (abv 20) value = arm (GenV40.validate value (gvals 20)) c (upd 20 c) := by
  generalize hr : GenV40.validate value _ = r
  simp (config := {decide := true}) only [O40.set, GenV40.Set, Go.strEq, cond_true, cond_false, decide_true,
    decide_false, flet_eq]
  erw [hr]
  unfold arm
  cases (!(r.2.beq Go.errNil)) <;> rfl
theorem SA21 (c : O40) (value : List Nat) :
    c.set (abv 21) value = arm (GenV40.validate value (gvals 21)) c (upd 21 c) := by
  generalize hr : GenV40.validate value _ = r
  simp (config := {decide := true}) only [O40.set, GenV40.Set, Go.strEq, cond_true, cond_false, decide_true,
    decide_false, flet_eq]
  erw [hr]
  unfold arm
  cases (!(r.2.beq Go.errNil)) <;> rfl
theorem SA22 (c : O40) (value : List Nat) :
    c.set (abv 22) value = arm (GenV40.validate value (gvals 22)) c (upd 22 c) := by
  generalize hr : GenV40.validate value _ = r
  simp (config := {decide := true}) only [O40.set, GenV40.Set, Go.strEq, cond_true, cond_false, decide_true,
    decide_false, flet_eq]
  erw [hr]
  unfold arm
  cases (!(r.2.beq Go.errNil)) <;> rfl
theorem SA23 (c : O40) (value : List Nat) :
    c.set (abv 23) value = arm (GenV40.validate value (gvals 23)) c (upd 23 c) := by
  generalize hr : GenV40.validate value _ = r
  simp (config := {decide := true}) only [O40.set, GenV40.Set, Go.strEq, cond_true, cond_false, decide_true,
    decide_false, flet_eq]
  erw [hr]
  unfold arm
  cases (!(r.2.beq Go.errNil)) <;> rfl
theorem SA24 (c : O40) (value : List Nat) :
    c.set (abv 24) value = arm (GenV40.validate value (gvals 24)) c (upd 24 c) := by
  generalize hr : GenV40.validate value _ = r
  simp (config := {decide := true}) only [O40.set, GenV40.Set, Go.strEq, cond_true, cond_false, decide_true,
    decide_false, flet_eq]
  erw [hr]
  unfold arm
  cases (!(r.2.beq Go.errNil)) <;> rfl
theorem SA25 (c : O40) (value : List Nat) :
    c.set (abv 25) value = arm (GenV40.validate value (gvals 25)) c (upd 25 c) := by
  generalize hr : GenV40.validate value _ = r
  simp (config := {decide := true}) only [O40.set, GenV40.Set, Go.strEq, cond_true, cond_false, decide_true,
    decide_false, flet_eq]
  erw [hr]
  unfold arm
  cases (!(r.2.beq Go.errNil)) <;> rfl
theorem SA26 (c : O40) (value : List Nat) :
    c.set (abv 26) value = arm (GenV40.validate value (gvals 26)) c (upd 26 c) := by
  generalize hr : GenV40.validate value _ = r
  simp (config := {decide := true}) only [O40.set, GenV40.Set, Go.strEq, cond_true, cond_false, decide_true,
    decide_false, flet_eq]
  erw [hr]
  unfold arm
  cases (!(r.2.beq Go.errNil)) <;> rfl
theorem SA27 (c : O40) (value : List Nat) :
    c.set (abv 27) value = arm (GenV40.validate value (gvals 27)) c (upd 27 c) := by
  generalize hr : GenV40.validate value _ = r
  simp (config := {decide := true}) only [O40.set, GenV40.Set, Go.strEq, cond_true, cond_false, decide_true,
    decide_false, flet_eq]
  erw [hr]
  unfold arm
  cases (!(r.2.beq Go.errNil)) <;> rfl
theorem SA28 (c : O40) (value : List Nat) :
    c.set (abv 28) value = arm (GenV40.validate value (gvals 28)) c (upd 28 c) := by
  generalize hr : GenV40.validate value _ = r
  simp (config := {decide := true}) only [O40.set, GenV40.Set, Go.strEq, cond_true, cond_false, decide_true,
    decide_false, flet_eq]
  erw [hr]
  unfold arm
  cases (!(r.2.beq Go.errNil)) <;> rfl
theorem SA29 (c : O40) (value : List Nat) :
    c.set (abv 29) value = arm (GenV40.validate value (gvals 29)) c (upd 29 c) := by
  generalize hr : GenV40.validate value _ = r
  simp (config := {decide := true}) only [O40.set, GenV40.Set, Go.strEq, cond_true, cond_false, decide_true,
    decide_false, flet_eq]
  erw [hr]
  unfold arm
  cases (!(r.2.beq Go.errNil)) <;> rfl
theorem SA30 (c : O40) (value : List Nat) :
    c.set (abv 30) value = arm (GenV40.validate value (gvals 30)) c (upd 30 c) := by
  generalize hr : GenV40.validate value _ = r
  simp (config := {decide := true}) only [O40.set, GenV40.Set, Go.strEq, cond_true, cond_false, decide_true,
    decide_false, flet_eq]
  erw [hr]
  unfold arm
  cases (!(r.2.beq Go.errNil)) <;> rfl
theorem SA31 (c : O40) (value : List Nat) :
    c.set (abv 31) value = arm (GenV40.validate value (gvals 31)) c (upd 31 c) := by
  generalize hr : GenV40.validate value _ = r
  simp (config := {decide := true}) only [O40.set, GenV40.Set, Go.strEq, cond_true, cond_false, decide_true,
    decide_false, flet_eq]
  erw [hr]
  unfold arm
  cases (!(r.2.beq Go.errNil)) <;> rfl

theorem set_idx (c : O40) (value : List Nat) : ∀ k, k < 32 →
    c.set (abv k) value = arm (GenV40.validate value (gvals k)) c (upd k c) :=
  all32 (SA0 c value) (SA1 c value) (SA2 c value) (SA3 c value) (SA4 c value) (SA5 c value) (SA6 c value) (SA7 c value) (SA8 c value) (SA9 c value) (SA10 c value) (SA11 c value) (SA12 c value) (SA13 c value) (SA14 c value) (SA15 c value) (SA16 c value) (SA17 c value) (SA18 c value) (SA19 c value) (SA20 c value) (SA21 c value) (SA22 c value) (SA23 c value) (SA24 c value) (SA25 c value) (SA26 c value) (SA27 c value) (SA28 c value) (SA29 c value) (SA30 c value) (SA31 c value)

/-! ## the default arms -/

theorem set_unknown (c : O40) (a v : List Nat) (h : isMetric Spec.V4.metrics a = false) :
    c.set a v = (c, Model.eInvalidMetric a) := by
  simp (config := {decide := true}) only [O40.set, GenV40.Set, strEq_unk h, cond_false]
  rfl

theorem get_unknown (c : O40) (a : List Nat) (h : isMetric Spec.V4.metrics a = false) :
    c.get a = ([], Model.eInvalidMetric a) := by
  simp (config := {decide := true}) only [O40.get, GenV40.Get, GenV40.Get_core, strEq_unk h, cond_false]
  rfl

end Proofs.B40
