import Cvss.Proofs.Mono4BridgeDef
/-! GENERATED: bridge check (`scoreP` = Spec `scoreOf`, and ≥ 1), chunk 3, 8776 points -/
namespace Proofs.Mono4
set_option maxHeartbeats 2000000 in
theorem bridge_000000 : bridgeOkMV 0 0 0 0 0 0 = true := by decide +kernel
set_option maxHeartbeats 2000000 in
theorem bridge_000101 : bridgeOkMV 0 0 0 1 0 1 = true := by decide +kernel
set_option maxHeartbeats 2000000 in
theorem bridge_000200 : bridgeOkMV 0 0 0 2 0 0 = true := by decide +kernel
set_option maxHeartbeats 2000000 in
theorem bridge_001011 : bridgeOkMV 0 0 1 0 1 1 = true := by decide +kernel
set_option maxHeartbeats 2000000 in
theorem bridge_001100 : bridgeOkMV 0 0 1 1 0 0 = true := by decide +kernel
set_option maxHeartbeats 2000000 in
theorem bridge_001200 : bridgeOkMV 0 0 1 2 0 0 = true := by decide +kernel
set_option maxHeartbeats 2000000 in
theorem bridge_002001 : bridgeOkMV 0 0 2 0 0 1 = true := by decide +kernel
set_option maxHeartbeats 2000000 in
theorem bridge_002201 : bridgeOkMV 0 0 2 2 0 1 = true := by decide +kernel
set_option maxHeartbeats 2000000 in
theorem bridge_010000 : bridgeOkMV 0 1 0 0 0 0 = true := by decide +kernel
set_option maxHeartbeats 2000000 in
theorem bridge_010100 : bridgeOkMV 0 1 0 1 0 0 = true := by decide +kernel
set_option maxHeartbeats 2000000 in
theorem bridge_010200 : bridgeOkMV 0 1 0 2 0 0 = true := by decide +kernel
set_option maxHeartbeats 2000000 in
theorem bridge_011011 : bridgeOkMV 0 1 1 0 1 1 = true := by decide +kernel
set_option maxHeartbeats 2000000 in
theorem bridge_011200 : bridgeOkMV 0 1 1 2 0 0 = true := by decide +kernel
set_option maxHeartbeats 2000000 in
theorem bridge_012101 : bridgeOkMV 0 1 2 1 0 1 = true := by decide +kernel
set_option maxHeartbeats 2000000 in
theorem bridge_012201 : bridgeOkMV 0 1 2 2 0 1 = true := by decide +kernel
set_option maxHeartbeats 2000000 in
theorem bridge_100101 : bridgeOkMV 1 0 0 1 0 1 = true := by decide +kernel
set_option maxHeartbeats 2000000 in
theorem bridge_100200 : bridgeOkMV 1 0 0 2 0 0 = true := by decide +kernel
set_option maxHeartbeats 2000000 in
theorem bridge_101000 : bridgeOkMV 1 0 1 0 0 0 = true := by decide +kernel
set_option maxHeartbeats 2000000 in
theorem bridge_101011 : bridgeOkMV 1 0 1 0 1 1 = true := by decide +kernel
set_option maxHeartbeats 2000000 in
theorem bridge_101100 : bridgeOkMV 1 0 1 1 0 0 = true := by decide +kernel
set_option maxHeartbeats 2000000 in
theorem bridge_101111 : bridgeOkMV 1 0 1 1 1 1 = true := by decide +kernel
set_option maxHeartbeats 2000000 in
theorem bridge_101211 : bridgeOkMV 1 0 1 2 1 1 = true := by decide +kernel
set_option maxHeartbeats 2000000 in
theorem bridge_110000 : bridgeOkMV 1 1 0 0 0 0 = true := by decide +kernel
set_option maxHeartbeats 2000000 in
theorem bridge_110001 : bridgeOkMV 1 1 0 0 0 1 = true := by decide +kernel
set_option maxHeartbeats 2000000 in
theorem bridge_110101 : bridgeOkMV 1 1 0 1 0 1 = true := by decide +kernel
set_option maxHeartbeats 2000000 in
theorem bridge_110200 : bridgeOkMV 1 1 0 2 0 0 = true := by decide +kernel
set_option maxHeartbeats 2000000 in
theorem bridge_111000 : bridgeOkMV 1 1 1 0 0 0 = true := by decide +kernel
set_option maxHeartbeats 2000000 in
theorem bridge_111111 : bridgeOkMV 1 1 1 1 1 1 = true := by decide +kernel
set_option maxHeartbeats 2000000 in
theorem bridge_112001 : bridgeOkMV 1 1 2 0 0 1 = true := by decide +kernel
set_option maxHeartbeats 2000000 in
theorem bridge_112101 : bridgeOkMV 1 1 2 1 0 1 = true := by decide +kernel
set_option maxHeartbeats 2000000 in
theorem bridge_200000 : bridgeOkMV 2 0 0 0 0 0 = true := by decide +kernel
set_option maxHeartbeats 2000000 in
theorem bridge_200001 : bridgeOkMV 2 0 0 0 0 1 = true := by decide +kernel
set_option maxHeartbeats 2000000 in
theorem bridge_200101 : bridgeOkMV 2 0 0 1 0 1 = true := by decide +kernel
set_option maxHeartbeats 2000000 in
theorem bridge_200200 : bridgeOkMV 2 0 0 2 0 0 = true := by decide +kernel
set_option maxHeartbeats 2000000 in
theorem bridge_201011 : bridgeOkMV 2 0 1 0 1 1 = true := by decide +kernel
set_option maxHeartbeats 2000000 in
theorem bridge_201111 : bridgeOkMV 2 0 1 1 1 1 = true := by decide +kernel
set_option maxHeartbeats 2000000 in
theorem bridge_201200 : bridgeOkMV 2 0 1 2 0 0 = true := by decide +kernel
set_option maxHeartbeats 2000000 in
theorem bridge_202001 : bridgeOkMV 2 0 2 0 0 1 = true := by decide +kernel
set_option maxHeartbeats 2000000 in
theorem bridge_202101 : bridgeOkMV 2 0 2 1 0 1 = true := by decide +kernel
set_option maxHeartbeats 2000000 in
theorem bridge_210001 : bridgeOkMV 2 1 0 0 0 1 = true := by decide +kernel
set_option maxHeartbeats 2000000 in
theorem bridge_210200 : bridgeOkMV 2 1 0 2 0 0 = true := by decide +kernel
set_option maxHeartbeats 2000000 in
theorem bridge_211011 : bridgeOkMV 2 1 1 0 1 1 = true := by decide +kernel
set_option maxHeartbeats 2000000 in
theorem bridge_211111 : bridgeOkMV 2 1 1 1 1 1 = true := by decide +kernel
set_option maxHeartbeats 2000000 in
theorem bridge_211200 : bridgeOkMV 2 1 1 2 0 0 = true := by decide +kernel
set_option maxHeartbeats 2000000 in
theorem bridge_212101 : bridgeOkMV 2 1 2 1 0 1 = true := by decide +kernel
end Proofs.Mono4
