import Cvss.Proofs.Score3MonoDefs
/-! C12 (v3.1), Spec enumeration, family B (steps in MS, MAV, MAC), CR index 1: 3 chunks of 7,776 exact evaluations -/
namespace Proofs.Score3.Mono
set_option maxRecDepth 20000 in
set_option maxHeartbeats 4000000 in
theorem monoB_1_0 : monoB true 1 0 = true := by decide +kernel
set_option maxRecDepth 20000 in
set_option maxHeartbeats 4000000 in
theorem monoB_1_1 : monoB true 1 1 = true := by decide +kernel
set_option maxRecDepth 20000 in
set_option maxHeartbeats 4000000 in
theorem monoB_1_2 : monoB true 1 2 = true := by decide +kernel
end Proofs.Score3.Mono
