import Cvss.Spec.V3
/-!
# C03, Spec sanity (no code involved): `Roundup` is the least number of tenths above its argument

`Spec.V3.Roundup x = t` is specified as "the smallest number with one decimal place that is ≥ x", i.e. `t/10`
with `t` the least integer such that `x ≤ t/10`. These lemmas check the closed formula used in `Spec/V3.lean`
against that wording, with the Spec's own order `≤` on exact decimals.
-/
namespace Proofs.Score3
open Spec.V3

theorem pow10_pos (k : Nat) : (0 : Int) < ((10 ^ k : Nat) : Int) :=
  Int.natCast_pos.mpr (Nat.pow_pos (by decide))

/-- `x ≤ t/10 ↔ 10·num ≤ t·10^exp` -/
theorem le_tenths_iff (x : Dec) (t : Int) : x ≤ tenths t ↔ x.num * 10 ≤ t * ((10 ^ x.exp : Nat) : Int) := by
  obtain ⟨n, k⟩ := x
  show n * ((10 ^ (max k 1 - k) : Nat) : Int) ≤ t * ((10 ^ (max k 1 - 1) : Nat) : Int) ↔ n * 10 ≤ t * ((10 ^ k : Nat) : Int)
  cases k with
  | zero => simp
  | succ k =>
    have e1 : max (k + 1) 1 - (k + 1) = 0 := by omega
    have e2 : max (k + 1) 1 - 1 = k := by omega
    rw [e1, e2, Nat.pow_succ, Int.natCast_mul, ← Int.mul_assoc]
    generalize t * ((10 ^ k : Nat) : Int) = y
    simp only [Nat.pow_zero, Int.natCast_one, Int.mul_one]
    omega

/-- `Roundup x` is a tenth that is `≥ x` … -/
theorem Roundup_ge (x : Dec) : x ≤ tenths (Roundup x) := by
  rw [le_tenths_iff]
  have hp := pow10_pos x.exp
  have h := Int.ediv_mul_le (-(x.num * 10)) (Int.ne_of_gt hp)
  unfold Roundup
  rw [Int.neg_mul]
  omega

/-- … and it is the least one -/
theorem Roundup_le (x : Dec) (t : Int) (h : x ≤ tenths t) : Roundup x ≤ t := by
  rw [le_tenths_iff] at h
  have hp := pow10_pos x.exp
  have h2 : (-t) * ((10 ^ x.exp : Nat) : Int) ≤ -(x.num * 10) := by rw [Int.neg_mul]; omega
  have := Int.le_ediv_of_mul_le hp h2
  unfold Roundup
  omega

end Proofs.Score3
