import Cvss.Proofs.VecCommon
/-!
# v2.0: the generated `Vector()` writes the Spec canonical form, and `lenVec()` is its length

* `vector_eq` (A): for **every** object `c` (no well-formedness needed)
  `c.vector = Spec.V2.canonical (metrics.map fun m => (m.abv, (c.get m.abv).1))`: base group, then the whole
  temporal group iff one of `E/RL/RC` is not `ND`, then the whole environmental group likewise.
* `length_formula` (B, strongest form, every object): `c.vector.length + 6 = c.lenVec + Σ_{m ∈ base} |value of m|`
  — `lenVec` measures the optional groups with `len(value)` under the very same group conditions as `Vector`, and
  assumes one-letter values for the six base metrics (the constant 26).
* `length_eq` (C17): if the six base metrics read as legal values then `c.vector.length = c.lenVec`.
* `length_formula_bytes`, `length_eq_iff`, `length_le`: for every byte state `len + #{illegal base metrics} = lenVec`;
  so equality holds iff the base metrics are legal, and the pre-sized buffer is never outgrown.
* `length_ne_example`: a non-well-formed byte state (`C` code 3 reads as `""`) where `lenVec` over-allocates.
-/
namespace Proofs.Vec20
open Spec Proofs.Vec
open Model (O20)

theorem app_eq (b pre v : Spec.Bytes) : GenV20.app b pre v = b ++ (pre ++ v) := by
  simp [GenV20.app]

/-- `if cond { app…; app… }` in closed form -/
theorem cond_append3 (c : Bool) (b x y z : Spec.Bytes) :
    cond c (((b ++ x) ++ y) ++ z) b = b ++ cond c (x ++ (y ++ z)) [] := by
  cases c <;> simp

theorem cond_append5 (c : Bool) (b x y z v w : Spec.Bytes) :
    cond c (((((b ++ x) ++ y) ++ z) ++ v) ++ w) b = b ++ cond c (x ++ (y ++ (z ++ (v ++ w)))) [] := by
  cases c <;> simp

/-! ## (A) shape -/

set_option maxHeartbeats 1000000 in
theorem core_shape (r0 r1 r2 r3 r4 r5 r6 r7 r8 r9 r10 r11 r12 r13 : Nat) :
    SLASH :: GenV20.Vector_core r0 r1 r2 r3 r4 r5 r6 r7 r8 r9 r10 r11 r12 r13
    = gpiece V2.base (GenV20.get_core r0 r1 r2 r3 r4 r5 r6 r7 r8 r9 r10 r11 r12 r13)
      ++ gpiece V2.temporal (GenV20.get_core r0 r1 r2 r3 r4 r5 r6 r7 r8 r9 r10 r11 r12 r13)
      ++ gpiece V2.environmental (GenV20.get_core r0 r1 r2 r3 r4 r5 r6 r7 r8 r9 r10 r11 r12 r13) := by
  simp only [GenV20.Vector_core, flet_eq, app_eq, cond_append3, cond_append5]
  generalize GenV20.get_core r0 r1 r2 r3 r4 r5 r6 r7 r8 r9 r10 r11 r12 r13 = G
  simp [gpiece, render, V2.base, V2.temporal, V2.environmental, mand, optND, Spec.b, SLASH, COLON, Go.strEq,
    Bool.cond_eq_ite, or_assoc]

/-- on a metric abbreviation the public `Get` never fails (whatever the bytes) … -/
theorem err_nil (r0 r1 r2 r3 r4 r5 r6 r7 r8 r9 r10 r11 r12 r13 : Nat) :
    ∀ m ∈ V2.metrics, (GenV20.Get_core r0 r1 r2 r3 r4 r5 r6 r7 r8 r9 r10 r11 r12 r13 m.abv).2 = Go.errNil := by
  intro m hm
  simp only [V2.metrics, V2.base, V2.temporal, V2.environmental, List.cons_append, List.nil_append,
    List.mem_cons, List.not_mem_nil, or_false] at hm
  rcases hm with rfl|rfl|rfl|rfl|rfl|rfl|rfl|rfl|rfl|rfl|rfl|rfl|rfl|rfl <;>
    simp [GenV20.Get_core, Go.strEq, flet_eq, Bool.apply_cond Prod.snd, Spec.b, mand, optND]

/-- … so the private `get` of `Vector()`/`lenVec()` (which would panic on an error) is its first component -/
theorem get_fst (c : O20) : ∀ m ∈ V2.metrics, GenV20.get c.u0 c.u1 c.u2 c.u3 m.abv = (c.get m.abv).1 := by
  intro m hm
  have h := err_nil (Nat.shiftRight (Nat.land c.u0 192) 6) (Nat.shiftRight (Nat.land c.u0 48) 4)
    (Nat.shiftRight (Nat.land c.u0 12) 2) (Nat.land c.u0 3) (Nat.shiftRight (Nat.land c.u1 192) 6)
    (Nat.shiftRight (Nat.land c.u1 48) 4) (Nat.shiftRight (Nat.land c.u1 14) 1)
    (Nat.lor (Nat.mod (Nat.shiftLeft (Nat.land c.u1 1) 2) 256) (Nat.shiftRight (Nat.land c.u2 192) 6))
    (Nat.shiftRight (Nat.land c.u2 48) 4) (Nat.shiftRight (Nat.land c.u2 14) 1)
    (Nat.lor (Nat.mod (Nat.shiftLeft (Nat.land c.u2 1) 2) 256) (Nat.shiftRight (Nat.land c.u3 192) 6))
    (Nat.shiftRight (Nat.land c.u3 48) 4) (Nat.shiftRight (Nat.land c.u3 12) 2) (Nat.land c.u3 3) m hm
  unfold O20.get GenV20.Get GenV20.get GenV20.get_core
  revert h
  generalize GenV20.Get_core _ _ _ _ _ _ _ _ _ _ _ _ _ _ m.abv = p
  intro h
  obtain ⟨s, e⟩ := p
  simp only at h
  subst h
  rfl

theorem vector_shape (c : O20) :
    SLASH :: c.vector = gpiece V2.base (fun a => (c.get a).1) ++ gpiece V2.temporal (fun a => (c.get a).1)
      ++ gpiece V2.environmental (fun a => (c.get a).1) := by
  rw [← gpiece_congr V2.base _ _ fun m hm => get_fst c m (by simp [V2.metrics, hm]),
    ← gpiece_congr V2.temporal _ _ fun m hm => get_fst c m (by simp [V2.metrics, hm]),
    ← gpiece_congr V2.environmental _ _ fun m hm => get_fst c m (by simp [V2.metrics, hm])]
  unfold O20.vector GenV20.Vector GenV20.get
  rw [core_shape]

/-- **(A)** `Vector()` spells the canonical form of the object's own values — for every object. -/
theorem vector_eq (c : O20) :
    c.vector = V2.canonical (V2.metrics.map fun m => (m.abv, (c.get m.abv).1)) := by
  have h := (vector_shape c).trans (V2_canonical_eq _).symm
  exact List.tail_eq_of_cons_eq h

/-! ## (B) length -/

set_option maxHeartbeats 1000000 in
/-- `Vector_core` against `lenVec_core`, straight from the generated code: the two group conditions are
    literally the same expressions in both, and the group increments `11 + …`/`21 + …` are the prefix lengths. -/
theorem core_len (r0 r1 r2 r3 r4 r5 r6 r7 r8 r9 r10 r11 r12 r13 : Nat) :
    (GenV20.Vector_core r0 r1 r2 r3 r4 r5 r6 r7 r8 r9 r10 r11 r12 r13).length + 6
    = GenV20.lenVec_core r0 r1 r2 r3 r4 r5 r6 r7 r8 r9 r10 r11 r12 r13
      + (V2.base.map fun m => (GenV20.get_core r0 r1 r2 r3 r4 r5 r6 r7 r8 r9 r10 r11 r12 r13 m.abv).length).sum := by
  simp only [GenV20.Vector_core, GenV20.lenVec_core, flet_eq, app_eq, cond_append3, cond_append5, cond_add]
  generalize GenV20.get_core r0 r1 r2 r3 r4 r5 r6 r7 r8 r9 r10 r11 r12 r13 = G
  simp only [V2.base, mand, List.map, List.sum_cons, List.sum_nil, List.length_append, List.length_cons,
    List.length_nil, List.nil_append, Bool.cond_eq_ite, Nat.add_eq]
  have e1 : Spec.b "AV" = [65, 86] := by decide
  have e2 : Spec.b "AC" = [65, 67] := by decide
  have e3 : Spec.b "Au" = [65, 117] := by decide
  have e4 : Spec.b "C" = [67] := by decide
  have e5 : Spec.b "I" = [73] := by decide
  have e6 : Spec.b "A" = [65] := by decide
  rw [e1, e2, e3, e4, e5, e6]
  split <;> split <;> simp only [List.length_append, List.length_cons, List.length_nil] <;> omega

/-- **(B), every object**: the exact relation between `len(Vector())` and `lenVec()` -/
theorem length_formula (c : O20) :
    c.vector.length + 6 = c.lenVec + (V2.base.map fun m => ((c.get m.abv).1).length).sum := by
  have hs : (V2.base.map fun m => ((c.get m.abv).1).length).sum
      = (V2.base.map fun m => (GenV20.get c.u0 c.u1 c.u2 c.u3 m.abv).length).sum :=
    sum_map_congr _ _ _ fun m hm => by rw [get_fst c m (by simp [V2.metrics, hm])]
  rw [hs]
  unfold O20.vector O20.lenVec GenV20.Vector GenV20.lenVec GenV20.get
  exact core_len ..

/-- a base metric holding a legal value holds one letter -/
theorem base_len : ∀ m ∈ V2.base, ∀ v ∈ m.values, v.length = 1 := by decide +kernel

/-- **C17** for every object whose six base metrics read as legal values -/
theorem length_eq (c : O20) (hv : ∀ m ∈ V2.base, (c.get m.abv).1 ∈ m.values) : c.vector.length = c.lenVec := by
  have h := length_formula c
  have hs : (V2.base.map fun m => ((c.get m.abv).1).length).sum = (V2.base.map fun _ => 1).sum :=
    sum_map_congr _ _ _ fun m hm => base_len m hm _ (hv m hm)
  have h6 : (V2.base.map fun _ => 1).sum = 6 := by decide
  omega

/-! ### every byte state -/

abbrev M (a : String) : Metric := met V2.metrics a

/-- the value `Get(a)` returns on the object whose byte `k` is `u` and whose other bytes are zero -/
def byteVal (k u : Nat) (a : Spec.Bytes) : Spec.Bytes :=
  (GenV20.Get (sel 0 k u) (sel 1 k u) (sel 2 k u) (sel 3 k u) a).1

/-- a base metric reads as one letter, or as `""` when its code is illegal -/
abbrev SlotB (a : String) (k : Nat) : Prop :=
  ∀ u, u < 256 → (byteVal k u (b a)).length + bad (M a) (byteVal k u (b a)) = 1

theorem slot_AV : SlotB "AV" 0 := by decide +kernel
theorem slot_AC : SlotB "AC" 0 := by decide +kernel
theorem slot_Au : SlotB "Au" 0 := by decide +kernel
theorem slot_C  : SlotB "C"  0 := by decide +kernel
theorem slot_I  : SlotB "I"  1 := by decide +kernel
theorem slot_A  : SlotB "A"  1 := by decide +kernel

theorem base_list : V2.base = ["AV", "AC", "Au", "C", "I", "A"].map M := by rfl

theorem slot_apply (c : O20) (m : Metric) (v' : Spec.Bytes) (hs : v'.length + bad m v' = 1)
    (hget : (c.get m.abv).1 = v') : ((c.get m.abv).1).length + bad m (c.get m.abv).1 = 1 := by
  rw [hget]; exact hs

/-- **(B)** for every byte state: `len(Vector())` + number of base metrics reading as an illegal value = `lenVec()` -/
theorem length_formula_bytes (c : O20) (hb : c.IsBytes) :
    c.vector.length + (V2.base.map fun m => bad m (c.get m.abv).1).sum = c.lenVec := by
  obtain ⟨h0, h1, _, _⟩ := hb
  have h := length_formula c
  have hAV := slot_apply c (M "AV") _ (slot_AV c.u0 h0) rfl
  have hAC := slot_apply c (M "AC") _ (slot_AC c.u0 h0) rfl
  have hAu := slot_apply c (M "Au") _ (slot_Au c.u0 h0) rfl
  have hC  := slot_apply c (M "C")  _ (slot_C c.u0 h0) rfl
  have hI  := slot_apply c (M "I")  _ (slot_I c.u1 h1) rfl
  have hA  := slot_apply c (M "A")  _ (slot_A c.u1 h1) rfl
  rw [base_list] at h ⊢
  simp only [List.map, List.sum_cons, List.sum_nil] at h ⊢
  omega

/-- for byte states, C17 holds **exactly** when the six base metrics read as legal values -/
theorem length_eq_iff (c : O20) (hb : c.IsBytes) :
    c.vector.length = c.lenVec ↔ ∀ m ∈ V2.base, (c.get m.abv).1 ∈ m.values := by
  have h := length_formula_bytes c hb
  rw [← bad_sum_eq_zero_iff V2.base fun a => (c.get a).1]
  omega

/-- whatever the bytes, `Vector()` never outgrows the buffer pre-sized with `lenVec()` -/
theorem length_le (c : O20) (hb : c.IsBytes) : c.vector.length ≤ c.lenVec := by
  have h := length_formula_bytes c hb
  omega

theorem wf_legal (c : O20) (h : c.wf = true) : ∀ m ∈ V2.metrics, (c.get m.abv).1 ∈ m.values := by
  simp only [O20.wf, Bool.and_eq_true] at h
  exact legalGets_mem _ _ h.2

/-- **C17** for well-formed objects -/
theorem length_eq_wf (c : O20) (h : c.wf = true) : c.vector.length = c.lenVec :=
  length_eq c fun m hm => wf_legal c h m (by simp [V2.metrics, hm])

/-- the hypotheses are satisfiable by a non-trivial object -/
example : (⟨101, 32, 134, 3⟩ : O20).wf = true := by decide +kernel
example : (⟨101, 32, 134, 3⟩ : O20).vector
    = b "AV:A/AC:H/Au:S/C:P/I:N/A:C/E:ND/RL:TF/RC:ND/CDP:LM/TD:ND/CR:ND/IR:ND/AR:H" := by decide +kernel

/-- On non-well-formed byte states the equality fails: `C` code 3 reads as `""`; `Vector` writes 25 bytes,
    `lenVec` reserved 26 (over-allocation; by `length_formula` the buffer is never outgrown as long as no base
    value is longer than one letter). -/
theorem length_ne_example :
    (⟨3, 0, 0, 0⟩ : O20).vector.length = 25 ∧ (⟨3, 0, 0, 0⟩ : O20).lenVec = 26 := by decide +kernel

end Proofs.Vec20
