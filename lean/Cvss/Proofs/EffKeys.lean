import Cvss.Spec.Effective
import Cvss.Proofs.BitsCommon
/-!
# C10, Spec level: how the score keys of `Spec/Effective.lean` react to changing ONE metric

Nothing here looks at the generated code: `f : Bytes → Bytes` is any assignment of value strings to metric
abbreviations and `upd f a v` the assignment after `Set(a, v)`.  Combined with `Eff30/31/40` (equal key ⇒ equal
score) and the Get/Set contract (`val (c.set a v).1 = upd (val c) a v`) these give the corollaries of
`Props/C10.lean`.
-/
namespace EffKeys
open Spec

/-- `f` with the value of `a` replaced by `v` -/
def upd (f : Bytes → Bytes) (a v : Bytes) : Bytes → Bytes := fun x => if x = a then v else f x

/-- close `key (upd f a v) = key f` for concrete abbreviations -/
macro "key_simp" hx:ident : tactic => `(tactic|
  simp (disch := decide) only [Spec.V3.envKey, Spec.V3.baseKey, Spec.V3.baseKey.abvs', Spec.V3.temporalKey, Spec.V3.base,
    Spec.V4.scoreKey, Spec.mand, List.map_cons, List.map_nil, List.cons_append, List.nil_append,
    Spec.eff, Spec.dflt, upd, if_neg, if_pos, $hx:ident, ite_self, if_true, if_false])

namespace V3
/-- (base metric, its Modified metric) -/
def pairs : List (Bytes × Bytes) :=
  [(b "AV", b "MAV"), (b "AC", b "MAC"), (b "PR", b "MPR"), (b "UI", b "MUI"), (b "S", b "MS"), (b "C", b "MC"),
   (b "I", b "MI"), (b "A", b "MA")]
/-- (temporal metric, what its `X` scores as) -/
def tempDefaults : List (Bytes × Bytes) := [(b "E", b "H"), (b "RL", b "U"), (b "RC", b "C")]
/-- (requirement metric, what its `X` scores as) -/
def reqDefaults : List (Bytes × Bytes) := [(b "CR", b "M"), (b "IR", b "M"), (b "AR", b "M")]
def tempNames : List Bytes := Spec.V3.temporal.map (·.abv)
def envNames : List Bytes := Spec.V3.environmental.map (·.abv)

/-- a Modified metric that is `X` may be replaced by an explicit copy of the base value -/
theorem env_fill (f : Bytes → Bytes) (p : Bytes × Bytes) (hp : p ∈ pairs) (hx : f p.2 = b "X") :
    Spec.V3.envKey (upd f p.2 (f p.1)) = Spec.V3.envKey f := by
  simp only [pairs, List.mem_cons, List.not_mem_nil, or_false] at hp
  rcases hp with rfl | rfl | rfl | rfl | rfl | rfl | rfl | rfl <;> dsimp only at hx ⊢ <;> key_simp hx

/-- a base metric whose Modified metric is defined may be changed at will -/
theorem env_overridden (f : Bytes → Bytes) (p : Bytes × Bytes) (hp : p ∈ pairs) (hx : f p.2 ≠ b "X") (v : Bytes) :
    Spec.V3.envKey (upd f p.1 v) = Spec.V3.envKey f := by
  simp only [pairs, List.mem_cons, List.not_mem_nil, or_false] at hp
  rcases hp with rfl | rfl | rfl | rfl | rfl | rfl | rfl | rfl <;> dsimp only at hx ⊢ <;> key_simp hx

/-- an undefined E/RL/RC/CR/IR/AR may be replaced by its default -/
theorem env_default (f : Bytes → Bytes) (p : Bytes × Bytes) (hp : p ∈ tempDefaults ++ reqDefaults)
    (hx : f p.1 = b "X") : Spec.V3.envKey (upd f p.1 p.2) = Spec.V3.envKey f := by
  simp only [tempDefaults, reqDefaults, List.cons_append, List.nil_append, List.mem_cons, List.not_mem_nil, or_false] at hp
  rcases hp with rfl | rfl | rfl | rfl | rfl | rfl <;> dsimp only at hx ⊢ <;> key_simp hx

theorem temporal_default (f : Bytes → Bytes) (p : Bytes × Bytes) (hp : p ∈ tempDefaults)
    (hx : f p.1 = b "X") : Spec.V3.temporalKey (upd f p.1 p.2) = Spec.V3.temporalKey f := by
  simp only [tempDefaults, List.mem_cons, List.not_mem_nil, or_false] at hp
  rcases hp with rfl | rfl | rfl <;> dsimp only at hx ⊢ <;> key_simp hx

/-- the Base key contains no temporal and no environmental metric -/
theorem base_ignores (f : Bytes → Bytes) (a : Bytes) (ha : a ∈ tempNames ++ envNames) (v : Bytes) :
    Spec.V3.baseKey (upd f a v) = Spec.V3.baseKey f := by
  have ha' : a ∈ [b "E", b "RL", b "RC", b "CR", b "IR", b "AR", b "MAV", b "MAC", b "MPR", b "MUI", b "MS",
      b "MC", b "MI", b "MA"] := ha
  simp only [List.mem_cons, List.not_mem_nil, or_false] at ha'
  have hx := trivial
  rcases ha' with rfl | rfl | rfl | rfl | rfl | rfl | rfl | rfl | rfl | rfl | rfl | rfl | rfl | rfl <;> key_simp hx

/-- the Temporal key contains no environmental metric -/
theorem temporal_ignores (f : Bytes → Bytes) (a : Bytes) (ha : a ∈ envNames) (v : Bytes) :
    Spec.V3.temporalKey (upd f a v) = Spec.V3.temporalKey f := by
  have ha' : a ∈ [b "CR", b "IR", b "AR", b "MAV", b "MAC", b "MPR", b "MUI", b "MS", b "MC", b "MI", b "MA"] := ha
  simp only [List.mem_cons, List.not_mem_nil, or_false] at ha'
  have hx := trivial
  rcases ha' with rfl | rfl | rfl | rfl | rfl | rfl | rfl | rfl | rfl | rfl | rfl <;> key_simp hx
end V3

namespace V4
def pairs : List (Bytes × Bytes) :=
  [(b "AV", b "MAV"), (b "AC", b "MAC"), (b "AT", b "MAT"), (b "PR", b "MPR"), (b "UI", b "MUI"), (b "VC", b "MVC"),
   (b "VI", b "MVI"), (b "VA", b "MVA"), (b "SC", b "MSC"), (b "SI", b "MSI"), (b "SA", b "MSA")]
/-- (threat / requirement metric, what its `X` scores as) -/
def defaults : List (Bytes × Bytes) := [(b "E", b "A"), (b "CR", b "H"), (b "IR", b "H"), (b "AR", b "H")]
def suppNames : List Bytes := Spec.V4.supplemental.map (·.abv)

theorem score_fill (f : Bytes → Bytes) (p : Bytes × Bytes) (hp : p ∈ pairs) (hx : f p.2 = b "X") :
    Spec.V4.scoreKey (upd f p.2 (f p.1)) = Spec.V4.scoreKey f := by
  simp only [pairs, List.mem_cons, List.not_mem_nil, or_false] at hp
  rcases hp with rfl | rfl | rfl | rfl | rfl | rfl | rfl | rfl | rfl | rfl | rfl <;> dsimp only at hx ⊢ <;> key_simp hx

theorem score_overridden (f : Bytes → Bytes) (p : Bytes × Bytes) (hp : p ∈ pairs) (hx : f p.2 ≠ b "X") (v : Bytes) :
    Spec.V4.scoreKey (upd f p.1 v) = Spec.V4.scoreKey f := by
  simp only [pairs, List.mem_cons, List.not_mem_nil, or_false] at hp
  rcases hp with rfl | rfl | rfl | rfl | rfl | rfl | rfl | rfl | rfl | rfl | rfl <;> dsimp only at hx ⊢ <;> key_simp hx

theorem score_default (f : Bytes → Bytes) (p : Bytes × Bytes) (hp : p ∈ defaults) (hx : f p.1 = b "X") :
    Spec.V4.scoreKey (upd f p.1 p.2) = Spec.V4.scoreKey f := by
  simp only [defaults, List.mem_cons, List.not_mem_nil, or_false] at hp
  rcases hp with rfl | rfl | rfl | rfl <;> dsimp only at hx ⊢ <;> key_simp hx

/-- the key contains no supplemental metric -/
theorem score_ignores (f : Bytes → Bytes) (a : Bytes) (ha : a ∈ suppNames) (v : Bytes) :
    Spec.V4.scoreKey (upd f a v) = Spec.V4.scoreKey f := by
  have ha' : a ∈ [b "S", b "AU", b "R", b "V", b "RE", b "U"] := ha
  simp only [List.mem_cons, List.not_mem_nil, or_false] at ha'
  have hx := trivial
  rcases ha' with rfl | rfl | rfl | rfl | rfl | rfl <;> key_simp hx
end V4

/-! ## `Set` on an object, through the Get/Set contract -/
section Contract
open Proofs (Contract)
open Bits
variable {O : Type} {ms : List Metric} (K : Contract O ms)

/-- the value strings an object holds -/
def cval (c : O) : Bytes → Bytes := fun a => (K.get c a).1

/-- a successful `Set(a, v)` changes the value of `a` to `v` and nothing else -/
theorem cval_set (c : O) (a v : Bytes) (h : legal ms a v = true) :
    cval K (K.set c a v).1 = upd (cval K c) a v := by
  funext x
  by_cases hx : x = a
  · subst hx
    simp only [cval, upd, if_true, K.get_set_same c x v h]
  · simp only [cval, upd, if_neg hx, get_set_frame K c a v x h hx]

/-- if equal keys give equal scores, then a `Set` (successful or not) that keeps the key keeps the score -/
theorem score_set {α : Type} (score : O → α) (key : (Bytes → Bytes) → List Bytes)
    (hkey : ∀ c c', K.WF c → K.WF c' → key (cval K c) = key (cval K c') → score c = score c')
    (c : O) (h : K.WF c) (a v : Bytes)
    (hk : legal ms a v = true → key (upd (cval K c) a v) = key (cval K c)) :
    score (K.set c a v).1 = score c := by
  cases hl : legal ms a v with
  | false =>
    have : (K.set c a v).2 ≠ Go.errNil := fun e => by
      rw [(set_ok_iff K c a v).mp e] at hl; cases hl
    rw [set_fail_unchanged K c a v this]
  | true =>
    apply hkey _ _ (K.wf_set c a v h) h
    rw [cval_set K c a v hl]
    exact hk hl

/-- on a well-formed object every metric holds a legal value -/
theorem legal_get (T : TableOK ms) (c : O) (h : K.WF c) (a : Bytes) (ha : isMetric ms a = true) :
    legal ms a (cval K c a) = true := by
  obtain ⟨j, hj, rfl⟩ := isMetric_at ha
  rw [legal_at T hj]
  exact List.contains_iff_mem.mpr (K.wf_get c h _ (at_mem hj)).2

/-- every legal value of `a` is a legal value of `ma` -/
def subLegal (ms : List Metric) (a ma : Bytes) : Bool :=
  match findMetric ms a, findMetric ms ma with
  | some m, some mm => m.values.all (fun v => mm.values.contains v)
  | _, _ => false

theorem legal_sub {a ma v : Bytes} (h : subLegal ms a ma = true) (hv : legal ms a v = true) :
    legal ms ma v = true := by
  unfold subLegal at h
  unfold legal at hv ⊢
  cases h1 : findMetric ms a with
  | none => rw [h1] at hv; cases hv
  | some m =>
    cases h2 : findMetric ms ma with
    | none => rw [h1, h2] at h; cases h
    | some mm =>
      rw [h1] at hv
      rw [h1, h2] at h
      exact List.all_eq_true.mp h v (List.contains_iff_mem.mp hv)

end Contract

theorem V3.pairs_ok : ∀ p ∈ V3.pairs, isMetric Spec.V3.metrics p.1 = true ∧ subLegal Spec.V3.metrics p.1 p.2 = true := by
  decide
theorem V4.pairs_ok : ∀ p ∈ V4.pairs, isMetric Spec.V4.metrics p.1 = true ∧ subLegal Spec.V4.metrics p.1 p.2 = true := by
  decide
theorem V3.defaults_ok : ∀ p ∈ V3.tempDefaults ++ V3.reqDefaults, legal Spec.V3.metrics p.1 p.2 = true := by decide
theorem V4.defaults_ok : ∀ p ∈ V4.defaults, legal Spec.V4.metrics p.1 p.2 = true := by decide
theorem V4.tableOK : Bits.TableOK Spec.V4.metrics := ⟨by decide, by decide⟩

end EffKeys
