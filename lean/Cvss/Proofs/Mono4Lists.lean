import Cvss.Proofs.Mono4Bound
/-!
# v4.0 monotonicity: the summary lists and the transition lists

A *summary* of an EQ group is what the score depends on: `(level, severity distance)` for EQ1, EQ2, EQ4,
`(EQ3, EQ6, distance)` for EQ3+EQ6, the level for EQ5. `S1 … S5` list all summaries with the distance within the
depth of the level (10, 3, 39, 15, 3 entries; their product is the 52,650 points of the Spec's `scoreOf`).
`tr1 … tr5` list, as pairs of indices into `S1 …`, every pair (summary before, summary after) that a single-metric
step to an at least as severe value can produce (computed from the Spec by script; `Proofs/Mono4Cover.lean` proves
that the lists are complete). GENERATED lists.
-/
namespace Proofs.Mono4

def S1 : List (Nat × Nat) := [(0, 0), (1, 0), (1, 1), (1, 2), (1, 3), (2, 0), (2, 1), (2, 2), (2, 3), (2, 4)]
def S2 : List (Nat × Nat) := [(0, 0), (1, 0), (1, 1)]
def S36 : List (Nat × Nat × Nat) := [(0, 0, 0), (0, 0, 1), (0, 0, 2), (0, 0, 3), (0, 0, 4), (0, 0, 5), (0, 0, 6), (0, 1, 0), (0, 1, 1), (0, 1, 2), (0, 1, 3), (0, 1, 4), (0, 1, 5), (1, 0, 0), (1, 0, 1), (1, 0, 2), (1, 0, 3), (1, 0, 4), (1, 0, 5), (1, 0, 6), (1, 0, 7), (1, 1, 0), (1, 1, 1), (1, 1, 2), (1, 1, 3), (1, 1, 4), (1, 1, 5), (1, 1, 6), (1, 1, 7), (2, 1, 0), (2, 1, 1), (2, 1, 2), (2, 1, 3), (2, 1, 4), (2, 1, 5), (2, 1, 6), (2, 1, 7), (2, 1, 8), (2, 1, 9)]
def S4 : List (Nat × Nat) := [(0, 0), (0, 1), (0, 2), (0, 3), (0, 4), (0, 5), (1, 0), (1, 1), (1, 2), (1, 3), (1, 4), (2, 0), (2, 1), (2, 2), (2, 3)]
def S5 : List Nat := [0, 1, 2]

def tr1 : List (Nat × Nat) := [(0, 0), (1, 1), (1, 0), (2, 2), (2, 0), (2, 1), (3, 3), (3, 2), (3, 1), (4, 4), (4, 2), (4, 3), (5, 2), (5, 5), (6, 3), (6, 6), (6, 2), (6, 5), (7, 4), (7, 7), (7, 3), (7, 6), (8, 4), (8, 7), (8, 8), (5, 0), (5, 1), (6, 1), (7, 2), (7, 5), (8, 3), (8, 6), (9, 4), (9, 7), (9, 8), (9, 9)]
def tr2 : List (Nat × Nat) := [(0, 0), (1, 1), (1, 0), (2, 1), (2, 2)]
def tr36 : List (Nat × Nat) := [(0, 0), (1, 1), (1, 0), (2, 2), (2, 0), (2, 1), (3, 3), (3, 2), (3, 1), (4, 4), (4, 2), (4, 3), (7, 7), (7, 2), (8, 8), (8, 3), (8, 2), (8, 7), (9, 9), (9, 4), (9, 3), (9, 8), (10, 10), (10, 4), (10, 9), (5, 5), (5, 4), (5, 3), (9, 7), (10, 5), (10, 8), (11, 11), (11, 10), (11, 5), (11, 9), (6, 6), (6, 4), (6, 5), (11, 6), (12, 12), (12, 10), (12, 11), (12, 6), (13, 13), (13, 0), (14, 14), (14, 1), (14, 13), (15, 15), (15, 2), (15, 13), (15, 14), (16, 16), (16, 3), (16, 15), (16, 14), (17, 17), (17, 4), (17, 15), (17, 16), (21, 21), (21, 2), (21, 14), (22, 22), (22, 3), (22, 15), (22, 14), (22, 21), (22, 7), (23, 23), (23, 8), (23, 16), (23, 22), (23, 15), (23, 21), (24, 24), (24, 9), (24, 17), (24, 22), (24, 23), (24, 16), (23, 4), (25, 25), (25, 10), (25, 17), (25, 24), (25, 23), (18, 18), (18, 5), (18, 17), (18, 16), (25, 18), (24, 5), (26, 26), (26, 11), (26, 25), (26, 18), (26, 24), (19, 19), (19, 6), (19, 17), (19, 18), (26, 19), (25, 6), (27, 27), (27, 12), (27, 25), (27, 26), (27, 19), (14, 0), (15, 1), (16, 2), (17, 3), (18, 4), (22, 2), (23, 3), (23, 7), (24, 8), (25, 9), (24, 4), (26, 10), (19, 5), (25, 5), (27, 11), (20, 20), (20, 6), (20, 19), (20, 18), (27, 20), (26, 6), (28, 28), (28, 12), (28, 27), (28, 26), (28, 20), (29, 14), (29, 29), (30, 15), (30, 30), (30, 21), (30, 29), (31, 16), (31, 31), (31, 22), (31, 29), (31, 30), (32, 17), (32, 32), (32, 23), (32, 31), (32, 30), (33, 18), (33, 33), (33, 24), (33, 31), (33, 32), (34, 25), (34, 34), (34, 33), (34, 32), (35, 26), (35, 35), (35, 33), (35, 34), (30, 14), (31, 21), (32, 22), (31, 15), (33, 23), (32, 16), (34, 19), (34, 24), (33, 17), (35, 25), (34, 18), (36, 27), (36, 36), (36, 26), (36, 35), (36, 34), (35, 20), (35, 19), (37, 28), (37, 37), (37, 27), (37, 36), (37, 35), (36, 20), (38, 28), (38, 37), (38, 38), (38, 36)]
def tr4 : List (Nat × Nat) := [(0, 0), (1, 1), (1, 0), (2, 2), (2, 0), (2, 1), (3, 3), (3, 0), (3, 1), (3, 2), (6, 6), (6, 1), (7, 7), (7, 2), (7, 1), (7, 6), (8, 8), (8, 3), (8, 1), (8, 6), (8, 7), (8, 2), (9, 9), (9, 3), (9, 8), (9, 2), (9, 7), (10, 10), (10, 3), (10, 8), (10, 9), (4, 3), (4, 4), (4, 1), (4, 2), (9, 4), (11, 8), (11, 11), (11, 3), (12, 9), (12, 12), (12, 4), (12, 3), (12, 8), (12, 11), (13, 10), (13, 13), (13, 4), (13, 9), (13, 12), (5, 3), (5, 4), (5, 5), (5, 2), (10, 5), (13, 5), (14, 10), (14, 13), (14, 14), (14, 5)]
/-- EQ5: E:U → E:P → E:A -/
def tr5 : List (Nat × Nat) := [(0, 0), (1, 1), (1, 0), (2, 2), (2, 1), (2, 0)]

/-- the Spec's score (tenths) as a function of the five summaries, in primitive form -/
def scoreSum (s1 s2 : Nat × Nat) (s36 : Nat × Nat × Nat) (s4 : Nat × Nat) (q5 : Nat) : Nat :=
  scoreP s1.1 s2.1 s36.1 s4.1 q5 s36.2.1 s1.2 s2.2 s36.2.2 s4.2

theorem scoreSum_lt (s1 s2 : Nat × Nat) (s36 : Nat × Nat × Nat) (s4 : Nat × Nat) (q5 : Nat) : scoreSum s1 s2 s36 s4 q5 < 128 :=
  scoreP_lt ..

theorem tr_bounds : (tr1.all fun t => t.1 < 10 && t.2 < 10) = true ∧ (tr2.all fun t => t.1 < 3 && t.2 < 3) = true ∧
    (tr36.all fun t => t.1 < 39 && t.2 < 39) = true ∧ (tr4.all fun t => t.1 < 15 && t.2 < 15) = true ∧
    (tr5.all fun t => t.1 < 3 && t.2 < 3) = true := by decide
theorem S_lengths : S1.length = 10 ∧ S2.length = 3 ∧ S36.length = 39 ∧ S4.length = 15 ∧ S5.length = 3 := by decide

/-! ## the checks (one evaluation of `scoreSum` per point and group) -/

def mono1Ok (q5 : Nat) : Bool :=
  S2.all fun s2 => S36.all fun s36 => S4.all fun s4 =>
    F64.flet (packL (S1.map fun s1 => scoreSum s1 s2 s36 s4 q5)) fun p => chkP p tr1
def mono2Ok (q5 : Nat) : Bool :=
  S1.all fun s1 => S36.all fun s36 => S4.all fun s4 =>
    F64.flet (packL (S2.map fun s2 => scoreSum s1 s2 s36 s4 q5)) fun p => chkP p tr2
def mono36Ok (q5 : Nat) : Bool :=
  S1.all fun s1 => S2.all fun s2 => S4.all fun s4 =>
    F64.flet (packL (S36.map fun s36 => scoreSum s1 s2 s36 s4 q5)) fun p => chkP p tr36
def mono4Ok (q5 : Nat) : Bool :=
  S1.all fun s1 => S2.all fun s2 => S36.all fun s36 =>
    F64.flet (packL (S4.map fun s4 => scoreSum s1 s2 s36 s4 q5)) fun p => chkP p tr4
def mono5Ok (s1 : Nat × Nat) : Bool :=
  S2.all fun s2 => S36.all fun s36 => S4.all fun s4 =>
    F64.flet (packL (S5.map fun q5 => scoreSum s1 s2 s36 s4 q5)) fun p => chkP p tr5

end Proofs.Mono4
