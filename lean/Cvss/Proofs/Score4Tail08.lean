import Cvss.Proofs.Score4TailDef
/-! GENERATED chunk 8 of the v4.0 float-tail obligation: for each MacroVector below and every severity
distance tuple within its depths, `roundup(eqsv − mean)` (the generated tail) is `F64.tenth` of the Spec's
exact half-up value. Kernel evaluation (`decide +kernel`), 2924 tuples. -/
namespace Proofs.Score4
set_option maxHeartbeats 2000000 in
theorem tail_000220 : tailOkMV 0 0 0 2 2 0 = true := by decide +kernel
set_option maxHeartbeats 2000000 in
theorem tail_002021 : tailOkMV 0 0 2 0 2 1 = true := by decide +kernel
set_option maxHeartbeats 2000000 in
theorem tail_002221 : tailOkMV 0 0 2 2 2 1 = true := by decide +kernel
set_option maxHeartbeats 2000000 in
theorem tail_011210 : tailOkMV 0 1 1 2 1 0 = true := by decide +kernel
set_option maxHeartbeats 2000000 in
theorem tail_012121 : tailOkMV 0 1 2 1 2 1 = true := by decide +kernel
set_option maxHeartbeats 2000000 in
theorem tail_100220 : tailOkMV 1 0 0 2 2 0 = true := by decide +kernel
set_option maxHeartbeats 2000000 in
theorem tail_101021 : tailOkMV 1 0 1 0 2 1 = true := by decide +kernel
set_option maxHeartbeats 2000000 in
theorem tail_101121 : tailOkMV 1 0 1 1 2 1 = true := by decide +kernel
set_option maxHeartbeats 2000000 in
theorem tail_110021 : tailOkMV 1 1 0 0 2 1 = true := by decide +kernel
set_option maxHeartbeats 2000000 in
theorem tail_112021 : tailOkMV 1 1 2 0 2 1 = true := by decide +kernel
set_option maxHeartbeats 2000000 in
theorem tail_201221 : tailOkMV 2 0 1 2 2 1 = true := by decide +kernel
set_option maxHeartbeats 2000000 in
theorem tail_202121 : tailOkMV 2 0 2 1 2 1 = true := by decide +kernel
set_option maxHeartbeats 2000000 in
theorem tail_210120 : tailOkMV 2 1 0 1 2 0 = true := by decide +kernel
set_option maxHeartbeats 2000000 in
theorem tail_210221 : tailOkMV 2 1 0 2 2 1 = true := by decide +kernel
set_option maxHeartbeats 2000000 in
theorem tail_211110 : tailOkMV 2 1 1 1 1 0 = true := by decide +kernel
end Proofs.Score4
