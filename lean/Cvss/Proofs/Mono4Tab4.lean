import Cvss.Proofs.Mono4Lists
/-! GENERATED: kernel evaluation of the monotonicity check for EQ group 4 (all transitions × all contexts) -/
namespace Proofs.Mono4
set_option maxHeartbeats 4000000 in
theorem mono4_q0 : mono4Ok 0 = true := by decide +kernel
set_option maxHeartbeats 4000000 in
theorem mono4_q1 : mono4Ok 1 = true := by decide +kernel
set_option maxHeartbeats 4000000 in
theorem mono4_q2 : mono4Ok 2 = true := by decide +kernel
end Proofs.Mono4
