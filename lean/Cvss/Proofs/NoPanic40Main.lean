import Cvss.Proofs.NoPanic40Guards
/-!
# v4.0 `Score_ok`: composition

`score_ok_core`: for all raw codes in range (each field holds a code of one of its metric's values), the generated
twin `GenK40.Score_ok_core` returns `true`. Steps: shape (`Score_ok_core = ScoreOkH`, definitional), effective
codes in range (`mod_`), MacroVector valid (`mvK_eq` + per-EQ ranges), guards of a valid MacroVector (`mvGuards`),
severity-distance guards (`okB_true`), loops and end (`tailK_true`).
-/
set_option linter.unusedVariables false
set_option maxRecDepth 100000
namespace Proofs.NoPanic40
open Go GenK40
open Proofs.Score4 (flet_eq condT condF)

/-- the six effective impact codes are all `N` -/
def allN (vcVal viVal vaVal scVal siVal saVal : Nat) : Bool :=
  ((((((Nat.beq vcVal (2 : Nat)) && (Nat.beq viVal (2 : Nat))) && (Nat.beq vaVal (2 : Nat))) && (Nat.beq scVal (2 : Nat))) && (Nat.beq siVal (2 : Nat))) && (Nat.beq saVal (2 : Nat)))

/-- after the MacroVector computation -/
def tailMV (avVal acVal atVal prVal uiVal vcVal viVal vaVal scVal siVal saVal crVal irVal arVal : Nat)
    (mv : Nat × Nat × Nat × Nat × Nat × Nat) : Bool :=
  match mv with
  | (eq1, eq2, eq3, eq4, eq5, eq6) =>
    tailK true avVal acVal atVal prVal uiVal vcVal viVal vaVal scVal siVal saVal crVal irVal arVal eq1 eq2 eq3 eq4 eq5 eq6

/-- `ScoreOkH` without the forcing lets -/
def ScoreOkH2 (r0 r1 r2 r3 r4 r5 r6 r7 r8 r9 r10 r11 r12 r13 r14 r15 r16 r17 r18 r19 r20 r21 r22 r23 r24 r25 : Nat) : Bool :=
  cond (allN (mod_ r10 r11) (mod_ r14 r15) (mod_ r18 r19) (mod_ r12 r13) (mod_ r16 r17) (mod_ r20 r21))
    true
    (tailMV (mod_ r0 r1) (mod_ r2 r3) (mod_ r4 r5) (mod_ r6 r7) (mod_ r8 r9) (mod_ r10 r11) (mod_ r14 r15) (mod_ r18 r19)
      (mod_ r12 r13) (mod_ r16 r17) (mod_ r20 r21) (reqFix r22) (reqFix r23) (reqFix r24)
      (macroVector_core r0 r1 r2 r3 r4 r5 r6 r7 r8 r9 r10 r11 r12 r13 r14 r15 r17 r16 r18 r19 r21 r20 r25 r22 r23 r24))

theorem ScoreOkH_eq2 (r0 r1 r2 r3 r4 r5 r6 r7 r8 r9 r10 r11 r12 r13 r14 r15 r16 r17 r18 r19 r20 r21 r22 r23 r24 r25 : Nat) :
    ScoreOkH r0 r1 r2 r3 r4 r5 r6 r7 r8 r9 r10 r11 r12 r13 r14 r15 r16 r17 r18 r19 r20 r21 r22 r23 r24 r25 =
      ScoreOkH2 r0 r1 r2 r3 r4 r5 r6 r7 r8 r9 r10 r11 r12 r13 r14 r15 r16 r17 r18 r19 r20 r21 r22 r23 r24 r25 := by
  unfold ScoreOkH ScoreOkH2 allN reqFix tailMV
  simp only [flet_eq]

theorem cond_true_of (c : Bool) {x : Bool} (h : x = true) : cond c true x = true := by
  cases c
  · exact h
  · rfl

/-- **the tail returns `true`** for effective codes in range and a valid MacroVector -/
theorem tailK_ok {av ac at_ pr ui vc vi va sc si sa cr ir ar : Nat} {eq1 eq2 eq3 eq4 eq5 eq6 : Nat}
    (hav : av < 4) (hac : ac < 2) (hat : at_ < 2) (hpr : pr < 3) (hui : ui < 3) (hvc : vc < 3) (hvi : vi < 3) (hva : va < 3)
    (hsc : sc < 3) (hsi : si < 4) (hsa : sa < 4) (hcr : cr < 4) (hir : ir < 4) (har : ar < 4)
    (h1 : eq1 < 3) (h2 : eq2 < 2) (h3 : eq3 < 3) (h4 : eq4 < 3) (h5 : eq5 < 3) (h6 : eq6 < 2)
    (hx : (Nat.beq eq3 2 && Nat.beq eq6 0) = false) :
    tailK true av ac at_ pr ui vc vi va sc si sa (reqFix cr) (reqFix ir) (reqFix ar) eq1 eq2 eq3 eq4 eq5 eq6 = true := by
  obtain ⟨gp, g1, g2, g3, g4, gd⟩ := mvGuards h1 h2 h3 h4 h5 h6 hx
  exact tailK_true av ac at_ pr ui vc vi va sc si sa (reqFix cr) (reqFix ir) (reqFix ar) eq1 eq2 eq3 eq4 eq5 eq6
    gp g1 g2 g3 g4
    (fun x1 hx1 x2 hx2 x3 hx3 x4 hx4 =>
      okB_true hav hac hat hpr hui hvc hvi hva hsc hsi hsa hcr hir har h1 h2 h3 h4 h6 x1 hx1 x2 hx2 x3 hx3 x4 hx4)
    gd

/-- **core**: the generated twin on raw codes in range -/
theorem score_ok_core (r0 r1 r2 r3 r4 r5 r6 r7 r8 r9 r10 r11 r12 r13 r14 r15 r16 r17 r18 r19 r20 r21 r22 r23 r24 r25 : Nat)
    (h0 : r0 < 4) (h1 : r1 < 5) (h2 : r2 < 2) (h3 : r3 < 3) (h4 : r4 < 2) (h5 : r5 < 3) (h6 : r6 < 3) (h7 : r7 < 4)
    (h8 : r8 < 3) (h9 : r9 < 4) (h10 : r10 < 3) (h11 : r11 < 4) (h12 : r12 < 3) (h13 : r13 < 4) (h14 : r14 < 3)
    (h15 : r15 < 4) (h16 : r16 < 3) (h17 : r17 < 5) (h18 : r18 < 3) (h19 : r19 < 4) (h20 : r20 < 3) (h21 : r21 < 5)
    (h22 : r22 < 4) (h23 : r23 < 4) (h24 : r24 < 4) (h25 : r25 < 4) :
    Score_ok_core r0 r1 r2 r3 r4 r5 r6 r7 r8 r9 r10 r11 r12 r13 r14 r15 r16 r17 r18 r19 r20 r21 r22 r23 r24 r25 = true := by
  rw [Score_ok_core_eq_ScoreOkH, ScoreOkH_eq2]
  unfold ScoreOkH2
  apply cond_true_of
  rw [mvK_eq]
  unfold tailMV
  simp only []
  have hav := modLt_elim mod_4_5 h0 h1
  have hac := modLt_elim mod_2_3 h2 h3
  have hat := modLt_elim mod_2_3 h4 h5
  have hpr := modLt_elim mod_3_4 h6 h7
  have hui := modLt_elim mod_3_4 h8 h9
  have hvc := modLt_elim mod_3_4 h10 h11
  have hsc := modLt_elim mod_3_4 h12 h13
  have hvi := modLt_elim mod_3_4 h14 h15
  have hsi := modLt_elim mod_3_5 h16 h17
  have hva := modLt_elim mod_3_4 h18 h19
  have hsa := modLt_elim mod_3_5 h20 h21
  obtain ⟨b3, b6, bx⟩ := eq36k_lt hvc hvi hva h22 h23 h24
  exact tailK_ok hav hac hat hpr hui hvc hvi hva hsc hsi hsa h22 h23 h24
    (eq1k_lt hav hpr hui) (eq2k_lt hac hat) b3 (eq4k_lt hsc h17 h16 h21 h20) (eq5k_lt h25) b6 bx

end Proofs.NoPanic40
