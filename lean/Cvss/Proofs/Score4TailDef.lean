import Cvss.Proofs.Score4Shape
import Cvss.Proofs.Score4Basic
import Cvss.Spec.V4
/-!
# v4.0 `Score`: the float tail as a function of the MacroVector and the four severity distances,
and the Boolean check that it equals `tenth` of the Spec's exact half-up value.

`tailF` is the generated tail (`pre` then `post`, the pieces of `GenV40.Score_core`) applied to integer
distances. `tailOkSlice` is what the chunk theorems (`Score4Tail*.lean`) evaluate in the kernel.
-/
set_option maxRecDepth 100000
namespace Proofs.Score4
open GenV40

/-- the generated tail (`pre`, then `post`) on a MacroVector and integer severity distances -/
def tailF (eq1 eq2 eq3 eq4 eq5 eq6 d1 d2 d36 d4 : Nat) : Nat :=
  pre eq1 eq2 eq3 eq4 eq5 eq6 fun eqsv lower eq1msd eq2msd eq3eq6msd eq4msd eq5msd =>
    post eqsv lower eq1msd eq2msd eq3eq6msd eq4msd eq5msd eq1 eq2 eq3 eq4 eq5 eq6
      (F64.ofNat d1) (F64.ofNat d2) (F64.ofNat d36) (F64.ofNat d4) (0x0000000000000000 : Nat)

/-- one case of the tail obligation -/
def tailOk (eq1 eq2 eq3 eq4 eq5 eq6 d1 d2 d36 d4 : Nat) : Bool :=
  F64.eq (tailF eq1 eq2 eq3 eq4 eq5 eq6 d1 d2 d36 d4)
    (F64.tenth (Spec.V4.scoreOf (eq1, eq2, eq3, eq4, eq5, eq6) d1 d2 d36 d4 0))

/-- all distance tuples within the depths of one MacroVector -/
def tailOkMV (eq1 eq2 eq3 eq4 eq5 eq6 : Nat) : Bool :=
  (List.range (Spec.V4.depth1P1 eq1)).all fun d1 =>
  (List.range (Spec.V4.depth2P1 eq2)).all fun d2 =>
  (List.range (Spec.V4.depth36P1 eq3 eq6)).all fun d36 =>
  (List.range (Spec.V4.depth4P1 eq4)).all fun d4 =>
    tailOk eq1 eq2 eq3 eq4 eq5 eq6 d1 d2 d36 d4

/-- from a checked MacroVector to the individual case -/
theorem tailOk_of_MV {eq1 eq2 eq3 eq4 eq5 eq6 : Nat} (h : tailOkMV eq1 eq2 eq3 eq4 eq5 eq6 = true)
    {d1 d2 d36 d4 : Nat} (h1 : d1 < Spec.V4.depth1P1 eq1) (h2 : d2 < Spec.V4.depth2P1 eq2)
    (h36 : d36 < Spec.V4.depth36P1 eq3 eq6) (h4 : d4 < Spec.V4.depth4P1 eq4) :
    tailOk eq1 eq2 eq3 eq4 eq5 eq6 d1 d2 d36 d4 = true := by
  unfold tailOkMV at h
  have := List.all_eq_true.mp h d1 (List.mem_range.mpr h1)
  have := List.all_eq_true.mp this d2 (List.mem_range.mpr h2)
  have := List.all_eq_true.mp this d36 (List.mem_range.mpr h36)
  exact List.all_eq_true.mp this d4 (List.mem_range.mpr h4)

end Proofs.Score4
