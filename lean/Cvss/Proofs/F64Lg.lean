import Cvss.Base.F64
/-!
# `F64.lg` is `Nat.log2`

`Base/F64.lean` computes the bit length of a significand with `F64.lg` (a binary search on shifts, which the
kernel evaluates with a dozen GMP primitives) instead of `Nat.log2` (which the kernel does not accelerate: it
unfolds the fuel recursion, one level per bit). This file proves that the two are the same function, for every
natural number, so `F64.rnd`/`F64.divF` denote what they denoted with `Nat.log2`.
-/
namespace F64

theorem flet_eq' {α : Sort u} (x : Nat) (k : Nat → α) : flet x k = k x := by cases x <;> rfl

theorem sr_eq (m k : Nat) : Nat.shiftRight m k = m / 2 ^ k := Nat.shiftRight_eq_div_pow m k

theorem log2_shift : ∀ (k m : Nat), 2 ^ k ≤ m → Nat.log2 m = Nat.log2 (m / 2 ^ k) + k := by
  intro k
  induction k with
  | zero => intro m _; simp
  | succ k ih =>
    intro m h
    have h2 : 2 ≤ m := by
      have : 2 ^ 1 ≤ 2 ^ (k + 1) := Nat.pow_le_pow_right (by decide) (by omega)
      omega
    have hk : 2 ^ k ≤ m / 2 := by
      rw [Nat.le_div_iff_mul_le (by decide)]
      rw [Nat.pow_succ] at h; exact h
    rw [Nat.log2_def, if_pos h2, ih (m / 2) hk, Nat.div_div_eq_div_mul, Nat.pow_succ, Nat.mul_comm 2]
    omega

theorem lgS_spec (k : Nat) (next : Nat → Nat → Nat)
    (hnext : ∀ m acc, 0 < m → m < 2 ^ k → next m acc = acc + Nat.log2 m) :
    ∀ m acc, 0 < m → m < 2 ^ (k + k) → lgS k next m acc = acc + Nat.log2 m := by
  intro m acc hm hlt
  have hpos : 0 < 2 ^ k := Nat.pow_pos (by decide)
  simp only [lgS, flet_eq', sr_eq]
  cases hb : Nat.beq (m / 2 ^ k) 0 with
  | true =>
    have h0 : m / 2 ^ k = 0 := Nat.eq_of_beq_eq_true hb
    have : m < 2 ^ k := by
      rcases Nat.lt_or_ge m (2 ^ k) with h | h
      · exact h
      · have := (Nat.le_div_iff_mul_le hpos).2 (by simpa using h : 1 * 2 ^ k ≤ m); omega
    simp only [cond_true]; exact hnext m acc hm this
  | false =>
    have hne : m / 2 ^ k ≠ 0 := fun h => by rw [h] at hb; exact absurd hb (by decide)
    have hge : 2 ^ k ≤ m := by
      rcases Nat.lt_or_ge m (2 ^ k) with h | h
      · exact absurd (Nat.div_eq_of_lt h) hne
      · exact h
    have hlt' : m / 2 ^ k < 2 ^ k := by
      rw [Nat.div_lt_iff_lt_mul hpos, ← Nat.pow_add]; exact hlt
    simp only [cond_false, Nat.add_eq]
    rw [hnext (m / 2 ^ k) (acc + k) (Nat.pos_of_ne_zero hne) hlt', log2_shift k m hge]
    omega

theorem lgEnd_spec : ∀ m acc, 0 < m → m < 2 ^ 1 → lgEnd m acc = acc + Nat.log2 m := by
  intro m acc h0 h1
  have : m = 1 := by omega
  subst this
  have : Nat.log2 1 = 0 := by rw [Nat.log2_def]; simp
  simp [lgEnd, this]

theorem lg_zero : lg 0 = 0 := by decide

set_option exponentiation.threshold 4096 in
/-- the binary search computes `Nat.log2`, for every `m` -/
theorem lg_eq_log2 (m : Nat) : lg m = Nat.log2 m := by
  rcases Nat.eq_zero_or_pos m with h | hm
  · subst h; rw [lg_zero]; rw [Nat.log2_def]; simp
  have s1 := lgS_spec 1 lgEnd lgEnd_spec
  have s2 := lgS_spec 2 _ s1
  have s4 := lgS_spec 4 _ s2
  have s8 := lgS_spec 8 _ s4
  have s16 := lgS_spec 16 _ s8
  have s32 := lgS_spec 32 _ s16
  have s64 := lgS_spec 64 _ s32
  have s128 := lgS_spec 128 _ s64
  have s256 := lgS_spec 256 _ s128
  have s512 := lgS_spec 512 _ s256
  have s1024 := lgS_spec 1024 _ s512
  have small : ∀ j, Nat.beq (Nat.shiftRight m j) 0 = true → m < 2 ^ j := by
    intro j hb
    have h0 : m / 2 ^ j = 0 := by
      have := Nat.eq_of_beq_eq_true hb
      rwa [sr_eq] at this
    rcases Nat.lt_or_ge m (2 ^ j) with h | h
    · exact h
    · have hpos : 0 < 2 ^ j := Nat.pow_pos (by decide)
      have := (Nat.le_div_iff_mul_le hpos).2 (by simpa using h : 1 * 2 ^ j ≤ m); omega
  unfold lg
  cases h1 : Nat.beq (Nat.shiftRight m 128) 0 with
  | true =>
    simp only [cond_true]
    exact (s64 m 0 hm (small 128 h1)).trans (Nat.zero_add _)
  | false =>
    simp only [cond_false]
    cases h2 : Nat.beq (Nat.shiftRight m 2048) 0 with
    | true => simp only [cond_true]; exact (s1024 m 0 hm (small 2048 h2)).trans (Nat.zero_add _)
    | false => rfl

/-- hence `rnd` is what it was with `Nat.log2` -/
theorem rnd_eq_log2 (sbit m e : Nat) :
    rnd sbit m e = flet e fun e => flet m fun m =>
      cond (Nat.beq m 0) sbit (flet (Nat.succ (Nat.log2 m)) (rndB sbit e m)) := by
  simp only [rnd, lg_eq_log2]

end F64
