import Cvss.Proofs.Bits40
/-!
# Reachable = well formed (v4.0), and `Set(m, Get(m))` is the identity on well-formed objects

`reach_of_wf` is generic: from the `Contract` fields alone, every well-formed object can be rebuilt from the
zero value by one `Set` per Spec metric (extensionality closes the argument). Instantiated with
`contract40` it gives `reachable_iff_wf : O40.Reachable c ↔ c.wf = true`.
-/
set_option maxRecDepth 100000
namespace Proofs.B40
open Spec (Metric legal isMetric findMetric)
open Model (O40)

section generic
variable {O : Type} {ms : List Metric} (K : Proofs.Contract O ms)

theorem findMetric_of_mem : ∀ (l : List Metric), (l.map (·.abv)).Nodup → ∀ m ∈ l, findMetric l m.abv = some m := by
  intro l
  induction l with
  | nil => intro _ m hm; cases hm
  | cons x xs ih =>
    intro hnd m hm
    rw [List.map_cons, List.nodup_cons] at hnd
    unfold findMetric
    rw [List.find?_cons]
    by_cases e : x.abv = m.abv
    · have : m = x := by
        cases hm with
        | head => rfl
        | tail _ h => exact absurd (e ▸ List.mem_map_of_mem (f := (·.abv)) h) hnd.1
      subst this; simp
    · have hmx : m ∈ xs := by
        cases hm with
        | head => exact absurd rfl e
        | tail _ h => exact h
      have : (x.abv == m.abv) = false := by simpa using e
      rw [this]
      exact ih hnd.2 m hmx

theorem isMetric_of_mem {l : List Metric} {m : Metric} (hm : m ∈ l) : isMetric l m.abv = true := by
  unfold isMetric findMetric
  rw [List.find?_isSome]
  exact ⟨m, hm, by simp⟩

/-- rebuild `c` from the zero value: one `Set` per metric of `l` (last element of `l` first) -/
def build (c : O) : List Metric → O
  | [] => K.zero
  | m :: l => (K.set (build c l) m.abv (K.get c m.abv).1).1

theorem build_spec (hnd : (ms.map (·.abv)).Nodup) (c : O) (hc : K.WF c)
    (R : O → Prop) (hz : R K.zero) (hs : ∀ c a v, R c → R (K.set c a v).1) :
    ∀ l : List Metric, (∀ m ∈ l, m ∈ ms) →
      R (build K c l) ∧ K.WF (build K c l) ∧
      ∀ m' ∈ ms, K.get (build K c l) m'.abv =
        if m'.abv ∈ l.map (·.abv) then K.get c m'.abv else K.get K.zero m'.abv := by
  intro l
  induction l with
  | nil => intro _; exact ⟨hz, K.wf_zero, fun m' _ => by simp [build]⟩
  | cons m l ih =>
    intro hl
    have hm : m ∈ ms := hl m (List.mem_cons_self ..)
    obtain ⟨r, w, g⟩ := ih (fun x hx => hl x (List.mem_cons_of_mem _ hx))
    refine ⟨hs _ _ _ r, K.wf_set _ _ _ w, ?_⟩
    intro m' hm'
    have hleg : legal ms m.abv (K.get c m.abv).1 = true := by
      unfold legal
      rw [findMetric_of_mem ms hnd m hm]
      exact List.contains_iff_mem.2 (K.wf_get c hc m hm).2
    show K.get (K.set (build K c l) m.abv (K.get c m.abv).1).1 m'.abv = _
    by_cases e : m'.abv = m.abv
    · rw [e, K.get_set_same _ _ _ hleg]
      simp only [List.map_cons, List.mem_cons, true_or, if_true]
      exact Prod.ext rfl (K.wf_get c hc m hm).1.symm
    · rw [K.get_set_other _ _ _ _ hleg (isMetric_of_mem hm') e, g m' hm']
      simp only [List.map_cons, List.mem_cons, e, false_or]

/-- every well-formed object is obtained from the zero value by `Set`s -/
theorem reach_of_wf (hnd : (ms.map (·.abv)).Nodup) (c : O) (hc : K.WF c)
    (R : O → Prop) (hz : R K.zero) (hs : ∀ c a v, R c → R (K.set c a v).1) : R c := by
  obtain ⟨r, w, g⟩ := build_spec K hnd c hc R hz hs ms (fun _ h => h)
  have : build K c ms = c := by
    apply K.ext _ _ w hc
    intro m hm
    rw [g m hm, if_pos (List.mem_map_of_mem (f := (·.abv)) hm)]
  rw [← this]; exact r

end generic

theorem abvs_nodup : (Spec.V4.metrics.map (·.abv)).Nodup := by decide

/-- **Reachable objects are exactly the well-formed ones** -/
theorem reachable_iff_wf (c : O40) : O40.Reachable c ↔ c.wf = true := by
  constructor
  · intro h
    induction h with
    | zero => exact wf_zero
    | set c a v _ ih => exact wf_set c a v ih
  · intro h
    exact reach_of_wf contract40 abvs_nodup c h O40.Reachable O40.Reachable.zero
      (fun c a v r => O40.Reachable.set c a v r)

/-- on a well-formed object, storing the value a metric already has changes nothing and succeeds -/
theorem set_get_id (c : O40) (h : c.wf = true) (m : Metric) (hm : m ∈ Spec.V4.metrics) :
    c.set m.abv (c.get m.abv).1 = (c, Go.errNil) := by
  have hleg : legal Spec.V4.metrics m.abv (c.get m.abv).1 = true := by
    unfold legal
    rw [findMetric_of_mem _ abvs_nodup m hm]
    exact List.contains_iff_mem.2 (wf_get c h m hm).2
  apply Prod.ext
  · apply ext _ _ (wf_set c _ _ h) h
    intro m' hm'
    by_cases e : m'.abv = m.abv
    · rw [e, get_set_same c _ _ hleg]; exact Prod.ext rfl (wf_get c h m hm).1.symm
    · exact get_set_other c _ _ _ hleg (isMetric_of_mem hm') e
  · exact set_ok c _ _ hleg

/-- a byte state that is not well formed: the unused low bits of `u8` are not zero -/
def rawU : O40 := ⟨0, 0, 0, 0, 0, 0, 0, 0, 1⟩

/-- … but not on an arbitrary byte state: `Set("U", "X")` on an object whose unused `u8` bits are set
    clears them (`Get("U")` of this object *is* `"X"`). Go's `uint8` fields can only get there through
    memory corruption, never through the API (`reachable_iff_wf`). -/
theorem set_get_id_fails_raw :
    rawU.IsBytes ∧ rawU.get (Spec.b "U") = (Spec.b "X", Go.errNil) ∧
      rawU.set (Spec.b "U") (Spec.b "X") = (O40.zero, Go.errNil) ∧ O40.zero ≠ rawU :=
  ⟨by unfold O40.IsBytes rawU; decide, by decide +kernel, by decide +kernel, by decide⟩

end Proofs.B40
