import Cvss.Proofs.Score3MonoA_0
import Cvss.Proofs.Score3MonoA_1
import Cvss.Proofs.Score3MonoA_2
import Cvss.Proofs.Score3MonoA_3
import Cvss.Proofs.Score3MonoB_0
import Cvss.Proofs.Score3MonoB_1
import Cvss.Proofs.Score3MonoB_2
import Cvss.Proofs.Score3MonoBT
/-!
# C12 (v3), specification side: the equations are monotone on codes (product order)

From the enumerations (`Score3MonoA_*`, `Score3MonoB_*`, `Score3MonoBT`): the v3.1 modified base score `kI true`,
the base score `kB` and the temporal step `kT` do not decrease when any set of components moves to more severe
codes. No code involved.
-/
namespace Proofs.Score3.Mono
open Spec Spec.V3 Proofs.Score3

theorem allLE_elim {p k : Nat} {f : Nat → Nat} (h : allLE p k f = true) {q : Nat} (hq : q ≤ p) : k ≤ f q :=
  Nat.le_of_ble_eq_true (all_range h q (Nat.lt_succ_of_le hq))

theorem monoA_all {ms mav mac : Nat} (hms : ms < 2) (hmav : mav < 4) (hmac : mac < 2) : monoA true ms mav mac = true := by
  have : ms = 0 ∨ ms = 1 := by omega
  have : mav = 0 ∨ mav = 1 ∨ mav = 2 ∨ mav = 3 := by omega
  have : mac = 0 ∨ mac = 1 := by omega
  rcases ‹ms = 0 ∨ _› with rfl | rfl <;> rcases ‹mav = 0 ∨ _› with rfl | rfl | rfl | rfl <;>
    rcases ‹mac = 0 ∨ _› with rfl | rfl
  · exact monoA_0_0_0
  · exact monoA_0_0_1
  · exact monoA_0_1_0
  · exact monoA_0_1_1
  · exact monoA_0_2_0
  · exact monoA_0_2_1
  · exact monoA_0_3_0
  · exact monoA_0_3_1
  · exact monoA_1_0_0
  · exact monoA_1_0_1
  · exact monoA_1_1_0
  · exact monoA_1_1_1
  · exact monoA_1_2_0
  · exact monoA_1_2_1
  · exact monoA_1_3_0
  · exact monoA_1_3_1

theorem monoB_all {ci ii : Nat} (hci : ci < 3) (hii : ii < 3) : monoB true ci ii = true := by
  have : ci = 0 ∨ ci = 1 ∨ ci = 2 := by omega
  have : ii = 0 ∨ ii = 1 ∨ ii = 2 := by omega
  rcases ‹ci = 0 ∨ _› with rfl | rfl | rfl <;> rcases ‹ii = 0 ∨ _› with rfl | rfl | rfl
  · exact monoB_0_0
  · exact monoB_0_1
  · exact monoB_0_2
  · exact monoB_1_0
  · exact monoB_1_1
  · exact monoB_1_2
  · exact monoB_2_0
  · exact monoB_2_1
  · exact monoB_2_2

/-- family A: from one tuple, each of the 8 components may move to any more severe (smaller) code -/
theorem stepA {ms mav mac mc mi ma ci ii ai mpr mui : Nat} (hms : ms < 2) (hmav : mav < 4) (hmac : mac < 2)
    (hmc : mc < 3) (hmi : mi < 3) (hma : ma < 3) (hci : ci < 3) (hii : ii < 3) (hai : ai < 3) (hmpr : mpr < 3)
    (hmui : mui < 2) :
    (∀ q, q ≤ mc → kI true mav mac mpr mui ms mc mi ma ci ii ai ≤ kI true mav mac mpr mui ms q mi ma ci ii ai) ∧
    (∀ q, q ≤ mi → kI true mav mac mpr mui ms mc mi ma ci ii ai ≤ kI true mav mac mpr mui ms mc q ma ci ii ai) ∧
    (∀ q, q ≤ ma → kI true mav mac mpr mui ms mc mi ma ci ii ai ≤ kI true mav mac mpr mui ms mc mi q ci ii ai) ∧
    (∀ q, q ≤ ci → kI true mav mac mpr mui ms mc mi ma ci ii ai ≤ kI true mav mac mpr mui ms mc mi ma q ii ai) ∧
    (∀ q, q ≤ ii → kI true mav mac mpr mui ms mc mi ma ci ii ai ≤ kI true mav mac mpr mui ms mc mi ma ci q ai) ∧
    (∀ q, q ≤ ai → kI true mav mac mpr mui ms mc mi ma ci ii ai ≤ kI true mav mac mpr mui ms mc mi ma ci ii q) ∧
    (∀ q, q ≤ mpr → kI true mav mac mpr mui ms mc mi ma ci ii ai ≤ kI true mav mac q mui ms mc mi ma ci ii ai) ∧
    (∀ q, q ≤ mui → kI true mav mac mpr mui ms mc mi ma ci ii ai ≤ kI true mav mac mpr q ms mc mi ma ci ii ai) := by
  have h := all_range (all_range (all_range (all_range (all_range (all_range (all_range (all_range
    (monoA_all hms hmav hmac) mc hmc) mi hmi) ma hma) ci hci) ii hii) ai hai) mpr hmpr) mui hmui
  simp only [flet_eq, Bool.and_eq_true] at h
  obtain ⟨⟨⟨⟨⟨⟨⟨h1, h2⟩, h3⟩, h4⟩, h5⟩, h6⟩, h7⟩, h8⟩ := h
  exact ⟨fun _ hq => allLE_elim h1 hq, fun _ hq => allLE_elim h2 hq, fun _ hq => allLE_elim h3 hq,
    fun _ hq => allLE_elim h4 hq, fun _ hq => allLE_elim h5 hq, fun _ hq => allLE_elim h6 hq,
    fun _ hq => allLE_elim h7 hq, fun _ hq => allLE_elim h8 hq⟩

/-- family B: Modified scope U→C, and attack vector / complexity to any more severe code -/
theorem stepB {ci ii ai mc mi ma mpr mui mav mac : Nat} (hci : ci < 3) (hii : ii < 3) (hai : ai < 3) (hmc : mc < 3)
    (hmi : mi < 3) (hma : ma < 3) (hmpr : mpr < 3) (hmui : mui < 2) (hmav : mav < 4) (hmac : mac < 2) :
    kI true mav mac mpr mui 0 mc mi ma ci ii ai ≤ kI true mav mac mpr mui 1 mc mi ma ci ii ai ∧
    (∀ q, q ≤ mav → kI true mav mac mpr mui 0 mc mi ma ci ii ai ≤ kI true q mac mpr mui 0 mc mi ma ci ii ai) ∧
    (∀ q, q ≤ mav → kI true mav mac mpr mui 1 mc mi ma ci ii ai ≤ kI true q mac mpr mui 1 mc mi ma ci ii ai) ∧
    (∀ q, q ≤ mac → kI true mav mac mpr mui 0 mc mi ma ci ii ai ≤ kI true mav q mpr mui 0 mc mi ma ci ii ai) ∧
    (∀ q, q ≤ mac → kI true mav mac mpr mui 1 mc mi ma ci ii ai ≤ kI true mav q mpr mui 1 mc mi ma ci ii ai) := by
  have h := all_range (all_range (all_range (all_range (all_range (all_range (all_range (all_range
    (monoB_all hci hii) ai hai) mc hmc) mi hmi) ma hma) mpr hmpr) mui hmui) mav hmav) mac hmac
  simp only [flet_eq, Bool.and_eq_true] at h
  obtain ⟨⟨⟨⟨h0, h1⟩, h2⟩, h3⟩, h4⟩ := h
  exact ⟨Nat.le_of_ble_eq_true h0, fun _ hq => allLE_elim h1 hq, fun _ hq => allLE_elim h2 hq,
    fun _ hq => allLE_elim h3 hq, fun _ hq => allLE_elim h4 hq⟩

/-- **the v3.1 modified base score is monotone** in the product order of its 11 components -/
theorem kI_mono {mav mac mpr mui ms mc mi ma ci ii ai mav' mac' mpr' mui' ms' mc' mi' ma' ci' ii' ai' : Nat}
    (hmav : mav < 4) (hmac : mac < 2) (hmpr : mpr < 3) (hmui : mui < 2) (hms' : ms' < 2) (hmc : mc < 3) (hmi : mi < 3)
    (hma : ma < 3) (hci : ci < 3) (hii : ii < 3) (hai : ai < 3)
    (lmav : mav' ≤ mav) (lmac : mac' ≤ mac) (lmpr : mpr' ≤ mpr) (lmui : mui' ≤ mui) (lms : ms ≤ ms') (lmc : mc' ≤ mc)
    (lmi : mi' ≤ mi) (lma : ma' ≤ ma) (lci : ci' ≤ ci) (lii : ii' ≤ ii) (lai : ai' ≤ ai) :
    kI true mav mac mpr mui ms mc mi ma ci ii ai ≤ kI true mav' mac' mpr' mui' ms' mc' mi' ma' ci' ii' ai' := by
  have hms : ms < 2 := by omega
  have s1 := (stepA hms hmav hmac hmc hmi hma hci hii hai hmpr hmui).1 mc' lmc
  have s2 := (stepA hms hmav hmac (by omega : mc' < 3) hmi hma hci hii hai hmpr hmui).2.1 mi' lmi
  have s3 := (stepA hms hmav hmac (by omega : mc' < 3) (by omega : mi' < 3) hma hci hii hai hmpr hmui).2.2.1 ma' lma
  have s4 := (stepA hms hmav hmac (by omega : mc' < 3) (by omega : mi' < 3) (by omega : ma' < 3) hci hii hai hmpr
    hmui).2.2.2.1 ci' lci
  have s5 := (stepA hms hmav hmac (by omega : mc' < 3) (by omega : mi' < 3) (by omega : ma' < 3) (by omega : ci' < 3)
    hii hai hmpr hmui).2.2.2.2.1 ii' lii
  have s6 := (stepA hms hmav hmac (by omega : mc' < 3) (by omega : mi' < 3) (by omega : ma' < 3) (by omega : ci' < 3)
    (by omega : ii' < 3) hai hmpr hmui).2.2.2.2.2.1 ai' lai
  have s7 := (stepA hms hmav hmac (by omega : mc' < 3) (by omega : mi' < 3) (by omega : ma' < 3) (by omega : ci' < 3)
    (by omega : ii' < 3) (by omega : ai' < 3) hmpr hmui).2.2.2.2.2.2.1 mpr' lmpr
  have s8 := (stepA hms hmav hmac (by omega : mc' < 3) (by omega : mi' < 3) (by omega : ma' < 3) (by omega : ci' < 3)
    (by omega : ii' < 3) (by omega : ai' < 3) (by omega : mpr' < 3) hmui).2.2.2.2.2.2.2 mui' lmui
  have B := fun mav mac => @stepB ci' ii' ai' mc' mi' ma' mpr' mui' mav mac
  have s9 : kI true mav mac mpr' mui' ms mc' mi' ma' ci' ii' ai' ≤ kI true mav mac mpr' mui' ms' mc' mi' ma' ci' ii' ai' := by
    have b := (B mav mac (by omega) (by omega) (by omega) (by omega) (by omega) (by omega) (by omega) (by omega) hmav hmac).1
    have : (ms = 0 ∧ ms' = 0) ∨ (ms = 0 ∧ ms' = 1) ∨ (ms = 1 ∧ ms' = 1) := by omega
    rcases this with ⟨rfl, rfl⟩ | ⟨rfl, rfl⟩ | ⟨rfl, rfl⟩
    · exact Nat.le_refl _
    · exact b
    · exact Nat.le_refl _
  have s10 : kI true mav mac mpr' mui' ms' mc' mi' ma' ci' ii' ai' ≤ kI true mav' mac mpr' mui' ms' mc' mi' ma' ci' ii' ai' := by
    have b := B mav mac (by omega) (by omega) (by omega) (by omega) (by omega) (by omega) (by omega) (by omega) hmav hmac
    have : ms' = 0 ∨ ms' = 1 := by omega
    rcases this with rfl | rfl
    · exact b.2.1 mav' lmav
    · exact b.2.2.1 mav' lmav
  have s11 : kI true mav' mac mpr' mui' ms' mc' mi' ma' ci' ii' ai' ≤ kI true mav' mac' mpr' mui' ms' mc' mi' ma' ci' ii' ai' := by
    have b := B mav' mac (by omega) (by omega) (by omega) (by omega) (by omega) (by omega) (by omega) (by omega) (by omega) hmac
    have : ms' = 0 ∨ ms' = 1 := by omega
    rcases this with rfl | rfl
    · exact b.2.2.2.1 mac' lmac
    · exact b.2.2.2.2 mac' lmac
  omega


/-! ## Base -/
theorem stepBase {c i a av ac pr ui s : Nat} (hc : c < 3) (hi : i < 3) (ha : a < 3) (hav : av < 4) (hac : ac < 2)
    (hpr : pr < 3) (hui : ui < 2) (hs : s < 2) :
    kB av ac pr ui 0 c i a ≤ kB av ac pr ui 1 c i a ∧
    (∀ q, q ≤ c → kB av ac pr ui s c i a ≤ kB av ac pr ui s q i a) ∧
    (∀ q, q ≤ i → kB av ac pr ui s c i a ≤ kB av ac pr ui s c q a) ∧
    (∀ q, q ≤ a → kB av ac pr ui s c i a ≤ kB av ac pr ui s c i q) ∧
    (∀ q, q ≤ av → kB av ac pr ui s c i a ≤ kB q ac pr ui s c i a) ∧
    (∀ q, q ≤ ac → kB av ac pr ui s c i a ≤ kB av q pr ui s c i a) ∧
    (∀ q, q ≤ pr → kB av ac pr ui s c i a ≤ kB av ac q ui s c i a) ∧
    (∀ q, q ≤ ui → kB av ac pr ui s c i a ≤ kB av ac pr q s c i a) := by
  have h := all_range (all_range (all_range (all_range (all_range (all_range (all_range monoBase_ok
    c hc) i hi) a ha) av hav) ac hac) pr hpr) ui hui
  simp only [flet_eq, Bool.and_eq_true] at h
  obtain ⟨⟨⟨⟨⟨⟨⟨⟨⟨⟨⟨⟨⟨⟨h0, c0⟩, c1⟩, i0⟩, i1⟩, a0⟩, a1⟩, av0⟩, av1⟩, ac0⟩, ac1⟩, pr0⟩, pr1⟩, ui0⟩, ui1⟩ := h
  have : s = 0 ∨ s = 1 := by omega
  rcases this with rfl | rfl
  · exact ⟨Nat.le_of_ble_eq_true h0, fun _ hq => allLE_elim c0 hq, fun _ hq => allLE_elim i0 hq,
      fun _ hq => allLE_elim a0 hq, fun _ hq => allLE_elim av0 hq, fun _ hq => allLE_elim ac0 hq,
      fun _ hq => allLE_elim pr0 hq, fun _ hq => allLE_elim ui0 hq⟩
  · exact ⟨Nat.le_of_ble_eq_true h0, fun _ hq => allLE_elim c1 hq, fun _ hq => allLE_elim i1 hq,
      fun _ hq => allLE_elim a1 hq, fun _ hq => allLE_elim av1 hq, fun _ hq => allLE_elim ac1 hq,
      fun _ hq => allLE_elim pr1 hq, fun _ hq => allLE_elim ui1 hq⟩

/-- **the base score is monotone** in the product order of its 8 components -/
theorem kB_mono {av ac pr ui s c i a av' ac' pr' ui' s' c' i' a' : Nat}
    (hav : av < 4) (hac : ac < 2) (hpr : pr < 3) (hui : ui < 2) (hs' : s' < 2) (hc : c < 3) (hi : i < 3) (ha : a < 3)
    (lav : av' ≤ av) (lac : ac' ≤ ac) (lpr : pr' ≤ pr) (lui : ui' ≤ ui) (ls : s ≤ s') (lc : c' ≤ c) (li : i' ≤ i)
    (la : a' ≤ a) :
    kB av ac pr ui s c i a ≤ kB av' ac' pr' ui' s' c' i' a' := by
  have hs : s < 2 := by omega
  have s1 := (stepBase hc hi ha hav hac hpr hui hs).2.1 c' lc
  have s2 := (stepBase (by omega : c' < 3) hi ha hav hac hpr hui hs).2.2.1 i' li
  have s3 := (stepBase (by omega : c' < 3) (by omega : i' < 3) ha hav hac hpr hui hs).2.2.2.1 a' la
  have s4 := (stepBase (by omega : c' < 3) (by omega : i' < 3) (by omega : a' < 3) hav hac hpr hui hs).2.2.2.2.1 av' lav
  have s5 := (stepBase (by omega : c' < 3) (by omega : i' < 3) (by omega : a' < 3) (by omega : av' < 4) hac hpr hui
    hs).2.2.2.2.2.1 ac' lac
  have s6 := (stepBase (by omega : c' < 3) (by omega : i' < 3) (by omega : a' < 3) (by omega : av' < 4)
    (by omega : ac' < 2) hpr hui hs).2.2.2.2.2.2.1 pr' lpr
  have s7 := (stepBase (by omega : c' < 3) (by omega : i' < 3) (by omega : a' < 3) (by omega : av' < 4)
    (by omega : ac' < 2) (by omega : pr' < 3) hui hs).2.2.2.2.2.2.2 ui' lui
  have s8 : kB av' ac' pr' ui' s c' i' a' ≤ kB av' ac' pr' ui' s' c' i' a' := by
    have b := (stepBase (s := 0) (by omega : c' < 3) (by omega : i' < 3) (by omega : a' < 3) (by omega : av' < 4)
      (by omega : ac' < 2) (by omega : pr' < 3) (by omega : ui' < 2) (by omega)).1
    have : (s = 0 ∧ s' = 0) ∨ (s = 0 ∧ s' = 1) ∨ (s = 1 ∧ s' = 1) := by omega
    rcases this with ⟨rfl, rfl⟩ | ⟨rfl, rfl⟩ | ⟨rfl, rfl⟩
    · exact Nat.le_refl _
    · exact b
    · exact Nat.le_refl _
  omega

/-! ## Temporal step -/
theorem stepT {e rl rc k : Nat} (he : e < 4) (hrl : rl < 4) (hrc : rc < 3) (hk : k < 101) :
    kT k e rl rc ≤ kT (Nat.succ k) e rl rc ∧
    (∀ q, q ≤ e → kT k e rl rc ≤ kT k q rl rc) ∧ (∀ q, q ≤ rl → kT k e rl rc ≤ kT k e q rc) ∧
    (∀ q, q ≤ rc → kT k e rl rc ≤ kT k e rl q) := by
  have h := all_range (all_range (all_range (all_range monoT_ok e he) rl hrl) rc hrc) k hk
  simp only [flet_eq, Bool.and_eq_true] at h
  obtain ⟨⟨⟨h0, h1⟩, h2⟩, h3⟩ := h
  exact ⟨Nat.le_of_ble_eq_true h0, fun _ hq => allLE_elim h1 hq, fun _ hq => allLE_elim h2 hq,
    fun _ hq => allLE_elim h3 hq⟩

theorem kT_mono_k {e rl rc : Nat} (he : e < 4) (hrl : rl < 4) (hrc : rc < 3) :
    ∀ d k, k + d ≤ 101 → kT k e rl rc ≤ kT (k + d) e rl rc := by
  intro d
  induction d with
  | zero => intro k _; exact Nat.le_refl _
  | succ d ih =>
    intro k hk
    have h1 := ih k (by omega)
    have h2 := (stepT he hrl hrc (by omega : k + d < 101)).1
    exact Nat.le_trans h1 h2

/-- **the temporal step is monotone** in the tenth and in the three temporal indices -/
theorem kT_mono {k e rl rc k' e' rl' rc' : Nat} (he : e < 4) (hrl : rl < 4) (hrc : rc < 3) (hk' : k' ≤ 100)
    (lk : k ≤ k') (le : e' ≤ e) (lrl : rl' ≤ rl) (lrc : rc' ≤ rc) :
    kT k e rl rc ≤ kT k' e' rl' rc' := by
  have s0 : kT k e rl rc ≤ kT k' e rl rc := by
    have := kT_mono_k he hrl hrc (k' - k) k (by omega)
    rwa [show k + (k' - k) = k' by omega] at this
  have s1 := (stepT he hrl hrc (by omega : k' < 101)).2.1 e' le
  have s2 := (stepT (by omega : e' < 4) hrl hrc (by omega : k' < 101)).2.2.1 rl' lrl
  have s3 := (stepT (by omega : e' < 4) (by omega : rl' < 4) hrc (by omega : k' < 101)).2.2.2 rc' lrc
  omega

end Proofs.Score3.Mono
