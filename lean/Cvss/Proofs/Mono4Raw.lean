import Cvss.Proofs.Mono4Eff
import Cvss.Proofs.EffKeys
/-!
# v4.0 monotonicity on raw metrics (Spec level)

`scoreK_mono`: for an assignment `val` of legal value strings to the v4.0 metrics, a metric `a` and two legal values
`v₁`, `v₂` with `v₂` at least as severe as `v₁` (`Spec.atLeastAsSevere`: the specification's value order; a Modified
`X` ranks as the base metric's current value; `E:X` as `A`; `CR/IR/AR:X` as `H`; supplemental metrics are not
ordered): `Spec.V4.scoreK (upd val a v₁) ≤ Spec.V4.scoreK (upd val a v₂)`. Nothing here looks at the code.
-/
set_option maxRecDepth 100000
namespace Proofs.Mono4
open Spec Spec.V4
open EffKeys (upd)

/-- legal raw values of a metric (as the metric table lists them) -/
def Rof (a : String) : List Bytes :=
  match findMetric Spec.V4.metrics (b a) with
  | some m => m.values
  | none => []

/-- every metric holds one of its legal values -/
def LegalV (val : Bytes → Bytes) : Prop := ∀ a, isMetric Spec.V4.metrics a = true → legal Spec.V4.metrics a (val a) = true

theorem legalV_upd {val : Bytes → Bytes} (h : LegalV val) {a v : Bytes} (hv : legal Spec.V4.metrics a v = true) :
    LegalV (upd val a v) := by
  intro x hx
  unfold upd
  by_cases e : x = a
  · rw [if_pos e, e]; exact hv
  · rw [if_neg e]; exact h x hx

theorem legal_iff_Rof (a : String) (x : Bytes) : legal Spec.V4.metrics (b a) x = (Rof a).contains x := by
  unfold legal Rof
  cases findMetric Spec.V4.metrics (b a) <;> rfl

theorem raw_mem {val : Bytes → Bytes} (h : LegalV val) (a : String) (ha : isMetric Spec.V4.metrics (b a) = true) :
    val (b a) ∈ Rof a := by
  have := h (b a) ha
  rw [legal_iff_Rof] at this
  exact List.contains_iff_mem.mp this

/-! ## effective values are legal effective values -/

def pairsMB : List (String × String) :=
  [("MAV","AV"),("MAC","AC"),("MAT","AT"),("MPR","PR"),("MUI","UI"),("MVC","VC"),("MVI","VI"),("MVA","VA"),
   ("MSC","SC"),("MSI","SI"),("MSA","SA")]
def defaultsD : List (String × String) := [("E","A"),("CR","H"),("IR","H"),("AR","H")]

def effMemOk (p : String × String) : Bool :=
  (Rof p.1).all fun m => (Rof p.2).all fun x => (Vof p.2).contains (orElse m x)
def dfltMemOk (p : String × String) : Bool := (Rof p.1).all fun v => (Vof p.1).contains (orElse v (b p.2))

theorem effMem_all : pairsMB.all effMemOk = true := by decide +kernel
theorem dfltMem_all : defaultsD.all dfltMemOk = true := by decide +kernel

theorem effMem (M B : String) (hp : (M, B) ∈ pairsMB) {m x : Bytes} (hm : m ∈ Rof M) (hx : x ∈ Rof B) :
    orElse m x ∈ Vof B :=
  List.contains_iff_mem.mp (List.all_eq_true.mp (List.all_eq_true.mp (List.all_eq_true.mp effMem_all _ hp) m hm) x hx)
theorem dfltMem (a d : String) (hp : (a, d) ∈ defaultsD) {v : Bytes} (hv : v ∈ Rof a) : orElse v (b d) ∈ Vof a :=
  List.contains_iff_mem.mp (List.all_eq_true.mp (List.all_eq_true.mp dfltMem_all _ hp) v hv)

theorem legalE_of (val : Bytes → Bytes) (h : LegalV val) : LegalE (effective val) where
  AV := effMem "MAV" "AV" (by decide) (raw_mem h "MAV" (by decide)) (raw_mem h "AV" (by decide))
  AC := effMem "MAC" "AC" (by decide) (raw_mem h "MAC" (by decide)) (raw_mem h "AC" (by decide))
  AT := effMem "MAT" "AT" (by decide) (raw_mem h "MAT" (by decide)) (raw_mem h "AT" (by decide))
  PR := effMem "MPR" "PR" (by decide) (raw_mem h "MPR" (by decide)) (raw_mem h "PR" (by decide))
  UI := effMem "MUI" "UI" (by decide) (raw_mem h "MUI" (by decide)) (raw_mem h "UI" (by decide))
  VC := effMem "MVC" "VC" (by decide) (raw_mem h "MVC" (by decide)) (raw_mem h "VC" (by decide))
  VI := effMem "MVI" "VI" (by decide) (raw_mem h "MVI" (by decide)) (raw_mem h "VI" (by decide))
  VA := effMem "MVA" "VA" (by decide) (raw_mem h "MVA" (by decide)) (raw_mem h "VA" (by decide))
  SC := effMem "MSC" "SC" (by decide) (raw_mem h "MSC" (by decide)) (raw_mem h "SC" (by decide))
  SI := effMem "MSI" "SI" (by decide) (raw_mem h "MSI" (by decide)) (raw_mem h "SI" (by decide))
  SA := effMem "MSA" "SA" (by decide) (raw_mem h "MSA" (by decide)) (raw_mem h "SA" (by decide))
  E := dfltMem "E" "A" (by decide) (raw_mem h "E" (by decide))
  CR := dfltMem "CR" "H" (by decide) (raw_mem h "CR" (by decide))
  IR := dfltMem "IR" "H" (by decide) (raw_mem h "IR" (by decide))
  AR := dfltMem "AR" "H" (by decide) (raw_mem h "AR" (by decide))

/-! ## one raw step is one at-least-as-severe step of the effective value -/

abbrev als := atLeastAsSevere Spec.V4.metrics Spec.V4.rank

/-- Modified metric `M` over base `B`: the effective value goes from `orElse v₁ base` to `orElse v₂ base` -/
def stepMOk (p : String × String) : Bool :=
  (Rof p.2).all fun base => (Rof p.1).all fun v₁ => (Rof p.1).all fun v₂ =>
    !(als (fun _ => base) (b p.1) v₁ v₂) || Nat.ble (sev (b p.2) (orElse v₂ base)) (sev (b p.2) (orElse v₁ base))
/-- base metric `B` under Modified `M` -/
def stepBOk (p : String × String) : Bool :=
  (Rof p.1).all fun m => (Rof p.2).all fun v₁ => (Rof p.2).all fun v₂ =>
    !(als (fun _ => []) (b p.2) v₁ v₂) || Nat.ble (sev (b p.2) (orElse m v₂)) (sev (b p.2) (orElse m v₁))
/-- metric with a default for `X` -/
def stepDOk (p : String × String) : Bool :=
  (Rof p.1).all fun v₁ => (Rof p.1).all fun v₂ =>
    !(als (fun _ => []) (b p.1) v₁ v₂) || Nat.ble (sev (b p.1) (orElse v₂ (b p.2))) (sev (b p.1) (orElse v₁ (b p.2)))

theorem stepM_all : pairsMB.all stepMOk = true := by decide +kernel
theorem stepB_all : pairsMB.all stepBOk = true := by decide +kernel
theorem stepD_all : defaultsD.all stepDOk = true := by decide +kernel

theorem als_const {val : Bytes → Bytes} {a base v₁ v₂ : Bytes} (hb : baseOf Spec.V4.metrics a = some base) :
    als val a v₁ v₂ = als (fun _ => val base) a v₁ v₂ := by
  unfold als atLeastAsSevere rankCtx
  rw [hb]

theorem als_none {val : Bytes → Bytes} {a v₁ v₂ : Bytes} (hb : baseOf Spec.V4.metrics a = none) :
    als val a v₁ v₂ = als (fun _ => []) a v₁ v₂ := by
  unfold als atLeastAsSevere rankCtx
  rw [hb]

theorem stepM (M B : String) (hp : (M, B) ∈ pairsMB) (hb : baseOf Spec.V4.metrics (b M) = some (b B))
    {val : Bytes → Bytes} {v₁ v₂ : Bytes} (hbase : val (b B) ∈ Rof B) (h₁ : v₁ ∈ Rof M) (h₂ : v₂ ∈ Rof M)
    (hs : als val (b M) v₁ v₂ = true) :
    sev (b B) (orElse v₂ (val (b B))) ≤ sev (b B) (orElse v₁ (val (b B))) := by
  have := List.all_eq_true.mp (List.all_eq_true.mp (List.all_eq_true.mp (List.all_eq_true.mp stepM_all _ hp) _ hbase) _ h₁) _ h₂
  rw [als_const hb] at hs
  rw [hs] at this
  exact Nat.le_of_ble_eq_true (by simpa using this)

theorem stepB (M B : String) (hp : (M, B) ∈ pairsMB) (hb : baseOf Spec.V4.metrics (b B) = none)
    {val : Bytes → Bytes} {m v₁ v₂ : Bytes} (hm : m ∈ Rof M) (h₁ : v₁ ∈ Rof B) (h₂ : v₂ ∈ Rof B)
    (hs : als val (b B) v₁ v₂ = true) :
    sev (b B) (orElse m v₂) ≤ sev (b B) (orElse m v₁) := by
  have := List.all_eq_true.mp (List.all_eq_true.mp (List.all_eq_true.mp (List.all_eq_true.mp stepB_all _ hp) _ hm) _ h₁) _ h₂
  rw [als_none hb] at hs
  rw [hs] at this
  exact Nat.le_of_ble_eq_true (by simpa using this)

theorem stepD (a d : String) (hp : (a, d) ∈ defaultsD) (hb : baseOf Spec.V4.metrics (b a) = none)
    {val : Bytes → Bytes} {v₁ v₂ : Bytes} (h₁ : v₁ ∈ Rof a) (h₂ : v₂ ∈ Rof a) (hs : als val (b a) v₁ v₂ = true) :
    sev (b a) (orElse v₂ (b d)) ≤ sev (b a) (orElse v₁ (b d)) := by
  have := List.all_eq_true.mp (List.all_eq_true.mp (List.all_eq_true.mp stepD_all _ hp) _ h₁) _ h₂
  rw [als_none hb] at hs
  rw [hs] at this
  exact Nat.le_of_ble_eq_true (by simpa using this)

theorem mem_Rof_of_legal {a : String} {v : Bytes} (h : legal Spec.V4.metrics (b a) v = true) : v ∈ Rof a := by
  rw [legal_iff_Rof] at h; exact List.contains_iff_mem.mp h

/-- rewriting `upd` at concrete abbreviations -/
macro "upd_simp" : tactic => `(tactic|
  simp (disch := decide) only [EffKeys.upd, if_pos, if_neg, if_true, if_false])

theorem mono_MAV (val : Bytes → Bytes) (hv : LegalV val) (v₁ v₂ : Bytes)
    (h₁ : legal Spec.V4.metrics (b "MAV") v₁ = true) (h₂ : legal Spec.V4.metrics (b "MAV") v₂ = true)
    (hs : als val (b "MAV") v₁ v₂ = true) :
    scoreK (upd val (b "MAV") v₁) ≤ scoreK (upd val (b "MAV") v₂) := by
  have hE := legalE_of _ (legalV_upd hv h₁)
  have hx : orElse v₂ (val (b "AV")) ∈ Vof "AV" :=
    effMem "MAV" "AV" (by decide) (mem_Rof_of_legal h₂) (raw_mem hv "AV" (by decide))
  have hsev := stepM "MAV" "AV" (by decide) (by decide) (raw_mem hv "AV" (by decide)) (mem_Rof_of_legal h₁)
    (mem_Rof_of_legal h₂) hs
  have e1 : (effective (upd val (b "MAV") v₁)).AV = orElse v₁ (val (b "AV")) := by
    unfold effective; upd_simp
  have := effMono_AV _ _ hE hx (by rw [e1]; exact hsev)
  have e2 : effective (upd val (b "MAV") v₂) =
      { effective (upd val (b "MAV") v₁) with AV := orElse v₂ (val (b "AV")) } := by
    unfold effective; upd_simp
  unfold scoreK
  rw [e2]
  exact this

theorem mono_AV (val : Bytes → Bytes) (hv : LegalV val) (v₁ v₂ : Bytes)
    (h₁ : legal Spec.V4.metrics (b "AV") v₁ = true) (h₂ : legal Spec.V4.metrics (b "AV") v₂ = true)
    (hs : als val (b "AV") v₁ v₂ = true) :
    scoreK (upd val (b "AV") v₁) ≤ scoreK (upd val (b "AV") v₂) := by
  have hE := legalE_of _ (legalV_upd hv h₁)
  have hx : orElse (val (b "MAV")) v₂ ∈ Vof "AV" :=
    effMem "MAV" "AV" (by decide) (raw_mem hv "MAV" (by decide)) (mem_Rof_of_legal h₂)
  have hsev := stepB "MAV" "AV" (by decide) (by decide) (val := val) (raw_mem hv "MAV" (by decide)) (mem_Rof_of_legal h₁)
    (mem_Rof_of_legal h₂) hs
  have e1 : (effective (upd val (b "AV") v₁)).AV = orElse (val (b "MAV")) v₁ := by
    unfold effective; upd_simp
  have := effMono_AV _ _ hE hx (by rw [e1]; exact hsev)
  have e2 : effective (upd val (b "AV") v₂) =
      { effective (upd val (b "AV") v₁) with AV := orElse (val (b "MAV")) v₂ } := by
    unfold effective; upd_simp
  unfold scoreK
  rw [e2]
  exact this

theorem mono_MAC (val : Bytes → Bytes) (hv : LegalV val) (v₁ v₂ : Bytes)
    (h₁ : legal Spec.V4.metrics (b "MAC") v₁ = true) (h₂ : legal Spec.V4.metrics (b "MAC") v₂ = true)
    (hs : als val (b "MAC") v₁ v₂ = true) :
    scoreK (upd val (b "MAC") v₁) ≤ scoreK (upd val (b "MAC") v₂) := by
  have hE := legalE_of _ (legalV_upd hv h₁)
  have hx : orElse v₂ (val (b "AC")) ∈ Vof "AC" :=
    effMem "MAC" "AC" (by decide) (mem_Rof_of_legal h₂) (raw_mem hv "AC" (by decide))
  have hsev := stepM "MAC" "AC" (by decide) (by decide) (raw_mem hv "AC" (by decide)) (mem_Rof_of_legal h₁)
    (mem_Rof_of_legal h₂) hs
  have e1 : (effective (upd val (b "MAC") v₁)).AC = orElse v₁ (val (b "AC")) := by
    unfold effective; upd_simp
  have := effMono_AC _ _ hE hx (by rw [e1]; exact hsev)
  have e2 : effective (upd val (b "MAC") v₂) =
      { effective (upd val (b "MAC") v₁) with AC := orElse v₂ (val (b "AC")) } := by
    unfold effective; upd_simp
  unfold scoreK
  rw [e2]
  exact this

theorem mono_AC (val : Bytes → Bytes) (hv : LegalV val) (v₁ v₂ : Bytes)
    (h₁ : legal Spec.V4.metrics (b "AC") v₁ = true) (h₂ : legal Spec.V4.metrics (b "AC") v₂ = true)
    (hs : als val (b "AC") v₁ v₂ = true) :
    scoreK (upd val (b "AC") v₁) ≤ scoreK (upd val (b "AC") v₂) := by
  have hE := legalE_of _ (legalV_upd hv h₁)
  have hx : orElse (val (b "MAC")) v₂ ∈ Vof "AC" :=
    effMem "MAC" "AC" (by decide) (raw_mem hv "MAC" (by decide)) (mem_Rof_of_legal h₂)
  have hsev := stepB "MAC" "AC" (by decide) (by decide) (val := val) (raw_mem hv "MAC" (by decide)) (mem_Rof_of_legal h₁)
    (mem_Rof_of_legal h₂) hs
  have e1 : (effective (upd val (b "AC") v₁)).AC = orElse (val (b "MAC")) v₁ := by
    unfold effective; upd_simp
  have := effMono_AC _ _ hE hx (by rw [e1]; exact hsev)
  have e2 : effective (upd val (b "AC") v₂) =
      { effective (upd val (b "AC") v₁) with AC := orElse (val (b "MAC")) v₂ } := by
    unfold effective; upd_simp
  unfold scoreK
  rw [e2]
  exact this

theorem mono_MAT (val : Bytes → Bytes) (hv : LegalV val) (v₁ v₂ : Bytes)
    (h₁ : legal Spec.V4.metrics (b "MAT") v₁ = true) (h₂ : legal Spec.V4.metrics (b "MAT") v₂ = true)
    (hs : als val (b "MAT") v₁ v₂ = true) :
    scoreK (upd val (b "MAT") v₁) ≤ scoreK (upd val (b "MAT") v₂) := by
  have hE := legalE_of _ (legalV_upd hv h₁)
  have hx : orElse v₂ (val (b "AT")) ∈ Vof "AT" :=
    effMem "MAT" "AT" (by decide) (mem_Rof_of_legal h₂) (raw_mem hv "AT" (by decide))
  have hsev := stepM "MAT" "AT" (by decide) (by decide) (raw_mem hv "AT" (by decide)) (mem_Rof_of_legal h₁)
    (mem_Rof_of_legal h₂) hs
  have e1 : (effective (upd val (b "MAT") v₁)).AT = orElse v₁ (val (b "AT")) := by
    unfold effective; upd_simp
  have := effMono_AT _ _ hE hx (by rw [e1]; exact hsev)
  have e2 : effective (upd val (b "MAT") v₂) =
      { effective (upd val (b "MAT") v₁) with AT := orElse v₂ (val (b "AT")) } := by
    unfold effective; upd_simp
  unfold scoreK
  rw [e2]
  exact this

theorem mono_AT (val : Bytes → Bytes) (hv : LegalV val) (v₁ v₂ : Bytes)
    (h₁ : legal Spec.V4.metrics (b "AT") v₁ = true) (h₂ : legal Spec.V4.metrics (b "AT") v₂ = true)
    (hs : als val (b "AT") v₁ v₂ = true) :
    scoreK (upd val (b "AT") v₁) ≤ scoreK (upd val (b "AT") v₂) := by
  have hE := legalE_of _ (legalV_upd hv h₁)
  have hx : orElse (val (b "MAT")) v₂ ∈ Vof "AT" :=
    effMem "MAT" "AT" (by decide) (raw_mem hv "MAT" (by decide)) (mem_Rof_of_legal h₂)
  have hsev := stepB "MAT" "AT" (by decide) (by decide) (val := val) (raw_mem hv "MAT" (by decide)) (mem_Rof_of_legal h₁)
    (mem_Rof_of_legal h₂) hs
  have e1 : (effective (upd val (b "AT") v₁)).AT = orElse (val (b "MAT")) v₁ := by
    unfold effective; upd_simp
  have := effMono_AT _ _ hE hx (by rw [e1]; exact hsev)
  have e2 : effective (upd val (b "AT") v₂) =
      { effective (upd val (b "AT") v₁) with AT := orElse (val (b "MAT")) v₂ } := by
    unfold effective; upd_simp
  unfold scoreK
  rw [e2]
  exact this

theorem mono_MPR (val : Bytes → Bytes) (hv : LegalV val) (v₁ v₂ : Bytes)
    (h₁ : legal Spec.V4.metrics (b "MPR") v₁ = true) (h₂ : legal Spec.V4.metrics (b "MPR") v₂ = true)
    (hs : als val (b "MPR") v₁ v₂ = true) :
    scoreK (upd val (b "MPR") v₁) ≤ scoreK (upd val (b "MPR") v₂) := by
  have hE := legalE_of _ (legalV_upd hv h₁)
  have hx : orElse v₂ (val (b "PR")) ∈ Vof "PR" :=
    effMem "MPR" "PR" (by decide) (mem_Rof_of_legal h₂) (raw_mem hv "PR" (by decide))
  have hsev := stepM "MPR" "PR" (by decide) (by decide) (raw_mem hv "PR" (by decide)) (mem_Rof_of_legal h₁)
    (mem_Rof_of_legal h₂) hs
  have e1 : (effective (upd val (b "MPR") v₁)).PR = orElse v₁ (val (b "PR")) := by
    unfold effective; upd_simp
  have := effMono_PR _ _ hE hx (by rw [e1]; exact hsev)
  have e2 : effective (upd val (b "MPR") v₂) =
      { effective (upd val (b "MPR") v₁) with PR := orElse v₂ (val (b "PR")) } := by
    unfold effective; upd_simp
  unfold scoreK
  rw [e2]
  exact this

theorem mono_PR (val : Bytes → Bytes) (hv : LegalV val) (v₁ v₂ : Bytes)
    (h₁ : legal Spec.V4.metrics (b "PR") v₁ = true) (h₂ : legal Spec.V4.metrics (b "PR") v₂ = true)
    (hs : als val (b "PR") v₁ v₂ = true) :
    scoreK (upd val (b "PR") v₁) ≤ scoreK (upd val (b "PR") v₂) := by
  have hE := legalE_of _ (legalV_upd hv h₁)
  have hx : orElse (val (b "MPR")) v₂ ∈ Vof "PR" :=
    effMem "MPR" "PR" (by decide) (raw_mem hv "MPR" (by decide)) (mem_Rof_of_legal h₂)
  have hsev := stepB "MPR" "PR" (by decide) (by decide) (val := val) (raw_mem hv "MPR" (by decide)) (mem_Rof_of_legal h₁)
    (mem_Rof_of_legal h₂) hs
  have e1 : (effective (upd val (b "PR") v₁)).PR = orElse (val (b "MPR")) v₁ := by
    unfold effective; upd_simp
  have := effMono_PR _ _ hE hx (by rw [e1]; exact hsev)
  have e2 : effective (upd val (b "PR") v₂) =
      { effective (upd val (b "PR") v₁) with PR := orElse (val (b "MPR")) v₂ } := by
    unfold effective; upd_simp
  unfold scoreK
  rw [e2]
  exact this

theorem mono_MUI (val : Bytes → Bytes) (hv : LegalV val) (v₁ v₂ : Bytes)
    (h₁ : legal Spec.V4.metrics (b "MUI") v₁ = true) (h₂ : legal Spec.V4.metrics (b "MUI") v₂ = true)
    (hs : als val (b "MUI") v₁ v₂ = true) :
    scoreK (upd val (b "MUI") v₁) ≤ scoreK (upd val (b "MUI") v₂) := by
  have hE := legalE_of _ (legalV_upd hv h₁)
  have hx : orElse v₂ (val (b "UI")) ∈ Vof "UI" :=
    effMem "MUI" "UI" (by decide) (mem_Rof_of_legal h₂) (raw_mem hv "UI" (by decide))
  have hsev := stepM "MUI" "UI" (by decide) (by decide) (raw_mem hv "UI" (by decide)) (mem_Rof_of_legal h₁)
    (mem_Rof_of_legal h₂) hs
  have e1 : (effective (upd val (b "MUI") v₁)).UI = orElse v₁ (val (b "UI")) := by
    unfold effective; upd_simp
  have := effMono_UI _ _ hE hx (by rw [e1]; exact hsev)
  have e2 : effective (upd val (b "MUI") v₂) =
      { effective (upd val (b "MUI") v₁) with UI := orElse v₂ (val (b "UI")) } := by
    unfold effective; upd_simp
  unfold scoreK
  rw [e2]
  exact this

theorem mono_UI (val : Bytes → Bytes) (hv : LegalV val) (v₁ v₂ : Bytes)
    (h₁ : legal Spec.V4.metrics (b "UI") v₁ = true) (h₂ : legal Spec.V4.metrics (b "UI") v₂ = true)
    (hs : als val (b "UI") v₁ v₂ = true) :
    scoreK (upd val (b "UI") v₁) ≤ scoreK (upd val (b "UI") v₂) := by
  have hE := legalE_of _ (legalV_upd hv h₁)
  have hx : orElse (val (b "MUI")) v₂ ∈ Vof "UI" :=
    effMem "MUI" "UI" (by decide) (raw_mem hv "MUI" (by decide)) (mem_Rof_of_legal h₂)
  have hsev := stepB "MUI" "UI" (by decide) (by decide) (val := val) (raw_mem hv "MUI" (by decide)) (mem_Rof_of_legal h₁)
    (mem_Rof_of_legal h₂) hs
  have e1 : (effective (upd val (b "UI") v₁)).UI = orElse (val (b "MUI")) v₁ := by
    unfold effective; upd_simp
  have := effMono_UI _ _ hE hx (by rw [e1]; exact hsev)
  have e2 : effective (upd val (b "UI") v₂) =
      { effective (upd val (b "UI") v₁) with UI := orElse (val (b "MUI")) v₂ } := by
    unfold effective; upd_simp
  unfold scoreK
  rw [e2]
  exact this

theorem mono_MVC (val : Bytes → Bytes) (hv : LegalV val) (v₁ v₂ : Bytes)
    (h₁ : legal Spec.V4.metrics (b "MVC") v₁ = true) (h₂ : legal Spec.V4.metrics (b "MVC") v₂ = true)
    (hs : als val (b "MVC") v₁ v₂ = true) :
    scoreK (upd val (b "MVC") v₁) ≤ scoreK (upd val (b "MVC") v₂) := by
  have hE := legalE_of _ (legalV_upd hv h₁)
  have hx : orElse v₂ (val (b "VC")) ∈ Vof "VC" :=
    effMem "MVC" "VC" (by decide) (mem_Rof_of_legal h₂) (raw_mem hv "VC" (by decide))
  have hsev := stepM "MVC" "VC" (by decide) (by decide) (raw_mem hv "VC" (by decide)) (mem_Rof_of_legal h₁)
    (mem_Rof_of_legal h₂) hs
  have e1 : (effective (upd val (b "MVC") v₁)).VC = orElse v₁ (val (b "VC")) := by
    unfold effective; upd_simp
  have := effMono_VC _ _ hE hx (by rw [e1]; exact hsev)
  have e2 : effective (upd val (b "MVC") v₂) =
      { effective (upd val (b "MVC") v₁) with VC := orElse v₂ (val (b "VC")) } := by
    unfold effective; upd_simp
  unfold scoreK
  rw [e2]
  exact this

theorem mono_VC (val : Bytes → Bytes) (hv : LegalV val) (v₁ v₂ : Bytes)
    (h₁ : legal Spec.V4.metrics (b "VC") v₁ = true) (h₂ : legal Spec.V4.metrics (b "VC") v₂ = true)
    (hs : als val (b "VC") v₁ v₂ = true) :
    scoreK (upd val (b "VC") v₁) ≤ scoreK (upd val (b "VC") v₂) := by
  have hE := legalE_of _ (legalV_upd hv h₁)
  have hx : orElse (val (b "MVC")) v₂ ∈ Vof "VC" :=
    effMem "MVC" "VC" (by decide) (raw_mem hv "MVC" (by decide)) (mem_Rof_of_legal h₂)
  have hsev := stepB "MVC" "VC" (by decide) (by decide) (val := val) (raw_mem hv "MVC" (by decide)) (mem_Rof_of_legal h₁)
    (mem_Rof_of_legal h₂) hs
  have e1 : (effective (upd val (b "VC") v₁)).VC = orElse (val (b "MVC")) v₁ := by
    unfold effective; upd_simp
  have := effMono_VC _ _ hE hx (by rw [e1]; exact hsev)
  have e2 : effective (upd val (b "VC") v₂) =
      { effective (upd val (b "VC") v₁) with VC := orElse (val (b "MVC")) v₂ } := by
    unfold effective; upd_simp
  unfold scoreK
  rw [e2]
  exact this

theorem mono_MVI (val : Bytes → Bytes) (hv : LegalV val) (v₁ v₂ : Bytes)
    (h₁ : legal Spec.V4.metrics (b "MVI") v₁ = true) (h₂ : legal Spec.V4.metrics (b "MVI") v₂ = true)
    (hs : als val (b "MVI") v₁ v₂ = true) :
    scoreK (upd val (b "MVI") v₁) ≤ scoreK (upd val (b "MVI") v₂) := by
  have hE := legalE_of _ (legalV_upd hv h₁)
  have hx : orElse v₂ (val (b "VI")) ∈ Vof "VI" :=
    effMem "MVI" "VI" (by decide) (mem_Rof_of_legal h₂) (raw_mem hv "VI" (by decide))
  have hsev := stepM "MVI" "VI" (by decide) (by decide) (raw_mem hv "VI" (by decide)) (mem_Rof_of_legal h₁)
    (mem_Rof_of_legal h₂) hs
  have e1 : (effective (upd val (b "MVI") v₁)).VI = orElse v₁ (val (b "VI")) := by
    unfold effective; upd_simp
  have := effMono_VI _ _ hE hx (by rw [e1]; exact hsev)
  have e2 : effective (upd val (b "MVI") v₂) =
      { effective (upd val (b "MVI") v₁) with VI := orElse v₂ (val (b "VI")) } := by
    unfold effective; upd_simp
  unfold scoreK
  rw [e2]
  exact this

theorem mono_VI (val : Bytes → Bytes) (hv : LegalV val) (v₁ v₂ : Bytes)
    (h₁ : legal Spec.V4.metrics (b "VI") v₁ = true) (h₂ : legal Spec.V4.metrics (b "VI") v₂ = true)
    (hs : als val (b "VI") v₁ v₂ = true) :
    scoreK (upd val (b "VI") v₁) ≤ scoreK (upd val (b "VI") v₂) := by
  have hE := legalE_of _ (legalV_upd hv h₁)
  have hx : orElse (val (b "MVI")) v₂ ∈ Vof "VI" :=
    effMem "MVI" "VI" (by decide) (raw_mem hv "MVI" (by decide)) (mem_Rof_of_legal h₂)
  have hsev := stepB "MVI" "VI" (by decide) (by decide) (val := val) (raw_mem hv "MVI" (by decide)) (mem_Rof_of_legal h₁)
    (mem_Rof_of_legal h₂) hs
  have e1 : (effective (upd val (b "VI") v₁)).VI = orElse (val (b "MVI")) v₁ := by
    unfold effective; upd_simp
  have := effMono_VI _ _ hE hx (by rw [e1]; exact hsev)
  have e2 : effective (upd val (b "VI") v₂) =
      { effective (upd val (b "VI") v₁) with VI := orElse (val (b "MVI")) v₂ } := by
    unfold effective; upd_simp
  unfold scoreK
  rw [e2]
  exact this

theorem mono_MVA (val : Bytes → Bytes) (hv : LegalV val) (v₁ v₂ : Bytes)
    (h₁ : legal Spec.V4.metrics (b "MVA") v₁ = true) (h₂ : legal Spec.V4.metrics (b "MVA") v₂ = true)
    (hs : als val (b "MVA") v₁ v₂ = true) :
    scoreK (upd val (b "MVA") v₁) ≤ scoreK (upd val (b "MVA") v₂) := by
  have hE := legalE_of _ (legalV_upd hv h₁)
  have hx : orElse v₂ (val (b "VA")) ∈ Vof "VA" :=
    effMem "MVA" "VA" (by decide) (mem_Rof_of_legal h₂) (raw_mem hv "VA" (by decide))
  have hsev := stepM "MVA" "VA" (by decide) (by decide) (raw_mem hv "VA" (by decide)) (mem_Rof_of_legal h₁)
    (mem_Rof_of_legal h₂) hs
  have e1 : (effective (upd val (b "MVA") v₁)).VA = orElse v₁ (val (b "VA")) := by
    unfold effective; upd_simp
  have := effMono_VA _ _ hE hx (by rw [e1]; exact hsev)
  have e2 : effective (upd val (b "MVA") v₂) =
      { effective (upd val (b "MVA") v₁) with VA := orElse v₂ (val (b "VA")) } := by
    unfold effective; upd_simp
  unfold scoreK
  rw [e2]
  exact this

theorem mono_VA (val : Bytes → Bytes) (hv : LegalV val) (v₁ v₂ : Bytes)
    (h₁ : legal Spec.V4.metrics (b "VA") v₁ = true) (h₂ : legal Spec.V4.metrics (b "VA") v₂ = true)
    (hs : als val (b "VA") v₁ v₂ = true) :
    scoreK (upd val (b "VA") v₁) ≤ scoreK (upd val (b "VA") v₂) := by
  have hE := legalE_of _ (legalV_upd hv h₁)
  have hx : orElse (val (b "MVA")) v₂ ∈ Vof "VA" :=
    effMem "MVA" "VA" (by decide) (raw_mem hv "MVA" (by decide)) (mem_Rof_of_legal h₂)
  have hsev := stepB "MVA" "VA" (by decide) (by decide) (val := val) (raw_mem hv "MVA" (by decide)) (mem_Rof_of_legal h₁)
    (mem_Rof_of_legal h₂) hs
  have e1 : (effective (upd val (b "VA") v₁)).VA = orElse (val (b "MVA")) v₁ := by
    unfold effective; upd_simp
  have := effMono_VA _ _ hE hx (by rw [e1]; exact hsev)
  have e2 : effective (upd val (b "VA") v₂) =
      { effective (upd val (b "VA") v₁) with VA := orElse (val (b "MVA")) v₂ } := by
    unfold effective; upd_simp
  unfold scoreK
  rw [e2]
  exact this

theorem mono_MSC (val : Bytes → Bytes) (hv : LegalV val) (v₁ v₂ : Bytes)
    (h₁ : legal Spec.V4.metrics (b "MSC") v₁ = true) (h₂ : legal Spec.V4.metrics (b "MSC") v₂ = true)
    (hs : als val (b "MSC") v₁ v₂ = true) :
    scoreK (upd val (b "MSC") v₁) ≤ scoreK (upd val (b "MSC") v₂) := by
  have hE := legalE_of _ (legalV_upd hv h₁)
  have hx : orElse v₂ (val (b "SC")) ∈ Vof "SC" :=
    effMem "MSC" "SC" (by decide) (mem_Rof_of_legal h₂) (raw_mem hv "SC" (by decide))
  have hsev := stepM "MSC" "SC" (by decide) (by decide) (raw_mem hv "SC" (by decide)) (mem_Rof_of_legal h₁)
    (mem_Rof_of_legal h₂) hs
  have e1 : (effective (upd val (b "MSC") v₁)).SC = orElse v₁ (val (b "SC")) := by
    unfold effective; upd_simp
  have := effMono_SC _ _ hE hx (by rw [e1]; exact hsev)
  have e2 : effective (upd val (b "MSC") v₂) =
      { effective (upd val (b "MSC") v₁) with SC := orElse v₂ (val (b "SC")) } := by
    unfold effective; upd_simp
  unfold scoreK
  rw [e2]
  exact this

theorem mono_SC (val : Bytes → Bytes) (hv : LegalV val) (v₁ v₂ : Bytes)
    (h₁ : legal Spec.V4.metrics (b "SC") v₁ = true) (h₂ : legal Spec.V4.metrics (b "SC") v₂ = true)
    (hs : als val (b "SC") v₁ v₂ = true) :
    scoreK (upd val (b "SC") v₁) ≤ scoreK (upd val (b "SC") v₂) := by
  have hE := legalE_of _ (legalV_upd hv h₁)
  have hx : orElse (val (b "MSC")) v₂ ∈ Vof "SC" :=
    effMem "MSC" "SC" (by decide) (raw_mem hv "MSC" (by decide)) (mem_Rof_of_legal h₂)
  have hsev := stepB "MSC" "SC" (by decide) (by decide) (val := val) (raw_mem hv "MSC" (by decide)) (mem_Rof_of_legal h₁)
    (mem_Rof_of_legal h₂) hs
  have e1 : (effective (upd val (b "SC") v₁)).SC = orElse (val (b "MSC")) v₁ := by
    unfold effective; upd_simp
  have := effMono_SC _ _ hE hx (by rw [e1]; exact hsev)
  have e2 : effective (upd val (b "SC") v₂) =
      { effective (upd val (b "SC") v₁) with SC := orElse (val (b "MSC")) v₂ } := by
    unfold effective; upd_simp
  unfold scoreK
  rw [e2]
  exact this

theorem mono_MSI (val : Bytes → Bytes) (hv : LegalV val) (v₁ v₂ : Bytes)
    (h₁ : legal Spec.V4.metrics (b "MSI") v₁ = true) (h₂ : legal Spec.V4.metrics (b "MSI") v₂ = true)
    (hs : als val (b "MSI") v₁ v₂ = true) :
    scoreK (upd val (b "MSI") v₁) ≤ scoreK (upd val (b "MSI") v₂) := by
  have hE := legalE_of _ (legalV_upd hv h₁)
  have hx : orElse v₂ (val (b "SI")) ∈ Vof "SI" :=
    effMem "MSI" "SI" (by decide) (mem_Rof_of_legal h₂) (raw_mem hv "SI" (by decide))
  have hsev := stepM "MSI" "SI" (by decide) (by decide) (raw_mem hv "SI" (by decide)) (mem_Rof_of_legal h₁)
    (mem_Rof_of_legal h₂) hs
  have e1 : (effective (upd val (b "MSI") v₁)).SI = orElse v₁ (val (b "SI")) := by
    unfold effective; upd_simp
  have := effMono_SI _ _ hE hx (by rw [e1]; exact hsev)
  have e2 : effective (upd val (b "MSI") v₂) =
      { effective (upd val (b "MSI") v₁) with SI := orElse v₂ (val (b "SI")) } := by
    unfold effective; upd_simp
  unfold scoreK
  rw [e2]
  exact this

theorem mono_SI (val : Bytes → Bytes) (hv : LegalV val) (v₁ v₂ : Bytes)
    (h₁ : legal Spec.V4.metrics (b "SI") v₁ = true) (h₂ : legal Spec.V4.metrics (b "SI") v₂ = true)
    (hs : als val (b "SI") v₁ v₂ = true) :
    scoreK (upd val (b "SI") v₁) ≤ scoreK (upd val (b "SI") v₂) := by
  have hE := legalE_of _ (legalV_upd hv h₁)
  have hx : orElse (val (b "MSI")) v₂ ∈ Vof "SI" :=
    effMem "MSI" "SI" (by decide) (raw_mem hv "MSI" (by decide)) (mem_Rof_of_legal h₂)
  have hsev := stepB "MSI" "SI" (by decide) (by decide) (val := val) (raw_mem hv "MSI" (by decide)) (mem_Rof_of_legal h₁)
    (mem_Rof_of_legal h₂) hs
  have e1 : (effective (upd val (b "SI") v₁)).SI = orElse (val (b "MSI")) v₁ := by
    unfold effective; upd_simp
  have := effMono_SI _ _ hE hx (by rw [e1]; exact hsev)
  have e2 : effective (upd val (b "SI") v₂) =
      { effective (upd val (b "SI") v₁) with SI := orElse (val (b "MSI")) v₂ } := by
    unfold effective; upd_simp
  unfold scoreK
  rw [e2]
  exact this

theorem mono_MSA (val : Bytes → Bytes) (hv : LegalV val) (v₁ v₂ : Bytes)
    (h₁ : legal Spec.V4.metrics (b "MSA") v₁ = true) (h₂ : legal Spec.V4.metrics (b "MSA") v₂ = true)
    (hs : als val (b "MSA") v₁ v₂ = true) :
    scoreK (upd val (b "MSA") v₁) ≤ scoreK (upd val (b "MSA") v₂) := by
  have hE := legalE_of _ (legalV_upd hv h₁)
  have hx : orElse v₂ (val (b "SA")) ∈ Vof "SA" :=
    effMem "MSA" "SA" (by decide) (mem_Rof_of_legal h₂) (raw_mem hv "SA" (by decide))
  have hsev := stepM "MSA" "SA" (by decide) (by decide) (raw_mem hv "SA" (by decide)) (mem_Rof_of_legal h₁)
    (mem_Rof_of_legal h₂) hs
  have e1 : (effective (upd val (b "MSA") v₁)).SA = orElse v₁ (val (b "SA")) := by
    unfold effective; upd_simp
  have := effMono_SA _ _ hE hx (by rw [e1]; exact hsev)
  have e2 : effective (upd val (b "MSA") v₂) =
      { effective (upd val (b "MSA") v₁) with SA := orElse v₂ (val (b "SA")) } := by
    unfold effective; upd_simp
  unfold scoreK
  rw [e2]
  exact this

theorem mono_SA (val : Bytes → Bytes) (hv : LegalV val) (v₁ v₂ : Bytes)
    (h₁ : legal Spec.V4.metrics (b "SA") v₁ = true) (h₂ : legal Spec.V4.metrics (b "SA") v₂ = true)
    (hs : als val (b "SA") v₁ v₂ = true) :
    scoreK (upd val (b "SA") v₁) ≤ scoreK (upd val (b "SA") v₂) := by
  have hE := legalE_of _ (legalV_upd hv h₁)
  have hx : orElse (val (b "MSA")) v₂ ∈ Vof "SA" :=
    effMem "MSA" "SA" (by decide) (raw_mem hv "MSA" (by decide)) (mem_Rof_of_legal h₂)
  have hsev := stepB "MSA" "SA" (by decide) (by decide) (val := val) (raw_mem hv "MSA" (by decide)) (mem_Rof_of_legal h₁)
    (mem_Rof_of_legal h₂) hs
  have e1 : (effective (upd val (b "SA") v₁)).SA = orElse (val (b "MSA")) v₁ := by
    unfold effective; upd_simp
  have := effMono_SA _ _ hE hx (by rw [e1]; exact hsev)
  have e2 : effective (upd val (b "SA") v₂) =
      { effective (upd val (b "SA") v₁) with SA := orElse (val (b "MSA")) v₂ } := by
    unfold effective; upd_simp
  unfold scoreK
  rw [e2]
  exact this

theorem mono_E (val : Bytes → Bytes) (hv : LegalV val) (v₁ v₂ : Bytes)
    (h₁ : legal Spec.V4.metrics (b "E") v₁ = true) (h₂ : legal Spec.V4.metrics (b "E") v₂ = true)
    (hs : als val (b "E") v₁ v₂ = true) :
    scoreK (upd val (b "E") v₁) ≤ scoreK (upd val (b "E") v₂) := by
  have hE := legalE_of _ (legalV_upd hv h₁)
  have hx : orElse v₂ (b "A") ∈ Vof "E" := dfltMem "E" "A" (by decide) (mem_Rof_of_legal h₂)
  have hsev := stepD "E" "A" (by decide) (by decide) (val := val) (mem_Rof_of_legal h₁) (mem_Rof_of_legal h₂) hs
  have e1 : (effective (upd val (b "E") v₁)).E = orElse v₁ (b "A") := by
    unfold effective; upd_simp
  have := effMono_E _ _ hE hx (by rw [e1]; exact hsev)
  have e2 : effective (upd val (b "E") v₂) =
      { effective (upd val (b "E") v₁) with E := orElse v₂ (b "A") } := by
    unfold effective; upd_simp
  unfold scoreK
  rw [e2]
  exact this

theorem mono_CR (val : Bytes → Bytes) (hv : LegalV val) (v₁ v₂ : Bytes)
    (h₁ : legal Spec.V4.metrics (b "CR") v₁ = true) (h₂ : legal Spec.V4.metrics (b "CR") v₂ = true)
    (hs : als val (b "CR") v₁ v₂ = true) :
    scoreK (upd val (b "CR") v₁) ≤ scoreK (upd val (b "CR") v₂) := by
  have hE := legalE_of _ (legalV_upd hv h₁)
  have hx : orElse v₂ (b "H") ∈ Vof "CR" := dfltMem "CR" "H" (by decide) (mem_Rof_of_legal h₂)
  have hsev := stepD "CR" "H" (by decide) (by decide) (val := val) (mem_Rof_of_legal h₁) (mem_Rof_of_legal h₂) hs
  have e1 : (effective (upd val (b "CR") v₁)).CR = orElse v₁ (b "H") := by
    unfold effective; upd_simp
  have := effMono_CR _ _ hE hx (by rw [e1]; exact hsev)
  have e2 : effective (upd val (b "CR") v₂) =
      { effective (upd val (b "CR") v₁) with CR := orElse v₂ (b "H") } := by
    unfold effective; upd_simp
  unfold scoreK
  rw [e2]
  exact this

theorem mono_IR (val : Bytes → Bytes) (hv : LegalV val) (v₁ v₂ : Bytes)
    (h₁ : legal Spec.V4.metrics (b "IR") v₁ = true) (h₂ : legal Spec.V4.metrics (b "IR") v₂ = true)
    (hs : als val (b "IR") v₁ v₂ = true) :
    scoreK (upd val (b "IR") v₁) ≤ scoreK (upd val (b "IR") v₂) := by
  have hE := legalE_of _ (legalV_upd hv h₁)
  have hx : orElse v₂ (b "H") ∈ Vof "IR" := dfltMem "IR" "H" (by decide) (mem_Rof_of_legal h₂)
  have hsev := stepD "IR" "H" (by decide) (by decide) (val := val) (mem_Rof_of_legal h₁) (mem_Rof_of_legal h₂) hs
  have e1 : (effective (upd val (b "IR") v₁)).IR = orElse v₁ (b "H") := by
    unfold effective; upd_simp
  have := effMono_IR _ _ hE hx (by rw [e1]; exact hsev)
  have e2 : effective (upd val (b "IR") v₂) =
      { effective (upd val (b "IR") v₁) with IR := orElse v₂ (b "H") } := by
    unfold effective; upd_simp
  unfold scoreK
  rw [e2]
  exact this

theorem mono_AR (val : Bytes → Bytes) (hv : LegalV val) (v₁ v₂ : Bytes)
    (h₁ : legal Spec.V4.metrics (b "AR") v₁ = true) (h₂ : legal Spec.V4.metrics (b "AR") v₂ = true)
    (hs : als val (b "AR") v₁ v₂ = true) :
    scoreK (upd val (b "AR") v₁) ≤ scoreK (upd val (b "AR") v₂) := by
  have hE := legalE_of _ (legalV_upd hv h₁)
  have hx : orElse v₂ (b "H") ∈ Vof "AR" := dfltMem "AR" "H" (by decide) (mem_Rof_of_legal h₂)
  have hsev := stepD "AR" "H" (by decide) (by decide) (val := val) (mem_Rof_of_legal h₁) (mem_Rof_of_legal h₂) hs
  have e1 : (effective (upd val (b "AR") v₁)).AR = orElse v₁ (b "H") := by
    unfold effective; upd_simp
  have := effMono_AR _ _ hE hx (by rw [e1]; exact hsev)
  have e2 : effective (upd val (b "AR") v₂) =
      { effective (upd val (b "AR") v₁) with AR := orElse v₂ (b "H") } := by
    unfold effective; upd_simp
  unfold scoreK
  rw [e2]
  exact this

/-! ## supplemental metrics are not ordered -/

theorem rank_supp (a : Bytes) (ha : a ∈ [b "S", b "AU", b "R", b "V", b "RE", b "U"]) (v : Bytes) :
    Spec.V4.rank a v = none := by
  simp only [List.mem_cons, List.not_mem_nil, or_false] at ha
  rcases ha with rfl | rfl | rfl | rfl | rfl | rfl <;>
    (unfold Spec.V4.rank; simp (disch := decide) only [if_neg])

theorem als_supp (val : Bytes → Bytes) (a : Bytes) (ha : a ∈ [b "S", b "AU", b "R", b "V", b "RE", b "U"]) (v₁ v₂ : Bytes) :
    als val a v₁ v₂ = false := by
  have hb : baseOf Spec.V4.metrics a = none := by
    simp only [List.mem_cons, List.not_mem_nil, or_false] at ha
    rcases ha with rfl | rfl | rfl | rfl | rfl | rfl <;> decide
  unfold als atLeastAsSevere rankCtx
  rw [hb]
  simp only [rank_supp a ha]

theorem names32 : Spec.V4.metrics.map (·.abv) = [b "AV", b "AC", b "AT", b "PR", b "UI", b "VC", b "VI", b "VA", b "SC", b "SI", b "SA", b "E", b "CR", b "IR", b "AR", b "MAV", b "MAC", b "MAT", b "MPR", b "MUI", b "MVC", b "MVI", b "MVA", b "MSC", b "MSI", b "MSA", b "S", b "AU", b "R", b "V", b "RE", b "U"] := by decide

/-- **Spec-level monotonicity of the v4.0 score in every single metric** -/
theorem scoreK_mono (val : Bytes → Bytes) (hv : LegalV val) (a v₁ v₂ : Bytes)
    (h₁ : legal Spec.V4.metrics a v₁ = true) (h₂ : legal Spec.V4.metrics a v₂ = true)
    (hs : atLeastAsSevere Spec.V4.metrics Spec.V4.rank val a v₁ v₂ = true) :
    scoreK (upd val a v₁) ≤ scoreK (upd val a v₂) := by
  have hm : isMetric Spec.V4.metrics a = true := by
    unfold legal at h₁
    unfold isMetric
    cases h : findMetric Spec.V4.metrics a with
    | none => rw [h] at h₁; cases h₁
    | some m => rfl
  have ha := (Bits.isMetric_iff a Spec.V4.metrics).mp hm
  rw [names32] at ha
  simp only [List.mem_cons, List.not_mem_nil, or_false] at ha
  rcases ha with rfl | rfl | rfl | rfl | rfl | rfl | rfl | rfl | rfl | rfl | rfl | rfl | rfl | rfl | rfl | rfl | rfl | rfl | rfl | rfl | rfl | rfl | rfl | rfl | rfl | rfl | rfl | rfl | rfl | rfl | rfl | rfl
  · exact mono_AV val hv v₁ v₂ h₁ h₂ hs
  · exact mono_AC val hv v₁ v₂ h₁ h₂ hs
  · exact mono_AT val hv v₁ v₂ h₁ h₂ hs
  · exact mono_PR val hv v₁ v₂ h₁ h₂ hs
  · exact mono_UI val hv v₁ v₂ h₁ h₂ hs
  · exact mono_VC val hv v₁ v₂ h₁ h₂ hs
  · exact mono_VI val hv v₁ v₂ h₁ h₂ hs
  · exact mono_VA val hv v₁ v₂ h₁ h₂ hs
  · exact mono_SC val hv v₁ v₂ h₁ h₂ hs
  · exact mono_SI val hv v₁ v₂ h₁ h₂ hs
  · exact mono_SA val hv v₁ v₂ h₁ h₂ hs
  · exact mono_E val hv v₁ v₂ h₁ h₂ hs
  · exact mono_CR val hv v₁ v₂ h₁ h₂ hs
  · exact mono_IR val hv v₁ v₂ h₁ h₂ hs
  · exact mono_AR val hv v₁ v₂ h₁ h₂ hs
  · exact mono_MAV val hv v₁ v₂ h₁ h₂ hs
  · exact mono_MAC val hv v₁ v₂ h₁ h₂ hs
  · exact mono_MAT val hv v₁ v₂ h₁ h₂ hs
  · exact mono_MPR val hv v₁ v₂ h₁ h₂ hs
  · exact mono_MUI val hv v₁ v₂ h₁ h₂ hs
  · exact mono_MVC val hv v₁ v₂ h₁ h₂ hs
  · exact mono_MVI val hv v₁ v₂ h₁ h₂ hs
  · exact mono_MVA val hv v₁ v₂ h₁ h₂ hs
  · exact mono_MSC val hv v₁ v₂ h₁ h₂ hs
  · exact mono_MSI val hv v₁ v₂ h₁ h₂ hs
  · exact mono_MSA val hv v₁ v₂ h₁ h₂ hs
  · rw [show atLeastAsSevere Spec.V4.metrics Spec.V4.rank val (b "S") v₁ v₂ = false from als_supp val _ (by decide) v₁ v₂] at hs; cases hs
  · rw [show atLeastAsSevere Spec.V4.metrics Spec.V4.rank val (b "AU") v₁ v₂ = false from als_supp val _ (by decide) v₁ v₂] at hs; cases hs
  · rw [show atLeastAsSevere Spec.V4.metrics Spec.V4.rank val (b "R") v₁ v₂ = false from als_supp val _ (by decide) v₁ v₂] at hs; cases hs
  · rw [show atLeastAsSevere Spec.V4.metrics Spec.V4.rank val (b "V") v₁ v₂ = false from als_supp val _ (by decide) v₁ v₂] at hs; cases hs
  · rw [show atLeastAsSevere Spec.V4.metrics Spec.V4.rank val (b "RE") v₁ v₂ = false from als_supp val _ (by decide) v₁ v₂] at hs; cases hs
  · rw [show atLeastAsSevere Spec.V4.metrics Spec.V4.rank val (b "U") v₁ v₂ = false from als_supp val _ (by decide) v₁ v₂] at hs; cases hs

end Proofs.Mono4
