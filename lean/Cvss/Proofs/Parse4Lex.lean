import Cvss.Proofs.Contract
/-!
# v4.0 parser proofs, part 1: the lexical layer

`splitSlash` / `cutColon` / `splitColon` against `render` and the v4 body spelling
`body w = "/a₁:v₁/a₂:v₂…"`. Nothing here depends on the metric tables.
-/
namespace Proofs.P4
open Spec (Pair render SLASH COLON)
open Model (Bytes)

theorem mslash : Model.SLASH = SLASH := rfl
theorem mcolon : Model.COLON = COLON := rfl

/-- the part of a v4 vector after the header: every element preceded by `/` -/
def body (w : List Pair) : Bytes := (w.map (fun p => SLASH :: render p)).flatten

@[simp] theorem body_nil : body [] = [] := rfl
@[simp] theorem body_cons (p : Pair) (w : List Pair) : body (p :: w) = SLASH :: (render p ++ body w) := by
  simp [body]

theorem body_append (w₁ w₂ : List Pair) : body (w₁ ++ w₂) = body w₁ ++ body w₂ := by
  simp [body]

/-! ## `splitSlash` -/

theorem splitSlash_cons_slash (cs : Bytes) : Model.splitSlash (SLASH :: cs) = [] :: Model.splitSlash cs := by
  simp [Model.splitSlash, mslash]

theorem splitSlash_ne_nil : ∀ r : Bytes, Model.splitSlash r ≠ []
  | [] => by simp [Model.splitSlash]
  | c :: cs => by
    unfold Model.splitSlash
    split
    · simp
    · split <;> simp

theorem splitSlash_cons_ne {c : Nat} (hc : c ≠ SLASH) (cs : Bytes) :
    ∃ h t, Model.splitSlash cs = h :: t ∧ Model.splitSlash (c :: cs) = (c :: h) :: t := by
  have hne := splitSlash_ne_nil cs
  rw [Model.splitSlash, if_neg (by rwa [mslash])]
  generalize Model.splitSlash cs = l at hne ⊢
  cases l with
  | nil => exact absurd rfl hne
  | cons h t => exact ⟨h, t, rfl, rfl⟩

theorem splitSlash_noslash : ∀ {a : Bytes}, SLASH ∉ a → Model.splitSlash a = [a]
  | [], _ => rfl
  | c :: cs, h => by
    have hc : c ≠ SLASH := fun e => h (by simp [e])
    have hcs : SLASH ∉ cs := fun e => h (by simp [e])
    obtain ⟨h', t, e1, e2⟩ := splitSlash_cons_ne hc cs
    rw [splitSlash_noslash hcs] at e1
    rw [e2]; simp at e1; simp [e1]

theorem splitSlash_append : ∀ {a : Bytes}, SLASH ∉ a → ∀ r : Bytes,
    Model.splitSlash (a ++ SLASH :: r) = a :: Model.splitSlash r
  | [], _, r => by simp [splitSlash_cons_slash]
  | c :: cs, h, r => by
    have hc : c ≠ SLASH := fun e => h (by simp [e])
    have hcs : SLASH ∉ cs := fun e => h (by simp [e])
    obtain ⟨h', t, e1, e2⟩ := splitSlash_cons_ne hc (cs ++ SLASH :: r)
    rw [splitSlash_append hcs r] at e1
    rw [List.cons_append, e2]; simp at e1; simp [e1]

/-- splitting the tail of a body whose elements are slash-free gives back the elements -/
theorem splitSlash_render_body : ∀ (w : List Pair) (p : Pair), (∀ q ∈ p :: w, SLASH ∉ render q) →
    Model.splitSlash (render p ++ body w) = render p :: w.map render
  | [], p, h => by simpa using splitSlash_noslash (h p (by simp))
  | q :: w, p, h => by
    rw [body_cons, splitSlash_append (h p (by simp)),
      splitSlash_render_body w q (fun x hx => h x (List.mem_cons_of_mem _ hx))]
    simp

/-- every string is the `/`-prefixed concatenation of its `splitSlash` elements -/
theorem flatten_splitSlash : ∀ r : Bytes, ((Model.splitSlash r).map (fun el => SLASH :: el)).flatten = SLASH :: r
  | [] => by simp [Model.splitSlash]
  | c :: cs => by
    by_cases hc : c = SLASH
    · subst hc
      rw [splitSlash_cons_slash]
      simp [flatten_splitSlash cs]
    · obtain ⟨h, t, e1, e2⟩ := splitSlash_cons_ne hc cs
      have ih := flatten_splitSlash cs
      rw [e1] at ih
      rw [e2]
      simp only [List.map_cons, List.flatten_cons, List.cons_append, List.cons.injEq, true_and] at ih ⊢
      rw [ih]

theorem mem_splitSlash_noslash : ∀ (r : Bytes) (el : Bytes), el ∈ Model.splitSlash r → SLASH ∉ el
  | [], el, h => by
    simp [Model.splitSlash] at h; subst h; simp
  | c :: cs, el, h => by
    by_cases hc : c = SLASH
    · subst hc
      rw [splitSlash_cons_slash] at h
      rcases List.mem_cons.mp h with e | e
      · subst e; simp
      · exact mem_splitSlash_noslash cs el e
    · obtain ⟨h', t, e1, e2⟩ := splitSlash_cons_ne hc cs
      rw [e2] at h
      rcases List.mem_cons.mp h with e | e
      · subst e
        have := mem_splitSlash_noslash cs h' (by rw [e1]; simp)
        intro hm
        rcases List.mem_cons.mp hm with e' | e'
        · exact hc e'.symm
        · exact this e'
      · exact mem_splitSlash_noslash cs el (by rw [e1]; exact List.mem_cons_of_mem _ e)

theorem model_split_eq_spec : ∀ r : Bytes, Model.splitSlash r = Spec.splitSlash r
  | [] => rfl
  | c :: cs => by
    unfold Model.splitSlash Spec.splitSlash
    rw [model_split_eq_spec cs]
    rfl

/-! ## `cutColon` / `splitColon` -/

theorem cutColon_render : ∀ {a : Bytes}, COLON ∉ a → ∀ v : Bytes, Model.cutColon (a ++ COLON :: v) = (a, v)
  | [], _, v => by simp [Model.cutColon, mcolon]
  | c :: cs, h, v => by
    have hc : c ≠ COLON := fun e => h (by simp [e])
    have hcs : COLON ∉ cs := fun e => h (by simp [e])
    simp [Model.cutColon, mcolon, hc, cutColon_render hcs v]

theorem cutColon_render' (p : Pair) (h : COLON ∉ p.1) : Model.cutColon (render p) = p := by
  unfold render; rw [cutColon_render h]

theorem render_cutColon : ∀ {el : Bytes}, COLON ∈ el → render (Model.cutColon el) = el
  | [], h => by simp at h
  | c :: cs, h => by
    by_cases hc : c = COLON
    · simp [Model.cutColon, mcolon, hc, render]
    · have hcs : COLON ∈ cs := by
        rcases List.mem_cons.mp h with e | e
        · exact absurd e.symm hc
        · exact e
      have ih := render_cutColon hcs
      simp only [Model.cutColon, mcolon, hc, if_false, render] at ih ⊢
      simp [ih]

theorem cutColon_snd_nil : ∀ {el : Bytes}, COLON ∉ el → (Model.cutColon el).2 = []
  | [], _ => rfl
  | c :: cs, h => by
    have hc : c ≠ COLON := fun e => h (by simp [e])
    have hcs : COLON ∉ cs := fun e => h (by simp [e])
    simp [Model.cutColon, mcolon, hc, cutColon_snd_nil hcs]

theorem cutColon_fst_nocolon : ∀ el : Bytes, COLON ∉ (Model.cutColon el).1
  | [] => by simp [Model.cutColon]
  | c :: cs => by
    by_cases hc : c = COLON
    · simp [Model.cutColon, mcolon, hc]
    · have ih := cutColon_fst_nocolon cs
      simp only [Model.cutColon, mcolon, hc, if_false]
      intro hm
      rcases List.mem_cons.mp hm with e | e
      · exact hc e.symm
      · exact ih e

theorem splitColon_render : ∀ {a : Bytes}, COLON ∉ a → ∀ v : Bytes, Spec.splitColon (a ++ COLON :: v) = some (a, v)
  | [], _, v => by simp [Spec.splitColon]
  | c :: cs, h, v => by
    have hc : c ≠ COLON := fun e => h (by simp [e])
    have hcs : COLON ∉ cs := fun e => h (by simp [e])
    simp [Spec.splitColon, hc, splitColon_render hcs v]

theorem splitColon_some : ∀ {el : Bytes} {p : Pair}, Spec.splitColon el = some p → el = render p ∧ COLON ∉ p.1
  | [], p, h => by simp [Spec.splitColon] at h
  | c :: cs, p, h => by
    by_cases hc : c = COLON
    · simp [Spec.splitColon, hc] at h
      subst h; simp [render, hc]
    · simp only [Spec.splitColon, hc, if_false] at h
      cases hs : Spec.splitColon cs with
      | none => simp [hs] at h
      | some q =>
        obtain ⟨h1, h2⟩ := splitColon_some hs
        rw [hs] at h
        simp only [Option.some.injEq] at h
        subst h
        refine ⟨by simp [render] at h1 ⊢; exact h1, ?_⟩
        intro hm
        rcases List.mem_cons.mp hm with e | e
        · exact hc e.symm
        · exact h2 e

/-- `mapM splitColon` inverts `map render` -/
theorem readPairs_some : ∀ {els : List Bytes} {w : List Pair}, Spec.readPairs els = some w →
    els = w.map render ∧ ∀ p ∈ w, COLON ∉ p.1
  | [], w, h => by
    simp [Spec.readPairs] at h; subst h; simp
  | el :: els, w, h => by
    simp only [Spec.readPairs, List.mapM_cons] at h
    cases h1 : Spec.splitColon el with
    | none => simp [h1] at h
    | some p =>
      cases h2 : List.mapM Spec.splitColon els with
      | none => simp [h1, h2] at h
      | some w' =>
        simp [h1, h2] at h
        subst h
        obtain ⟨e1, c1⟩ := splitColon_some h1
        obtain ⟨e2, c2⟩ := readPairs_some (els := els) (w := w') h2
        refine ⟨by simp [e1, ← e2], ?_⟩
        intro q hq
        rcases List.mem_cons.mp hq with e | e
        · subst e; exact c1
        · exact c2 q e

theorem readPairs_render : ∀ (w : List Pair), (∀ p ∈ w, COLON ∉ p.1) → Spec.readPairs (w.map render) = some w
  | [], _ => by simp [Spec.readPairs]
  | p :: w, h => by
    have ih := readPairs_render w (fun q hq => h q (List.mem_cons_of_mem _ hq))
    simp only [Spec.readPairs] at ih ⊢
    simp only [List.map_cons, List.mapM_cons]
    have : Spec.splitColon (render p) = some p := by
      unfold render; rw [splitColon_render (h p (by simp))]
    simp [this, ih]

end Proofs.P4
