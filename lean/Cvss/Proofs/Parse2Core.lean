import Cvss.Proofs.Parse2Table
/-!
# v2.0 parser proofs, part 4: soundness and completeness of the parser for an arbitrary contract

`parseK K s = .ok c` iff `s` has a witness `w`, and then `c` is the fold of `K.set` over `w` from `K.zero`.
-/
namespace Proofs.Parse2
open Model (Bytes Res cutColon splitN idx2 eValue eOrder eTooShort)
open Spec (joinSlash render Pair abvs legal isMetric findMetric Metric valueOf allLegal)
open Spec.V2 (metrics base temporal environmental shapes Witness G)

/-! ## legality against a metric table -/

theorem findMetric_some {ms : List Metric} {a : Bytes} {m : Metric} (h : findMetric ms a = some m) :
    m ∈ ms ∧ m.abv = a := by
  unfold findMetric at h
  exact ⟨List.mem_of_find?_eq_some h, by simpa using List.find?_some h⟩

theorem legal_spec {ms : List Metric} {a v : Bytes} (h : legal ms a v = true) :
    ∃ m ∈ ms, m.abv = a ∧ v ∈ m.values := by
  unfold legal at h
  cases hf : findMetric ms a with
  | none => simp [hf] at h
  | some m =>
    obtain ⟨h1, h2⟩ := findMetric_some hf
    simp only [hf, List.contains_iff_mem] at h
    exact ⟨m, h1, h2, h⟩

theorem isMetric_of_legal {ms : List Metric} {a v : Bytes} (h : legal ms a v = true) : isMetric ms a = true := by
  unfold legal at h
  unfold isMetric
  cases hf : findMetric ms a with
  | none => simp [hf] at h
  | some m => rfl

theorem isMetric_iff_mem {ms : List Metric} {a : Bytes} : isMetric ms a = true ↔ a ∈ abvs ms := by
  unfold isMetric findMetric abvs
  rw [List.find?_isSome]
  simp only [beq_iff_eq, List.mem_map]

theorem isMetric_false_iff {ms : List Metric} {a : Bytes} : isMetric ms a = false ↔ a ∉ abvs ms := by
  rw [← isMetric_iff_mem]; simp

theorem legal_of_mem {m : Metric} (hm : m ∈ metrics) {v : Bytes} (hv : v ∈ m.values) :
    legal metrics m.abv v = true := by
  unfold legal
  rw [findMetric_self m hm]
  simpa using hv

structure CleanPair (p : Pair) : Prop where
  colon : 58 ∉ p.1
  slash1 : 47 ∉ p.1
  slash2 : 47 ∉ p.2

theorem CleanPair.render_noslash {p : Pair} (h : CleanPair p) : 47 ∉ render p := by
  unfold render
  rw [spec_colon]
  intro hin
  rcases List.mem_append.mp hin with h1 | h1
  · exact h.slash1 h1
  · rcases List.mem_cons.mp h1 with h2 | h2
    · exact absurd h2 (by decide)
    · exact h.slash2 h2

theorem legal_clean {p : Pair} (h : legal metrics p.1 p.2 = true) : CleanPair p := by
  obtain ⟨m, hm, ha, hv⟩ := legal_spec h
  have hc := metrics_clean m hm
  exact ⟨ha ▸ hc.1, ha ▸ hc.2.1, (hc.2.2 _ hv).1⟩

theorem legal_value_ne_nil {a v : Bytes} (h : legal metrics a v = true) : v ≠ [] := by
  obtain ⟨m, hm, _, hv⟩ := legal_spec h
  exact ((metrics_clean m hm).2.2 _ hv).2.2

theorem legal_value_noslash {a v : Bytes} (h : legal metrics a v = true) : 47 ∉ v := by
  obtain ⟨m, hm, _, hv⟩ := legal_spec h
  exact ((metrics_clean m hm).2.2 _ hv).1

theorem metric_name_clean {a : Bytes} (h : isMetric metrics a = true) : 58 ∉ a ∧ 47 ∉ a := by
  rw [isMetric_iff_mem] at h
  obtain ⟨m, hm, rfl⟩ := List.mem_map.mp h
  exact ⟨(metrics_clean m hm).1, (metrics_clean m hm).2.1⟩

/-- a value with a `/` in it is never legal -/
theorem illegal_of_slash (a v more : Bytes) : legal metrics a (v ++ 47 :: more) = false := by
  cases h : legal metrics a (v ++ 47 :: more) with
  | false => rfl
  | true => exact absurd (by simp) (legal_value_noslash h)

/-! ## the contract's `set` -/

section contract
variable (K : Contract Model.O20 metrics)

theorem set_err_iff (c : Model.O20) (a v : Bytes) :
    (K.set c a v).2 = Go.errNil ↔ legal metrics a v = true := by
  constructor
  · intro h
    cases hm : isMetric metrics a with
    | false =>
      rw [K.set_unknown c a v hm] at h
      exact absurd h (by simp [Model.eInvalidMetric, Go.errNil])
    | true =>
      cases hl : legal metrics a v with
      | true => rfl
      | false =>
        rw [K.set_illegal c a v hm hl] at h
        exact absurd h (by simp [Model.eValue, Go.errNil])
  · exact K.set_ok c a v

theorem wf_setAll (c : Model.O20) (ps : List Pair) (h : K.WF c) : K.WF (setAll K.set c ps) := by
  induction ps generalizing c with
  | nil => exact h
  | cons p ps ih => exact ih _ (K.wf_set c p.1 p.2 h)

/-- reading a metric after a fold of successful stores over distinct metrics -/
theorem get_setAll (ps : List Pair) (c : Model.O20) (a : Bytes)
    (hl : ∀ p ∈ ps, legal metrics p.1 p.2 = true) (hn : (ps.map (·.1)).Nodup) (ha : isMetric metrics a = true) :
    K.get (setAll K.set c ps) a =
      match ps.find? (fun p => p.1 == a) with
      | some p => (p.2, Go.errNil)
      | none => K.get c a := by
  induction ps generalizing c with
  | nil => rfl
  | cons p ps ih =>
    simp only [List.map_cons, List.nodup_cons] at hn
    have ih' := ih (K.set c p.1 p.2).1 (fun q hq => hl q (by simp [hq])) hn.2
    have hp := hl p (by simp)
    show K.get (setAll K.set (K.set c p.1 p.2).1 ps) a = _
    rw [ih']
    by_cases hpa : p.1 = a
    · have hnone : ps.find? (fun q => q.1 == a) = none := by
        rw [List.find?_eq_none]
        intro q hq hqa
        simp only [beq_iff_eq] at hqa
        exact hn.1 (List.mem_map.mpr ⟨q, hq, hqa.trans hpa.symm⟩)
      rw [hnone]
      simp only [List.find?_cons, hpa, beq_self_eq_true]
      rw [← hpa]
      exact K.get_set_same c p.1 p.2 hp
    · have : (p.1 == a) = false := by simpa using hpa
      simp only [List.find?_cons, this]
      cases hf : ps.find? (fun q => q.1 == a) with
      | some q => rfl
      | none => exact K.get_set_other c p.1 p.2 a hp ha (fun h => hpa h.symm)

/-! ## soundness of the loop -/

theorem loop_sound (order : List (List Bytes)) (pts : List Bytes) (g i : Nat) (c c' : Model.O20)
    (h : loop2With order K.set pts g i c = .ok c') :
    ∃ ps : List Pair, pts = ps.map render ∧ (∀ p ∈ ps, legal metrics p.1 p.2 = true) ∧
      (∃ g', nrun order (ps.map (·.1)) g i = .ok (g', 0)) ∧ c' = setAll K.set c ps := by
  induction pts generalizing g i c with
  | nil =>
    simp only [loop2With] at h
    split at h
    · cases h
    · rename_i hi
      have hi0 : i = 0 := Classical.not_not.mp hi
      cases h
      exact ⟨[], rfl, by simp, ⟨g, by rw [hi0]; rfl⟩, rfl⟩
  | cons pt rest ih =>
    simp only [loop2With, step2With_eq] at h
    cases hn : nstep order g i (cutColon pt).1 with
    | err e => rw [hn] at h; cases h
    | panic => rw [hn] at h; cases h
    | ok st =>
      rw [hn] at h
      by_cases he : (K.set c (cutColon pt).1 (cutColon pt).2).2 = Go.errNil
      · simp only [he, ne_eq, not_true_eq_false, if_false] at h
        obtain ⟨ps, h1, h2, ⟨g', h3⟩, h4⟩ := ih st.1 st.2 _ h
        have hleg := (set_err_iff K c _ _).mp he
        have hcolon : 58 ∈ pt := by
          apply Classical.byContradiction
          intro hc
          exact legal_value_ne_nil hleg (cutColon_nocolon pt hc)
        refine ⟨cutColon pt :: ps, ?_, ?_, ⟨g', ?_⟩, ?_⟩
        · simp only [List.map_cons, render_cutColon pt hcolon, h1]
        · intro p hp
          rcases List.mem_cons.mp hp with rfl | hp
          · exact hleg
          · exact h2 p hp
        · simp only [List.map_cons, nrun, hn]; exact h3
        · exact h4
      · simp only [he, ne_eq, not_false_eq_true, if_true] at h
        cases h

/-! ## the two directions for the whole parser -/

theorem witness_names {s : Bytes} {w : List Pair} (h : Witness s w) : w.map (·.1) ∈ shapes := h.2.1

theorem witness_len {w : List Pair} (h : w.map (·.1) ∈ shapes) : w ≠ [] ∧ w.length ≤ 14 := by
  have := shapes_len _ h
  refine ⟨?_, by simpa using this.2⟩
  intro hw; subst hw; exact this.1 rfl

theorem witness_clean {w : List Pair} (h : allLegal metrics w) : ∀ p ∈ w, CleanPair p :=
  fun p hp => legal_clean (h p hp)

theorem render_noslash_of_legal {w : List Pair} (h : allLegal metrics w) : ∀ x ∈ w.map render, 47 ∉ x := by
  intro x hx
  obtain ⟨p, hp, rfl⟩ := List.mem_map.mp hx
  exact (legal_clean (h p hp)).render_noslash

/-- completeness: a grammatical string is parsed into the fold of its stores -/
theorem parse_complete {s : Bytes} {w : List Pair} (h : Witness s w) :
    parseK K s = .ok (setAll K.set K.zero w) := by
  obtain ⟨hs, hsh, hl⟩ := h
  obtain ⟨hne, hlen⟩ := witness_len hsh
  subst hs
  unfold parseK parse20With
  rw [splitN_join_le 13 _ (render_noslash_of_legal hl) (by simpa using hne) (by simpa using hlen)]
  have := loop_prefix tbl K.set w [] 0 0 K.zero (fun p hp => (legal_clean (hl p hp)).colon)
    (fun p hp c => K.set_ok c p.1 p.2 (hl p hp))
  rw [List.append_nil] at this
  rw [this]
  have hrun := F_run _ hsh (w.map (·.1)).length (Nat.lt_succ_self _)
  rw [List.take_length] at hrun
  rw [hrun]
  have hc := F_complete _ hsh
  show loop2With tbl K.set [] (after (w.map (·.1))).1 (after (w.map (·.1))).2 _ = _
  rw [hc]
  rfl

/-- soundness: an accepted string has a witness, and the result is the fold of its stores -/
theorem parse_sound {s : Bytes} {c : Model.O20} (h : parseK K s = .ok c) :
    ∃ w, Witness s w ∧ c = setAll K.set K.zero w := by
  unfold parseK parse20With at h
  obtain ⟨ps, h1, h2, ⟨g', h3⟩, h4⟩ := loop_sound K _ _ _ _ _ _ h
  have hlen : ps.length ≤ 14 := by
    have := splitN_length_le 13 s
    rw [h1] at this
    simpa using this
  have hne : ps ≠ [] := by
    intro hp; subst hp
    exact splitN_ne_nil 13 s h1
  refine ⟨ps, ⟨?_, ?_, h2⟩, h4⟩
  · rw [← h1, joinSlash_splitN]
  · exact nrun_ok_shapes _ g' h3 (by simpa using hlen) (by simpa using hne)

/-- the witness of a string is unique -/
theorem witness_eq {s : Bytes} {w : List Pair} (h : Witness s w) : w = (Spec.splitSlash s).map cutColon := by
  obtain ⟨hs, hsh, hl⟩ := h
  obtain ⟨hne, _⟩ := witness_len hsh
  subst hs
  rw [splitSlash_join _ (render_noslash_of_legal hl) (by simpa using hne), List.map_map]
  symm
  calc w.map (cutColon ∘ render) = w.map id := by
        apply List.map_congr_left
        intro p hp
        exact cutColon_render_pair p (legal_clean (hl p hp)).colon
    _ = w := List.map_id w

theorem witness_unique {s : Bytes} {w w' : List Pair} (h : Witness s w) (h' : Witness s w') : w = w' := by
  rw [witness_eq h, witness_eq h']

end contract

/-! ## no panic: the index into `order` is always in range -/

/-- the loop invariant: past the last group, or the index is in range -/
def inv (g i : Nat) : Bool := decide (3 ≤ g) || (idx2 tbl g i).isSome

def okStep (r : Res (Nat × Nat)) : Bool :=
  match r with
  | .panic => false
  | .ok st => inv st.1 st.2
  | .err _ => true

theorem N_len : ∀ g < 3, (tbl.getD g []).length ≤ 6 := by decide

theorem N_step : ∀ g < 3, ∀ i < 6, inv g i = true → ∀ a ∈ [] :: tbl.flatten, okStep (nstep tbl g i a) = true := by
  decide +kernel

theorem inv_step (g i : Nat) (a : Bytes) (h : inv g i = true) : okStep (nstep tbl g i a) = true := by
  by_cases hg : 3 ≤ g
  · rw [nstep_ge3 tbl g i a hg]; rfl
  · have hg' : g < 3 := by omega
    have hi : i < 6 := by
      unfold inv at h
      simp only [hg, decide_false, Bool.false_or] at h
      unfold idx2 at h
      have h2 : ((tbl.getD g [])[i]?).isSome = true := h
      have : i < (tbl.getD g []).length := by
        cases hl : (tbl.getD g [])[i]? with
        | none => rw [hl] at h2; cases h2
        | some x => exact (List.getElem?_eq_some_iff.mp hl).1
      exact Nat.lt_of_lt_of_le this (N_len g hg')
    by_cases ha : a ∈ tbl.flatten
    · exact N_step g hg' i hi h a (by simp [ha])
    · have hnil : ([] : Bytes) ∉ tbl.flatten := by
        show [] ∉ GenV20.tbl_order.flatten
        rw [tbl_flatten]; exact empty_not_metric
      rw [nstep_unknown g i ha hnil]
      exact N_step g hg' i hi h [] (by simp)

theorem loop_ne_panic {O : Type} (set : O → Bytes → Bytes → O × Go.Err) (pts : List Bytes) (g i : Nat) (c : O)
    (h : inv g i = true) : loop2With tbl set pts g i c ≠ .panic := by
  induction pts generalizing g i c with
  | nil =>
    simp only [loop2With]
    split <;> simp
  | cons pt rest ih =>
    simp only [loop2With, step2With_eq]
    have hs := inv_step g i (cutColon pt).1 h
    cases hn : nstep tbl g i (cutColon pt).1 with
    | err e => simp
    | panic => rw [hn] at hs; cases hs
    | ok st =>
      rw [hn] at hs
      by_cases he : (set c (cutColon pt).1 (cutColon pt).2).2 = Go.errNil
      · simp only [he, ne_eq, not_true_eq_false, if_false]
        exact ih st.1 st.2 _ hs
      · simp only [he, ne_eq, not_false_eq_true, if_true]
        simp

/-- the parser never reaches the out-of-range index -/
theorem parse_ne_panic {O : Type} (zero : O) (set : O → Bytes → Bytes → O × Go.Err) (s : Bytes) :
    parse20With tbl zero set s ≠ .panic :=
  loop_ne_panic set _ 0 0 zero (by decide)
end Proofs.Parse2
