import Cvss.Proofs.Parse3Basic
/-!
# v3 parser proofs, part 2: the element loop `Model.loop3` and `Model.parse3`

Generic in a `Contract O Spec.V3.metrics` (nothing here looks at the generated `Get`/`Set`).

* `loop3_legal`   what the loop does on the rendering of a list of *legal* pairs followed by anything:
                  it stops with `ErrDefinedN` at the first repeated abbreviation, otherwise it stores all
                  pairs and continues with the rest (used for completeness, C06, C02 and every C18 case);
* `loop3_ok`      soundness: if the loop accepts, the elements are the rendering of a list of legal,
                  pairwise distinct pairs covering the mandatory metrics, and the result is the fold of `Set`s;
* `loop3_no_panic`;
* `parse3_join`   `parse3` on `hdr ++ "/" ++ join els` is the loop on `els`;
* `get_setAll`    reading a metric back from a fold of `Set`s.
-/
namespace Proofs.Parse3
open Spec (Bytes Pair Metric render joinSlash legal isMetric findMetric abvs valueOf allLegal SLASH COLON)
open Model (Res)

variable {O : Type}

/-- the fold of `Set`s over a pair list (errors ignored: on legal pairs there are none) -/
def setAll (K : Contract O Spec.V3.metrics) (c : O) (w : List Pair) : O :=
  w.foldl (fun c p => (K.set c p.1 p.2).1) c

@[simp] theorem setAll_nil (K : Contract O Spec.V3.metrics) (c : O) : setAll K c [] = c := rfl
@[simp] theorem setAll_cons (K : Contract O Spec.V3.metrics) (c : O) (p : Pair) (w : List Pair) :
    setAll K c (p :: w) = setAll K (K.set c p.1 p.2).1 w := rfl

/-- first name that is in `seen` or repeats an earlier one -/
def firstDup : List Bytes → List Bytes → Option Bytes
  | _, [] => none
  | seen, x :: xs => if seen.contains x then some x else firstDup (x :: seen) xs

theorem firstDup_none_iff (names seen : List Bytes) :
    firstDup seen names = none ↔ names.Nodup ∧ ∀ x ∈ names, x ∉ seen := by
  induction names generalizing seen with
  | nil => simp [firstDup]
  | cons x xs ih =>
    simp only [firstDup]
    by_cases hx : seen.contains x = true
    · simp only [hx, if_true, reduceCtorEq, false_iff, not_and]
      intro _ h
      exact h x (by simp) (List.contains_iff_mem.mp hx)
    · have hx' : x ∉ seen := fun h => hx (List.contains_iff_mem.mpr h)
      simp only [hx, if_false, Bool.false_eq_true, ih, List.nodup_cons, List.mem_cons, not_or]
      constructor
      · rintro ⟨h1, h2⟩
        refine ⟨⟨fun hin => (h2 x hin).1 rfl, h1⟩, ?_⟩
        rintro y (rfl | hy)
        · exact hx'
        · exact (h2 y hy).2
      · rintro ⟨⟨h1, h2⟩, h3⟩
        refine ⟨h2, fun y hy => ⟨?_, h3 y (Or.inr hy)⟩⟩
        rintro rfl; exact h1 hy

/-- the first repetition: everything before it is fresh and pairwise distinct -/
theorem firstDup_eq_some (pre post seen : List Bytes) (a : Bytes) (hn : pre.Nodup)
    (hs : ∀ x ∈ pre, x ∉ seen) (ha : a ∈ pre ∨ a ∈ seen) :
    firstDup seen (pre ++ a :: post) = some a := by
  induction pre generalizing seen with
  | nil =>
    have : a ∈ seen := by simpa using ha
    simp [firstDup, this]
  | cons x xs ih =>
    have hx : ¬ seen.contains x = true := fun h => hs x (by simp) (List.contains_iff_mem.mp h)
    simp only [List.cons_append, firstDup, hx, if_false, Bool.false_eq_true]
    rw [List.nodup_cons] at hn
    apply ih _ hn.2
    · intro y hy
      simp only [List.mem_cons, not_or]
      exact ⟨fun h => hn.1 (h ▸ hy), hs y (by simp [hy])⟩
    · rcases ha with ha | ha
      · rcases List.mem_cons.mp ha with rfl | ha
        · right; simp
        · left; exact ha
      · right; simp [ha]

/-! ## one iteration -/

theorem loop3_nil (set : O → Bytes → Bytes → O × Go.Err) (c : O) (seen : List Bytes) :
    Model.loop3 set [] c seen =
      match Model.firstMissing seen with
      | some a => .err (Model.eMissing a)
      | none => .ok c := by
  cases h : Model.firstMissing seen <;> simp [Model.loop3, h]

theorem loop3_cons (set : O → Bytes → Bytes → O × Go.Err) (el : Bytes) (rest : List Bytes) (c : O)
    (seen : List Bytes) :
    Model.loop3 set (el :: rest) c seen =
      match Model.kvmSet seen (Model.cutColon el).1 with
      | .error e => .err e
      | .ok seen' =>
        if (set c (Model.cutColon el).1 (Model.cutColon el).2).2 = Go.errNil
        then Model.loop3 set rest (set c (Model.cutColon el).1 (Model.cutColon el).2).1 seen'
        else .err (set c (Model.cutColon el).1 (Model.cutColon el).2).2 := by
  rw [Model.loop3]
  cases Model.kvmSet seen (Model.cutColon el).1 <;> rfl

theorem kvmSet_unknown (seen : List Bytes) (a : Bytes) (h : isMetric Spec.V3.metrics a = false) :
    Model.kvmSet seen a = .error (Model.eInvalidMetric a) := by
  have : a ∉ Model.kvmNames := by
    rw [← List.contains_iff_mem, contains_kvmNames_iff]; simp [h]
  simp [Model.kvmSet, this]

theorem kvmSet_seen (seen : List Bytes) (a : Bytes) (h : isMetric Spec.V3.metrics a = true)
    (hs : a ∈ seen) : Model.kvmSet seen a = .error (Model.eDefinedN a) := by
  have h1 := List.contains_iff_mem.mp ((contains_kvmNames_iff a).mpr h)
  simp [Model.kvmSet, h1, hs]

theorem kvmSet_fresh (seen : List Bytes) (a : Bytes) (h : isMetric Spec.V3.metrics a = true)
    (hs : a ∉ seen) : Model.kvmSet seen a = .ok (a :: seen) := by
  have h1 := List.contains_iff_mem.mp ((contains_kvmNames_iff a).mpr h)
  simp [Model.kvmSet, h1, hs]

theorem kvmSet_ok {seen seen' : List Bytes} {a : Bytes} (h : Model.kvmSet seen a = .ok seen') :
    isMetric Spec.V3.metrics a = true ∧ a ∉ seen ∧ seen' = a :: seen := by
  cases hm : isMetric Spec.V3.metrics a with
  | false => rw [kvmSet_unknown seen a hm] at h; cases h
  | true =>
    by_cases hs : a ∈ seen
    · rw [kvmSet_seen seen a hm hs] at h; cases h
    · rw [kvmSet_fresh seen a hm hs] at h
      cases h
      exact ⟨rfl, hs, rfl⟩

theorem eInvalidMetric_ne_nil (a : Bytes) : Model.eInvalidMetric a ≠ Go.errNil := by
  intro h; cases h
theorem eValue_ne_nil : Model.eValue ≠ Go.errNil := by decide

/-- `Set` returns no error exactly on a legal (metric, value) pair -/
theorem set_errNil_iff (K : Contract O Spec.V3.metrics) (c : O) (a v : Bytes) :
    (K.set c a v).2 = Go.errNil ↔ legal Spec.V3.metrics a v = true := by
  constructor
  · intro h
    cases hm : isMetric Spec.V3.metrics a with
    | false =>
      rw [K.set_unknown c a v hm] at h
      exact absurd h (eInvalidMetric_ne_nil a)
    | true =>
      cases hl : legal Spec.V3.metrics a v with
      | true => rfl
      | false =>
        rw [K.set_illegal c a v hm hl] at h
        exact absurd h eValue_ne_nil
  · exact K.set_ok c a v

/-! ## the loop on legal pairs -/

theorem loop3_legal (K : Contract O Spec.V3.metrics) (w : List Pair) (hl : allLegal Spec.V3.metrics w)
    (rest : List Bytes) (c : O) (seen : List Bytes) :
    Model.loop3 K.set (w.map render ++ rest) c seen =
      match firstDup seen (w.map (·.1)) with
      | some a => .err (Model.eDefinedN a)
      | none => Model.loop3 K.set rest (setAll K c w) ((w.map (·.1)).reverse ++ seen) := by
  induction w generalizing c seen with
  | nil => simp [firstDup]
  | cons p w ih =>
    have hp : legal Spec.V3.metrics p.1 p.2 = true := hl p (by simp)
    obtain ⟨m, _, _, _, _, hcol, _, _, _⟩ := legal_v3 hp
    have hcut : Model.cutColon (render p) = (p.1, p.2) := cutColon_render p.1 p.2 hcol
    have hm := isMetric_of_legal hp
    rw [List.map_cons, List.cons_append, loop3_cons, hcut]
    simp only [List.map_cons, firstDup]
    by_cases hs : p.1 ∈ seen
    · rw [kvmSet_seen seen p.1 hm hs, List.contains_iff_mem.mpr hs]
      rfl
    · have hs' : ¬ seen.contains p.1 = true := fun h => hs (List.contains_iff_mem.mp h)
      rw [kvmSet_fresh seen p.1 hm hs]
      simp only [hs', if_false, Bool.false_eq_true, K.set_ok c p.1 p.2 hp, if_true]
      rw [ih (fun q hq => hl q (by simp [hq]))]
      simp [List.reverse_cons, List.append_assoc]

/-- soundness of the loop -/
theorem loop3_ok (K : Contract O Spec.V3.metrics) (els : List Bytes) (c : O) (seen : List Bytes) (c' : O)
    (h : Model.loop3 K.set els c seen = .ok c') :
    ∃ w : List Pair, els = w.map render ∧ allLegal Spec.V3.metrics w ∧ firstDup seen (w.map (·.1)) = none ∧
      c' = setAll K c w ∧ Model.firstMissing ((w.map (·.1)).reverse ++ seen) = none := by
  induction els generalizing c seen with
  | nil =>
    rw [loop3_nil] at h
    refine ⟨[], rfl, by simp [allLegal], rfl, ?_, ?_⟩
    · cases hf : Model.firstMissing seen with
      | some a => simp [hf] at h
      | none => simp only [hf] at h; cases h; rfl
    · cases hf : Model.firstMissing seen with
      | some a => simp [hf] at h
      | none => simpa using hf
  | cons el els ih =>
    rw [loop3_cons] at h
    cases hk : Model.kvmSet seen (Model.cutColon el).1 with
    | error e => simp [hk] at h
    | ok seen' =>
      simp only [hk] at h
      obtain ⟨hm, hfresh, rfl⟩ := kvmSet_ok hk
      by_cases he : (K.set c (Model.cutColon el).1 (Model.cutColon el).2).2 = Go.errNil
      · rw [if_pos he] at h
        have hleg := (set_errNil_iff K _ _ _).mp he
        obtain ⟨m, _, _, _, _, _, _, _, hv⟩ := legal_v3 hleg
        obtain ⟨w, h1, h2, h3, h4, h5⟩ := ih _ _ h
        refine ⟨Model.cutColon el :: w, ?_, ?_, ?_, ?_, ?_⟩
        · rw [List.map_cons, render_cutColon el hv, h1]
        · intro q hq
          rcases List.mem_cons.mp hq with rfl | hq
          · exact hleg
          · exact h2 q hq
        · have : ¬ seen.contains (Model.cutColon el).1 = true :=
            fun h => hfresh (List.contains_iff_mem.mp h)
          simp only [List.map_cons, firstDup, this, if_false, Bool.false_eq_true]
          exact h3
        · rw [h4]; rfl
        · simpa [List.reverse_cons, List.append_assoc] using h5
      · rw [if_neg he] at h; cases h

theorem loop3_no_panic (set : O → Bytes → Bytes → O × Go.Err) (els : List Bytes) (c : O) (seen : List Bytes) :
    Model.loop3 set els c seen ≠ .panic := by
  induction els generalizing c seen with
  | nil =>
    rw [loop3_nil]
    cases Model.firstMissing seen <;> simp
  | cons el els ih =>
    rw [loop3_cons]
    cases Model.kvmSet seen (Model.cutColon el).1 with
    | error e => simp
    | ok seen' =>
      simp only
      split
      · exact ih _ _
      · simp

/-! ## the mandatory check -/

theorem firstMissing_none_iff (seen : List Bytes) :
    Model.firstMissing seen = none ↔ ∀ m ∈ Spec.V3.base, m.abv ∈ seen := by
  unfold Model.firstMissing
  rw [kvmMandatory_eq, List.find?_eq_none]
  constructor
  · intro h m hm
    have := h m.abv (List.mem_map.mpr ⟨m, hm, rfl⟩)
    simpa using this
  · intro h a ha
    obtain ⟨m, hm, rfl⟩ := List.mem_map.mp ha
    simpa using h m hm

theorem find?_unique {α : Type} (l : List α) (p : α → Bool) (a : α) (ha : a ∈ l) (hp : p a = true)
    (hu : ∀ x ∈ l, x ≠ a → p x = false) : l.find? p = some a := by
  induction l with
  | nil => cases ha
  | cons y l ih =>
    by_cases hy : y = a
    · subst hy; simp [List.find?, hp]
    · have : p y = false := hu y (by simp) hy
      rw [List.find?_cons, this]
      rcases List.mem_cons.mp ha with rfl | ha
      · exact absurd rfl hy
      · exact ih ha (fun x hx => hu x (by simp [hx]))

/-- exactly one mandatory metric absent: that one is reported -/
theorem firstMissing_unique (seen : List Bytes) (a : Bytes) (ha : a ∈ abvs Spec.V3.base) (hs : a ∉ seen)
    (hu : ∀ x ∈ abvs Spec.V3.base, x ≠ a → x ∈ seen) : Model.firstMissing seen = some a := by
  unfold Model.firstMissing
  rw [kvmMandatory_eq]
  apply find?_unique _ _ a ha
  · simpa [List.contains_iff_mem] using hs
  · intro x hx hne
    simpa [List.contains_iff_mem] using hu x hx hne

/-! ## `parse3` -/

theorem parse3_no_prefix (hdr : Bytes) (zero : O) (set : O → Bytes → Bytes → O × Go.Err) (s : Bytes)
    (h : ¬ (hdr ++ [SLASH]) <+: s) : Model.parse3 (hdr ++ [SLASH]) zero set s = .err Model.eHeader := by
  have : Model.hasPrefix s (hdr ++ [SLASH]) = false := by
    rw [← Bool.not_eq_true, hasPrefix_iff]; exact h
  simp [Model.parse3, this]

theorem parse3_prefix (hdr : Bytes) (zero : O) (set : O → Bytes → Bytes → O × Go.Err) (rest : Bytes) :
    Model.parse3 (hdr ++ [SLASH]) zero set (hdr ++ SLASH :: rest) =
      Model.loop3 set (Spec.splitSlash rest) zero [] := by
  have e : hdr ++ SLASH :: rest = (hdr ++ [SLASH]) ++ rest := by simp
  have : Model.hasPrefix (hdr ++ SLASH :: rest) (hdr ++ [SLASH]) = true := by
    rw [hasPrefix_iff, e]; exact List.prefix_append _ _
  unfold Model.parse3
  rw [if_pos this, e, List.drop_left, model_splitSlash_eq]

/-- on `hdr/e₁/…/eₙ` (n ≥ 1, no `/` inside an element) the parser runs its loop over `e₁ … eₙ` -/
theorem parse3_join (hdr : Bytes) (zero : O) (set : O → Bytes → Bytes → O × Go.Err) (els : List Bytes)
    (hne : els ≠ []) (hs : ∀ x ∈ els, SLASH ∉ x) :
    Model.parse3 (hdr ++ [SLASH]) zero set (hdr ++ SLASH :: joinSlash els) = Model.loop3 set els zero [] := by
  rw [parse3_prefix, splitSlash_joinSlash els hne hs]

theorem parse3_no_panic (header : Bytes) (zero : O) (set : O → Bytes → Bytes → O × Go.Err) (s : Bytes) :
    Model.parse3 header zero set s ≠ .panic := by
  unfold Model.parse3
  split
  · exact loop3_no_panic _ _ _ _
  · simp

/-- if `parse3` does not answer `ErrInvalidCVSSHeader`-by-prefix, the string starts with the header -/
theorem parse3_ok_prefix (header : Bytes) (zero : O) (set : O → Bytes → Bytes → O × Go.Err) (s : Bytes) (c : O)
    (h : Model.parse3 header zero set s = .ok c) :
    header <+: s ∧ Model.loop3 set (Spec.splitSlash (s.drop header.length)) zero [] = .ok c := by
  unfold Model.parse3 at h
  by_cases hp : Model.hasPrefix s header = true
  · rw [if_pos hp, model_splitSlash_eq] at h
    exact ⟨(hasPrefix_iff _ _).mp hp, h⟩
  · rw [if_neg hp] at h; cases h

/-! ## witness lists -/

/-- the three side conditions of `Spec.V3.Witness` on the pair list alone -/
def IsWit (w : List Pair) : Prop :=
  allLegal Spec.V3.metrics w ∧ (w.map (·.1)).Nodup ∧ ∀ m ∈ Spec.V3.base, m.abv ∈ w.map (·.1)

theorem witness_iff (hdr s : Bytes) (w : List Pair) :
    Spec.V3.Witness hdr s w ↔ s = hdr ++ SLASH :: joinSlash (w.map render) ∧ IsWit w := Iff.rfl

theorem IsWit.ne_nil {w : List Pair} (h : IsWit w) : w ≠ [] := by
  rintro rfl
  have := h.2.2 _ (List.mem_cons_self : _ ∈ Spec.V3.base)
  simp at this

theorem IsWit.no_slash {w : List Pair} (h : IsWit w) : ∀ x ∈ w.map render, SLASH ∉ x := by
  intro x hx
  obtain ⟨p, hp, rfl⟩ := List.mem_map.mp hx
  exact render_no_slash (h.1 p hp)

/-- completeness: the parser accepts the rendering of a witness list, and returns the fold of `Set`s -/
theorem parse3_witness (K : Contract O Spec.V3.metrics) (hdr : Bytes) (w : List Pair) (hw : IsWit w) :
    Model.parse3 (hdr ++ [SLASH]) K.zero K.set (hdr ++ SLASH :: joinSlash (w.map render)) =
      .ok (setAll K K.zero w) := by
  rw [parse3_join _ _ _ _ (by simpa using hw.ne_nil) hw.no_slash]
  have := loop3_legal K w hw.1 [] K.zero []
  rw [List.append_nil] at this
  rw [this, (firstDup_none_iff _ _).mpr ⟨hw.2.1, by simp⟩]
  simp only [List.append_nil]
  rw [loop3_nil, (firstMissing_none_iff _).mpr (fun m hm => by simpa using hw.2.2 m hm)]

/-- soundness: an accepted string is the rendering of a witness list, and the result the fold of `Set`s -/
theorem parse3_sound (K : Contract O Spec.V3.metrics) (hdr s : Bytes) (c : O)
    (h : Model.parse3 (hdr ++ [SLASH]) K.zero K.set s = .ok c) :
    ∃ w, Spec.V3.Witness hdr s w ∧ c = setAll K K.zero w := by
  obtain ⟨hp, hl⟩ := parse3_ok_prefix _ _ _ _ _ h
  obtain ⟨w, h1, h2, h3, h4, h5⟩ := loop3_ok K _ _ _ _ hl
  obtain ⟨hn, _⟩ := (firstDup_none_iff _ _).mp h3
  refine ⟨w, ⟨?_, h2, hn, ?_⟩, h4⟩
  · have e := eq_append_drop_of_prefix hp
    rw [← h1, joinSlash_splitSlash]
    rw [List.append_assoc] at e
    exact e
  · intro m hm
    have := (firstMissing_none_iff _).mp h5 m hm
    simpa using this

/-! ## reading back from a fold of `Set`s -/

theorem wf_setAll (K : Contract O Spec.V3.metrics) (w : List Pair) (c : O) (h : K.WF c) : K.WF (setAll K c w) := by
  induction w generalizing c with
  | nil => exact h
  | cons p w ih => exact ih _ (K.wf_set c p.1 p.2 h)

theorem get_setAll (K : Contract O Spec.V3.metrics) (w : List Pair) (hl : allLegal Spec.V3.metrics w)
    (hn : (w.map (·.1)).Nodup) (c : O) (a : Bytes) (ha : isMetric Spec.V3.metrics a = true) :
    K.get (setAll K c w) a =
      match w.find? (fun p => p.1 == a) with
      | some p => (p.2, Go.errNil)
      | none => K.get c a := by
  induction w generalizing c with
  | nil => rfl
  | cons p w ih =>
    have hp : legal Spec.V3.metrics p.1 p.2 = true := hl p (by simp)
    rw [List.map_cons, List.nodup_cons] at hn
    rw [setAll_cons, ih (fun q hq => hl q (by simp [hq])) hn.2, List.find?_cons]
    by_cases hpa : p.1 = a
    · subst hpa
      have : w.find? (fun q => q.1 == p.1) = none := by
        rw [List.find?_eq_none]
        intro q hq hq'
        exact hn.1 (List.mem_map.mpr ⟨q, hq, by simpa using hq'⟩)
      simp only [this, beq_self_eq_true]
      exact K.get_set_same c p.1 p.2 hp
    · have : (p.1 == a) = false := by simpa using hpa
      simp only [this]
      cases w.find? (fun q => q.1 == a) with
      | some q => rfl
      | none => exact K.get_set_other c p.1 p.2 a hp ha (fun h => hpa h.symm)

/-- in a list with pairwise distinct abbreviations, looking up a member's abbreviation finds that member -/
theorem find?_of_mem_nodup (w : List Pair) (hn : (w.map (·.1)).Nodup) (p : Pair) (hp : p ∈ w) :
    w.find? (fun q => q.1 == p.1) = some p := by
  induction w with
  | nil => cases hp
  | cons q w ih =>
    rw [List.map_cons, List.nodup_cons] at hn
    rw [List.find?_cons]
    by_cases hq : q = p
    · subst hq; simp
    · have hpw : p ∈ w := by
        rcases List.mem_cons.mp hp with h | h
        · exact absurd h.symm hq
        · exact h
      have : (q.1 == p.1) = false := by
        rw [beq_eq_false_iff_ne]
        intro he
        exact hn.1 (he ▸ List.mem_map.mpr ⟨p, hpw, rfl⟩)
      rw [this]
      exact ih hn.2 hpw

/-- what a witness list says about each metric is what the fold of `Set`s holds -/
theorem get_setAll_zero (K : Contract O Spec.V3.metrics) (w : List Pair) (hw : IsWit w) :
    ∀ m ∈ Spec.V3.metrics, K.get (setAll K K.zero w) m.abv = (valueOf Spec.V3.metrics w m.abv, Go.errNil) := by
  intro m hm
  have hself := tbl_find_self m hm
  have hmet : isMetric Spec.V3.metrics m.abv = true := by simp [isMetric, hself]
  rw [get_setAll K w hw.1 hw.2.1 K.zero m.abv hmet]
  unfold valueOf
  cases hf : w.find? (fun p => p.1 == m.abv) with
  | some p => rfl
  | none =>
    simp only [hself]
    rcases tbl_mand_or_undef m hm with ⟨_, hb⟩ | ⟨_, u, hu, _⟩
    · exfalso
      obtain ⟨p, hp, hpa⟩ := List.mem_map.mp (hw.2.2 m hb)
      rw [List.find?_eq_none] at hf
      exact hf p hp (by simpa using hpa)
    · rw [K.get_zero_opt m hm u hu, hu]; rfl

end Proofs.Parse3
