import Cvss.Proofs.Contract
import Cvss.Spec.Errors
/-!
# v2.0 parser proofs, part 1: `joinSlash`, `splitN`, `splitSlash`, `cutColon`, `splitColon`

Pure list lemmas (no metric table, no object). `/` is `47`, `:` is `58` in both `Model` and `Spec`.
-/
namespace Proofs.Parse2
open Model (Bytes cutColon splitN)
open Spec (joinSlash render Pair)

theorem model_slash : Model.SLASH = 47 := rfl
theorem model_colon : Model.COLON = 58 := rfl
theorem spec_slash : Spec.SLASH = 47 := rfl
theorem spec_colon : Spec.COLON = 58 := rfl

/-! ## joinSlash -/

theorem joinSlash_cons_cons (x y : Bytes) (l : List Bytes) :
    joinSlash (x :: y :: l) = x ++ 47 :: joinSlash (y :: l) := rfl

theorem joinSlash_cons_of_ne_nil (x : Bytes) {l : List Bytes} (h : l ≠ []) :
    joinSlash (x :: l) = x ++ 47 :: joinSlash l := by
  cases l with
  | nil => exact absurd rfl h
  | cons y l => rfl

theorem joinSlash_cons_head (c : Nat) (h : Bytes) (t : List Bytes) :
    joinSlash ((c :: h) :: t) = c :: joinSlash (h :: t) := by
  cases t with
  | nil => rfl
  | cons y l => rfl

theorem joinSlash_append_singleton (l : List Bytes) (h : l ≠ []) (x : Bytes) :
    joinSlash (l ++ [x]) = joinSlash l ++ 47 :: x := by
  induction l with
  | nil => exact absurd rfl h
  | cons y l ih =>
    cases l with
    | nil => rfl
    | cons z l =>
      have := ih (by simp)
      simp only [List.cons_append] at this ⊢
      rw [joinSlash_cons_cons, this, joinSlash_cons_cons]
      simp

/-! ## splitN -/

theorem splitN_ne_nil (n : Nat) (s : Bytes) : splitN n s ≠ [] := by
  induction s generalizing n with
  | nil => cases n <;> simp [splitN]
  | cons c cs ih =>
    cases n with
    | zero => simp [splitN]
    | succ n =>
      unfold splitN
      split
      · simp
      · split <;> simp

theorem splitN_zero (s : Bytes) : splitN 0 s = [s] := by
  cases s <;> rfl

theorem splitN_cons_slash (n : Nat) (cs : Bytes) : splitN (n + 1) (47 :: cs) = [] :: splitN n cs := by
  simp [splitN, model_slash]

theorem splitN_cons_ne (n : Nat) (c : Nat) (cs : Bytes) (hc : c ≠ 47) :
    ∃ h t, splitN (n + 1) cs = h :: t ∧ splitN (n + 1) (c :: cs) = (c :: h) :: t := by
  cases hs : splitN (n + 1) cs with
  | nil => exact absurd hs (splitN_ne_nil _ _)
  | cons h t =>
    refine ⟨h, t, rfl, ?_⟩
    rw [splitN, if_neg (by rw [model_slash]; exact hc), hs]

theorem joinSlash_splitN (n : Nat) (s : Bytes) : joinSlash (splitN n s) = s := by
  induction s generalizing n with
  | nil => cases n <;> rfl
  | cons c cs ih =>
    cases n with
    | zero => rfl
    | succ n =>
      by_cases hc : c = 47
      · subst hc
        rw [splitN_cons_slash, joinSlash_cons_of_ne_nil _ (splitN_ne_nil _ _), ih]
        rfl
      · obtain ⟨h, t, h1, h2⟩ := splitN_cons_ne n c cs hc
        rw [h2, joinSlash_cons_head, ← h1, ih]

theorem splitN_length_le (n : Nat) (s : Bytes) : (splitN n s).length ≤ n + 1 := by
  induction s generalizing n with
  | nil => cases n <;> simp [splitN]
  | cons c cs ih =>
    cases n with
    | zero => simp [splitN]
    | succ n =>
      by_cases hc : c = 47
      · subst hc
        rw [splitN_cons_slash]
        have := ih n
        simp only [List.length_cons]
        omega
      · obtain ⟨h, t, h1, h2⟩ := splitN_cons_ne n c cs hc
        have := ih (n + 1)
        rw [h1] at this
        rw [h2]
        simpa using this

/-- a slash-free string is a single part -/
theorem splitN_noslash (n : Nat) (x : Bytes) (hx : 47 ∉ x) : splitN n x = [x] := by
  induction x with
  | nil => cases n <;> rfl
  | cons c cs ih =>
    cases n with
    | zero => rfl
    | succ n =>
      have hc : c ≠ 47 := fun h => hx (by simp [h])
      have hcs : 47 ∉ cs := fun h => hx (by simp [h])
      obtain ⟨h, t, h1, h2⟩ := splitN_cons_ne n c cs hc
      rw [ih hcs] at h1
      cases h1
      exact h2

theorem splitN_append_slash (n : Nat) (x r : Bytes) (hx : 47 ∉ x) :
    splitN (n + 1) (x ++ 47 :: r) = x :: splitN n r := by
  induction x with
  | nil => exact splitN_cons_slash n r
  | cons c cs ih =>
    have hc : c ≠ 47 := fun h => hx (by simp [h])
    have hcs : 47 ∉ cs := fun h => hx (by simp [h])
    obtain ⟨h, t, h1, h2⟩ := splitN_cons_ne n c (cs ++ 47 :: r) hc
    rw [ih hcs] at h1
    cases h1
    exact h2

/-- on a `/`-joined list of at most `n+1` slash-free parts, `splitN n` returns the parts -/
theorem splitN_join_le (n : Nat) (xs : List Bytes) (hx : ∀ x ∈ xs, 47 ∉ x) (hne : xs ≠ [])
    (hlen : xs.length ≤ n + 1) : splitN n (joinSlash xs) = xs := by
  induction xs generalizing n with
  | nil => exact absurd rfl hne
  | cons x xs ih =>
    cases xs with
    | nil => exact splitN_noslash n x (hx x (by simp))
    | cons y ys =>
      cases n with
      | zero => simp at hlen
      | succ n =>
        rw [joinSlash_cons_cons, splitN_append_slash _ _ _ (hx x (by simp)),
          ih n (fun z hz => hx z (by simp [hz])) (by simp) (by simpa using hlen)]

/-- on a longer list the last part keeps the remainder -/
theorem splitN_join_gt (n : Nat) (xs : List Bytes) (hx : ∀ x ∈ xs, 47 ∉ x) (hlen : n < xs.length) :
    splitN n (joinSlash xs) = xs.take n ++ [joinSlash (xs.drop n)] := by
  induction xs generalizing n with
  | nil => simp at hlen
  | cons x xs ih =>
    cases n with
    | zero => simp [splitN_zero]
    | succ n =>
      cases xs with
      | nil => simp at hlen
      | cons y ys =>
        rw [joinSlash_cons_cons, splitN_append_slash _ _ _ (hx x (by simp)),
          ih n (fun z hz => hx z (by simp [hz])) (by simpa using hlen)]
        simp

/-- uniform view used for the error proofs: if at most `n` slash-free elements precede `z`, the parts
    start with those elements and the next part starts with `z`: it is `z` (and if it is the last
    possible part, nothing follows), or it is `z` followed by `/` and a remainder -/
theorem splitN_join_decomp (n : Nat) (pre : List Bytes) (z : Bytes) (post : List Bytes)
    (hx : ∀ x ∈ pre ++ z :: post, 47 ∉ x) (hp : pre.length ≤ n) :
    ∃ y rest, splitN n (joinSlash (pre ++ z :: post)) = pre ++ y :: rest ∧
      ((y = z ∧ (pre.length = n → post = [])) ∨ ∃ more, y = z ++ 47 :: more) := by
  induction pre generalizing n with
  | nil =>
    have hz : 47 ∉ z := hx z (by simp)
    cases post with
    | nil =>
      refine ⟨z, [], ?_, Or.inl ⟨rfl, fun _ => rfl⟩⟩
      exact splitN_noslash n z hz
    | cons q post' =>
      cases n with
      | zero =>
        refine ⟨joinSlash (z :: q :: post'), [], ?_, Or.inr ⟨joinSlash (q :: post'), rfl⟩⟩
        simp [splitN_zero]
      | succ n =>
        refine ⟨z, splitN n (joinSlash (q :: post')), ?_, Or.inl ⟨rfl, fun h => by simp at h⟩⟩
        simp only [List.nil_append]
        rw [joinSlash_cons_cons, splitN_append_slash _ _ _ hz]
  | cons x pre ih =>
    cases n with
    | zero => simp at hp
    | succ n =>
      have hx0 : 47 ∉ x := hx x (by simp)
      obtain ⟨y, rest, h1, h2⟩ := ih n (fun q hq => hx q (by simp [hq])) (by simpa using hp)
      refine ⟨y, rest, ?_, ?_⟩
      · rw [List.cons_append, joinSlash_cons_of_ne_nil x (by simp), splitN_append_slash _ _ _ hx0, h1]
        rfl
      · rcases h2 with ⟨h2, h3⟩ | h2
        · exact Or.inl ⟨h2, fun h => h3 (by simpa using h)⟩
        · exact Or.inr h2

/-! ## Spec.splitSlash (used by `read?`) -/

theorem splitSlash_ne_nil (s : Bytes) : Spec.splitSlash s ≠ [] := by
  induction s with
  | nil => simp [Spec.splitSlash]
  | cons c cs ih =>
    unfold Spec.splitSlash
    split
    · simp
    · split <;> simp

theorem splitSlash_cons_slash (cs : Bytes) : Spec.splitSlash (47 :: cs) = [] :: Spec.splitSlash cs := by
  simp [Spec.splitSlash, spec_slash]

theorem splitSlash_cons_ne (c : Nat) (cs : Bytes) (hc : c ≠ 47) :
    ∃ h t, Spec.splitSlash cs = h :: t ∧ Spec.splitSlash (c :: cs) = (c :: h) :: t := by
  cases hs : Spec.splitSlash cs with
  | nil => exact absurd hs (splitSlash_ne_nil _)
  | cons h t =>
    refine ⟨h, t, rfl, ?_⟩
    rw [Spec.splitSlash, if_neg (by rw [spec_slash]; exact hc), hs]

theorem joinSlash_splitSlash (s : Bytes) : joinSlash (Spec.splitSlash s) = s := by
  induction s with
  | nil => rfl
  | cons c cs ih =>
    by_cases hc : c = 47
    · subst hc
      rw [splitSlash_cons_slash, joinSlash_cons_of_ne_nil _ (splitSlash_ne_nil _), ih]
      rfl
    · obtain ⟨h, t, h1, h2⟩ := splitSlash_cons_ne c cs hc
      rw [h2, joinSlash_cons_head, ← h1, ih]

theorem splitSlash_noslash (x : Bytes) (hx : 47 ∉ x) : Spec.splitSlash x = [x] := by
  induction x with
  | nil => rfl
  | cons c cs ih =>
    have hc : c ≠ 47 := fun h => hx (by simp [h])
    have hcs : 47 ∉ cs := fun h => hx (by simp [h])
    obtain ⟨h, t, h1, h2⟩ := splitSlash_cons_ne c cs hc
    rw [ih hcs] at h1
    cases h1
    exact h2

theorem splitSlash_append_slash (x r : Bytes) (hx : 47 ∉ x) :
    Spec.splitSlash (x ++ 47 :: r) = x :: Spec.splitSlash r := by
  induction x with
  | nil => exact splitSlash_cons_slash r
  | cons c cs ih =>
    have hc : c ≠ 47 := fun h => hx (by simp [h])
    have hcs : 47 ∉ cs := fun h => hx (by simp [h])
    obtain ⟨h, t, h1, h2⟩ := splitSlash_cons_ne c (cs ++ 47 :: r) hc
    rw [ih hcs] at h1
    cases h1
    exact h2

theorem splitSlash_join (xs : List Bytes) (hx : ∀ x ∈ xs, 47 ∉ x) (hne : xs ≠ []) :
    Spec.splitSlash (joinSlash xs) = xs := by
  induction xs with
  | nil => exact absurd rfl hne
  | cons x xs ih =>
    cases xs with
    | nil => exact splitSlash_noslash x (hx x (by simp))
    | cons y ys =>
      rw [joinSlash_cons_cons, splitSlash_append_slash _ _ (hx x (by simp)),
        ih (fun z hz => hx z (by simp [hz])) (by simp)]

/-! ## cutColon / splitColon -/

theorem cutColon_render (a v : Bytes) (h : 58 ∉ a) : cutColon (a ++ 58 :: v) = (a, v) := by
  induction a with
  | nil => simp [cutColon, model_colon]
  | cons c cs ih =>
    have hc : c ≠ 58 := fun h' => h (by simp [h'])
    have hcs : 58 ∉ cs := fun h' => h (by simp [h'])
    simp [cutColon, model_colon, hc, ih hcs]

theorem cutColon_render_pair (p : Pair) (h : 58 ∉ p.1) : cutColon (render p) = p := by
  unfold render; rw [spec_colon]; exact cutColon_render p.1 p.2 h

theorem render_cutColon (el : Bytes) (h : 58 ∈ el) : render (cutColon el) = el := by
  induction el with
  | nil => simp at h
  | cons c cs ih =>
    by_cases hc : c = 58
    · simp [cutColon, model_colon, hc, render, spec_colon]
    · have : 58 ∈ cs := by
        rcases List.mem_cons.mp h with h' | h'
        · exact absurd h'.symm hc
        · exact h'
      have ih' := ih this
      simp only [render] at ih' ⊢
      simp [cutColon, model_colon, hc, ih']

theorem cutColon_nocolon (el : Bytes) (h : 58 ∉ el) : (cutColon el).2 = [] := by
  induction el with
  | nil => rfl
  | cons c cs ih =>
    have hc : c ≠ 58 := fun h' => h (by simp [h'])
    have hcs : 58 ∉ cs := fun h' => h (by simp [h'])
    simp [cutColon, model_colon, hc, ih hcs]

theorem splitColon_render (a v : Bytes) (h : 58 ∉ a) : Spec.splitColon (a ++ 58 :: v) = some (a, v) := by
  induction a with
  | nil => simp [Spec.splitColon, spec_colon]
  | cons c cs ih =>
    have hc : c ≠ 58 := fun h' => h (by simp [h'])
    have hcs : 58 ∉ cs := fun h' => h (by simp [h'])
    simp [Spec.splitColon, spec_colon, hc, ih hcs]

theorem render_of_splitColon (el : Bytes) (p : Pair) (h : Spec.splitColon el = some p) : render p = el := by
  induction el generalizing p with
  | nil => simp [Spec.splitColon] at h
  | cons c cs ih =>
    by_cases hc : c = 58
    · simp [Spec.splitColon, spec_colon, hc] at h
      subst h; simp [render, spec_colon, hc]
    · simp only [Spec.splitColon, spec_colon, hc, if_false] at h
      cases hs : Spec.splitColon cs with
      | none => simp [hs] at h
      | some q =>
        obtain ⟨a, v⟩ := q
        simp [hs] at h
        subst h
        have := ih _ hs
        simp only [render] at this ⊢
        simp [this]

theorem readPairs_render (w : List Pair) (h : ∀ p ∈ w, 58 ∉ p.1) : Spec.readPairs (w.map render) = some w := by
  unfold Spec.readPairs
  induction w with
  | nil => rfl
  | cons p w ih =>
    have hp : Spec.splitColon (render p) = some p := by
      unfold render; rw [spec_colon]; exact splitColon_render p.1 p.2 (h p (by simp))
    simp only [List.map_cons, List.mapM_cons, hp, ih (fun q hq => h q (by simp [hq]))]
    rfl

theorem render_of_readPairs (parts : List Bytes) (w : List Pair) (h : Spec.readPairs parts = some w) :
    w.map render = parts := by
  unfold Spec.readPairs at h
  induction parts generalizing w with
  | nil => simp at h; subst h; rfl
  | cons el parts ih =>
    rw [List.mapM_cons] at h
    cases hs : Spec.splitColon el with
    | none => simp [hs] at h
    | some p =>
      cases hr : List.mapM Spec.splitColon parts with
      | none => simp [hs, hr] at h
      | some w' =>
        simp [hs, hr] at h
        subst h
        simp [render_of_splitColon el p hs, ih w' hr]

/-- the name of a part that starts with a rendered pair (possibly followed by `/…`) -/
theorem cutColon_render_more (p : Pair) (h : 58 ∉ p.1) (more : Bytes) :
    cutColon (render p ++ 47 :: more) = (p.1, p.2 ++ 47 :: more) := by
  unfold render
  rw [spec_colon, List.append_assoc, List.cons_append]
  exact cutColon_render p.1 _ h

end Proofs.Parse2
