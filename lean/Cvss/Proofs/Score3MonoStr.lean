import Cvss.Proofs.Score3MonoSpec
import Cvss.Proofs.Score3Main31
import Cvss.Proofs.EffKeys
/-!
# C12 (v3), specification side: the scores of `Spec/V3.lean` are monotone in every metric

For an assignment `f : Bytes → Bytes` of legal value strings to the 22 metrics, a metric `a` and two legal values
`v₁`, `v₂` with `Spec.atLeastAsSevere … f a v₁ v₂` (severity order of `Spec/Effective.lean`; a Modified `X` ranks as
the base metric's value): `baseK`, `temporalK` (both versions) and `environmentalK true` (v3.1) of `upd f a v₁` are
`≤` those of `upd f a v₂`. No code involved: strings are decoded to table indices (per-slot `decide` facts) and the
index-level monotonicity of `Score3MonoSpec.lean` is applied.
-/
namespace Proofs.Score3.Mono
open Spec Spec.V3 Proofs.Score3
open EffKeys (upd)

abbrev ms : List Metric := Spec.V3.metrics

/-- `t` ranks at least as high as `s` for metric `x` (both ranked) -/
def sevLE (x s t : Bytes) : Bool :=
  match rank x s, rank x t with
  | some r₁, some r₂ => r₁ ≤ r₂
  | _, _ => false
/-- `s ⪯ t`: unchanged, or at least as severe -/
def R (x s t : Bytes) : Prop := s = t ∨ sevLE x s t = true

/-! ## one metric changes: what happens to each input of the equations -/

/-- a metric `x` that is not a Modified metric (its rank does not depend on the context) -/
theorem single_step (f : Bytes → Bytes) {x a v₁ v₂ : Bytes} (hbx : baseOf ms x = none)
    (sev : atLeastAsSevere ms rank f a v₁ v₂ = true) : R x (upd f a v₁ x) (upd f a v₂ x) := by
  by_cases h : x = a
  · subst h
    simp only [atLeastAsSevere, rankCtx, hbx] at sev
    simp only [upd, if_true]
    exact Or.inr sev
  · simp only [upd, if_neg h]; exact Or.inl rfl

/-- the effective value of a base/Modified pair `(x, mx)` -/
theorem eff_step (f : Bytes → Bytes) {x mx a v₁ v₂ : Bytes} (hne : x ≠ mx) (hbx : baseOf ms x = none)
    (hbm : baseOf ms mx = some x) (hr : ∀ v, rank mx v = rank x v)
    (sev : atLeastAsSevere ms rank f a v₁ v₂ = true) :
    R x (Spec.eff (upd f a v₁) x mx) (Spec.eff (upd f a v₂) x mx) := by
  by_cases h1 : a = mx
  · subst h1
    have e : ∀ v, rankCtx ms rank f a v = rank x (Spec.eff (upd f a v) x a) := by
      intro v
      simp only [rankCtx, hbm, Spec.eff, upd, if_true, if_neg hne]
      by_cases hv : v = b "X"
      · simp only [hv, if_true]
      · simp only [hv, if_false, hr]
    simp only [atLeastAsSevere, e] at sev
    exact Or.inr sev
  · by_cases h2 : a = x
    · subst h2
      have hm : mx ≠ a := fun e => hne e.symm
      by_cases hx : f mx = b "X"
      · simp only [atLeastAsSevere, rankCtx, hbx] at sev
        simp only [Spec.eff, upd, if_neg hm, hx, if_true]
        exact Or.inr sev
      · simp only [Spec.eff, upd, if_neg hm, hx, if_false]; exact Or.inl rfl
    · have hm : mx ≠ a := fun e => h1 e.symm
      have hx : x ≠ a := fun e => h2 e.symm
      simp only [Spec.eff, upd, if_neg hm, if_neg hx]; exact Or.inl rfl

/-! ## legality of the inputs -/
theorem upd_mem {f : Bytes → Bytes} {a v x : Bytes} {vals : List Bytes} (hx : f x ∈ vals)
    (hl : ∀ v, legal ms x v = true → v ∈ vals) (l : legal ms a v = true) : upd f a v x ∈ vals := by
  by_cases h : x = a
  · subst h; simp only [upd, if_true]; exact hl v l
  · simp only [upd, if_neg h]; exact hx

theorem eff_mem {g : Bytes → Bytes} {x mx : Bytes} {vals : List Bytes} (hx : g x ∈ vals) (hm : g mx ∈ b "X" :: vals) :
    Spec.eff g x mx ∈ vals := by
  by_cases h : g mx = b "X"
  · simp only [Spec.eff, h, if_true]; exact hx
  · simp only [Spec.eff, h, if_false]
    rcases List.mem_cons.mp hm with e | e
    · exact absurd e h
    · exact e

/-! ## strings to table indices -/
def ixOf (order : List String) (s : Bytes) : Nat := (order.map b).idxOf s
def iAV : Bytes → Nat := ixOf ["N", "A", "L", "P"]
def iAC : Bytes → Nat := ixOf ["L", "H"]
def iPR : Bytes → Nat := ixOf ["N", "L", "H"]
def iUI : Bytes → Nat := ixOf ["N", "R"]
def iS (s : Bytes) : Nat := if s = b "C" then 1 else 0
def iCIA : Bytes → Nat := ixOf ["H", "L", "N"]
/-- requirement index: H0 > M1 = X > L2 -/
def iReq (s : Bytes) : Nat := if s = b "X" then 1 else ixOf ["H", "M", "L"] s
def iE (s : Bytes) : Nat := if s = b "X" then 0 else ixOf ["H", "F", "P", "U"] s
def iRL (s : Bytes) : Nat := if s = b "X" then 0 else ixOf ["U", "W", "T", "O"] s
def iRC (s : Bytes) : Nat := if s = b "X" then 0 else ixOf ["C", "R", "U"] s

def vAV : List Bytes := ["N", "A", "L", "P"].map b
def vAC : List Bytes := ["L", "H"].map b
def vPR : List Bytes := ["N", "L", "H"].map b
def vUI : List Bytes := ["N", "R"].map b
def vS : List Bytes := ["U", "C"].map b
def vCIA : List Bytes := ["H", "L", "N"].map b
def vReq : List Bytes := ["X", "H", "M", "L"].map b
def vE : List Bytes := ["X", "H", "F", "P", "U"].map b
def vRL : List Bytes := ["X", "U", "W", "T", "O"].map b
def vRC : List Bytes := ["X", "C", "R", "U"].map b

/-! weights of strings = weights of indices (closed `decide` facts) -/
theorem fAV : ∀ s ∈ vAV, wAV s = cAV (iAV s) ∧ iAV s < 4 := by decide
theorem fAC : ∀ s ∈ vAC, wAC s = cAC (iAC s) ∧ iAC s < 2 := by decide
theorem fPR : ∀ s ∈ vPR, (∀ ch, wPR ch s = cPR (iPR s) ch) ∧ iPR s < 3 := by decide
theorem fUI : ∀ s ∈ vUI, wUI s = cUI (iUI s) ∧ iUI s < 2 := by decide
theorem fS : ∀ s ∈ vS, (s == b "C") = Nat.beq (iS s) 1 ∧ iS s < 2 := by decide
theorem fCIA : ∀ s ∈ vCIA, wCIA s = cCIA (iCIA s) ∧ iCIA s < 3 := by decide
theorem fReq : ∀ s ∈ vReq, wReq s = cReq (Nat.succ (iReq s)) ∧ iReq s < 3 := by decide
theorem fE : ∀ s ∈ vE, wE s = cE (Nat.succ (iE s)) ∧ iE s < 4 := by decide
theorem fRL : ∀ s ∈ vRL, wRL s = cRL (Nat.succ (iRL s)) ∧ iRL s < 4 := by decide
theorem fRC : ∀ s ∈ vRC, wRC s = cRC (Nat.succ (iRC s)) ∧ iRC s < 3 := by decide

/-! more severe = smaller index (Scope: larger) -/
theorem oAV : ∀ s ∈ vAV, ∀ t ∈ vAV, R (b "AV") s t → iAV t ≤ iAV s := by unfold R; decide
theorem oAC : ∀ s ∈ vAC, ∀ t ∈ vAC, R (b "AC") s t → iAC t ≤ iAC s := by unfold R; decide
theorem oPR : ∀ s ∈ vPR, ∀ t ∈ vPR, R (b "PR") s t → iPR t ≤ iPR s := by unfold R; decide
theorem oUI : ∀ s ∈ vUI, ∀ t ∈ vUI, R (b "UI") s t → iUI t ≤ iUI s := by unfold R; decide
theorem oS : ∀ s ∈ vS, ∀ t ∈ vS, R (b "S") s t → iS s ≤ iS t := by unfold R; decide
theorem oC : ∀ s ∈ vCIA, ∀ t ∈ vCIA, R (b "C") s t → iCIA t ≤ iCIA s := by unfold R; decide
theorem oI : ∀ s ∈ vCIA, ∀ t ∈ vCIA, R (b "I") s t → iCIA t ≤ iCIA s := by unfold R; decide
theorem oA : ∀ s ∈ vCIA, ∀ t ∈ vCIA, R (b "A") s t → iCIA t ≤ iCIA s := by unfold R; decide
theorem oCR : ∀ s ∈ vReq, ∀ t ∈ vReq, R (b "CR") s t → iReq t ≤ iReq s := by unfold R; decide
theorem oIR : ∀ s ∈ vReq, ∀ t ∈ vReq, R (b "IR") s t → iReq t ≤ iReq s := by unfold R; decide
theorem oAR : ∀ s ∈ vReq, ∀ t ∈ vReq, R (b "AR") s t → iReq t ≤ iReq s := by unfold R; decide
theorem oE : ∀ s ∈ vE, ∀ t ∈ vE, R (b "E") s t → iE t ≤ iE s := by unfold R; decide
theorem oRL : ∀ s ∈ vRL, ∀ t ∈ vRL, R (b "RL") s t → iRL t ≤ iRL s := by unfold R; decide
theorem oRC : ∀ s ∈ vRC, ∀ t ∈ vRC, R (b "RC") s t → iRC t ≤ iRC s := by unfold R; decide


/-! ## the Spec scores as functions of the (effective) value strings -/
def gBase (sAV sAC sPR sUI sS sC sI sA : Bytes) : Nat :=
  (BaseScore (sS == b "C") (Impact (sS == b "C") (ISS (wCIA sC) (wCIA sI) (wCIA sA)))
    (Exploitability (wAV sAV) (wAC sAC) (wPR (sS == b "C") sPR) (wUI sUI))).toNat
def gTemp (k : Nat) (sE sRL sRC : Bytes) : Nat := (TemporalScore (Int.ofNat k) (wE sE) (wRL sRL) (wRC sRC)).toNat
def gEnv (v31 : Bool) (sAV sAC sPR sUI sS sC sI sA sCR sIR sAR sE sRL sRC : Bytes) : Nat :=
  (EnvironmentalScore (sS == b "C")
    (ModifiedImpact v31 (sS == b "C") (MISS (wReq sCR) (wCIA sC) (wReq sIR) (wCIA sI) (wReq sAR) (wCIA sA)))
    (Exploitability (wAV sAV) (wAC sAC) (wPR (sS == b "C") sPR) (wUI sUI)) (wE sE) (wRL sRL) (wRC sRC)).toNat

theorem baseK_g (v : Bool) (f : Bytes → Bytes) : baseK v f =
    gBase (f (b "AV")) (f (b "AC")) (f (b "PR")) (f (b "UI")) (f (b "S")) (f (b "C")) (f (b "I")) (f (b "A")) := rfl
theorem temporalK_g (v : Bool) (f : Bytes → Bytes) : temporalK v f = gTemp (baseK v f) (f (b "E")) (f (b "RL")) (f (b "RC")) := rfl
theorem modified_eff (f : Bytes → Bytes) (m base : String) : modified f m base = Spec.eff f (b base) (b m) := by
  unfold modified Spec.eff
  by_cases h : f (b m) = b "X" <;> simp [h]
theorem environmentalK_g (v : Bool) (f : Bytes → Bytes) : environmentalK v f =
    gEnv v (Spec.eff f (b "AV") (b "MAV")) (Spec.eff f (b "AC") (b "MAC")) (Spec.eff f (b "PR") (b "MPR"))
      (Spec.eff f (b "UI") (b "MUI")) (Spec.eff f (b "S") (b "MS")) (Spec.eff f (b "C") (b "MC"))
      (Spec.eff f (b "I") (b "MI")) (Spec.eff f (b "A") (b "MA")) (f (b "CR")) (f (b "IR")) (f (b "AR"))
      (f (b "E")) (f (b "RL")) (f (b "RC")) := by
  simp only [environmentalK, modifiedImpactD, modifiedExploitabilityD, modifiedChanged, modified_eff, gEnv]

/-! ## … and on table indices -/
theorem gBase_ix {sAV sAC sPR sUI sS sC sI sA : Bytes} (hAV : sAV ∈ vAV) (hAC : sAC ∈ vAC) (hPR : sPR ∈ vPR)
    (hUI : sUI ∈ vUI) (hS : sS ∈ vS) (hC : sC ∈ vCIA) (hI : sI ∈ vCIA) (hA : sA ∈ vCIA) :
    gBase sAV sAC sPR sUI sS sC sI sA = kB (iAV sAV) (iAC sAC) (iPR sPR) (iUI sUI) (iS sS) (iCIA sC) (iCIA sI) (iCIA sA) := by
  simp only [gBase, kB, specBase, specImpact, specExpl, (fAV _ hAV).1, (fAC _ hAC).1, (fPR _ hPR).1, (fUI _ hUI).1,
    (fS _ hS).1, (fCIA _ hC).1, (fCIA _ hI).1, (fCIA _ hA).1]

theorem gTemp_ix {k : Nat} {sE sRL sRC : Bytes} (hE : sE ∈ vE) (hRL : sRL ∈ vRL) (hRC : sRC ∈ vRC) :
    gTemp k sE sRL sRC = kT k (iE sE) (iRL sRL) (iRC sRC) := by
  simp only [gTemp, kT, specT, (fE _ hE).1, (fRL _ hRL).1, (fRC _ hRC).1]

/-- the exact modified base score is a number of tenths `≤ 100` (from the C03 enumeration) -/
theorem kI_spec {mav mac mpr mui ms mc mi ma ci ii ai : Nat} (hmav : mav < 4) (hmac : mac < 2) (hmpr : mpr < 3)
    (hmui : mui < 2) (hms : ms < 2) (hmc : mc < 3) (hmi : mi < 3) (hma : ma < 3) (hci : ci < 3) (hii : ii < 3) (hai : ai < 3) :
    specInner true mav mac mpr mui ms mc mi ma (Nat.succ ci) (Nat.succ ii) (Nat.succ ai) =
      Int.ofNat (kI true mav mac mpr mui ms mc mi ma ci ii ai) ∧ kI true mav mac mpr mui ms mc mi ma ci ii ai ≤ 100 := by
  obtain ⟨K, hs, _, hK⟩ := V31.inner_ok hmav hmac hmpr hmui hms hmc hmi hma (Nat.succ_lt_succ hci) (Nat.succ_lt_succ hii)
    (Nat.succ_lt_succ hai)
  have e : kI true mav mac mpr mui ms mc mi ma ci ii ai = K := by unfold kI; rw [hs]; rfl
  exact ⟨e ▸ hs, e ▸ hK⟩

theorem kB_spec {av ac pr ui s c i a : Nat} (hav : av < 4) (hac : ac < 2) (hpr : pr < 3) (hui : ui < 2) (hs : s < 2)
    (hc : c < 3) (hi : i < 3) (ha : a < 3) : kB av ac pr ui s c i a ≤ 100 := by
  obtain ⟨K, hs, _, hK⟩ := V31.base_ok hav hac hpr hui hs hc hi ha
  have e : kB av ac pr ui s c i a = K := by unfold kB; rw [hs]; rfl
  exact e ▸ hK

theorem gEnv_ix {sAV sAC sPR sUI sS sC sI sA sCR sIR sAR sE sRL sRC : Bytes} (hAV : sAV ∈ vAV) (hAC : sAC ∈ vAC)
    (hPR : sPR ∈ vPR) (hUI : sUI ∈ vUI) (hS : sS ∈ vS) (hC : sC ∈ vCIA) (hI : sI ∈ vCIA) (hA : sA ∈ vCIA)
    (hCR : sCR ∈ vReq) (hIR : sIR ∈ vReq) (hAR : sAR ∈ vReq) (hE : sE ∈ vE) (hRL : sRL ∈ vRL) (hRC : sRC ∈ vRC) :
    gEnv true sAV sAC sPR sUI sS sC sI sA sCR sIR sAR sE sRL sRC =
      kT (kI true (iAV sAV) (iAC sAC) (iPR sPR) (iUI sUI) (iS sS) (iCIA sC) (iCIA sI) (iCIA sA) (iReq sCR) (iReq sIR)
        (iReq sAR)) (iE sE) (iRL sRL) (iRC sRC) := by
  have h := (kI_spec (fAV _ hAV).2 (fAC _ hAC).2 (fPR _ hPR).2 (fUI _ hUI).2 (fS _ hS).2 (fCIA _ hC).2 (fCIA _ hI).2
    (fCIA _ hA).2 (fReq _ hCR).2 (fReq _ hIR).2 (fReq _ hAR).2).1
  simp only [specInner, specMImpact, specExpl] at h
  simp only [gEnv, kT, specT, EnvironmentalScore_eq, (fAV _ hAV).1, (fAC _ hAC).1, (fPR _ hPR).1, (fUI _ hUI).1,
    (fS _ hS).1, (fCIA _ hC).1, (fCIA _ hI).1, (fCIA _ hA).1, (fReq _ hCR).1, (fReq _ hIR).1, (fReq _ hAR).1,
    (fE _ hE).1, (fRL _ hRL).1, (fRC _ hRC).1, h]


/-! ## a legal vector, and the legal values per slot -/
/-- every metric holds one of its legal values -/
def LegalVec (f : Bytes → Bytes) : Prop := ∀ m ∈ ms, f m.abv ∈ m.values

theorem hlAV : ∀ v, legal ms (b "AV") v = true → v ∈ vAV := fun v h => List.contains_iff_mem.mp (show vAV.contains v = true from h)
theorem hlAC : ∀ v, legal ms (b "AC") v = true → v ∈ vAC := fun v h => List.contains_iff_mem.mp (show vAC.contains v = true from h)
theorem hlPR : ∀ v, legal ms (b "PR") v = true → v ∈ vPR := fun v h => List.contains_iff_mem.mp (show vPR.contains v = true from h)
theorem hlUI : ∀ v, legal ms (b "UI") v = true → v ∈ vUI := fun v h => List.contains_iff_mem.mp (show vUI.contains v = true from h)
theorem hlS : ∀ v, legal ms (b "S") v = true → v ∈ vS := fun v h => List.contains_iff_mem.mp (show vS.contains v = true from h)
theorem hlC : ∀ v, legal ms (b "C") v = true → v ∈ vCIA := fun v h => List.contains_iff_mem.mp (show vCIA.contains v = true from h)
theorem hlI : ∀ v, legal ms (b "I") v = true → v ∈ vCIA := fun v h => List.contains_iff_mem.mp (show vCIA.contains v = true from h)
theorem hlA : ∀ v, legal ms (b "A") v = true → v ∈ vCIA := fun v h => List.contains_iff_mem.mp (show vCIA.contains v = true from h)
theorem hlCR : ∀ v, legal ms (b "CR") v = true → v ∈ vReq := fun v h => List.contains_iff_mem.mp (show vReq.contains v = true from h)
theorem hlIR : ∀ v, legal ms (b "IR") v = true → v ∈ vReq := fun v h => List.contains_iff_mem.mp (show vReq.contains v = true from h)
theorem hlAR : ∀ v, legal ms (b "AR") v = true → v ∈ vReq := fun v h => List.contains_iff_mem.mp (show vReq.contains v = true from h)
theorem hlE : ∀ v, legal ms (b "E") v = true → v ∈ vE := fun v h => List.contains_iff_mem.mp (show vE.contains v = true from h)
theorem hlRL : ∀ v, legal ms (b "RL") v = true → v ∈ vRL := fun v h => List.contains_iff_mem.mp (show vRL.contains v = true from h)
theorem hlRC : ∀ v, legal ms (b "RC") v = true → v ∈ vRC := fun v h => List.contains_iff_mem.mp (show vRC.contains v = true from h)
theorem hlMAV : ∀ v, legal ms (b "MAV") v = true → v ∈ b "X" :: vAV := fun v h => List.contains_iff_mem.mp (show (b "X" :: vAV).contains v = true from h)
theorem hlMAC : ∀ v, legal ms (b "MAC") v = true → v ∈ b "X" :: vAC := fun v h => List.contains_iff_mem.mp (show (b "X" :: vAC).contains v = true from h)
theorem hlMPR : ∀ v, legal ms (b "MPR") v = true → v ∈ b "X" :: vPR := fun v h => List.contains_iff_mem.mp (show (b "X" :: vPR).contains v = true from h)
theorem hlMUI : ∀ v, legal ms (b "MUI") v = true → v ∈ b "X" :: vUI := fun v h => List.contains_iff_mem.mp (show (b "X" :: vUI).contains v = true from h)
theorem hlMS : ∀ v, legal ms (b "MS") v = true → v ∈ b "X" :: vS := fun v h => List.contains_iff_mem.mp (show (b "X" :: vS).contains v = true from h)
theorem hlMC : ∀ v, legal ms (b "MC") v = true → v ∈ b "X" :: vCIA := fun v h => List.contains_iff_mem.mp (show (b "X" :: vCIA).contains v = true from h)
theorem hlMI : ∀ v, legal ms (b "MI") v = true → v ∈ b "X" :: vCIA := fun v h => List.contains_iff_mem.mp (show (b "X" :: vCIA).contains v = true from h)
theorem hlMA : ∀ v, legal ms (b "MA") v = true → v ∈ b "X" :: vCIA := fun v h => List.contains_iff_mem.mp (show (b "X" :: vCIA).contains v = true from h)

section
variable {f : Bytes → Bytes} (hf : LegalVec f)
include hf
theorem lvAV : f (b "AV") ∈ vAV := hf (mand "AV" ["N", "A", "L", "P"]) (by decide)
theorem lvAC : f (b "AC") ∈ vAC := hf (mand "AC" ["L", "H"]) (by decide)
theorem lvPR : f (b "PR") ∈ vPR := hf (mand "PR" ["N", "L", "H"]) (by decide)
theorem lvUI : f (b "UI") ∈ vUI := hf (mand "UI" ["N", "R"]) (by decide)
theorem lvS : f (b "S") ∈ vS := hf (mand "S" ["U", "C"]) (by decide)
theorem lvC : f (b "C") ∈ vCIA := hf (mand "C" ["H", "L", "N"]) (by decide)
theorem lvI : f (b "I") ∈ vCIA := hf (mand "I" ["H", "L", "N"]) (by decide)
theorem lvA : f (b "A") ∈ vCIA := hf (mand "A" ["H", "L", "N"]) (by decide)
theorem lvCR : f (b "CR") ∈ vReq := hf (optX "CR" ["H", "M", "L"]) (by decide)
theorem lvIR : f (b "IR") ∈ vReq := hf (optX "IR" ["H", "M", "L"]) (by decide)
theorem lvAR : f (b "AR") ∈ vReq := hf (optX "AR" ["H", "M", "L"]) (by decide)
theorem lvE : f (b "E") ∈ vE := hf (optX "E" ["H", "F", "P", "U"]) (by decide)
theorem lvRL : f (b "RL") ∈ vRL := hf (optX "RL" ["U", "W", "T", "O"]) (by decide)
theorem lvRC : f (b "RC") ∈ vRC := hf (optX "RC" ["C", "R", "U"]) (by decide)
theorem lvMAV : f (b "MAV") ∈ b "X" :: vAV := hf (optX "MAV" ["N", "A", "L", "P"]) (by decide)
theorem lvMAC : f (b "MAC") ∈ b "X" :: vAC := hf (optX "MAC" ["L", "H"]) (by decide)
theorem lvMPR : f (b "MPR") ∈ b "X" :: vPR := hf (optX "MPR" ["N", "L", "H"]) (by decide)
theorem lvMUI : f (b "MUI") ∈ b "X" :: vUI := hf (optX "MUI" ["N", "R"]) (by decide)
theorem lvMS : f (b "MS") ∈ b "X" :: vS := hf (optX "MS" ["U", "C"]) (by decide)
theorem lvMC : f (b "MC") ∈ b "X" :: vCIA := hf (optX "MC" ["H", "L", "N"]) (by decide)
theorem lvMI : f (b "MI") ∈ b "X" :: vCIA := hf (optX "MI" ["H", "L", "N"]) (by decide)
theorem lvMA : f (b "MA") ∈ b "X" :: vCIA := hf (optX "MA" ["H", "L", "N"]) (by decide)
end

/-! ## the three scores are monotone in every metric -/
section
variable {f : Bytes → Bytes} (hf : LegalVec f) {a v₁ v₂ : Bytes} (l1 : legal ms a v₁ = true) (l2 : legal ms a v₂ = true)
  (sev : atLeastAsSevere ms rank f a v₁ v₂ = true)
include hf l1 l2 sev

theorem base_spec_mono (v : Bool) : baseK v (upd f a v₁) ≤ baseK v (upd f a v₂) ∧ baseK v (upd f a v₂) ≤ 100 := by
  have m1AV := upd_mem (lvAV hf) hlAV l1
  have m2AV := upd_mem (lvAV hf) hlAV l2
  have rAV := oAV _ m1AV _ m2AV (single_step f (x := b "AV") rfl sev)
  have m1AC := upd_mem (lvAC hf) hlAC l1
  have m2AC := upd_mem (lvAC hf) hlAC l2
  have rAC := oAC _ m1AC _ m2AC (single_step f (x := b "AC") rfl sev)
  have m1PR := upd_mem (lvPR hf) hlPR l1
  have m2PR := upd_mem (lvPR hf) hlPR l2
  have rPR := oPR _ m1PR _ m2PR (single_step f (x := b "PR") rfl sev)
  have m1UI := upd_mem (lvUI hf) hlUI l1
  have m2UI := upd_mem (lvUI hf) hlUI l2
  have rUI := oUI _ m1UI _ m2UI (single_step f (x := b "UI") rfl sev)
  have m1S := upd_mem (lvS hf) hlS l1
  have m2S := upd_mem (lvS hf) hlS l2
  have rS := oS _ m1S _ m2S (single_step f (x := b "S") rfl sev)
  have m1C := upd_mem (lvC hf) hlC l1
  have m2C := upd_mem (lvC hf) hlC l2
  have rC := oC _ m1C _ m2C (single_step f (x := b "C") rfl sev)
  have m1I := upd_mem (lvI hf) hlI l1
  have m2I := upd_mem (lvI hf) hlI l2
  have rI := oI _ m1I _ m2I (single_step f (x := b "I") rfl sev)
  have m1A := upd_mem (lvA hf) hlA l1
  have m2A := upd_mem (lvA hf) hlA l2
  have rA := oA _ m1A _ m2A (single_step f (x := b "A") rfl sev)
  rw [baseK_g, baseK_g, gBase_ix m1AV m1AC m1PR m1UI m1S m1C m1I m1A, gBase_ix m2AV m2AC m2PR m2UI m2S m2C m2I m2A]
  exact ⟨kB_mono (fAV _ m1AV).2 (fAC _ m1AC).2 (fPR _ m1PR).2 (fUI _ m1UI).2 (fS _ m2S).2 (fCIA _ m1C).2 (fCIA _ m1I).2 (fCIA _ m1A).2
      rAV rAC rPR rUI rS rC rI rA,
    kB_spec (fAV _ m2AV).2 (fAC _ m2AC).2 (fPR _ m2PR).2 (fUI _ m2UI).2 (fS _ m2S).2 (fCIA _ m2C).2 (fCIA _ m2I).2 (fCIA _ m2A).2⟩

theorem temporal_spec_mono (v : Bool) : temporalK v (upd f a v₁) ≤ temporalK v (upd f a v₂) := by
  obtain ⟨hb, hb100⟩ := base_spec_mono hf l1 l2 sev v
  have m1E := upd_mem (lvE hf) hlE l1
  have m2E := upd_mem (lvE hf) hlE l2
  have rE := oE _ m1E _ m2E (single_step f (x := b "E") rfl sev)
  have m1RL := upd_mem (lvRL hf) hlRL l1
  have m2RL := upd_mem (lvRL hf) hlRL l2
  have rRL := oRL _ m1RL _ m2RL (single_step f (x := b "RL") rfl sev)
  have m1RC := upd_mem (lvRC hf) hlRC l1
  have m2RC := upd_mem (lvRC hf) hlRC l2
  have rRC := oRC _ m1RC _ m2RC (single_step f (x := b "RC") rfl sev)
  rw [temporalK_g, temporalK_g, gTemp_ix m1E m1RL m1RC, gTemp_ix m2E m2RL m2RC]
  exact kT_mono (fE _ m1E).2 (fRL _ m1RL).2 (fRC _ m1RC).2 hb100 hb rE rRL rRC

/-- v3.1 -/
theorem env_spec_mono : environmentalK true (upd f a v₁) ≤ environmentalK true (upd f a v₂) := by
  have m1AV := eff_mem (upd_mem (lvAV hf) hlAV l1) (upd_mem (lvMAV hf) hlMAV l1)
  have m2AV := eff_mem (upd_mem (lvAV hf) hlAV l2) (upd_mem (lvMAV hf) hlMAV l2)
  have rAV := oAV _ m1AV _ m2AV (eff_step f (x := b "AV") (mx := b "MAV") (by decide) rfl rfl (fun _ => rfl) sev)
  have m1AC := eff_mem (upd_mem (lvAC hf) hlAC l1) (upd_mem (lvMAC hf) hlMAC l1)
  have m2AC := eff_mem (upd_mem (lvAC hf) hlAC l2) (upd_mem (lvMAC hf) hlMAC l2)
  have rAC := oAC _ m1AC _ m2AC (eff_step f (x := b "AC") (mx := b "MAC") (by decide) rfl rfl (fun _ => rfl) sev)
  have m1PR := eff_mem (upd_mem (lvPR hf) hlPR l1) (upd_mem (lvMPR hf) hlMPR l1)
  have m2PR := eff_mem (upd_mem (lvPR hf) hlPR l2) (upd_mem (lvMPR hf) hlMPR l2)
  have rPR := oPR _ m1PR _ m2PR (eff_step f (x := b "PR") (mx := b "MPR") (by decide) rfl rfl (fun _ => rfl) sev)
  have m1UI := eff_mem (upd_mem (lvUI hf) hlUI l1) (upd_mem (lvMUI hf) hlMUI l1)
  have m2UI := eff_mem (upd_mem (lvUI hf) hlUI l2) (upd_mem (lvMUI hf) hlMUI l2)
  have rUI := oUI _ m1UI _ m2UI (eff_step f (x := b "UI") (mx := b "MUI") (by decide) rfl rfl (fun _ => rfl) sev)
  have m1S := eff_mem (upd_mem (lvS hf) hlS l1) (upd_mem (lvMS hf) hlMS l1)
  have m2S := eff_mem (upd_mem (lvS hf) hlS l2) (upd_mem (lvMS hf) hlMS l2)
  have rS := oS _ m1S _ m2S (eff_step f (x := b "S") (mx := b "MS") (by decide) rfl rfl (fun _ => rfl) sev)
  have m1C := eff_mem (upd_mem (lvC hf) hlC l1) (upd_mem (lvMC hf) hlMC l1)
  have m2C := eff_mem (upd_mem (lvC hf) hlC l2) (upd_mem (lvMC hf) hlMC l2)
  have rC := oC _ m1C _ m2C (eff_step f (x := b "C") (mx := b "MC") (by decide) rfl rfl (fun _ => rfl) sev)
  have m1I := eff_mem (upd_mem (lvI hf) hlI l1) (upd_mem (lvMI hf) hlMI l1)
  have m2I := eff_mem (upd_mem (lvI hf) hlI l2) (upd_mem (lvMI hf) hlMI l2)
  have rI := oI _ m1I _ m2I (eff_step f (x := b "I") (mx := b "MI") (by decide) rfl rfl (fun _ => rfl) sev)
  have m1A := eff_mem (upd_mem (lvA hf) hlA l1) (upd_mem (lvMA hf) hlMA l1)
  have m2A := eff_mem (upd_mem (lvA hf) hlA l2) (upd_mem (lvMA hf) hlMA l2)
  have rA := oA _ m1A _ m2A (eff_step f (x := b "A") (mx := b "MA") (by decide) rfl rfl (fun _ => rfl) sev)
  have m1CR := upd_mem (lvCR hf) hlCR l1
  have m2CR := upd_mem (lvCR hf) hlCR l2
  have rCR := oCR _ m1CR _ m2CR (single_step f (x := b "CR") rfl sev)
  have m1IR := upd_mem (lvIR hf) hlIR l1
  have m2IR := upd_mem (lvIR hf) hlIR l2
  have rIR := oIR _ m1IR _ m2IR (single_step f (x := b "IR") rfl sev)
  have m1AR := upd_mem (lvAR hf) hlAR l1
  have m2AR := upd_mem (lvAR hf) hlAR l2
  have rAR := oAR _ m1AR _ m2AR (single_step f (x := b "AR") rfl sev)
  have m1E := upd_mem (lvE hf) hlE l1
  have m2E := upd_mem (lvE hf) hlE l2
  have rE := oE _ m1E _ m2E (single_step f (x := b "E") rfl sev)
  have m1RL := upd_mem (lvRL hf) hlRL l1
  have m2RL := upd_mem (lvRL hf) hlRL l2
  have rRL := oRL _ m1RL _ m2RL (single_step f (x := b "RL") rfl sev)
  have m1RC := upd_mem (lvRC hf) hlRC l1
  have m2RC := upd_mem (lvRC hf) hlRC l2
  have rRC := oRC _ m1RC _ m2RC (single_step f (x := b "RC") rfl sev)
  rw [environmentalK_g, environmentalK_g, gEnv_ix m1AV m1AC m1PR m1UI m1S m1C m1I m1A m1CR m1IR m1AR m1E m1RL m1RC,
    gEnv_ix m2AV m2AC m2PR m2UI m2S m2C m2I m2A m2CR m2IR m2AR m2E m2RL m2RC]
  have hi := kI_mono (fAV _ m1AV).2 (fAC _ m1AC).2 (fPR _ m1PR).2 (fUI _ m1UI).2 (fS _ m2S).2 (fCIA _ m1C).2 (fCIA _ m1I).2
    (fCIA _ m1A).2 (fReq _ m1CR).2 (fReq _ m1IR).2 (fReq _ m1AR).2 rAV rAC rPR rUI rS rC rI rA rCR rIR rAR
  have h100 := (kI_spec (fAV _ m2AV).2 (fAC _ m2AC).2 (fPR _ m2PR).2 (fUI _ m2UI).2 (fS _ m2S).2 (fCIA _ m2C).2 (fCIA _ m2I).2
    (fCIA _ m2A).2 (fReq _ m2CR).2 (fReq _ m2IR).2 (fReq _ m2AR).2).2
  exact kT_mono (fE _ m1E).2 (fRL _ m1RL).2 (fRC _ m1RC).2 h100 hi rE rRL rRC
end

end Proofs.Score3.Mono
