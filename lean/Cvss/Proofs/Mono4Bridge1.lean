import Cvss.Proofs.Mono4BridgeDef
/-! GENERATED: bridge check (`scoreP` = Spec `scoreOf`, and ≥ 1), chunk 1, 8774 points -/
namespace Proofs.Mono4
set_option maxHeartbeats 2000000 in
theorem bridge_000011 : bridgeOkMV 0 0 0 0 1 1 = true := by decide +kernel
set_option maxHeartbeats 2000000 in
theorem bridge_000110 : bridgeOkMV 0 0 0 1 1 0 = true := by decide +kernel
set_option maxHeartbeats 2000000 in
theorem bridge_000211 : bridgeOkMV 0 0 0 2 1 1 = true := by decide +kernel
set_option maxHeartbeats 2000000 in
theorem bridge_001001 : bridgeOkMV 0 0 1 0 0 1 = true := by decide +kernel
set_option maxHeartbeats 2000000 in
theorem bridge_001120 : bridgeOkMV 0 0 1 1 2 0 = true := by decide +kernel
set_option maxHeartbeats 2000000 in
theorem bridge_001220 : bridgeOkMV 0 0 1 2 2 0 = true := by decide +kernel
set_option maxHeartbeats 2000000 in
theorem bridge_002111 : bridgeOkMV 0 0 2 1 1 1 = true := by decide +kernel
set_option maxHeartbeats 2000000 in
theorem bridge_010011 : bridgeOkMV 0 1 0 0 1 1 = true := by decide +kernel
set_option maxHeartbeats 2000000 in
theorem bridge_010111 : bridgeOkMV 0 1 0 1 1 1 = true := by decide +kernel
set_option maxHeartbeats 2000000 in
theorem bridge_010211 : bridgeOkMV 0 1 0 2 1 1 = true := by decide +kernel
set_option maxHeartbeats 2000000 in
theorem bridge_011001 : bridgeOkMV 0 1 1 0 0 1 = true := by decide +kernel
set_option maxHeartbeats 2000000 in
theorem bridge_011101 : bridgeOkMV 0 1 1 1 0 1 = true := by decide +kernel
set_option maxHeartbeats 2000000 in
theorem bridge_011120 : bridgeOkMV 0 1 1 1 2 0 = true := by decide +kernel
set_option maxHeartbeats 2000000 in
theorem bridge_011220 : bridgeOkMV 0 1 1 2 2 0 = true := by decide +kernel
set_option maxHeartbeats 2000000 in
theorem bridge_012011 : bridgeOkMV 0 1 2 0 1 1 = true := by decide +kernel
set_option maxHeartbeats 2000000 in
theorem bridge_100010 : bridgeOkMV 1 0 0 0 1 0 = true := by decide +kernel
set_option maxHeartbeats 2000000 in
theorem bridge_100011 : bridgeOkMV 1 0 0 0 1 1 = true := by decide +kernel
set_option maxHeartbeats 2000000 in
theorem bridge_100110 : bridgeOkMV 1 0 0 1 1 0 = true := by decide +kernel
set_option maxHeartbeats 2000000 in
theorem bridge_100211 : bridgeOkMV 1 0 0 2 1 1 = true := by decide +kernel
set_option maxHeartbeats 2000000 in
theorem bridge_101201 : bridgeOkMV 1 0 1 2 0 1 = true := by decide +kernel
set_option maxHeartbeats 2000000 in
theorem bridge_102011 : bridgeOkMV 1 0 2 0 1 1 = true := by decide +kernel
set_option maxHeartbeats 2000000 in
theorem bridge_102111 : bridgeOkMV 1 0 2 1 1 1 = true := by decide +kernel
set_option maxHeartbeats 2000000 in
theorem bridge_102211 : bridgeOkMV 1 0 2 2 1 1 = true := by decide +kernel
set_option maxHeartbeats 2000000 in
theorem bridge_110110 : bridgeOkMV 1 1 0 1 1 0 = true := by decide +kernel
set_option maxHeartbeats 2000000 in
theorem bridge_110211 : bridgeOkMV 1 1 0 2 1 1 = true := by decide +kernel
set_option maxHeartbeats 2000000 in
theorem bridge_111020 : bridgeOkMV 1 1 1 0 2 0 = true := by decide +kernel
set_option maxHeartbeats 2000000 in
theorem bridge_111101 : bridgeOkMV 1 1 1 1 0 1 = true := by decide +kernel
set_option maxHeartbeats 2000000 in
theorem bridge_111201 : bridgeOkMV 1 1 1 2 0 1 = true := by decide +kernel
set_option maxHeartbeats 2000000 in
theorem bridge_111220 : bridgeOkMV 1 1 1 2 2 0 = true := by decide +kernel
set_option maxHeartbeats 2000000 in
theorem bridge_112211 : bridgeOkMV 1 1 2 2 1 1 = true := by decide +kernel
set_option maxHeartbeats 2000000 in
theorem bridge_200110 : bridgeOkMV 2 0 0 1 1 0 = true := by decide +kernel
set_option maxHeartbeats 2000000 in
theorem bridge_200211 : bridgeOkMV 2 0 0 2 1 1 = true := by decide +kernel
set_option maxHeartbeats 2000000 in
theorem bridge_201001 : bridgeOkMV 2 0 1 0 0 1 = true := by decide +kernel
set_option maxHeartbeats 2000000 in
theorem bridge_201101 : bridgeOkMV 2 0 1 1 0 1 = true := by decide +kernel
set_option maxHeartbeats 2000000 in
theorem bridge_201220 : bridgeOkMV 2 0 1 2 2 0 = true := by decide +kernel
set_option maxHeartbeats 2000000 in
theorem bridge_202211 : bridgeOkMV 2 0 2 2 1 1 = true := by decide +kernel
set_option maxHeartbeats 2000000 in
theorem bridge_210010 : bridgeOkMV 2 1 0 0 1 0 = true := by decide +kernel
set_option maxHeartbeats 2000000 in
theorem bridge_210110 : bridgeOkMV 2 1 0 1 1 0 = true := by decide +kernel
set_option maxHeartbeats 2000000 in
theorem bridge_210111 : bridgeOkMV 2 1 0 1 1 1 = true := by decide +kernel
set_option maxHeartbeats 2000000 in
theorem bridge_210211 : bridgeOkMV 2 1 0 2 1 1 = true := by decide +kernel
set_option maxHeartbeats 2000000 in
theorem bridge_211001 : bridgeOkMV 2 1 1 0 0 1 = true := by decide +kernel
set_option maxHeartbeats 2000000 in
theorem bridge_211101 : bridgeOkMV 2 1 1 1 0 1 = true := by decide +kernel
set_option maxHeartbeats 2000000 in
theorem bridge_211220 : bridgeOkMV 2 1 1 2 2 0 = true := by decide +kernel
set_option maxHeartbeats 2000000 in
theorem bridge_212011 : bridgeOkMV 2 1 2 0 1 1 = true := by decide +kernel
set_option maxHeartbeats 2000000 in
theorem bridge_212211 : bridgeOkMV 2 1 2 2 1 1 = true := by decide +kernel
end Proofs.Mono4
