import Cvss.Proofs.Parse4Lex
/-!
# v4.0 parser proofs, part 2: the order walk

`Model.walk4` iterated over a list of abbreviations (`walkAll`), on an order of the shape
"`B` tagged `true`, then `Oo` tagged `false`" (`mk B Oo`), characterised by: the abbreviations are
`B` followed by a sub-sequence of `Oo` (or, when fewer than `|B|`, a prefix of `B`).
Generic in `B` and `Oo`; no table is consulted here.
-/
namespace Proofs.P4
open Model (Bytes walk4)

abbrev Ord := List (Bool × Bytes)

/-- `walk4` iterated -/
def walkAll : Ord → List Bytes → Option Ord
  | ord, [] => some ord
  | ord, a :: as =>
    match walk4 ord a with
    | none => none
    | some o => walkAll o as

/-- base group `B` (no skipping), then the optional abbreviations `Oo` -/
def mk (B Oo : List Bytes) : Ord := B.map (fun a => (true, a)) ++ Oo.map (fun a => (false, a))

theorem flatOrder_eq (g0 : List Bytes) (gs : List (List Bytes)) : Model.flatOrder (g0 :: gs) = mk g0 gs.flatten := rfl

@[simp] theorem walkAll_nil (ord : Ord) : walkAll ord [] = some ord := by simp [walkAll]

theorem walkAll_cons (ord : Ord) (a : Bytes) (as : List Bytes) :
    walkAll ord (a :: as) = (walk4 ord a).bind (fun o => walkAll o as) := by
  rw [walkAll]; cases walk4 ord a <;> rfl

theorem walkAll_append : ∀ (xs ys : List Bytes) (ord : Ord),
    walkAll ord (xs ++ ys) = (walkAll ord xs).bind (fun o => walkAll o ys)
  | [], ys, ord => by simp
  | x :: xs, ys, ord => by
    rw [List.cons_append, walkAll_cons, walkAll_cons]
    cases walk4 ord x with
    | none => rfl
    | some o => simp [walkAll_append xs ys o]

/-! ## single steps -/

theorem walk4_base (b : Bytes) (B Oo : List Bytes) (a : Bytes) :
    walk4 (mk (b :: B) Oo) a = if a = b then some (mk B Oo) else none := by
  simp only [mk, List.map_cons, List.cons_append, walk4]
  by_cases h : a = b <;> simp [h]

theorem walk4_opt_nil (a : Bytes) : walk4 (mk [] []) a = none := rfl

theorem walk4_opt_cons (y : Bytes) (ys : List Bytes) (a : Bytes) :
    walk4 (mk [] (y :: ys)) a = if a = y then some (mk [] ys) else walk4 (mk [] ys) a := by
  simp only [mk, List.map_cons, List.map_nil, List.nil_append, walk4]
  simp

/-- a successful step finds the abbreviation in the order and returns what follows it -/
theorem walk4_some : ∀ {ord ord' : Ord} {a : Bytes}, walk4 ord a = some ord' →
    ∃ pre t, ord = pre ++ (t, a) :: ord'
  | [], _, _, h => by simp [walk4] at h
  | (t, n) :: rest, ord', a, h => by
    rw [walk4] at h
    split at h
    · simp at h
    · split at h
      · rename_i e
        simp only [Option.some.injEq] at h
        subst h; subst e
        exact ⟨[], t, rfl⟩
      · obtain ⟨pre, t', e⟩ := walk4_some h
        exact ⟨(t, n) :: pre, t', by rw [e]; rfl⟩

theorem walk4_none_of_not_mem {ord : Ord} {a : Bytes} (h : a ∉ ord.map (·.2)) : walk4 ord a = none := by
  cases hw : walk4 ord a with
  | none => rfl
  | some o =>
    obtain ⟨pre, t, e⟩ := walk4_some hw
    exact absurd (by rw [e]; simp) h

/-! ## the optional phase is the greedy sub-sequence test -/

theorem isSubseq_eq_isSublist : ∀ (ys xs : List Bytes), Spec.isSubseq xs ys = xs.isSublist ys
  | _, [] => by cases ‹List Bytes› <;> simp [Spec.isSubseq, List.isSublist]
  | [], _ :: _ => by simp [Spec.isSubseq, List.isSublist]
  | y :: ys, x :: xs => by
    rw [Spec.isSubseq, List.isSublist]
    by_cases h : x = y
    · simp [h, isSubseq_eq_isSublist ys xs]
    · simp [h, isSubseq_eq_isSublist ys (x :: xs)]

theorem isSubseq_iff (xs ys : List Bytes) : Spec.isSubseq xs ys = true ↔ xs.Sublist ys := by
  rw [isSubseq_eq_isSublist]; exact List.isSublist_iff_sublist

theorem walkAll_opt : ∀ (os names : List Bytes),
    (∃ os', walkAll (mk [] os) names = some (mk [] os')) ∨ walkAll (mk [] os) names = none
  | os, [] => Or.inl ⟨os, by simp⟩
  | [], a :: as => Or.inr (by rw [walkAll_cons, walk4_opt_nil]; rfl)
  | y :: ys, a :: as => by
    by_cases h : a = y
    · have := walkAll_opt ys as
      rw [walkAll_cons, walk4_opt_cons, if_pos h]
      exact this
    · have := walkAll_opt ys (a :: as)
      rw [walkAll_cons] at this
      rw [walkAll_cons, walk4_opt_cons, if_neg h]
      exact this

theorem walkAll_opt_isSome : ∀ (os names : List Bytes),
    (walkAll (mk [] os) names).isSome = Spec.isSubseq names os
  | os, [] => by cases os <;> simp [Spec.isSubseq]
  | [], a :: as => by rw [walkAll_cons, walk4_opt_nil]; simp [Spec.isSubseq]
  | y :: ys, a :: as => by
    by_cases h : a = y
    · have := walkAll_opt_isSome ys as
      rw [walkAll_cons, walk4_opt_cons, if_pos h, Spec.isSubseq, if_pos h]
      exact this
    · have := walkAll_opt_isSome ys (a :: as)
      rw [walkAll_cons] at this
      rw [walkAll_cons, walk4_opt_cons, if_neg h, Spec.isSubseq, if_neg h]
      exact this

theorem any_mk_nil (os : List Bytes) : (mk [] os).any (·.1) = false := by
  simp [mk]

theorem any_mk_cons (b : Bytes) (B os : List Bytes) : (mk (b :: B) os).any (·.1) = true := by
  simp [mk]

/-! ## the whole walk -/

theorem walkAll_base_cons (b : Bytes) (B Oo : List Bytes) (a : Bytes) (as : List Bytes) :
    walkAll (mk (b :: B) Oo) (a :: as) = if a = b then walkAll (mk B Oo) as else none := by
  rw [walkAll_cons, walk4_base]
  by_cases h : a = b <;> simp [h]

/-- what a successful walk says about the abbreviations -/
theorem walkAll_some : ∀ (B Oo names : List Bytes) (ord' : Ord), walkAll (mk B Oo) names = some ord' →
    (names.length < B.length ∧ names = B.take names.length ∧ ord' = mk (B.drop names.length) Oo ∧
      ord'.any (·.1) = true) ∨
    (∃ opt, names = B ++ opt ∧ opt.Sublist Oo ∧ ord'.any (·.1) = false)
  | [], Oo, names, ord', h => by
    right
    refine ⟨names, by simp, ?_, ?_⟩
    · rw [← isSubseq_iff, ← walkAll_opt_isSome, h]; rfl
    · rcases walkAll_opt Oo names with ⟨os', e⟩ | e
      · rw [e] at h; simp only [Option.some.injEq] at h; subst h; exact any_mk_nil os'
      · rw [e] at h; simp at h
  | b :: B, Oo, [], ord', h => by
    left
    simp only [walkAll_nil, Option.some.injEq] at h
    subst h
    exact ⟨by simp, by simp, by simp, any_mk_cons b B Oo⟩
  | b :: B, Oo, a :: as, ord', h => by
    rw [walkAll_base_cons] at h
    by_cases e : a = b
    · rw [if_pos e] at h
      subst e
      rcases walkAll_some B Oo as ord' h with ⟨h1, h2, h3, h4⟩ | ⟨opt, h1, h2, h3⟩
      · left
        refine ⟨by simpa using h1, ?_, by simpa using h3, h4⟩
        simp only [List.length_cons, List.take_succ_cons]
        rw [← h2]
      · right
        exact ⟨opt, by simp [h1], h2, h3⟩
    · rw [if_neg e] at h; simp at h

/-- a prefix of the base group walks to the rest of the base group -/
theorem walkAll_take : ∀ (B Oo : List Bytes) (k : Nat), walkAll (mk B Oo) (B.take k) = some (mk (B.drop k) Oo)
  | B, Oo, 0 => by simp
  | [], Oo, k + 1 => by simp
  | b :: B, Oo, k + 1 => by
    rw [List.take_succ_cons, walkAll_base_cons, if_pos rfl, walkAll_take B Oo k]; rfl

/-- the base group followed by a sub-sequence of the optional abbreviations walks to the end -/
theorem walkAll_valid (B Oo opt : List Bytes) (h : opt.Sublist Oo) :
    ∃ ord', walkAll (mk B Oo) (B ++ opt) = some ord' ∧ ord'.any (·.1) = false := by
  rw [walkAll_append]
  have := walkAll_take B Oo B.length
  rw [List.take_length, List.drop_length] at this
  rw [this]
  simp only [Option.bind_some]
  have h2 := walkAll_opt_isSome Oo opt
  rw [(isSubseq_iff opt Oo).mpr h] at h2
  rcases walkAll_opt Oo opt with ⟨os', e⟩ | e
  · exact ⟨_, e, any_mk_nil os'⟩
  · rw [e] at h2; simp at h2

/-- the walk accepts, and ends outside the base group, exactly on "`B` then a sub-sequence of `Oo`" -/
theorem walkAll_ok_iff (B Oo names : List Bytes) :
    (∃ ord', walkAll (mk B Oo) names = some ord' ∧ ord'.any (·.1) = false) ↔
    ∃ opt, opt.Sublist Oo ∧ names = B ++ opt := by
  constructor
  · rintro ⟨ord', h, hany⟩
    rcases walkAll_some B Oo names ord' h with ⟨_, _, _, h4⟩ | ⟨opt, h1, h2, _⟩
    · rw [h4] at hany; exact absurd hany (by simp)
    · exact ⟨opt, h2, h1⟩
  · rintro ⟨opt, h1, rfl⟩
    exact walkAll_valid B Oo opt h1

end Proofs.P4
