import Cvss.Gen.K31
import Cvss.Proofs.NoPanic3Common
import Cvss.Proofs.Score3Codes31
/-!
# No-panic, v3.1: the generated twins on field codes

`Gen/K31.lean` (regenerated from the Go source by `tools/okgen` + `tools/gen`) contains for every function `f` of the package
that can panic a twin `f_ok` that returns `true` exactly when `f` returns normally. Here:
* every twin of a weight helper is *exactly* a range test on its code (`RangeOk`): the `default: panic(...)` of the helper's
  `switch` is its only panic, reached exactly by the codes outside the value table;
* every twin of a method, on codes (`X_ok_core`), is *exactly* the conjunction of the range tests of the codes it reads
  (for `EnvironmentalScore`: of the effective codes `mod base modified`);
* hence the twins return `true` on codes that are in range.
All proofs unfold the generated definitions; nothing is copied from them.
-/
namespace Proofs.NoPanic31
open Proofs.NoPanic3 GenK31

/-! ## weight helpers: the twin is the range test -/
theorem cia_rng : RangeOk cia_ok 3 := fun v => chain3 v
theorem attackVector_rng : RangeOk attackVector_ok 4 := fun v => chain4 v
theorem attackComplexity_rng : RangeOk attackComplexity_ok 2 := fun v => chain2 v
theorem userInteraction_rng : RangeOk userInteraction_ok 2 := fun v => chain2 v
theorem ciar_rng : RangeOk ciar_ok 4 := fun v => chain4' v
theorem exploitCodeMaturity_rng : RangeOk exploitCodeMaturity_ok 5 := fun v => chain5 v
theorem remediationLevel_rng : RangeOk remediationLevel_ok 5 := fun v => chain5 v
theorem reportConfidence_rng : RangeOk reportConfidence_ok 4 := fun v => chain4'' v
/-- `privilegesRequired` panics exactly on a code outside `N L H`, whatever the scope argument -/
theorem privilegesRequired_rng (scope : Nat) : RangeOk (fun v => privilegesRequired_ok v scope) 3 := by
  intro v
  simp only [privilegesRequired_ok, cond_same]
  exact chain3 v

/-- the generated `mod` is the effective-code function -/
theorem mod_isMod : IsMod mod_ := fun _ _ => rfl

/-! ## methods on codes: exact verdicts -/
theorem impact_core_eq (r0 r1 r2 r3 : Nat) :
    Impact_ok_core r0 r1 r2 r3 = (Nat.blt r0 3 && Nat.blt r1 3 && Nat.blt r2 3) := by
  simp only [Impact_ok_core, flet_eq, cond_same, Bool.true_and, cia_rng _]

theorem exploitability_core_eq (r0 r1 r2 r3 r4 : Nat) :
    Exploitability_ok_core r0 r1 r2 r3 r4 = (Nat.blt r0 4 && Nat.blt r1 2 && Nat.blt r2 3 && Nat.blt r4 2) := by
  simp only [Exploitability_ok_core, flet_eq, Bool.true_and, attackVector_rng _, attackComplexity_rng _,
    userInteraction_rng _, privilegesRequired_rng r3 r2]

theorem baseScore_core_eq (r0 r1 r2 r3 r4 r5 r6 r7 r8 : Nat) :
    BaseScore_ok_core r0 r1 r2 r3 r4 r5 r6 r7 r8 =
      ((Nat.blt r0 3 && Nat.blt r1 3 && Nat.blt r2 3) && (Nat.blt r4 4 && Nat.blt r5 2 && Nat.blt r6 3 && Nat.blt r8 2)) := by
  simp only [BaseScore_ok_core, flet_eq, cond_same, Bool.true_and, impact_core_eq, exploitability_core_eq]

theorem temporalScore_core_eq (r0 r1 r2 r3 r4 r5 r6 r7 r8 r9 r10 r11 : Nat) :
    TemporalScore_ok_core r0 r1 r2 r3 r4 r5 r6 r7 r8 r9 r10 r11 =
      ((Nat.blt r0 5 && Nat.blt r1 5 && Nat.blt r2 4) &&
       ((Nat.blt r3 3 && Nat.blt r4 3 && Nat.blt r5 3) && (Nat.blt r7 4 && Nat.blt r8 2 && Nat.blt r9 3 && Nat.blt r11 2))) := by
  simp only [TemporalScore_ok_core, flet_eq, Bool.true_and, baseScore_core_eq, exploitCodeMaturity_rng _,
    remediationLevel_rng _, reportConfidence_rng _]

theorem environmentalScore_core_eq (r0 r1 r2 r3 r4 r5 r6 r7 r8 r9 r10 r11 r12 r13 r14 r15 r16 r17 r18 r19 r20 r21 : Nat) :
    EnvironmentalScore_ok_core r0 r1 r2 r3 r4 r5 r6 r7 r8 r9 r10 r11 r12 r13 r14 r15 r16 r17 r18 r19 r20 r21 =
      ((Nat.blt r16 4 && Nat.blt r17 4 && Nat.blt r18 4 && Nat.blt r19 5 && Nat.blt r20 5 && Nat.blt r21 4) &&
       (Nat.blt (mod_ r10 r11) 3 && Nat.blt (mod_ r12 r13) 3 && Nat.blt (mod_ r14 r15) 3) &&
       (Nat.blt (mod_ r0 r1) 4 && Nat.blt (mod_ r2 r3) 2 && Nat.blt (mod_ r4 r5) 3 && Nat.blt (mod_ r6 r7) 2)) := by
  simp only [EnvironmentalScore_ok_core, flet_eq, cond_same, Bool.true_and, cia_rng _, ciar_rng _,
    exploitCodeMaturity_rng _, remediationLevel_rng _, reportConfidence_rng _, attackVector_rng _,
    attackComplexity_rng _, userInteraction_rng _, privilegesRequired_rng (mod_ r8 r9) (mod_ r4 r5)]

/-! ## … hence `true` on codes in range -/
private theorem blt_true {a n : Nat} (h : a < n) : Nat.blt a n = true := (Nat.blt_eq).mpr h

theorem impact_core_ok {r0 r1 r2 : Nat} (r3 : Nat) (h0 : r0 < 3) (h1 : r1 < 3) (h2 : r2 < 3) :
    Impact_ok_core r0 r1 r2 r3 = true := by
  simp only [impact_core_eq, blt_true h0, blt_true h1, blt_true h2, Bool.and_self]

theorem exploitability_core_ok {r0 r1 r2 r4 : Nat} (r3 : Nat) (h0 : r0 < 4) (h1 : r1 < 2) (h2 : r2 < 3) (h4 : r4 < 2) :
    Exploitability_ok_core r0 r1 r2 r3 r4 = true := by
  simp only [exploitability_core_eq, blt_true h0, blt_true h1, blt_true h2, blt_true h4, Bool.and_self]

theorem baseScore_core_ok {r0 r1 r2 r4 r5 r6 r8 : Nat} (r3 r7 : Nat) (h0 : r0 < 3) (h1 : r1 < 3) (h2 : r2 < 3)
    (h4 : r4 < 4) (h5 : r5 < 2) (h6 : r6 < 3) (h8 : r8 < 2) : BaseScore_ok_core r0 r1 r2 r3 r4 r5 r6 r7 r8 = true := by
  simp only [baseScore_core_eq, blt_true h0, blt_true h1, blt_true h2, blt_true h4, blt_true h5, blt_true h6,
    blt_true h8, Bool.and_self]

theorem temporalScore_core_ok {r0 r1 r2 r3 r4 r5 r7 r8 r9 r11 : Nat} (r6 r10 : Nat) (h0 : r0 < 5) (h1 : r1 < 5)
    (h2 : r2 < 4) (h3 : r3 < 3) (h4 : r4 < 3) (h5 : r5 < 3) (h7 : r7 < 4) (h8 : r8 < 2) (h9 : r9 < 3) (h11 : r11 < 2) :
    TemporalScore_ok_core r0 r1 r2 r3 r4 r5 r6 r7 r8 r9 r10 r11 = true := by
  simp only [temporalScore_core_eq, blt_true h0, blt_true h1, blt_true h2, blt_true h3, blt_true h4, blt_true h5,
    blt_true h7, blt_true h8, blt_true h9, blt_true h11, Bool.and_self]

/-- codes are named as in `EnvironmentalScore_ok_core`: `r0 r2 r4 r6 r8 r10 r12 r14` = AV AC PR UI S C I A,
    `r1 r3 r5 r7 r9 r11 r13 r15` = MAV MAC MPR MUI MS MC MI MA, `r16 … r21` = CR IR AR E RL RC.
    (The scope codes `r8`, `r9` need no hypothesis: `privilegesRequired` does not panic on any scope.) -/
theorem environmentalScore_core_ok {r0 r1 r2 r3 r4 r5 r6 r7 r10 r11 r12 r13 r14 r15 r16 r17 r18 r19 r20 r21 : Nat}
    (r8 r9 : Nat)
    (h0 : r0 < 4) (h1 : r1 < 5) (h2 : r2 < 2) (h3 : r3 < 3) (h4 : r4 < 3) (h5 : r5 < 4) (h6 : r6 < 2) (h7 : r7 < 3)
    (h10 : r10 < 3) (h11 : r11 < 4) (h12 : r12 < 3) (h13 : r13 < 4) (h14 : r14 < 3) (h15 : r15 < 4)
    (h16 : r16 < 4) (h17 : r17 < 4) (h18 : r18 < 4) (h19 : r19 < 5) (h20 : r20 < 5) (h21 : r21 < 4) :
    EnvironmentalScore_ok_core r0 r1 r2 r3 r4 r5 r6 r7 r8 r9 r10 r11 r12 r13 r14 r15 r16 r17 r18 r19 r20 r21 = true := by
  have M := fun n b md => @IsMod.lt _ mod_isMod n b md
  simp only [environmentalScore_core_eq, blt_true h16, blt_true h17, blt_true h18, blt_true h19, blt_true h20,
    blt_true h21, blt_true (M 4 _ _ (by decide) h0 h1), blt_true (M 2 _ _ (by decide) h2 h3),
    blt_true (M 3 _ _ (by decide) h4 h5), blt_true (M 2 _ _ (by decide) h6 h7),
    blt_true (M 3 _ _ (by decide) h10 h11), blt_true (M 3 _ _ (by decide) h12 h13),
    blt_true (M 3 _ _ (by decide) h14 h15), Bool.and_self]

end Proofs.NoPanic31
