import Cvss.Proofs.Score4TailDef
/-! GENERATED chunk 5 of the v4.0 float-tail obligation: for each MacroVector below and every severity
distance tuple within its depths, `roundup(eqsv − mean)` (the generated tail) is `F64.tenth` of the Spec's
exact half-up value. Kernel evaluation (`decide +kernel`), 2926 tuples. -/
namespace Proofs.Score4
set_option maxHeartbeats 2000000 in
theorem tail_000121 : tailOkMV 0 0 0 1 2 1 = true := by decide +kernel
set_option maxHeartbeats 2000000 in
theorem tail_001121 : tailOkMV 0 0 1 1 2 1 = true := by decide +kernel
set_option maxHeartbeats 2000000 in
theorem tail_010220 : tailOkMV 0 1 0 2 2 0 = true := by decide +kernel
set_option maxHeartbeats 2000000 in
theorem tail_011110 : tailOkMV 0 1 1 1 1 0 = true := by decide +kernel
set_option maxHeartbeats 2000000 in
theorem tail_011121 : tailOkMV 0 1 1 1 2 1 = true := by decide +kernel
set_option maxHeartbeats 2000000 in
theorem tail_101110 : tailOkMV 1 0 1 1 1 0 = true := by decide +kernel
set_option maxHeartbeats 2000000 in
theorem tail_111010 : tailOkMV 1 1 1 0 1 0 = true := by decide +kernel
set_option maxHeartbeats 2000000 in
theorem tail_111121 : tailOkMV 1 1 1 1 2 1 = true := by decide +kernel
set_option maxHeartbeats 2000000 in
theorem tail_111210 : tailOkMV 1 1 1 2 1 0 = true := by decide +kernel
set_option maxHeartbeats 2000000 in
theorem tail_200221 : tailOkMV 2 0 0 2 2 1 = true := by decide +kernel
set_option maxHeartbeats 2000000 in
theorem tail_201010 : tailOkMV 2 0 1 0 1 0 = true := by decide +kernel
set_option maxHeartbeats 2000000 in
theorem tail_201210 : tailOkMV 2 0 1 2 1 0 = true := by decide +kernel
set_option maxHeartbeats 2000000 in
theorem tail_202021 : tailOkMV 2 0 2 0 2 1 = true := by decide +kernel
set_option maxHeartbeats 2000000 in
theorem tail_202221 : tailOkMV 2 0 2 2 2 1 = true := by decide +kernel
set_option maxHeartbeats 2000000 in
theorem tail_212121 : tailOkMV 2 1 2 1 2 1 = true := by decide +kernel
end Proofs.Score4
