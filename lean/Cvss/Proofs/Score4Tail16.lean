import Cvss.Proofs.Score4TailDef
/-! GENERATED chunk 16 of the v4.0 float-tail obligation: for each MacroVector below and every severity
distance tuple within its depths, `roundup(eqsv − mean)` (the generated tail) is `F64.tenth` of the Spec's
exact half-up value. Kernel evaluation (`decide +kernel`), 2926 tuples. -/
namespace Proofs.Score4
set_option maxHeartbeats 2000000 in
theorem tail_000011 : tailOkMV 0 0 0 0 1 1 = true := by decide +kernel
set_option maxHeartbeats 2000000 in
theorem tail_001220 : tailOkMV 0 0 1 2 2 0 = true := by decide +kernel
set_option maxHeartbeats 2000000 in
theorem tail_010111 : tailOkMV 0 1 0 1 1 1 = true := by decide +kernel
set_option maxHeartbeats 2000000 in
theorem tail_011220 : tailOkMV 0 1 1 2 2 0 = true := by decide +kernel
set_option maxHeartbeats 2000000 in
theorem tail_100110 : tailOkMV 1 0 0 1 1 0 = true := by decide +kernel
set_option maxHeartbeats 2000000 in
theorem tail_100211 : tailOkMV 1 0 0 2 1 1 = true := by decide +kernel
set_option maxHeartbeats 2000000 in
theorem tail_101201 : tailOkMV 1 0 1 2 0 1 = true := by decide +kernel
set_option maxHeartbeats 2000000 in
theorem tail_112111 : tailOkMV 1 1 2 1 1 1 = true := by decide +kernel
set_option maxHeartbeats 2000000 in
theorem tail_200010 : tailOkMV 2 0 0 0 1 0 = true := by decide +kernel
set_option maxHeartbeats 2000000 in
theorem tail_200011 : tailOkMV 2 0 0 0 1 1 = true := by decide +kernel
set_option maxHeartbeats 2000000 in
theorem tail_201101 : tailOkMV 2 0 1 1 0 1 = true := by decide +kernel
set_option maxHeartbeats 2000000 in
theorem tail_210010 : tailOkMV 2 1 0 0 1 0 = true := by decide +kernel
set_option maxHeartbeats 2000000 in
theorem tail_210011 : tailOkMV 2 1 0 0 1 1 = true := by decide +kernel
set_option maxHeartbeats 2000000 in
theorem tail_210210 : tailOkMV 2 1 0 2 1 0 = true := by decide +kernel
set_option maxHeartbeats 2000000 in
theorem tail_211201 : tailOkMV 2 1 1 2 0 1 = true := by decide +kernel
end Proofs.Score4
