import Cvss.Proofs.Mono4BridgeDef
/-! GENERATED: bridge check (`scoreP` = Spec `scoreOf`, and ≥ 1), chunk 2, 8774 points -/
namespace Proofs.Mono4
set_option maxHeartbeats 2000000 in
theorem bridge_000021 : bridgeOkMV 0 0 0 0 2 1 = true := by decide +kernel
set_option maxHeartbeats 2000000 in
theorem bridge_000120 : bridgeOkMV 0 0 0 1 2 0 = true := by decide +kernel
set_option maxHeartbeats 2000000 in
theorem bridge_000221 : bridgeOkMV 0 0 0 2 2 1 = true := by decide +kernel
set_option maxHeartbeats 2000000 in
theorem bridge_001010 : bridgeOkMV 0 0 1 0 1 0 = true := by decide +kernel
set_option maxHeartbeats 2000000 in
theorem bridge_001121 : bridgeOkMV 0 0 1 1 2 1 = true := by decide +kernel
set_option maxHeartbeats 2000000 in
theorem bridge_001221 : bridgeOkMV 0 0 1 2 2 1 = true := by decide +kernel
set_option maxHeartbeats 2000000 in
theorem bridge_002121 : bridgeOkMV 0 0 2 1 2 1 = true := by decide +kernel
set_option maxHeartbeats 2000000 in
theorem bridge_010021 : bridgeOkMV 0 1 0 0 2 1 = true := by decide +kernel
set_option maxHeartbeats 2000000 in
theorem bridge_010121 : bridgeOkMV 0 1 0 1 2 1 = true := by decide +kernel
set_option maxHeartbeats 2000000 in
theorem bridge_010221 : bridgeOkMV 0 1 0 2 2 1 = true := by decide +kernel
set_option maxHeartbeats 2000000 in
theorem bridge_011010 : bridgeOkMV 0 1 1 0 1 0 = true := by decide +kernel
set_option maxHeartbeats 2000000 in
theorem bridge_011110 : bridgeOkMV 0 1 1 1 1 0 = true := by decide +kernel
set_option maxHeartbeats 2000000 in
theorem bridge_011121 : bridgeOkMV 0 1 1 1 2 1 = true := by decide +kernel
set_option maxHeartbeats 2000000 in
theorem bridge_011221 : bridgeOkMV 0 1 1 2 2 1 = true := by decide +kernel
set_option maxHeartbeats 2000000 in
theorem bridge_012021 : bridgeOkMV 0 1 2 0 2 1 = true := by decide +kernel
set_option maxHeartbeats 2000000 in
theorem bridge_100020 : bridgeOkMV 1 0 0 0 2 0 = true := by decide +kernel
set_option maxHeartbeats 2000000 in
theorem bridge_100021 : bridgeOkMV 1 0 0 0 2 1 = true := by decide +kernel
set_option maxHeartbeats 2000000 in
theorem bridge_100120 : bridgeOkMV 1 0 0 1 2 0 = true := by decide +kernel
set_option maxHeartbeats 2000000 in
theorem bridge_100221 : bridgeOkMV 1 0 0 2 2 1 = true := by decide +kernel
set_option maxHeartbeats 2000000 in
theorem bridge_101210 : bridgeOkMV 1 0 1 2 1 0 = true := by decide +kernel
set_option maxHeartbeats 2000000 in
theorem bridge_102021 : bridgeOkMV 1 0 2 0 2 1 = true := by decide +kernel
set_option maxHeartbeats 2000000 in
theorem bridge_102121 : bridgeOkMV 1 0 2 1 2 1 = true := by decide +kernel
set_option maxHeartbeats 2000000 in
theorem bridge_102221 : bridgeOkMV 1 0 2 2 2 1 = true := by decide +kernel
set_option maxHeartbeats 2000000 in
theorem bridge_110120 : bridgeOkMV 1 1 0 1 2 0 = true := by decide +kernel
set_option maxHeartbeats 2000000 in
theorem bridge_110221 : bridgeOkMV 1 1 0 2 2 1 = true := by decide +kernel
set_option maxHeartbeats 2000000 in
theorem bridge_111021 : bridgeOkMV 1 1 1 0 2 1 = true := by decide +kernel
set_option maxHeartbeats 2000000 in
theorem bridge_111110 : bridgeOkMV 1 1 1 1 1 0 = true := by decide +kernel
set_option maxHeartbeats 2000000 in
theorem bridge_111210 : bridgeOkMV 1 1 1 2 1 0 = true := by decide +kernel
set_option maxHeartbeats 2000000 in
theorem bridge_111221 : bridgeOkMV 1 1 1 2 2 1 = true := by decide +kernel
set_option maxHeartbeats 2000000 in
theorem bridge_112221 : bridgeOkMV 1 1 2 2 2 1 = true := by decide +kernel
set_option maxHeartbeats 2000000 in
theorem bridge_200120 : bridgeOkMV 2 0 0 1 2 0 = true := by decide +kernel
set_option maxHeartbeats 2000000 in
theorem bridge_200221 : bridgeOkMV 2 0 0 2 2 1 = true := by decide +kernel
set_option maxHeartbeats 2000000 in
theorem bridge_201010 : bridgeOkMV 2 0 1 0 1 0 = true := by decide +kernel
set_option maxHeartbeats 2000000 in
theorem bridge_201110 : bridgeOkMV 2 0 1 1 1 0 = true := by decide +kernel
set_option maxHeartbeats 2000000 in
theorem bridge_201221 : bridgeOkMV 2 0 1 2 2 1 = true := by decide +kernel
set_option maxHeartbeats 2000000 in
theorem bridge_202221 : bridgeOkMV 2 0 2 2 2 1 = true := by decide +kernel
set_option maxHeartbeats 2000000 in
theorem bridge_210020 : bridgeOkMV 2 1 0 0 2 0 = true := by decide +kernel
set_option maxHeartbeats 2000000 in
theorem bridge_210120 : bridgeOkMV 2 1 0 1 2 0 = true := by decide +kernel
set_option maxHeartbeats 2000000 in
theorem bridge_210121 : bridgeOkMV 2 1 0 1 2 1 = true := by decide +kernel
set_option maxHeartbeats 2000000 in
theorem bridge_210221 : bridgeOkMV 2 1 0 2 2 1 = true := by decide +kernel
set_option maxHeartbeats 2000000 in
theorem bridge_211010 : bridgeOkMV 2 1 1 0 1 0 = true := by decide +kernel
set_option maxHeartbeats 2000000 in
theorem bridge_211110 : bridgeOkMV 2 1 1 1 1 0 = true := by decide +kernel
set_option maxHeartbeats 2000000 in
theorem bridge_211221 : bridgeOkMV 2 1 1 2 2 1 = true := by decide +kernel
set_option maxHeartbeats 2000000 in
theorem bridge_212021 : bridgeOkMV 2 1 2 0 2 1 = true := by decide +kernel
set_option maxHeartbeats 2000000 in
theorem bridge_212221 : bridgeOkMV 2 1 2 2 2 1 = true := by decide +kernel
end Proofs.Mono4
