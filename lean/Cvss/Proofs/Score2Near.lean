import Cvss.Spec.V2
/-!
# C05 helpers: the executable rounding oracle of `Spec/V2.lean` is the relation `Near`

`tenths x` lists exactly the tenths `k` with `Near x k` (one, or two at an exact tie), and the Boolean
`baseOK/temporalOK/envOK` decide the relations `BaseOK/TemporalOK/EnvOK`. Pure `Rat`/`Int` reasoning; no floats.
-/
namespace Proofs.Score2
open Spec.V2

theorem near_iff {x : Rat} {k : Int} : near x k = true ↔ Near x k := by simp [near]

theorem floor_le_of_near {x : Rat} {k : Int} (h : Near x k) : (10 * x).floor ≤ k := by
  have h2 : x ≤ (k : Rat) / 10 + 1 / 20 := h.2
  have : (10 * x).floor < k + 1 := by
    rw [Rat.floor_lt_iff, Rat.intCast_add]
    grind
  omega

theorem le_floor_succ_of_near {x : Rat} {k : Int} (h : Near x k) : k ≤ (10 * x).floor + 1 := by
  have h1 : (k : Rat) / 10 - 1 / 20 ≤ x := h.1
  have : k - 1 ≤ (10 * x).floor := by
    rw [Rat.le_floor_iff, Rat.intCast_sub]
    grind
  omega

/-- `tenths x` is exactly the set of tenths nearest to `x` -/
theorem mem_tenths {x : Rat} {k : Int} : k ∈ tenths x ↔ Near x k := by
  constructor
  · intro h; exact near_iff.1 (List.mem_filter.1 h).2
  · intro h
    refine List.mem_filter.2 ⟨?_, near_iff.2 h⟩
    have h1 := floor_le_of_near h
    have h2 := le_floor_succ_of_near h
    have : k = (10 * x).floor ∨ k = (10 * x).floor + 1 := by omega
    rcases this with e | e
    · rw [e]; exact List.mem_cons_self
    · rw [e]; exact List.mem_cons_of_mem _ List.mem_cons_self

theorem baseOK_iff (val : Spec.Bytes → Spec.Bytes) (k : Int) : baseOK val k = true ↔ BaseOK val k := by
  simp only [baseOK, baseKs, List.contains_iff_mem, mem_tenths, BaseOK]

theorem temporalOK_iff (val : Spec.Bytes → Spec.Bytes) (k : Int) : temporalOK val k = true ↔ TemporalOK val k := by
  simp only [temporalOK, temporalKs, List.contains_iff_mem, List.mem_eraseDups, List.mem_flatMap, baseKs,
    mem_tenths, TemporalOK]

theorem envOK_iff (val : Spec.Bytes → Spec.Bytes) (k : Int) : envOK val k = true ↔ EnvOK val k := by
  simp only [envOK, envKs, List.contains_iff_mem, List.mem_eraseDups, List.mem_flatMap, mem_tenths, EnvOK]
  constructor
  · rintro ⟨kb, h1, kt, h2, h3⟩; exact ⟨kb, kt, h1, h2, h3⟩
  · rintro ⟨kb, kt, h1, h2, h3⟩; exact ⟨kb, h1, kt, h2, h3⟩

/-- the lists of conforming tenths are exactly the relations -/
theorem mem_baseKs (val : Spec.Bytes → Spec.Bytes) (k : Int) : k ∈ baseKs val ↔ BaseOK val k := by
  rw [← baseOK_iff, baseOK, List.contains_iff_mem]
theorem mem_temporalKs (val : Spec.Bytes → Spec.Bytes) (k : Int) : k ∈ temporalKs val ↔ TemporalOK val k := by
  rw [← temporalOK_iff, temporalOK, List.contains_iff_mem]
theorem mem_envKs (val : Spec.Bytes → Spec.Bytes) (k : Int) : k ∈ envKs val ↔ EnvOK val k := by
  rw [← envOK_iff, envOK, List.contains_iff_mem]

end Proofs.Score2
