import Cvss.Proofs.Mono4Lists
import Cvss.Spec.V4
/-!
# v4.0 monotonicity: the transition lists are complete (Spec level, on value strings)

For every EQ group, every vector of legal effective values of the group and every replacement of ONE value by an
at least as severe one (`Spec.V4.sev`, smaller = more severe): the summaries before and after are in the group's
summary list and the pair is in the group's transition list; for impact metrics, if the new value is `N` so was
the old one. By kernel evaluation of the Spec.
-/
namespace Proofs.Mono4
open Spec Spec.V4

/-- legal effective values of a metric, most severe first -/
def Vof (a : String) : List Bytes := orderOf (b a)

def sum1 (av pr ui : Bytes) : Nat × Nat := (eq1 av pr ui, dist1 av pr ui)
def sum2 (ac at_ : Bytes) : Nat × Nat := (eq2 ac at_, dist2 ac at_)
def sum36 (vc vi va cr ir ar : Bytes) : Nat × Nat × Nat := (eq3 vc vi va, eq6 vc vi va cr ir ar, dist36 vc vi va cr ir ar)
def sum4 (sc si sa : Bytes) : Nat × Nat := (eq4 sc si sa, dist4 sc si sa)

/-- `(index of s, index of s')` is a listed transition, and the indices point back at `s`, `s'` -/
def covPair {σ : Type} [BEq σ] (S : List σ) (d : σ) (tr : List (Nat × Nat)) (s s' : σ) : Bool :=
  tr.contains (S.idxOf s, S.idxOf s') && S.getD (S.idxOf s) d == s && S.getD (S.idxOf s') d == s'

theorem covPair_elim {σ : Type} [BEq σ] [LawfulBEq σ] {S : List σ} {d : σ} {tr : List (Nat × Nat)} {s s' : σ}
    (h : covPair S d tr s s' = true) : ∃ t ∈ tr, S.getD t.1 d = s ∧ S.getD t.2 d = s' := by
  unfold covPair at h
  simp only [Bool.and_eq_true, beq_iff_eq, List.contains_iff_mem] at h
  exact ⟨_, h.1.1, h.1.2, h.2⟩

/-- one replacement: at least as severe ⇒ listed transition (and, for impact metrics, `N` stays `N`) -/
def stepOk {σ : Type} [BEq σ] (S : List σ) (d : σ) (tr : List (Nat × Nat)) (a : String) (imp : Bool) (old : Bytes)
    (s : σ) (f : Bytes → σ) : Bool :=
  (Vof a).all fun x => !(Nat.ble (sev (b a) x) (sev (b a) old)) ||
    (covPair S d tr s (f x) && (!imp || !(is x "N") || is old "N"))

theorem stepOk_elim {σ : Type} [BEq σ] [LawfulBEq σ] {S : List σ} {d : σ} {tr : List (Nat × Nat)} {a : String}
    {imp : Bool} {old : Bytes} {s : σ} {f : Bytes → σ} (h : stepOk S d tr a imp old s f = true)
    {x : Bytes} (hx : x ∈ Vof a) (hs : sev (b a) x ≤ sev (b a) old) :
    (∃ t ∈ tr, S.getD t.1 d = s ∧ S.getD t.2 d = f x) ∧ (imp = true → is x "N" = true → is old "N" = true) := by
  have := List.all_eq_true.mp h x hx
  rw [Nat.ble_eq_true_of_le hs] at this
  simp only [Bool.not_true, Bool.false_or, Bool.and_eq_true, Bool.or_eq_true, Bool.not_eq_true'] at this
  refine ⟨covPair_elim this.1, ?_⟩
  intro hi hn
  rcases this.2 with (h1 | h1) | h1
  · rw [hi] at h1; cases h1
  · rw [hn] at h1; cases h1
  · exact h1

def cov1 : Bool :=
  (Vof "AV").all fun av => (Vof "PR").all fun pr => (Vof "UI").all fun ui =>
    S1.contains (sum1 av pr ui) &&
    stepOk S1 (0, 0) tr1 "AV" false av (sum1 av pr ui) (fun x => sum1 x pr ui) &&
    stepOk S1 (0, 0) tr1 "PR" false pr (sum1 av pr ui) (fun x => sum1 av x ui) &&
    stepOk S1 (0, 0) tr1 "UI" false ui (sum1 av pr ui) (fun x => sum1 av pr x)

theorem cov1_ok : cov1 = true := by decide +kernel

theorem cov1_at {av pr ui : Bytes} (hav : av ∈ Vof "AV") (hpr : pr ∈ Vof "PR") (hui : ui ∈ Vof "UI") :
    S1.contains (sum1 av pr ui) = true ∧
    stepOk S1 (0, 0) tr1 "AV" false av (sum1 av pr ui) (fun x => sum1 x pr ui) = true ∧
    stepOk S1 (0, 0) tr1 "PR" false pr (sum1 av pr ui) (fun x => sum1 av x ui) = true ∧
    stepOk S1 (0, 0) tr1 "UI" false ui (sum1 av pr ui) (fun x => sum1 av pr x) = true := by
  have := (List.all_eq_true.mp (List.all_eq_true.mp (List.all_eq_true.mp cov1_ok av hav) pr hpr) ui hui)
  simp only [Bool.and_eq_true] at this
  exact ⟨this.1.1.1, this.1.1.2, this.1.2, this.2⟩

def cov2 : Bool :=
  (Vof "AC").all fun ac => (Vof "AT").all fun at_ =>
    S2.contains (sum2 ac at_) &&
    stepOk S2 (0, 0) tr2 "AC" false ac (sum2 ac at_) (fun x => sum2 x at_) &&
    stepOk S2 (0, 0) tr2 "AT" false at_ (sum2 ac at_) (fun x => sum2 ac x)

theorem cov2_ok : cov2 = true := by decide +kernel

theorem cov2_at {ac at_ : Bytes} (hac : ac ∈ Vof "AC") (hat_ : at_ ∈ Vof "AT") :
    S2.contains (sum2 ac at_) = true ∧
    stepOk S2 (0, 0) tr2 "AC" false ac (sum2 ac at_) (fun x => sum2 x at_) = true ∧
    stepOk S2 (0, 0) tr2 "AT" false at_ (sum2 ac at_) (fun x => sum2 ac x) = true := by
  have := (List.all_eq_true.mp (List.all_eq_true.mp cov2_ok ac hac) at_ hat_)
  simp only [Bool.and_eq_true] at this
  exact ⟨this.1.1, this.1.2, this.2⟩

def cov36At (vc : Bytes) : Bool :=
  (Vof "VI").all fun vi => (Vof "VA").all fun va => (Vof "CR").all fun cr => (Vof "IR").all fun ir => (Vof "AR").all fun ar =>
    S36.contains (sum36 vc vi va cr ir ar) &&
    stepOk S36 (0, 0, 0) tr36 "VC" true vc (sum36 vc vi va cr ir ar) (fun x => sum36 x vi va cr ir ar) &&
    stepOk S36 (0, 0, 0) tr36 "VI" true vi (sum36 vc vi va cr ir ar) (fun x => sum36 vc x va cr ir ar) &&
    stepOk S36 (0, 0, 0) tr36 "VA" true va (sum36 vc vi va cr ir ar) (fun x => sum36 vc vi x cr ir ar) &&
    stepOk S36 (0, 0, 0) tr36 "CR" false cr (sum36 vc vi va cr ir ar) (fun x => sum36 vc vi va x ir ar) &&
    stepOk S36 (0, 0, 0) tr36 "IR" false ir (sum36 vc vi va cr ir ar) (fun x => sum36 vc vi va cr x ar) &&
    stepOk S36 (0, 0, 0) tr36 "AR" false ar (sum36 vc vi va cr ir ar) (fun x => sum36 vc vi va cr ir x)

def cov36 : Bool := (Vof "VC").all cov36At

def cov4 : Bool :=
  (Vof "SC").all fun sc => (Vof "SI").all fun si => (Vof "SA").all fun sa =>
    S4.contains (sum4 sc si sa) &&
    stepOk S4 (0, 0) tr4 "SC" true sc (sum4 sc si sa) (fun x => sum4 x si sa) &&
    stepOk S4 (0, 0) tr4 "SI" true si (sum4 sc si sa) (fun x => sum4 sc x sa) &&
    stepOk S4 (0, 0) tr4 "SA" true sa (sum4 sc si sa) (fun x => sum4 sc si x)

theorem cov4_ok : cov4 = true := by decide +kernel

theorem cov4_at {sc si sa : Bytes} (hsc : sc ∈ Vof "SC") (hsi : si ∈ Vof "SI") (hsa : sa ∈ Vof "SA") :
    S4.contains (sum4 sc si sa) = true ∧
    stepOk S4 (0, 0) tr4 "SC" true sc (sum4 sc si sa) (fun x => sum4 x si sa) = true ∧
    stepOk S4 (0, 0) tr4 "SI" true si (sum4 sc si sa) (fun x => sum4 sc x sa) = true ∧
    stepOk S4 (0, 0) tr4 "SA" true sa (sum4 sc si sa) (fun x => sum4 sc si x) = true := by
  have := (List.all_eq_true.mp (List.all_eq_true.mp (List.all_eq_true.mp cov4_ok sc hsc) si hsi) sa hsa)
  simp only [Bool.and_eq_true] at this
  exact ⟨this.1.1.1, this.1.1.2, this.1.2, this.2⟩

end Proofs.Mono4
