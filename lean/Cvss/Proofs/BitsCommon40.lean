import Cvss.Model.WF
import Cvss.Proofs.Contract
/-!
# Helpers for the CVSS v4.0 bit-field proofs (C07 / C09 / C16)

Nothing here looks at `GenV40.Get`/`GenV40.Set` except the *generic* facts about the generated
`GenV40.validate` loop and about string comparison with an unknown abbreviation.

* `met k`, `abv k`, `vals k` — the `k`-th row of the **Spec** table `Spec.V4.metrics` (0 ≤ k < 32).
* `isMetric_iff`, `legal_iff` — the Spec predicates in terms of row indices.
* `validate_eq` — the generated `validate value L` returns the index of the first occurrence of
  `value` in `L` (and `nil`), or `ErrInvalidMetricValue` when there is none.
* `strEq_unk` — `abv == lit` is false for every literal that is a Spec abbreviation when `abv` is not one.
-/
namespace Proofs.B40
open Spec (Metric legal isMetric findMetric)
open Model (O40)

theorem flet_eq {α : Sort u} (x : Nat) (k : Nat → α) : F64.flet x k = k x := by cases x <;> rfl

/-- masks below 256 only look at the low byte -/
theorem land_mod (u m : Nat) (hm : m < 256) : Nat.land (u % 256) m = Nat.land u m := by
  show (u % 256) &&& m = u &&& m
  have h1 : (u &&& m) % 2^8 = (u % 2^8) &&& (m % 2^8) := Nat.and_mod_two_pow
  have h2 : u &&& m ≤ m := Nat.and_le_right
  have h3 : (u &&& m) % 2^8 = u &&& m := Nat.mod_eq_of_lt (by omega)
  have h4 : m % 2^8 = m := Nat.mod_eq_of_lt (by omega)
  rw [h3, h4] at h1
  exact h1.symm

/-! ## Rows of the Spec table -/

def dM : Metric := ⟨[], [], false, none⟩
/-- `k`-th metric of the specification (canonical order) -/
def met (k : Nat) : Metric := Spec.V4.metrics.getD k dM
def abv (k : Nat) : List Nat := (met k).abv
def vals (k : Nat) : List (List Nat) := (met k).values
/-- number of legal values of metric `k` -/
def nv (k : Nat) : Nat := (vals k).length

theorem metrics_length : Spec.V4.metrics.length = 32 := by decide

theorem mem_metrics {m : Metric} : m ∈ Spec.V4.metrics ↔ ∃ k, k < 32 ∧ m = met k := by
  rw [List.mem_iff_getElem]
  constructor
  · rintro ⟨i, h, e⟩
    refine ⟨i, metrics_length ▸ h, ?_⟩
    simp [met, List.getD_eq_getElem?_getD, List.getElem?_eq_getElem h, e]
  · rintro ⟨k, hk, e⟩
    have h : k < Spec.V4.metrics.length := metrics_length ▸ hk
    refine ⟨k, h, ?_⟩
    simp [e, met, List.getD_eq_getElem?_getD, List.getElem?_eq_getElem h]

theorem met_mem {k : Nat} (hk : k < 32) : met k ∈ Spec.V4.metrics := mem_metrics.2 ⟨k, hk, rfl⟩

/-- the 32 abbreviations are pairwise different, so the table lookup finds row `k` -/
theorem find_abv : ∀ k, k < 32 → findMetric Spec.V4.metrics (abv k) = some (met k) := by decide
theorem abv_inj : ∀ k, k < 32 → ∀ j, j < 32 → abv k = abv j → k = j := by decide

theorem isMetric_abv {k : Nat} (hk : k < 32) : isMetric Spec.V4.metrics (abv k) = true := by
  simp [isMetric, find_abv k hk]

theorem isMetric_iff {a : List Nat} : isMetric Spec.V4.metrics a = true ↔ ∃ k, k < 32 ∧ a = abv k := by
  constructor
  · intro h
    rw [isMetric, findMetric, List.find?_isSome] at h
    obtain ⟨m, hm, e⟩ := h
    obtain ⟨k, hk, rfl⟩ := mem_metrics.1 hm
    have e' : (met k).abv = a := by simpa using e
    exact ⟨k, hk, e'.symm⟩
  · rintro ⟨k, hk, rfl⟩; exact isMetric_abv hk

theorem legal_abv {k : Nat} (hk : k < 32) (v : List Nat) :
    legal Spec.V4.metrics (abv k) v = (vals k).contains v := by
  simp only [legal, find_abv k hk]; rfl

theorem legal_iff {a v : List Nat} :
    legal Spec.V4.metrics a v = true ↔ ∃ k, k < 32 ∧ a = abv k ∧ v ∈ vals k := by
  constructor
  · intro h
    have hm : isMetric Spec.V4.metrics a = true := by
      unfold legal at h; unfold isMetric
      cases hf : findMetric Spec.V4.metrics a with
      | none => rw [hf] at h; exact absurd h (by simp)
      | some m => rfl
    obtain ⟨k, hk, rfl⟩ := isMetric_iff.1 hm
    rw [legal_abv hk] at h
    exact ⟨k, hk, rfl, List.contains_iff_mem.1 h⟩
  · rintro ⟨k, hk, rfl, hv⟩
    rw [legal_abv hk]; exact List.contains_iff_mem.2 hv

theorem legal_isMetric {a v : List Nat} (h : legal Spec.V4.metrics a v = true) :
    isMetric Spec.V4.metrics a = true := by
  obtain ⟨k, hk, rfl, _⟩ := legal_iff.1 h; exact isMetric_abv hk

/-- facts about the value lists, by evaluation of the Spec table -/
theorem nv_lt : ∀ k, k < 32 → nv k < 256 := by decide
theorem nil_not_val : ∀ k, k < 32 → ([] : List Nat) ∉ vals k := by decide
theorem vals_inj : ∀ k, k < 32 → ∀ i, i < nv k → ∀ j, j < nv k →
    (vals k).getD i [] = (vals k).getD j [] → i = j := by decide

/-! ## first index of a value in a list -/

def fidx (v : List Nat) : List (List Nat) → Nat
  | [] => 0
  | x :: xs => if v = x then 0 else fidx v xs + 1

theorem fidx_lt {v : List Nat} {L : List (List Nat)} (h : v ∈ L) : fidx v L < L.length := by
  induction L with
  | nil => cases h
  | cons x xs ih =>
    unfold fidx
    by_cases e : v = x
    · simp [e]
    · have : v ∈ xs := by
        cases h with
        | head => exact absurd rfl e
        | tail _ h => exact h
      have := ih this
      simp [e]; omega

theorem getD_fidx {v : List Nat} {L : List (List Nat)} (h : v ∈ L) : L.getD (fidx v L) [] = v := by
  induction L with
  | nil => cases h
  | cons x xs ih =>
    unfold fidx
    by_cases e : v = x
    · simp [e]
    · have : v ∈ xs := by
        cases h with
        | head => exact absurd rfl e
        | tail _ h => exact h
      simp only [if_neg e, List.getD_cons_succ]; exact ih this

theorem getD_mem {L : List (List Nat)} {i : Nat} (h : i < L.length) : L.getD i [] ∈ L := by
  rw [List.getD_eq_getElem?_getD, List.getElem?_eq_getElem h]; exact List.getElem_mem h

theorem getD_ge {L : List (List Nat)} {i : Nat} (h : L.length ≤ i) : L.getD i [] = [] := by
  rw [List.getD_eq_getElem?_getD, List.getElem?_eq_none h]; rfl

/-- `L.getD i []` is a member of `L` exactly when `i` is in range, provided `[] ∉ L` -/
theorem getD_mem_iff {L : List (List Nat)} (hn : ([] : List Nat) ∉ L) {i : Nat} :
    L.getD i [] ∈ L ↔ i < L.length := by
  constructor
  · intro h
    by_cases hi : i < L.length
    · exact hi
    · rw [getD_ge (by omega)] at h; exact absurd h hn
  · exact getD_mem

/-! ## the generated `validate` -/

/-- the body of the loop in `validate` -/
def vbody (value : List Nat) : List Nat → Nat → Go.Ctl Nat (Nat × Go.Err) := fun enbl i =>
  cond (Go.strEq value enbl) (Go.Ctl.ret (i, Go.errNil))
    (F64.flet (Nat.mod (Nat.add i (1 : Nat)) 256) fun i => Go.Ctl.next i)

theorem forRange_validate (value : List Nat) (L : List (List Nat)) (i : Nat) (h : i + L.length < 256) :
    Go.forRange L i (vbody value)
      = if value ∈ L then Go.Ctl.ret (i + fidx value L, Go.errNil) else Go.Ctl.next (i + L.length) := by
  induction L generalizing i with
  | nil => simp [Go.forRange]
  | cons x xs ih =>
    unfold Go.forRange
    by_cases e : value = x
    · have hb : vbody value x i = Go.Ctl.ret (i, Go.errNil) := by simp [vbody, Go.strEq, e]
      rw [hb]; simp [e, fidx]
    · have h1 : Nat.mod (Nat.add i 1) 256 = i + 1 := Nat.mod_eq_of_lt (by simp at h ⊢; omega)
      have h2 : (i + 1) + xs.length < 256 := by simp at h; omega
      have hb : vbody value x i = Go.Ctl.next (i + 1) := by simp [vbody, Go.strEq, e, flet_eq, h1]
      rw [hb]
      show Go.forRange xs (i + 1) (vbody value) = _
      rw [ih (i + 1) h2]
      by_cases m : value ∈ xs
      · simp [m, e, fidx]; omega
      · simp [m, e]; omega

/-- `validate value L`: index of the first occurrence and `nil`, or `ErrInvalidMetricValue` -/
theorem validate_eq (value : List Nat) (L : List (List Nat)) (h : L.length < 256) :
    GenV40.validate value L = if value ∈ L then (fidx value L, Go.errNil) else (0, Model.eValue) := by
  unfold GenV40.validate
  rw [flet_eq]
  show (match Go.forRange L 0 (vbody value) with
    | Go.Ctl.ret r => r
    | Go.Ctl.brk i => ((0x7FF8DEAD00000000 : Nat), Go.errPanic)
    | Go.Ctl.next i => ((0 : Nat), (Go.Err.mk 4 []))) = _
  rw [forRange_validate value L 0 (by omega)]
  by_cases m : value ∈ L
  · simp [m]
  · simp [m]; rfl

/-! ## unknown abbreviations -/

theorem strEq_unk {a : List Nat} (h : isMetric Spec.V4.metrics a = false) (l : List Nat)
    (hl : (Spec.V4.metrics.any (fun m => m.abv == l)) = true) : Go.strEq a l = false := by
  unfold Go.strEq
  rw [decide_eq_false_iff_not]
  intro e; subst e
  simp [isMetric, findMetric] at h
  simp at hl
  obtain ⟨m, hm, hm'⟩ := hl
  exact h m hm hm'

/-! ## small list facts used for the code vectors -/

theorem getD_set_self {l : List Nat} {k : Nat} (hk : k < l.length) (x : Nat) : (l.set k x).getD k 0 = x := by
  rw [List.getD_eq_getElem?_getD, List.getElem?_set_self hk]; rfl

theorem getD_set_ne {l : List Nat} {k j : Nat} (h : k ≠ j) (x : Nat) : (l.set k x).getD j 0 = l.getD j 0 := by
  rw [List.getD_eq_getElem?_getD, List.getElem?_set_ne h, ← List.getD_eq_getElem?_getD]

/-- case split over the 32 row indices -/
theorem all32 {P : Nat → Prop}
    (h0 : P 0) (h1 : P 1) (h2 : P 2) (h3 : P 3) (h4 : P 4) (h5 : P 5) (h6 : P 6) (h7 : P 7)
    (h8 : P 8) (h9 : P 9) (h10 : P 10) (h11 : P 11) (h12 : P 12) (h13 : P 13) (h14 : P 14) (h15 : P 15)
    (h16 : P 16) (h17 : P 17) (h18 : P 18) (h19 : P 19) (h20 : P 20) (h21 : P 21) (h22 : P 22) (h23 : P 23)
    (h24 : P 24) (h25 : P 25) (h26 : P 26) (h27 : P 27) (h28 : P 28) (h29 : P 29) (h30 : P 30) (h31 : P 31) :
    ∀ k, k < 32 → P k := by
  intro k hk
  match k, hk with
  | 0, _ => exact h0 | 1, _ => exact h1 | 2, _ => exact h2 | 3, _ => exact h3
  | 4, _ => exact h4 | 5, _ => exact h5 | 6, _ => exact h6 | 7, _ => exact h7
  | 8, _ => exact h8 | 9, _ => exact h9 | 10, _ => exact h10 | 11, _ => exact h11
  | 12, _ => exact h12 | 13, _ => exact h13 | 14, _ => exact h14 | 15, _ => exact h15
  | 16, _ => exact h16 | 17, _ => exact h17 | 18, _ => exact h18 | 19, _ => exact h19
  | 20, _ => exact h20 | 21, _ => exact h21 | 22, _ => exact h22 | 23, _ => exact h23
  | 24, _ => exact h24 | 25, _ => exact h25 | 26, _ => exact h26 | 27, _ => exact h27
  | 28, _ => exact h28 | 29, _ => exact h29 | 30, _ => exact h30 | 31, _ => exact h31
  | n + 32, h => exact absurd h (by omega)

end Proofs.B40
