import Cvss.Proofs.Score3M30
/-! C03, v3.0, environmental-inner enumeration (c): Modified attack vector code 1; 4 chunks of 4,374 tuples.
    (Generated layout; each theorem evaluates the generated `roundup`, `pow15`, `cia`, `ciar` and weight functions.) -/
namespace Proofs.Score3.V30
set_option maxRecDepth 20000 in
set_option maxHeartbeats 4000000 in
theorem env_0_1_0 : chunkEnv 0 1 0 = true := by decide +kernel
set_option maxRecDepth 20000 in
set_option maxHeartbeats 4000000 in
theorem env_0_1_1 : chunkEnv 0 1 1 = true := by decide +kernel
set_option maxRecDepth 20000 in
set_option maxHeartbeats 4000000 in
theorem env_1_1_0 : chunkEnv 1 1 0 = true := by decide +kernel
set_option maxRecDepth 20000 in
set_option maxHeartbeats 4000000 in
theorem env_1_1_1 : chunkEnv 1 1 1 = true := by decide +kernel
end Proofs.Score3.V30
