import Cvss.Proofs.Score4Main
import Cvss.Proofs.Mono4All
/-!
# v4.0 score, bit level

`core_bits`: the generated `Score_core` returns **exactly the bit pattern** `F64.tenth k` (never `-0.0`):
in the no-impact case it returns the literal `+0.0 = F64.tenth 0`; otherwise the Spec's score is at least 1 tenth
(`Mono4.bridge_all`, kernel-checked on all 52,650 points), `F64.tenth k` is then a non-zero finite number and IEEE
`==` with a non-zero number is equality of bit patterns (`eq_bits`).
-/
set_option maxRecDepth 100000
namespace Proofs.Score4
open GenV40
open Spec.V4 (orElse)

/-- IEEE `==` with a non-zero, non-NaN right-hand side is equality of the bit patterns -/
theorem eq_bits {x y : Nat} (h : F64.eq x y = true) (hy : Nat.mod y F64.P63 ≠ 0) : x = y := by
  unfold F64.eq at h
  simp only [flet_eq] at h
  cases hf : F64.isFin2 x y
  · rw [hf, condF] at h
    unfold FB.eq at h
    simp only [Bool.and_eq_true, Bool.or_eq_true, beq_iff_eq] at h
    rcases h.2 with hz | he
    · exfalso
      have := hz.2
      unfold FB.isZero at this
      simp only [beq_iff_eq] at this
      exact hy this
    · exact he
  · rw [hf, condT] at h
    simp only [Bool.or_eq_true, Bool.and_eq_true] at h
    rcases h with he | hz
    · exact Nat.eq_of_beq_eq_true he
    · exfalso
      exact hy (Nat.eq_of_beq_eq_true hz.2)

theorem tenth_nonzero : ((List.range 128).all fun k => Nat.beq k 0 || !(Nat.beq (Nat.mod (F64.tenth k) F64.P63) 0)) = true := by
  decide +kernel

theorem eq_tenth_bits {x k : Nat} (h : F64.eq x (F64.tenth k) = true) (h1 : 1 ≤ k) (h2 : k < 128) : x = F64.tenth k := by
  apply eq_bits h
  have := List.all_eq_true.mp tenth_nonzero k (List.mem_range.mpr h2)
  simp only [Bool.or_eq_true, Bool.not_eq_true'] at this
  rcases this with h0 | hn
  · have := Nat.eq_of_beq_eq_true h0; omega
  · intro e
    rw [e] at hn
    cases hn

/-- **core, bit level** -/
theorem core_bits (r0 r1 r2 r3 r4 r5 r6 r7 r8 r9 r10 r11 r12 r13 r14 r15 r16 r17 r18 r19 r20 r21 r22 r23 r24 r25 : Nat)
    (h0 : r0 < 4) (h1 : r1 < 5) (h2 : r2 < 2) (h3 : r3 < 3) (h4 : r4 < 2) (h5 : r5 < 3) (h6 : r6 < 3) (h7 : r7 < 4)
    (h8 : r8 < 3) (h9 : r9 < 4) (h10 : r10 < 3) (h11 : r11 < 4) (h12 : r12 < 3) (h13 : r13 < 4) (h14 : r14 < 3)
    (h15 : r15 < 4) (h16 : r16 < 3) (h17 : r17 < 5) (h18 : r18 < 3) (h19 : r19 < 4) (h20 : r20 < 3) (h21 : r21 < 5)
    (h22 : r22 < 4) (h23 : r23 < 4) (h24 : r24 < 4) (h25 : r25 < 4) :
    Score_core r0 r1 r2 r3 r4 r5 r6 r7 r8 r9 r10 r11 r12 r13 r14 r15 r16 r17 r18 r19 r20 r21 r22 r23 r24 r25 =
      F64.tenth (scoreS (orElse (nmMAV r1) (nmAV r0)) (orElse (nmMAC r3) (nmAC r2)) (orElse (nmMAT r5) (nmAT r4))
        (orElse (nmMPR r7) (nmPR r6)) (orElse (nmMUI r9) (nmUI r8)) (orElse (nmMVC r11) (nmVC r10))
        (orElse (nmMVI r15) (nmVI r14)) (orElse (nmMVA r19) (nmVA r18)) (orElse (nmMSC r13) (nmSC r12))
        (orElse (nmMSI r17) (nmSI r16)) (orElse (nmMSA r21) (nmSA r20)) (orElse (nmE r25) (Spec.b "A"))
        (orElse (nmCR r22) (Spec.b "H")) (orElse (nmIR r23) (Spec.b "H")) (orElse (nmAR r24) (Spec.b "H"))) := by
  rw [Score_core_eq_ScoreH, ScoreH_eq2]
  unfold ScoreH2
  rw [mvc_eq]
  -- effective values
  obtain ⟨eAV, hav⟩ := st_AV h0 h1
  obtain ⟨eAC, hac⟩ := st_AC h2 h3
  obtain ⟨eAT, hat⟩ := st_AT h4 h5
  obtain ⟨ePR, hpr⟩ := st_PR h6 h7
  obtain ⟨eUI, hui⟩ := st_UI h8 h9
  obtain ⟨eVC, hvc⟩ := st_VC h10 h11
  obtain ⟨eVI, hvi⟩ := st_VI h14 h15
  obtain ⟨eVA, hva⟩ := st_VA h18 h19
  obtain ⟨eSC, hsc⟩ := st_SC h12 h13
  rw [eAV, eAC, eAT, ePR, eUI, eVC, eVI, eVA, eSC]
  generalize mod_ r0 r1 = av at hav ⊢
  generalize mod_ r2 r3 = ac at hac ⊢
  generalize mod_ r4 r5 = at_ at hat ⊢
  generalize mod_ r6 r7 = pr at hpr ⊢
  generalize mod_ r8 r9 = ui at hui ⊢
  generalize mod_ r10 r11 = vc at hvc ⊢
  generalize mod_ r14 r15 = vi at hvi ⊢
  generalize mod_ r18 r19 = va at hva ⊢
  generalize mod_ r12 r13 = sc at hsc ⊢
  -- per-EQ facts
  obtain ⟨x1, s1, p1, l1, d1, b1⟩ := g1 hav hpr hui
  obtain ⟨x2, s2, p2, l2, d2, b2⟩ := g2 hac hat
  obtain ⟨x3, s3, p3, l3, l6, d3, b3, b6, nx⟩ := g36 hvc hvi hva h22 h23 h24
  obtain ⟨x4, s4, p4, l4, d4, b4⟩ := g4 hsc h16 h17 h20 h21
  obtain ⟨l5, b5, d5⟩ := g5 h25
  obtain ⟨nVC, _, _, _⟩ := nN hvc
  obtain ⟨_, nVI, _, _⟩ := nN hvi
  obtain ⟨_, _, nVA, _⟩ := nN hva
  obtain ⟨_, _, _, nSC⟩ := nN hsc
  obtain ⟨nSI, _⟩ := nNS h16 h17
  obtain ⟨_, nSA⟩ := nNS h20 h21
  rw [scoreS_eq]
  unfold allN
  rw [nVC, nVI, nVA, nSC, nSI, nSA]
  unfold effS
  cases hN : (Spec.V4.is (nmVC vc) "N" && Spec.V4.is (nmVI vi) "N" && Spec.V4.is (nmVA va) "N" &&
      Spec.V4.is (nmSC sc) "N" && Spec.V4.is (orElse (nmMSI r17) (nmSI r16)) "N" &&
      Spec.V4.is (orElse (nmMSA r21) (nmSA r20)) "N")
  · -- some impact: the MacroVector algorithm
    rw [condF]
    unfold scoreMV
    simp only []
    have hl := loops_eq av ac at_ pr ui vc vi va sc (mod_ r16 r17) (mod_ r20 r21) (reqFix r22) (reqFix r23) (reqFix r24)
      (eq1c av pr ui) (eq2c ac at_) (eq3c vc vi va) (eq4r sc r17 r16 r21 r20) (eq6c vc vi va r22 r23 r24)
      x1 x2 x3 x4 s1 s2 s3 s4
    rw [p1, p2, p3, p4] at hl
    rw [scoreTail_eq _ _ _ _ _ _ _ _ _ _ _ _ _ _ _ _ _ _ _ _ _ _ _ _ hl]
    have ht := tailOk_all b1 b2 b3 b4 b5 b6 nx d1 d2 d3 d4
    have hp := Proofs.Mono4.bridge_all b1 b2 b3 b4 b5 b6 nx d1 d2 d3 d4
    unfold tailOk at ht
    have hbits := eq_tenth_bits ht (by rw [hp.1]; exact hp.2) (by rw [hp.1]; exact Proofs.Mono4.scoreP_lt ..)
    unfold effS reqS at *
    rw [← l1, ← l2, ← l3, ← l4, ← l5, ← l6, d5]
    simpa using hbits
  · -- no impact
    rw [condT]
    simp only [if_true]
    decide +kernel


end Proofs.Score4
